(** C11 — A crash at any point of writing never makes a reader see a wrong
    shape.  Statements only; proofs in Proofs/CrashStates.v (writer side),
    Proofs/CrashRead.v (reader side), Proofs/CrashTheorem.v, Proofs/TornLength.v. *)
From SF Require Import Model.Bytes Model.F64 Model.ShapeType Model.Shapes Model.Res Model.Encode Model.Writer
  Model.Prog Model.Decode Model.Reader Spec.Esri Spec.Denote Spec.Layout.
From SF Require Import Proofs.WriterCore Proofs.WriterInv Proofs.WriterFaults Proofs.EncodeRef Proofs.LayoutConf Proofs.RoundTrip
  Proofs.ReaderSeq Proofs.CrashRead Proofs.CrashStates Proofs.CrashTheorem Proofs.TornLength Proofs.HeaderMix Proofs.CrashCommit
  Proofs.CommitTheorem Proofs.IndexReader Proofs.IndexFiles Proofs.CrashIndex Proofs.CrashStatesShx Proofs.CrashIndexTheorem.
Open Scope Z_scope.

(** The crash model is the property's own: what was persisted is the result
    of a prefix of the operations issued to the destination, the cut possibly
    falling inside a write — [is_prefix p (explode trace)], where [explode]
    splits every `write_all` into single bytes and [trace] is the operation log
    of the destination (compared with the real writer's log by the
    correspondence check).

    Writer side: after ANY history of writes and finalizes, every such prefix of
    the .shp operation sequence leaves H' ++ (a byte-prefix of the record
    stream of the accepted shapes), where H' is 100 bytes — any mixture of an
    old and a new header — or fewer with nothing after them. *)
Theorem C11_crash_states : forall (hs : bool) (cs : list wcall) (e : wending),
  Forall call_ok cs ->
  forall p, is_prefix p (explode (trace (w_shp (snd (run_history hs world0 cs e))))) ->
  crash_form (records_from 1 (accepted_acc [] cs)) (fst (bp_ops p ([], 0%nat))).
Proof. exact crash_states_shp. Qed.
Print Assumptions C11_crash_states.

(** Reader side, for ANY 100 bytes in front (whatever length, type and box
    they declare) and any byte-prefix of a stream of conformant records: opening
    fails, or sequential reading yields a prefix of what the records denote,
    followed by at most one UnexpectedEof. *)
Theorem C11_read_any_header : forall (req : option shape_type) (H' : bytes) (rs : list (Z * ref_rec)) (m : Z) (fuel : nat),
  length H' = 100%nat -> Forall (record_ok req) rs -> 0 <= m <= zlen (ref_records_bytes rs) ->
  zlen (ref_records_bytes rs) < two31 * 4 ->
  let data := H' ++ firstn (Z.to_nat m) (ref_records_bytes rs) in
  (exists e s', run r_new (src_of data) = (Err e, s')) \/
  (exists j tail ended st' s',
     run (st <-- r_new ;; it_pull fuel req st) (src_of data)
     = (Ok (map (fun nr => Ok (denote (snd nr))) (firstn j rs) ++ tail, ended, st'), s') /\
     (tail = [] \/ tail = [Err EIoEof])).
Proof. exact crash_read_noindex. Qed.
Print Assumptions C11_read_any_header.

(** Together: whatever prefix of the .shp operations was persisted, a reader
    (generic or of the file's type, any number of pulls) opened on it without
    index either fails to open or yields shapes that form a prefix of the
    shapes written ([on_read] of them, C01), then at most one error: never a
    shape that was not written, never a reordered one, never a panic. *)
Theorem C11_crash_prefix : forall (hs : bool) (cs : list wcall) (e : wending) (req : option shape_type) (fuel : nat),
  Forall call_ok cs ->
  let ss := accepted_acc [] cs in
  Forall shape_ok ss -> FileFits ss -> RecordsFit ss -> (req = None \/ req = Some (file_type ss)) ->
  forall p, is_prefix p (explode (trace (w_shp (snd (run_history hs world0 cs e))))) ->
  let buf := fst (bp_ops p ([], 0%nat)) in
  (exists r s', run r_new (src_of buf) = (r, s') /\ forall st, r <> Ok st) \/
  (exists j tail ended st' s',
     run (st <-- r_new ;; it_pull fuel req st) (src_of buf)
     = (Ok (map (fun s => Ok (on_read s)) (firstn j ss) ++ tail, ended, st'), s') /\
     (tail = [] \/ tail = [Err EIoEof])).
Proof. exact crash_prefix. Qed.
Print Assumptions C11_crash_prefix.

(** L4: the length field of the header, torn at any of its 4 bytes between the
    value a written by an earlier finalize and the value b >= a being written,
    reads as a value >= a: a torn header never hides records an earlier
    finalize committed. *)
Theorem C11_torn_length_monotone : forall (a b : Z) (j : nat),
  0 <= a <= b -> b < two32 -> (j <= 4)%nat ->
  a <= of_be (firstn j (be_bytes 4 b) ++ skipn j (be_bytes 4 a)).
Proof. exact torn_be32_monotone. Qed.
Print Assumptions C11_torn_length_monotone.

(** A header slot torn at any byte between two headers of the same file type
    (the older declaring len1 words, the newer len2 >= len1) is itself a
    well-formed header: same code, version and type, a length between len1 and
    2^31, some 64-bit patterns as box. *)
Theorem C11_torn_header : forall (t : shape_type) (box2 box1 : list f64) (len2 len1 : Z) (i : nat),
  length box1 = 8%nat -> length box2 = 8%nat -> 0 <= len1 <= len2 -> len2 < two31 ->
  exists box3 len3, mixb i (ref_header t box2 len2) (ref_header t box1 len1) = ref_header t box3 len3 /\
    length box3 = 8%nat /\ Forall f64_ok box3 /\ len1 <= len3 < two31.
Proof. exact torn_header. Qed.
Print Assumptions C11_torn_header.

(** Writer side of the last clause: once a finalize has completed with the
    shapes ss0 (not empty) — [tc] is the byte-exploded .shp trace up to and
    including it — every later crash state is
    (header of a later finalize torn over the header of the one before it)
    ++ (byte-prefix of the record stream holding all records of the later of
    the two), both headers being final headers of lists that extend ss0. *)
Theorem C11_committed_states : forall (hs : bool) (cs1 cs2 : list wcall) (e : wending),
  Forall call_ok cs1 -> Forall call_ok cs2 -> accepted_acc [] cs1 <> [] ->
  let tc := explode (trace (w_shp (shp_after hs (cs1 ++ [CFinalize])))) in
  forall p, is_prefix p (explode (trace (w_shp (snd (run_history hs world0 (cs1 ++ CFinalize :: cs2) e))))) ->
  is_prefix tc p ->
  committed_form (accepted_acc [] cs1) (accepted_acc [] (cs1 ++ CFinalize :: cs2)) (fst (bp_ops p ([], 0%nat))).
Proof. exact committed_states. Qed.
Print Assumptions C11_committed_states.

(** Everything written before a finalize that completed on the .shp remains
    readable from it: on EVERY crash state after that finalize (any byte cut
    of any later operation, later finalizes' torn headers included) a reader
    without index opens the file and yields at least the committed shapes —
    still a prefix of the shapes written, then at most one UnexpectedEof. *)
Theorem C11_committed_readable : forall (hs : bool) (cs1 cs2 : list wcall) (e : wending) (req : option shape_type) (fuel : nat),
  Forall call_ok cs1 -> Forall call_ok cs2 ->
  let ss0 := accepted_acc [] cs1 in
  let ss := accepted_acc [] (cs1 ++ CFinalize :: cs2) in
  ss0 <> [] -> Forall shape_ok ss -> FileFits ss -> RecordsFit ss -> (req = None \/ req = Some (file_type ss)) ->
  (length ss0 <= fuel)%nat ->
  let tc := explode (trace (w_shp (shp_after hs (cs1 ++ [CFinalize])))) in
  forall p, is_prefix p (explode (trace (w_shp (snd (run_history hs world0 (cs1 ++ CFinalize :: cs2) e))))) ->
  is_prefix tc p ->
  let buf := fst (bp_ops p ([], 0%nat)) in
  exists j tail ended st' s',
    run (st <-- r_new ;; it_pull fuel req st) (src_of buf)
    = (Ok (map (fun s => Ok (on_read s)) (firstn j ss) ++ tail, ended, st'), s') /\
    (tail = [] \/ tail = [Err EIoEof]) /\ (length ss0 <= j)%nat.
Proof. exact committed_readable. Qed.
Print Assumptions C11_committed_readable.

(** ** The route through the index

    Reader side, general: with ANY index whose entries address records of a
    file ([Indexed]: any order, gaps, filler), on ANY truncation of that file,
    the reader fails to open or answers index entry i with the record it
    addresses when that record lies wholly inside the retained bytes, and with
    UnexpectedEof otherwise ([item_at]) — never a shape that is not in the
    file, never one out of index order, never a panic. *)
Theorem C11_read_index_truncated : forall (req : option shape_type) (data : bytes) (idx : list (Z * Z))
    (recs : list (Z * ref_rec)) (K : Z) (fuel : nat),
  Indexed req data idx recs -> 0 <= K ->
  let cut := firstn (Z.to_nat K) data in
  (exists r s', run (r_with_shx idx) (src_of cut) = (r, s') /\ forall st, r <> Ok st) \/
  (exists st' s',
     run (st <-- r_with_shx idx ;; it_pull fuel req st) (src_of cut)
     = (Ok (firstn fuel (items_all K idx recs), (length (items_all K idx recs) <? fuel)%nat, st'), s')).
Proof. exact crash_read_index. Qed.
Print Assumptions C11_read_index_truncated.

(** What a reader makes of a crash state of the .shx — any 100 bytes followed by
    a byte-prefix of the true index entries: reading the index fails, or
    returns a prefix of the true entries (a torn entry is never returned, a
    header announcing more entries than are there makes the read fail). *)
Theorem C11_index_from_crash_state : forall (Hx' : bytes) (entries : list (Z * Z)) (mx : nat) (idx : list (Z * Z)) (s' : src),
  length Hx' = 100%nat -> Forall (fun e => in_i32 (fst e) /\ in_i32 (snd e)) entries ->
  run read_index_file (src_of (Hx' ++ firstn mx (index_bytes entries))) = (Ok idx, s') ->
  exists c, idx = firstn c entries /\ (c <= length entries)%nat.
Proof. exact read_index_crash. Qed.
Print Assumptions C11_index_from_crash_state.

(** Together, for files laid out in index order (what the writer produces):
    any 100 bytes in front of any byte-prefix of the records, read with any
    prefix of the true index: the reader fails to open, or yields a prefix of
    the records followed by UnexpectedEof errors only. *)
Theorem C11_crash_index_ordered : forall (req : option shape_type) (H' : bytes) (rs : list (Z * ref_rec)) (m c fuel : nat),
  length H' = 100%nat -> Forall (record_ok req) rs -> zlen (ref_records_bytes rs) < two31 * 4 ->
  let shp := H' ++ firstn m (ref_records_bytes rs) in
  let idx := firstn c (ref_index_entries 50 rs) in
  (exists r s', run (r_with_shx idx) (src_of shp) = (r, s') /\ forall st, r <> Ok st) \/
  (exists j st' s',
     run (st <-- r_with_shx idx ;; it_pull fuel req st) (src_of shp)
     = (Ok (firstn fuel (map (fun nr => Ok (denote (snd nr))) (firstn j (firstn c rs))
                         ++ map (fun _ => Err EIoEof) (skipn j (firstn c rs))),
            (length (firstn c rs) <? fuel)%nat, st'), s')).
Proof. exact crash_read_index_ordered. Qed.
Print Assumptions C11_crash_index_ordered.

(** Writer side for the second destination: every byte-level prefix of the
    .shx operation sequence of any history leaves Hx' ++ (byte-prefix of the
    index entries of the accepted shapes). *)
Theorem C11_crash_states_shx : forall (cs : list wcall) (e : wending),
  Forall call_ok cs ->
  forall p, is_prefix p (explode (trace (w_shx (snd (run_history true world0 cs e))))) ->
  crash_form (index_from 50 (accepted_acc [] cs)) (fst (bp_ops p ([], 0%nat))).
Proof. exact crash_states_shx. Qed.
Print Assumptions C11_crash_states_shx.

(** The property for readers opened WITH the index: whatever prefix of the
    .shp operations and, independently, whatever prefix of the .shx operations
    was persisted (cuts inside writes included), if the index can be read at
    all, then the reader either fails to open or answers the index entries
    with a prefix of the written shapes ([on_read] of them) followed by
    UnexpectedEof errors only: never a shape that was not written, never a
    reordered one, never a panic. *)
Theorem C11_crash_prefix_index : forall (cs : list wcall) (e : wending) (req : option shape_type) (fuel : nat),
  Forall call_ok cs ->
  let ss := accepted_acc [] cs in
  Forall shape_ok ss -> FileFits ss -> RecordsFit ss -> (req = None \/ req = Some (file_type ss)) ->
  let w := snd (run_history true world0 cs e) in
  forall p, is_prefix p (explode (trace (w_shp w))) ->
  forall px, is_prefix px (explode (trace (w_shx w))) ->
  let shp := fst (bp_ops p ([], 0%nat)) in
  let shx := fst (bp_ops px ([], 0%nat)) in
  forall idx sx, run read_index_file (src_of shx) = (Ok idx, sx) ->
  (exists r s', run (r_with_shx idx) (src_of shp) = (r, s') /\ forall st, r <> Ok st) \/
  (exists j n st' s', (j <= n)%nat /\ (n <= length ss)%nat /\
     run (st <-- r_with_shx idx ;; it_pull fuel req st) (src_of shp)
     = (Ok (firstn fuel (map (fun s => Ok (on_read s)) (firstn j ss) ++ repeat (Err EIoEof) (n - j)),
            (n <? fuel)%nat, st'), s')).
Proof. exact crash_prefix_index. Qed.
Print Assumptions C11_crash_prefix_index.

(** Non-vacuity: a crash 11 bytes into the second record (before any finalize: the placeholder header still declares an empty file). *)
Example C11_example :
  let p := SPoint XY (mkpt 1 2 0 0) in
  let tr := trace (w_shp (snd (run_history false world0 [CWrite p; CWrite p] EDrop))) in
  let cut := firstn 140 (explode tr) in
  is_prefix cut (explode tr) /\ zlen (fst (bp_ops cut ([], 0%nat))) = 139 /\
  fst (run (st <-- r_new ;; x <-- it_pull 5 None st ;; Ret (fst (fst x))) (src_of (fst (bp_ops cut ([], 0%nat)))))
  = Ok ([] : list (res shape)).
Proof.
  cbv zeta. split.
  - set (l := explode _). rewrite <- (firstn_skipn 140 l) at 2. apply is_prefix_app.
  - split; vm_compute; reflexivity.
Qed.

(** Non-vacuity of the last clause: one point committed by a finalize, a second
    point written, and a crash 30 bytes into the header rewrite of the second
    finalize (inside the length field, whose first two bytes are rewritten):
    the reader still yields the committed point. *)
Example C11_example_committed :
  let p := SPoint XY (mkpt 1 2 0 0) in
  let cs1 := [CWrite p] in let cs2 := [CWrite p] in
  let tc := explode (trace (w_shp (shp_after false (cs1 ++ [CFinalize])))) in
  let tr := explode (trace (w_shp (snd (run_history false world0 (cs1 ++ CFinalize :: cs2) EDrop)))) in
  let cut := firstn (length tc + 28 + 1 + 26) tr in
  is_prefix cut tr /\ is_prefix tc cut /\
  fst (run (st <-- r_new ;; x <-- it_pull 5 None st ;; Ret (fst (fst x))) (src_of (fst (bp_ops cut ([], 0%nat)))))
  = Ok [Ok p].
Proof.
  cbv zeta. split; [|split].
  - set (l := explode (trace (w_shp (snd (run_history _ _ _ _))))). rewrite <- (firstn_skipn (length (explode (trace (w_shp (shp_after false ([CWrite (SPoint XY (mkpt 1 2 0 0))] ++ [CFinalize]))))) + 28 + 1 + 26) l) at 2. apply is_prefix_app.
  - vm_compute. repeat constructor.
  - vm_compute. reflexivity.
Qed.

(** Non-vacuity of the index route: two points, both files cut: the .shx after
    its first finalize (2 entries announced and present), the .shp 11 bytes
    into the second record: the reader yields the first point, then an error. *)
Example C11_example_index :
  let p := SPoint XY (mkpt 1 2 0 0) in
  let w := snd (run_history true world0 [CWrite p; CWrite p] EDrop) in
  let cutp := firstn 140 (explode (trace (w_shp w))) in
  let shp := fst (bp_ops cutp ([], 0%nat)) in
  let shx := fst (bp_ops (explode (trace (w_shx w))) ([], 0%nat)) in
  exists idx, fst (run read_index_file (src_of shx)) = Ok idx /\ length idx = 2%nat /\
    fst (run (st <-- r_with_shx idx ;; x <-- it_pull 5 None st ;; Ret (fst (fst x))) (src_of shp))
    = Ok [Ok p; Err EIoEof].
Proof. cbv zeta. eexists. split; [vm_compute; reflexivity|]. split; vm_compute; reflexivity. Qed.

