(** C11 — A crash at any point of writing never makes a reader see a wrong
    shape.  Statements only; proofs in Proofs/CrashStates.v (writer side),
    Proofs/CrashRead.v (reader side), Proofs/CrashTheorem.v, Proofs/TornLength.v. *)
From SF Require Import Model.Bytes Model.F64 Model.ShapeType Model.Shapes Model.Res Model.Encode Model.Writer
  Model.Prog Model.Decode Model.Reader Spec.Esri Spec.Denote Spec.Layout.
From SF Require Import Proofs.WriterCore Proofs.WriterInv Proofs.WriterFaults Proofs.EncodeRef Proofs.LayoutConf Proofs.RoundTrip
  Proofs.ReaderSeq Proofs.CrashRead Proofs.CrashStates Proofs.CrashTheorem Proofs.TornLength Proofs.HeaderMix Proofs.CrashCommit
  Proofs.CommitTheorem.
Open Scope Z_scope.

(** The crash model is the property's own: what was persisted is the result
    of a prefix of the operations issued to the destination, the cut possibly
    falling inside a write — [is_prefix p (explode trace)], where [explode]
    splits every `write_all` into single bytes and [trace] is the operation log
    of the destination (compared with the real writer's log by the
    correspondence check).

    Writer side: after ANY history of writes and finalizes, every such prefix of
    the .shp operation sequence leaves H' ++ (a byte-prefix of the record
    stream of the accepted shapes), where H' is 100 bytes — any mixture of an
    old and a new header — or fewer with nothing after them. *)
Theorem C11_crash_states : forall (hs : bool) (cs : list wcall) (e : wending),
  Forall call_ok cs ->
  forall p, is_prefix p (explode (trace (w_shp (snd (run_history hs world0 cs e))))) ->
  crash_form (records_from 1 (accepted_acc [] cs)) (fst (bp_ops p ([], 0%nat))).
Proof. exact crash_states_shp. Qed.
Print Assumptions C11_crash_states.

(** Reader side, for ANY 100 bytes in front (whatever length, type and box
    they declare) and any byte-prefix of a stream of conformant records: opening
    fails, or sequential reading yields a prefix of what the records denote,
    followed by at most one UnexpectedEof. *)
Theorem C11_read_any_header : forall (req : option shape_type) (H' : bytes) (rs : list (Z * ref_rec)) (m : Z) (fuel : nat),
  length H' = 100%nat -> Forall (record_ok req) rs -> 0 <= m <= zlen (ref_records_bytes rs) ->
  zlen (ref_records_bytes rs) < two31 * 4 ->
  let data := H' ++ firstn (Z.to_nat m) (ref_records_bytes rs) in
  (exists e s', run r_new (src_of data) = (Err e, s')) \/
  (exists j tail ended st' s',
     run (st <-- r_new ;; it_pull fuel req st) (src_of data)
     = (Ok (map (fun nr => Ok (denote (snd nr))) (firstn j rs) ++ tail, ended, st'), s') /\
     (tail = [] \/ tail = [Err EIoEof])).
Proof. exact crash_read_noindex. Qed.
Print Assumptions C11_read_any_header.

(** Together: whatever prefix of the .shp operations was persisted, a reader
    (generic or of the file's type, any number of pulls) opened on it without
    index either fails to open or yields shapes that form a prefix of the
    shapes written ([on_read] of them, C01), then at most one error: never a
    shape that was not written, never a reordered one, never a panic. *)
Theorem C11_crash_prefix : forall (hs : bool) (cs : list wcall) (e : wending) (req : option shape_type) (fuel : nat),
  Forall call_ok cs ->
  let ss := accepted_acc [] cs in
  Forall shape_ok ss -> FileFits ss -> RecordsFit ss -> (req = None \/ req = Some (file_type ss)) ->
  forall p, is_prefix p (explode (trace (w_shp (snd (run_history hs world0 cs e))))) ->
  let buf := fst (bp_ops p ([], 0%nat)) in
  (exists r s', run r_new (src_of buf) = (r, s') /\ forall st, r <> Ok st) \/
  (exists j tail ended st' s',
     run (st <-- r_new ;; it_pull fuel req st) (src_of buf)
     = (Ok (map (fun s => Ok (on_read s)) (firstn j ss) ++ tail, ended, st'), s') /\
     (tail = [] \/ tail = [Err EIoEof])).
Proof. exact crash_prefix. Qed.
Print Assumptions C11_crash_prefix.

(** L4: the length field of the header, torn at any of its 4 bytes between the
    value a written by an earlier finalize and the value b >= a being written,
    reads as a value >= a: a torn header never hides records an earlier
    finalize committed. *)
Theorem C11_torn_length_monotone : forall (a b : Z) (j : nat),
  0 <= a <= b -> b < two32 -> (j <= 4)%nat ->
  a <= of_be (firstn j (be_bytes 4 b) ++ skipn j (be_bytes 4 a)).
Proof. exact torn_be32_monotone. Qed.
Print Assumptions C11_torn_length_monotone.

(** A header slot torn at any byte between two headers of the same file type
    (the older declaring len1 words, the newer len2 >= len1) is itself a
    well-formed header: same code, version and type, a length between len1 and
    2^31, some 64-bit patterns as box. *)
Theorem C11_torn_header : forall (t : shape_type) (box2 box1 : list f64) (len2 len1 : Z) (i : nat),
  length box1 = 8%nat -> length box2 = 8%nat -> 0 <= len1 <= len2 -> len2 < two31 ->
  exists box3 len3, mixb i (ref_header t box2 len2) (ref_header t box1 len1) = ref_header t box3 len3 /\
    length box3 = 8%nat /\ Forall f64_ok box3 /\ len1 <= len3 < two31.
Proof. exact torn_header. Qed.
Print Assumptions C11_torn_header.

(** Writer side of the last clause: once a finalize has completed with the
    shapes ss0 (not empty) — [tc] is the byte-exploded .shp trace up to and
    including it — every later crash state is
    (header of a later finalize torn over the header of the one before it)
    ++ (byte-prefix of the record stream holding all records of the later of
    the two), both headers being final headers of lists that extend ss0. *)
Theorem C11_committed_states : forall (hs : bool) (cs1 cs2 : list wcall) (e : wending),
  Forall call_ok cs1 -> Forall call_ok cs2 -> accepted_acc [] cs1 <> [] ->
  let tc := explode (trace (w_shp (shp_after hs (cs1 ++ [CFinalize])))) in
  forall p, is_prefix p (explode (trace (w_shp (snd (run_history hs world0 (cs1 ++ CFinalize :: cs2) e))))) ->
  is_prefix tc p ->
  committed_form (accepted_acc [] cs1) (accepted_acc [] (cs1 ++ CFinalize :: cs2)) (fst (bp_ops p ([], 0%nat))).
Proof. exact committed_states. Qed.
Print Assumptions C11_committed_states.

(** Everything written before a finalize that completed on the .shp remains
    readable from it: on EVERY crash state after that finalize (any byte cut
    of any later operation, later finalizes' torn headers included) a reader
    without index opens the file and yields at least the committed shapes —
    still a prefix of the shapes written, then at most one UnexpectedEof. *)
Theorem C11_committed_readable : forall (hs : bool) (cs1 cs2 : list wcall) (e : wending) (req : option shape_type) (fuel : nat),
  Forall call_ok cs1 -> Forall call_ok cs2 ->
  let ss0 := accepted_acc [] cs1 in
  let ss := accepted_acc [] (cs1 ++ CFinalize :: cs2) in
  ss0 <> [] -> Forall shape_ok ss -> FileFits ss -> RecordsFit ss -> (req = None \/ req = Some (file_type ss)) ->
  (length ss0 <= fuel)%nat ->
  let tc := explode (trace (w_shp (shp_after hs (cs1 ++ [CFinalize])))) in
  forall p, is_prefix p (explode (trace (w_shp (snd (run_history hs world0 (cs1 ++ CFinalize :: cs2) e))))) ->
  is_prefix tc p ->
  let buf := fst (bp_ops p ([], 0%nat)) in
  exists j tail ended st' s',
    run (st <-- r_new ;; it_pull fuel req st) (src_of buf)
    = (Ok (map (fun s => Ok (on_read s)) (firstn j ss) ++ tail, ended, st'), s') /\
    (tail = [] \/ tail = [Err EIoEof]) /\ (length ss0 <= j)%nat.
Proof. exact committed_readable. Qed.
Print Assumptions C11_committed_readable.

(** Non-vacuity: a crash 11 bytes into the second record (before any finalize: the placeholder header still declares an empty file). *)
Example C11_example :
  let p := SPoint XY (mkpt 1 2 0 0) in
  let tr := trace (w_shp (snd (run_history false world0 [CWrite p; CWrite p] EDrop))) in
  let cut := firstn 140 (explode tr) in
  is_prefix cut (explode tr) /\ zlen (fst (bp_ops cut ([], 0%nat))) = 139 /\
  fst (run (st <-- r_new ;; x <-- it_pull 5 None st ;; Ret (fst (fst x))) (src_of (fst (bp_ops cut ([], 0%nat)))))
  = Ok ([] : list (res shape)).
Proof.
  cbv zeta. split.
  - set (l := explode _). rewrite <- (firstn_skipn 140 l) at 2. apply is_prefix_app.
  - split; vm_compute; reflexivity.
Qed.

(** Non-vacuity of the last clause: one point committed by a finalize, a second
    point written, and a crash 30 bytes into the header rewrite of the second
    finalize (inside the length field, whose first two bytes are rewritten):
    the reader still yields the committed point. *)
Example C11_example_committed :
  let p := SPoint XY (mkpt 1 2 0 0) in
  let cs1 := [CWrite p] in let cs2 := [CWrite p] in
  let tc := explode (trace (w_shp (shp_after false (cs1 ++ [CFinalize])))) in
  let tr := explode (trace (w_shp (snd (run_history false world0 (cs1 ++ CFinalize :: cs2) EDrop)))) in
  let cut := firstn (length tc + 28 + 1 + 26) tr in
  is_prefix cut tr /\ is_prefix tc cut /\
  fst (run (st <-- r_new ;; x <-- it_pull 5 None st ;; Ret (fst (fst x))) (src_of (fst (bp_ops cut ([], 0%nat)))))
  = Ok [Ok p].
Proof.
  cbv zeta. split; [|split].
  - set (l := explode (trace (w_shp (snd (run_history _ _ _ _))))). rewrite <- (firstn_skipn (length (explode (trace (w_shp (shp_after false ([CWrite (SPoint XY (mkpt 1 2 0 0))] ++ [CFinalize]))))) + 28 + 1 + 26) l) at 2. apply is_prefix_app.
  - vm_compute. repeat constructor.
  - vm_compute. reflexivity.
Qed.

