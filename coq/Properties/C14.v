(** C14 — With an index, records are located by the index alone.
    Statements only; proofs in Proofs/IndexReader.v, Proofs/IndexFiles.v. *)
From SF Require Import Model.Bytes Model.F64 Model.ShapeType Model.Shapes Model.Res Model.Encode
  Model.Prog Model.Decode Model.Reader Spec.Esri Spec.Denote.
From SF Require Import Proofs.ProgLemmas Proofs.RecordL1 Proofs.ReaderSeq Proofs.IndexReader Proofs.IndexFiles.
Open Scope Z_scope.

(** [Indexed req data idx recs]: entry i of the index holds an offset (in
    16-bit words) at which the bytes of [data] start with the whitepaper bytes
    of the conformant record [recs_i] — nothing else is assumed about [data]:
    filler of any length and content before, between and after the records,
    any physical order, even overlapping records.

    For any such .shp (valid header, whatever declared length) and any history
    of reader calls — iterate (any number of items), random access, seek,
    count, size hint — every call returns what the abstract reader
    (records in index order, next position) returns: iteration yields one
    shape per index entry in index order, each the record at that entry's
    offset; random access at i returns the same record i; the count is the
    number of entries. *)
Theorem C14_index_governs :
  forall (req : option shape_type) (t : shape_type) (box : list f64) (len : Z) (rest : bytes)
         (idx : list (Z * Z)) (recs : list (Z * ref_rec)) (cs : list rcall),
  length box = 8%nat -> Forall f64_ok box -> in_i32 len ->
  Indexed req (ref_header t box len ++ rest) idx recs -> Forall rcall_wf cs ->
  exists st' s',
    run (st <-- r_with_shx idx ;; x <-- r_calls req st cs ;; Ret (r_hdr st, fst x)) (src_of (ref_header t box len ++ rest))
    = (Ok (header_of t box len, abs_calls (shapes_of recs) 0 cs), s') /\
    RInv (ref_header t box len ++ rest) idx st' s'.
Proof. exact index_governs. Qed.
Print Assumptions C14_index_governs.

(** The abstract reader, spelled out: a full iteration from a fresh reader
    yields every record in index order and ends; random access agrees with it. *)
Theorem C14_iteration_is_index_order : forall (shapes : list shape) (fuel : nat),
  (length shapes < fuel)%nat ->
  abs_calls shapes 0 [RIter fuel; RCount] = [OItems (map Ok shapes) true; OCountR (Ok (zlen shapes))].
Proof.
  intros shapes fuel H. cbn [abs_calls abs_call]. unfold pull_spec. cbn [skipn].
  destruct (Nat.ltb_spec (length shapes) fuel); [reflexivity|lia].
Qed.

Theorem C14_nth_agrees : forall (shapes : list shape) (k : nat) (i : Z),
  fst (abs_call shapes k (RNth i))
  = ONthR (match nth_error shapes (Z.to_nat i) with Some x => Some (Ok x) | None => None end).
Proof. intros. cbn [abs_call]. destruct (nth_error shapes (Z.to_nat i)); reflexivity. Qed.
Print Assumptions C14_nth_agrees.

(** Non-vacuity: two point records stored in reverse physical order with
    filler before, between and after them; the model reader run on it. *)
Definition ex_data : bytes :=
  ref_header TPoint [0;0;0;0;0;0;0;0] 90 ++ [7;7] ++ ref_record 2 (RPoint 3 4) ++ [9;9;9;9] ++ ref_record 1 (RPoint 1 2) ++ [5;5].
Definition ex_idx : list (Z * Z) := [(51 + 14 + 2, 10); (51, 10)].
Example C14_example :
  Indexed None ex_data ex_idx [(1, RPoint 1 2); (2, RPoint 3 4)] /\
  fst (run (st <-- r_with_shx ex_idx ;; x <-- r_calls None st [RIter 5; RNth 1; RIter 1] ;; Ret (fst x)) (src_of ex_data))
  = Ok [OItems [Ok (SPoint XY (mkpt 1 2 0 0)); Ok (SPoint XY (mkpt 3 4 0 0))] true;
        ONthR (Some (Ok (SPoint XY (mkpt 3 4 0 0))));
        OItems [Ok (SPoint XY (mkpt 1 2 0 0))] false].
Proof.
  split; [|vm_compute; reflexivity]. split; [|vm_compute; reflexivity].
  assert (Ok1 : forall n x y, in_i32 n -> f64_ok x -> f64_ok y -> zlen (ref_content (RPoint x y)) < two31 ->
                record_ok None (n, RPoint x y)).
  { intros n x y Hn Hx Hy Hz. unfold record_ok. cbn [fst snd rec_conformant accepts]. auto. }
  constructor; [|constructor; [|constructor]]; unfold stored_at; cbn [fst snd].
  - split; [lia|]. split; [eexists; vm_compute; reflexivity|].
    apply Ok1; [unfold in_i32, two31; lia|unfold f64_ok, two64; lia|unfold f64_ok, two64; lia|vm_compute; reflexivity].
  - split; [lia|]. split; [eexists; vm_compute; reflexivity|].
    apply Ok1; [unfold in_i32, two31; lia|unfold f64_ok, two64; lia|unfold f64_ok, two64; lia|vm_compute; reflexivity].
Qed.
