(** C13 — Truncated or failing sources give errors and only genuine shapes.
    Statements only; proofs in Proofs/ProgLemmas.v (truncation of simple
    programs), Proofs/SimpleProofs.v (L2), Proofs/Truncation.v, Proofs/Faults.v. *)
From SF Require Import Model.Bytes Model.F64 Model.ShapeType Model.Shapes Model.Res Model.Encode
  Model.Prog Model.Decode Model.Reader Spec.Esri Spec.Denote.
From SF Require Import Proofs.ProgLemmas Proofs.RecordL1 Proofs.SimpleProofs Proofs.ReaderSeq Proofs.Truncation Proofs.Faults.
Open Scope Z_scope.

(** Every conformant file (any of the 14 types, any records, foreign layouts
    included), cut at ANY length l from the end of the header to one byte
    before its end, read sequentially: exactly the records wholly contained in
    the retained bytes are returned, each equal to the original, in order;
    then the cut record is reported as UnexpectedEof; then the iteration ends.
    Nothing is invented. *)
Theorem C13_truncation : forall (req : option shape_type) (g : ref_file) (l : Z),
  file_conformant g -> Forall (record_ok req) (rf_records g) -> 100 <= l < zlen (ref_shp g) ->
  exists s',
    run (st <-- r_new ;; x <-- it_pull (S (S (length (rf_records g)))) req st ;; Ret (fst x))
        (src_of (firstn (Z.to_nat l) (ref_shp g)))
    = (Ok (map (fun nr => Ok (denote (snd nr))) (inside (l - 100) (rf_records g)) ++ [Err EIoEof], true), s').
Proof. exact truncated_file. Qed.
Print Assumptions C13_truncation.

(** Cut inside the header: opening reports UnexpectedEof. *)
Theorem C13_truncated_header : forall (g : ref_file) (l : Z),
  file_conformant g -> 0 <= l < 100 ->
  exists s', run r_new (src_of (firstn (Z.to_nat l) (ref_shp g))) = (Err EIoEof, s').
Proof. exact truncated_header. Qed.
Print Assumptions C13_truncated_header.

(** [inside m rs] is the longest prefix of the records that fits in m bytes. *)
Theorem C13_inside_is_prefix : forall (rs : list (Z * ref_rec)) (m : Z),
  exists rest, rs = inside m rs ++ rest /\ zlen (ref_records_bytes (inside m rs)) <= Z.max 0 m.
Proof.
  induction rs as [|[n r] rs IH]; intros m; cbn [inside].
  - exists []. split; [reflexivity|]. cbn. lia.
  - destruct (Z.leb_spec (zlen (ref_record n r)) m).
    + destruct (IH (m - zlen (ref_record n r))) as (rest & E & Hl). exists rest. split; [cbn [app]; f_equal; exact E|].
      unfold ref_records_bytes in *. cbn [flat_map fst snd]. rewrite Proofs.BytesLemmas.zlen_app. lia.
    + exists ((n, r) :: rs). split; [reflexivity|]. cbn. lia.
Qed.

(** One record: a cut anywhere strictly inside it reads as UnexpectedEof,
    whatever reader is asked for; a cut after it changes nothing. *)
Theorem C13_record_cut : forall (req : option shape_type) (num : Z) (r : ref_rec) (s : src) (rest : bytes) (k : Z),
  in_i32 num -> rec_conformant r -> zlen (ref_content r) < two31 -> accepts req r ->
  clean s -> s_rest s = ref_record num r ++ rest ->
  s_pos s <= k < s_pos s + zlen (ref_record num r) ->
  exists s2, run (read_one_shape req) (truncate k s) = (Err EIoEof, s2).
Proof. exact L2_truncated_record. Qed.
Print Assumptions C13_record_cut.

(** A source that fails its k-th operation (one-shot or persistent): a reading
    program that reaches that operation returns the injected error from the
    call in progress; one that finishes before is unaffected.  Holds for every
    simple program, in particular the record, header and index readers. *)
Theorem C13_fault : forall (req : option shape_type) (s : src) (r : res ((Z * Z) * shape)) (s' : src) (f : fault),
  s_fault s = None -> (s_ops s <= f_at f)%nat -> run (read_one_shape req) s = (r, s') ->
  ((s_ops s' <= f_at f)%nat -> run (read_one_shape req) (with_fault s f) = (r, with_fault s' f)) /\
  ((f_at f < s_ops s')%nat -> fst (run (read_one_shape req) (with_fault s f)) = Err EIoInjected).
Proof. intros req. exact (simple_fault _ (simple_read_one_shape req)). Qed.
Print Assumptions C13_fault.

Theorem C13_fault_open : forall (s : src) (r : res header) (s' : src) (f : fault),
  s_fault s = None -> (s_ops s <= f_at f)%nat -> run read_header s = (r, s') -> (f_at f < s_ops s')%nat ->
  fst (run read_header (with_fault s f)) = Err EIoInjected.
Proof. exact header_fault. Qed.
Print Assumptions C13_fault_open.

(** Short reads: std's `read_exact` loop over a source that returns at most
    c_i >= 1 bytes on its i-th `read` call returns exactly the bytes a source
    that returns them all returns (and fails with EOF in exactly the same
    cases), for every schedule. *)
Theorem C13_short_reads : forall (fuel n : nat) (rest : bytes) (sched : list nat), (n <= fuel)%nat ->
  fst (fst (read_exact_loop fuel n rest sched)) = (if (n <=? length rest)%nat then Some (firstn n rest) else None) /\
  ((n <= length rest)%nat -> snd (fst (read_exact_loop fuel n rest sched)) = skipn n rest).
Proof. exact read_exact_short_reads. Qed.
Print Assumptions C13_short_reads.

Example C13_example :
  fst (fst (read_exact_loop 8 8 [1;2;3;4;5;6;7;8;9] [1; 3; 1; 100]%nat)) = Some [1;2;3;4;5;6;7;8] /\
  fst (fst (read_exact_loop 8 8 [1;2;3;4;5] [2; 2; 2; 2]%nat)) = None.
Proof. split; vm_compute; reflexivity. Qed.
