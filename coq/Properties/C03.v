(** C03 — Reader decodes every spec-conformant .shp, including foreign
    layouts.  Statements only; proofs in Proofs/RecordL1.v, Proofs/ReaderSeq.v.

    The specification side ([ref_shp], [file_conformant], [denote]) is
    Spec/Esri.v and Spec/Denote.v: the whitepaper layout, with per-record
    optional M blocks, PointZ with or without M, null records, parts of zero
    or one vertex, zero parts, arbitrary stored boxes and record numbers. *)
From SF Require Import Model.Bytes Model.F64 Model.ShapeType Model.Shapes Model.Res Model.Encode
  Model.Prog Model.Decode Model.Reader Spec.Esri Spec.Denote.
From SF Require Import Proofs.ProgLemmas Proofs.RecordL1 Proofs.ReaderSeq.
Open Scope Z_scope.

(** One record: on the bytes of any conformant record (whatever follows it),
    the record reader returns the record number, the stored content length and
    the geometry the record denotes, and consumes exactly the record. *)
Theorem C03_record : forall (req : option shape_type) (num : Z) (r : ref_rec),
  in_i32 num -> rec_conformant r -> zlen (ref_content r) < two31 -> accepts req r ->
  reads (read_one_shape req) (ref_record num r) ((num, zlen (ref_content r) / 2), denote r).
Proof. exact L1_record. Qed.
Print Assumptions C03_record.

(** A whole file, any trailing bytes after the declared length: opening
    returns the header as stored; iterating (generic reader, or the typed
    reader when every record has its type) yields exactly what the records
    denote, in order, then ends. *)
Theorem C03_decodes_conformant : forall (req : option shape_type) (g : ref_file) (trailing : bytes),
  file_conformant g ->
  Forall (fun nr => accepts req (snd nr) /\ zlen (ref_content (snd nr)) < two31) (rf_records g) ->
  exists st s',
    run (st <-- r_new ;; x <-- it_pull (S (length (rf_records g))) req st ;; Ret (r_hdr st, x))
        (src_of (ref_shp g ++ trailing))
    = (Ok (header_of (rf_type g) (rf_box g) (declared_words g),
           (map (fun nr => Ok (denote (snd nr))) (rf_records g), true, st)), s').
Proof. exact read_all_noindex. Qed.
Print Assumptions C03_decodes_conformant.

(** Non-vacuity: a PolylineZ file with a null record and a two-part record
    without M block (a layout the library's writer never emits) is conformant,
    and the model reader run on its bytes followed by junk returns the null
    shape and the polyline with NO_DATA measures. *)
Definition ex_body : ref_body :=
  mkbody (1, 2, 3, 4) [0; 2] [] [(1, 2); (3, 4); (5, 6)] ((7, 8), [7; 8; 9]) None.
Definition ex_file : ref_file :=
  mkfile TPolylineZ [1; 2; 3; 4; 7; 8; 0; 0] [(7, RNull); (-3, RMulti TPolylineZ ex_body)].

Example C03_example_conformant : file_conformant ex_file.
Proof.
  unfold file_conformant, ex_file; cbn [rf_box rf_records rf_type].
  split; [reflexivity|]. split; [repeat constructor; unfold f64_ok, two64; lia|]. split.
  - constructor; [|constructor; [|constructor]]; cbn [fst snd ref_type rec_conformant].
    + split; [unfold in_i32, two31; lia|]. split; [exact I|right; reflexivity].
    + split; [unfold in_i32, two31; lia|]. split; [|left; reflexivity]. split; [reflexivity|].
      unfold body_conformant, ex_body; cbn; unfold f64_ok, two64, two31.
      repeat split; try lia; repeat constructor; cbn; try lia.
  - vm_compute. reflexivity.
Qed.

Example C03_example_run :
  fst (run (st <-- r_new ;; x <-- it_pull 3 None st ;; Ret (fst (fst x)))
           (src_of (ref_shp ex_file ++ [1; 2; 3])))
  = Ok [Ok SNull;
        Ok (SPolyline XYZM (mkbox (mkpt 1 2 7 F_NO_DATA) (mkpt 3 4 8 F_NO_DATA))
              [[mkpt 1 2 7 F_NO_DATA; mkpt 3 4 8 F_NO_DATA]; [mkpt 5 6 9 F_NO_DATA]])].
Proof. vm_compute. reflexivity. Qed.
