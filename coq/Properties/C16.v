(** C16 — Polygon and multipatch constructors close and orient rings, losing
    no vertex.  Statements only; proofs in Proofs/PolygonCtor.v. *)
From SF Require Import Model.Bytes Model.F64 Model.ShapeType Model.Shapes Model.Res Model.F64Arith Model.Construct.
From SF Require Import Proofs.F64Order Proofs.BoxExact Proofs.PolygonCtor Proofs.F64Exact.
Open Scope Z_scope.

(** What every polygon constructor (new, with_rings, and hence the macros)
    stores: each ring of the caller, closed and reordered. *)
Theorem C16_rings : forall (d : dim) (rings : list (role * list pt)) (s : shape),
  mk_polygon d rings = Ok s -> rings_of s = map (close_and_reorder d) rings.
Proof. exact mk_polygon_rings. Qed.
Print Assumptions C16_rings.

(** No vertex is lost, altered or moved: a stored ring keeps its declared role
    and is the caller's sequence, closed by one copy of its first vertex if it
    was open, then kept or reversed as a whole — for any vertex count >= 0, any
    coordinates, whatever the orientation test answers. *)
Theorem C16_vertices : forall (d : dim) (ring : role * list pt),
  let c := close_points d (snd ring) in
  (c = snd ring \/ exists p0 r, snd ring = p0 :: r /\ c = snd ring ++ [p0] /\ is_part_closed d (snd ring) = false) /\
  fst (close_and_reorder d ring) = fst ring /\
  (snd (close_and_reorder d ring) = c \/ snd (close_and_reorder d ring) = rev c).
Proof.
  intros d ring c. split; [apply close_points_vertices|]. apply close_and_reorder_vertices.
Qed.
Print Assumptions C16_vertices.

(** Closure: every stored ring with at least one vertex whose first vertex has
    no NaN coordinate is closed: first == last in every coordinate the point
    type has (X, Y, and M, Z where present). *)
Theorem C16_closed : forall (d : dim) (ring : role * list pt),
  snd ring <> [] -> pt_nn d (hd pt0 (snd ring)) ->
  is_part_closed d (snd (close_and_reorder d ring)) = true.
Proof. exact close_and_reorder_closed. Qed.
Print Assumptions C16_closed.

(** Orientation: the stored vertex order agrees with the declared role — the
    orientation test (sign of the IEEE shoelace sum: negative = inner) of the
    stored ring returns the ring's role — whenever the test tells the closed
    ring from its mirror image.  (On coordinates where the shoelace sum is
    evaluated exactly the test is the sign of the exact signed area, and a ring
    of non-zero area differs from its mirror image; that arithmetic fact is
    checked on the implementation's output with exact rationals, not proved:
    see DESIGN.md, C16.) *)
Theorem C16_orientation : forall (d : dim) (ring : role * list pt),
  let c := close_points d (snd ring) in
  ring_role (rev c) <> ring_role c ->
  ring_role (snd (close_and_reorder d ring)) = fst ring.
Proof. exact close_and_reorder_oriented. Qed.
Print Assumptions C16_orientation.

(** Rebuilding a polygon from its own rings changes nothing when every ring is
    closed and its role agrees with the orientation test. *)
Theorem C16_idempotent : forall (d : dim) (rings : list (role * list pt)) (s : shape),
  mk_polygon d rings = Ok s ->
  Forall (fun r => is_part_closed d (snd r) = true /\ ring_role (snd r) = fst r) (rings_of s) ->
  mk_polygon d (rings_of s) = Ok s.
Proof. exact mk_polygon_idempotent. Qed.
Print Assumptions C16_idempotent.

(** Multipatch constructors close the four ring kinds in the same way and
    leave triangle strips and fans untouched. *)
Theorem C16_multipatch : forall (patches : list (pkind * list pt)) (s : shape),
  mk_multipatch patches = Ok s ->
  patches_of s = map close_patch patches /\
  forall p, fst (close_patch p) = fst p /\
            (if pkind_is_ring (fst p) then snd (close_patch p) = close_points XYZM (snd p) else snd (close_patch p) = snd p).
Proof. intros patches s H. split; [apply mk_multipatch_patches, H|apply close_patch_spec]. Qed.
Print Assumptions C16_multipatch.

(** Orientation by EXACT signed area, on the exact domain: all X and Y of the
    closed ring are finite doubles z * 2^e with one common exponent
    -500 <= e <= 480 and integers |z| <= C such that
    (number of vertices + 1) * 4 C^2 < 2^53 ([exact_domain]; e.g. integers up to
    2^20 in rings of up to 2047 vertices, or any scaling of them by a power of
    two).  There every IEEE operation of the shoelace evaluation is exact and
    the orientation test IS the sign of the exact shoelace sum [sh2] (twice the
    signed area, clockwise positive, in units of 2^(2e)). *)
Theorem C16_test_is_exact_sign : forall (e C : Z) (ps : list pt) (zs : list (Z * Z)),
  exact_domain e C ps zs -> ring_is_inner ps = (sh2 zs <? 0).
Proof. intros e C ps zs [H1 H2 H3 H4 H5]. exact (ring_is_inner_exact e C ps zs H1 H2 H3 H4 H5). Qed.
Print Assumptions C16_test_is_exact_sign.

(** Reversal negates the exact area, so a ring of non-zero area is always told
    from its mirror image... *)
Theorem C16_area_of_reverse : forall zs, sh2 (rev zs) = - sh2 zs.
Proof. exact sh2_rev. Qed.
Print Assumptions C16_area_of_reverse.

(** ...and the stored ring is the caller's closed ring or its reverse, still in
    the exact domain, clockwise (sum >= 0) when declared Outer and
    counter-clockwise (sum <= 0) when declared Inner, with the same non-zero
    area magnitude: every outer ring clockwise, every inner ring
    counter-clockwise by exact signed area, either order when the area is zero. *)
Theorem C16_orientation_exact : forall (d : dim) (ring : role * list pt) (e C : Z) (zs : list (Z * Z)),
  exact_domain e C (close_points d (snd ring)) zs ->
  exists zs', exact_domain e C (snd (close_and_reorder d ring)) zs' /\
              (zs' = zs \/ zs' = rev zs) /\
              (fst ring = Outer -> 0 <= sh2 zs') /\ (fst ring = Inner -> sh2 zs' <= 0) /\
              (sh2 zs <> 0 -> sh2 zs' <> 0).
Proof. exact close_and_reorder_exact. Qed.
Print Assumptions C16_orientation_exact.

(** Rebuilding a polygon whose rings have non-zero (exact) area from its own
    rings changes nothing. *)
Theorem C16_idempotent_exact : forall (d : dim) (rings : list (role * list pt)) (s : shape),
  mk_polygon d rings = Ok s ->
  Forall (fun r => snd r <> [] /\ pt_nn d (hd pt0 (snd r)) /\ exact_nonzero d r) rings ->
  mk_polygon d (rings_of s) = Ok s.
Proof. exact mk_polygon_idempotent_exact. Qed.
Print Assumptions C16_idempotent_exact.

(** Non-vacuity of the exact domain: the closed counter-clockwise unit triangle. *)
Example C16_exact_example :
  let ps := [mkpt 0 0 0 0; mkpt one64 0 0 0; mkpt 0 one64 0 0; mkpt 0 0 0 0] in
  let zs := [(0, 0); (1, 0); (0, 1); (0, 0)] in
  exact_domain 0 1 ps zs /\ sh2 zs = -1.
Proof. exact exact_domain_triangle. Qed.

(** Non-vacuity: an open counter-clockwise triangle declared Outer is closed
    and reversed; a ring whose ends differ only in M is closed by a copy of its
    first vertex. *)
Definition c16_one : f64 := 4607182418800017408.
Example C16_example :
  close_and_reorder XY (Outer, [mkpt 0 0 0 0; mkpt c16_one 0 0 0; mkpt 0 c16_one 0 0])
  = (Outer, [mkpt 0 0 0 0; mkpt 0 c16_one 0 0; mkpt c16_one 0 0 0; mkpt 0 0 0 0]) /\
  length (snd (close_and_reorder XYM (Inner, [mkpt 0 0 0 1; mkpt c16_one 0 0 1; mkpt 0 c16_one 0 1; mkpt 0 0 0 2]))) = 5%nat.
Proof. split; vm_compute; reflexivity. Qed.
