(** C12 — Destination I/O failures surface from the failing call; finalize is
    retryable.  Statements only; proofs in Proofs/WriterFaults.v. *)
From SF Require Import Model.Bytes Model.F64 Model.ShapeType Model.Shapes Model.Res Model.Encode Model.Writer.
From SF Require Import Proofs.WriterCore Proofs.WriterInv Proofs.WriterFaults Proofs.WriterRecover Proofs.WriterTotal.
Open Scope Z_scope.

(** Every writer call is a straight-line list of destination operations with
    `?` after each.  Run on destinations with ANY fault plan (the k-th write,
    seek or flush of either file, one-shot or persistent) such a list applies
    exactly a prefix [pre] of its operations to the buffers; the call returns
    Ok exactly when nothing remained ([post] = []) and otherwise the injected
    error of the first operation that failed — from this very call, never a
    panic, never a success. *)
Theorem C12_fault_surfaces : forall (ops : list (dest * wop)) (w : world),
  world_pos_ok w -> Forall (fun o => op_wf (snd o)) ops ->
  exists pre post r w', ops = pre ++ post /\ run_ops ops w = (r, w') /\ world_pos_ok w' /\
    bp_of (w_shp w') = bp_ops (ops_of Shp pre) (bp_of (w_shp w)) /\
    bp_of (w_shx w') = bp_ops (ops_of Shx pre) (bp_of (w_shx w)) /\
    ((r = Ok tt /\ post = []) \/ (r = Err EIoInjected /\ post <> [])).
Proof. exact run_ops_prefix. Qed.
Print Assumptions C12_fault_surfaces.

(** At the level of calls: in ANY writer state and ANY world (any fault plan
    armed on either destination), every call of every history returns Ok, the
    type-mismatch error or the injected I/O error — never a panic. *)
Theorem C12_calls_never_panic : forall (cs : list wcall) (st : wstate) (w : world), world_pos_ok w ->
  Forall good_result (fst (fst (run_calls cs st w))) /\ world_pos_ok (snd (run_calls cs st w)).
Proof. exact run_calls_outcomes. Qed.
Print Assumptions C12_calls_never_panic.

(** In particular for a history started on fresh destinations with a fault
    armed at the k-th operation of either of them, one-shot or persistent,
    ended by drop or finalize + drop. *)
Theorem C12_history_never_panics : forall (hs : bool) (t : dest) (k : nat) (persistent : bool) (cs : list wcall) (e : wending),
  Forall good_result (fst (run_history hs (world_with_fault t k persistent) cs e)).
Proof. exact history_never_panics. Qed.
Print Assumptions C12_history_never_panics.

(** finalize on destinations with any fault plan, in any state whose record
    regions are intact ([WBuf]: what every history of calls, failed ones
    included, maintains): either it succeeds and both files are complete, or
    it returns the injected error, the writer stays dirty and unchanged but
    for the `finalize_interrupted` mark, and the record regions stay intact. *)
Theorem C12_finalize_any : forall (hs : bool) (st : wstate) (w : world) (ss : list shape),
  WBuf hs st w ss -> ws_dirty st = true ->
  exists r st1 w1, w_finalize st w = (r, st1, w1) /\
    ((r = Ok tt /\ ws_dirty st1 = false /\ d_buf (w_shp w1) = final_shp ss /\
      d_buf (w_shx w1) = (if hs then final_shx ss else [])) \/
     (r = Err EIoInjected /\ st1 = set_interrupted st true /\ WBuf hs st1 w1 ss)).
Proof. exact finalize_any. Qed.
Print Assumptions C12_finalize_any.

(** A finalize that failed can be called again and, once the destinations
    work, completes both files exactly as an undisturbed run would
    ([final_shp] / [final_shx] of the accepted shapes: C09_files). *)
Theorem C12_retry : forall (hs : bool) (st : wstate) (w : world) (ss : list shape),
  WBuf hs st w ss -> ws_dirty st = true ->
  forall st1 w1, w_finalize st w = (Err EIoInjected, st1, w1) ->
  exists st2 w2, w_finalize st1 (heal w1) = (Ok tt, st2, w2) /\ ws_dirty st2 = false /\
    d_buf (w_shp w2) = final_shp ss /\ d_buf (w_shx w2) = (if hs then final_shx ss else []).
Proof. exact finalize_retry. Qed.
Print Assumptions C12_retry.

(** More than the retry: after a finalize that failed — at any operation of
    either destination — and once the destinations work, EVERY continuation of
    calls (more writes, accepted or rejected, finalizes anywhere) returns what
    it returns in the undisturbed run ([expected_results]), and dropping the
    writer leaves exactly the files of the undisturbed history.  (Found false
    on the pinned tree: the first write after the failed finalize landed
    inside the header; repaired by 276a00f.) *)
Theorem C12_failed_finalize_harmless : forall (hs : bool) (st : wstate) (w : world) (ss : list shape),
  WBuf hs st w ss -> ws_dirty st = true -> Forall (fun x => type_of x <> TNull) ss ->
  forall st1 w1, w_finalize st w = (Err EIoInjected, st1, w1) ->
  forall cs, Forall call_ok cs ->
  exists st2 w2, run_calls cs st1 (heal w1) = (expected_results ss cs, st2, w2) /\
    files (w_drop st2 w2) = (final_shp (accepted_acc ss cs), if hs then final_shx (accepted_acc ss cs) else []).
Proof. exact failed_finalize_harmless. Qed.
Print Assumptions C12_failed_finalize_harmless.

(** Every state reached by a fault-free history satisfies [WBuf], whatever
    fault plan is armed on either destination afterwards. *)
Theorem C12_reachable : forall (hs : bool) (st : wstate) (w : world) (ss : list shape) (f1 f2 : option (nat * bool)),
  WInv hs st w ss -> WBuf hs st (arm w f1 f2) ss.
Proof. intros hs st w ss f1 f2 H. apply arm_WBuf, WInv_WBuf, H. Qed.
Print Assumptions C12_reachable.

(** Dropping a writer whose destination is failing returns normally: `Drop`
    discards the result of finalize ([w_drop] is total, and by
    C12_fault_surfaces that result is never a panic). *)
Theorem C12_drop : forall (st : wstate) (w : world), w_drop st w = snd (w_finalize st w).
Proof. reflexivity. Qed.

(** Short writes: std's `write_all` loop over a destination that accepts at
    most c_i >= 1 bytes per `write` call delivers exactly the bytes, for every
    schedule. *)
Theorem C12_chunking : forall (fuel : nat) (bs : bytes) (sched : list nat), (length bs <= fuel)%nat ->
  exists pieces, write_all_loop fuel bs sched = Some pieces /\ concat pieces = bs.
Proof. exact write_all_short_writes. Qed.
Print Assumptions C12_chunking.

(** Non-vacuity: the 7th operation on the .shp (inside the header rewrite of
    finalize) fails once; finalize reports it; after healing, finalize
    completes the file. *)
Example C12_example :
  let p := SPoint XY (mkpt 1 2 0 0) in
  let w0 := world_with_fault Shp 23 false in
  fst (run_history false w0 [CWrite p; CFinalize; CHeal; CFinalize] EDrop)
    = [Ok tt; Err EIoInjected; Ok tt; Ok tt] /\
  files (snd (run_history false w0 [CWrite p; CFinalize; CHeal; CFinalize] EDrop))
    = files (snd (run_history false world0 [CWrite p] EDrop)).
Proof. split; vm_compute; reflexivity. Qed.

(** ...and the same with a write between the failed finalize and the next one. *)
Example C12_example_write_after_failed_finalize :
  let p := SPoint XY (mkpt 1 2 0 0) in
  let q := SPoint XY (mkpt 3 4 0 0) in
  let w0 := world_with_fault Shp 23 false in
  fst (run_history true w0 [CWrite p; CFinalize; CHeal; CWrite q; CFinalize] EDrop)
    = [Ok tt; Err EIoInjected; Ok tt; Ok tt; Ok tt] /\
  files (snd (run_history true w0 [CWrite p; CFinalize; CHeal; CWrite q; CFinalize] EDrop))
    = files (snd (run_history true world0 [CWrite p; CWrite q] EDrop)).
Proof. split; vm_compute; reflexivity. Qed.
