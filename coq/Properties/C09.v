(** C09 — Any interleaving of writes and finalize calls yields the same files
    as drop.  Statements only; proofs in Proofs/WriterInv.v. *)
From SF Require Import Model.Bytes Model.ShapeType Model.Shapes Model.Res Model.Encode Model.Writer.
From SF Require Import Proofs.WriterInv Proofs.BulkTail.
Open Scope Z_scope.

(** For every history over {write s, finalize} (writes of any shapes of any
    types: rejected writes are part of the quantification), with or without an
    index destination, ending in drop or in finalize-then-drop, both files are
    byte-identical to those of the same writes followed by a plain drop. *)
Theorem C09_finalize_irrelevant : forall (hs : bool) (cs : list wcall) (e : wending),
  Forall call_ok cs ->
  files (snd (run_history hs world0 cs e)) = files (snd (run_history hs world0 (filter is_write cs) EDrop)).
Proof. exact finalize_irrelevant. Qed.
Print Assumptions C09_finalize_irrelevant.

(** The files are a function of the accepted shapes alone. *)
Theorem C09_files : forall (hs : bool) (cs : list wcall) (e : wending),
  Forall call_ok cs ->
  files (snd (run_history hs world0 cs e))
  = (final_shp (accepted_acc [] cs), if hs then final_shx (accepted_acc [] cs) else []).
Proof. exact history_files. Qed.
Print Assumptions C09_files.

(** After any history, finalize succeeds and leaves both destinations flushed
    and holding the complete files of the shapes accepted so far. *)
Theorem C09_finalize_complete : forall (hs : bool) (cs : list wcall),
  Forall call_ok cs ->
  forall rs st w, run_calls cs (w_new hs) world0 = (rs, st, w) ->
  exists st' w', w_finalize st w = (Ok tt, st', w') /\ ws_dirty st' = false /\
    d_buf (w_shp w') = final_shp (accepted_acc [] cs) /\ d_flushed (w_shp w') = true /\
    (if hs then d_buf (w_shx w') = final_shx (accepted_acc [] cs) /\ d_flushed (w_shx w') = true
     else d_buf (w_shx w') = []).
Proof. exact finalize_complete. Qed.
Print Assumptions C09_finalize_complete.

(** finalize with nothing new to commit issues no operation at all (the
    world, operation logs included, is returned unchanged). *)
Theorem C09_clean_finalize_silent : forall (st : wstate) (w : world),
  ws_dirty st = false -> w_finalize st w = (Ok tt, st, w).
Proof. exact finalize_clean_silent. Qed.
Print Assumptions C09_clean_finalize_silent.

(** Non-vacuity: finalize first, two points, finalize in between. *)
Example C09_example :
  let p := SPoint XY (mkpt 1 2 0 0) in
  let cs := [CFinalize; CWrite p; CFinalize; CWrite p] in
  Forall call_ok cs /\
  zlen (fst (files (snd (run_history true world0 cs EDrop)))) = 156 /\
  files (snd (run_history true world0 cs EDrop)) = files (snd (run_history true world0 [CWrite p; CWrite p] EDrop)).
Proof. cbv zeta. split; [repeat constructor; discriminate|]. split; vm_compute; reflexivity. Qed.

(** ** Histories ended by the bulk helper `write_shapes(self, tail)`
    (Proofs/BulkTail.v).  When every write of the tail succeeds, the files are
    those of the same history with the tail written shape by shape and the
    writer dropped — to which the theorems above apply. *)
Theorem C09_bulk_ending : forall (hs : bool) (w0 : world) (cs : list wcall) (tail : list shape),
  (let '(rs, _, _) := run_calls (cs ++ map CWrite tail) (w_new hs) w0 in
   Forall (fun r => r = Ok tt) (skipn (length cs) rs)) ->
  snd (run_history_bulk hs w0 cs tail) = snd (run_history hs w0 (cs ++ map CWrite tail) EDrop).
Proof. exact bulk_all_ok. Qed.
Print Assumptions C09_bulk_ending.
