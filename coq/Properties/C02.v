(** C02 — Every written .shp is a well-formed ESRI shapefile.  Statements
    only; proofs in Proofs/EncodeRef.v, Proofs/LayoutConf.v, Proofs/RoundTrip.v.

    [ref_shp], [ref_shx], [file_conformant] and [denote] are the whitepaper
    transcription (Spec/Esri.v, Spec/Denote.v); [layout] fixes the choices the
    property names (records numbered 1..n, M block always present, part
    offsets = running sums from 0, record box = the value's box). *)
From SF Require Import Model.Bytes Model.F64 Model.ShapeType Model.Shapes Model.Res Model.Encode Model.Writer
  Spec.Esri Spec.Denote Spec.Layout.
From SF Require Import Proofs.WriterInv Proofs.EncodeRef Proofs.LayoutConf Proofs.RoundTrip.
Open Scope Z_scope.

(** A history of calls on well-formed shape values (every coordinate a 64-bit pattern). *)
Definition call_wf (c : wcall) : Prop :=
  match c with CWrite s => shape_ok s | CFinalize => True | CHeal => False end.

Lemma call_wf_ok cs : Forall call_wf cs -> Forall call_ok cs.
Proof.
  intros H. eapply Forall_impl; [|exact H]. intros [s| |]; cbn; auto. destruct s; cbn; try contradiction; intros _ E; try discriminate;
    destruct d; discriminate.
Qed.

Lemma accepted_wf cs : Forall call_wf cs -> Forall shape_ok (accepted_acc [] cs).
Proof.
  intros H. apply accepted_all; [constructor|]. eapply Forall_impl; [|exact H]. intros [s| |]; cbn; auto.
Qed.

(** One record: type code followed by what `write_to` emits is the whitepaper
    content of the record the value must be stored as — for every shape value. *)
Theorem C02_record : forall s : shape,
  i32_le (st_code (type_of s)) ++ content_bytes s = ref_content (rec_of_shape s).
Proof. exact content_is_ref. Qed.
Print Assumptions C02_record.

(** Whole files, after any history of writes and finalizes ended by drop or
    finalize+drop (n >= 0 shapes): the .shp is exactly the whitepaper file of
    the layout of the accepted shapes — header with code 9994, zeroed words,
    length = real length / 2, version 1000, the type, then the records
    1..n without gaps or trailing bytes — and the .shx is its index. *)
Theorem C02_emits_spec : forall (hs : bool) (cs : list wcall) (e : wending),
  Forall call_wf cs ->
  let ss := accepted_acc [] cs in
  FileFits ss ->
  files (snd (run_history hs world0 cs e))
  = (ref_shp (layout (file_type ss) (h_box (final_hdr ss)) ss),
     if hs then ref_shx (layout (file_type ss) (h_box (final_hdr ss)) ss) else []).
Proof.
  intros hs cs e Hwf ss Hf. rewrite (history_files hs cs e (call_wf_ok cs Hwf)). fold ss.
  rewrite final_shp_is_ref, final_shx_is_ref by exact Hf. reflexivity.
Qed.
Print Assumptions C02_emits_spec.

(** That file satisfies the whitepaper's side conditions (part offsets start at
    0, ascend, stay within the points; counts and lengths consistent; record
    types = file type; lengths fit their fields). *)
Theorem C02_conformant : forall (cs : list wcall),
  Forall call_wf cs ->
  let ss := accepted_acc [] cs in
  FileFits ss ->
  file_conformant (layout (file_type ss) (h_box (final_hdr ss)) ss).
Proof.
  intros cs Hwf ss Hf. apply layout_conformant; [apply accepted_wf, Hwf|apply accepted_one_type0|exact Hf].
Qed.
Print Assumptions C02_conformant.

(** What the whitepaper says those records encode is the geometry handed to
    the writer ([on_read]: the value itself, measures of multi-vertex shapes
    normalised, ring roles from the vertex order; characterised in C01.v). *)
Theorem C02_geometry_recovered : forall (ss : list shape) (t : shape_type) (hb : bbox),
  map (fun nr => denote (snd nr)) (rf_records (layout t hb ss)) = map on_read ss.
Proof.
  intros ss t hb. unfold layout. cbn [rf_records]. generalize 1.
  induction ss as [|s r IH]; intros i; [reflexivity|]. cbn [map numbered snd]. rewrite denote_rec_of_shape, IH. reflexivity.
Qed.
Print Assumptions C02_geometry_recovered.

(** Non-vacuity: two PolylineZ shapes with a finalize in between. *)
Definition ex_line (z : f64) : shape :=
  SPolyline XYZM (mkbox (mkpt 1 2 z 7) (mkpt 3 4 z 8)) [[mkpt 1 2 z 7; mkpt 3 4 z 8]; [mkpt 1 4 z 7; mkpt 3 2 z 8; mkpt 1 2 z 7]].
Example C02_example :
  let cs := [CWrite (ex_line 5); CFinalize; CWrite (ex_line 6)] in
  Forall call_wf cs /\ FileFits (accepted_acc [] cs) /\
  zlen (fst (files (snd (run_history true world0 cs EDrop)))) = 100 + 2 * (8 + 4 + 32 + 8 + 8 + 5 * 32 + 32).
Proof.
  cbv zeta. split.
  - repeat constructor; unfold f64_ok, two64; cbn; lia.
  - split; [vm_compute; reflexivity|vm_compute; reflexivity].
Qed.
