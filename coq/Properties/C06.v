(** C06 — Typed reads agree with generic reads; shape type identity is
    consistent.  Statements only; proofs in Proofs/TypedGeneric.v. *)
From SF Require Import Model.Bytes Model.F64 Model.ShapeType Model.Shapes Model.Res Model.Encode
  Model.Prog Model.Decode Model.Reader Model.Convert.
From SF Require Import Spec.Esri Spec.Denote.
From SF Require Import Proofs.ShapeTypeProofs Proofs.ProgLemmas Proofs.TypedGeneric Proofs.RecordL1 Proofs.ReaderSeq Proofs.TypedIteration.
Open Scope Z_scope.

(** On any source in any state (any bytes, faults, short data): whenever the
    generic read of a record succeeds with value x, the typed read of the same
    record as S returns exactly `S::try_from(x)` — x itself if it is an S,
    otherwise the type-mismatch error naming S as requested and x's type as
    actual. *)
Theorem C06_typed_vs_generic : forall (t : shape_type) (s : src) (h : Z * Z) (x : shape) (s' : src),
  run (read_one_shape None) s = (Ok (h, x), s') ->
  fst (run (read_one_shape (Some t)) s) = rmap (fun y => (h, y)) (try_from t x).
Proof. exact typed_read_one_shape. Qed.
Print Assumptions C06_typed_vs_generic.

(** A typed read never yields a value of another type. *)
Theorem C06_never_wrong_type : forall (t : shape_type) (record_size : Z) (s : src) (x : shape) (s' : src),
  run (read_from (Some t) record_size) s = (Ok x, s') -> type_of x = t.
Proof. exact typed_read_type. Qed.
Print Assumptions C06_never_wrong_type.

(** Type identity, for each of the 14 kinds: the type reported by a generic
    shape value = the type attached to its concrete Rust type; a record with
    type code c decodes (if at all) to the variant whose type has code c; the
    conversion error names the requested type and that same type. *)
Theorem C06_type_identity : forall (s : shape), shape_shapetype s = type_of s.
Proof. exact shape_shapetype_type_of. Qed.
Print Assumptions C06_type_identity.

Theorem C06_dispatch : forall (t : shape_type) (size : Z) (s : src) (x : shape) (s' : src),
  run (read_content t size) s = (Ok x, s') -> type_of x = t /\ st_decode (st_code (type_of x)) = Some t.
Proof. intros t size s x s' E. pose proof (read_content_type t size s x s' E) as H. rewrite H. split; [reflexivity|apply st_decode_code]. Qed.
Print Assumptions C06_dispatch.

Theorem C06_try_from : forall (t : shape_type) (s : shape),
  try_from t s = if st_eqb (type_of s) t then Ok s else Err (EMismatch t (type_of s)).
Proof. exact try_from_spec. Qed.
Print Assumptions C06_try_from.

(** Concrete -> generic -> concrete is the identity. *)
Theorem C06_from_tryfrom : forall (s : shape), try_from (type_of s) (shape_from s) = Ok s.
Proof. exact try_from_from. Qed.
Print Assumptions C06_from_tryfrom.

(** Bulk conversion stops at the first mismatch, with that value's error. *)
Theorem C06_bulk : forall (t : shape_type) (l : list shape),
  convert_all t l = match first_other t l with None => Ok l | Some s => Err (EMismatch t (type_of s)) end.
Proof. exact convert_all_spec. Qed.
Print Assumptions C06_bulk.

Example C06_example :
  let p := SPoint XY (mkpt 1 2 0 0) in let q := SMultipoint XYM box0 [] in
  convert_all TPoint [p; SNull; q] = Err (EMismatch TPoint TNull) /\ try_from TMultipointM q = Ok q /\
  try_from TMultipointZ q = Err (EMismatch TMultipointZ TMultipointM).
Proof. repeat split. Qed.

(** At the level of whole files: reading a conformant record stream (records of
    any types in any mixture, null records included) without index with the
    typed reader of type t yields the records of type t up to the first record
    of another type, for which it yields the mismatch error naming t and that
    record's type, and then ends ([typed_items])... *)
Theorem C06_typed_iteration : forall (t : shape_type) (rs : list (Z * ref_rec)) (st : rstate) (s : src) (rest : bytes),
  r_index st = None -> clean s -> r_cur st = s_pos s ->
  flen_bytes st = r_cur st + zlen (ref_records_bytes rs) -> flen_bytes st < two64 ->
  Forall (record_ok None) rs -> s_rest s = ref_records_bytes rs ++ rest ->
  exists st' s', run (it_pull (S (S (length rs))) (Some t) st) s = (Ok (typed_items t rs, true, st'), s').
Proof. exact it_pull_typed_noindex. Qed.
Print Assumptions C06_typed_iteration.

(** ...which is the generic result converted record by record and cut after
    the first error; hence the bulk typed read (`read_as::<T>`, collecting until
    the first error) is the bulk generic read followed by the bulk conversion. *)
Theorem C06_typed_is_generic_converted : forall (t : shape_type) (rs : list (Z * ref_rec)),
  Forall (fun nr => rec_conformant (snd nr)) rs ->
  typed_items t rs = cut_after_error (map (fun nr => try_from t (denote (snd nr))) rs) /\
  collect_res (typed_items t rs) = convert_all t (map (fun nr => denote (snd nr)) rs).
Proof. intros t rs H. split; [exact (typed_items_convert t rs H)|exact (typed_bulk_is_generic_bulk_converted t rs H)]. Qed.
Print Assumptions C06_typed_is_generic_converted.

