(** C07 — Reading arbitrary bytes never panics, overflows or runs forever.
    Statements only; proofs in Proofs/NoPanic.v, Proofs/NoPanicProofs.v,
    Proofs/ReaderRobust.v.

    The model carries the machine arithmetic of the reader: `as` casts wrap,
    arithmetic that panics in a build with overflow checks yields the outcome
    Panic ([usize_add], the validated counts and offsets of Decode.v).  So
    "the model never yields Panic" is a statement about the validation the
    code performs. *)
From SF Require Import Model.Bytes Model.F64 Model.ShapeType Model.Shapes Model.Res Model.Encode
  Model.Prog Model.Decode Model.Reader.
From SF Require Import Proofs.ProgLemmas Proofs.NoPanic Proofs.NoPanicProofs Proofs.ReaderRobust.
Open Scope Z_scope.

(** Opening: for any source (any bytes, any position, any injected fault)
    neither parsing the index nor opening the reader panics; a reader opened
    on bytes satisfies the bounds [RB] (declared length and index offsets are
    32-bit values, position counter in range). *)
Theorem C07_open : forall (s : src) (index : option (list (Z * Z))),
  all_bytes (s_data s) ->
  match index with Some idx => Forall (fun e => in_i32 (fst e)) idx | None => True end ->
  let p := match index with Some idx => r_with_shx idx | None => r_new end in
  fst (run p s) <> Panic /\ forall st s', run p s = (Ok st, s') -> RB st /\ r_index st = index.
Proof. intros s index. exact (open_total index s). Qed.
Print Assumptions C07_open.

Theorem C07_index_parse : forall (s : src),
  fst (run read_index_file s) <> Panic /\
  (all_bytes (s_data s) -> forall idx s', run read_index_file s = (Ok idx, s') -> Forall (fun e => in_i32 (fst e)) idx).
Proof. intros s. split; [apply index_parse_total|intros Hb idx s' H; eapply read_index_file_range; eassumption]. Qed.
Print Assumptions C07_index_parse.

(** Every history of reader calls — iterate, random access, seek, count, size
    hint, in any order — on any source of less than 2^63 bytes in any state
    (any position, any fault plan) runs to completion: every call returns a
    value (items carry their own errors), never a panic, and the bounds hold
    again afterwards. *)
Theorem C07_no_panic : forall (req : option shape_type) (cs : list rcall) (st : rstate) (s : src),
  RB st -> zlen (s_data s) < two63 -> Forall rcall_nonneg cs ->
  exists outs st' s', run (r_calls req st cs) s = (Ok (outs, st'), s') /\ RB st' /\ length outs = length cs.
Proof. exact r_calls_total. Qed.
Print Assumptions C07_no_panic.

(** Decoding one record of arbitrary bytes, generic or typed, never panics. *)
Theorem C07_record : forall (req : option shape_type) (s : src), fst (run (read_one_shape req) s) <> Panic.
Proof. intros req s. apply np_run, np_read_one_shape. Qed.
Print Assumptions C07_record.

(** Iterations end.  With an index: at most one item per remaining index entry
    (each entry costs 8 bytes of .shx).  Without index, on a fault-free source:
    at most (bytes left)/12 + 1 items (each shape consumed at least 12 bytes
    that exist; an error ends the iteration). *)
Theorem C07_bounded_index : forall (req : option shape_type) (idx : list (Z * Z)) (fuel : nat) (st : rstate) (s : src),
  RB st -> r_index st = Some idx -> (Z.to_nat (zlen idx - r_next st) < fuel)%nat ->
  exists items st' s', run (it_pull fuel req st) s = (Ok (items, true, st'), s') /\
                       (length items <= Z.to_nat (zlen idx - r_next st))%nat.
Proof. intros req idx. exact (it_pull_bounded_index req idx). Qed.
Print Assumptions C07_bounded_index.

Theorem C07_bounded_noindex : forall (req : option shape_type) (k : nat) (st : rstate) (s : src),
  RB st -> r_index st = None -> s_fault s = None -> 0 <= s_pos s <= zlen (s_data s) ->
  zlen (s_data s) - s_pos s < 12 * Z.of_nat k ->
  exists items st' s', run (it_pull (S k) req st) s = (Ok (items, true, st'), s') /\ (length items <= k)%nat.
Proof. exact it_pull_bounded_noindex. Qed.
Print Assumptions C07_bounded_noindex.

(** Non-vacuity: a header declaring 2^31-1 words followed by a record header
    declaring i32::MAX content words, and an index entry with offset i32::MIN. *)
Definition ex_garbage : bytes :=
  i32_be 9994 ++ repeat_Z 0 20 ++ i32_be 2147483647 ++ i32_le 1000 ++ i32_le 5 ++ repeat_Z 0 64
  ++ i32_be 1 ++ i32_be 2147483647 ++ i32_le 5 ++ repeat_Z 255 40.
Example C07_example :
  fst (run (st <-- r_with_shx [(-2147483648, 7); (50, 2147483647)] ;; x <-- r_calls None st [RIter 5; RNth 1; RSeek 9; RIter 5] ;; Ret (fst x))
           (src_of ex_garbage))
  = Ok [OItems [Err EIoInvalidData; Err EInvalidRecordSize] true; ONthR (Some (Err EInvalidRecordSize)); OSeekR (Ok tt);
        OItems [] true].
Proof. vm_compute. reflexivity. Qed.
