(** C10 — A writer holds one shape type; a rejected write changes nothing.
    Statements only; proofs in Proofs/WriterInv.v. *)
From SF Require Import Model.Bytes Model.ShapeType Model.Shapes Model.Res Model.Encode Model.Writer.
From SF Require Import Proofs.WriterInv Proofs.BulkTail.
From SF Require Import Model.Prog Model.Decode Model.Reader Model.Complete Proofs.CompleteBulk.
Open Scope Z_scope.

(** In every reachable state of a writer that has accepted a first shape, a
    write of another type returns the mismatch error naming the file's type
    and the offered type; the writer state and both destinations (buffers,
    positions, operation counters and logs: no operation is issued) are
    returned unchanged. *)
Theorem C10_reject : forall (hs : bool) (cs : list wcall) (s : shape),
  Forall call_ok cs -> type_of s <> TNull ->
  forall rs st w, run_calls cs (w_new hs) world0 = (rs, st, w) ->
  accepts_type (accepted_acc [] cs) s = false ->
  exists t, h_type (ws_hdr st) = t /\ t <> TNull /\
    w_write_shape st w s = (Err (EMismatch t (type_of s)), st, w).
Proof. exact reject_changes_nothing. Qed.
Print Assumptions C10_reject.

(** Hence the final files are those of the history with the rejected calls
    removed. *)
Theorem C10_erase : forall (hs : bool) (cs : list wcall) (e : wending),
  Forall call_ok cs ->
  files (snd (run_history hs world0 cs e)) = files (snd (run_history hs world0 (remove_rejected [] cs) e)).
Proof. exact rejected_erasable. Qed.
Print Assumptions C10_erase.

Example C10_example :
  let p := SPoint XY (mkpt 1 2 0 0) in
  let q := SPoint XYM (mkpt 1 2 0 3) in
  fst (run_history false world0 [CWrite p; CWrite q; CWrite p] EDrop)
    = [Ok tt; Err (EMismatch TPoint TPointM); Ok tt]
  /\ remove_rejected [] [CWrite p; CWrite q; CWrite p] = [CWrite p; CWrite p].
Proof. split; vm_compute; reflexivity. Qed.

(** ** The bulk helper `write_shapes(self, tail)` (Proofs/BulkTail.v) is the
    single calls `write_shape` on the shapes of the tail, in order, up to and
    including the first that fails: it returns that call's result, and leaves
    the writer and the destinations as those calls leave them.  A tail of
    another type than the file's is therefore refused at its first shape by
    [C10_reject], with nothing written. *)
Theorem C10_bulk_is_calls : forall (ss : list shape) (st : wstate) (w : world),
  let '(rs, st1, w1) := run_calls (map CWrite (firstn (bulk_offered ss st w) ss)) st w in
  write_shapes_calls ss st w = (last rs (Ok tt), st1, w1) /\
  length rs = bulk_offered ss st w /\
  Forall (fun r => r = Ok tt) (removelast rs) /\
  ((bulk_offered ss st w < length ss)%nat -> last rs (Ok tt) <> Ok tt).
Proof. exact bulk_is_calls. Qed.
Print Assumptions C10_bulk_is_calls.

(** The complete writer's bulk helper `write_shapes_and_records` likewise
    (Proofs/CompleteBulk.v): the single calls up to and including the first that
    fails - a pair whose shape is of another type is refused there, and by
    [C08_rejected_call] its row is not written. *)
Theorem C10_complete_bulk_is_calls : forall (cs : list (shape * rowk * Z)) (st : cwstate) (w : world),
  let '(rs, st1, w1) := cw_calls (firstn (cbulk_offered cs st w) cs) st w in
  cw_bulk cs st w = (last rs (Ok tt), st1, w1) /\
  length rs = cbulk_offered cs st w /\
  Forall (fun r => r = Ok tt) (removelast rs) /\
  ((cbulk_offered cs st w < length cs)%nat -> last rs (Ok tt) <> Ok tt).
Proof. exact cw_bulk_is_calls. Qed.
Print Assumptions C10_complete_bulk_is_calls.
