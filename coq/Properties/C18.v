(** C18 — A shape's announced byte size equals what its serialisation emits.
    Statements only; proofs are in Proofs/SizeProofs.v. *)
From SF Require Import Model.Bytes Model.F64 Model.ShapeType Model.Shapes Model.Encode.
From SF Require Import Proofs.SizeProofs.
Open Scope Z_scope.

(** For every shape value (no constructor invariant needed), the number of
    bytes `write_to` emits equals `size_in_bytes`. *)
Theorem C18_size : forall s : shape, zlen (content_bytes s) = size_in_bytes s.
Proof. exact size_in_bytes_correct. Qed.
Print Assumptions C18_size.

(** The content length the writer stores (in 16-bit words) counts exactly the
    4-byte type code plus the content; the division by two is exact. *)
Theorem C18_record_len : forall (t : shape_type) (s : shape),
  zlen (concat ([i32_le (st_code t)] ++ content_chunks s)) = 2 * record_words s
  /\ 2 * record_words s = size_in_bytes s + 4.
Proof. exact record_len_both. Qed.
Print Assumptions C18_record_len.

(** A whole record occupies 8 header bytes plus twice the stored word count. *)
Theorem C18_record_bytes : forall t num s, zlen (record_bytes t num s) = 8 + 2 * record_words s.
Proof. exact record_bytes_length. Qed.
Print Assumptions C18_record_bytes.

(** Non-vacuity: a two-part PolylineZ with 5 points. *)
Example C18_example :
  let p := mkpt 1 2 3 4 in
  let s := SPolyline XYZM (mkbox p p) [[p; p]; [p; p; p]] in
  size_in_bytes s = 240 /\ zlen (content_bytes s) = 240 /\ record_words s = 122.
Proof. vm_compute. repeat split. Qed.
