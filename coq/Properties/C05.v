(** C05 — Stored bounding boxes are exact: per shape and in the file header.
    Statements only; proofs in Proofs/F64Order.v, Proofs/BoxExact.v, Proofs/HeaderBox.v. *)
From SF Require Import Model.Bytes Model.F64 Model.ShapeType Model.Shapes Model.Res Model.Encode
  Model.Construct Model.Writer Spec.Esri Spec.Layout.
From SF Require Import Proofs.F64Order Proofs.BoxExact Proofs.HeaderBox Proofs.WriterInv Proofs.EncodeRef.
From SF Require Import Properties.C02.
Open Scope Z_scope.

(** Per shape: whatever a public constructor of a multi-vertex shape returns
    (multipoint; polyline new / with_parts; polygon new / with_rings, after
    closing and reordering; multipatch new / with_parts, after closing), if no
    coordinate of the result is NaN its box is exact: in X and Y — and Z, M
    where the point type has them — each minimum is bit for bit the value of
    some vertex and is <= the value of every vertex, each maximum dually;
    wherever the extreme vertex sits. *)
Theorem C05_shape_box : forall (s : shape),
  (exists d ps, mk_multipoint d ps = Ok s) \/ (exists d ps, mk_polyline_new d ps = Ok s) \/
  (exists d parts, mk_polyline d parts = Ok s) \/ (exists d ring, mk_polygon_new d ring = Ok s) \/
  (exists d rings, mk_polygon d rings = Ok s) \/ (exists patches, mk_multipatch patches = Ok s) ->
  shape_nn s -> shape_box_exact s.
Proof.
  intros s H Hn. destruct H as [(d & ps & H)|[(d & ps & H)|[(d & ps & H)|[(d & r & H)|[(d & rs & H)|(ps & H)]]]]].
  - eapply mk_multipoint_box; eassumption.
  - eapply mk_polyline_new_box; eassumption.
  - eapply mk_polyline_box; eassumption.
  - eapply mk_polygon_new_box; eassumption.
  - eapply mk_polygon_box; eassumption.
  - eapply mk_multipatch_box; eassumption.
Qed.
Print Assumptions C05_shape_box.

(** The box of a shape is what its record stores and what the writer folds into
    the header: for a multi-vertex shape the range in a carried dimension is
    (box minimum, box maximum). *)
Definition box_of (s : shape) : option bbox :=
  match s with SMultipoint _ b _ | SPolyline _ b _ | SPolygon _ b _ | SMultipatch b _ => Some b | _ => None end.

Theorem C05_range_is_box : forall (s : shape) (b : bbox) (c : coord),
  box_of s = Some b -> carried (type_of s) c = true -> range c s = (get c (bmin b), get c (bmax b)).
Proof.
  intros s b c Hb Hc. destruct s as [|d p|d b0 ps|d b0 ps|d b0 ps|b0 ps]; cbn [box_of] in Hb; try discriminate;
    injection Hb as ->; destruct c; try reflexivity; try (destruct d; cbn in Hc; try discriminate; reflexivity).
Qed.
Print Assumptions C05_range_is_box.

(** File header, after any history of writes and finalizes (>= 1 accepted
    shape): the 64 bytes of the header box are [box8 (h_box (final_hdr ss))]
    (C02_emits_spec), and in every dimension the file's type carries — X and Y
    always, Z for Z-typed and multipatch files, M for measured and Z-typed
    files — the stored minimum is bit for bit the range minimum of some
    written shape and is <= that of every written shape, the maximum dually;
    wherever in the sequence the extreme shape sits. *)
Theorem C05_header_box : forall (cs : list wcall) (c : coord),
  let ss := accepted_acc [] cs in
  ss <> [] -> carried (file_type ss) c = true -> Forall (range_good c) ss ->
  let hb := h_box (final_hdr ss) in
  In (get c (bmin hb)) (map (fun s => fst (range c s)) ss) /\
  Forall (fun s => f64_le (get c (bmin hb)) (fst (range c s)) = true) ss /\
  In (get c (bmax hb)) (map (fun s => snd (range c s)) ss) /\
  Forall (fun s => f64_le (snd (range c s)) (get c (bmax hb)) = true) ss.
Proof.
  intros cs c ss Hne Hc Hg. apply (header_box_carried ss (file_type ss) c Hne); try assumption.
  apply Proofs.RoundTrip.accepted_one_type0.
Qed.
Print Assumptions C05_header_box.

(** Dimensions the file's type does not carry are stored as +0.0 (n >= 0 shapes). *)
Theorem C05_header_absent : forall (cs : list wcall) (c : coord),
  let ss := accepted_acc [] cs in
  carried (file_type ss) c = false ->
  get c (bmin (h_box (final_hdr ss))) = 0 /\ get c (bmax (h_box (final_hdr ss))) = 0.
Proof.
  intros cs c ss Hc. apply (header_box_absent ss (file_type ss) c); [|exact Hc].
  apply Proofs.RoundTrip.accepted_one_type0.
Qed.
Print Assumptions C05_header_absent.

(** Non-vacuity: a polygon whose later ring is a single extreme vertex, and a
    file whose Z values are all +inf. *)
Example C05_example_shape :
  exists s, mk_polygon XYZM [(Outer, [mkpt 0 0 F_INF 1; mkpt 0 1 F_INF 2; mkpt 1 1 F_INF 3]); (Inner, [mkpt 9 9 F_INF 0])] = Ok s /\
            shape_nn s /\ box_of s = Some (mkbox (mkpt 0 0 F_INF 0) (mkpt 9 9 F_INF 3)).
Proof.
  eexists. split; [vm_compute; reflexivity|]. split; [|reflexivity].
  repeat constructor; intros c; destruct c; intros _; reflexivity.
Qed.

Example C05_example_header :
  let p := SPoint XYZM (mkpt 1 2 F_INF 5) in
  box8 (h_box (final_hdr [p; p])) = [1; 2; 1; 2; F_INF; F_INF; 5; 5].
Proof. vm_compute. reflexivity. Qed.
