(** C01 — placeholder until the round-trip theorems are proved (see Proofs/). *)
From SF Require Import Model.Bytes.
