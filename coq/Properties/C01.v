(** C01 — Write-then-read round trip preserves every shape exactly.
    Statements only; proofs in Proofs/RoundTrip.v, Proofs/OnRead.v (sequential
    route) and Proofs/IndexReader.v (routes through the index). *)
From SF Require Import Model.Bytes Model.F64 Model.ShapeType Model.Shapes Model.Res Model.Encode Model.F64Arith
  Model.Construct Model.Writer Model.Prog Model.Decode Model.Reader Spec.Esri Spec.Denote Spec.Layout.
From SF Require Import Proofs.ReaderSeq Proofs.WriterInv Proofs.EncodeRef Proofs.LayoutConf Proofs.RoundTrip Proofs.OnRead
  Proofs.IndexReader Proofs.IndexFiles Proofs.PolygonCtor Proofs.F64Exact.
From SF Require Import Model.Paths Proofs.PathsProofs.
From SF Require Import Properties.C02.
Open Scope Z_scope.

(** Any history of writes (and finalizes) of well-formed shapes, then reading
    the produced .shp sequentially — generic reader, or the typed reader of
    the file's type — yields the header that was written, exactly one item per
    written shape, in order, each [on_read] of the written value, and then
    ends.  Guards: the file length fits its field and every record is below
    2 GiB (what the reader accepts). *)
Theorem C01_roundtrip_seq : forall (hs : bool) (cs : list wcall) (e : wending) (req : option shape_type) (trailing : bytes),
  Forall call_wf cs ->
  let ss := accepted_acc [] cs in
  FileFits ss -> RecordsFit ss ->
  (req = None \/ req = Some (file_type ss)) ->
  exists st s',
    run (st <-- r_new ;; x <-- it_pull (S (length ss)) req st ;; Ret (r_hdr st, x))
        (src_of (fst (files (snd (run_history hs world0 cs e))) ++ trailing))
    = (Ok (header_of (file_type ss) (box8 (h_box (final_hdr ss))) (file_words ss),
           (map (fun s => Ok (on_read s)) ss, true, st)), s').
Proof.
  intros hs cs e req trailing Hwf ss Hf Hr Hreq.
  rewrite (history_files hs cs e (call_wf_ok cs Hwf)). cbn [fst]. fold ss.
  apply written_then_read_seq; [apply accepted_wf, Hwf|apply accepted_one_type0|exact Hf|exact Hr|exact Hreq].
Qed.
Print Assumptions C01_roundtrip_seq.


(** The routes through the index: the .shx the writer left parses to one entry
    per shape, and for every history of reader calls on a reader opened with it
    — sequential iteration, random access at any indices in any order,
    seek, count — each call returns what the abstract reader over
    [map on_read ss] returns ([abs_call], Proofs/IndexReader.v): read_nth i is
    [on_read] of the i-th written shape for i < n and nothing beyond, a full
    iteration yields all of them in order. *)
Theorem C01_roundtrip_index : forall (req : option shape_type) (cs : list wcall) (e : wending) (rcs : list rcall),
  Forall call_wf cs ->
  let ss := accepted_acc [] cs in
  FileFits ss -> RecordsFit ss -> (req = None \/ req = Some (file_type ss)) -> Forall rcall_wf rcs ->
  let fs := files (snd (run_history true world0 cs e)) in
  exists idx,
    fst (run read_index_file (src_of (snd fs))) = Ok idx /\ zlen idx = zlen ss /\
    exists s',
      run (st <-- r_with_shx idx ;; x <-- r_calls req st rcs ;; Ret (r_hdr st, fst x)) (src_of (fst fs))
      = (Ok (header_of (file_type ss) (box8 (h_box (final_hdr ss))) (file_words ss),
             abs_calls (map on_read ss) 0 rcs), s').
Proof.
  intros req cs e rcs Hwf ss Hf Hrf Hreq Hr fs. subst fs.
  rewrite (history_files true cs e (call_wf_ok cs Hwf)). cbn [fst snd]. fold ss.
  apply written_then_read_index; try assumption; [apply accepted_wf, Hwf|apply accepted_one_type0].
Qed.
Print Assumptions C01_roundtrip_index.

(** What [on_read] keeps, clause by clause. *)
Theorem C01_same_type : forall s, type_of (on_read s) = type_of s /\ shape_dim (on_read s) = shape_dim s.
Proof. exact on_read_type. Qed.
Print Assumptions C01_same_type.

Theorem C01_xyz_bit_identical : forall s,
  map (map (xyz_of (shape_dim s))) (shape_parts (on_read s)) = map (map (xyz_of (shape_dim s))) (shape_parts s).
Proof. exact on_read_xyz. Qed.
Print Assumptions C01_xyz_bit_identical.

Theorem C01_measures : forall s,
  map (map (m_of (shape_dim s))) (shape_parts (on_read s))
  = map (map (fun p => if is_point s then m_of (shape_dim s) p
                       else if has_m_dim (shape_dim s) then read_m_norm (pm p) else 0)) (shape_parts s).
Proof. exact on_read_measures. Qed.
Print Assumptions C01_measures.

Theorem C01_measure_rule : forall v,
  read_m_norm v = (if f64_is_nan v || f64_le v F_NO_DATA then F_NO_DATA else v).
Proof. exact read_m_norm_spec. Qed.
Print Assumptions C01_measure_rule.

Theorem C01_kinds_and_box : forall s,
  patch_kinds (on_read s) = patch_kinds s /\
  shape_box (on_read s) = match shape_box s with Some b => Some (clean_box (shape_dim s) b) | None => None end.
Proof. intros s. split; [apply on_read_kinds|apply on_read_box]. Qed.
Print Assumptions C01_kinds_and_box.

(** Ring roles are those of the vertex order as stored (the orientation test
    sees X and Y only, which are unchanged). *)
Theorem C01_roles : forall d b rings,
  on_read (SPolygon d b rings)
  = SPolygon d (clean_box d b) (map (fun r => (ring_role (snd r), map (norm_pt d) (snd r))) rings).
Proof.
  intros d b rings. rewrite on_read_roles. f_equal. apply map_ext. intros r. rewrite ring_role_norm. reflexivity.
Qed.
Print Assumptions C01_roles.

(** ...and for a polygon obtained from a public constructor whose rings lie in
    the exact domain (Proofs/F64Exact.v) with non-zero exact area, the role
    re-derived on reading is the role the polygon was built with: roles are kept. *)
Theorem C01_roles_kept : forall d rings b rs,
  mk_polygon d rings = Ok (SPolygon d b rs) -> Forall (exact_nonzero d) rings ->
  on_read (SPolygon d b rs) = SPolygon d (clean_box d b) (map (fun r => (fst r, map (norm_pt d) (snd r))) rs).
Proof.
  intros d rings b rs H Hall. rewrite C01_roles. f_equal.
  pose proof (mk_polygon_rings d rings _ H) as Hr. cbn [rings_of] in Hr. subst rs.
  rewrite !map_map. apply map_ext_in. intros r Hin. rewrite Forall_forall in Hall.
  rewrite (stored_role_exact d r (Hall r Hin)). reflexivity.
Qed.
Print Assumptions C01_roles_kept.

(** Non-vacuity: a PolygonM file with a NaN measure; the model reader run on the writer's bytes. *)
Definition ex_nan : f64 := 9221120237041090560.
Definition ex_poly : shape :=
  SPolygon XYM (mkbox (mkpt 0 0 0 7) (mkpt 4607182418800017408 4607182418800017408 0 8))
    [(Outer, [mkpt 0 0 0 ex_nan; mkpt 0 4607182418800017408 0 7; mkpt 4607182418800017408 4607182418800017408 0 8;
              mkpt 0 0 0 ex_nan])].
Example C01_example :
  let cs := [CWrite ex_poly; CFinalize; CWrite ex_poly] in
  Forall call_wf cs /\ FileFits (accepted_acc [] cs) /\ RecordsFit (accepted_acc [] cs) /\
  fst (run (st <-- r_new ;; x <-- it_pull 3 None st ;; Ret (fst (fst x)))
           (src_of (fst (files (snd (run_history true world0 cs EDrop))))))
  = Ok [Ok (on_read ex_poly); Ok (on_read ex_poly)] /\
  map (map pm) (shape_parts (on_read ex_poly)) = [[F_NO_DATA; 7; 8; F_NO_DATA]].
Proof.
  cbv zeta. split.
  - repeat constructor; unfold f64_ok, two64, ex_nan; cbn; lia.
  - split; [vm_compute; reflexivity|]. split; [repeat constructor|]. split; vm_compute; reflexivity.
Qed.

(** ** By path (Model/Paths.v): `ShapeWriter::from_path`, then `ShapeReader::from_path`
    Whatever the directory held before — older and longer files under the same
    names included — a history written through `ShapeWriter::from_path(n)` and
    opened again through `ShapeReader::from_path(n)` is read through the index
    the writer left, every reader call returning what the abstract reader over
    [map on_read ss] returns; every other file of the directory is what it was.
    ([write_by_path] is None only for a name whose own extension is "shx".) *)
Theorem C01_roundtrip_by_path : forall (f : dir) (n : fname) (req : option shape_type) (cs : list wcall) (e : wending)
    (rcs : list rcall) (rs : list (res unit)) (f' : dir),
  write_by_path f n cs e = Some (rs, f') ->
  Forall call_wf cs ->
  let ss := accepted_acc [] cs in
  FileFits ss -> RecordsFit ss -> (req = None \/ req = Some (file_type ss)) -> Forall rcall_wf rcs ->
  exists shp shx idx,
    sr_open f' n = OOpen shp (Some shx) /\
    (forall m, m <> n -> m <> with_ext n SHX -> fs_get f' m = fs_get f m) /\
    fst (run read_index_file (src_of shx)) = Ok idx /\ zlen idx = zlen ss /\
    exists s',
      run (st <-- r_with_shx idx ;; x <-- r_calls req st rcs ;; Ret (r_hdr st, fst x)) (src_of shp)
      = (Ok (header_of (file_type ss) (box8 (h_box (final_hdr ss))) (file_words ss),
             abs_calls (map on_read ss) 0 rcs), s').
Proof.
  intros f n req cs e rcs rs f' Hw Hwf ss Hf Hrf Hreq Hr.
  unfold write_by_path in Hw. destruct (name_eqb (with_ext n SHX) n) eqn:En; [discriminate|].
  assert (Hn : with_ext n SHX <> n) by (intros H; apply name_eqb_eq in H; congruence).
  destruct (C01_roundtrip_index req cs e rcs Hwf Hf Hrf Hreq Hr) as (idx & Hi & Hl & s' & Hrun).
  destruct (run_history true world0 cs e) as [rs0 w] eqn:Eh. injection Hw as <- <-. cbn [snd] in Hi, Hrun.
  exists (fst (files w)), (snd (files w)), idx.
  split; [exact (open_after_write f n Hn w)|].
  split; [intros m H1 H2; exact (write_frame f n w m H1 H2)|].
  split; [exact Hi|split; [exact Hl|exists s'; exact Hrun]].
Qed.
Print Assumptions C01_roundtrip_by_path.

(** Once the index file is removed the reader opens without index, on the same bytes
    (to which [C01_roundtrip_seq] applies). *)
Theorem C01_by_path_without_index : forall (f : dir) (n : fname) (cs : list wcall) (e : wending) rs f',
  dir_ok f -> write_by_path f n cs e = Some (rs, f') ->
  sr_open (fs_remove f' (with_ext n SHX)) n = OOpen (fst (files (snd (run_history true world0 cs e)))) None.
Proof.
  intros f n cs e rs f' Hok Hw. unfold write_by_path in Hw. destruct (name_eqb (with_ext n SHX) n) eqn:En; [discriminate|].
  assert (Hn : with_ext n SHX <> n) by (intros H; apply name_eqb_eq in H; congruence).
  destruct (run_history true world0 cs e) as [rs0 w] eqn:Eh. injection Hw as <- <-. cbn [snd].
  exact (open_without_shx f n Hn w Hok).
Qed.
Print Assumptions C01_by_path_without_index.

(** A second shapefile written afterwards next to the first (another name with
    the same extension) leaves the first one as it was. *)
Theorem C01_second_shapefile_harmless : forall (f : dir) (p q ext : fname) cs1 e1 cs2 e2 rs1 f1 rs2 f2,
  extension p = Some ext -> extension q = Some ext -> p <> q ->
  write_by_path f p cs1 e1 = Some (rs1, f1) -> write_by_path f1 q cs2 e2 = Some (rs2, f2) ->
  sr_open f2 p = sr_open f1 p.
Proof.
  intros f p q ext cs1 e1 cs2 e2 rs1 f1 rs2 f2 Hp Hq Hne H1 H2.
  unfold write_by_path in H1, H2.
  destruct (name_eqb (with_ext p SHX) p) eqn:Ep; [discriminate|].
  destruct (name_eqb (with_ext q SHX) q) eqn:Eq; [discriminate|].
  assert (Hx : with_ext p SHX <> p) by (intros H; apply name_eqb_eq in H; congruence).
  destruct (run_history true world0 cs1 e1) as [r1 w1]. destruct (run_history true world0 cs2 e2) as [r2 w2].
  injection H1 as <- <-. injection H2 as <- <-.
  rewrite (second_shapefile_harmless f p q ext w1 w2 Hp Hq Hne Hx). symmetry. exact (open_after_write f p Hx w1).
Qed.
Print Assumptions C01_second_shapefile_harmless.

(** The premises are satisfiable: "a.shp" in a directory holding a stale, longer "a.shx". *)
Example C01_by_path_example :
  let f := [([97; 46; 115; 104; 120], FBytes (repeat_Z 7 500))] in
  exists rs f', write_by_path f [97; 46; 115; 104; 112] [] EDrop = Some (rs, f') /\ dir_ok f /\
    extension [97; 46; 115; 104; 112] = Some SHP /\
    match fs_get f' [97; 46; 115; 104; 120] with Some (FBytes b) => zlen b = 100 | _ => False end.
Proof.
  eexists; eexists. split; [vm_compute; reflexivity|]. split; [repeat constructor; cbn; tauto|]. split; reflexivity.
Qed.
