(** C15 — Reader results do not depend on what was called before.
    Statements only; proofs in Proofs/IndexReader.v. *)
From SF Require Import Model.Bytes Model.F64 Model.ShapeType Model.Shapes Model.Res Model.Encode
  Model.Prog Model.Decode Model.Reader Spec.Esri Spec.Denote.
From SF Require Import Proofs.ProgLemmas Proofs.ReaderSeq Proofs.IndexReader.
Open Scope Z_scope.

(** Refinement: in every state satisfying the reader invariant (source
    position known to the reader or marked unknown, cursor within the index) —
    in particular in every state reached by any earlier history of calls — any
    further history of calls returns exactly what the abstract reader
    (shapes in index order, next position) returns, and re-establishes the
    invariant. *)
Theorem C15_history : forall (req : option shape_type) (data : bytes) (idx : list (Z * Z)) (recs : list (Z * ref_rec))
    (cs : list rcall) (st : rstate) (s : src) (k : nat),
  Indexed req data idx recs -> RInv data idx st s -> r_next st = Z.of_nat k -> Forall rcall_wf cs ->
  exists st' s', run (r_calls req st cs) s = (Ok (abs_calls (shapes_of recs) k cs, st'), s') /\ RInv data idx st' s'.
Proof. exact index_history. Qed.
Print Assumptions C15_history.

(** The abstract reader says what the property says. *)

(** Random access returns record i whatever the position; the count never changes. *)
Theorem C15_nth_and_count_stable : forall (shapes : list shape) (k k' : nat) (i : Z),
  fst (abs_call shapes k (RNth i)) = fst (abs_call shapes k' (RNth i)) /\
  fst (abs_call shapes k RCount) = OCountR (Ok (zlen shapes)).
Proof. intros. split; [|reflexivity]. cbn [abs_call]. destruct (nth_error shapes (Z.to_nat i)); reflexivity. Qed.
Print Assumptions C15_nth_and_count_stable.

(** An iteration yields the records from the current position to the last one,
    in order, then ends; the position is 0 on a fresh reader and after a
    successful random access, min(k, n) after seek(k), and after an iteration
    it is where that iteration stopped (so a further iteration yields the
    records not yet consumed). *)
Theorem C15_iteration : forall (shapes : list shape) (k fuel : nat),
  (length shapes - k < fuel)%nat ->
  abs_call shapes k (RIter fuel) = (OItems (map Ok (skipn k shapes)) true, length shapes).
Proof.
  intros shapes k fuel H. cbn [abs_call]. unfold pull_spec. rewrite skipn_length.
  destruct (Nat.ltb_spec (length shapes - k) fuel); [reflexivity|lia].
Qed.

Theorem C15_partial_iteration : forall (shapes : list shape) (k fuel : nat),
  (fuel <= length shapes - k)%nat ->
  abs_call shapes k (RIter fuel) = (OItems (map Ok (firstn fuel (skipn k shapes))) false, (k + fuel)%nat).
Proof.
  intros shapes k fuel H. cbn [abs_call]. unfold pull_spec. rewrite skipn_length.
  destruct (Nat.ltb_spec (length shapes - k) fuel); [lia|reflexivity].
Qed.

Theorem C15_positions : forall (shapes : list shape) (k : nat) (i j : Z) (x : shape),
  nth_error shapes (Z.to_nat i) = Some x ->
  snd (abs_call shapes k (RNth i)) = O /\
  snd (abs_call shapes k (RSeek j)) = Nat.min (Z.to_nat j) (length shapes) /\
  snd (abs_call shapes k RCount) = k /\ snd (abs_call shapes k RHint) = k.
Proof. intros shapes k i j x H. cbn [abs_call]. rewrite H. auto. Qed.
Print Assumptions C15_positions.

(** Non-vacuity: see C14_example (a reader state built by opening a file) and
    the following instance of the abstract reader. *)
Example C15_example :
  let a := SPoint XY (mkpt 1 2 0 0) in let b := SPoint XY (mkpt 3 4 0 0) in let c := SPoint XY (mkpt 5 6 0 0) in
  abs_calls [a; b; c] 0 [RIter 1; RIter 9; RSeek 2; RIter 9; RNth 1; RIter 2; RIter 9; RHint]
  = [OItems [Ok a] false; OItems [Ok b; Ok c] true; OSeekR (Ok tt); OItems [Ok c] true; ONthR (Some (Ok b));
     OItems [Ok a; Ok b] false; OItems [Ok c] true; OHintR (Some 0)].
Proof. vm_compute. reflexivity. Qed.
