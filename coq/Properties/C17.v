(** C17 — Memory requested while reading is proportional to the input size.
    Statements only; proofs in Proofs/Reserve.v, Proofs/ReserveProofs.v,
    Proofs/ReserveReader.v.

    The reading programs of the model record every pre-sizing request of the
    code (`Vec::with_capacity(n)`, `vec![x; n]`) in a ledger, in bytes
    ([Reserve], Model/Prog.v).  PARTIAL: the theorem bounds every such request
    by a constant whatever counts and lengths the input declares; that vectors
    otherwise grow only with data actually read (so that the peak is at most a
    fixed multiple of the input) relies on `Vec`'s growth policy and on the
    allocator, which are measured on the implementation by a counting
    allocator, not modelled. *)
From SF Require Import Model.Bytes Model.F64 Model.ShapeType Model.Shapes Model.Res Model.Encode
  Model.Prog Model.Decode Model.Reader.
From SF Require Import Proofs.Reserve Proofs.ReserveProofs Proofs.ReserveReader.
Open Scope Z_scope.

(** For ANY source (any bytes, any declared counts, lengths and offsets, any
    fault plan), opening a reader with or without an index and running any
    history of calls: every pre-sizing request is at most 32 KiB (1024 elements
    of at most 32 bytes). *)
Theorem C17_requests : forall (req : option shape_type) (index : option (list (Z * Z))) (cs : list rcall) (s : src),
  ledger_ok s ->
  ledger_ok (snd (run (st <-- (match index with Some idx => r_with_shx idx | None => r_new end) ;; r_calls req st cs) s)).
Proof. exact requests_bounded. Qed.
Print Assumptions C17_requests.

(** The same for parsing the index file, whatever length its header declares. *)
Theorem C17_index_requests : forall (s : src), ledger_ok s -> ledger_ok (snd (run read_index_file s)).
Proof. exact index_requests_bounded. Qed.
Print Assumptions C17_index_requests.

(** And for decoding one record. *)
Theorem C17_record_requests : forall (req : option shape_type) (s : src),
  ledger_ok s -> ledger_ok (snd (run (read_one_shape req) s)).
Proof. intros req s. apply rb_run, rb_read_one_shape. Qed.
Print Assumptions C17_record_requests.

(** Non-vacuity: 60 bytes declaring 2^30 parts and 2^30 points. *)
Example C17_example :
  let bytes := i32_be 1 ++ i32_be 1073741800 ++ i32_le 3 ++ repeat_Z 0 32 ++ i32_le 1073741824 ++ i32_le 1073741824 ++ repeat_Z 0 8 in
  s_reserved (snd (run (read_one_shape None) (src_of bytes))) = [4096] /\ ledger_ok (src_of bytes).
Proof. split; [vm_compute; reflexivity|constructor]. Qed.
