(** C04 — The .shx written alongside a .shp addresses exactly its records.
    Statements only; proofs in Proofs/EncodeRef.v, Proofs/IndexFiles.v. *)
From SF Require Import Model.Bytes Model.F64 Model.ShapeType Model.Shapes Model.Res Model.Encode Model.Writer
  Model.Prog Model.Decode Model.Reader Spec.Esri Spec.Denote Spec.Layout.
From SF Require Import Proofs.BytesLemmas Proofs.ReaderSeq Proofs.WriterInv Proofs.EncodeRef Proofs.LayoutConf Proofs.RoundTrip
  Proofs.IndexReader Proofs.IndexFiles.
From SF Require Import Properties.C02.
Open Scope Z_scope.

(** After any history of writes and finalizes with an index destination, the
    .shx is the whitepaper index of the .shp: the same header except for the
    length field, which is 50 + 4n words, followed by one entry per record. *)
Theorem C04_shx_layout : forall (cs : list wcall) (e : wending),
  Forall call_wf cs ->
  let ss := accepted_acc [] cs in
  FileFits ss ->
  snd (files (snd (run_history true world0 cs e)))
  = ref_header (file_type ss) (box8 (h_box (final_hdr ss))) (50 + 4 * zlen ss)
    ++ flat_map (fun e => i32_be (fst e) ++ i32_be (snd e)) (ref_index_entries 50 (numbered 1 (map rec_of_shape ss))).
Proof.
  intros cs e Hwf ss Hf. rewrite (C02_emits_spec true cs e Hwf Hf). cbn [snd]. fold ss.
  unfold ref_shx, ref_shx_of, layout. cbn [rf_type rf_box rf_records].
  rewrite zlen_ref_index_entries, zlen_numbered, zlen_map. reflexivity.
Qed.
Print Assumptions C04_shx_layout.

(** Entry i holds (offset, content length) of record i: content length =
    (size_in_bytes + 4)/2 words, offsets start at 50 and advance by 4 + content
    length — and at byte 2*offset of the .shp the record's header starts. *)
Theorem C04_entries : forall (ss : list shape) (off i : Z),
  ref_index_entries off (numbered i (map rec_of_shape ss))
  = (fix go (off : Z) (l : list shape) : list (Z * Z) :=
       match l with [] => [] | s :: r => (off, record_words s) :: go (off + 4 + record_words s) r end) off ss.
Proof.
  intros ss. induction ss as [|s r IH]; intros off i; [reflexivity|].
  cbn [map numbered ref_index_entries]. rewrite <- record_words_ref, IH. reflexivity.
Qed.
Print Assumptions C04_entries.

Theorem C04_entries_address_records : forall (req : option shape_type) (g : ref_file) (trailing : bytes),
  file_conformant g -> Forall (record_ok req) (rf_records g) -> zlen trailing < two32 ->
  Indexed req (ref_shp g ++ trailing) (ref_index_entries 50 (rf_records g)) (rf_records g).
Proof. exact conformant_indexed. Qed.
Print Assumptions C04_entries_address_records.

(** A reader given both files, for every history of calls (iterate any number
    of items, random access at any i, seek, count, size hint): the index parses
    to n entries and every call returns what the abstract reader over the
    written shapes returns — shape_count = n, random access at i < n = the
    i-th shape of sequential iteration, nothing for i >= n, size hint = number
    of shapes still to come (see [abs_call]), iteration identical to the one
    without index (C01_roundtrip_seq). *)
Theorem C04_reader : forall (req : option shape_type) (cs : list wcall) (e : wending) (rcs : list rcall),
  Forall call_wf cs ->
  let ss := accepted_acc [] cs in
  FileFits ss -> RecordsFit ss -> (req = None \/ req = Some (file_type ss)) -> Forall rcall_wf rcs ->
  let fs := files (snd (run_history true world0 cs e)) in
  exists idx,
    fst (run read_index_file (src_of (snd fs))) = Ok idx /\ zlen idx = zlen ss /\
    exists s',
      run (st <-- r_with_shx idx ;; x <-- r_calls req st rcs ;; Ret (r_hdr st, fst x)) (src_of (fst fs))
      = (Ok (header_of (file_type ss) (box8 (h_box (final_hdr ss))) (file_words ss),
             abs_calls (map on_read ss) 0 rcs), s').
Proof.
  intros req cs e rcs Hwf ss Hf Hrf Hreq Hr fs. subst fs.
  rewrite (history_files true cs e (call_wf_ok cs Hwf)). cbn [fst snd]. fold ss.
  apply written_then_read_index; try assumption; [apply accepted_wf, Hwf|apply accepted_one_type0].
Qed.
Print Assumptions C04_reader.

(** The abstract reader's size hint and count. *)
Theorem C04_hint_and_count : forall (shapes : list shape) (k : nat),
  fst (abs_call shapes k RHint) = OHintR (Some (zlen shapes - Z.of_nat k)) /\
  fst (abs_call shapes k RCount) = OCountR (Ok (zlen shapes)).
Proof. intros; split; reflexivity. Qed.

(** Non-vacuity: shapes of different sizes, so that offsets are not an
    arithmetic progression. *)
Example C04_example :
  let a := SMultipoint XY (mkbox (mkpt 1 2 0 0) (mkpt 1 2 0 0)) [mkpt 1 2 0 0] in
  let b := SMultipoint XY (mkbox (mkpt 1 2 0 0) (mkpt 3 4 0 0)) [mkpt 1 2 0 0; mkpt 3 4 0 0; mkpt 1 4 0 0] in
  let cs := [CWrite a; CWrite b; CFinalize; CWrite a] in
  Forall call_wf cs /\ FileFits (accepted_acc [] cs) /\
  ref_index_entries 50 (numbered 1 (map rec_of_shape [a; b; a])) = [(50, 28); (82, 44); (130, 28)].
Proof.
  cbv zeta. split; [repeat constructor; unfold f64_ok, two64; cbn; lia|]. split; vm_compute; reflexivity.
Qed.
