(** C08 — Shapes and attribute rows stay paired one-to-one through write and
    read.  Statements only; proofs in Proofs/CompleteProofs.v.

    The `dbase` crate is MODELLED, not verified (Model/Complete.v): an ordered
    row store whose writer appends exactly the rows it accepts and whose reader
    returns them from the current row position.  KNOWN FINDING F10
    (known_findings.json): `write_shape_and_record` writes the shape before the
    row, so a call whose row the table rejects leaves one more .shp record and
    .shx entry than .dbf rows ([C08_row_rejection_witness]); the theorems below
    are about histories outside that class (every row acceptable), where the
    only failing calls are shape-type mismatches. *)
From SF Require Import Model.Bytes Model.F64 Model.ShapeType Model.Shapes Model.Res Model.Encode Model.Writer
  Model.Prog Model.Decode Model.Reader Model.Complete Spec.Esri Spec.Denote.
From SF Require Import Proofs.WriterInv Proofs.ReaderSeq Proofs.IndexReader Proofs.CompleteProofs.
From SF Require Import Model.Paths Proofs.PathsProofs.
Open Scope Z_scope.

(** A call that fails because of its shape's type changes nothing anywhere:
    writer state, table, both destinations (premise: C10_reject). *)
Theorem C08_rejected_call : forall (st : cwstate) (w : world) (s : shape) (k : rowk) (id : Z) (e : err),
  w_write_shape (cw_shape st) w s = (Err e, cw_shape st, w) -> cw_write st w s k id = (Err e, st, w).
Proof. exact cw_rejected. Qed.
Print Assumptions C08_rejected_call.

(** Any history of calls with acceptable rows (shapes of any types: mismatch
    failures interleaved anywhere): every call returns Ok or the mismatch error;
    the table holds exactly the rows of the accepted calls, in order, and as
    many rows as the shape writer has accepted shapes — hence as many as the
    .shp has records and the .shx has entries (C02_emits_spec, C04_shx_layout). *)
Theorem C08_history : forall (cs : list (shape * rowk * Z)),
  Forall ccall_ok cs ->
  exists rs st' w', cw_calls cs cw_new world0 = (rs, st', w') /\
    WInv true (cw_shape st') w' (fst (cacc [] [] cs)) /\
    cw_rows st' = snd (cacc [] [] cs) /\
    zlen (cw_rows st') = zlen (fst (cacc [] [] cs)) /\
    Forall (fun r => r = Ok tt \/ exists a b, r = Err (EMismatch a b)) rs.
Proof.
  intros cs Hcs. exact (cw_history cs cw_new world0 [] (WInv_init true) (Forall_nil _) Hcs eq_refl).
Qed.
Print Assumptions C08_history.

(** Reading: with one row per record, an iteration started where shape cursor
    and row cursor agree (a fresh reader: 0; after seek(k): k) yields the pairs
    (shape i, row i) for i from that position on, in order, then ends. *)
Theorem C08_pairs : forall (req : option shape_type) (data : bytes) (idx : list (Z * Z)) (recs : list (Z * ref_rec))
    (rows : list Z) (fuel : nat) (st : crstate) (s : src) (k : nat),
  Indexed req data idx recs -> length rows = length recs ->
  RInv data idx (cr_shape st) s -> r_next (cr_shape st) = Z.of_nat k -> cr_row st = Z.of_nat k ->
  exists st' s',
    run (c_pull fuel req rows st) s
    = (Ok (fst (fst (pairs_spec (shapes_of recs) rows k fuel)), snd (fst (pairs_spec (shapes_of recs) rows k fuel)), st'), s') /\
    RInv data idx (cr_shape st') s' /\
    r_next (cr_shape st') = Z.of_nat (snd (pairs_spec (shapes_of recs) rows k fuel)) /\
    (snd (fst (pairs_spec (shapes_of recs) rows k fuel)) = false -> cr_row st' = Z.of_nat (snd (pairs_spec (shapes_of recs) rows k fuel))).
Proof. exact c_pull_aligned. Qed.
Print Assumptions C08_pairs.

Theorem C08_pairs_spec : forall (shapes : list shape) (rows : list Z) (k fuel : nat),
  (length (combine (skipn k shapes) (skipn k rows)) < fuel)%nat ->
  pairs_spec shapes rows k fuel = (map Ok (combine (skipn k shapes) (skipn k rows)), true, length shapes).
Proof. intros. unfold pairs_spec. destruct (Nat.ltb_spec (length (combine (skipn k shapes) (skipn k rows))) fuel); [reflexivity|lia]. Qed.

(** The known finding, as a witness: one call with a row the table rejects
    leaves a .shp record and a .shx entry without a .dbf row. *)
Example C08_row_rejection_witness :
  let p := SPoint XY (mkpt 1 2 0 0) in
  let '(rs, st, w) := cw_calls [(p, RowMissingField, 0)] cw_new world0 in
  rs = [Err EDbase] /\ cw_rows st = [] /\
  zlen (d_buf (w_shp (w_drop (cw_shape st) w))) = 128 /\ zlen (d_buf (w_shx (w_drop (cw_shape st) w))) = 108.
Proof. vm_compute. repeat split; reflexivity. Qed.

Example C08_example :
  let p := SPoint XY (mkpt 1 2 0 0) in let q := SPoint XYM (mkpt 1 2 0 3) in
  let cs := [(p, RowOk, 0); (q, RowOk, 1); (p, RowOk, 2)] in
  Forall ccall_ok cs /\ cacc [] [] cs = ([p; p], [0; 2]).
Proof. split; [repeat constructor; cbn; discriminate|reflexivity]. Qed.

(** ** By path: the three files of a shapefile (Model/Paths.v)
    `Writer::from_path(p)` creates p, p.with_extension("shx") and
    p.with_extension("dbf"); `Reader::from_path(p)` opens the same three.
    Two shapefiles in one directory under different names with the same
    extension share none of their files: each keeps its own index and its own
    table, so shapes of one are never paired with rows of the other. *)
Theorem C08_files_of_two_shapefiles_disjoint : forall (p q e e1 e2 : fname),
  extension p = Some e -> extension q = Some e -> p <> q ->
  In e1 [e; SHX; DBF] -> In e2 [e; SHX; DBF] -> with_ext p e1 <> with_ext q e2.
Proof.
  intros p q e e1 e2 Hp Hq Hne H1 H2.
  destruct (extension_spec p e Hp) as (_ & He & _).
  assert (D : forall x, In x [e; SHX; DBF] -> ~ In DOT x).
  { intros x [<-|[<-|[<-|[]]]]; [exact He|exact dotfree_SHX|exact dotfree_DBF]. }
  exact (siblings_disjoint p q e e1 e2 Hp Hq Hne (D e1 H1) (D e2 H2)).
Qed.
Print Assumptions C08_files_of_two_shapefiles_disjoint.

(** The three files of one shapefile are three different files (unless the
    name given for the .shp itself ends in ".shx" or ".dbf"), and they are the
    files any of them designates: the siblings of a sibling are the siblings. *)
Theorem C08_three_files : forall (p e : fname), extension p = Some e -> e <> SHX -> e <> DBF ->
  p <> with_ext p SHX /\ p <> with_ext p DBF /\ with_ext p SHX <> with_ext p DBF /\
  with_ext (with_ext p SHX) DBF = with_ext p DBF /\ with_ext (with_ext p DBF) SHX = with_ext p SHX.
Proof.
  intros p e Hp H1 H2. destruct (extension_spec p e Hp) as (Ep & He & _).
  assert (Np : p <> []) by (intros ->; discriminate Hp).
  split; [rewrite Ep at 1; apply siblings_distinct; exact H1|].
  split; [rewrite Ep at 1; apply siblings_distinct; exact H2|].
  split; [apply siblings_distinct; discriminate|].
  split; apply with_ext_with_ext; auto using dotfree_SHX, dotfree_DBF.
Qed.
Print Assumptions C08_three_files.

(** `Reader::from_path` without the table is refused, whatever else the directory holds. *)
Theorem C08_missing_dbf : forall (f : dir) (n : fname), fs_get f (with_ext n DBF) = None -> cr_open f n = CMissingDbf.
Proof. intros f n H. unfold cr_open. rewrite H. reflexivity. Qed.
Print Assumptions C08_missing_dbf.

(** After `Writer::from_path(n)` wrote its pairs, `Reader::from_path(n)` opens the writer's three files. *)
Theorem C08_open_after_write : forall (f : dir) (n e : fname) (w : world) (rows : list Z),
  extension n = Some e -> e <> SHX -> e <> DBF ->
  cr_open (cw_store f n w rows) n = COpen (d_buf (w_shp w)) (Some (d_buf (w_shx w))) rows.
Proof.
  intros f n e w rows Hn H1 H2. destruct (C08_three_files n e Hn H1 H2) as (A & B & C & _).
  unfold cr_open, cw_store. rewrite fs_get_set_same.
  unfold sr_open. rewrite !(fs_get_set_other _ (with_ext n DBF)) by congruence.
  pose proof (open_after_write f n (fun H => A (eq_sym H)) w) as Ho. unfold sr_open, files in Ho. cbn [fst snd] in Ho.
  destruct (fs_get (sw_store (sw_create f n) n w) n) as [[b|r]|]; try discriminate.
  destruct (fs_get (sw_store (sw_create f n) n w) (with_ext n SHX)) as [[b'|r']|]; try discriminate.
  injection Ho as -> ->. reflexivity.
Qed.
Print Assumptions C08_open_after_write.
