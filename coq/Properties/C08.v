(** C08 — Shapes and attribute rows stay paired one-to-one through write and
    read.  Statements only; proofs in Proofs/CompleteProofs.v.

    The `dbase` crate is MODELLED, not verified (Model/Complete.v): an ordered
    row store whose writer appends exactly the rows it accepts and whose reader
    returns them from the current row position.  KNOWN FINDING F10
    (known_findings.json): `write_shape_and_record` writes the shape before the
    row, so a call whose row the table rejects leaves one more .shp record and
    .shx entry than .dbf rows ([C08_row_rejection_witness]); the theorems below
    are about histories outside that class (every row acceptable), where the
    only failing calls are shape-type mismatches. *)
From SF Require Import Model.Bytes Model.F64 Model.ShapeType Model.Shapes Model.Res Model.Encode Model.Writer
  Model.Prog Model.Decode Model.Reader Model.Complete Spec.Esri Spec.Denote.
From SF Require Import Proofs.WriterInv Proofs.ReaderSeq Proofs.IndexReader Proofs.CompleteProofs.
Open Scope Z_scope.

(** A call that fails because of its shape's type changes nothing anywhere:
    writer state, table, both destinations (premise: C10_reject). *)
Theorem C08_rejected_call : forall (st : cwstate) (w : world) (s : shape) (k : rowk) (id : Z) (e : err),
  w_write_shape (cw_shape st) w s = (Err e, cw_shape st, w) -> cw_write st w s k id = (Err e, st, w).
Proof. exact cw_rejected. Qed.
Print Assumptions C08_rejected_call.

(** Any history of calls with acceptable rows (shapes of any types: mismatch
    failures interleaved anywhere): every call returns Ok or the mismatch error;
    the table holds exactly the rows of the accepted calls, in order, and as
    many rows as the shape writer has accepted shapes — hence as many as the
    .shp has records and the .shx has entries (C02_emits_spec, C04_shx_layout). *)
Theorem C08_history : forall (cs : list (shape * rowk * Z)),
  Forall ccall_ok cs ->
  exists rs st' w', cw_calls cs cw_new world0 = (rs, st', w') /\
    WInv true (cw_shape st') w' (fst (cacc [] [] cs)) /\
    cw_rows st' = snd (cacc [] [] cs) /\
    zlen (cw_rows st') = zlen (fst (cacc [] [] cs)) /\
    Forall (fun r => r = Ok tt \/ exists a b, r = Err (EMismatch a b)) rs.
Proof.
  intros cs Hcs. exact (cw_history cs cw_new world0 [] (WInv_init true) (Forall_nil _) Hcs eq_refl).
Qed.
Print Assumptions C08_history.

(** Reading: with one row per record, an iteration started where shape cursor
    and row cursor agree (a fresh reader: 0; after seek(k): k) yields the pairs
    (shape i, row i) for i from that position on, in order, then ends. *)
Theorem C08_pairs : forall (req : option shape_type) (data : bytes) (idx : list (Z * Z)) (recs : list (Z * ref_rec))
    (rows : list Z) (fuel : nat) (st : crstate) (s : src) (k : nat),
  Indexed req data idx recs -> length rows = length recs ->
  RInv data idx (cr_shape st) s -> r_next (cr_shape st) = Z.of_nat k -> cr_row st = Z.of_nat k ->
  exists st' s',
    run (c_pull fuel req rows st) s
    = (Ok (fst (fst (pairs_spec (shapes_of recs) rows k fuel)), snd (fst (pairs_spec (shapes_of recs) rows k fuel)), st'), s') /\
    RInv data idx (cr_shape st') s' /\
    r_next (cr_shape st') = Z.of_nat (snd (pairs_spec (shapes_of recs) rows k fuel)) /\
    (snd (fst (pairs_spec (shapes_of recs) rows k fuel)) = false -> cr_row st' = Z.of_nat (snd (pairs_spec (shapes_of recs) rows k fuel))).
Proof. exact c_pull_aligned. Qed.
Print Assumptions C08_pairs.

Theorem C08_pairs_spec : forall (shapes : list shape) (rows : list Z) (k fuel : nat),
  (length (combine (skipn k shapes) (skipn k rows)) < fuel)%nat ->
  pairs_spec shapes rows k fuel = (map Ok (combine (skipn k shapes) (skipn k rows)), true, length shapes).
Proof. intros. unfold pairs_spec. destruct (Nat.ltb_spec (length (combine (skipn k shapes) (skipn k rows))) fuel); [reflexivity|lia]. Qed.

(** The known finding, as a witness: one call with a row the table rejects
    leaves a .shp record and a .shx entry without a .dbf row. *)
Example C08_row_rejection_witness :
  let p := SPoint XY (mkpt 1 2 0 0) in
  let '(rs, st, w) := cw_calls [(p, RowMissingField, 0)] cw_new world0 in
  rs = [Err EDbase] /\ cw_rows st = [] /\
  zlen (d_buf (w_shp (w_drop (cw_shape st) w))) = 128 /\ zlen (d_buf (w_shx (w_drop (cw_shape st) w))) = 108.
Proof. vm_compute. repeat split; reflexivity. Qed.

Example C08_example :
  let p := SPoint XY (mkpt 1 2 0 0) in let q := SPoint XYM (mkpt 1 2 0 3) in
  let cs := [(p, RowOk, 0); (q, RowOk, 1); (p, RowOk, 2)] in
  Forall ccall_ok cs /\ cacc [] [] cs = ([p; p], [0; 2]).
Proof. split; [repeat constructor; cbn; discriminate|reflexivity]. Qed.
