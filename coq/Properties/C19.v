(** C19 — Shape type codes form the ESRI table, for every 32-bit value (here:
    for every integer).  Statements only; proofs in Proofs/ShapeTypeProofs.v. *)
From SF Require Import Model.Bytes Model.ShapeType.
From SF Require Import Proofs.ShapeTypeProofs.
From Coq Require Import String.
Open Scope Z_scope.

(** Decoding and encoding are mutually inverse. *)
Theorem C19_decode_iff : forall (c : Z) (t : shape_type), st_decode c = Some t <-> st_code t = c.
Proof. exact st_decode_iff. Qed.
Print Assumptions C19_decode_iff.

(** The image of the encoding is exactly the 14 ESRI codes; every other
    integer (in particular every other 32-bit value) fails to decode. *)
Theorem C19_image : forall c : Z,
  (In c [0; 1; 3; 5; 8; 11; 13; 15; 18; 21; 23; 25; 28; 31] <-> exists t, st_decode c = Some t)
  /\ (~ In c [0; 1; 3; 5; 8; 11; 13; 15; 18; 21; 23; 25; 28; 31] -> st_decode c = None).
Proof.
  intros c. split; [split|].
  - exact (in_table_decodes c).
  - intros [t H]. exact (st_decode_in_table c t H).
  - exact (st_decode_none c).
Qed.
Print Assumptions C19_image.

Theorem C19_injective : forall a b : shape_type, st_code a = st_code b -> a = b.
Proof. exact st_code_injective. Qed.
Print Assumptions C19_injective.

(** Predicates and display names are those of the ESRI table. *)
Theorem C19_table : forall t : shape_type,
  In (st_code t, (st_has_z t, (st_has_m t, (st_is_multipart t, st_name t)))) esri_table.
Proof. exact row_in_table. Qed.
Print Assumptions C19_table.

Theorem C19_predicates : forall t : shape_type,
  (st_has_z t = true <-> In t [TPointZ; TPolylineZ; TPolygonZ; TMultipointZ; TMultipatch]) /\
  (st_has_m t = true <-> In t [TPointM; TPolylineM; TPolygonM; TMultipointM;
                                TPointZ; TPolylineZ; TPolygonZ; TMultipointZ]) /\
  (In t [TPolyline; TPolylineM; TPolylineZ; TPolygon; TPolygonM; TPolygonZ; TMultipatch]
     -> st_is_multipart t = true) /\
  (In t [TPoint; TPointM; TPointZ; TMultipoint; TMultipointM; TMultipointZ]
     -> st_is_multipart t = false).
Proof.
  intros t; repeat split; destruct t; cbn; intros; try reflexivity; try tauto; try discriminate;
    repeat match goal with H : _ \/ _ |- _ => destruct H as [H|H]; try discriminate H end; tauto.
Qed.
Print Assumptions C19_predicates.

Example C19_example : st_decode 25 = Some TPolygonM /\ st_decode 60 = None /\ st_decode (-1) = None
  /\ st_decode 4294967297 = None.
Proof. repeat split. Qed.
