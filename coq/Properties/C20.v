(** C20 — geo-types conversions preserve coordinates, order and ring nesting.
    Statements only; proofs in Proofs/GeoProofs.v.  geo-types / geo-traits are
    MODELLED (Model/Geo.v), not verified.  PARTIAL: the polygon clauses proved
    here are the grouping of rings into exterior + holes in the shape -> geometry
    direction; "converting a polygon back yields the original" and the
    geometry -> shape -> geometry direction for polygons (equal up to ring
    orientation) are decided by the correspondence check and its oracle only.
    KNOWN FINDING F12: a line string with exactly one coordinate makes
    `From<LineString>` panic (Polyline::new asserts at least two points). *)
From SF Require Import Model.Bytes Model.F64 Model.ShapeType Model.Shapes Model.Res Model.F64Arith Model.Construct Model.Geo.
From SF Require Import Proofs.PolygonCtor Proofs.GeoProofs.
From SF Require Import Proofs.GeoPolygonBack.
Open Scope Z_scope.

(** Points, multipoints and polylines (any dimension) become Point, MultiPoint
    and MultiLineString holding every X/Y pair, in order, grouped as the parts. *)
Theorem C20_to_geo :
  (forall d p, to_geo (SPoint d p) = Some (GPoint (xy p))) /\
  (forall d b ps, to_geo (SMultipoint d b ps) = Some (GMultiPoint (map xy ps))) /\
  (forall d b parts, to_geo (SPolyline d b parts) = Some (GMultiLineString (map (map xy) parts))).
Proof. exact to_geo_simple. Qed.
Print Assumptions C20_to_geo.

(** Polygons (closed rings, first ring outer): flattening the resulting
    polygons - exterior, then its holes - gives back exactly the rings' X/Y
    sequences with their roles, in order: each outer ring opens a polygon and
    the inner rings that follow it are its holes; nothing is lost or regrouped. *)
Theorem C20_polygon_grouping : forall d b rings gs,
  to_geo (SPolygon d b rings) = Some (GMultiPolygon gs) ->
  Forall (fun r => geo_close (map xy (snd r)) = map xy (snd r)) rings ->
  match rings with (Inner, _) :: _ => False | _ => True end ->
  flat_polys gs = map (fun r => (role_is_outer (fst r), map xy (snd r))) rings.
Proof. exact polygon_to_geo_grouping. Qed.
Print Assumptions C20_polygon_grouping.

(** Converting back yields the original 2-D shape (through the constructor,
    which recomputes the exact box of the same vertices). *)
Theorem C20_back :
  (forall p, clean2 p -> from_geo (GPoint (xy p)) = Ok (SPoint XY p)) /\
  (forall ps, Forall clean2 ps -> from_geo (GMultiPoint (map xy ps)) = mk_multipoint XY ps) /\
  (forall parts, Forall (Forall clean2) parts -> from_geo (GMultiLineString (map (map xy) parts)) = mk_polyline XY parts).
Proof. split; [exact back_point|split; [exact back_multipoint|exact back_polyline]]. Qed.
Print Assumptions C20_back.

(** geometry -> shape -> geometry is the identity (as the corresponding
    multi-geometry) for MultiPoint, LineString and MultiLineString whenever the
    conversion to a shape succeeds. *)
Theorem C20_from_geo :
  (forall l s, from_geo (GMultiPoint l) = Ok s -> to_geo s = Some (GMultiPoint l)) /\
  (forall l s, from_geo (GLineString l) = Ok s -> to_geo s = Some (GMultiLineString [l])) /\
  (forall l s, from_geo (GMultiLineString l) = Ok s -> to_geo s = Some (GMultiLineString l)).
Proof. split; [exact there_and_back_multipoint|split; [exact there_and_back_linestring|exact there_and_back_lines]]. Qed.
Print Assumptions C20_from_geo.

(** Refusals are error values: the null shape, any multipatch containing a
    triangle strip or fan, geometry collections, rects and triangles. *)
Theorem C20_refusals :
  to_geo SNull = None /\
  (forall b ps, (exists k pts, In (k, pts) ps /\ (k = KStrip \/ k = KFan)) -> to_geo (SMultipatch b ps) = None) /\
  from_geo GCollection = Err EDbase /\ (forall a b, from_geo (GRect a b) = Err EDbase) /\
  (forall a b c, from_geo (GTriangle a b c) = Err EDbase).
Proof. exact to_geo_refusals. Qed.
Print Assumptions C20_refusals.

(** geo-traits view: for Point, PointM, PointZ and every measure pattern
    (real, NO_DATA, below it, NaN, infinities) the reported dimension count is
    between 2 and 4 and every index below it can be read (no panic) and returns
    the matching field. *)
Theorem C20_dims : forall (d : dim) (p : pt) (i : Z),
  2 <= coord_dim d p <= 4 /\
  (0 <= i < coord_dim d p ->
   coord_nth d p i = Ok (if i =? 0 then px p else if i =? 1 then py p
                         else match d with XYZM => if i =? 2 then pz p else pm p | _ => pm p end)).
Proof. intros d p i. split; [apply coord_dim_range|apply coord_dims]. Qed.
Print Assumptions C20_dims.

Definition c20_nan : f64 := 9221120237041090560.
Example C20_example :
  coord_dim XYZM (mkpt 1 2 3 c20_nan) = 4 /\ coord_nth XYZM (mkpt 1 2 3 c20_nan) 3 = Ok c20_nan /\
  coord_dim XYZM (mkpt 1 2 3 F_NO_DATA) = 3 /\
  from_geo (GLineString [(1, 2)]) = Panic.
Proof. repeat split; vm_compute; reflexivity. Qed.

(** ** Polygons there and back (Proofs/GeoPolygonBack.v) *)
(** An outer-first 2-D polygon as the constructor leaves it — every ring
    closed and oriented as its role says (C16), vertices without Z or M —
    converted to geo-types and back is the same polygon, box included. *)
Theorem C20_polygon_back : forall (rings0 : list (role * list pt)) (s : shape),
  mk_polygon XY rings0 = Ok s ->
  Forall (fun r => is_part_closed XY (snd r) = true /\ ring_role (snd r) = fst r) (rings_of s) ->
  Forall (fun r => Forall clean2 (snd r)) (rings_of s) ->
  match rings_of s with (Inner, _) :: _ => False | _ => True end ->
  exists gs, to_geo s = Some (GMultiPolygon gs) /\ from_geo (GMultiPolygon gs) = Ok s.
Proof. exact polygon_there_and_back. Qed.
Print Assumptions C20_polygon_back.

(** A geo-types multi-polygon whose rings are non-empty and closed (what
    `geo_types::Polygon::new` guarantees unless a ring starts with a NaN),
    converted to a shape and back: the same polygons in the same order, each with
    the same rings in the same order and roles, every ring the same coordinate
    sequence or its reversal ([ring_trip] names which). *)
Theorem C20_multipolygon_from_geo : forall (ps : list gpoly) (s : shape),
  Forall good_gpoly ps -> from_geo (GMultiPolygon ps) = Ok s ->
  exists ps', to_geo s = Some (GMultiPolygon ps') /\
    flat_polys ps' = map ring_trip (flat_polys ps) /\
    Forall (fun a => fst (ring_trip a) = fst a /\ ring_sim (snd a) (snd (ring_trip a))) (flat_polys ps).
Proof. exact multipolygon_there_and_back. Qed.
Print Assumptions C20_multipolygon_from_geo.

Theorem C20_polygon_from_geo : forall (p : gpoly) (s : shape),
  good_gpoly p -> from_geo (GPolygon p) = Ok s ->
  exists ps', to_geo s = Some (GMultiPolygon ps') /\
    flat_polys ps' = map ring_trip1 (flat_poly p) /\
    Forall (fun a => fst (ring_trip1 a) = fst a /\ ring_sim (snd a) (snd (ring_trip1 a))) (flat_poly p).
Proof. exact polygon_from_geo_there_and_back. Qed.
Print Assumptions C20_polygon_from_geo.

(** The premises are satisfiable: the unit triangle with a hole-less exterior, there and back. *)
Definition c20_tri : list Geo.coord := [(0, 0); (0, 4607182418800017408); (4607182418800017408, 0); (0, 0)].
Example C20_polygon_example :
  good_gpoly (gpoly_new c20_tri []) /\
  (match from_geo (GMultiPolygon [gpoly_new c20_tri []]) with Ok s => to_geo s | _ => None end)
  = Some (GMultiPolygon [gpoly_new c20_tri []]).
Proof.
  split; [split; [split; [vm_compute; discriminate|vm_compute; reflexivity]|constructor]|vm_compute; reflexivity].
Qed.
