(** The whitepaper record a shape value *should* be stored as, and the file a
    sequence of shapes should become: the choices the specification leaves
    open are fixed the way the property C02 states them (record numbers 1..n,
    M block always present for the types that can carry one, part offsets =
    running sums from 0, per-record box = the box carried by the value).
    Nothing here mentions the library's encoder. *)
From SF Require Import Model.Bytes Model.F64 Model.ShapeType Model.Shapes Spec.Esri.
Open Scope Z_scope.

Definition xy_of (p : pt) : f64 * f64 := (px p, py p).

Fixpoint running_offsets (acc : Z) (lens : list Z) : list Z :=
  match lens with
  | [] => []
  | l :: r => acc :: running_offsets (acc + l) r
  end.

Definition body_of (t : shape_type) (b : bbox) (parts : list (list pt)) (kinds : list Z) : ref_body :=
  let pts := concat parts in
  mkbody (px (bmin b), py (bmin b), px (bmax b), py (bmax b))
         (if is_multipoint_type t then [] else running_offsets 0 (map (fun p => zlen p) parts))
         kinds
         (map xy_of pts)
         (if st_has_z t then ((pz (bmin b), pz (bmax b)), map pz pts) else ((0, 0), []))
         (if layout_has_m t then Some ((pm (bmin b), pm (bmax b)), map pm pts) else None).

Definition rec_of_shape (s : shape) : ref_rec :=
  match s with
  | SNull => RNull
  | SPoint XY p => RPoint (px p) (py p)
  | SPoint XYM p => RPointM (px p) (py p) (pm p)
  | SPoint XYZM p => RPointZ (px p) (py p) (pz p) (Some (pm p))
  | SMultipoint d b ps => RMulti (multipoint_type d) (body_of (multipoint_type d) b [ps] [])
  | SPolyline d b parts => RMulti (polyline_type d) (body_of (polyline_type d) b parts [])
  | SPolygon d b rings => RMulti (polygon_type d) (body_of (polygon_type d) b (map snd rings) [])
  | SMultipatch b patches =>
      RMulti TMultipatch (body_of TMultipatch b (map snd patches) (map (fun p => pkind_code (fst p)) patches))
  end.

Fixpoint numbered (i : Z) (rs : list ref_rec) : list (Z * ref_rec) :=
  match rs with
  | [] => []
  | r :: rest => (i, r) :: numbered (i + 1) rest
  end.

(** Header box of the file, in header order. *)
Definition box8 (b : bbox) : list f64 :=
  [px (bmin b); py (bmin b); px (bmax b); py (bmax b); pz (bmin b); pz (bmax b); pm (bmin b); pm (bmax b)].

(** The file the shapes [ss] (all of type [t]) must be stored as, with
    header box [hb]. *)
Definition layout (t : shape_type) (hb : bbox) (ss : list shape) : ref_file :=
  mkfile t (box8 hb) (numbered 1 (map rec_of_shape ss)).

(** The index that goes with it. *)
Definition layout_shx (t : shape_type) (hb : bbox) (ss : list shape) : bytes :=
  ref_shx (layout t hb ss).
