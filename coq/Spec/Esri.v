(** The ESRI shapefile layout, transcribed from the "ESRI Shapefile Technical
    Description" (July 1998) as plain concatenation of fields.  This file is
    *not* a model of the library: it is the specification the writer is shown
    to emit (C02) and the reader is shown to decode (C03).  It is short enough
    to be read against the whitepaper and is cross-checked byte for byte
    against an independent Python transcription (gen/refesri.py) on every run.

    Integers: big-endian for file code, file length, record number and content
    length; little-endian for everything else.  Doubles: little-endian IEEE
    patterns. *)
From SF Require Import Model.Bytes Model.F64 Model.ShapeType Model.Shapes.
Open Scope Z_scope.

(** ** Records *)

(** Body shared by MultiPoint*, PolyLine*, Polygon* and MultiPatch. *)
Record ref_body := mkbody {
  rb_box : f64 * f64 * f64 * f64;                 (* Xmin Ymin Xmax Ymax *)
  rb_offsets : list Z;                            (* Parts[]: index of the first point of each part (not for MultiPoint) *)
  rb_kinds : list Z;                              (* PartTypes[] (MultiPatch only) *)
  rb_pts : list (f64 * f64);                      (* Points[] *)
  rb_z : (f64 * f64) * list f64;                  (* Zmin Zmax, Zarray (types with Z) *)
  rb_m : option ((f64 * f64) * list f64)          (* Mmin Mmax, Marray: optional block *)
}.

Inductive ref_rec :=
| RNull
| RPoint (x y : f64)
| RPointM (x y m : f64)
| RPointZ (x y z : f64) (m : option f64)          (* M is optional *)
| RMulti (t : shape_type) (b : ref_body).         (* t: one of the 10 multi-vertex types *)

Definition ref_type (r : ref_rec) : shape_type :=
  match r with
  | RNull => TNull | RPoint _ _ => TPoint | RPointM _ _ _ => TPointM | RPointZ _ _ _ _ => TPointZ
  | RMulti t _ => t
  end.

Definition is_multipoint_type (t : shape_type) : bool :=
  match t with TMultipoint | TMultipointM | TMultipointZ => true | _ => false end.

(** Types whose layout has an (optional) M block. *)
Definition layout_has_m (t : shape_type) : bool := st_has_m t || st_eqb t TMultipatch.

Definition f64s (l : list f64) : bytes := flat_map f64_enc l.
Definition i32s (l : list Z) : bytes := flat_map i32_le l.

Definition ref_body_bytes (t : shape_type) (b : ref_body) : bytes :=
  let '(xmin, ymin, xmax, ymax) := rb_box b in
  f64s [xmin; ymin; xmax; ymax]
  ++ (if is_multipoint_type t
      then i32_le (zlen (rb_pts b))
      else i32_le (zlen (rb_offsets b)) ++ i32_le (zlen (rb_pts b)) ++ i32s (rb_offsets b)
           ++ (if st_eqb t TMultipatch then i32s (rb_kinds b) else []))
  ++ flat_map (fun p => f64_enc (fst p) ++ f64_enc (snd p)) (rb_pts b)
  ++ (if st_has_z t then f64s [fst (fst (rb_z b)); snd (fst (rb_z b))] ++ f64s (snd (rb_z b)) else [])
  ++ (if layout_has_m t
      then match rb_m b with
           | Some (mr, ms) => f64s [fst mr; snd mr] ++ f64s ms
           | None => []
           end
      else []).

(** Record contents: shape type code, then the fields of the type. *)
Definition ref_fields (r : ref_rec) : bytes :=
  match r with
  | RNull => []
  | RPoint x y => f64s [x; y]
  | RPointM x y m => f64s [x; y; m]
  | RPointZ x y z m => f64s [x; y; z] ++ match m with Some v => f64_enc v | None => [] end
  | RMulti t b => ref_body_bytes t b
  end.

Definition ref_content (r : ref_rec) : bytes := i32_le (st_code (ref_type r)) ++ ref_fields r.

(** Record = record header (number, content length in 16-bit words, both
    big-endian) + contents. *)
Definition ref_record (num : Z) (r : ref_rec) : bytes :=
  i32_be num ++ i32_be (zlen (ref_content r) / 2) ++ ref_content r.

(** ** Files *)
Record ref_file := mkfile {
  rf_type : shape_type;
  rf_box : list f64;                     (* Xmin Ymin Xmax Ymax Zmin Zmax Mmin Mmax *)
  rf_records : list (Z * ref_rec)        (* record number, record *)
}.

(** Main file header: 100 bytes. *)
Definition ref_header (t : shape_type) (box : list f64) (length_words : Z) : bytes :=
  i32_be 9994 ++ repeat_Z 0 20 ++ i32_be length_words ++ i32_le 1000 ++ i32_le (st_code t) ++ f64s box.

Definition ref_records_bytes (rs : list (Z * ref_rec)) : bytes :=
  flat_map (fun nr => ref_record (fst nr) (snd nr)) rs.

Definition ref_shp (g : ref_file) : bytes :=
  ref_header (rf_type g) (rf_box g) ((100 + zlen (ref_records_bytes (rf_records g))) / 2)
  ++ ref_records_bytes (rf_records g).

(** Index file: same header except the length; one (offset, content length)
    entry per record, both in 16-bit words, big-endian. *)
Fixpoint ref_index_entries (off : Z) (rs : list (Z * ref_rec)) : list (Z * Z) :=
  match rs with
  | [] => []
  | (_, r) :: rest =>
      let words := zlen (ref_content r) / 2 in
      (off, words) :: ref_index_entries (off + 4 + words) rest
  end.

Definition ref_shx_of (t : shape_type) (box : list f64) (entries : list (Z * Z)) : bytes :=
  ref_header t box (50 + 4 * zlen entries)
  ++ flat_map (fun e => i32_be (fst e) ++ i32_be (snd e)) entries.

Definition ref_shx (g : ref_file) : bytes :=
  ref_shx_of (rf_type g) (rf_box g) (ref_index_entries 50 (rf_records g)).

(** ** Conformance: the whitepaper's side conditions. *)
Definition f64_ok (v : f64) : Prop := 0 <= v < two64.

Fixpoint ascending_from (lo : Z) (l : list Z) : Prop :=
  match l with
  | [] => True
  | x :: r => lo <= x /\ ascending_from x r
  end.

Definition body_conformant (t : shape_type) (b : ref_body) : Prop :=
  let n := zlen (rb_pts b) in
  n < two31 /\ zlen (rb_offsets b) < two31 /\
  (let '(a, b0, c, d) := rb_box b in f64_ok a /\ f64_ok b0 /\ f64_ok c /\ f64_ok d) /\
  Forall (fun p => f64_ok (fst p) /\ f64_ok (snd p)) (rb_pts b) /\
  (* parts: first point of each part, starting at 0, ascending, within the points *)
  (if is_multipoint_type t then rb_offsets b = []
   else match rb_offsets b with
        | [] => rb_pts b = []            (* every point belongs to a part *)
        | o :: r => o = 0 /\ ascending_from 0 r /\ Forall (fun x => x <= n) r
        end) /\
  (if st_eqb t TMultipatch
   then length (rb_kinds b) = length (rb_offsets b) /\ Forall (fun k => 0 <= k <= 5) (rb_kinds b)
   else rb_kinds b = []) /\
  (if st_has_z t
   then length (snd (rb_z b)) = length (rb_pts b) /\ f64_ok (fst (fst (rb_z b))) /\ f64_ok (snd (fst (rb_z b)))
        /\ Forall f64_ok (snd (rb_z b))
   else rb_z b = ((0, 0), [])) /\
  (if layout_has_m t
   then match rb_m b with
        | Some (mr, ms) => length ms = length (rb_pts b) /\ f64_ok (fst mr) /\ f64_ok (snd mr) /\ Forall f64_ok ms
        | None => True
        end
   else rb_m b = None).

Definition is_multi_type (t : shape_type) : bool :=
  match t with TNull | TPoint | TPointM | TPointZ => false | _ => true end.

Definition rec_conformant (r : ref_rec) : Prop :=
  match r with
  | RNull => True
  | RPoint x y => f64_ok x /\ f64_ok y
  | RPointM x y m => f64_ok x /\ f64_ok y /\ f64_ok m
  | RPointZ x y z m => f64_ok x /\ f64_ok y /\ f64_ok z /\ match m with Some v => f64_ok v | None => True end
  | RMulti t b => is_multi_type t = true /\ body_conformant t b
  end.

(** A conformant file: every record is conformant and is of the file's type or
    a null shape; numbers and lengths fit their 32-bit fields. *)
Definition file_conformant (g : ref_file) : Prop :=
  length (rf_box g) = 8%nat /\ Forall f64_ok (rf_box g) /\
  Forall (fun nr => in_i32 (fst nr) /\ rec_conformant (snd nr) /\
                    (ref_type (snd nr) = rf_type g \/ ref_type (snd nr) = TNull)) (rf_records g) /\
  (100 + zlen (ref_records_bytes (rf_records g))) / 2 < two31.
