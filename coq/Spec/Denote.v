(** What a conformant record denotes, as a shape value: the vertices in
    order with their Z and M attached, grouped into parts by the part offsets,
    ring roles from the vertex order, boxes as stored.  Absent measures are
    NO_DATA; present measures of multi-vertex shapes are normalised (NaN and
    anything at or below the no-data threshold is NO_DATA). *)
From SF Require Import Model.Bytes Model.F64 Model.ShapeType Model.Shapes Model.F64Arith Spec.Esri.
Open Scope Z_scope.

Definition dim_of_type (t : shape_type) : dim :=
  match t with
  | TPointM | TMultipointM | TPolylineM | TPolygonM => XYM
  | TPointZ | TMultipointZ | TPolylineZ | TPolygonZ | TMultipatch => XYZM
  | _ => XY
  end.

(** Length of every part: difference of consecutive offsets, the last part
    ends with the points. *)
Fixpoint part_lengths (offs : list Z) (n : Z) : list Z :=
  match offs with
  | [] => []
  | o :: r => (match r with [] => n | o' :: _ => o' end - o) :: part_lengths r n
  end.

Fixpoint chop {A} (lens : list Z) (l : list A) : list (list A) :=
  match lens with
  | [] => []
  | n :: r => firstn (Z.to_nat n) l :: chop r (skipn (Z.to_nat n) l)
  end.

(** Vertex i of the record, with its attributes. *)
Fixpoint vertices (d : dim) (pts : list (f64 * f64)) (zs : list f64) (ms : option (list f64)) : list pt :=
  match pts with
  | [] => []
  | (x, y) :: r =>
      let z := if has_z_dim d then hd 0 zs else 0 in
      let m := if has_m_dim d
               then match ms with Some l => read_m_norm (hd 0 l) | None => F_NO_DATA end
               else 0 in
      mkpt x y z m :: vertices d r (tl zs) (match ms with Some l => Some (tl l) | None => None end)
  end.

Definition denote_box (d : dim) (b : ref_body) : bbox :=
  let '(xmin, ymin, xmax, ymax) := rb_box b in
  let zmin := if has_z_dim d then fst (fst (rb_z b)) else 0 in
  let zmax := if has_z_dim d then snd (fst (rb_z b)) else 0 in
  let mmin := if has_m_dim d then match rb_m b with Some (mr, _) => fst mr | None => F_NO_DATA end else 0 in
  let mmax := if has_m_dim d then match rb_m b with Some (mr, _) => snd mr | None => F_NO_DATA end else 0 in
  mkbox (mkpt xmin ymin zmin mmin) (mkpt xmax ymax zmax mmax).

Definition kind_of (c : Z) : pkind :=
  match pkind_decode c with Some k => k | None => KRing end.

Fixpoint zip_kinds (ks : list Z) (parts : list (list pt)) : list (pkind * list pt) :=
  match ks, parts with
  | k :: ks', p :: ps' => (kind_of k, p) :: zip_kinds ks' ps'
  | _, _ => []
  end.

Definition denote_multi (t : shape_type) (b : ref_body) : shape :=
  let d := dim_of_type t in
  let vs := vertices d (rb_pts b) (snd (rb_z b)) (match rb_m b with Some (_, ms) => Some ms | None => None end) in
  let box := denote_box d b in
  let parts := chop (part_lengths (rb_offsets b) (zlen (rb_pts b))) vs in
  match t with
  | TMultipoint | TMultipointM | TMultipointZ => SMultipoint d box vs
  | TPolyline | TPolylineM | TPolylineZ => SPolyline d box parts
  | TPolygon | TPolygonM | TPolygonZ => SPolygon d box (map (fun ps => (ring_role ps, ps)) parts)
  | TMultipatch => SMultipatch box (zip_kinds (rb_kinds b) parts)
  | _ => SNull
  end.

Definition denote (r : ref_rec) : shape :=
  match r with
  | RNull => SNull
  | RPoint x y => SPoint XY (mkpt x y 0 0)
  | RPointM x y m => SPoint XYM (mkpt x y 0 m)
  | RPointZ x y z m => SPoint XYZM (mkpt x y z (match m with Some v => v | None => F_NO_DATA end))
  | RMulti t b => denote_multi t b
  end.
