(** Wire format shared with the Rust harness (harness/runner/src/wire.rs):
    cases and results are lists of integers.  Parsing of cases and rendering
    of results is done here, in Gallina, so that the theorems and the
    correspondence check talk about the same definitions. *)
From SF Require Import Model.Bytes Model.F64 Model.ShapeType Model.Shapes Model.Res
  Model.Encode Model.F64Arith Model.Construct.
Open Scope Z_scope.

Definition parser (A : Type) := list Z -> option (A * list Z).

Definition p_ret {A} (a : A) : parser A := fun l => Some (a, l).
Definition p_bind {A B} (p : parser A) (f : A -> parser B) : parser B :=
  fun l => match p l with Some (a, r) => f a r | None => None end.
Definition p_fail {A} : parser A := fun _ => None.
Notation "x <- p ;; q" := (p_bind p (fun x => q)) (at level 61, p at next level, right associativity).

Definition p_next : parser Z := fun l => match l with x :: r => Some (x, r) | [] => None end.

Fixpoint p_rep {A} (p : parser A) (n : nat) : parser (list A) :=
  match n with
  | O => p_ret []
  | S k => x <- p ;; xs <- p_rep p k ;; p_ret (x :: xs)
  end.

Definition p_count : parser nat :=
  n <- p_next ;; if (0 <=? n) && (n <=? 1000000) then p_ret (Z.to_nat n) else p_fail.

Definition p_list {A} (p : parser A) : parser (list A) := n <- p_count ;; p_rep p n.

Definition p_pt (d : dim) : parser pt :=
  match d with
  | XY => x <- p_next ;; y <- p_next ;; p_ret (mkpt x y 0 0)
  | XYM => x <- p_next ;; y <- p_next ;; m <- p_next ;; p_ret (mkpt x y 0 m)
  | XYZM => x <- p_next ;; y <- p_next ;; z <- p_next ;; m <- p_next ;; p_ret (mkpt x y z m)
  end.

Definition p_pts (d : dim) : parser (list pt) := p_list (p_pt d).

Definition p_ring (d : dim) : parser (role * list pt) :=
  r <- p_next ;; ps <- p_pts d ;;
  if r =? 0 then p_ret (Outer, ps) else if r =? 1 then p_ret (Inner, ps) else p_fail.

Definition p_patch : parser (pkind * list pt) :=
  k <- p_next ;; ps <- p_pts XYZM ;;
  match pkind_decode k with Some kd => p_ret (kd, ps) | None => p_fail end.

Inductive ctor :=
| CNull
| CPoint (d : dim) (p : pt)
| CMultipoint (d : dim) (ps : list pt)
| CPolylineNew (d : dim) (ps : list pt)
| CPolyline (d : dim) (parts : list (list pt))
| CPolygonNew (d : dim) (ring : role * list pt)
| CPolygon (d : dim) (rings : list (role * list pt))
| CPatchNew (p : pkind * list pt)
| CPatches (ps : list (pkind * list pt)).

Definition dim_of_family (base code : Z) : option dim :=
  if code =? base then Some XY else if code =? base + 20 then Some XYM
  else if code =? base + 10 then Some XYZM else None.

Definition p_ctor : parser ctor :=
  code <- p_next ;;
  if code =? 0 then p_ret CNull else
  match dim_of_family 1 code with
  | Some d => p <- p_pt d ;; p_ret (CPoint d p)
  | None =>
  match dim_of_family 8 code with
  | Some d => ps <- p_pts d ;; p_ret (CMultipoint d ps)
  | None =>
  match dim_of_family 3 code with
  | Some d => sub <- p_next ;;
      if sub =? 0 then ps <- p_pts d ;; p_ret (CPolylineNew d ps)
      else if sub =? 1 then parts <- p_list (p_pts d) ;; p_ret (CPolyline d parts)
      else p_fail
  | None =>
  match dim_of_family 5 code with
  | Some d => sub <- p_next ;;
      if sub =? 0 then r <- p_ring d ;; p_ret (CPolygonNew d r)
      else if sub =? 1 then rs <- p_list (p_ring d) ;; p_ret (CPolygon d rs)
      else p_fail
  | None =>
  if code =? 31 then
    sub <- p_next ;;
    if sub =? 0 then p <- p_patch ;; p_ret (CPatchNew p)
    else if sub =? 1 then ps <- p_list p_patch ;; p_ret (CPatches ps)
    else p_fail
  else p_fail
  end end end end.

Definition build (c : ctor) : res shape :=
  match c with
  | CNull => Ok SNull
  | CPoint d p => Ok (SPoint d p)
  | CMultipoint d ps => mk_multipoint d ps
  | CPolylineNew d ps => mk_polyline_new d ps
  | CPolyline d parts => mk_polyline d parts
  | CPolygonNew d ring => mk_polygon_new d ring
  | CPolygon d rings => mk_polygon d rings
  | CPatchNew p => mk_multipatch [p]
  | CPatches ps => mk_multipatch ps
  end.

(** Rendering. *)
Definition r_pt (d : dim) (p : pt) : list Z :=
  match d with
  | XY => [px p; py p]
  | XYM => [px p; py p; pm p]
  | XYZM => [px p; py p; pz p; pm p]
  end.

Definition r_box (d : dim) (b : bbox) : list Z :=
  [px (bmin b); py (bmin b); px (bmax b); py (bmax b)]
  ++ (if has_z_dim d then [pz (bmin b); pz (bmax b)] else [])
  ++ (if has_m_dim d then [pm (bmin b); pm (bmax b)] else []).

Definition r_pts (d : dim) (ps : list pt) : list Z := zlen ps :: flat_map (r_pt d) ps.

Definition r_shape (s : shape) : list Z :=
  match s with
  | SNull => [0]
  | SPoint d p => st_code (point_type d) :: r_pt d p
  | SMultipoint d b ps => st_code (multipoint_type d) :: r_box d b ++ r_pts d ps
  | SPolyline d b parts =>
      st_code (polyline_type d) :: r_box d b ++ zlen parts :: flat_map (r_pts d) parts
  | SPolygon d b rings =>
      st_code (polygon_type d) :: r_box d b ++ zlen rings
        :: flat_map (fun r => role_code (fst r) :: r_pts d (snd r)) rings
  | SMultipatch b patches =>
      31 :: r_box XYZM b ++ zlen patches
        :: flat_map (fun p => pkind_code (fst p) :: r_pts XYZM (snd p)) patches
  end.

Definition r_res {A} (f : A -> list Z) (r : res A) : list Z :=
  match r with
  | Ok a => 0 :: f a
  | Err e => 1 :: err_codes e
  | Panic => [2]
  end.

Definition r_bool (b : bool) : Z := if b then 1 else 0.

(** Byte strings travel packed: length, then groups of up to 8 bytes as
    little-endian integers (keeps case files small). *)
Fixpoint pack8 (bs : bytes) : list Z :=
  match bs with
  | a :: b :: c :: d :: e :: f :: g :: h :: r => of_le [a; b; c; d; e; f; g; h] :: pack8 r
  | [] => []
  | l => [of_le l]
  end.

Fixpoint unpack8 (n : nat) (ws : list Z) : bytes :=
  match ws with
  | [] => []
  | w :: r => le_bytes (Nat.min 8 n) w ++ unpack8 (n - 8) r
  end.

Definition r_bytes (bs : bytes) : list Z := zlen bs :: pack8 bs.

Definition p_bytes : parser bytes :=
  n <- p_count ;; ws <- p_rep p_next ((n + 7) / 8)%nat ;; p_ret (unpack8 n ws).
