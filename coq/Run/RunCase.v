(** [run_case]: the model's answer to one correspondence case. *)
From SF Require Import Model.Bytes Model.F64 Model.ShapeType Model.Shapes Model.Res
  Model.Encode Model.F64Arith Model.Construct Run.Wire.
Open Scope Z_scope.

Definition K_TABLE : Z := 1.
Definition K_CTOR : Z := 2.
Definition K_ENC : Z := 3.

Definition case_table (l : list Z) : list Z :=
  match l with
  | [c] =>
      match st_decode c with
      | None => [0]
      | Some t => [1; st_code t; r_bool (st_has_z t); r_bool (st_has_m t); r_bool (st_is_multipart t)]
                  ++ str_codes (st_name t)
      end
  | _ => [-1]
  end.

Definition case_ctor (l : list Z) : list Z :=
  match p_ctor l with
  | Some (c, []) => r_res r_shape (build c)
  | _ => [-1]
  end.

Definition r_enc (s : shape) : list Z :=
  let cs := content_chunks s in
  size_in_bytes s :: zlen cs :: map (fun c => zlen c) cs ++ r_bytes (concat cs).

Definition case_enc (l : list Z) : list Z :=
  match p_ctor l with
  | Some (c, []) => r_res r_enc (build c)
  | _ => [-1]
  end.

Definition run_case (l : list Z) : list Z :=
  match l with
  | k :: r =>
      if k =? K_TABLE then case_table r
      else if k =? K_CTOR then case_ctor r
      else if k =? K_ENC then case_enc r
      else [-1]
  | [] => [-1]
  end.

(** ** Writer histories (kind 4)
    [4; has_shx; ending; fault_dest; fault_k; fault_persistent; ncalls; calls..]
    call = 0 (finalize) | 1 ctor-spec (write_shape) | 2 (heal the devices);
    ending = 0 drop | 1 finalize then drop | 2 the calls are the argument of
    write_shapes. *)
From SF Require Import Model.Prog Model.Decode Model.Writer Model.Reader.

Definition K_WHIST : Z := 4.
Definition K_READ : Z := 5.

Inductive pcall := PFinalize | PWrite (c : ctor) | PHeal.

Definition p_call : parser pcall :=
  k <- p_next ;;
  if k =? 0 then p_ret PFinalize
  else if k =? 1 then c <- p_ctor ;; p_ret (PWrite c)
  else if k =? 2 then p_ret PHeal
  else p_fail.

(** Builds the shapes of the calls; None if a constructor refuses its input. *)
Fixpoint build_calls (cs : list pcall) : option (list wcall) :=
  match cs with
  | [] => Some []
  | c :: r =>
      match build_calls r with
      | None => None
      | Some r' =>
          match c with
          | PFinalize => Some (CFinalize :: r')
          | PHeal => Some (CHeal :: r')
          | PWrite ct => match build ct with Ok s => Some (CWrite s :: r') | _ => None end
          end
      end
  end.

Definition r_unit_res (r : res unit) : list Z := r_res (fun _ => []) r.

Definition r_wop (op : wop) : list Z :=
  match op with
  | WriteAll bs => 0 :: r_bytes bs
  | WSeekStart p => [1; p]
  | WSeekEnd => [2]
  | WFlush => [3]
  end.

Definition r_dev (d : wdev) : list Z :=
  r_bytes (d_buf d) ++ [r_bool (d_flushed d); Z.of_nat (d_ops d); zlen (d_log d)]
  ++ flat_map r_wop (rev (d_log d)).

Definition r_world (w : world) : list Z := r_dev (w_shp w) ++ r_dev (w_shx w).

Definition shapes_of_calls (cs : list wcall) : option (list shape) :=
  fold_right (fun c acc => match c, acc with CWrite s, Some l => Some (s :: l) | _, _ => None end) (Some []) cs.

Definition case_whist (l : list Z) : list Z :=
  match l with
  | has_shx :: ending :: fdest :: fk :: fpers :: rest =>
      match p_list p_call rest with
      | Some (pcs, []) =>
          match build_calls pcs with
          | None => [-3]
          | Some cs =>
              let w0 := if fdest =? 1 then world_with_fault Shp (Z.to_nat fk) (fpers =? 1)
                        else if fdest =? 2 then world_with_fault Shx (Z.to_nat fk) (fpers =? 1)
                        else world0 in
              let hs := has_shx =? 1 in
              if ending =? 2 then
                match shapes_of_calls cs with
                | None => [-1]
                | Some ss => let '(r, w) := run_write_shapes hs w0 ss in
                             1 :: r_unit_res r ++ r_world w
                end
              else if (3 <=? ending) && negb (ending =? 100) then
                (* the last (ending - 3) calls, all writes, are handed together to `write_shapes` *)
                let k := (length cs - Z.to_nat (ending - 3))%nat in
                match shapes_of_calls (skipn k cs) with
                | None => [-1]
                | Some tail => let '(rs, w) := run_history_bulk hs w0 (firstn k cs) tail in
                               zlen rs :: flat_map r_unit_res rs ++ r_world w
                end
              else
                (* ending 100: the caller panics while the writer is alive; the writer is dropped by the unwinding: a drop *)
                let '(rs, w) := run_history hs w0 cs (if ending =? 1 then EFinalizeDrop else EDrop) in
                zlen rs :: flat_map r_unit_res rs ++ r_world w
          end
      | _ => [-1]
      end
  | _ => [-1]
  end.

(** ** Reader histories (kind 5)
    [5; req; has_shx; fault_k; fault_persistent; nsched; sched..; shp bytes;
     shx bytes (if has_shx); nops; ops..]
    req = -1 (generic Shape) or the code of a concrete type; fault_k = -1: no
    fault.  op = 0 j (iterate, at most j items; j = -1: to the end) |
    1 i (read_nth) | 2 k (seek) | 3 (count) | 4 (size_hint of a new iterator) |
    5 k j (iterator adaptors: skip k, take j >= 1, collected) |
    6 (`read_as` / `read`: everything that is left, stopping at the first error;
       consumes the reader, so only as the last call). *)
Inductive rop := OIter (j : Z) | ONth (i : Z) | OSeek (k : Z) | OCount | OHint | OSkipTake (k j : Z) | OReadAll
  | OProbe (req : option shape_type) (i : Z).   (* read_nth_shape_as::<T>(i) whatever the other calls request *)

Definition p_rop : parser rop :=
  k <- p_next ;;
  if k =? 0 then j <- p_next ;; p_ret (OIter j)
  else if k =? 1 then i <- p_next ;; p_ret (ONth i)
  else if k =? 2 then i <- p_next ;; p_ret (OSeek i)
  else if k =? 3 then p_ret OCount
  else if k =? 4 then p_ret OHint
  else if k =? 5 then a <- p_next ;; b <- p_next ;; p_ret (OSkipTake a b)
  else if k =? 6 then p_ret OReadAll
  else if k =? 7 then t <- p_next ;; i <- p_next ;;
                      match (if t =? -1 then Some None else match st_decode t with Some TNull => None | Some x => Some (Some x) | None => None end) with
                      | Some r => if i <? 0 then p_fail else p_ret (OProbe r i)
                      | None => p_fail
                      end
  else p_fail.

Definition r_header (h : header) : list Z :=
  [h_len h; st_code (h_type h); h_version h;
   px (bmin (h_box h)); py (bmin (h_box h)); px (bmax (h_box h)); py (bmax (h_box h));
   pz (bmin (h_box h)); pz (bmax (h_box h)); pm (bmin (h_box h)); pm (bmax (h_box h))].

Definition r_item (r : res shape) : list Z := r_res r_shape r.
Definition r_opt_item (o : option (res shape)) : list Z :=
  match o with None => [0] | Some r => 1 :: r_item r end.

(** One reader call ([r_call], Model/Reader.v), rendered. *)
Definition rcall_of (cap : nat) (o : rop) : rcall :=
  match o with
  | OIter j => RIter (if j <? 0 then cap else Nat.min cap (Z.to_nat j))
  | ONth i => RNth i
  | OSeek k => RSeek k
  | OCount => RCount
  | OHint => RHint
  (* `skip(k).take(j)` with j >= 1 pulls k + j items (or until the iteration ends) and keeps the last j *)
  | OSkipTake k j => RIter (Z.to_nat k + Z.to_nat j)
  (* `collect::<Result<Vec<_>, _>>()` pulls until the iteration ends or an item is an error *)
  | OReadAll => RIter cap
  | OProbe _ i => RNth i
  end.

Definition req_of (req : option shape_type) (o : rop) : option shape_type :=
  match o with OProbe r _ => r | _ => req end.

(** The calls one by one, each with the type it requests (the type of the
    history, except for probes). *)
Fixpoint r_calls_mixed (cap : nat) (req : option shape_type) (st : rstate) (os : list rop) : prog (list rout * rstate) :=
  match os with
  | [] => Ret ([], st)
  | o :: r => x <-- r_call (req_of req o) st (rcall_of cap o) ;; y <-- r_calls_mixed cap req (snd x) r ;;
              Ret (fst x :: fst y, snd y)
  end.

Definition r_rout (o : rout) : list Z :=
  match o with
  | OItems items ended => zlen items :: flat_map r_item items ++ [r_bool ended]
  | ONthR x => r_opt_item x
  | OSeekR r => r_unit_res r
  | OCountR r => r_res (fun n => [n]) r
  | OHintR h => match h with None => [0] | Some n => [1; n] end
  end.

(** First error among the items, or all the values. *)
Fixpoint collect_items (items : list (res shape)) : res (list shape) :=
  match items with
  | [] => Ok []
  | Ok s :: r => match collect_items r with Ok l => Ok (s :: l) | e => e end
  | Err e :: _ => Err e
  | Panic :: _ => Panic
  end.

Definition r_rout_for (o : rop) (out : rout) : list Z :=
  match o, out with
  | OSkipTake k _, OItems items _ => let l := skipn (Z.to_nat k) items in zlen l :: flat_map r_item l
  | OReadAll, OItems items _ => r_res (fun l => zlen l :: flat_map r_shape l) (collect_items items)
  | _, _ => r_rout out
  end.

Definition run_rops (cap : nat) (req : option shape_type) (st : rstate) (os : list rop) : prog (list Z) :=
  x <-- r_calls_mixed cap req st os ;;
  Ret (flat_map (fun p => r_rout_for (fst p) (snd p)) (combine os (fst x))).


Definition decode_req (c : Z) : option (option shape_type) :=
  if c =? -1 then Some None else
  match st_decode c with Some TNull => None | Some t => Some (Some t) | None => None end.

Definition src_with (data : bytes) (fk fpers : Z) : src :=
  mksrc data 0 0 (if fk <? 0 then None else Some (mkfault (Z.to_nat fk) (fpers =? 1))) [].

Definition r_final {A} (f : A -> list Z) (r : res A) : list Z := r_res f r.

Definition case_read (l : list Z) : list Z :=
  match l with
  | reqc :: has_shx :: fk :: fpers :: rest =>
      match decode_req reqc, p_list p_next rest with
      | Some req, Some (_sched, rest1) =>
          match p_bytes rest1 with
          | Some (shp, rest2) =>
              let after_shx := if has_shx =? 1 then p_bytes rest2 else Some ([], rest2) in
              match after_shx with
              | Some (shx, rest3) =>
                  match p_list p_rop rest3 with
                  | Some (ops, []) =>
                      let cap := (length shp / 12 + length shx / 8 + 2)%nat in
                      (* the index is read first, from its own (fault-free) source *)
                      let idx := if has_shx =? 1 then fst (run read_index_file (src_of shx)) else Ok [] in
                      match idx with
                      | Err e => 1 :: err_codes e
                      | Panic => [2]
                      | Ok index =>
                          let open := if has_shx =? 1 then r_with_shx index else r_new in
                          let p := st <-- open ;; out <-- run_rops cap req st ops ;; Ret (r_header (r_hdr st) ++ out) in
                          r_final (fun x => x) (fst (run p (src_with shp fk fpers)))
                      end
                  | _ => [-1]
                  end
              | None => [-1]
              end
          | None => [-1]
          end
      | _, _ => [-1]
      end
  | _ => [-1]
  end.

(** ** Reference layout (kind 6): the whitepaper bytes of the layout of the
    given shapes (Spec/Esri.v, Spec/Layout.v; no code of the library's model).
    [6; type code; 8 header box values; n; ctor specs..] -> ref_shp, ref_shx *)
From SF Require Import Spec.Esri Spec.Layout.
Definition K_REF : Z := 6.

Fixpoint build_all (cs : list ctor) : option (list shape) :=
  match cs with
  | [] => Some []
  | c :: r => match build c, build_all r with Ok s, Some l => Some (s :: l) | _, _ => None end
  end.

Definition case_ref (l : list Z) : list Z :=
  match l with
  | tc :: a :: b :: c :: d :: e :: f :: g :: h :: rest =>
      match st_decode tc, p_list p_ctor rest with
      | Some t, Some (cts, []) =>
          match build_all cts with
          | Some ss =>
              let hb := mkbox (mkpt a b e g) (mkpt c d f h) in
              r_bytes (ref_shp (layout t hb ss)) ++ r_bytes (ref_shx (layout t hb ss))
          | None => [-3]
          end
      | _, _ => [-1]
      end
  | _ => [-1]
  end.

(** ** Conversions (kind 7): [7; requested type code; n; ctor specs..] *)
From SF Require Import Model.Convert.
Definition K_CONV : Z := 7.

Definition case_conv (l : list Z) : list Z :=
  match l with
  | tc :: rest =>
      match st_decode tc, p_list p_ctor rest with
      | Some t, Some (cts, []) =>
          if st_eqb t TNull then [-1] else
          match build_all cts with
          | Some ss =>
              flat_map (fun s => st_code (shape_shapetype s) :: st_code (type_of s)
                                 :: r_res (fun x => r_shape (shape_from x)) (try_from t s)) ss
              ++ r_res (fun xs => zlen xs :: flat_map (fun x => r_shape (shape_from x)) xs) (convert_all t ss)
          | None => [-3]
          end
      | _, _ => [-1]
      end
  | _ => [-1]
  end.

(** ** The complete writer and reader (kind 9)
    [9; ncalls; (row kind, ctor spec)*; nops; ops]; the rows carry their call index. *)
From SF Require Import Model.Complete.
Definition K_PAIR : Z := 9.

Definition p_pcall : parser (rowk * ctor) :=
  k <- p_next ;; c <- p_ctor ;;
  if k =? 0 then p_ret (RowOk, c) else if k =? 1 then p_ret (RowMissingField, c) else if k =? 2 then p_ret (RowWrongType, c) else p_fail.

(* mode 1 (wire kinds 3, 4): the call goes to the bare ShapeWriter BEFORE it is wrapped into the complete writer
   (`Writer::new(shape_writer, table_writer)` accepts a writer that was already used) - kind 3 a write, kind 4 (with the
   null constructor) a finalize; only as a prefix.  mode 2 (wire kind 5): the pair belongs to the collection handed to
   the bulk helper `write_shapes_and_records` at the end; only as a suffix. *)
Definition p_pcall_b : parser (Z * (rowk * ctor)) :=
  k <- p_next ;; c <- p_ctor ;;
  if k =? 0 then p_ret (0, (RowOk, c)) else if k =? 1 then p_ret (0, (RowMissingField, c))
  else if k =? 2 then p_ret (0, (RowWrongType, c)) else if k =? 3 then p_ret (1, (RowOk, c))
  else if k =? 4 then (match c with CNull => p_ret (1, (RowOk, c)) | _ => p_fail end)
  else if k =? 5 then p_ret (2, (RowOk, c)) else p_fail.

Fixpoint split_mode {A} (m : Z) (l : list (Z * A)) : list A * list (Z * A) :=
  match l with
  | (k, x) :: r => if k =? m then let '(a, b) := split_mode m r in (x :: a, b) else ([], l)
  | [] => ([], [])
  end.

Fixpoint number_calls (i : Z) (l : list (rowk * ctor)) : option (list (shape * rowk * Z)) :=
  match l with
  | [] => Some []
  | (k, c) :: r =>
      match build c, number_calls (i + 1) r with
      | Ok s, Some l' => Some ((s, k, i) :: l')
      | _, _ => None
      end
  end.

(* the flag marks the bulk read (`Reader::read`: every pair that is left, stopping at the first error) *)
Definition p_cop : parser (bool * (nat -> ccall)) :=
  k <- p_next ;;
  if k =? 0 then j <- p_next ;; p_ret (false, fun cap => CIter (if j <? 0 then cap else Nat.min cap (Z.to_nat j)))
  else if k =? 2 then i <- p_next ;; p_ret (false, fun _ => CSeek i)
  else if k =? 3 then p_ret (false, fun _ => CCount)
  else if k =? 6 then p_ret (true, fun cap => CIter cap)
  else p_fail.

Definition written_count (rs : list (res unit)) : Z :=
  zlen (filter (fun r => match r with Ok _ | Err EDbase => true | _ => false end) rs).

Definition r_pair_item (r : res (shape * Z)) : list Z := r_res (fun x => r_shape (fst x) ++ [snd x]) r.

Definition r_cout (o : cout) : list Z :=
  match o with
  | COItems items ended => zlen items :: flat_map r_pair_item items ++ [r_bool ended]
  | COSeek r => r_unit_res r
  | COCount r => r_res (fun n => [n]) r
  end.

Fixpoint collect_pairs (items : list (res (shape * Z))) : res (list (shape * Z)) :=
  match items with
  | [] => Ok []
  | Ok x :: r => match collect_pairs r with Ok l => Ok (x :: l) | e => e end
  | Err e :: _ => Err e
  | Panic :: _ => Panic
  end.

Definition r_cout_for (bulk : bool) (o : cout) : list Z :=
  match bulk, o with
  | true, COItems items _ => r_res (fun l => zlen l :: flat_map (fun x => r_shape (fst x) ++ [snd x]) l) (collect_pairs items)
  | _, _ => r_cout o
  end.

Definition case_pair (l : list Z) : list Z :=
  match p_list p_pcall_b l with
  | Some (pcs0, rest) =>
      let '(pre0, rest1) := split_mode 1 pcs0 in
      let pre := map snd pre0 in
      let '(pcs, rest2) := split_mode 0 rest1 in
      let '(bulk, rest3) := split_mode 2 rest2 in
      match rest3 with _ :: _ => [-1] | [] =>
      (* in the prefix the null constructor stands for `finalize` of the bare ShapeWriter *)
      match build_calls (map (fun c => match c with CNull => PFinalize | _ => PWrite c end) pre), number_calls (zlen pre) (pcs ++ bulk), p_list p_cop rest with
      | Some pre_calls, Some calls_all, Some (ops, []) =>
          let calls := firstn (length pcs) calls_all in
          let bulk_calls := skipn (length pcs) calls_all in
          let '(rs0, st0, w0) := run_calls pre_calls (w_new true) world0 in
          let '(rs1, st1, w1) := cw_calls calls (mkcw st0 []) w0 in
          let '(rb, st, w) := cw_bulk bulk_calls st1 w1 in
          let rs := rs0 ++ rs1 ++ (match bulk with [] => [] | _ => [rb] end) in
          let bulk_written := (zlen (d_buf (w_shx w)) - zlen (d_buf (w_shx w1))) / 8 in
          let w' := w_drop (cw_shape st) w in
          let shp := d_buf (w_shp w') in let shx := d_buf (w_shx w') in
          let rows := cw_rows st in
          (* shapes written: the successful (or row-refused) pair calls and the successful bare writes of the prefix *)
          let pre_writes := map snd (filter (fun p => match fst p with CWrite _ => true | _ => false end) (combine pre_calls rs0)) in
          let counts := [written_count (pre_writes ++ rs1) + bulk_written; (zlen shx - 100) / 8; zlen rows] in
          zlen rs :: flat_map r_unit_res rs ++ counts ++
          match fst (run read_index_file (src_of shx)) with
          | Err e => 1 :: err_codes e
          | Panic => [2]
          | Ok index =>
              let cap := (length shp / 12 + length shx / 8 + 2)%nat in
              let p := st0 <-- r_with_shx index ;; out <-- c_calls None rows (mkcr st0 0) (map (fun f => snd f cap) ops) ;;
                       Ret (flat_map (fun x => r_cout_for (fst (fst x)) (snd x)) (combine ops out)) in
              r_res (fun x => x) (fst (run p (src_of shp)))
          end
      | None, _, _ | _, None, _ => [-3]
      | _, _, _ => [-1]
      end
      end
  | None => [-1]
  end.

(** ** geo conversions (kinds 10, 11, 12) *)
From SF Require Import Model.Geo.
Definition K_GEO_TO : Z := 10.
Definition K_GEO_FROM : Z := 11.
Definition K_GEO_DIMS : Z := 12.

Definition p_coord : parser coord := x <- p_next ;; y <- p_next ;; p_ret (x, y).
Definition p_coords : parser (list coord) := p_list p_coord.
Definition p_gpoly : parser gpoly := e <- p_coords ;; i <- p_list p_coords ;; p_ret (gpoly_new e i).

Definition p_geo : parser geom :=
  k <- p_next ;;
  if k =? 1 then c <- p_coord ;; p_ret (GPoint c)
  else if k =? 2 then a <- p_coord ;; b <- p_coord ;; p_ret (GLine a b)
  else if k =? 3 then l <- p_coords ;; p_ret (GLineString l)
  else if k =? 4 then p <- p_gpoly ;; p_ret (GPolygon p)
  else if k =? 5 then l <- p_coords ;; p_ret (GMultiPoint l)
  else if k =? 6 then l <- p_list p_coords ;; p_ret (GMultiLineString l)
  else if k =? 7 then l <- p_list p_gpoly ;; p_ret (GMultiPolygon l)
  else if k =? 8 then p_ret GCollection
  else if k =? 9 then a <- p_coord ;; b <- p_coord ;; p_ret (GRect a b)
  else if k =? 10 then a <- p_coord ;; b <- p_coord ;; c <- p_coord ;; p_ret (GTriangle a b c)
  else p_fail.

Definition r_coords (l : list coord) : list Z := zlen l :: flat_map (fun c => [fst c; snd c]) l.
Definition r_gpoly (p : gpoly) : list Z := r_coords (gp_ext p) ++ zlen (gp_ints p) :: flat_map r_coords (gp_ints p).
Definition r_geo (g : geom) : list Z :=
  match g with
  | GPoint c => [1; fst c; snd c]
  | GLine a b => [2; fst a; snd a; fst b; snd b]
  | GLineString l => 3 :: r_coords l
  | GPolygon p => 4 :: r_gpoly p
  | GMultiPoint l => 5 :: zlen l :: flat_map (fun c => [fst c; snd c]) l
  | GMultiLineString l => 6 :: zlen l :: flat_map r_coords l
  | GMultiPolygon l => 7 :: zlen l :: flat_map r_gpoly l
  | _ => [99]
  end.

Definition r_from (r : res shape) (k : shape -> list Z) : list Z :=
  match r with Ok s => 0 :: r_shape s ++ k s | Err _ => [1] | Panic => [2] end.

Definition case_geo_to (l : list Z) : list Z :=
  match p_ctor l with
  | Some (c, []) =>
      match build c with
      | Ok s =>
          match to_geo s with
          | None => [1]
          | Some g => 0 :: r_geo g ++ r_from (from_geo g) (fun _ => [])
          end
      | _ => [-3]
      end
  | _ => [-1]
  end.

(** kind 13: the shapes of a file as the generic reader returns them, each converted to a geometry *)
Definition K_GEO_FILE : Z := 13.
Definition case_geo_file (l : list Z) : list Z :=
  match p_bytes l with
  | Some (shp, []) =>
      let cap := (length shp / 12 + 2)%nat in
      match fst (run (st <-- r_new ;; x <-- it_pull cap None st ;; Ret (fst (fst x))) (src_of shp)) with
      | Ok items =>
          match collect_items items with
          | Ok shapes =>
              0 :: zlen shapes :: flat_map (fun s => match to_geo s with None => [1] | Some g => 0 :: r_geo g end) shapes
          | Err _ => [1]
          | Panic => [2]
          end
      | Err _ => [1]
      | Panic => [2]
      end
  | _ => [-1]
  end.

Definition case_geo_from (l : list Z) : list Z :=
  match p_geo l with
  | Some (g, []) => r_from (from_geo g) (fun s => match to_geo s with None => [1] | Some g2 => 0 :: r_geo g2 end)
  | _ => [-1]
  end.

Definition case_geo_dims (l : list Z) : list Z :=
  match l with
  | code :: rest =>
      match dim_of_family 1 code with
      | Some d =>
          match p_pt d rest with
          | Some (p, []) =>
              let n := coord_dim d p in
              n :: flat_map (fun i => match coord_nth d p (Z.of_nat i) with Ok v => [0; v] | _ => [2] end) (seq 0 (Z.to_nat n))
          | _ => [-1]
          end
      | None => [-1]
      end
  | _ => [-1]
  end.

(** ** A file copy (kind 14): [shp bytes] -> read everything generically
    (`ShapeReader::new(..).read()`), leave the null shapes out, write the rest
    with a writer (with index) that is then dropped. *)
Definition K_COPY : Z := 14.

Definition is_null_shape (s : shape) : bool := match s with SNull => true | _ => false end.

Definition case_copy (l : list Z) : list Z :=
  match p_bytes l with
  | Some (shp, []) =>
      let cap := (length shp / 12 + 2)%nat in
      match fst (run (st <-- r_new ;; x <-- it_pull cap None st ;; Ret (fst (fst x))) (src_of shp)) with
      | Ok items =>
          match collect_items items with
          | Ok shapes =>
              let cs := map CWrite (filter (fun s => negb (is_null_shape s)) shapes) in
              let '(rs, w) := run_history true world0 cs EDrop in
              0 :: zlen rs :: flat_map r_unit_res rs ++ r_world w
          | Err e => 1 :: err_codes e
          | Panic => [2]
          end
      | Err e => 1 :: err_codes e
      | Panic => [2]
      end
  | _ => [-1]
  end.


(** ** The path-based API on a directory (kind 16; Model/Paths.v)
    [16; complete; nstale; (name; size)*; name; history; rmname; nq; (name; want bytes)*; nops; ops] *)
From SF Require Import Model.Paths.
Definition K_PATH : Z := 16.
Definition MAGIC : bytes := [0; 0; 39; 10].
Definition stale_content (size : Z) : bytes := MAGIC ++ repeat_Z 0 (Z.to_nat (Z.max size 4) - 4).
Definition p_stale : parser (fname * Z) := n <- p_bytes ;; s <- p_next ;; p_ret (n, s).
Definition p_query : parser (fname * bool) := n <- p_bytes ;; w <- p_next ;; p_ret (n, w =? 1).
Definition p_tail {A} (p_op : parser A) : parser (fname * list (fname * bool) * list A) :=
  rm <- p_bytes ;; qs <- p_list p_query ;; ops <- p_list p_op ;; p_ret (rm, qs, ops).

Definition r_query (f : dir) (q : fname * bool) : list Z :=
  match fs_get f (fst q) with
  | None => [-1]
  | Some (FRows _) => [-2]
  | Some (FBytes b) => if name_eqb (firstn 4 b) MAGIC then zlen b :: (if snd q then b else []) else [-2]
  end.

Definition after_writer (f1 : dir) (rm : fname) (qs : list (fname * bool)) : list Z * dir :=
  let removed := match rm with [] => false | _ => fs_exists f1 rm end in
  let f2 := match rm with [] => f1 | _ => fs_remove f1 rm end in
  ([r_bool removed; zlen f2] ++ flat_map (r_query f2) qs, f2).

Definition index_of (shxo : option bytes) : res (list (Z * Z)) :=
  match shxo with Some b => fst (run read_index_file (src_of b)) | None => Ok [] end.

Definition read_part (shp : bytes) (shxo : option bytes) (ops : list rop) : list Z :=
  let cap := (length shp / 12 + length (match shxo with Some b => b | None => [] end) / 8 + 2)%nat in
  match index_of shxo with
  | Err e => 1 :: err_codes e
  | Panic => [2]
  | Ok index =>
      let open := match shxo with Some _ => r_with_shx index | None => r_new end in
      let p := st <-- open ;; out <-- run_rops cap None st ops ;; Ret (r_header (r_hdr st) ++ out) in
      r_final (fun x => x) (fst (run p (src_of shp)))
  end.

Definition pair_part_as (req : option shape_type) (shp : bytes) (shxo : option bytes) (rows : list Z) (ops : list (bool * (nat -> ccall))) : list Z :=
  let cap := (length shp / 12 + length (match shxo with Some b => b | None => [] end) / 8 + 2)%nat in
  match index_of shxo with
  | Err e => 1 :: err_codes e
  | Panic => [2]
  | Ok index =>
      let open := match shxo with Some _ => r_with_shx index | None => r_new end in
      let p := st0 <-- open ;; out <-- c_calls req rows (mkcr st0 0) (map (fun f => snd f cap) ops) ;;
               Ret (flat_map (fun x => r_cout_for (fst (fst x)) (snd x)) (combine ops out)) in
      r_res (fun x => x) (fst (run p (src_of shp)))
  end.

Definition pair_part (shp : bytes) (shxo : option bytes) (rows : list Z) (ops : list (bool * (nat -> ccall))) : list Z :=
  let cap := (length shp / 12 + length (match shxo with Some b => b | None => [] end) / 8 + 2)%nat in
  match index_of shxo with
  | Err e => 1 :: err_codes e
  | Panic => [2]
  | Ok index =>
      let open := match shxo with Some _ => r_with_shx index | None => r_new end in
      let p := st0 <-- open ;; out <-- c_calls None rows (mkcr st0 0) (map (fun f => snd f cap) ops) ;;
               Ret (flat_map (fun x => r_cout_for (fst (fst x)) (snd x)) (combine ops out)) in
      r_res (fun x => x) (fst (run p (src_of shp)))
  end.

Definition has_heal (cs : list wcall) : bool := existsb (fun c => match c with CHeal => true | _ => false end) cs.

Definition case_path_shape (f0 : dir) (name : fname) (rest : list Z) : list Z :=
  match rest with
  | ending :: rest1 =>
      match p_list p_call rest1 with
      | Some (pcs, rest2) =>
          match p_tail p_rop rest2, build_calls pcs with
          | Some ((rm, qs, ops), []), Some cs =>
              if has_heal cs then [-1] else
              match write_by_path f0 name cs (if ending =? 1 then EFinalizeDrop else EDrop) with
              | None => [-7]
              | Some (rs, f1) =>
                  let '(o, f2) := after_writer f1 rm qs in
                  zlen rs :: flat_map r_unit_res rs ++ o ++
                  match sr_open f2 name with
                  | ONotFound => [1; 13]
                  | OUnmodelled => [-7]
                  | OOpen shp shxo => read_part shp shxo ops
                  end
              end
          | Some (_, []), None => [-3]
          | _, _ => [-1]
          end
      | None => [-1]
      end
  | [] => [-1]
  end.

Definition case_path_complete (f0 : dir) (name : fname) (rest : list Z) : list Z :=
  match p_list p_pcall rest with
  | Some (pcs, rest2) =>
      match p_tail p_cop rest2, number_calls 0 pcs with
      | Some ((rm, qs, ops), []), Some calls =>
          if name_eqb (with_ext name SHX) name || name_eqb (with_ext name DBF) name then [-7] else
          let '(rs, st, w) := cw_calls calls cw_new world0 in
          let w' := w_drop (cw_shape st) w in
          let '(o, f2) := after_writer (cw_store f0 name w' (cw_rows st)) rm qs in
          zlen rs :: flat_map r_unit_res rs ++ o ++
          match cr_open f2 name with
          | CMissingDbf => [1; 12]
          | CShape ONotFound => [1; 13]
          | CShape _ => [-7]
          | COpen shp shxo rows => pair_part shp shxo rows ops
          end
      | Some (_, []), None => [-3]
      | _, _ => [-1]
      end
  | None => [-1]
  end.

Definition case_path (l : list Z) : list Z :=
  match l with
  | complete :: rest0 =>
      match p_list p_stale rest0 with
      | Some (stale, rest1) =>
          match p_bytes rest1 with
          | Some (name, rest2) =>
              let f0 := fold_left (fun f s => fs_set f (fst s) (FBytes (stale_content (snd s)))) stale [] in
              if negb (name_ok name) then [-1]
              else if complete =? 1 then case_path_complete f0 name rest2 else case_path_shape f0 name rest2
          | None => [-1]
          end
      | None => [-1]
      end
  | [] => [-1]
  end.

(** ** The complete reader on given files (kind 17)
    [17; req (-1 | type code); shp bytes; has_shx; shx bytes (if has_shx); nrows; nops; ops as in kind 9]: a table of nrows rows with ids
    0..nrows-1 beside the given .shp (and .shx). *)
Definition K_PAIR_FILE : Z := 17.
Definition case_pair_file (l0 : list Z) : list Z :=
  match l0 with
  | [] => [-1]
  | reqc :: l =>
  match decode_req reqc, p_bytes l with
  | Some req, Some (shp, has_shx :: rest) =>
      let after_shx := if has_shx =? 1 then p_bytes rest else Some ([], rest) in
      match after_shx with
      | Some (shx, nrows :: rest2) =>
          match p_list p_cop rest2 with
          | Some (ops, []) =>
              if nrows <? 0 then [-1] else
              pair_part_as req shp (if has_shx =? 1 then Some shx else None) (map Z.of_nat (seq 0 (Z.to_nat nrows))) ops
          | _ => [-1]
          end
      | _ => [-1]
      end
  | _, _ => [-1]
  end
  end.

Definition run_case2 (l : list Z) : list Z :=
  match l with
  | k :: r =>
      if k =? K_WHIST then case_whist r
      else if k =? K_READ then case_read r
      else if k =? K_REF then case_ref r
      else if k =? K_CONV then case_conv r
      else if k =? K_PAIR then case_pair r
      else if k =? K_COPY then case_copy r
      else if k =? K_PATH then case_path r
      else if k =? K_PAIR_FILE then case_pair_file r
      else if k =? K_GEO_TO then case_geo_to r
      else if k =? K_GEO_FROM then case_geo_from r
      else if k =? K_GEO_FILE then case_geo_file r
      else if k =? K_GEO_DIMS then case_geo_dims r
      else run_case l
  | [] => [-1]
  end.
