(** [run_case]: the model's answer to one correspondence case. *)
From SF Require Import Model.Bytes Model.F64 Model.ShapeType Model.Shapes Model.Res
  Model.Encode Model.F64Arith Model.Construct Run.Wire.
Open Scope Z_scope.

Definition K_TABLE : Z := 1.
Definition K_CTOR : Z := 2.
Definition K_ENC : Z := 3.

Definition case_table (l : list Z) : list Z :=
  match l with
  | [c] =>
      match st_decode c with
      | None => [0]
      | Some t => [1; st_code t; r_bool (st_has_z t); r_bool (st_has_m t); r_bool (st_is_multipart t)]
                  ++ str_codes (st_name t)
      end
  | _ => [-1]
  end.

Definition case_ctor (l : list Z) : list Z :=
  match p_ctor l with
  | Some (c, []) => r_res r_shape (build c)
  | _ => [-1]
  end.

Definition r_enc (s : shape) : list Z :=
  let cs := content_chunks s in
  size_in_bytes s :: zlen cs :: map (fun c => zlen c) cs ++ r_bytes (concat cs).

Definition case_enc (l : list Z) : list Z :=
  match p_ctor l with
  | Some (c, []) => r_res r_enc (build c)
  | _ => [-1]
  end.

Definition run_case (l : list Z) : list Z :=
  match l with
  | k :: r =>
      if k =? K_TABLE then case_table r
      else if k =? K_CTOR then case_ctor r
      else if k =? K_ENC then case_enc r
      else [-1]
  | [] => [-1]
  end.
