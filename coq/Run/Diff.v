(** Comparison of the model's results with the implementation's, evaluated
    inside Coq: only the indices of disagreeing cases are printed. *)
From SF Require Import Model.Bytes Run.RunCase.
Open Scope Z_scope.

Fixpoint list_eqb (a b : list Z) : bool :=
  match a, b with
  | [], [] => true
  | x :: a', y :: b' => (x =? y) && list_eqb a' b'
  | _, _ => false
  end.

Fixpoint mismatches (i : Z) (cs : list (list Z * list Z)) : list Z :=
  match cs with
  | [] => []
  | (c, e) :: r =>
      if list_eqb (run_case2 c) e then mismatches (i + 1) r else i :: mismatches (i + 1) r
  end.
