(* Driver for the extracted model (coq/Run/RunCase.v, run_case2).
   stdin: pairs of lines  "<case integers>" / "<expected integers>"  (mode diff)
          or single lines "<case integers>"                          (mode run)
   stdout (diff): one line per pair: "=" when the model's result equals the
   expected list, otherwise "! <model result>".
   stdout (run): the model's result, one line per case.
   Integers are decimal; conversion to and from the extracted inductive Z goes
   through unsigned 64-bit integers (larger values: decimal by repeated
   division with the extracted Z operations). *)

let rec pos_of_int64 (n : int64) : Model.positive =
  (* n > 0 as unsigned *)
  if Int64.equal n 1L then Model.XH
  else
    let half = Int64.shift_right_logical n 1 in
    if Int64.equal (Int64.logand n 1L) 0L then Model.XO (pos_of_int64 half) else Model.XI (pos_of_int64 half)

let z_of_string (s : string) : Model.z =
  let neg = String.length s > 0 && s.[0] = '-' in
  let body = if neg then String.sub s 1 (String.length s - 1) else s in
  let n = Int64.of_string ("0u" ^ body) in
  if Int64.equal n 0L then Model.Z0 else if neg then Model.Zneg (pos_of_int64 n) else Model.Zpos (pos_of_int64 n)

(* bits of a positive, at most 64; None if larger *)
let int64_of_pos (p : Model.positive) : int64 option =
  let rec go p i acc =
    if i >= 64 then None
    else match p with
      | Model.XH -> Some (Int64.logor acc (Int64.shift_left 1L i))
      | Model.XO q -> go q (i + 1) acc
      | Model.XI q -> go q (i + 1) (Int64.logor acc (Int64.shift_left 1L i))
  in go p 0 0L

let ten = Model.Zpos (Model.XO (Model.XI (Model.XO Model.XH)))

let rec big_pos_to_string (v : Model.z) : string =
  match v with
  | Model.Z0 -> ""
  | _ ->
    let (q, r) = Model.Z.div_eucl v ten in
    let d = match r with Model.Z0 -> 0 | Model.Zpos p -> (match int64_of_pos p with Some x -> Int64.to_int x | None -> assert false) | Model.Zneg _ -> assert false in
    big_pos_to_string q ^ string_of_int d

let string_of_z (v : Model.z) : string =
  match v with
  | Model.Z0 -> "0"
  | Model.Zpos p -> (match int64_of_pos p with Some x -> Printf.sprintf "%Lu" x | None -> big_pos_to_string v)
  | Model.Zneg p -> (match int64_of_pos p with Some x -> "-" ^ Printf.sprintf "%Lu" x | None -> "-" ^ big_pos_to_string (Model.Zpos p))

let parse_line (l : string) : Model.z list =
  List.filter_map (fun t -> if t = "" then None else Some (z_of_string t)) (String.split_on_char ' ' l)

let rec z_eq (a : Model.z) (b : Model.z) : bool = a = b   (* structural equality on the inductive values *)

let render (r : Model.z list) : string = String.concat " " (List.map string_of_z r)

let () =
  let mode = if Array.length Sys.argv > 1 then Sys.argv.(1) else "diff" in
  try
    while true do
      let c = input_line stdin in
      let res = Model.run_case2 (parse_line c) in
      if mode = "run" then print_endline (render res)
      else begin
        let e = parse_line (input_line stdin) in
        if List.length e = List.length res && List.for_all2 z_eq res e then print_endline "="
        else print_endline ("! " ^ render res)
      end
    done
  with End_of_file -> ()
