(** The writer state machine `ShapeWriter` (src/writer.rs, after the `fix:`
    commits): `write_shape`, `finalize`, `Drop`, `write_shapes`.

    Every transition is straight-line code issuing `write_all` / `seek` /
    `flush` calls with `?` after each one, so a transition is modelled as the
    list of operations it issues if none fails ([*_ops]) and a commit of the
    fields; running the list on the destinations stops at the first failing
    operation ([run_ops]). *)
From SF Require Import Model.Bytes Model.F64 Model.ShapeType Model.Shapes Model.Res
  Model.Encode Model.Construct.
Open Scope Z_scope.

Inductive dest := Shp | Shx.
Inductive wop := WriteAll (bs : bytes) | WSeekStart (p : Z) | WSeekEnd | WFlush.

Definition dest_eqb (a b : dest) : bool :=
  match a, b with Shp, Shp | Shx, Shx => true | _, _ => false end.

(** ** Destinations: `Cursor<Vec<u8>>` semantics, with fault injection. *)
Record wdev := mkwdev {
  d_buf : bytes;
  d_pos : Z;
  d_ops : nat;                       (* operations received so far *)
  d_fault : option (nat * bool);     (* (index of the failing operation, persistent) *)
  d_flushed : bool;                  (* last operation was a flush *)
  d_log : list wop                   (* operations received, latest first *)
}.

Definition wdev_empty : wdev := mkwdev [] 0 0 None false [].

Definition dev_faulty (d : wdev) : bool :=
  match d_fault d with
  | None => false
  | Some (k, true) => (k <=? d_ops d)%nat
  | Some (k, false) => (k =? d_ops d)%nat
  end.

(** Writing bs at position p of buf (zero fill beyond the end). *)
Definition write_at (buf : bytes) (p : nat) (bs : bytes) : bytes :=
  let buf' := if (length buf <? p)%nat then buf ++ repeat_Z 0 (p - length buf) else buf in
  firstn p buf' ++ bs ++ skipn (p + length bs) buf'.

Definition apply_op (op : wop) (d : wdev) : res unit * wdev :=
  if dev_faulty d then
    (Err EIoInjected, mkwdev (d_buf d) (d_pos d) (S (d_ops d)) (d_fault d) false (d_log d))
  else
    let log := op :: d_log d in
    match op with
    | WriteAll bs =>
        (Ok tt, mkwdev (write_at (d_buf d) (Z.to_nat (d_pos d)) bs) (d_pos d + zlen bs)
                       (S (d_ops d)) (d_fault d) false log)
    | WSeekStart p => (Ok tt, mkwdev (d_buf d) p (S (d_ops d)) (d_fault d) false log)
    | WSeekEnd => (Ok tt, mkwdev (d_buf d) (zlen (d_buf d)) (S (d_ops d)) (d_fault d) false log)
    | WFlush => (Ok tt, mkwdev (d_buf d) (d_pos d) (S (d_ops d)) (d_fault d) true log)
    end.

Record world := mkworld { w_shp : wdev; w_shx : wdev }.

Definition get_dev (w : world) (t : dest) : wdev := match t with Shp => w_shp w | Shx => w_shx w end.
Definition set_dev (w : world) (t : dest) (d : wdev) : world :=
  match t with Shp => mkworld d (w_shx w) | Shx => mkworld (w_shp w) d end.

(** Runs the operations in order; stops at the first failure. *)
Fixpoint run_ops (ops : list (dest * wop)) (w : world) : res unit * world :=
  match ops with
  | [] => (Ok tt, w)
  | (t, op) :: r =>
      let '(res, d') := apply_op op (get_dev w t) in
      let w' := set_dev w t d' in
      match res with
      | Ok _ => run_ops r w'
      | Err e => (Err e, w')
      | Panic => (Panic, w')
      end
  end.

Definition on (t : dest) (cs : chunks) : list (dest * wop) := map (fun c => (t, WriteAll c)) cs.

(** ** Writer state *)
Record wstate := mkw {
  ws_hdr : header;          (* type, running length (words), running box *)
  ws_recnum : Z;            (* u32, number of the next record *)
  ws_dirty : bool;
  ws_has_shx : bool;
  ws_interrupted : bool     (* `finalize_interrupted`: a finalize started and did not complete *)
}.

Definition w_new (has_shx : bool) : wstate := mkw header_default 1 true has_shx false.

(** Sentinels of the running box (min = +inf, max = -inf). *)
Definition sentinel_box : bbox :=
  mkbox (mkpt F_INF F_INF F_INF F_INF) (mkpt F_NEG_INF F_NEG_INF F_NEG_INF F_NEG_INF).

(** `EsriShape::{x,y,z,m}_range` *)
Definition x_range (s : shape) : f64 * f64 :=
  match s with
  | SNull => (0, 0)
  | SPoint _ p => (px p, px p)
  | SMultipoint _ b _ | SPolyline _ b _ | SPolygon _ b _ | SMultipatch b _ => (px (bmin b), px (bmax b))
  end.
Definition y_range (s : shape) : f64 * f64 :=
  match s with
  | SNull => (0, 0)
  | SPoint _ p => (py p, py p)
  | SMultipoint _ b _ | SPolyline _ b _ | SPolygon _ b _ | SMultipatch b _ => (py (bmin b), py (bmax b))
  end.
Definition z_range (s : shape) : f64 * f64 :=
  match s with
  | SPoint XYZM p => (pz p, pz p)
  | SMultipoint XYZM b _ | SPolyline XYZM b _ | SPolygon XYZM b _ | SMultipatch b _ => (pz (bmin b), pz (bmax b))
  | _ => (0, 0)
  end.
Definition m_range (s : shape) : f64 * f64 :=
  match s with
  | SPoint XY _ | SNull => (0, 0)
  | SPoint _ p => if is_no_data (pm p) then (0, 0) else (pm p, pm p)
  | SMultipoint XY _ _ | SPolyline XY _ _ | SPolygon XY _ _ => (0, 0)
  | SMultipoint _ b _ | SPolyline _ b _ | SPolygon _ b _ | SMultipatch b _ => (pm (bmin b), pm (bmax b))
  end.

(** `BBoxZ::grow_from_shape` (src/record/bbox.rs:106-126) *)
Definition grow_from_shape (b : bbox) (s : shape) : bbox :=
  let t := type_of s in
  let mn := bmin b in let mx := bmax b in
  let minx := f64_min (fst (x_range s)) (px mn) in
  let maxx := f64_max (snd (x_range s)) (px mx) in
  let miny := f64_min (fst (y_range s)) (py mn) in
  let maxy := f64_max (snd (y_range s)) (py mx) in
  let minm := if st_has_m t then f64_min (fst (m_range s)) (pm mn) else pm mn in
  let maxm := if st_has_m t then f64_max (snd (m_range s)) (pm mx) else pm mx in
  let minz := if st_has_z t then f64_min (fst (z_range s)) (pz mn) else pz mn in
  let maxz := if st_has_z t then f64_max (snd (z_range s)) (pz mx) else pz mx in
  mkbox (mkpt minx miny minz minm) (mkpt maxx maxy maxz maxm).

Definition set_type_box (h : header) (t : shape_type) (b : bbox) : header :=
  mkhdr (h_len h) t (h_version h) b.
Definition set_len (h : header) (l : Z) : header := mkhdr l (h_type h) (h_version h) (h_box h).
Definition set_box (h : header) (b : bbox) : header := mkhdr (h_len h) (h_type h) (h_version h) b.

(** `write_shape` (src/writer.rs:97-152).  Returns the state as it is when
    the I/O starts (on the first write the type and the sentinel box are set
    before the header is reserved), the operations, and the state committed
    when all of them succeeded. *)
Definition write_shape_plan (st : wstate) (s : shape)
  : res (wstate * list (dest * wop) * wstate) :=
  let t := type_of s in
  let first := st_eqb (h_type (ws_hdr st)) TNull in
  if negb first && negb (st_eqb (h_type (ws_hdr st)) t)
  then Err (EMismatch (h_type (ws_hdr st)) t)
  else
    let st0 := if first
               then mkw (set_type_box (ws_hdr st) t sentinel_box) (ws_recnum st) (ws_dirty st) (ws_has_shx st)
                        (ws_interrupted st)
               else st in
    let hdr_ops :=
      if first then
        (Shp, WSeekStart 0) :: on Shp (header_chunks (ws_hdr st0))
        ++ (if ws_has_shx st then (Shx, WSeekStart 0) :: on Shx (header_chunks (ws_hdr st0)) else [])
      else [] in
    (* after an interrupted finalize both destinations are re-positioned at their end *)
    let repos_ops :=
      if ws_interrupted st
      then (Shp, WSeekEnd) :: (if ws_has_shx st then [(Shx, WSeekEnd)] else [])
      else [] in
    let words := record_words s in
    let rec_ops :=
      on Shp (record_chunks (h_type (ws_hdr st0)) (wrap_i32 (ws_recnum st0)) s)
      ++ (if ws_has_shx st then on Shx (index_entry_chunks (h_len (ws_hdr st0)) (wrap_i32 words)) else []) in
    let h1 := set_box (set_len (ws_hdr st0) (h_len (ws_hdr st0) + (wrap_i32 words + 4)))
                      (grow_from_shape (h_box (ws_hdr st0)) s) in
    let st1 := mkw h1 (ws_recnum st0 + 1) true (ws_has_shx st) false in
    Ok (st0, hdr_ops ++ repos_ops ++ rec_ops, st1).

Definition w_write_shape (st : wstate) (w : world) (s : shape) : res unit * wstate * world :=
  match write_shape_plan st s with
  | Err e => (Err e, st, w)
  | Panic => (Panic, st, w)
  | Ok (st0, ops, st1) =>
      let '(r, w') := run_ops ops w in
      match r with
      | Ok _ => (Ok tt, st1, w')
      | _ => (r, st0, w')
      end
  end.

(** `finalize` (src/writer.rs:190-230) *)
Definition subst_sentinels (b : bbox) : bbox :=
  let mn := bmin b in let mx := bmax b in
  let m_untouched := f64_eq (pm mx) F_NEG_INF && f64_eq (pm mn) F_INF in
  let z_untouched := f64_eq (pz mx) F_NEG_INF && f64_eq (pz mn) F_INF in
  mkbox (mkpt (px mn) (py mn) (if z_untouched then 0 else pz mn) (if m_untouched then 0 else pm mn))
        (mkpt (px mx) (py mx) (if z_untouched then 0 else pz mx) (if m_untouched then 0 else pm mx)).

Definition final_header (st : wstate) : header := set_box (ws_hdr st) (subst_sentinels (h_box (ws_hdr st))).
Definition shx_header (st : wstate) : header :=
  set_len (final_header st) (50 + Z.quot (wrap_i32 (ws_recnum st - 1) * 2 * 4) 2).

Definition finalize_ops (st : wstate) : list (dest * wop) :=
  (Shp, WSeekStart 0) :: on Shp (header_chunks (final_header st)) ++ [(Shp, WSeekEnd); (Shp, WFlush)]
  ++ (if ws_has_shx st
      then (Shx, WSeekStart 0) :: on Shx (header_chunks (shx_header st)) ++ [(Shx, WSeekEnd); (Shx, WFlush)]
      else []).

Definition set_interrupted (st : wstate) (b : bool) : wstate :=
  mkw (ws_hdr st) (ws_recnum st) (ws_dirty st) (ws_has_shx st) b.

Definition w_finalize (st : wstate) (w : world) : res unit * wstate * world :=
  if negb (ws_dirty st) then (Ok tt, st, w) else
  let '(r, w') := run_ops (finalize_ops st) w in
  match r with
  | Ok _ => (Ok tt, mkw (ws_hdr st) (ws_recnum st) false (ws_has_shx st) false, w')
  | _ => (r, set_interrupted st true, w')
  end.

(** `Drop`: finalize, result ignored. *)
Definition w_drop (st : wstate) (w : world) : world := snd (w_finalize st w).

(** ** Histories of calls *)
Inductive wcall := CWrite (s : shape) | CFinalize | CHeal.

Definition heal_dev (d : wdev) : wdev := mkwdev (d_buf d) (d_pos d) (d_ops d) None (d_flushed d) (d_log d).
Definition heal (w : world) : world := mkworld (heal_dev (w_shp w)) (heal_dev (w_shx w)).
Inductive wending := EDrop | EFinalizeDrop.

Fixpoint run_calls (cs : list wcall) (st : wstate) (w : world) : list (res unit) * wstate * world :=
  match cs with
  | [] => ([], st, w)
  | c :: r =>
      let '(res, st', w') := match c with
                             | CWrite s => w_write_shape st w s
                             | CFinalize => w_finalize st w
                             | CHeal => (Ok tt, st, heal w)
                             end in
      let '(rs, st'', w'') := run_calls r st' w' in
      (res :: rs, st'', w'')
  end.

Definition run_history (has_shx : bool) (w0 : world) (cs : list wcall) (e : wending)
  : list (res unit) * world :=
  let '(rs, st, w) := run_calls cs (w_new has_shx) w0 in
  match e with
  | EDrop => (rs, w_drop st w)
  | EFinalizeDrop =>
      let '(r, st', w') := w_finalize st w in (rs ++ [r], w_drop st' w')
  end.

(** `write_shapes(self, container)`: write each, stop at the first error, then
    the writer is dropped. *)
Fixpoint write_shapes_calls (ss : list shape) (st : wstate) (w : world) : res unit * wstate * world :=
  match ss with
  | [] => (Ok tt, st, w)
  | s :: r =>
      let '(res, st', w') := w_write_shape st w s in
      match res with
      | Ok _ => write_shapes_calls r st' w'
      | _ => (res, st', w')
      end
  end.

Definition run_write_shapes (has_shx : bool) (w0 : world) (ss : list shape) : res unit * world :=
  let '(r, st, w) := write_shapes_calls ss (w_new has_shx) w0 in (r, w_drop st w).

(** A history ended by the bulk helper: `write_shapes(self, tail)` on a writer
    that already received calls (the helper consumes the writer: drop follows). *)
Definition run_history_bulk (has_shx : bool) (w0 : world) (cs : list wcall) (tail : list shape)
  : list (res unit) * world :=
  let '(rs, st, w) := run_calls cs (w_new has_shx) w0 in
  let '(r, st', w') := write_shapes_calls tail st w in (rs ++ [r], w_drop st' w').

Definition world0 : world := mkworld wdev_empty wdev_empty.
Definition world_with_fault (t : dest) (k : nat) (persistent : bool) : world :=
  let d := mkwdev [] 0 0 (Some (k, persistent)) false [] in
  match t with Shp => mkworld d wdev_empty | Shx => mkworld wdev_empty d end.
