(** Outcome of a modelled call: a value, an error value of the library's
    `Error` enum, or a panic (assert, index out of bounds, checked arithmetic
    overflow, capacity overflow). *)
From SF Require Import Model.Bytes Model.ShapeType.
Open Scope Z_scope.

Inductive err :=
| EIoEof                      (* io::ErrorKind::UnexpectedEof *)
| EIoInvalidData              (* io::ErrorKind::InvalidData *)
| EIoInjected                 (* the error a fault-injecting device returns *)
| EIoWriteZero                (* io::ErrorKind::WriteZero from write_all *)
| EInvalidFileCode (c : Z)
| EInvalidShapeType (c : Z)
| EInvalidPatchType (c : Z)
| EMismatch (requested actual : shape_type)
| EInvalidRecordSize
| EMissingIndex
| EDbase
| EMissingDbf.

Inductive res (A : Type) :=
| Ok (a : A)
| Err (e : err)
| Panic.
Arguments Ok {A} a.
Arguments Err {A} e.
Arguments Panic {A}.

Definition rbind {A B} (r : res A) (f : A -> res B) : res B :=
  match r with Ok a => f a | Err e => Err e | Panic => Panic end.

Definition rmap {A B} (f : A -> B) (r : res A) : res B :=
  match r with Ok a => Ok (f a) | Err e => Err e | Panic => Panic end.

Definition is_ok {A} (r : res A) : bool := match r with Ok _ => true | _ => false end.
Definition is_panic {A} (r : res A) : bool := match r with Panic => true | _ => false end.

(** Canonical rendering of errors on the wire (lib/wire.py and the Rust
    harness use the same numbers). *)
Definition err_codes (e : err) : list Z :=
  match e with
  | EIoEof => [1]
  | EIoInvalidData => [2]
  | EIoInjected => [3]
  | EIoWriteZero => [4]
  | EInvalidFileCode c => [5; c]
  | EInvalidShapeType c => [6; c]
  | EInvalidPatchType c => [7; c]
  | EMismatch r a => [8; st_code r; st_code a]
  | EInvalidRecordSize => [9]
  | EMissingIndex => [10]
  | EDbase => [11]
  | EMissingDbf => [12]
  end.
