(** Public constructors, with their panics: `GenericBBox::from_points`,
    `grow_from_points`, `from_parts` (src/record/bbox.rs), shrink/grow
    (src/record/traits.rs), `GenericMultipoint::new`, `GenericPolyline::new`,
    `with_parts`, `GenericPolygon::new`, `with_rings`, `PolygonRing::from`,
    `Multipatch::new`, `with_parts`, closing and reordering of rings. *)
From SF Require Import Model.Bytes Model.F64 Model.ShapeType Model.Shapes Model.Res Model.F64Arith.
Open Scope Z_scope.

(** `ShrinkablePoint::shrink` / `GrowablePoint::grow` for Point, PointM, PointZ. *)
Definition shrink (d : dim) (a o : pt) : pt :=
  match d with
  | XY => mkpt (f64_min (px a) (px o)) (f64_min (py a) (py o)) (pz a) (pm a)
  | XYM => mkpt (f64_min (px a) (px o)) (f64_min (py a) (py o)) (pz a) (f64_min (pm a) (pm o))
  | XYZM => mkpt (f64_min (px a) (px o)) (f64_min (py a) (py o)) (f64_min (pz a) (pz o)) (f64_min (pm a) (pm o))
  end.
Definition grow (d : dim) (a o : pt) : pt :=
  match d with
  | XY => mkpt (f64_max (px a) (px o)) (f64_max (py a) (py o)) (pz a) (pm a)
  | XYM => mkpt (f64_max (px a) (px o)) (f64_max (py a) (py o)) (pz a) (f64_max (pm a) (pm o))
  | XYZM => mkpt (f64_max (px a) (px o)) (f64_max (py a) (py o)) (f64_max (pz a) (pz o)) (f64_max (pm a) (pm o))
  end.

(** `grow_from_points` *)
Definition box_grow_points (d : dim) (b : bbox) (ps : list pt) : bbox :=
  fold_left (fun b p => mkbox (shrink d (bmin b) p) (grow d (bmax b) p)) ps b.

(** `from_points`: indexes points[0] (panics on an empty slice). *)
Definition box_from_points (d : dim) (ps : list pt) : res bbox :=
  match ps with
  | [] => Panic
  | p0 :: r => Ok (box_grow_points d (mkbox p0 p0) r)
  end.

(** `from_parts`: indexes parts[0]. *)
Definition box_from_parts (d : dim) (parts : list (list pt)) : res bbox :=
  match parts with
  | [] => Panic
  | p0 :: r => rbind (box_from_points d p0) (fun b => Ok (fold_left (box_grow_points d) r b))
  end.

(** derived `PartialEq` of Point / PointM / PointZ *)
Definition pt_eq (d : dim) (a b : pt) : bool :=
  match d with
  | XY => f64_eq (px a) (px b) && f64_eq (py a) (py b)
  | XYM => f64_eq (px a) (px b) && f64_eq (py a) (py b) && f64_eq (pm a) (pm b)
  | XYZM => f64_eq (px a) (px b) && f64_eq (py a) (py b) && f64_eq (pz a) (pz b) && f64_eq (pm a) (pm b)
  end.

(** `is_part_closed` / `close_points_if_not_already` (src/record/mod.rs:93-109) *)
Definition is_part_closed (d : dim) (ps : list pt) : bool :=
  match ps with
  | [] => false
  | p0 :: _ => pt_eq d p0 (last ps p0)
  end.

Definition close_points (d : dim) (ps : list pt) : list pt :=
  if is_part_closed d ps then ps
  else match ps with [] => [] | p0 :: _ => ps ++ [p0] end.

(** `PolygonRing::close_and_reorder` (src/record/polygon.rs:146-170) *)
Definition role_eqb (a b : role) : bool :=
  match a, b with Outer, Outer | Inner, Inner => true | _, _ => false end.

Definition reorder (r : role) (ps : list pt) : list pt :=
  if role_eqb r (ring_role ps) then ps else rev ps.

Definition close_and_reorder (d : dim) (ring : role * list pt) : role * list pt :=
  (fst ring, reorder (fst ring) (close_points d (snd ring))).

(** Constructors. *)
Definition mk_multipoint (d : dim) (ps : list pt) : res shape :=
  rbind (box_from_points d ps) (fun b => Ok (SMultipoint d b ps)).

Definition mk_polyline_new (d : dim) (ps : list pt) : res shape :=
  if (length ps <? 2)%nat then Panic
  else rbind (box_from_points d ps) (fun b => Ok (SPolyline d b [ps])).

Definition mk_polyline (d : dim) (parts : list (list pt)) : res shape :=
  if forallb (fun p => negb (length p <? 2)%nat) parts
  then rbind (box_from_parts d parts) (fun b => Ok (SPolyline d b parts))
  else Panic.

Definition mk_polygon (d : dim) (rings : list (role * list pt)) : res shape :=
  let rings' := map (close_and_reorder d) rings in
  match rings' with
  | [] => Panic
  | r0 :: rest =>
      rbind (box_from_points d (snd r0)) (fun b =>
        Ok (SPolygon d (fold_left (fun b r => box_grow_points d b (snd r)) rest b) rings'))
  end.

Definition mk_polygon_new (d : dim) (ring : role * list pt) : res shape :=
  mk_polygon d [close_and_reorder d ring].

Definition close_patch (p : pkind * list pt) : pkind * list pt :=
  if pkind_is_ring (fst p) then (fst p, close_points XYZM (snd p)) else p.

Definition mk_multipatch (patches : list (pkind * list pt)) : res shape :=
  let ps' := map close_patch patches in
  match ps' with
  | [] => Panic
  | p0 :: rest =>
      rbind (box_from_points XYZM (snd p0)) (fun b =>
        Ok (SMultipatch (fold_left (fun b p => box_grow_points XYZM b (snd p)) rest b) ps'))
  end.

(** `PolygonRing::from(Vec<PointType>)`, used when a polygon is read
    (src/record/polygon.rs:366-377). *)
Definition ring_from_points (ps : list pt) : role * list pt := (ring_role ps, ps).
