(** Write side of the codec: `WritableShape::size_in_bytes` and
    `WritableShape::write_to` for every shape type, the record header, the file
    header and the index entry.  `write_to` is modelled as the list of
    `write_all` chunks it issues (one per `write_i32`/`write_f64`/`write_all`
    call), because C11 and C12 quantify over exactly these operations. *)
From SF Require Import Model.Bytes Model.F64 Model.ShapeType Model.Shapes.
Open Scope Z_scope.

Definition chunks := list bytes.

(** src/record/io.rs:20-65 *)
Definition bbox_xy_chunks (b : bbox) : chunks :=
  [f64_enc (px (bmin b)); f64_enc (py (bmin b)); f64_enc (px (bmax b)); f64_enc (py (bmax b))].
Definition m_range_chunks (b : bbox) : chunks := [f64_enc (pm (bmin b)); f64_enc (pm (bmax b))].
Definition z_range_chunks (b : bbox) : chunks := [f64_enc (pz (bmin b)); f64_enc (pz (bmax b))].

(** src/record/io.rs:116-142 *)
Definition xy_chunks (ps : list pt) : chunks := flat_map (fun p => [f64_enc (px p); f64_enc (py p)]) ps.
Definition ms_chunks (ps : list pt) : chunks := map (fun p => f64_enc (pm p)) ps.
Definition zs_chunks (ps : list pt) : chunks := map (fun p => f64_enc (pz p)) ps.

(** `write_parts_array` (src/record/io.rs:289-296): running sum from 0.  The
    i32 accumulator is kept unbounded here; [i32_le] reduces modulo 2^32, which
    is what release-mode wrapping gives (a debug build would panic above 2^31
    points in one shape; see DESIGN section 8, not reachable below FileFits). *)
Fixpoint part_offsets (acc : Z) (lens : list Z) : list Z :=
  match lens with
  | [] => []
  | l :: r => acc :: part_offsets (acc + l) r
  end.

Definition part_lens (parts : list (list pt)) : list Z := map (fun p => zlen p) parts.
Definition total_points (parts : list (list pt)) : Z := sum_Z (part_lens parts).

(** Common prefix of every multi-part body: box, part count, point count,
    part offsets (write_bbox_xy, write_num_parts, write_num_points,
    write_parts_array). *)
Definition multipart_head (b : bbox) (parts : list (list pt)) : chunks :=
  bbox_xy_chunks b ++ [i32_le (zlen parts)] ++ [i32_le (total_points parts)]
  ++ map i32_le (part_offsets 0 (part_lens parts)).

Definition multipart_tail (d : dim) (b : bbox) (parts : list (list pt)) : chunks :=
  flat_map xy_chunks parts
  ++ (if has_z_dim d then z_range_chunks b ++ flat_map zs_chunks parts else [])
  ++ (if has_m_dim d then m_range_chunks b ++ flat_map ms_chunks parts else []).

(** write_point_shape / write_point_m_shape / write_point_z_shape *)
Definition multipart_chunks (d : dim) (b : bbox) (parts : list (list pt)) : chunks :=
  multipart_head b parts ++ multipart_tail d b parts.

Definition point_chunks (d : dim) (p : pt) : chunks :=
  match d with
  | XY => [f64_enc (px p); f64_enc (py p)]
  | XYM => [f64_enc (px p); f64_enc (py p); f64_enc (pm p)]
  | XYZM => [f64_enc (px p); f64_enc (py p); f64_enc (pz p); f64_enc (pm p)]
  end.

Definition multipoint_chunks (d : dim) (b : bbox) (ps : list pt) : chunks :=
  bbox_xy_chunks b ++ [i32_le (zlen ps)] ++ xy_chunks ps
  ++ (if has_z_dim d then z_range_chunks b ++ zs_chunks ps else [])
  ++ (if has_m_dim d then m_range_chunks b ++ ms_chunks ps else []).

(** `WritableShape::write_to`; a Null shape is never written by the library
    (there is no `EsriShape` impl for it): it emits nothing. *)
Definition content_chunks (s : shape) : chunks :=
  match s with
  | SNull => []
  | SPoint d p => point_chunks d p
  | SMultipoint d b ps => multipoint_chunks d b ps
  | SPolyline d b parts => multipart_chunks d b parts
  | SPolygon d b rings => multipart_chunks d b (map snd rings)
  | SMultipatch b patches =>
      multipart_head b (map snd patches)
      ++ map (fun p => i32_le (pkind_code (fst p))) patches
      ++ multipart_tail XYZM b (map snd patches)
  end.

Definition content_bytes (s : shape) : bytes := concat (content_chunks s).

(** `WritableShape::size_in_bytes`, mirrored formula by formula. *)
Definition coords_per_point (d : dim) : Z := match d with XY => 2 | XYM => 3 | XYZM => 4 end.
Definition range_bytes (d : dim) : Z := match d with XY => 0 | XYM => 16 | XYZM => 32 end.

Definition size_in_bytes (s : shape) : Z :=
  match s with
  | SNull => 0
  | SPoint d _ => coords_per_point d * 8
  | SMultipoint d _ ps => 4 * 8 + 4 + coords_per_point d * 8 * zlen ps + range_bytes d
  | SPolyline d _ parts =>
      8 * 4 + 4 + 4 + 4 * zlen parts + coords_per_point d * 8 * total_points parts + range_bytes d
  | SPolygon d _ rings =>
      8 * 4 + 4 + 4 + 4 * zlen rings + coords_per_point d * 8 * total_points (map snd rings)
      + range_bytes d
  | SMultipatch _ patches =>
      4 * 8 + 4 + 4 + 4 * zlen patches + 4 * zlen patches
      + 4 * 8 * total_points (map snd patches) + 2 * 8 + 2 * 8
  end.

(** Content length in 16-bit words stored in the record header
    (src/writer.rs:121): `(size_in_bytes + size_of::<i32>()) / 2`. *)
Definition record_words (s : shape) : Z := (size_in_bytes s + 4) / 2.

(** `RecordHeader::write_to` (src/record/mod.rs:305-309). *)
Definition record_header_chunks (num words : Z) : chunks := [i32_be num; i32_be words].

(** File header. *)
Record header := mkhdr { h_len : Z; h_type : shape_type; h_version : Z; h_box : bbox }.

(** `Header::default()`: all ranges zero (after the fix F14; before it the M range was NO_DATA). *)
Definition header_default : header :=
  mkhdr 50 TNull 1000 (mkbox (mkpt 0 0 0 0) (mkpt 0 0 0 0)).

(** `Header::write_to` (src/header.rs:75-95). *)
Definition header_chunks (h : header) : chunks :=
  [i32_be 9994; repeat_Z 0 20; i32_be (h_len h); i32_le (h_version h); i32_le (st_code (h_type h));
   f64_enc (px (bmin (h_box h))); f64_enc (py (bmin (h_box h)));
   f64_enc (px (bmax (h_box h))); f64_enc (py (bmax (h_box h)));
   f64_enc (pz (bmin (h_box h))); f64_enc (pz (bmax (h_box h)));
   f64_enc (pm (bmin (h_box h))); f64_enc (pm (bmax (h_box h)))].

Definition header_bytes (h : header) : bytes := concat (header_chunks h).

(** `ShapeIndex::write_to` (src/reader.rs:77-83). *)
Definition index_entry_chunks (off words : Z) : chunks := [i32_be off; i32_be words].

(** Everything `write_shape` sends to the .shp for one record
    (src/writer.rs:123-129). *)
Definition record_chunks (t : shape_type) (num : Z) (s : shape) : chunks :=
  record_header_chunks num (record_words s) ++ [i32_le (st_code t)] ++ content_chunks s.

Definition record_bytes (t : shape_type) (num : Z) (s : shape) : bytes :=
  concat (record_chunks t num s).
