(** Files opened by path.  `Path::with_extension` on the final component of a
    path (bytes of an `OsStr` on Unix), a directory as a finite map from names
    to contents, `File::create` (create or truncate), `File::open`,
    `Path::exists`, and the path-based constructors of the library on top of
    the in-memory models:

      ShapeWriter::from_path(p)   creates p and p.with_extension("shx")
      Writer::from_path(p, ..)    ... and p.with_extension("dbf") (through dbase)
      ShapeReader::from_path(p)   opens p; uses p.with_extension("shx") iff it exists
      Reader::from_path(p)        MissingDbf unless p.with_extension("dbf") exists

    The directory part of the path is fixed and not modelled (the names below
    are file names inside one directory; they hold no '/' and no NUL and are
    neither "." nor ".."). *)
From SF Require Import Model.Bytes Model.ShapeType Model.Shapes Model.Res Model.Writer.
Open Scope Z_scope.

Definition fname := list Z.
Definition DOT : Z := 46.

(** The name cut at its last dot: (before, after). *)
Fixpoint cut_last_dot (n : fname) : option (fname * fname) :=
  match n with
  | [] => None
  | c :: r =>
      match cut_last_dot r with
      | Some (b, a) => Some (c :: b, a)
      | None => if c =? DOT then Some ([], r) else None
      end
  end.

(** `Path::file_stem`: the name up to its last dot; a name whose only dot is
    the leading one (".profile") has no extension. *)
Definition file_stem (n : fname) : fname :=
  match cut_last_dot n with
  | Some (c :: b, _) => c :: b
  | _ => n
  end.

(** `Path::extension`. *)
Definition extension (n : fname) : option fname :=
  match cut_last_dot n with
  | Some (_ :: _, a) => Some a
  | _ => None
  end.

(** `Path::with_extension(e)` for a non-empty e. *)
Definition with_ext (n e : fname) : fname := file_stem n ++ DOT :: e.

Definition SHP : fname := [115; 104; 112].
Definition SHX : fname := [115; 104; 120].
Definition DBF : fname := [100; 98; 102].

Definition name_eqb (a b : fname) : bool := if list_eq_dec Z.eq_dec a b then true else false.

Definition name_ok (n : fname) : bool :=
  negb (name_eqb n []) && negb (name_eqb n [DOT]) && negb (name_eqb n [DOT; DOT])
  && forallb (fun c => negb (c =? 47) && negb (c =? 0)) n.

(** ** A directory *)
Inductive fcontent :=
| FBytes (b : bytes)          (* a file of the library's own formats, byte for byte *)
| FRows (rows : list Z).      (* a table written through the dbase crate: the ids of its rows; opaque otherwise *)

Definition dir := list (fname * fcontent).

Fixpoint fs_get (f : dir) (n : fname) : option fcontent :=
  match f with
  | [] => None
  | (m, c) :: r => if name_eqb m n then Some c else fs_get r n
  end.

(** `File::create` followed by whatever the owner writes: the former content is gone. *)
Fixpoint fs_set (f : dir) (n : fname) (c : fcontent) : dir :=
  match f with
  | [] => [(n, c)]
  | (m, d) :: r => if name_eqb m n then (n, c) :: r else (m, d) :: fs_set r n c
  end.

Fixpoint fs_remove (f : dir) (n : fname) : dir :=
  match f with
  | [] => []
  | (m, d) :: r => if name_eqb m n then r else (m, d) :: fs_remove r n
  end.

Definition fs_exists (f : dir) (n : fname) : bool := match fs_get f n with Some _ => true | None => false end.

(** ** The writer by path *)
(** `ShapeWriter::from_path`: both files are created, hence empty. *)
Definition sw_create (f : dir) (n : fname) : dir := fs_set (fs_set f n (FBytes [])) (with_ext n SHX) (FBytes []).

(** Once the writer is gone the two files hold what its two destinations received. *)
Definition sw_store (f : dir) (n : fname) (w : world) : dir :=
  fs_set (fs_set f n (FBytes (d_buf (w_shp w)))) (with_ext n SHX) (FBytes (d_buf (w_shx w))).

(** A whole history through `ShapeWriter::from_path(n)`.  Not modelled (None):
    a name whose own extension is "shx", for which the library opens the same
    file twice. *)
Definition write_by_path (f : dir) (n : fname) (cs : list wcall) (e : wending) : option (list (res unit) * dir) :=
  if name_eqb (with_ext n SHX) n then None
  else let '(rs, w) := run_history true world0 cs e in Some (rs, sw_store (sw_create f n) n w).

(** The complete writer adds the table; rows successful pairs were written. *)
Definition cw_store (f : dir) (n : fname) (w : world) (rows : list Z) : dir :=
  fs_set (sw_store (sw_create f n) n w) (with_ext n DBF) (FRows rows).

(** ** The reader by path *)
Inductive opened :=
| ONotFound                                  (* io::ErrorKind::NotFound from File::open *)
| OUnmodelled
| OOpen (shp : bytes) (shx : option bytes).

(** `ShapeReader::from_path`. *)
Definition sr_open (f : dir) (n : fname) : opened :=
  match fs_get f n with
  | None => ONotFound
  | Some (FRows _) => OUnmodelled
  | Some (FBytes shp) =>
      match fs_get f (with_ext n SHX) with
      | None => OOpen shp None
      | Some (FBytes shx) => OOpen shp (Some shx)
      | Some (FRows _) => OUnmodelled
      end
  end.

Inductive copened :=
| CMissingDbf
| CShape (o : opened)                        (* the .dbf exists: outcome of ShapeReader::from_path *)
| COpen (shp : bytes) (shx : option bytes) (rows : list Z).

(** `Reader::from_path`. *)
Definition cr_open (f : dir) (n : fname) : copened :=
  match fs_get f (with_ext n DBF) with
  | None => CMissingDbf
  | Some d =>
      match sr_open f n with
      | OOpen shp shx => match d with FRows k => COpen shp shx k | FBytes _ => CShape OUnmodelled end
      | o => CShape o
      end
  end.
