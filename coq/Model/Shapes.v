(** Shape values.  One inductive mirrors the 14 variants of `Shape`
    (src/record/mod.rs:174-189) with the point dimension as a parameter, the way
    the Rust code is generic over `PointType`.  A point always carries four
    fields; fields its dimension does not have are never observed (the decoder
    and `on_read` set them to +0.0). *)
From SF Require Import Model.Bytes Model.F64 Model.ShapeType.
Open Scope Z_scope.

Inductive dim := XY | XYM | XYZM.

Record pt := mkpt { px : f64; py : f64; pz : f64; pm : f64 }.

(** `GenericBBox<PointType>` : a min point and a max point. *)
Record bbox := mkbox { bmin : pt; bmax : pt }.

Inductive role := Outer | Inner.
Inductive pkind := KStrip | KFan | KOuter | KInner | KFirst | KRing.

Inductive shape :=
| SNull
| SPoint (d : dim) (p : pt)
| SMultipoint (d : dim) (b : bbox) (ps : list pt)
| SPolyline (d : dim) (b : bbox) (parts : list (list pt))
| SPolygon (d : dim) (b : bbox) (rings : list (role * list pt))
| SMultipatch (b : bbox) (patches : list (pkind * list pt)).

Definition has_m_dim (d : dim) : bool := match d with XY => false | _ => true end.
Definition has_z_dim (d : dim) : bool := match d with XYZM => true | _ => false end.

Definition point_type (d : dim) := match d with XY => TPoint | XYM => TPointM | XYZM => TPointZ end.
Definition multipoint_type (d : dim) := match d with XY => TMultipoint | XYM => TMultipointM | XYZM => TMultipointZ end.
Definition polyline_type (d : dim) := match d with XY => TPolyline | XYM => TPolylineM | XYZM => TPolylineZ end.
Definition polygon_type (d : dim) := match d with XY => TPolygon | XYM => TPolygonM | XYZM => TPolygonZ end.

(** The ESRI type of a value: what `<S as HasShapeType>::shapetype()` is for
    the concrete Rust type of the variant. *)
Definition type_of (s : shape) : shape_type :=
  match s with
  | SNull => TNull
  | SPoint d _ => point_type d
  | SMultipoint d _ _ => multipoint_type d
  | SPolyline d _ _ => polyline_type d
  | SPolygon d _ _ => polygon_type d
  | SMultipatch _ _ => TMultipatch
  end.

(** `Shape::shapetype(&self)` (src/record/mod.rs:244-261), mirrored arm by arm
    from the code (so that a wrong arm there shows up as a disagreement and as
    a failure of C06_type_identity). *)
Definition shape_shapetype (s : shape) : shape_type :=
  match s with
  | SPolyline XY _ _ => TPolyline
  | SPolyline XYM _ _ => TPolylineM
  | SPolyline XYZM _ _ => TPolylineZ
  | SPoint XY _ => TPoint
  | SPoint XYM _ => TPointM
  | SPoint XYZM _ => TPointZ
  | SPolygon XY _ _ => TPolygon
  | SPolygon XYM _ _ => TPolygonM
  | SPolygon XYZM _ _ => TPolygonZ
  | SMultipoint XY _ _ => TMultipoint
  | SMultipoint XYM _ _ => TMultipointM
  | SMultipoint XYZM _ _ => TMultipointZ
  | SMultipatch _ _ => TMultipatch
  | SNull => TNull
  end.

Definition pt0 : pt := mkpt 0 0 0 0.
Definition box0 : bbox := mkbox pt0 pt0.

Definition role_code (r : role) : Z := match r with Outer => 0 | Inner => 1 end.
Definition pkind_code (k : pkind) : Z :=
  match k with KStrip => 0 | KFan => 1 | KOuter => 2 | KInner => 3 | KFirst => 4 | KRing => 5 end.
Definition pkind_decode (c : Z) : option pkind :=
  if c =? 0 then Some KStrip else if c =? 1 then Some KFan else
  if c =? 2 then Some KOuter else if c =? 3 then Some KInner else
  if c =? 4 then Some KFirst else if c =? 5 then Some KRing else None.
Definition pkind_is_ring (k : pkind) : bool :=
  match k with KStrip | KFan => false | _ => true end.

Definition ring_points (r : role * list pt) : list pt := snd r.
Definition patch_points (p : pkind * list pt) : list pt := snd p.

(** The list of vertex lists of a shape (empty for Null, singleton for points
    and multipoints). *)
Definition shape_parts (s : shape) : list (list pt) :=
  match s with
  | SNull => []
  | SPoint _ p => [[p]]
  | SMultipoint _ _ ps => [ps]
  | SPolyline _ _ parts => parts
  | SPolygon _ _ rings => map snd rings
  | SMultipatch _ patches => map snd patches
  end.

Definition shape_dim (s : shape) : dim :=
  match s with
  | SNull => XY
  | SPoint d _ | SMultipoint d _ _ | SPolyline d _ _ | SPolygon d _ _ => d
  | SMultipatch _ _ => XYZM
  end.
