(** Model of `ShapeType` (src/lib.rs:151-273): codes, decoding, predicates,
    display names. *)
From SF Require Import Model.Bytes.
From Coq Require Import String Ascii.
Open Scope Z_scope.

Inductive shape_type :=
| TNull | TPoint | TPolyline | TPolygon | TMultipoint
| TPointZ | TPolylineZ | TPolygonZ | TMultipointZ
| TPointM | TPolylineM | TPolygonM | TMultipointM
| TMultipatch.

Definition all_types : list shape_type :=
  [TNull; TPoint; TPolyline; TPolygon; TMultipoint;
   TPointZ; TPolylineZ; TPolygonZ; TMultipointZ;
   TPointM; TPolylineM; TPolygonM; TMultipointM; TMultipatch].

(** `t as i32` *)
Definition st_code (t : shape_type) : Z :=
  match t with
  | TNull => 0 | TPoint => 1 | TPolyline => 3 | TPolygon => 5 | TMultipoint => 8
  | TPointZ => 11 | TPolylineZ => 13 | TPolygonZ => 15 | TMultipointZ => 18
  | TPointM => 21 | TPolylineM => 23 | TPolygonM => 25 | TMultipointM => 28
  | TMultipatch => 31
  end.

(** `ShapeType::from(code)` *)
Definition st_decode (c : Z) : option shape_type :=
  if c =? 0 then Some TNull else
  if c =? 1 then Some TPoint else
  if c =? 3 then Some TPolyline else
  if c =? 5 then Some TPolygon else
  if c =? 8 then Some TMultipoint else
  if c =? 11 then Some TPointZ else
  if c =? 13 then Some TPolylineZ else
  if c =? 15 then Some TPolygonZ else
  if c =? 18 then Some TMultipointZ else
  if c =? 21 then Some TPointM else
  if c =? 23 then Some TPolylineM else
  if c =? 25 then Some TPolygonM else
  if c =? 28 then Some TMultipointM else
  if c =? 31 then Some TMultipatch else None.

Definition st_has_z (t : shape_type) : bool :=
  match t with
  | TPointZ | TPolylineZ | TPolygonZ | TMultipointZ | TMultipatch => true
  | _ => false
  end.

Definition st_has_m (t : shape_type) : bool :=
  match t with
  | TPointZ | TPolylineZ | TPolygonZ | TMultipointZ
  | TPointM | TPolylineM | TPolygonM | TMultipointM => true
  | _ => false
  end.

Definition st_is_multipart (t : shape_type) : bool :=
  match t with
  | TPoint | TPointM | TPointZ | TMultipoint | TMultipointM | TMultipointZ => false
  | _ => true
  end.

Definition st_name (t : shape_type) : string :=
  match t with
  | TNull => "NullShape" | TPoint => "Point" | TPolyline => "Polyline"
  | TPolygon => "Polygon" | TMultipoint => "Multipoint"
  | TPointZ => "PointZ" | TPolylineZ => "PolylineZ" | TPolygonZ => "PolygonZ"
  | TMultipointZ => "MultipointZ"
  | TPointM => "PointM" | TPolylineM => "PolylineM" | TPolygonM => "PolygonM"
  | TMultipointM => "MultipointM" | TMultipatch => "Multipatch"
  end%string.

Definition st_eqb (a b : shape_type) : bool := st_code a =? st_code b.

Fixpoint str_codes (s : string) : list Z :=
  match s with
  | EmptyString => []
  | String a r => Z.of_N (N_of_ascii a) :: str_codes r
  end.

(** The ESRI table, written independently of the definitions above
    (ESRI Shapefile Technical Description, July 1998, p. 4 and the per-type
    sections): code, has Z, has M, multipart, name. *)
Definition esri_table : list (Z * (bool * (bool * (bool * string)))) :=
  [ (0,  (false, (false, (true,  "NullShape"))));
    (1,  (false, (false, (false, "Point"))));
    (3,  (false, (false, (true,  "Polyline"))));
    (5,  (false, (false, (true,  "Polygon"))));
    (8,  (false, (false, (false, "Multipoint"))));
    (11, (true,  (true,  (false, "PointZ"))));
    (13, (true,  (true,  (true,  "PolylineZ"))));
    (15, (true,  (true,  (true,  "PolygonZ"))));
    (18, (true,  (true,  (false, "MultipointZ"))));
    (21, (false, (true,  (false, "PointM"))));
    (23, (false, (true,  (true,  "PolylineM"))));
    (25, (false, (true,  (true,  "PolygonM"))));
    (28, (false, (true,  (false, "MultipointM"))));
    (31, (true,  (false, (true,  "Multipatch")))) ]%string.

Definition esri_codes : list Z := map fst esri_table.
