(** The complete writer and reader (`Writer`, `Reader`, src/writer.rs:290-350,
    src/reader.rs:206-237,585-670): a shape writer/reader paired with a dbase
    table.  The `dbase` crate is modelled, not verified, as an ordered row
    store: `TableWriter::write_record` appends the row if the table accepts it
    and fails otherwise; `RecordIterator` yields the rows from the current row
    position; `Reader::seek(i)` moves that position to i.  A row is represented
    by the id it carries. *)
From SF Require Import Model.Bytes Model.F64 Model.ShapeType Model.Shapes Model.Res Model.Encode
  Model.Construct Model.Writer Model.Prog Model.Decode Model.Reader.
Open Scope Z_scope.

Inductive rowk := RowOk | RowMissingField | RowWrongType.

Record cwstate := mkcw { cw_shape : wstate; cw_rows : list Z }.

Definition cw_new : cwstate := mkcw (w_new true) [].

(** `write_shape_and_record`: the shape first, then the row. *)
Definition cw_write (st : cwstate) (w : world) (s : shape) (k : rowk) (id : Z) : res unit * cwstate * world :=
  let '(r, st', w') := w_write_shape (cw_shape st) w s in
  match r with
  | Ok _ =>
      match k with
      | RowOk => (Ok tt, mkcw st' (cw_rows st ++ [id]), w')
      | _ => (Err EDbase, mkcw st' (cw_rows st), w')
      end
  | _ => (r, mkcw st' (cw_rows st), w')
  end.

Fixpoint cw_calls (cs : list (shape * rowk * Z)) (st : cwstate) (w : world) : list (res unit) * cwstate * world :=
  match cs with
  | [] => ([], st, w)
  | (s, k, id) :: r =>
      let '(res, st', w') := cw_write st w s k id in
      let '(rs, st'', w'') := cw_calls r st' w' in
      (res :: rs, st'', w'')
  end.

(** `write_shapes_and_records(self, pairs)`: pair by pair, stopping at the first error. *)
Fixpoint cw_bulk (cs : list (shape * rowk * Z)) (st : cwstate) (w : world) : res unit * cwstate * world :=
  match cs with
  | [] => (Ok tt, st, w)
  | (s, k, id) :: r =>
      let '(res, st', w') := cw_write st w s k id in
      match res with Ok _ => cw_bulk r st' w' | _ => (res, st', w') end
  end.

(** Reader: `ShapeRecordIterator::next` pulls one shape, then one row, and
    stops when either side ends. *)
Record crstate := mkcr { cr_shape : rstate; cr_row : Z }.

Definition nth_row (rows : list Z) (i : Z) : option Z := if i <? 0 then None else nth_error rows (Z.to_nat i).

Definition c_next (req : option shape_type) (rows : list Z) (st : crstate)
  : prog (option (res (shape * Z)) * crstate) :=
  x <-- it_next req (cr_shape st) ;;
  match fst x with
  | None => Ret (None, mkcr (snd x) (cr_row st))
  | Some (Err e) => Ret (Some (Err e), mkcr (snd x) (cr_row st))
  | Some Panic => PanicP
  | Some (Ok s) =>
      match nth_row rows (cr_row st) with
      | None => Ret (None, mkcr (snd x) (cr_row st))
      | Some id => Ret (Some (Ok (s, id)), mkcr (snd x) (cr_row st + 1))
      end
  end.

Fixpoint c_pull (fuel : nat) (req : option shape_type) (rows : list Z) (st : crstate)
  : prog (list (res (shape * Z)) * bool * crstate) :=
  match fuel with
  | O => Ret ([], false, st)
  | S f =>
      x <-- c_next req rows st ;;
      match fst x with
      | None => Ret ([], true, snd x)
      | Some item =>
          y <-- c_pull f req rows (snd x) ;;
          Ret (item :: fst (fst y), snd (fst y), snd y)
      end
  end.

(** `Reader::seek(i)`: the shape reader, then the table. *)
Definition c_seek (st : crstate) (i : Z) : prog (res unit * crstate) :=
  x <-- r_seek (cr_shape st) i ;;
  match fst x with
  | Ok _ => Ret (Ok tt, mkcr (snd x) i)
  | Err e => Ret (Err e, mkcr (snd x) (cr_row st))
  | Panic => PanicP
  end.

Inductive ccall := CIter (fuel : nat) | CSeek (k : Z) | CCount.
Inductive cout := COItems (items : list (res (shape * Z))) (ended : bool) | COSeek (r : res unit) | COCount (r : res Z).

Definition c_call (req : option shape_type) (rows : list Z) (st : crstate) (c : ccall) : prog (cout * crstate) :=
  match c with
  | CIter fuel => x <-- c_pull fuel req rows st ;; Ret (COItems (fst (fst x)) (snd (fst x)), snd x)
  | CSeek k => x <-- c_seek st k ;; Ret (COSeek (fst x), snd x)
  | CCount => Ret (COCount (r_count (cr_shape st)), st)
  end.

Fixpoint c_calls (req : option shape_type) (rows : list Z) (st : crstate) (cs : list ccall) : prog (list cout) :=
  match cs with
  | [] => Ret []
  | c :: r => x <-- c_call req rows st c ;; y <-- c_calls req rows (snd x) r ;; Ret (fst x :: y)
  end.
