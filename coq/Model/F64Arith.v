(** IEEE-754 binary64 arithmetic on bit patterns, through Flocq's executable
    formalisation (round to nearest, ties to even).  Used only by the shoelace
    orientation test (src/record/mod.rs:133-145). *)
From Flocq Require Import IEEE754.BinarySingleNaN IEEE754.Binary IEEE754.Bits Core.Core.
From SF Require Import Model.Bytes Model.F64 Model.Shapes.
Open Scope Z_scope.

Definition fop2 (op : binary64 -> binary64 -> binary64) (a b : f64) : f64 :=
  bits_of_b64 (op (b64_of_bits a) (b64_of_bits b)).

Definition fadd : f64 -> f64 -> f64 := fop2 (b64_plus mode_NE).
Definition fsub : f64 -> f64 -> f64 := fop2 (b64_minus mode_NE).
Definition fmul : f64 -> f64 -> f64 := fop2 (b64_mult mode_NE).
Definition fdiv : f64 -> f64 -> f64 := fop2 (b64_div mode_NE).

(** `a < b` through Flocq's comparison (agrees with [f64_lt]; proved in
    Proofs/F64Exact.v on finite values, used here so that the arithmetic path
    is Flocq end to end). *)
Definition flt (a b : f64) : bool :=
  match b64_compare (b64_of_bits a) (b64_of_bits b) with
  | Some Lt => true
  | _ => false
  end.

(** `points.windows(2).map(|p| (p[1].x - p[0].x) * (p[1].y + p[0].y))` *)
Fixpoint shoelace_terms (ps : list pt) : list f64 :=
  match ps with
  | p0 :: ((p1 :: _) as r) => fmul (fsub (px p1) (px p0)) (fadd (py p1) (py p0)) :: shoelace_terms r
  | _ => []
  end.

(** `Iterator::sum::<f64>()` folds from -0.0, left to right. *)
Definition fsum (l : list f64) : f64 := fold_left fadd l F_NEG_ZERO.

Definition shoelace_area (ps : list pt) : f64 := fdiv (fsum (shoelace_terms ps)) F_TWO.

(** `ring_type_from_points_ordering(points) == RingType::InnerRing` *)
Definition ring_is_inner (ps : list pt) : bool := flt (shoelace_area ps) F_ZERO.

Definition ring_role (ps : list pt) : role := if ring_is_inner ps then Inner else Outer.
