(** Conversions between the generic `Shape` and the concrete types
    (src/record/mod.rs:342-426): `From<Concrete> for Shape` (wrapping in the
    variant), `TryFrom<Shape> for Concrete` (unwrapping, or a type-mismatch
    error naming the requested type and `shape.shapetype()`),
    `convert_shapes_to_vec_of` (stops at the first mismatch).  A value of a
    concrete Rust type with ESRI type t is a [shape] with [type_of] = t. *)
From SF Require Import Model.Bytes Model.F64 Model.ShapeType Model.Shapes Model.Res.
Open Scope Z_scope.

(** `<S as TryFrom<Shape>>::try_from(shape)` for the concrete type with ESRI type [t]. *)
Definition try_from (t : shape_type) (s : shape) : res shape :=
  if st_eqb (type_of s) t then Ok s else Err (EMismatch t (shape_shapetype s)).

(** `Shape::from(concrete)`: wraps the value in its variant. *)
Definition shape_from (s : shape) : shape := s.

(** `convert_shapes_to_vec_of::<S>(shapes)` *)
Fixpoint convert_all (t : shape_type) (l : list shape) : res (list shape) :=
  match l with
  | [] => Ok []
  | s :: r =>
      match try_from t s with
      | Ok x => match convert_all t r with Ok xs => Ok (x :: xs) | Err e => Err e | Panic => Panic end
      | Err e => Err e
      | Panic => Panic
      end
  end.
