(** Conversions to and from geo-types, and the geo-traits view of the point
    types (src/record/mod.rs:428-510, point.rs, multipoint.rs, polyline.rs,
    polygon.rs:558-650, multipatch.rs:352-412, geo_traits_impl.rs).  geo-types
    and geo-traits are MODELLED, not verified: a geometry is a list structure;
    `Polygon::new` and `interiors_push` close their rings (append the first
    coordinate when first != last). *)
From SF Require Import Model.Bytes Model.F64 Model.ShapeType Model.Shapes Model.Res Model.F64Arith Model.Construct.
Open Scope Z_scope.

Definition coord := (f64 * f64)%type.
Definition coord_eq (a b : coord) : bool := f64_eq (fst a) (fst b) && f64_eq (snd a) (snd b).

(** `LineString::close` *)
Definition geo_close (l : list coord) : list coord :=
  match l with
  | [] => []
  | c0 :: _ => if coord_eq c0 (last l c0) then l else l ++ [c0]
  end.

Record gpoly := mkgp { gp_ext : list coord; gp_ints : list (list coord) }.
Definition gpoly_new (ext : list coord) (ints : list (list coord)) : gpoly := mkgp (geo_close ext) (map geo_close ints).
Definition gpoly_push (p : gpoly) (i : list coord) : gpoly := mkgp (gp_ext p) (gp_ints p ++ [geo_close i]).

Inductive geom :=
| GPoint (c : coord) | GLine (a b : coord) | GLineString (l : list coord) | GPolygon (p : gpoly)
| GMultiPoint (l : list coord) | GMultiLineString (l : list (list coord)) | GMultiPolygon (l : list gpoly)
| GCollection | GRect (a b : coord) | GTriangle (a b c : coord).

Definition xy (p : pt) : coord := (px p, py p).
Definition pt_of (d : dim) (c : coord) : pt := mkpt (fst c) (snd c) 0 (if has_m_dim d then F_NO_DATA else 0).

(** ** shape -> geometry *)

(** The ring-grouping loop shared by polygons and ring multipatches: an outer
    ring opens a polygon, inner rings become holes of the open polygon (or a
    polygon with an empty exterior when none is open). *)
Fixpoint group_rings (rings : list (bool * list coord)) (last : option gpoly) (acc : list gpoly) : list gpoly :=
  match rings with
  | [] => match last with Some p => acc ++ [p] | None => acc end
  | (true, pts) :: r =>
      group_rings r (Some (gpoly_new pts [])) (match last with Some p => acc ++ [p] | None => acc end)
  | (false, pts) :: r =>
      match last with
      | Some p => group_rings r (Some (gpoly_push p pts)) acc
      | None => group_rings r None (acc ++ [gpoly_new [] [pts]])
      end
  end.

Definition role_is_outer (r : role) : bool := match r with Outer => true | Inner => false end.

Definition patch_outer (k : pkind) : option bool :=
  match k with KOuter | KFirst => Some true | KInner | KRing => Some false | KStrip | KFan => None end.

Fixpoint patches_rings (ps : list (pkind * list pt)) : option (list (bool * list coord)) :=
  match ps with
  | [] => Some []
  | (k, pts) :: r =>
      match patch_outer k, patches_rings r with
      | Some o, Some l => Some ((o, map xy pts) :: l)
      | _, _ => None
      end
  end.

(** `geo_types::Geometry::try_from(shape)`; None = the conversion is refused. *)
Definition to_geo (s : shape) : option geom :=
  match s with
  | SNull => None
  | SPoint _ p => Some (GPoint (xy p))
  | SMultipoint _ _ ps => Some (GMultiPoint (map xy ps))
  | SPolyline _ _ parts => Some (GMultiLineString (map (map xy) parts))
  | SPolygon _ _ rings =>
      Some (GMultiPolygon (group_rings (map (fun r => (role_is_outer (fst r), map xy (snd r))) rings) None []))
  | SMultipatch _ patches =>
      match patches_rings patches with
      | Some l => Some (GMultiPolygon (group_rings l None []))
      | None => None
      end
  end.

(** ** geometry -> shape (always the 2-D types) *)
Definition rings_of_gpoly (p : gpoly) : list (role * list pt) :=
  (Outer, map (pt_of XY) (gp_ext p)) :: map (fun i => (Inner, map (pt_of XY) i)) (gp_ints p).

(** `GenericPolygon::from(geo polygon)` = with_rings; its rings are then fed
    to with_rings once more by the multipolygon conversion. *)
Definition polygon_rings_from (p : gpoly) : res (list (role * list pt)) :=
  match mk_polygon XY (rings_of_gpoly p) with
  | Ok (SPolygon _ _ rings) => Ok rings
  | Ok _ => Panic
  | Err e => Err e
  | Panic => Panic
  end.

Fixpoint all_rings (ps : list gpoly) : res (list (role * list pt)) :=
  match ps with
  | [] => Ok []
  | p :: r =>
      match polygon_rings_from p, all_rings r with
      | Ok a, Ok b => Ok (a ++ b)
      | Panic, _ | _, Panic => Panic
      | Err e, _ | _, Err e => Err e
      end
  end.

(** `Shape::try_from(geometry)`; Err = refused, Panic = the constructor panics. *)
Definition from_geo (g : geom) : res shape :=
  match g with
  | GPoint c => Ok (SPoint XY (pt_of XY c))
  | GLine a b => mk_polyline_new XY [pt_of XY a; pt_of XY b]
  | GLineString l => mk_polyline_new XY (map (pt_of XY) l)
  | GPolygon p => mk_polygon XY (rings_of_gpoly p)
  | GMultiPoint l => mk_multipoint XY (map (pt_of XY) l)
  | GMultiLineString l => mk_polyline XY (map (map (pt_of XY)) l)
  | GMultiPolygon ps => rbind (all_rings ps) (mk_polygon XY)
  | GCollection | GRect _ _ | GTriangle _ _ _ => Err EDbase      (* a refusal; the error carries no payload *)
  end.

(** ** geo-traits: dimension count and coordinates of the three point types *)
Definition coord_dim (d : dim) (p : pt) : Z :=
  match d with
  | XY => 2
  | XYM => if is_no_data (pm p) then 2 else 3
  | XYZM => if is_no_data (pm p) then 3 else 4
  end.

(** `nth_or_panic(i)` *)
Definition coord_nth (d : dim) (p : pt) (i : Z) : res f64 :=
  match d with
  | XY => if i =? 0 then Ok (px p) else if i =? 1 then Ok (py p) else Panic
  | XYM => if i =? 0 then Ok (px p) else if i =? 1 then Ok (py p) else if i =? 2 then Ok (pm p) else Panic
  | XYZM => if i =? 0 then Ok (px p) else if i =? 1 then Ok (py p) else if i =? 2 then Ok (pz p)
            else if i =? 3 then (if is_no_data (pm p) then Panic else Ok (pm p)) else Panic
  end.
