(** f64 as its 64-bit pattern.  Copying and bit-identity are equality on [Z];
    the IEEE comparisons (`<`, `>`, `<=`, `==`) are defined on patterns through
    the sign-magnitude key.  Arithmetic (only needed for the shoelace sum) lives
    in F64Arith.v and uses Flocq. *)
From SF Require Import Model.Bytes.
Open Scope Z_scope.

Definition f64 := Z.

Definition f64_sign (b : f64) : Z := b / two63.
Definition f64_mag  (b : f64) : Z := b mod two63.
Definition exp_ones : Z := 9218868437227405312.      (* 0x7FF0_0000_0000_0000 *)

Definition f64_is_nan (b : f64) : bool := exp_ones <? f64_mag b.
Definition f64_key (b : f64) : Z := if f64_sign b =? 0 then f64_mag b else - f64_mag b.

Definition f64_lt (a b : f64) : bool :=
  negb (f64_is_nan a) && negb (f64_is_nan b) && (f64_key a <? f64_key b).
Definition f64_le (a b : f64) : bool :=
  negb (f64_is_nan a) && negb (f64_is_nan b) && (f64_key a <=? f64_key b).
Definition f64_gt (a b : f64) : bool := f64_lt b a.
Definition f64_ge (a b : f64) : bool := f64_le b a.
Definition f64_eq (a b : f64) : bool :=
  negb (f64_is_nan a) && negb (f64_is_nan b) && (f64_key a =? f64_key b).

Definition F_ZERO    : f64 := 0.
Definition F_NO_DATA : f64 := 14413632652858640925.   (* -10e38 = 0xC8078287F49C4A1D *)
Definition F_MAX     : f64 := 9218868437227405311.    (* f64::MAX *)
Definition F_MIN     : f64 := 18442240474082181119.   (* f64::MIN = -f64::MAX *)
Definition F_INF     : f64 := 9218868437227405312.
Definition F_NEG_INF : f64 := 18442240474082181120.
Definition F_TWO     : f64 := 4611686018427387904.
Definition F_NEG_ZERO : f64 := 9223372036854775808.

(** src/writer.rs:22-36 *)
Definition f64_min (a b : f64) : f64 := if f64_lt a b then a else b.
Definition f64_max (a b : f64) : f64 := if f64_gt a b then a else b.

(** src/record/mod.rs:31 *)
Definition is_no_data (v : f64) : bool := f64_le v F_NO_DATA.

(** `f64::max(v, NO_DATA)` as used by read_ms_into (src/record/io.rs:90):
    NaN and everything at or below the threshold become NO_DATA. *)
Definition read_m_norm (v : f64) : f64 := if f64_gt v F_NO_DATA then v else F_NO_DATA.

Definition is_f64b (b : Z) : bool := (0 <=? b) && (b <? two64).
