(** Read side of the codec, as reading programs (see Prog.v), mirrored from the
    code after the `fix:` commits: `Header::read_from` (src/header.rs),
    `RecordHeader::read_from`, `ReadableShape::read_from` for concrete types and
    for `Shape` (src/record/mod.rs), `read_shape_content` of every type
    (point.rs, multipoint.rs, polyline.rs, polygon.rs, multipatch.rs),
    `MultiPartShapeReader`, `PartIndexIter`, `read_xy_in_vec_of`, `read_ms_into`,
    `read_zs_into`, `read_parts`, `record_size_is`, `capacity_for`
    (src/record/io.rs), `read_one_shape_as`, `read_index_file` (src/reader.rs). *)
From SF Require Import Model.Bytes Model.F64 Model.ShapeType Model.Shapes Model.Res
  Model.Encode Model.F64Arith Model.Construct Model.Prog.
Open Scope Z_scope.

Definition read_i32_le : prog Z := bs <-- take 4 ;; Ret (i32_of_le bs).
Definition read_i32_be : prog Z := bs <-- take 4 ;; Ret (i32_of_be bs).
Definition read_f64 : prog f64 := bs <-- take 8 ;; Ret (f64_dec bs).

(** `ShapeType::read_from` (src/lib.rs:176-179) *)
Definition read_shape_type : prog shape_type :=
  c <-- read_i32_le ;;
  match st_decode c with Some t => Ret t | None => Fail (EInvalidShapeType c) end.

(** `Header::read_from` (src/header.rs:42-73) *)
Definition read_header : prog header :=
  code <-- read_i32_be ;;
  if negb (code =? 9994) then Fail (EInvalidFileCode code) else
  _ <-- take 20 ;;
  len <-- read_i32_be ;;
  version <-- read_i32_le ;;
  t <-- read_shape_type ;;
  minx <-- read_f64 ;; miny <-- read_f64 ;; maxx <-- read_f64 ;; maxy <-- read_f64 ;;
  minz <-- read_f64 ;; maxz <-- read_f64 ;; minm <-- read_f64 ;; maxm <-- read_f64 ;;
  Ret (mkhdr len t version (mkbox (mkpt minx miny minz minm) (mkpt maxx maxy maxz maxm))).

(** `RecordHeader::read_from` (src/record/mod.rs:296-303): number, words *)
Definition read_record_header : prog (Z * Z) :=
  num <-- read_i32_be ;; words <-- read_i32_be ;; Ret (num, words).

(** `capacity_for` (src/record/io.rs): elements reserved up front. *)
Definition MAX_PREALLOC : Z := 1024.
Definition capacity_for (n : Z) : Z := Z.min n MAX_PREALLOC.

(** In-memory sizes of the element types (64-bit target). *)
Definition sizeof_point (d : dim) : Z := match d with XY => 16 | XYM => 24 | XYZM => 32 end.

(** `record_size_is(record_size, expected)`: compared without truncation. *)
Definition record_size_is (record_size expected : Z) : bool :=
  (0 <=? record_size) && (record_size =? expected).

(** `PointType::default()` then x, y assigned: what `read_xy_in_vec_of` builds. *)
Definition default_m (d : dim) : f64 := if has_m_dim d then F_NO_DATA else 0.
Definition pt_xy (d : dim) (x y : f64) : pt := mkpt x y 0 (default_m d).
Definition default_pt (d : dim) : pt := pt_xy d 0 0.
Definition default_box (d : dim) : bbox := mkbox (default_pt d) (default_pt d).

Definition set_z (p : pt) (z : f64) : pt := mkpt (px p) (py p) z (pm p).
Definition set_m (p : pt) (m : f64) : pt := mkpt (px p) (py p) (pz p) m.

(** `read_xy_in_vec_of(source, num_points)` (num_points >= 0 here) *)
Definition read_xy_points (d : dim) (n : Z) : prog (list pt) :=
  reserve (capacity_for n * sizeof_point d) ;;;
  rep_Z n (x <-- read_f64 ;; y <-- read_f64 ;; Ret (pt_xy d x y)).

(** `read_zs_into`, `read_ms_into`: one value per point already read. *)
Definition read_zs_into (ps : list pt) : prog (list pt) :=
  for_each ps (fun p => z <-- read_f64 ;; Ret (set_z p z)).
Definition read_ms_into (ps : list pt) : prog (list pt) :=
  for_each ps (fun p => m <-- read_f64 ;; Ret (set_m p (read_m_norm m))).

(** `bbox_read_xy_from`, `bbox_read_z_range_from`, `bbox_read_m_range_from` *)
Definition read_bbox_xy (d : dim) : prog bbox :=
  minx <-- read_f64 ;; miny <-- read_f64 ;; maxx <-- read_f64 ;; maxy <-- read_f64 ;;
  Ret (mkbox (pt_xy d minx miny) (pt_xy d maxx maxy)).
Definition read_z_range (b : bbox) : prog bbox :=
  lo <-- read_f64 ;; hi <-- read_f64 ;; Ret (mkbox (set_z (bmin b) lo) (set_z (bmax b) hi)).
Definition read_m_range (b : bbox) : prog bbox :=
  lo <-- read_f64 ;; hi <-- read_f64 ;; Ret (mkbox (set_m (bmin b) lo) (set_m (bmax b) hi)).

(** Points *)
Definition read_point (d : dim) (size : Z) : prog shape :=
  match d with
  | XY => if size =? 16 then x <-- read_f64 ;; y <-- read_f64 ;; Ret (SPoint XY (mkpt x y 0 0))
          else Fail EInvalidRecordSize
  | XYM => if size =? 24 then x <-- read_f64 ;; y <-- read_f64 ;; m <-- read_f64 ;; Ret (SPoint XYM (mkpt x y 0 m))
           else Fail EInvalidRecordSize
  | XYZM =>
      if size =? 24 then
        x <-- read_f64 ;; y <-- read_f64 ;; z <-- read_f64 ;; Ret (SPoint XYZM (mkpt x y z F_NO_DATA))
      else if size =? 32 then
        x <-- read_f64 ;; y <-- read_f64 ;; z <-- read_f64 ;; m <-- read_f64 ;; Ret (SPoint XYZM (mkpt x y z m))
      else Fail EInvalidRecordSize
  end.

(** Multipoints: `size_of_record` of the three types. *)
Definition multipoint_size (d : dim) (n : Z) (with_m : bool) : Z :=
  let base := 4 * 8 + 4 + 16 * n in
  match d with
  | XY => base
  | XYM => if with_m then base + 2 * 8 + 8 * n else base
  | XYZM => let z := base + 2 * 8 + 8 * n in if with_m then z + 2 * 8 + 8 * n else z
  end.

Definition read_multipoint (d : dim) (size : Z) : prog shape :=
  b <-- read_bbox_xy d ;;
  n <-- read_i32_le ;;
  match d with
  | XY =>
      if (0 <=? n) && record_size_is size (multipoint_size XY n false) then
        ps <-- read_xy_points XY n ;; Ret (SMultipoint XY b ps)
      else Fail EInvalidRecordSize
  | _ =>
      if n <? 0 then Fail EInvalidRecordSize else
      let m_used := record_size_is size (multipoint_size d n true) in
      let m_not_used := record_size_is size (multipoint_size d n false) in
      if negb m_used && negb m_not_used then Fail EInvalidRecordSize else
      ps <-- read_xy_points d n ;;
      bz <-- (if has_z_dim d then b' <-- read_z_range b ;; ps' <-- read_zs_into ps ;; Ret (b', ps')
              else Ret (b, ps)) ;;
      bm <-- (if m_used then b' <-- read_m_range (fst bz) ;; ps' <-- read_ms_into (snd bz) ;; Ret (b', ps')
              else Ret bz) ;;
      Ret (SMultipoint d (fst bm) (snd bm))
  end.

(** `MultiPartShapeReader::new`: box, counts (validated), part offsets. *)
Definition read_parts (n : Z) : prog (list Z) :=
  reserve (capacity_for n * 4) ;;; rep_Z n read_i32_le.

Definition multipart_new (d : dim) : prog (bbox * Z * Z * list Z) :=
  b <-- read_bbox_xy d ;;
  num_parts <-- read_i32_le ;;
  num_points <-- read_i32_le ;;
  if (num_parts <? 0) || (num_points <? 0) then Fail EIoInvalidData else
  parts <-- read_parts num_parts ;;
  reserve (capacity_for num_parts * 24) ;;;
  Ret (b, num_parts, num_points, parts).

(** `PartIndexIter`: (start, end) of every part; the last one ends at
    num_points. *)
Fixpoint part_ranges (offs : list Z) (num_points : Z) : list (Z * Z) :=
  match offs with
  | [] => []
  | o :: r => (o, match r with [] => num_points | o' :: _ => o' end) :: part_ranges r num_points
  end.

(** `read_xy`: the validated difference of consecutive offsets is the length
    of each part. *)
Definition read_parts_xy (d : dim) (offs : list Z) (num_points : Z) : prog (list (list pt)) :=
  for_each (part_ranges offs num_points) (fun se =>
    let '(s, e) := se in
    if (s <? 0) || (e <? s) then Fail EIoInvalidData else read_xy_points d (e - s)).

Definition read_parts_zs (b : bbox) (parts : list (list pt)) : prog (bbox * list (list pt)) :=
  b' <-- read_z_range b ;; ps <-- for_each parts read_zs_into ;; Ret (b', ps).
Definition read_parts_ms (b : bbox) (parts : list (list pt)) : prog (bbox * list (list pt)) :=
  b' <-- read_m_range b ;; ps <-- for_each parts read_ms_into ;; Ret (b', ps).

(** `Polyline::size_of_record` and friends. *)
Definition polyline_size (d : dim) (num_points num_parts : Z) (with_m : bool) : Z :=
  let base := 4 * 8 + 4 + 4 + 4 * num_parts + 16 * num_points in
  match d with
  | XY => base
  | XYM => if with_m then base + 2 * 8 + num_points * 8 else base
  | XYZM => let z := base + 2 * 8 + num_points * 8 in if with_m then z + 2 * 8 + num_points * 8 else z
  end.

(** `Polyline*::read_shape_content`: returns box and parts. *)
Definition read_polyline_body (d : dim) (size : Z) : prog (bbox * list (list pt)) :=
  hd <-- multipart_new d ;;
  let '(b, num_parts, num_points, offs) := hd in
  let m_used := match d with XY => false | _ => record_size_is size (polyline_size d num_points num_parts true) end in
  let m_not_used := record_size_is size (polyline_size d num_points num_parts false) in
  if negb m_used && negb m_not_used then Fail EInvalidRecordSize else
  parts <-- read_parts_xy d offs num_points ;;
  bz <-- (if has_z_dim d then read_parts_zs b parts else Ret (b, parts)) ;;
  bm <-- (if m_used then read_parts_ms (fst bz) (snd bz) else Ret bz) ;;
  Ret bm.

Definition read_polyline (d : dim) (size : Z) : prog shape :=
  bp <-- read_polyline_body d size ;; Ret (SPolyline d (fst bp) (snd bp)).

(** `Polygon*::read_shape_content` = polyline, then `Polygon::from(polyline)`. *)
Definition read_polygon (d : dim) (size : Z) : prog shape :=
  bp <-- read_polyline_body d size ;; Ret (SPolygon d (fst bp) (map ring_from_points (snd bp))).

(** `Multipatch::size_of_record` *)
Definition multipatch_size (num_points num_parts : Z) (with_m : bool) : Z :=
  let z := 4 * 8 + 4 + 4 + 4 * num_parts + 4 * num_parts + 16 * num_points + 2 * 8 + 8 * num_points in
  if with_m then z + 2 * 8 + 8 * num_points else z.

Definition read_patch_type : prog pkind :=
  c <-- read_i32_le ;;
  match pkind_decode c with Some k => Ret k | None => Fail (EInvalidPatchType c) end.

(** `zip`: stops at the shorter list. *)
Fixpoint zip {A B} (a : list A) (b : list B) : list (A * B) :=
  match a, b with
  | x :: a', y :: b' => (x, y) :: zip a' b'
  | _, _ => []
  end.

Definition read_multipatch (size : Z) : prog shape :=
  hd <-- multipart_new XYZM ;;
  let '(b, num_parts, num_points, offs) := hd in
  let m_used := record_size_is size (multipatch_size num_points num_parts true) in
  let m_not_used := record_size_is size (multipatch_size num_points num_parts false) in
  if negb m_used && negb m_not_used then Fail EInvalidRecordSize else
  reserve (capacity_for num_parts * 1) ;;;
  reserve (capacity_for num_parts * 32) ;;;
  kinds <-- rep_Z num_parts read_patch_type ;;
  parts <-- read_parts_xy XYZM offs num_points ;;
  bz <-- read_parts_zs b parts ;;
  bm <-- (if m_used then read_parts_ms (fst bz) (snd bz) else Ret bz) ;;
  Ret (SMultipatch (fst bm) (zip kinds (snd bm))).

(** `read_shape_content` of the concrete type with ESRI type t (record_size
    already reduced by the 4 bytes of the type code). *)
Definition read_content (t : shape_type) (size : Z) : prog shape :=
  match t with
  | TNull => Ret SNull
  | TPoint => read_point XY size
  | TPointM => read_point XYM size
  | TPointZ => read_point XYZM size
  | TMultipoint => read_multipoint XY size
  | TMultipointM => read_multipoint XYM size
  | TMultipointZ => read_multipoint XYZM size
  | TPolyline => read_polyline XY size
  | TPolylineM => read_polyline XYM size
  | TPolylineZ => read_polyline XYZM size
  | TPolygon => read_polygon XY size
  | TPolygonM => read_polygon XYM size
  | TPolygonZ => read_polygon XYZM size
  | TMultipatch => read_multipatch size
  end.

(** `ReadableShape::read_from`: [req = None] is the generic `Shape`
    (src/record/mod.rs:194-240), [req = Some t] the concrete type with ESRI
    type t (src/record/mod.rs:55-68). *)
Definition read_from (req : option shape_type) (record_size : Z) : prog shape :=
  t <-- read_shape_type ;;
  let size := record_size - 4 in
  match req with
  | None => read_content t size
  | Some rt => if st_eqb t rt then read_content rt size else Fail (EMismatch rt t)
  end.

(** `read_one_shape_as` (src/reader.rs): record header, size in bytes
    (`checked_mul(2)`, non-negative), shape. *)
Definition read_one_shape (req : option shape_type) : prog ((Z * Z) * shape) :=
  hdr <-- read_record_header ;;
  let size := snd hdr * 2 in
  if (size <? 0) || (two31 <=? size) then Fail EInvalidRecordSize else
  s <-- read_from req size ;;
  Ret (hdr, s).

(** `read_index_file` (src/reader.rs): header, then (length*2-100)/8 entries
    of two big-endian i32 (offset, content length). *)
Definition index_entries_declared (file_length : Z) : Z :=
  Z.max 0 (Z.quot (file_length * 2 - 100) 8).

Definition read_index_file : prog (list (Z * Z)) :=
  h <-- read_header ;;
  let n := index_entries_declared (h_len h) in
  reserve (capacity_for n * 8) ;;;
  rep_Z n (off <-- read_i32_be ;; words <-- read_i32_be ;; Ret (off, words)).
