(** Bytes, byte strings and the fixed-width little/big-endian integer codecs
    that `byteorder` provides (modelled, not verified: see DESIGN.md section 8).

    A byte is a [Z] in [0,256); a byte string is a [list Z].  Machine integers
    are [Z] with explicit wrap functions for every Rust `as` cast. *)
From Coq Require Export List ZArith Lia Bool.
Export ListNotations.
Open Scope Z_scope.

Definition bytes := list Z.

Definition two8  : Z := 256.
Definition two31 : Z := 2147483648.
Definition two32 : Z := 4294967296.
Definition two63 : Z := 9223372036854775808.
Definition two64 : Z := 18446744073709551616.

(** n-byte little-endian encoding of the low n bytes of v (v >= 0 expected). *)
Fixpoint le_bytes (n : nat) (v : Z) : bytes :=
  match n with
  | O => []
  | S k => (v mod 256) :: le_bytes k (v / 256)
  end.

Fixpoint of_le (bs : bytes) : Z :=
  match bs with
  | [] => 0
  | b :: r => b + 256 * of_le r
  end.

Definition be_bytes (n : nat) (v : Z) : bytes := rev (le_bytes n v).
Definition of_be (bs : bytes) : Z := of_le (rev bs).

(** Rust casts. *)
Definition to_i32 (u : Z) : Z := if u <? two31 then u else u - two32.
Definition wrap_u32 (z : Z) : Z := z mod two32.
Definition wrap_i32 (z : Z) : Z := to_i32 (z mod two32).       (* `x as i32` *)
Definition wrap_u64 (z : Z) : Z := z mod two64.                (* `x as usize`/`as u64` *)
Definition to_i64 (u : Z) : Z := if u <? two63 then u else u - two64.

Definition in_i32 (z : Z) : Prop := - two31 <= z < two31.
Definition in_i32b (z : Z) : bool := (- two31 <=? z) && (z <? two31).
Definition in_u64b (z : Z) : bool := (0 <=? z) && (z <? two64).

(** i32 / f64-pattern wire codecs (byteorder's write_i32::<LE|BE>, write_f64::<LE>). *)
Definition i32_le (v : Z) : bytes := le_bytes 4 (v mod two32).
Definition i32_be (v : Z) : bytes := be_bytes 4 (v mod two32).
Definition i32_of_le (bs : bytes) : Z := to_i32 (of_le bs).
Definition i32_of_be (bs : bytes) : Z := to_i32 (of_be bs).
Definition f64_enc (v : Z) : bytes := le_bytes 8 v.
Definition f64_dec (bs : bytes) : Z := of_le bs.

Definition is_byteb (b : Z) : bool := (0 <=? b) && (b <? 256).
Definition all_bytes (bs : bytes) : Prop := Forall (fun b => 0 <= b < 256) bs.

Definition zlen {A} (l : list A) : Z := Z.of_nat (length l).

(** [sum_Z] of a list. *)
Fixpoint sum_Z (l : list Z) : Z :=
  match l with [] => 0 | x :: r => x + sum_Z r end.

Fixpoint repeat_Z (x : Z) (n : nat) : list Z :=
  match n with O => [] | S k => x :: repeat_Z x k end.
