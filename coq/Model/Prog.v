(** Reading programs.  Every function of the library that reads from a
    `Read + Seek` source is modelled as a *program*: a tree whose nodes are the
    calls it makes on the source (`read_exact n`, `seek(Start p)`,
    `seek(End 0)`), each followed by a continuation that receives the answer.
    The library's code is written once, as such trees (Decode.v, Reader.v);
    what the source answers is decided by an interpreter ([run] below), so the
    same model is run on an in-memory cursor, on a cursor that fails its k-th
    operation and on one that returns short reads, and theorems that hold for
    every program (truncation gives EOF, a failing operation is what the call
    returns, short reads change nothing) are proved once, by induction on the
    tree (Proofs/ProgLemmas.v).

    [Reserve n] records a pre-sizing request (`Vec::with_capacity`) of n
    bytes: it does not influence results, only the ledger used by C17. *)
From SF Require Import Model.Bytes Model.ShapeType Model.Res.
Open Scope Z_scope.

Inductive prog (A : Type) : Type :=
| Ret (a : A)
| Fail (e : err)
| PanicP
| Take (n : nat) (k : res bytes -> prog A)          (* source.read_exact(&mut [0; n]) *)
| SeekStart (p : Z) (k : res Z -> prog A)           (* source.seek(SeekFrom::Start(p)) *)
| SeekEnd (k : res Z -> prog A)                     (* source.seek(SeekFrom::End(0)) *)
| Reserve (n : Z) (k : prog A).                     (* Vec::with_capacity / vec![_; n]: n bytes *)
Arguments Ret {A} a.
Arguments Fail {A} e.
Arguments PanicP {A}.
Arguments Take {A} n k.
Arguments SeekStart {A} p k.
Arguments SeekEnd {A} k.
Arguments Reserve {A} n k.

Fixpoint bind {A B} (p : prog A) (f : A -> prog B) : prog B :=
  match p with
  | Ret a => f a
  | Fail e => Fail e
  | PanicP => PanicP
  | Take n k => Take n (fun r => bind (k r) f)
  | SeekStart q k => SeekStart q (fun r => bind (k r) f)
  | SeekEnd k => SeekEnd (fun r => bind (k r) f)
  | Reserve n k => Reserve n (bind k f)
  end.

Notation "x <-- p ;; q" := (bind p (fun x => q)) (at level 61, p at next level, right associativity).
Notation "p ;;; q" := (bind p (fun _ => q)) (at level 61, right associativity).

(** `?` on the result of a source call. *)
Definition lift_res {A} (r : res A) : prog A :=
  match r with Ok a => Ret a | Err e => Fail e | Panic => PanicP end.

Definition take (n : nat) : prog bytes := Take n lift_res.
Definition seek_start (p : Z) : prog Z := SeekStart p lift_res.
Definition seek_end : prog Z := SeekEnd lift_res.
Definition reserve (n : Z) : prog unit := Reserve n (Ret tt).

(** `match expr { Ok(v) => .., Err(e) => .. }`: errors become values, panics
    still unwind. *)
Fixpoint catch {A} (p : prog A) : prog (res A) :=
  match p with
  | Ret a => Ret (Ok a)
  | Fail e => Ret (Err e)
  | PanicP => PanicP
  | Take n k => Take n (fun r => catch (k r))
  | SeekStart q k => SeekStart q (fun r => catch (k r))
  | SeekEnd k => SeekEnd (fun r => catch (k r))
  | Reserve n k => Reserve n (catch k)
  end.

(** `for _ in 0..n { v.push(p?) }` for a count n that comes from the input
    (up to 2^31): recursion on the binary representation, so that no unary
    number of that size is ever built; evaluation stops at the first failure. *)
Fixpoint rep_pos {A} (n : positive) (p : prog A) : prog (list A) :=
  match n with
  | xH => x <-- p ;; Ret [x]
  | xO m => a <-- rep_pos m p ;; b <-- rep_pos m p ;; Ret (a ++ b)
  | xI m => x <-- p ;; a <-- rep_pos m p ;; b <-- rep_pos m p ;; Ret (x :: a ++ b)
  end.

Definition rep_Z {A} (n : Z) (p : prog A) : prog (list A) :=
  match n with
  | Zpos m => rep_pos m p
  | _ => Ret []
  end.

Fixpoint rep_nat {A} (n : nat) (p : prog A) : prog (list A) :=
  match n with
  | O => Ret []
  | S m => x <-- p ;; r <-- rep_nat m p ;; Ret (x :: r)
  end.

(** `for x in xs { .. f(x)? .. }` over a list that is already in memory. *)
Fixpoint for_each {A B} (xs : list A) (f : A -> prog B) : prog (list B) :=
  match xs with
  | [] => Ret []
  | x :: r => y <-- f x ;; ys <-- for_each r f ;; Ret (y :: ys)
  end.

(** ** Sources *)

(** What a source does wrong, if anything: it fails the operation with index
    [f_at] (counting reads and seeks from 0), once or from then on. *)
Record fault := mkfault { f_at : nat; f_persistent : bool }.

Record src := mksrc {
  s_data : bytes;            (* the whole stream *)
  s_pos : Z;                 (* position, as `Cursor` keeps it (may exceed the length) *)
  s_ops : nat;               (* read/seek operations issued so far *)
  s_fault : option fault;
  s_reserved : list Z        (* ledger of pre-sizing requests, latest first *)
}.

Definition src_of (data : bytes) : src := mksrc data 0 0 None [].

Definition faulty_now (s : src) : bool :=
  match s_fault s with
  | None => false
  | Some f => if f_persistent f then (f_at f <=? s_ops s)%nat else (f_at f =? s_ops s)%nat
  end.

Definition bump (s : src) : src :=
  mksrc (s_data s) (s_pos s) (S (s_ops s)) (s_fault s) (s_reserved s).
Definition set_pos (s : src) (p : Z) : src :=
  mksrc (s_data s) p (s_ops s) (s_fault s) (s_reserved s).

(** What is left to read at the current position. *)
Definition s_rest (s : src) : bytes :=
  (* a position at or beyond the end leaves nothing to read; tested first so that evaluation never
     builds a unary number from a position taken from the input (an index offset can be 2^32) *)
  if zlen (s_data s) <=? s_pos s then [] else skipn (Z.to_nat (s_pos s)) (s_data s).

(** `read_exact` on a `Cursor`: all n bytes or UnexpectedEof (the cursor is
    then left at the end). *)
Definition do_take (n : nat) (s : src) : res bytes * src :=
  if faulty_now s then (Err EIoInjected, bump s) else
  let rest := s_rest s in
  if (n <=? length rest)%nat
  then (Ok (firstn n rest), bump (set_pos s (s_pos s + Z.of_nat n)))
  else (Err EIoEof, bump (set_pos s (Z.max (s_pos s) (zlen (s_data s))))).

Definition do_seek_start (p : Z) (s : src) : res Z * src :=
  if faulty_now s then (Err EIoInjected, bump s) else (Ok p, bump (set_pos s p)).

Definition do_seek_end (s : src) : res Z * src :=
  if faulty_now s then (Err EIoInjected, bump s)
  else (Ok (zlen (s_data s)), bump (set_pos s (zlen (s_data s)))).

Definition do_reserve (n : Z) (s : src) : src :=
  mksrc (s_data s) (s_pos s) (s_ops s) (s_fault s) (n :: s_reserved s).

Fixpoint run {A} (p : prog A) (s : src) : res A * src :=
  match p with
  | Ret a => (Ok a, s)
  | Fail e => (Err e, s)
  | PanicP => (Panic, s)
  | Take n k => let '(r, s') := do_take n s in run (k r) s'
  | SeekStart q k => let '(r, s') := do_seek_start q s in run (k r) s'
  | SeekEnd k => let '(r, s') := do_seek_end s in run (k r) s'
  | Reserve n k => run k (do_reserve n s)
  end.

(** ** Short reads.  A source that hands out at most [c_i] bytes on its i-th
    raw `read` call; `read_exact` is std's loop: call `read` until the buffer
    is full, fail with UnexpectedEof when `read` returns 0. *)
Fixpoint read_exact_loop (fuel : nat) (n : nat) (rest : bytes) (sched : list nat)
  : option bytes * bytes * list nat :=
  match n with
  | O => (Some [], rest, sched)
  | S _ =>
    match fuel with
    | O => (None, rest, sched)
    | S fuel' =>
      let c := match sched with [] => n | c :: _ => Nat.min (Nat.max c 1) n end in
      let sched' := tl sched in
      let got := firstn c rest in
      match got with
      | [] => (None, rest, sched')                       (* read returned 0: EOF *)
      | _ =>
        let '(r, rest', sched'') := read_exact_loop fuel' (n - length got) (skipn c rest) sched' in
        (match r with Some more => Some (got ++ more) | None => None end, rest', sched'')
      end
    end
  end.
