(** The reader state machine `ShapeReader` / `ShapeIterator` (src/reader.rs,
    after the `fix:` commits): open with or without index, iteration,
    random access, seek, count, size hint — as reading programs over the .shp
    source (the .shx source is consumed entirely when the reader is opened). *)
From SF Require Import Model.Bytes Model.F64 Model.ShapeType Model.Shapes Model.Res
  Model.Encode Model.Construct Model.Prog Model.Decode.
Open Scope Z_scope.

Record rstate := mkr {
  r_hdr : header;                        (* header of the .shp, as read *)
  r_index : option (list (Z * Z));       (* index entries (offset, words), if an .shx was given *)
  r_cur : Z;                             (* `current_pos`: byte position of the source as the reader knows it *)
  r_next : Z                             (* `next_index`: index entry the next iteration step uses *)
}.

Definition UNKNOWN_POSITION : Z := two64 - 1.       (* usize::MAX *)

Definition set_cur (st : rstate) (c : Z) : rstate := mkr (r_hdr st) (r_index st) c (r_next st).
Definition set_next (st : rstate) (n : Z) : rstate := mkr (r_hdr st) (r_index st) (r_cur st) n.

(** `ShapeReader::new` *)
Definition r_new : prog rstate :=
  h <-- read_header ;; Ret (mkr h None 100 0).

(** `ShapeReader::with_shx`: the index is read first, from its own source. *)
Definition r_with_shx (index : list (Z * Z)) : prog rstate :=
  h <-- read_header ;; Ret (mkr h (Some index) 100 0).

(** Declared length of the .shp in bytes: `usize::try_from(file_length).unwrap_or(0) * 2`. *)
Definition flen_bytes (st : rstate) : Z := Z.max 0 (h_len (r_hdr st)) * 2.

(** `shape_offset_in_bytes`: None for a negative offset (InvalidData). *)
Definition offset_in_bytes (off : Z) : option Z := if off * 2 <? 0 then None else Some (off * 2).

Definition nth_entry (idx : list (Z * Z)) (i : Z) : option (Z * Z) :=
  if i <? 0 then None else nth_error idx (Z.to_nat i).

(** usize addition with overflow check (debug profile). *)
Definition usize_add (a b : Z) : prog Z :=
  if a + b <? two64 then Ret (a + b) else PanicP.

(** The part of `ShapeIterator::next` that reads one record at the current
    position and updates `current_pos`. *)
Definition it_read (req : option shape_type) (st : rstate) : prog (option (res shape) * rstate) :=
  r <-- catch (read_one_shape req) ;;
  match r with
  | Ok (hdr, s) =>
      c1 <-- usize_add (r_cur st) 8 ;;
      c2 <-- usize_add c1 (snd hdr * 2) ;;
      Ret (Some (Ok s), set_cur st c2)
  | Err e =>
      Ret (Some (Err e),
           set_cur st (match r_index st with Some _ => UNKNOWN_POSITION | None => flen_bytes st end))
  | Panic => PanicP
  end.

(** `ShapeIterator::next` *)
Definition it_next (req : option shape_type) (st : rstate) : prog (option (res shape) * rstate) :=
  match r_index st with
  | Some idx =>
      match nth_entry idx (r_next st) with
      | None => Ret (None, st)
      | Some (off, _) =>
          let st1 := set_next st (r_next st + 1) in
          match offset_in_bytes off with
          | None => Ret (Some (Err EIoInvalidData), st1)
          | Some start =>
              if start =? r_cur st1 then it_read req st1
              else
                r <-- catch (seek_start start) ;;
                match r with
                | Ok _ => it_read req (set_cur st1 start)
                | Err e => Ret (Some (Err e), set_cur st1 UNKNOWN_POSITION)
                | Panic => PanicP
                end
          end
      end
  | None =>
      if flen_bytes st <=? r_cur st then Ret (None, st) else it_read req st
  end.

(** `size_hint` of an iterator created now and advanced k times is computed
    from the state alone. *)
Definition size_hint (st : rstate) : option Z :=
  match r_index st with
  | Some idx => Some (Z.max 0 (zlen idx - r_next st))
  | None => None
  end.

(** `ShapeReader::seek` *)
Definition r_seek (st : rstate) (i : Z) : prog (res unit * rstate) :=
  match r_index st with
  | None => Ret (Err EMissingIndex, st)
  | Some idx =>
      match nth_entry idx i with
      | Some (off, _) =>
          match offset_in_bytes off with
          | None => Ret (Err EIoInvalidData, st)
          | Some p =>
              r <-- catch (seek_start p) ;;
              match r with
              | Ok q => Ret (Ok tt, set_next (set_cur st q) (Z.min i (zlen idx)))
              | Err e => Ret (Err e, st)
              | Panic => PanicP
              end
          end
      | None =>
          r <-- catch seek_end ;;
          match r with
          | Ok q => Ret (Ok tt, set_next (set_cur st q) (Z.min i (zlen idx)))
          | Err e => Ret (Err e, st)
          | Panic => PanicP
          end
      end
  end.

(** `ShapeReader::read_nth_shape_as` *)
Definition r_read_nth (req : option shape_type) (st : rstate) (i : Z)
  : prog (option (res shape) * rstate) :=
  match r_index st with
  | None => Ret (Some (Err EMissingIndex), st)
  | Some idx =>
      if zlen idx <=? i then Ret (None, st) else
      sk <-- r_seek st i ;;
      match fst sk with
      | Err e => Ret (Some (Err e), snd sk)
      | Panic => PanicP
      | Ok _ =>
          let st1 := set_next (set_cur (snd sk) UNKNOWN_POSITION) 0 in
          r <-- catch (read_one_shape req) ;;
          match r with
          | Err e => Ret (Some (Err e), st1)
          | Panic => PanicP
          | Ok (_, s) =>
              r2 <-- catch (seek_start 100) ;;
              match r2 with
              | Err e => Ret (Some (Err e), st1)
              | Panic => PanicP
              | Ok _ => Ret (Some (Ok s), set_cur st1 100)
              end
          end
      end
  end.

(** `ShapeReader::shape_count` *)
Definition r_count (st : rstate) : res Z :=
  match r_index st with Some idx => Ok (zlen idx) | None => Err EMissingIndex end.

(** Pulls at most [fuel] items from an iteration (the harness pulls at most
    bound+1 items; see C07 for the bound proved on the number of items). *)
Fixpoint it_pull (fuel : nat) (req : option shape_type) (st : rstate)
  : prog (list (res shape) * bool * rstate) :=
  match fuel with
  | O => Ret ([], false, st)
  | S f =>
      x <-- it_next req st ;;
      match fst x with
      | None => Ret ([], true, snd x)
      | Some item =>
          y <-- it_pull f req (snd x) ;;
          Ret (item :: fst (fst y), snd (fst y), snd y)
      end
  end.

(** ** Histories of reader calls (what the correspondence check runs and what
    C04, C14, C15 quantify over). *)
Inductive rcall :=
| RIter (fuel : nat)        (* a new iterator, pulled at most [fuel] times *)
| RNth (i : Z)              (* read_nth_shape_as(i) *)
| RSeek (k : Z)             (* seek(k) *)
| RCount                    (* shape_count() *)
| RHint.                    (* size_hint() of a new iterator *)

Inductive rout :=
| OItems (items : list (res shape)) (ended : bool)
| ONthR (o : option (res shape))
| OSeekR (r : res unit)
| OCountR (r : res Z)
| OHintR (h : option Z).

Definition r_call (req : option shape_type) (st : rstate) (c : rcall) : prog (rout * rstate) :=
  match c with
  | RIter fuel => x <-- it_pull fuel req st ;; Ret (OItems (fst (fst x)) (snd (fst x)), snd x)
  | RNth i => x <-- r_read_nth req st i ;; Ret (ONthR (fst x), snd x)
  | RSeek k => x <-- r_seek st k ;; Ret (OSeekR (fst x), snd x)
  | RCount => Ret (OCountR (r_count st), st)
  | RHint => Ret (OHintR (size_hint st), st)
  end.

Fixpoint r_calls (req : option shape_type) (st : rstate) (cs : list rcall) : prog (list rout * rstate) :=
  match cs with
  | [] => Ret ([], st)
  | c :: r => x <-- r_call req st c ;; y <-- r_calls req (snd x) r ;; Ret (fst x :: fst y, snd y)
  end.
