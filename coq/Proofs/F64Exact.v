(** Exactness of the shoelace orientation test on bounded dyadic rationals.

    A coordinate [a] (a 64-bit pattern) _represents_ the dyadic rational
    [z * 2^e] when Flocq's binary64 reading of the pattern is finite and has
    that real value.  When all coordinates of a ring share the exponent [e]
    (-500 <= e <= 480) and their integer parts are so small that every
    intermediate result of the shoelace evaluation (differences, sums, products,
    running sums) stays below 2^53 in magnitude, every IEEE operation of
    `ring_type_from_points_ordering` is exact, and the orientation test returns
    the sign of the exact signed area.  Reversing a ring negates its exact
    area, so on this domain a ring of non-zero area is always told from its
    mirror image and the stored order is the one the property demands. *)
From Coq Require Import ZArith Reals Lia Lra List Psatz.
From Flocq Require Import Core.Core IEEE754.BinarySingleNaN IEEE754.Binary IEEE754.Bits.
From SF Require Import Model.Bytes Model.F64 Model.Shapes Model.F64Arith.
Import ListNotations.
Open Scope Z_scope.

Notation fexp64 := (FLT_exp (3 - 1024 - 53) 53).
Notation B2R64 := (B2R 53 1024).
Notation fin64 := (is_finite 53 1024).

Definition dy (z e : Z) : R := F2R (Float radix2 z e).

(** [a] is the finite double of value z * 2^e *)
Definition rep (a : f64) (z e : Z) : Prop :=
  fin64 (b64_of_bits a) = true /\ B2R64 (b64_of_bits a) = dy z e.

Lemma b64_bits_id (x : binary64) : b64_of_bits (bits_of_b64 x) = x.
Proof. exact (binary_float_of_bits_of_binary_float 52 11 eq_refl eq_refl eq_refl x). Qed.

(** ** Representable values are fixed points of rounding and far from overflow *)
Lemma dy_format z e : Z.abs z < 2 ^ 53 -> -1074 <= e -> generic_format radix2 fexp64 (dy z e).
Proof.
  intros Hz He. apply generic_format_FLT. exists (Float radix2 z e); [reflexivity|exact Hz|exact He].
Qed.

Lemma dy_round z e : Z.abs z < 2 ^ 53 -> -1074 <= e ->
  round radix2 fexp64 (round_mode mode_NE) (dy z e) = dy z e.
Proof.
  intros Hz He. apply round_generic; [apply valid_rnd_round_mode|apply dy_format; assumption].
Qed.

Lemma dy_small z e : Z.abs z < 2 ^ 53 -> e <= 960 -> (Rabs (dy z e) < bpow radix2 1024)%R.
Proof.
  intros Hz He. unfold dy. rewrite <- F2R_Zabs. cbn [Fnum Fexp F2R].
  apply Rlt_le_trans with (bpow radix2 53 * bpow radix2 e)%R.
  - apply Rmult_lt_compat_r; [apply bpow_gt_0|]. change (bpow radix2 53) with (IZR (2 ^ 53)). apply IZR_lt. exact Hz.
  - rewrite <- bpow_plus. apply bpow_le. lia.
Qed.

Lemma dy_plus x y e : (dy x e + dy y e = dy (x + y) e)%R.
Proof. unfold dy, F2R; cbn [Fnum Fexp]. rewrite plus_IZR. ring. Qed.

Lemma dy_minus x y e : (dy x e - dy y e = dy (x - y) e)%R.
Proof. unfold dy, F2R; cbn [Fnum Fexp]. rewrite minus_IZR. ring. Qed.

Lemma dy_mult x y e1 e2 : (dy x e1 * dy y e2 = dy (x * y) (e1 + e2))%R.
Proof. unfold dy, F2R; cbn [Fnum Fexp]. rewrite mult_IZR, bpow_plus. ring. Qed.

Lemma dy_half x e : (dy x e / dy 1 1 = dy x (e - 1))%R.
Proof.
  unfold dy, F2R; cbn [Fnum Fexp]. unfold Z.sub. rewrite bpow_plus, bpow_opp. change (bpow radix2 1) with 2%R. field.
Qed.

(** ** The four operations are exact on representable results *)
Lemma fadd_exact a b x y e :
  rep a x e -> rep b y e -> Z.abs (x + y) < 2 ^ 53 -> -1074 <= e <= 960 -> rep (fadd a b) (x + y) e.
Proof.
  intros [Fa Ra] [Fb Rb] Hz He. unfold rep, fadd, fop2. rewrite b64_bits_id. unfold b64_plus.
  pose proof (Bplus_correct 53 1024 eq_refl eq_refl binop_nan_pl64 mode_NE _ _ Fa Fb) as H.
  rewrite Ra, Rb, dy_plus, dy_round in H by lia.
  rewrite Rlt_bool_true in H by (apply dy_small; lia).
  destruct H as (H1 & H2 & _). split; assumption.
Qed.

Lemma fsub_exact a b x y e :
  rep a x e -> rep b y e -> Z.abs (x - y) < 2 ^ 53 -> -1074 <= e <= 960 -> rep (fsub a b) (x - y) e.
Proof.
  intros [Fa Ra] [Fb Rb] Hz He. unfold rep, fsub, fop2. rewrite b64_bits_id. unfold b64_minus.
  pose proof (Bminus_correct 53 1024 eq_refl eq_refl binop_nan_pl64 mode_NE _ _ Fa Fb) as H.
  rewrite Ra, Rb, dy_minus, dy_round in H by lia.
  rewrite Rlt_bool_true in H by (apply dy_small; lia).
  destruct H as (H1 & H2 & _). split; assumption.
Qed.

Lemma fmul_exact a b x y e1 e2 :
  rep a x e1 -> rep b y e2 -> Z.abs (x * y) < 2 ^ 53 -> -1074 <= e1 + e2 <= 960 ->
  rep (fmul a b) (x * y) (e1 + e2).
Proof.
  intros [Fa Ra] [Fb Rb] Hz He. unfold rep, fmul, fop2. rewrite b64_bits_id. unfold b64_mult.
  pose proof (Bmult_correct 53 1024 eq_refl eq_refl binop_nan_pl64 mode_NE (b64_of_bits a) (b64_of_bits b)) as H.
  rewrite Ra, Rb, dy_mult, dy_round in H by lia.
  rewrite Rlt_bool_true in H by (apply dy_small; lia).
  destruct H as (H1 & H2 & _). rewrite Fa, Fb in H2. split; assumption.
Qed.

Lemma rep_zero e : rep F_ZERO 0 e.
Proof. split; [reflexivity|]. unfold dy. rewrite F2R_0. reflexivity. Qed.

Lemma rep_neg_zero e : rep F_NEG_ZERO 0 e.
Proof. split; [reflexivity|]. unfold dy. rewrite F2R_0. reflexivity. Qed.

Lemma rep_two : rep F_TWO 1 1.
Proof.
  split; [reflexivity|]. cbn. unfold dy, F2R. cbn. lra.
Qed.

Lemma dy_nonzero z e : z <> 0 -> dy z e <> 0%R.
Proof. intros Hz H. apply Hz. exact (eq_0_F2R radix2 z e H). Qed.

Lemma fdiv2_exact a x e :
  rep a x e -> Z.abs x < 2 ^ 53 -> -1073 <= e <= 960 -> rep (fdiv a F_TWO) x (e - 1).
Proof.
  intros [Fa Ra] Hz He. destruct rep_two as [F2 R2]. unfold rep, fdiv, fop2. rewrite b64_bits_id. unfold b64_div.
  assert (N2 : B2R64 (b64_of_bits F_TWO) <> 0%R) by (rewrite R2; apply dy_nonzero; discriminate).
  pose proof (Bdiv_correct 53 1024 eq_refl eq_refl binop_nan_pl64 mode_NE (b64_of_bits a) (b64_of_bits F_TWO) N2) as H.
  rewrite Ra, R2, dy_half, dy_round in H by lia.
  rewrite Rlt_bool_true in H by (apply dy_small; lia).
  destruct H as (H1 & H2 & _). rewrite Fa in H2. split; assumption.
Qed.

Lemma flt_zero_exact a s e : rep a s e -> flt a F_ZERO = (s <? 0).
Proof.
  intros [Fa Ra]. destruct (rep_zero 0) as [F0 R0]. unfold flt, b64_compare.
  rewrite (Bcompare_correct 53 1024 _ _ Fa F0), Ra, R0. unfold dy at 2. rewrite F2R_0.
  destruct (Z.ltb_spec s 0) as [Hs|Hs].
  - rewrite Rcompare_Lt; [reflexivity|]. apply F2R_lt_0. exact Hs.
  - pose proof (F2R_ge_0 radix2 (Float radix2 s e) Hs) as Hge. fold (dy s e) in Hge.
    destruct (Rcompare_spec (dy s e) 0) as [Hc|Hc|Hc]; try reflexivity. lra.
Qed.

(** ** The integer shoelace sum *)
Definition zterm (p q : Z * Z) : Z := (fst q - fst p) * (snd q + snd p).

Fixpoint zterms (zs : list (Z * Z)) : list Z :=
  match zs with
  | p0 :: ((p1 :: _) as r) => zterm p0 p1 :: zterms r
  | _ => []
  end.

(** twice the exact signed area (clockwise positive), in units of 2^(2e) *)
Fixpoint sh2 (zs : list (Z * Z)) : Z :=
  match zs with
  | p0 :: ((p1 :: _) as r) => zterm p0 p1 + sh2 r
  | _ => 0
  end.

Lemma fold_add_zterms zs z : fold_left Z.add (zterms zs) z = z + sh2 zs.
Proof.
  revert z. induction zs as [|p0 r IH]; intros z; [cbn; lia|]. destruct r as [|p1 r']; [cbn; lia|].
  change (zterms (p0 :: p1 :: r')) with (zterm p0 p1 :: zterms (p1 :: r')).
  change (sh2 (p0 :: p1 :: r')) with (zterm p0 p1 + sh2 (p1 :: r')).
  cbn [fold_left]. rewrite IH. lia.
Qed.

Lemma zterm_swap p q : zterm q p = - zterm p q.
Proof. unfold zterm. ring. Qed.

Lemma sh2_snoc l a : sh2 (l ++ [a]) = sh2 l + match l with [] => 0 | _ => zterm (last l a) a end.
Proof.
  induction l as [|p l IH]; [reflexivity|]. destruct l as [|q r]; [cbn; lia|].
  change (sh2 ((p :: q :: r) ++ [a])) with (zterm p q + sh2 ((q :: r) ++ [a])). rewrite IH.
  change (sh2 (p :: q :: r)) with (zterm p q + sh2 (q :: r)).
  change (last (p :: q :: r) a) with (last (q :: r) a). lia.
Qed.

Lemma last_snoc {A} (l : list A) x d0 : last (l ++ [x]) d0 = x.
Proof. induction l as [|a l IH]; [reflexivity|]. cbn [app last]. destruct (l ++ [x]) eqn:E; [destruct l; discriminate|exact IH]. Qed.

(** Reversing a ring negates its exact area. *)
Theorem sh2_rev l : sh2 (rev l) = - sh2 l.
Proof.
  induction l as [|p l IH]; [reflexivity|]. cbn [rev]. rewrite sh2_snoc, IH. destruct l as [|q r]; [reflexivity|].
  change (sh2 (p :: q :: r)) with (zterm p q + sh2 (q :: r)).
  cbn [rev]. destruct (rev r ++ [q]) eqn:E; [destruct (rev r); discriminate|]. rewrite <- E, last_snoc, zterm_swap. lia.
Qed.

(** ** The exact domain *)
Definition rep_pt (e : Z) (p : pt) (z : Z * Z) : Prop := rep (px p) (fst z) e /\ rep (py p) (snd z) e.
Definition reps (e : Z) (ps : list pt) (zs : list (Z * Z)) : Prop := Forall2 (rep_pt e) ps zs.
Definition small (C : Z) (z : Z * Z) : Prop := Z.abs (fst z) <= C /\ Z.abs (snd z) <= C.

Lemma reps_rev e ps zs : reps e ps zs -> reps e (rev ps) (rev zs).
Proof.
  intros H. induction H as [|p z ps zs Hp H IH]; [constructor|]. cbn [rev]. apply Forall2_app; [exact IH|]. constructor; [exact Hp|constructor].
Qed.

Lemma zterm_bound C p q : 0 <= C -> small C p -> small C q -> Z.abs (zterm p q) <= 4 * C * C.
Proof.
  intros HC [Hp1 Hp2] [Hq1 Hq2]. unfold zterm. rewrite Z.abs_mul.
  assert (Z.abs (fst q - fst p) <= 2 * C) by lia. assert (Z.abs (snd q + snd p) <= 2 * C) by lia.
  assert (0 <= Z.abs (fst q - fst p)) by lia. assert (0 <= Z.abs (snd q + snd p)) by lia. nia.
Qed.

Lemma term_exact e C p q zp zq :
  -500 <= e <= 480 -> 0 <= C -> 4 * C * C < 2 ^ 53 ->
  rep_pt e p zp -> rep_pt e q zq -> small C zp -> small C zq ->
  rep (fmul (fsub (px q) (px p)) (fadd (py q) (py p))) (zterm zp zq) (e + e).
Proof.
  intros He HC HB [Hpx Hpy] [Hqx Hqy] Sp Sq. pose proof (zterm_bound C zp zq HC Sp Sq) as Ht.
  destruct Sp as [Sp1 Sp2], Sq as [Sq1 Sq2].
  assert (H2C : 2 * C < 2 ^ 53) by nia.
  unfold zterm in *. apply fmul_exact; [apply fsub_exact|apply fadd_exact| |]; try assumption; try lia.
Qed.

Lemma terms_exact e C ps zs :
  -500 <= e <= 480 -> 0 <= C -> 4 * C * C < 2 ^ 53 ->
  reps e ps zs -> Forall (small C) zs ->
  Forall2 (fun t z => rep t z (e + e)) (shoelace_terms ps) (zterms zs) /\
  Forall (fun z => Z.abs z <= 4 * C * C) (zterms zs).
Proof.
  intros He HC HB H. induction H as [|p z ps zs Hp H IH]; intros HS; [split; constructor|].
  inversion HS as [|? ? Sz HS' E1]; subst. destruct H as [|q zq ps' zs' Hq H'].
  - split; constructor.
  - specialize (IH HS'). destruct IH as [IH1 IH2]. inversion HS' as [|? ? Szq _ E2]; subst.
    change (shoelace_terms (p :: q :: ps')) with
      (fmul (fsub (px q) (px p)) (fadd (py q) (py p)) :: shoelace_terms (q :: ps')).
    change (zterms (z :: zq :: zs')) with (zterm z zq :: zterms (zq :: zs')).
    split; constructor; try assumption.
    + exact (term_exact e C p q z zq He HC HB Hp Hq Sz Szq).
    + exact (zterm_bound C z zq HC Sz Szq).
Qed.

Lemma zterms_length zs : (length (zterms zs) <= length zs)%nat.
Proof.
  induction zs as [|p r IH]; [cbn; lia|]. destruct r as [|q r']; [cbn; lia|].
  change (zterms (p :: q :: r')) with (zterm p q :: zterms (q :: r')). cbn [length] in *. lia.
Qed.

Lemma fsum_exact e M ts zs acc z :
  -1074 <= e <= 960 -> 0 <= M ->
  rep acc z e -> Forall2 (fun t x => rep t x e) ts zs -> Forall (fun x => Z.abs x <= M) zs ->
  Z.abs z + Z.of_nat (length zs) * M < 2 ^ 53 ->
  rep (fold_left fadd ts acc) (fold_left Z.add zs z) e.
Proof.
  intros He HM Ha H. revert acc z Ha. induction H as [|t x ts zs Ht H IH]; intros acc z Ha HF HB; [exact Ha|].
  inversion HF as [|? ? Hx HF' E]; subst. cbn [fold_left]. cbn [length] in HB. rewrite Nat2Z.inj_succ in HB.
  apply IH; [|exact HF'|lia]. apply fadd_exact; try assumption; lia.
Qed.

(** On the exact domain the orientation test is the sign of the exact area. *)
Theorem ring_is_inner_exact e C ps zs :
  -500 <= e <= 480 -> 0 <= C -> (Z.of_nat (length zs) + 1) * (4 * C * C) < 2 ^ 53 ->
  reps e ps zs -> Forall (small C) zs ->
  ring_is_inner ps = (sh2 zs <? 0).
Proof.
  intros He HC HB H HS.
  assert (HB1 : 4 * C * C < 2 ^ 53) by nia.
  destruct (terms_exact e C ps zs He HC HB1 H HS) as [T1 T2].
  pose proof (zterms_length zs) as HL.
  assert (HB2 : Z.abs 0 + Z.of_nat (length (zterms zs)) * (4 * C * C) < 2 ^ 53) by nia.
  pose proof (fsum_exact (e + e) (4 * C * C) _ _ F_NEG_ZERO 0 ltac:(lia) ltac:(nia) (rep_neg_zero _) T1 T2 HB2) as Hs.
  rewrite fold_add_zterms in Hs. cbn [Z.add] in Hs.
  assert (Hsum : Z.abs (sh2 zs) < 2 ^ 53).
  { clear - T2 HL HB HC. rewrite <- (Z.add_0_l (sh2 zs)), <- fold_add_zterms.
    assert (G : forall l z, Forall (fun x => Z.abs x <= 4 * C * C) l ->
                Z.abs (fold_left Z.add l z) <= Z.abs z + Z.of_nat (length l) * (4 * C * C)).
    { induction l as [|x l IH]; intros z HF; [cbn; lia|]. inversion HF as [|? ? Hx HF' E]; subst.
      cbn [fold_left length]. rewrite Nat2Z.inj_succ. specialize (IH (z + x) HF'). lia. }
    specialize (G _ 0 T2). nia. }
  unfold ring_is_inner, shoelace_area, fsum.
  apply (flt_zero_exact _ _ (e + e - 1)). apply fdiv2_exact; [exact Hs|exact Hsum|lia].
Qed.

Theorem ring_role_exact e C ps zs :
  -500 <= e <= 480 -> 0 <= C -> (Z.of_nat (length zs) + 1) * (4 * C * C) < 2 ^ 53 ->
  reps e ps zs -> Forall (small C) zs ->
  ring_role ps = if sh2 zs <? 0 then Inner else Outer.
Proof. intros. unfold ring_role. rewrite (ring_is_inner_exact e C ps zs) by assumption. reflexivity. Qed.

(** ** Orientation of stored rings by exact signed area *)
From SF Require Import Model.Res Model.Construct.

Record exact_domain (e C : Z) (ps : list pt) (zs : list (Z * Z)) : Prop := {
  ed_exp : -500 <= e <= 480;
  ed_C : 0 <= C;
  ed_bound : (Z.of_nat (length zs) + 1) * (4 * C * C) < 2 ^ 53;
  ed_reps : reps e ps zs;
  ed_small : Forall (small C) zs }.

Lemma exact_domain_rev e C ps zs : exact_domain e C ps zs -> exact_domain e C (rev ps) (rev zs).
Proof.
  intros [H1 H2 H3 H4 H5]. split; try assumption.
  - rewrite rev_length. exact H3.
  - apply reps_rev. exact H4.
  - apply Forall_rev. exact H5.
Qed.

(** A ring of non-zero exact area is told from its mirror image. *)
Theorem exact_ring_flips e C ps zs :
  exact_domain e C ps zs -> sh2 zs <> 0 -> ring_role (rev ps) <> ring_role ps.
Proof.
  intros D Hnz. pose proof (exact_domain_rev _ _ _ _ D) as Dr. destruct D as [H1 H2 H3 H4 H5]. destruct Dr as [_ _ R3 R4 R5].
  rewrite (ring_role_exact e C ps zs), (ring_role_exact e C (rev ps) (rev zs)) by assumption.
  rewrite sh2_rev. destruct (Z.ltb_spec (sh2 zs) 0), (Z.ltb_spec (- sh2 zs) 0); try discriminate; lia.
Qed.

(** The stored ring: clockwise (positive shoelace sum) when declared Outer,
    counter-clockwise when declared Inner, by exact signed area; either order
    when the area is zero. *)
Theorem close_and_reorder_exact d ring e C zs :
  exact_domain e C (close_points d (snd ring)) zs ->
  exists zs', exact_domain e C (snd (close_and_reorder d ring)) zs' /\
              (zs' = zs \/ zs' = rev zs) /\
              (fst ring = Outer -> 0 <= sh2 zs') /\ (fst ring = Inner -> sh2 zs' <= 0) /\
              (sh2 zs <> 0 -> sh2 zs' <> 0).
Proof.
  intros D. pose proof (exact_domain_rev _ _ _ _ D) as Dr.
  unfold close_and_reorder, reorder. cbn [fst snd]. set (c := close_points d (snd ring)) in *.
  assert (Hr : ring_role c = if sh2 zs <? 0 then Inner else Outer)
    by (destruct D; apply (ring_role_exact e C); assumption).
  rewrite Hr. destruct (fst ring) eqn:Er, (Z.ltb_spec (sh2 zs) 0) as [Hs|Hs]; cbn [role_eqb].
  - refine (ex_intro _ (rev zs) (conj Dr (conj (or_intror eq_refl) (conj _ (conj _ _))))); rewrite sh2_rev; first [intros; lia | intros; discriminate].
  - refine (ex_intro _ zs (conj D (conj (or_introl eq_refl) (conj _ (conj _ _))))); first [intros; lia | intros; discriminate].
  - refine (ex_intro _ zs (conj D (conj (or_introl eq_refl) (conj _ (conj _ _))))); first [intros; lia | intros; discriminate].
  - refine (ex_intro _ (rev zs) (conj Dr (conj (or_intror eq_refl) (conj _ (conj _ _))))); rewrite sh2_rev; first [intros; lia | intros; discriminate].
Qed.

(** Non-vacuity: the open counter-clockwise unit triangle (0,0) (1,0) (0,1),
    closed, is in the exact domain with e = 0, C = 1, and has exact area -1/2
    (shoelace sum -1). *)
Definition one64 : f64 := 4607182418800017408.
Lemma rep_one : rep one64 1 0.
Proof. split; [reflexivity|]. cbn. unfold dy, F2R. cbn. lra. Qed.

Example exact_domain_triangle :
  let ps := [mkpt 0 0 0 0; mkpt one64 0 0 0; mkpt 0 one64 0 0; mkpt 0 0 0 0] in
  let zs := [(0, 0); (1, 0); (0, 1); (0, 0)] in
  exact_domain 0 1 ps zs /\ sh2 zs = -1.
Proof.
  cbv zeta. split; [|reflexivity]. split; try lia.
  - cbn. lia.
  - pose proof (rep_zero 0) as Z0. pose proof rep_one as O1. change F_ZERO with 0 in Z0.
    unfold reps. repeat (first [apply Forall2_nil | apply Forall2_cons; [split; cbn [px py fst snd]; assumption|]]).
  - repeat (first [apply Forall_nil | apply Forall_cons; [split; cbn; lia|]]).
Qed.

(** ** Consequences for whole polygons *)
From SF Require Import Proofs.F64Order Proofs.BoxExact Proofs.PolygonCtor.

(** a ring of the exact domain with non-zero exact area, whatever its exponent and bound *)
Definition exact_nonzero (d : dim) (ring : role * list pt) : Prop :=
  exists e C zs, exact_domain e C (close_points d (snd ring)) zs /\ sh2 zs <> 0.

Theorem stored_role_exact d ring : exact_nonzero d ring -> ring_role (snd (close_and_reorder d ring)) = fst ring.
Proof.
  intros (e & C & zs & D & Hnz). apply close_and_reorder_oriented. exact (exact_ring_flips e C _ zs D Hnz).
Qed.

Theorem mk_polygon_idempotent_exact d rings s :
  mk_polygon d rings = Ok s ->
  Forall (fun r => snd r <> [] /\ pt_nn d (hd pt0 (snd r)) /\ exact_nonzero d r) rings ->
  mk_polygon d (rings_of s) = Ok s.
Proof.
  intros H Hall. apply (mk_polygon_idempotent d rings s H). rewrite (mk_polygon_rings d rings s H).
  apply Forall_map. eapply Forall_impl; [|exact Hall]. intros r (Hne & Hnn & Hex). split.
  - apply close_and_reorder_closed; assumption.
  - rewrite (stored_role_exact d r Hex). reflexivity.
Qed.
