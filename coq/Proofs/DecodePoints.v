(** L1, part 2: points and multipoints. *)
From SF Require Import Model.Bytes Model.F64 Model.ShapeType Model.Shapes Model.Res Model.Encode
  Model.Prog Model.Decode Spec.Esri Spec.Denote.
From SF Require Import Proofs.BytesLemmas Proofs.ShapeTypeProofs Proofs.ProgLemmas Proofs.DecodePrims.
Open Scope Z_scope.

Ltac app_norm := repeat rewrite <- app_assoc; cbn [app].
Ltac zlen_norm :=
  repeat first [rewrite zlen_app | rewrite zlen_f64s | rewrite zlen_i32s | rewrite zlen_xys
               | rewrite zlen_i32_le | rewrite zlen_f64_enc | rewrite zlen_cons | rewrite zlen_nil
               | rewrite zlen_map].

(** One step of a reading chain. *)
Ltac rstep lem := eapply reads_bind; [apply lem; auto|]; cbn beta.
Ltac rf64 := eapply reads_bind; [apply reads_f64; assumption|]; cbn beta.

Lemma reads_bbox_xy d a b c e :
  f64_ok a -> f64_ok b -> f64_ok c -> f64_ok e ->
  reads (read_bbox_xy d) (f64s [a; b; c; e]) (mkbox (pt_xy d a b) (pt_xy d c e)).
Proof.
  intros. unfold read_bbox_xy, f64s. cbn [flat_map]. do 4 rf64. apply reads_ret.
Qed.

Lemma reads_z_range b lo hi :
  f64_ok lo -> f64_ok hi ->
  reads (read_z_range b) (f64s [lo; hi]) (mkbox (set_z (bmin b) lo) (set_z (bmax b) hi)).
Proof. intros. unfold read_z_range, f64s. cbn [flat_map]. do 2 rf64. apply reads_ret. Qed.

Lemma reads_m_range b lo hi :
  f64_ok lo -> f64_ok hi ->
  reads (read_m_range b) (f64s [lo; hi]) (mkbox (set_m (bmin b) lo) (set_m (bmax b) hi)).
Proof. intros. unfold read_m_range, f64s. cbn [flat_map]. do 2 rf64. apply reads_ret. Qed.

Lemma reads_z_block b ps lo hi zs :
  f64_ok lo -> f64_ok hi -> length ps = length zs -> Forall f64_ok zs ->
  reads (b' <-- read_z_range b ;; ps' <-- read_zs_into ps ;; Ret (b', ps'))
        (f64s [lo; hi] ++ f64s zs)
        (mkbox (set_z (bmin b) lo) (set_z (bmax b) hi), zipw set_z ps zs).
Proof.
  intros. rstep reads_z_range. rewrite <- (app_nil_r (f64s zs)). rstep reads_zs_into. apply reads_ret.
Qed.

Lemma reads_m_block b ps lo hi ms :
  f64_ok lo -> f64_ok hi -> length ps = length ms -> Forall f64_ok ms ->
  reads (b' <-- read_m_range b ;; ps' <-- read_ms_into ps ;; Ret (b', ps'))
        (f64s [lo; hi] ++ f64s ms)
        (mkbox (set_m (bmin b) lo) (set_m (bmax b) hi), zipw set_m_norm ps ms).
Proof.
  intros. rstep reads_m_range. rewrite <- (app_nil_r (f64s ms)). rstep reads_ms_into. apply reads_ret.
Qed.

(** ** Points *)
Lemma reads_point_XY x y : f64_ok x -> f64_ok y ->
  reads (read_point XY 16) (f64s [x; y]) (SPoint XY (mkpt x y 0 0)).
Proof. intros. unfold read_point, f64s. cbn [flat_map Z.eqb Pos.eqb]. do 2 rf64. apply reads_ret. Qed.

Lemma reads_point_XYM x y m : f64_ok x -> f64_ok y -> f64_ok m ->
  reads (read_point XYM 24) (f64s [x; y; m]) (SPoint XYM (mkpt x y 0 m)).
Proof. intros. unfold read_point, f64s. cbn [flat_map Z.eqb Pos.eqb]. do 3 rf64. apply reads_ret. Qed.

Lemma reads_point_XYZM_nom x y z : f64_ok x -> f64_ok y -> f64_ok z ->
  reads (read_point XYZM 24) (f64s [x; y; z]) (SPoint XYZM (mkpt x y z F_NO_DATA)).
Proof. intros. unfold read_point, f64s. cbn [flat_map Z.eqb Pos.eqb]. do 3 rf64. apply reads_ret. Qed.

Lemma reads_point_XYZM_m x y z m : f64_ok x -> f64_ok y -> f64_ok z -> f64_ok m ->
  reads (read_point XYZM 32) (f64s [x; y; z] ++ f64_enc m) (SPoint XYZM (mkpt x y z m)).
Proof.
  intros. unfold read_point, f64s. cbn [flat_map Z.eqb Pos.eqb]. app_norm. do 3 rf64.
  rewrite <- (app_nil_r (f64_enc m)). rf64. apply reads_ret.
Qed.

(** ** Multipoints *)
Lemma record_size_is_refl n : 0 <= n -> record_size_is n n = true.
Proof. intros H; unfold record_size_is. rewrite Z.eqb_refl. destruct (Z.leb_spec 0 n); [reflexivity|lia]. Qed.

Lemma record_size_is_neq n m : n <> m -> record_size_is n m = false.
Proof. intros H; unfold record_size_is. destruct (Z.eqb_spec n m); [contradiction|]. apply andb_false_r. Qed.

Section Multipoint.
  Variables (a b c e : f64) (pts : list (f64 * f64)).
  Hypothesis Hbox : f64_ok a /\ f64_ok b /\ f64_ok c /\ f64_ok e.
  Hypothesis Hpts : Forall (fun p => f64_ok (fst p) /\ f64_ok (snd p)) pts.
  Hypothesis Hn : zlen pts < two31.

  Let n := zlen pts.
  Let head := f64s [a; b; c; e] ++ i32_le n.

  Lemma n_in_i32 : in_i32 n.
  Proof. unfold in_i32, n. pose proof (zlen_nonneg pts). unfold two31 in *. lia. Qed.

  Lemma n_nonneg : 0 <= n. Proof. apply zlen_nonneg. Qed.

  Lemma msize_nonneg d w : 0 <= multipoint_size d n w.
  Proof. pose proof n_nonneg. unfold multipoint_size. destruct d, w; lia. Qed.

  Lemma msize_neq d : d <> XY -> multipoint_size d n true <> multipoint_size d n false.
  Proof. pose proof n_nonneg. unfold multipoint_size. destruct d; intros; try contradiction; lia. Qed.

  Lemma reads_multipoint_XY :
    reads (read_multipoint XY (multipoint_size XY n false))
          (head ++ flat_map xy_enc pts)
          (SMultipoint XY (mkbox (pt_xy XY a b) (pt_xy XY c e)) (map (xy_pt XY) pts)).
  Proof.
    destruct Hbox as (Ha & Hb & Hc & He). unfold read_multipoint, head. app_norm.
    rstep reads_bbox_xy. rstep reads_i32_le; [apply n_in_i32|].
    replace (0 <=? n) with true by (symmetry; apply Z.leb_le, n_nonneg).
    rewrite record_size_is_refl by apply msize_nonneg. cbn [andb].
    rewrite <- (app_nil_r (flat_map xy_enc pts)). rstep reads_xy_points. apply reads_ret.
  Qed.

  Variables (zlo zhi : f64) (zs : list f64).
  Hypothesis Hz : length zs = length pts /\ f64_ok zlo /\ f64_ok zhi /\ Forall f64_ok zs.

  Variables (mlo mhi : f64) (ms : list f64).
  Hypothesis Hm : length ms = length pts /\ f64_ok mlo /\ f64_ok mhi /\ Forall f64_ok ms.

  Lemma n_neg_false : (n <? 0) = false.
  Proof. apply Z.ltb_ge, n_nonneg. Qed.

  Lemma reads_multipoint_XYM_none :
    reads (read_multipoint XYM (multipoint_size XYM n false))
          (head ++ flat_map xy_enc pts)
          (SMultipoint XYM (mkbox (pt_xy XYM a b) (pt_xy XYM c e)) (map (xy_pt XYM) pts)).
  Proof.
    clear Hz Hm.
    destruct Hbox as (Ha & Hb & Hc & He). unfold read_multipoint, head. app_norm.
    rstep reads_bbox_xy. rstep reads_i32_le; [apply n_in_i32|].
    rewrite n_neg_false.
    rewrite (record_size_is_neq (multipoint_size XYM n false) (multipoint_size XYM n true))
      by (intros E; symmetry in E; revert E; apply msize_neq; discriminate).
    rewrite record_size_is_refl by apply msize_nonneg. cbn [negb andb has_z_dim].
    rewrite <- (app_nil_r (flat_map xy_enc pts)). rstep reads_xy_points.
    cbn [bind fst snd]. apply reads_ret.
  Qed.

  Lemma reads_multipoint_XYM_some :
    reads (read_multipoint XYM (multipoint_size XYM n true))
          (head ++ flat_map xy_enc pts ++ f64s [mlo; mhi] ++ f64s ms)
          (SMultipoint XYM (mkbox (set_m (pt_xy XYM a b) mlo) (set_m (pt_xy XYM c e) mhi))
                       (zipw set_m_norm (map (xy_pt XYM) pts) ms)).
  Proof.
    clear Hz.
    destruct Hbox as (Ha & Hb & Hc & He). destruct Hm as (Hml & Hmlo & Hmhi & Hms).
    unfold read_multipoint, head. app_norm.
    rstep reads_bbox_xy. rstep reads_i32_le; [apply n_in_i32|].
    rewrite n_neg_false.
    rewrite (record_size_is_refl (multipoint_size XYM n true)) by apply msize_nonneg.
    cbn [negb andb has_z_dim].
    rstep reads_xy_points. cbn [bind fst snd].
    rewrite <- (app_nil_r (f64s [mlo; mhi] ++ f64s ms)).
    rstep reads_m_block; [rewrite map_length; lia|]. cbn [bind fst snd bmin bmax]. apply reads_ret.
  Qed.

  Lemma reads_multipoint_XYZM_none :
    reads (read_multipoint XYZM (multipoint_size XYZM n false))
          (head ++ flat_map xy_enc pts ++ f64s [zlo; zhi] ++ f64s zs)
          (SMultipoint XYZM (mkbox (set_z (pt_xy XYZM a b) zlo) (set_z (pt_xy XYZM c e) zhi))
                       (zipw set_z (map (xy_pt XYZM) pts) zs)).
  Proof.
    clear Hm.
    destruct Hbox as (Ha & Hb & Hc & He). destruct Hz as (Hzl & Hzlo & Hzhi & Hzs).
    unfold read_multipoint, head. app_norm.
    rstep reads_bbox_xy. rstep reads_i32_le; [apply n_in_i32|].
    rewrite n_neg_false.
    rewrite (record_size_is_neq (multipoint_size XYZM n false) (multipoint_size XYZM n true))
      by (intros E; symmetry in E; revert E; apply msize_neq; discriminate).
    rewrite (record_size_is_refl (multipoint_size XYZM n false)) by apply msize_nonneg.
    cbn [negb andb has_z_dim].
    rstep reads_xy_points.
    rewrite <- (app_nil_r (f64s [zlo; zhi] ++ f64s zs)).
    rstep reads_z_block; [rewrite map_length; lia|]. cbn [bind fst snd bmin bmax]. apply reads_ret.
  Qed.

  Lemma reads_multipoint_XYZM_some :
    reads (read_multipoint XYZM (multipoint_size XYZM n true))
          (head ++ flat_map xy_enc pts ++ (f64s [zlo; zhi] ++ f64s zs) ++ f64s [mlo; mhi] ++ f64s ms)
          (SMultipoint XYZM (mkbox (set_m (set_z (pt_xy XYZM a b) zlo) mlo) (set_m (set_z (pt_xy XYZM c e) zhi) mhi))
                       (zipw set_m_norm (zipw set_z (map (xy_pt XYZM) pts) zs) ms)).
  Proof.
    destruct Hbox as (Ha & Hb & Hc & He). destruct Hz as (Hzl & Hzlo & Hzhi & Hzs).
    destruct Hm as (Hml & Hmlo & Hmhi & Hms).
    unfold read_multipoint, head. app_norm.
    rstep reads_bbox_xy. rstep reads_i32_le; [apply n_in_i32|].
    rewrite n_neg_false.
    rewrite (record_size_is_refl (multipoint_size XYZM n true)) by apply msize_nonneg.
    cbn [negb andb has_z_dim].
    rstep reads_xy_points.
    rewrite (app_assoc (f64s [zlo; zhi])).
    rstep reads_z_block; [rewrite map_length; lia|]. cbn [bind fst snd bmin bmax].
    rewrite <- (app_nil_r (f64s [mlo; mhi] ++ f64s ms)).
    rstep reads_m_block; [rewrite zipw_length; rewrite map_length; lia|]. cbn [bind fst snd bmin bmax].
    apply reads_ret.
  Qed.
End Multipoint.
