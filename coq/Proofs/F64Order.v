(** Order facts about the comparisons on f64 bit patterns, and L5: folding
    `f64_min` / `f64_max` over non-NaN values returns one of the values
    (bitwise) that is below / above every one of them. *)
From SF Require Import Model.Bytes Model.F64.
Open Scope Z_scope.

Definition nn (a : f64) : Prop := f64_is_nan a = false.

Lemma f64_le_refl a : nn a -> f64_le a a = true.
Proof. unfold nn, f64_le. intros ->. cbn. apply Z.leb_refl. Qed.

Lemma f64_le_trans a b c : f64_le a b = true -> f64_le b c = true -> f64_le a c = true.
Proof.
  unfold f64_le. intros H1 H2.
  apply andb_prop in H1. destruct H1 as [H1 K1]. apply andb_prop in H1. destruct H1 as [Na Nb].
  apply andb_prop in H2. destruct H2 as [H2 K2]. apply andb_prop in H2. destruct H2 as [_ Nc].
  rewrite Na, Nc. cbn. apply Z.leb_le in K1, K2. apply Z.leb_le. lia.
Qed.

Lemma f64_lt_false_le a b : nn a -> nn b -> f64_lt a b = false -> f64_le b a = true.
Proof.
  unfold nn, f64_lt, f64_le. intros -> -> H. cbn in *. apply Z.ltb_ge in H. apply Z.leb_le. lia.
Qed.

Lemma f64_lt_le a b : f64_lt a b = true -> f64_le a b = true.
Proof.
  unfold f64_lt, f64_le. intros H. apply andb_prop in H. destruct H as [H K]. rewrite H. cbn.
  apply Z.ltb_lt in K. apply Z.leb_le. lia.
Qed.

Lemma f64_le_nn a b : f64_le a b = true -> nn a /\ nn b.
Proof.
  unfold f64_le, nn. intros H. apply andb_prop in H. destruct H as [H _]. apply andb_prop in H. destruct H as [A B].
  destruct (f64_is_nan a), (f64_is_nan b); try discriminate; auto.
Qed.

(** `f64_min a b` and `f64_max a b` (src/writer.rs) pick one of their arguments. *)
Lemma f64_min_spec a b : nn a -> nn b ->
  (f64_min a b = a \/ f64_min a b = b) /\ f64_le (f64_min a b) a = true /\ f64_le (f64_min a b) b = true.
Proof.
  intros Na Nb. unfold f64_min. destruct (f64_lt a b) eqn:E.
  - split; [left; reflexivity|]. split; [apply f64_le_refl, Na|apply f64_lt_le, E].
  - split; [right; reflexivity|]. split; [apply f64_lt_false_le; assumption|apply f64_le_refl, Nb].
Qed.

Lemma f64_max_spec a b : nn a -> nn b ->
  (f64_max a b = a \/ f64_max a b = b) /\ f64_le a (f64_max a b) = true /\ f64_le b (f64_max a b) = true.
Proof.
  intros Na Nb. unfold f64_max, f64_gt. destruct (f64_lt b a) eqn:E.
  - split; [left; reflexivity|]. split; [apply f64_le_refl, Na|apply f64_lt_le, E].
  - split; [right; reflexivity|]. split; [apply f64_lt_false_le; assumption|apply f64_le_refl, Nb].
Qed.

(** A binary choice function that returns one of its arguments, below both. *)
Definition min_like (f : f64 -> f64 -> f64) : Prop :=
  forall a b, nn a -> nn b -> (f a b = a \/ f a b = b) /\ f64_le (f a b) a = true /\ f64_le (f a b) b = true.
Definition max_like (f : f64 -> f64 -> f64) : Prop :=
  forall a b, nn a -> nn b -> (f a b = a \/ f a b = b) /\ f64_le a (f a b) = true /\ f64_le b (f a b) = true.

Lemma min_like_min : min_like f64_min. Proof. exact f64_min_spec. Qed.
Lemma min_like_min_flip : min_like (fun a b => f64_min b a).
Proof. intros a b Na Nb. destruct (f64_min_spec b a Nb Na) as ([H|H] & H1 & H2); repeat split; auto. Qed.
Lemma max_like_max : max_like f64_max. Proof. exact f64_max_spec. Qed.
Lemma max_like_max_flip : max_like (fun a b => f64_max b a).
Proof. intros a b Na Nb. destruct (f64_max_spec b a Nb Na) as ([H|H] & H1 & H2); repeat split; auto. Qed.

(** L5 *)
Theorem fold_min_like f : min_like f -> forall l acc, nn acc -> Forall nn l ->
  let r := fold_left f l acc in
  In r (acc :: l) /\ nn r /\ Forall (fun x => f64_le r x = true) (acc :: l).
Proof.
  intros Hf. induction l as [|x l IH]; intros acc Na Hl; cbn [fold_left].
  - split; [left; reflexivity|]. split; [exact Na|]. constructor; [apply f64_le_refl, Na|constructor].
  - inversion Hl as [|? ? Nx Hl']; subst.
    destruct (Hf acc x Na Nx) as (Hin & Hle1 & Hle2).
    assert (Nf : nn (f acc x)) by (destruct Hin as [-> | ->]; assumption).
    destruct (IH (f acc x) Nf Hl') as (Rin & Rn & Rall). cbv zeta in *.
    split.
    + destruct Rin as [E|Rin]; [|right; right; exact Rin].
      rewrite <- E. destruct Hin as [-> | ->]; [left; reflexivity|right; left; reflexivity].
    + split; [exact Rn|]. inversion Rall as [|? ? R1 R2]; subst.
      constructor; [eapply f64_le_trans; eassumption|]. constructor; [eapply f64_le_trans; eassumption|exact R2].
Qed.

Theorem fold_max_like f : max_like f -> forall l acc, nn acc -> Forall nn l ->
  let r := fold_left f l acc in
  In r (acc :: l) /\ nn r /\ Forall (fun x => f64_le x r = true) (acc :: l).
Proof.
  intros Hf. induction l as [|x l IH]; intros acc Na Hl; cbn [fold_left].
  - split; [left; reflexivity|]. split; [exact Na|]. constructor; [apply f64_le_refl, Na|constructor].
  - inversion Hl as [|? ? Nx Hl']; subst.
    destruct (Hf acc x Na Nx) as (Hin & Hle1 & Hle2).
    assert (Nf : nn (f acc x)) by (destruct Hin as [-> | ->]; assumption).
    destruct (IH (f acc x) Nf Hl') as (Rin & Rn & Rall). cbv zeta in *.
    split.
    + destruct Rin as [E|Rin]; [|right; right; exact Rin].
      rewrite <- E. destruct Hin as [-> | ->]; [left; reflexivity|right; left; reflexivity].
    + split; [exact Rn|]. inversion Rall as [|? ? R1 R2]; subst.
      constructor; [eapply f64_le_trans; eassumption|]. constructor; [eapply f64_le_trans; eassumption|exact R2].
Qed.
