(** C05, file-header half: after finalize the header box holds, in every
    dimension the file's type carries, the extreme values over the ranges of
    all written shapes, and 0 in the dimensions it does not carry. *)
From SF Require Import Model.Bytes Model.F64 Model.ShapeType Model.Shapes Model.Res Model.Encode
  Model.Construct Model.Writer Spec.Esri.
From SF Require Import Proofs.BytesLemmas Proofs.F64Order Proofs.BoxExact Proofs.WriterInv.
From Coq Require Import ZifyBool.
Open Scope Z_scope.

Ltac Zify.zify_post_hook ::= Z.div_mod_to_equations.

Definition range (c : coord) (s : shape) : f64 * f64 :=
  match c with CX => x_range s | CY => y_range s | CZ => z_range s | CM => m_range s end.
Definition carried (t : shape_type) (c : coord) : bool :=
  match c with CX | CY => true | CZ => st_has_z t | CM => st_has_m t end.

Lemma grow_from_shape_coord b s c :
  get c (bmin (grow_from_shape b s))
    = (if carried (type_of s) c then f64_min (fst (range c s)) (get c (bmin b)) else get c (bmin b)) /\
  get c (bmax (grow_from_shape b s))
    = (if carried (type_of s) c then f64_max (snd (range c s)) (get c (bmax b)) else get c (bmax b)).
Proof.
  unfold grow_from_shape. destruct c; cbn [get bmin bmax px py pz pm carried range]; split; try reflexivity.
Qed.

Lemma fold_grow_coord t c : forall ss b, Forall (fun s => type_of s = t) ss ->
  get c (bmin (fold_left grow_from_shape ss b))
    = (if carried t c then fold_left (fun acc x => f64_min x acc) (map (fun s => fst (range c s)) ss) (get c (bmin b))
       else get c (bmin b)) /\
  get c (bmax (fold_left grow_from_shape ss b))
    = (if carried t c then fold_left (fun acc x => f64_max x acc) (map (fun s => snd (range c s)) ss) (get c (bmax b))
       else get c (bmax b)).
Proof.
  induction ss as [|s r IH]; intros b Ht; cbn [fold_left map].
  - destruct (carried t c); split; reflexivity.
  - inversion Ht as [|? ? Hs Hr]; subst. destruct (IH (grow_from_shape b s) Hr) as [E1 E2]. rewrite E1, E2.
    destruct (grow_from_shape_coord b s c) as [G1 G2]. rewrite G1, G2.
    destruct (carried (type_of s) c); split; reflexivity.
Qed.

Lemma fold_hdr_step_box ss : forall h, h_box (fold_left hdr_step ss h) = fold_left grow_from_shape ss (h_box h).
Proof. induction ss as [|s r IH]; intros h; cbn [fold_left]; [reflexivity|]. rewrite IH. reflexivity. Qed.

Lemma hdr_after_box s0 r : h_box (hdr_after (s0 :: r)) = fold_left grow_from_shape (s0 :: r) sentinel_box.
Proof. unfold hdr_after. rewrite fold_hdr_step_box. reflexivity. Qed.

(** Infinities. *)
Lemma nn_inf : nn F_INF. Proof. reflexivity. Qed.
Lemma nn_neg_inf : nn F_NEG_INF. Proof. reflexivity. Qed.

Lemma key_cases m : f64_ok m ->
  exists s g, m = 9223372036854775808 * s + g /\ 0 <= g < 9223372036854775808 /\ (s = 0 \/ s = 1) /\
              f64_key m = (if s =? 0 then g else - g) /\ f64_is_nan m = (9218868437227405312 <? g).
Proof.
  intros [H0 H1]. exists (m / 9223372036854775808), (m mod 9223372036854775808).
  pose proof (Z.div_mod m 9223372036854775808 ltac:(lia)) as Hd.
  pose proof (Z.mod_pos_bound m 9223372036854775808 ltac:(lia)) as Hm.
  split; [exact Hd|]. split; [exact Hm|]. split.
  - assert (0 <= m / 9223372036854775808 < 2); [|lia]. split; [apply Z.div_pos; lia|].
    apply Z.div_lt_upper_bound; [lia|]. unfold two64 in H1. lia.
  - split; reflexivity.
Qed.

Lemma key_bounds m : f64_ok m -> nn m -> -9218868437227405312 <= f64_key m <= 9218868437227405312.
Proof.
  intros H N. destruct (key_cases m H) as (s & g & Hm & Hg & Hs & Hk & Hn). unfold nn in N. rewrite Hn in N.
  apply Z.ltb_ge in N. rewrite Hk. destruct Hs as [-> | ->]; cbn; lia.
Qed.

Lemma le_inf_eq m : f64_ok m -> nn m -> f64_le F_INF m = true -> m = F_INF.
Proof.
  intros H N L. unfold f64_le in L. rewrite N in L. cbn [negb andb] in L. change (f64_is_nan F_INF) with false in L.
  cbn [negb andb] in L. apply Z.leb_le in L. change (f64_key F_INF) with 9218868437227405312 in L.
  destruct (key_cases m H) as (s & g & Hm & Hg & Hs & Hk & Hn). unfold nn in N. rewrite Hn in N. apply Z.ltb_ge in N.
  rewrite Hk in L. unfold F_INF. destruct Hs as [-> | ->]; cbn in L; lia.
Qed.

Lemma ge_neg_inf_eq m : f64_ok m -> nn m -> f64_le m F_NEG_INF = true -> m = F_NEG_INF.
Proof.
  intros H N L. unfold f64_le in L. rewrite N in L. cbn [negb andb] in L. change (f64_is_nan F_NEG_INF) with false in L.
  cbn [negb andb] in L. apply Z.leb_le in L. change (f64_key F_NEG_INF) with (-9218868437227405312) in L.
  destruct (key_cases m H) as (s & g & Hm & Hg & Hs & Hk & Hn). unfold nn in N. rewrite Hn in N. apply Z.ltb_ge in N.
  rewrite Hk in L. unfold F_NEG_INF. destruct Hs as [-> | ->]; cbn in L; lia.
Qed.

(** Folding mins from the +inf sentinel over a non-empty list returns one of
    the values of the list (bit for bit), below all of them. *)
Lemma fold_min_from_inf (l : list f64) : l <> [] -> Forall nn l -> Forall f64_ok l ->
  let r := fold_left (fun acc x => f64_min x acc) l F_INF in
  In r l /\ Forall (fun x => f64_le r x = true) l.
Proof.
  intros Hne Hn Hok.
  destruct (fold_min_like _ min_like_min_flip l F_INF nn_inf Hn) as (Hin & _ & Hall). cbv zeta in *.
  inversion Hall as [|? ? _ Hall']; subst. split; [|exact Hall'].
  destruct Hin as [E|Hin]; [|exact Hin].
  destruct l as [|x l']; [contradiction|]. left.
  inversion Hall' as [|? ? Hx _]; subst. inversion Hn; inversion Hok; subst.
  rewrite <- E in Hx |- *. apply le_inf_eq; assumption.
Qed.

Lemma fold_max_from_neg_inf (l : list f64) : l <> [] -> Forall nn l -> Forall f64_ok l ->
  let r := fold_left (fun acc x => f64_max x acc) l F_NEG_INF in
  In r l /\ Forall (fun x => f64_le x r = true) l.
Proof.
  intros Hne Hn Hok.
  destruct (fold_max_like _ max_like_max_flip l F_NEG_INF nn_neg_inf Hn) as (Hin & _ & Hall). cbv zeta in *.
  inversion Hall as [|? ? _ Hall']; subst. split; [|exact Hall'].
  destruct Hin as [E|Hin]; [|exact Hin].
  destruct l as [|x l']; [contradiction|]. left.
  inversion Hall' as [|? ? Hx _]; subst. inversion Hn; inversion Hok; subst.
  rewrite <- E in Hx |- *. apply ge_neg_inf_eq; assumption.
Qed.

(** What finalize does to the sentinels, per coordinate. *)
Definition untouched (lo hi : f64) : bool := f64_eq hi F_NEG_INF && f64_eq lo F_INF.

Lemma subst_sentinels_coord b c :
  get c (bmin (subst_sentinels b))
    = match c with
      | CX | CY => get c (bmin b)
      | _ => if untouched (get c (bmin b)) (get c (bmax b)) then 0 else get c (bmin b)
      end /\
  get c (bmax (subst_sentinels b))
    = match c with
      | CX | CY => get c (bmax b)
      | _ => if untouched (get c (bmin b)) (get c (bmax b)) then 0 else get c (bmax b)
      end.
Proof. unfold subst_sentinels, untouched. destruct c; cbn [get bmin bmax px py pz pm]; split; reflexivity. Qed.

Lemma not_untouched lo hi : f64_le lo hi = true -> untouched lo hi = false.
Proof.
  unfold untouched, f64_eq, f64_le. intros H.
  apply andb_prop in H. destruct H as [H K]. apply andb_prop in H. destruct H as [Nl Nh]. rewrite Nl, Nh.
  change (f64_is_nan F_NEG_INF) with false. change (f64_is_nan F_INF) with false. cbn [negb andb].
  change (f64_key F_NEG_INF) with (-9218868437227405312). change (f64_key F_INF) with 9218868437227405312.
  apply Z.leb_le in K.
  destruct (f64_key hi =? -9218868437227405312) eqn:E1; destruct (f64_key lo =? 9218868437227405312) eqn:E2; try reflexivity; lia.
Qed.

(** A shape's range in dimension c is made of comparable 64-bit patterns, min <= max. *)
Definition range_good (c : coord) (s : shape) : Prop :=
  f64_ok (fst (range c s)) /\ f64_ok (snd (range c s)) /\ f64_le (fst (range c s)) (snd (range c s)) = true.

Theorem header_box_carried ss t c :
  ss <> [] -> Forall (fun s => type_of s = t) ss -> carried t c = true -> Forall (range_good c) ss ->
  let hb := h_box (final_hdr ss) in
  In (get c (bmin hb)) (map (fun s => fst (range c s)) ss) /\
  Forall (fun s => f64_le (get c (bmin hb)) (fst (range c s)) = true) ss /\
  In (get c (bmax hb)) (map (fun s => snd (range c s)) ss) /\
  Forall (fun s => f64_le (snd (range c s)) (get c (bmax hb)) = true) ss.
Proof.
  intros Hne Hty Hc Hg. cbv zeta. unfold final_hdr. cbn [set_box h_box].
  destruct ss as [|s0 r]; [contradiction|]. rewrite hdr_after_box.
  destruct (fold_grow_coord t c (s0 :: r) sentinel_box Hty) as [E1 E2]. rewrite Hc in E1, E2.
  set (B := fold_left grow_from_shape (s0 :: r) sentinel_box) in *.
  set (mins := map (fun s => fst (range c s)) (s0 :: r)) in *.
  set (maxs := map (fun s => snd (range c s)) (s0 :: r)) in *.
  assert (Nmin : Forall nn mins /\ Forall f64_ok mins).
  { unfold mins. split; apply Forall_map_iff; (eapply Forall_impl; [|exact Hg]); intros s (A & B0 & L); cbv beta;
      [apply f64_le_nn in L; apply L|exact A]. }
  assert (Nmax : Forall nn maxs /\ Forall f64_ok maxs).
  { unfold maxs. split; apply Forall_map_iff; (eapply Forall_impl; [|exact Hg]); intros s (A & B0 & L); cbv beta;
      [apply f64_le_nn in L; apply L|exact B0]. }
  assert (S1 : get c (bmin sentinel_box) = F_INF) by (destruct c; reflexivity).
  assert (S2 : get c (bmax sentinel_box) = F_NEG_INF) by (destruct c; reflexivity).
  rewrite S1 in E1. rewrite S2 in E2.
  destruct (fold_min_from_inf mins) as [I1 A1]; [unfold mins; discriminate|apply Nmin|apply Nmin|].
  destruct (fold_max_from_neg_inf maxs) as [I2 A2]; [unfold maxs; discriminate|apply Nmax|apply Nmax|].
  cbv zeta in *. rewrite <- E1 in I1, A1. rewrite <- E2 in I2, A2.
  (* min of B <= min of s0 <= max of s0 <= max of B: the range was touched *)
  assert (Hord : f64_le (get c (bmin B)) (get c (bmax B)) = true).
  { inversion A1 as [|? ? a1 _]; inversion A2 as [|? ? a2 _]; subst. inversion Hg as [|? ? (_ & _ & L) _]; subst.
    eapply f64_le_trans; [exact a1|]. eapply f64_le_trans; [exact L|exact a2]. }
  destruct (subst_sentinels_coord B c) as [T1 T2].
  assert (K1 : get c (bmin (subst_sentinels B)) = get c (bmin B)).
  { rewrite T1. destruct c; try reflexivity; rewrite (not_untouched _ _ Hord); reflexivity. }
  assert (K2 : get c (bmax (subst_sentinels B)) = get c (bmax B)).
  { rewrite T2. destruct c; try reflexivity; rewrite (not_untouched _ _ Hord); reflexivity. }
  rewrite K1, K2. unfold mins, maxs in *.
  split; [exact I1|]. split; [rewrite Forall_forall in *; intros s Hs; apply (A1 (fst (range c s))); apply (in_map (fun s => fst (range c s))), Hs|].
  split; [exact I2|]. rewrite Forall_forall in *; intros s Hs. apply (A2 (snd (range c s))).
  apply (in_map (fun s => snd (range c s))), Hs.
Qed.

Theorem header_box_absent ss t c :
  Forall (fun s => type_of s = t) ss -> carried t c = false ->
  let hb := h_box (final_hdr ss) in get c (bmin hb) = 0 /\ get c (bmax hb) = 0.
Proof.
  intros Hty Hc. cbv zeta. unfold final_hdr. cbn [set_box h_box].
  destruct ss as [|s0 r].
  - destruct c; cbn in Hc; try discriminate; split; reflexivity.
  - rewrite hdr_after_box. destruct (fold_grow_coord t c (s0 :: r) sentinel_box Hty) as [E1 E2]. rewrite Hc in E1, E2.
    destruct (subst_sentinels_coord (fold_left grow_from_shape (s0 :: r) sentinel_box) c) as [T1 T2].
    rewrite T1, T2, E1, E2. destruct c; cbn in Hc; try discriminate; split; reflexivity.
Qed.
