(** C11, writer side: every byte-level prefix of the operations the writer
    issued to the .shp leaves a buffer of the form H' ++ (byte-prefix of the
    record stream), where H' is 100 bytes (any mixture of an old and a new
    header) or, before the first header is complete, fewer with nothing after. *)
From SF Require Import Model.Bytes Model.F64 Model.ShapeType Model.Shapes Model.Res Model.Encode
  Model.Construct Model.Writer.
From SF Require Import Proofs.BytesLemmas Proofs.ShapeTypeProofs Proofs.SizeProofs Proofs.WriterCore Proofs.WriterInv
  Proofs.WriterFaults.
Open Scope Z_scope.

(** ** Byte-level cuts: operation prefixes of the trace with every write split into single bytes *)
Fixpoint explode (ops : list wop) : list wop :=
  match ops with
  | [] => []
  | WriteAll bs :: r => map (fun b => WriteAll [b]) bs ++ explode r
  | op :: r => op :: explode r
  end.

Lemma explode_app a b : explode (a ++ b) = explode a ++ explode b.
Proof. induction a as [|op a IH]; [reflexivity|]. destruct op; cbn [app explode]; rewrite IH, ?app_assoc; reflexivity. Qed.

Lemma explode_writes cs : explode (map WriteAll cs) = map (fun b => WriteAll [b]) (concat cs).
Proof. induction cs as [|c cs IH]; [reflexivity|]. cbn [map explode concat]. rewrite IH, map_app. reflexivity. Qed.

Definition singles (bs : bytes) : list wop := map (fun b => WriteAll [b]) bs.

Lemma concat_singletons (bs : bytes) : concat (map (fun b => [b]) bs) = bs.
Proof. induction bs as [|b r IH]; [reflexivity|]. cbn [map concat app]. rewrite IH. reflexivity. Qed.

Lemma bp_singles bs buf pos : (pos <= length buf)%nat ->
  bp_ops (singles bs) (buf, pos) = (write_at buf pos bs, (pos + length bs)%nat).
Proof.
  intros H. unfold singles. replace (map (fun b => WriteAll [b]) bs) with (map WriteAll (map (fun b => [b]) bs)) by (rewrite map_map; reflexivity).
  rewrite bp_write_chunks by exact H. rewrite concat_singletons. reflexivity.
Qed.

Lemma is_prefix_singles p bs : is_prefix p (singles bs) -> exists i, p = singles (firstn i bs).
Proof.
  revert p; induction bs as [|b r IH]; intros p Hp; cbn [singles map] in Hp.
  - inversion Hp; subst. exists 0%nat. reflexivity.
  - inversion Hp as [|x p' l Hp']; subst; [exists 0%nat; reflexivity|].
    destruct (IH p' Hp') as (i & ->). exists (S i). reflexivity.
Qed.

Lemma is_prefix_app_cases {A} (p a b : list A) : is_prefix p (a ++ b) ->
  is_prefix p a \/ exists q, p = a ++ q /\ is_prefix q b.
Proof.
  revert p; induction a as [|x a IH]; intros p Hp; cbn [app] in Hp.
  - right. exists p. split; [reflexivity|exact Hp].
  - inversion Hp as [|y p' l Hp']; subst; [left; constructor|].
    destruct (IH p' Hp') as [H|(q & -> & Hq)]; [left; constructor; exact H|right; exists q; split; [reflexivity|exact Hq]].
Qed.

(** ** The form of a crash buffer *)
Definition crash_form (R buf : bytes) : Prop :=
  exists H' m, buf = H' ++ firstn m R /\ slot H' (firstn m R).

Lemma firstn_app_le {A} m (a b : list A) : (m <= length a)%nat -> firstn m (a ++ b) = firstn m a.
Proof. intros H. rewrite firstn_app. replace (m - length a)%nat with 0%nat by lia. cbn [firstn]. apply app_nil_r. Qed.

Lemma crash_form_mono R X buf : crash_form R buf -> crash_form (R ++ X) buf.
Proof.
  intros (H' & m & E & S). destruct (Nat.le_ge_cases m (length R)) as [Hm|Hm].
  - exists H', m. rewrite firstn_app_le by exact Hm. split; assumption.
  - exists H', (length R). rewrite firstn_app_le by apply Nat.le_refl.
    rewrite (firstn_all2 R Hm) in E, S. rewrite firstn_all. split; assumption.
Qed.

Lemma firstn_len_firstn {A} i (l : list A) : firstn (length (firstn i l)) l = firstn i l.
Proof.
  rewrite firstn_length. destruct (Nat.le_ge_cases i (length l)) as [Hi|Hi].
  - rewrite Nat.min_l by exact Hi. reflexivity.
  - rewrite Nat.min_r by exact Hi. rewrite firstn_all. symmetry. apply firstn_all2. exact Hi.
Qed.

(** Appending record bytes at the end. *)
Lemma crash_append H R cs p : length H = 100%nat ->
  is_prefix p (explode (map WriteAll cs)) ->
  crash_form (R ++ concat cs) (fst (bp_ops p (H ++ R, length (H ++ R)))).
Proof.
  intros HH Hp. rewrite explode_writes in Hp. destruct (is_prefix_singles p _ Hp) as (i & ->).
  rewrite bp_singles by apply Nat.le_refl. cbn [fst]. rewrite write_at_end.
  exists H, (length R + length (firstn i (concat cs)))%nat. split.
  - rewrite <- app_assoc. f_equal. rewrite firstn_app_2, firstn_len_firstn. reflexivity.
  - right. exact HH.
Qed.

(** Rewriting the header at offset 0 (finalize), byte by byte. *)
Lemma crash_header H R hb tail p : slot H R -> length hb = 100%nat ->
  (forall q x, is_prefix q tail -> fst (bp_ops q x) = fst x) ->
  is_prefix p (WSeekStart 0 :: singles hb ++ tail) ->
  forall pos, exists H', fst (bp_ops p (H ++ R, pos)) = H' ++ R /\ slot H' R.
Proof.
  intros Hs Hl Htail Hp pos.
  inversion Hp as [|o p' l Hp']; subst; [exists H; split; [reflexivity|exact Hs]|].
  unfold bp_ops. cbn [fold_left bp_op]. fold (bp_ops p' (H ++ R, Z.to_nat 0)). change (Z.to_nat 0) with 0%nat.
  destruct (is_prefix_app_cases p' _ _ Hp') as [Hh|(q & -> & Hq)].
  - destruct (is_prefix_singles p' hb Hh) as (i & ->). rewrite bp_singles by lia. cbn [fst].
    apply write_prefix_keeps_slot; [exact Hs|]. rewrite firstn_length. lia.
  - rewrite bp_ops_app, bp_singles by lia. rewrite Htail by exact Hq. cbn [fst].
    apply write_prefix_keeps_slot; [exact Hs|lia].
Qed.

(** ** Exploding writes does not change what a list of operations does *)
Definition seek0 (op : wop) : Prop := match op with WSeekStart p => p = 0 | _ => True end.

Lemma bp_ops_explode : forall ops buf pos, (pos <= length buf)%nat -> Forall seek0 ops ->
  bp_ops (explode ops) (buf, pos) = bp_ops ops (buf, pos) /\
  (snd (bp_ops ops (buf, pos)) <= length (fst (bp_ops ops (buf, pos))))%nat.
Proof.
  induction ops as [|op ops IH]; intros buf pos Hp Hs; [split; [reflexivity|exact Hp]|].
  inversion Hs as [|? ? Hop Hs']; subst. destruct op as [bs|q| |]; cbn [explode].
  - change (map (fun b => WriteAll [b]) bs) with (singles bs). rewrite bp_ops_app, bp_singles by exact Hp.
    assert (E : bp_ops (WriteAll bs :: ops) (buf, pos) = bp_ops ops (write_at buf pos bs, (pos + length bs)%nat)) by reflexivity.
    rewrite E. apply IH; [|exact Hs']. rewrite write_at_length by exact Hp. lia.
  - cbn in Hop. subst q.
    change (bp_ops (WSeekStart 0 :: explode ops) (buf, pos)) with (bp_ops (explode ops) (buf, 0%nat)).
    change (bp_ops (WSeekStart 0 :: ops) (buf, pos)) with (bp_ops ops (buf, 0%nat)). apply IH; [lia|exact Hs'].
  - change (bp_ops (WSeekEnd :: explode ops) (buf, pos)) with (bp_ops (explode ops) (buf, length buf)).
    change (bp_ops (WSeekEnd :: ops) (buf, pos)) with (bp_ops ops (buf, length buf)). apply IH; [lia|exact Hs'].
  - change (bp_ops (WFlush :: explode ops) (buf, pos)) with (bp_ops (explode ops) (buf, pos)).
    change (bp_ops (WFlush :: ops) (buf, pos)) with (bp_ops ops (buf, pos)). apply IH; [exact Hp|exact Hs'].
Qed.

(** ** The operation log of a destination *)
Definition trace (d : wdev) : list wop := rev (d_log d).

Lemma run_ops_log : forall ops w, world_wf w -> Forall (fun o => op_wf (snd o)) ops ->
  trace (w_shp (snd (run_ops ops w))) = trace (w_shp w) ++ ops_of Shp ops.
Proof.
  induction ops as [|[t op] ops IH]; intros w Hw Hops; [cbn; rewrite app_nil_r; reflexivity|].
  inversion Hops as [|? ? Hop Hops']; subst. cbn [snd] in Hop. cbn [run_ops]. destruct Hw as [Hs Hx].
  destruct t; cbn [get_dev].
  - destruct (apply_op_ok op (w_shp w) Hs Hop) as (d' & E & Hd' & _). rewrite E.
    assert (L : d_log d' = op :: d_log (w_shp w)).
    { unfold apply_op in E. destruct Hs as [Hf _]. unfold dev_faulty in E. rewrite Hf in E.
      destruct op; injection E as <-; reflexivity. }
    specialize (IH (set_dev w Shp d') (conj Hd' Hx) Hops').
    destruct (run_ops ops (set_dev w Shp d')) as [r w'] eqn:R. cbn [snd] in *.
    rewrite IH. cbn [set_dev w_shp ops_of dest_eqb]. unfold trace. rewrite L. cbn [rev]. rewrite <- app_assoc. reflexivity.
  - destruct (apply_op_ok op (w_shx w) Hx Hop) as (d' & E & Hd' & _). rewrite E.
    specialize (IH (set_dev w Shx d') (conj Hs Hd') Hops').
    destruct (run_ops ops (set_dev w Shx d')) as [r w'] eqn:R. cbn [snd] in *.
    rewrite IH. cbn [set_dev w_shp ops_of dest_eqb]. reflexivity.
Qed.

(** ** The crash invariant of the .shp destination *)
Definition CrashInv (w : world) (R : bytes) : Prop :=
  bp_ops (explode (trace (w_shp w))) ([], 0%nat) = bp_of (w_shp w) /\
  forall p, is_prefix p (explode (trace (w_shp w))) -> crash_form R (fst (bp_ops p ([], 0%nat))).

Lemma crash_step w w' O R X :
  CrashInv w R ->
  trace (w_shp w') = trace (w_shp w) ++ O -> bp_of (w_shp w') = bp_ops O (bp_of (w_shp w)) ->
  Forall seek0 O -> (snd (bp_of (w_shp w)) <= length (fst (bp_of (w_shp w))))%nat ->
  (forall q, is_prefix q (explode O) -> crash_form (R ++ X) (fst (bp_ops q (bp_of (w_shp w))))) ->
  CrashInv w' (R ++ X).
Proof.
  intros [Hfull Hpre] Ht Hb Hs Hpos Hq. split.
  - rewrite Ht, explode_app, bp_ops_app, Hfull, Hb. destruct (bp_of (w_shp w)) as [buf pos]. apply bp_ops_explode; assumption.
  - intros p Hp. rewrite Ht, explode_app in Hp. destruct (is_prefix_app_cases p _ _ Hp) as [Hp1|(q & -> & Hq1)].
    + apply crash_form_mono, Hpre, Hp1.
    + rewrite bp_ops_app, Hfull. apply Hq, Hq1.
Qed.

Lemma world0_crash : CrashInv world0 [].
Proof.
  split; [reflexivity|]. intros p Hp. cbn in Hp. inversion Hp; subst. cbn. exists [], 0%nat. split; [reflexivity|].
  left. split; [reflexivity|cbn; lia].
Qed.

Lemma tail_end_flush q x : is_prefix q [WSeekEnd; WFlush] -> fst (bp_ops q x) = fst x.
Proof.
  intros Hq. destruct x as [buf pos].
  inversion Hq as [|o1 q1 l1 Hq1]; subst; [reflexivity|]. inversion Hq1 as [|o2 q2 l2 Hq2]; subst; [reflexivity|].
  inversion Hq2; subst. reflexivity.
Qed.

Lemma hdr_slot_slot' H R : hdr_slot H R -> slot H R. Proof. apply hdr_slot_slot. Qed.

(** finalize *)
Lemma finalize_crash hs st w ss : WInv hs st w ss -> CrashInv w (records_from 1 ss) ->
  CrashInv (snd (w_finalize st w)) (records_from 1 ss).
Proof.
  intros Inv HC. unfold w_finalize. destruct (ws_dirty st) eqn:Hd; cbn [negb]; [|exact HC].
  pose proof Inv as [Hwf Hh Hr Hhs (Hp & [Hbp Hpp] & Hsp & _) _ _].
  pose proof (run_ops_log (finalize_ops st) w Hwf (finalize_ops_wf st)) as Hlog.
  destruct (run_ops_ok (finalize_ops st) w Hwf (finalize_ops_wf st)) as (w' & R & _ & B1 & _). rewrite R in *. cbn [snd] in *.
  rewrite (finalize_ops_shp st hs Hhs), (final_header_inv st ss Hh) in Hlog, B1.
  rewrite <- (app_nil_r (records_from 1 ss)).
  eapply crash_step; [exact HC|exact Hlog|exact B1| | |].
  - unfold fin_ops. constructor; [reflexivity|]. apply Forall_app; split; [|repeat constructor].
    clear. induction (header_chunks (final_hdr ss)); cbn [map]; constructor; [exact I|assumption].
  - rewrite Hpp. apply Nat.le_refl.
  - intros q Hq. rewrite app_nil_r. unfold fin_ops in Hq. cbn [explode] in Hq. rewrite explode_app, explode_writes in Hq.
    fold (header_bytes (final_hdr ss)) in Hq. cbn [explode] in Hq.
    destruct (bp_of (w_shp w)) as [buf pos]. cbn [fst snd] in *. subst buf.
    destruct (crash_header Hp (records_from 1 ss) (header_bytes (final_hdr ss)) [WSeekEnd; WFlush] q
                (hdr_slot_slot _ _ Hsp) (header_bytes_len _) (fun q0 x H0 => tail_end_flush q0 x H0) Hq pos) as (H' & E & S).
    exists H', (length (records_from 1 ss)). rewrite firstn_all. split; assumption.
Qed.

Lemma Forall_seek0_writes cs : Forall seek0 (map WriteAll cs).
Proof. induction cs; cbn [map]; constructor; [exact I|assumption]. Qed.

(** write_shape *)
Lemma write_crash hs st w ss s :
  WInv hs st w ss -> type_of s <> TNull -> Forall (fun x => type_of x <> TNull) ss ->
  CrashInv w (records_from 1 ss) ->
  CrashInv (snd (w_write_shape st w s))
           (if accepts_type ss s then records_from 1 (ss ++ [s]) else records_from 1 ss).
Proof.
  intros Inv Hs Hss HC. destruct (accepts_type ss s) eqn:Ha.
  2:{ destruct ss as [|s0 ss']; [discriminate|]. cbn [accepts_type] in Ha.
      rewrite (write_rejected hs st w ss' s0 s Inv (Forall_inv Hss) Ha). exact HC. }
  pose proof Inv as [Hwf Hh Hr Hhs (Hp & [Hbp Hpp] & Hsp & _) _ Hint].
  unfold w_write_shape, write_shape_plan. rewrite Hh, hdr_after_type, Hhs, Hint. cbn [app].
  destruct ss as [|s0 ss'].
  - (* first write *)
    change (st_eqb TNull TNull) with true. cbn [negb andb].
    set (h0 := set_type_box (hdr_after []) (type_of s) sentinel_box).
    cbn [ws_hdr ws_recnum ws_dirty ws_has_shx h_type h0 set_type_box].
    match goal with |- context [run_ops ?o w] => set (ops := o) end.
    assert (Hopswf : Forall (fun o => op_wf (snd o)) ops) by (unfold ops; destruct hs; wf_ops).
    pose proof (run_ops_log ops w Hwf Hopswf) as Hlog.
    destruct (run_ops_ok ops w Hwf Hopswf) as (w' & R & _ & B1 & _). rewrite R in *. cbn [snd] in *.
    assert (Es : ops_of Shp ops = (WSeekStart 0 :: map WriteAll (header_chunks h0))
                                  ++ map WriteAll (record_chunks (type_of s) (wrap_i32 (ws_recnum st)) s)).
    { unfold ops. destruct hs; ops_norm; reflexivity. }
    rewrite Es in Hlog, B1. rewrite Hr in *. change (1 + zlen (@nil shape)) with 1 in *.
    cbn [app]. rewrite records_from_single.
    pose proof (hdr_slot_slot _ _ Hsp) as Hsl.
    assert (Eh : write_at Hp 0 (concat (header_chunks h0)) = concat (header_chunks h0)).
    { pose proof (write_header_slot Hp [] h0 Hsl) as W. rewrite !app_nil_r in W. exact W. }
    assert (Hl : length (concat (header_chunks h0)) = 100%nat) by apply header_bytes_len.
    remember (header_chunks h0) as hcs eqn:Ehcs. clear Ehcs.
    remember (record_chunks (type_of s) (wrap_i32 1) s) as rcs eqn:Ercs. clear Ercs.
    change (records_from 1 []) with (@nil Z) in *. change (@nil Z ++ concat rcs) with (concat rcs). rewrite <- (app_nil_l (concat rcs)).
    eapply crash_step; [exact HC|exact Hlog|exact B1| | |].
    + cbn [app]. constructor; [reflexivity|]. apply Forall_app; split; apply Forall_seek0_writes.
    + rewrite Hpp. apply Nat.le_refl.
    + intros q Hq. cbn [app]. rewrite explode_app in Hq. cbn [explode] in Hq. rewrite !explode_writes in Hq. cbn [app] in Hq.
      remember (concat hcs) as hb eqn:Ehb. clear Ehb. remember (concat rcs) as rb eqn:Erb. clear Erb.
      destruct (bp_of (w_shp w)) as [buf pos]. cbn [fst snd] in *. rewrite app_nil_r in Hbp. clear Hpp B1 Hlog HC. subst buf.
      change (map (fun b : Z => WriteAll [b]) hb) with (singles hb) in Hq.
      change (map (fun b : Z => WriteAll [b]) rb) with (singles rb) in Hq.
      remember (singles hb ++ singles rb) as tl eqn:Etl.
      inversion Hq as [|o q' l Hq' E1 E2]; [|subst tl].
      * exists Hp, 0%nat. cbn [firstn]. rewrite app_nil_r. split; [reflexivity|]. exact Hsl.
      * change (bp_ops (WSeekStart 0 :: q') (Hp, pos)) with (bp_ops q' (Hp, 0%nat)).
        destruct (is_prefix_app_cases q' _ _ Hq') as [Hh'|(q2 & -> & Hq2)].
        -- destruct (is_prefix_singles q' _ Hh') as (i & ->). rewrite bp_singles by lia. cbn [fst].
           destruct (write_prefix_keeps_slot Hp [] (firstn i hb)) as (H' & E & S).
           { exact Hsl. } { rewrite firstn_length, Hl. lia. }
           rewrite !app_nil_r in E. exists H', 0%nat. cbn [firstn]. split; [rewrite app_nil_r; exact E|exact S].
        -- destruct (is_prefix_singles q2 _ Hq2) as (i & ->).
           rewrite bp_ops_app, bp_singles by lia.
           rewrite Eh. rewrite bp_singles by (rewrite Hl; cbn; lia).
           cbn [fst]. replace (0 + length hb)%nat with (length hb) by reflexivity.
           rewrite write_at_end. exists hb, (length (firstn i rb)). rewrite firstn_len_firstn.
           split; [reflexivity|right; exact Hl].
  - (* later write *)
    cbn [accepts_type] in Ha. pose proof (Forall_inv Hss) as Hs0. cbn beta in Hs0.
    replace (st_eqb (type_of s0) TNull) with false
      by (symmetry; destruct (st_eqb (type_of s0) TNull) eqn:E; [apply st_eqb_eq in E; contradiction|reflexivity]).
    rewrite Ha. cbn [negb andb app]. apply st_eqb_eq in Ha.
    match goal with |- context [run_ops ?o w] => set (ops := o) end.
    assert (Hopswf : Forall (fun o => op_wf (snd o)) ops) by (unfold ops; destruct hs; wf_ops).
    pose proof (run_ops_log ops w Hwf Hopswf) as Hlog.
    destruct (run_ops_ok ops w Hwf Hopswf) as (w' & R & _ & B1 & _). rewrite R in *. cbn [snd] in *.
    assert (Hne : records_from 1 (s0 :: ss') <> []).
    { cbn [records_from]. intros E. apply app_eq_nil in E. destruct E as [E _]. revert E. apply record_bytes_nonempty. }
    pose proof (hdr_slot_nonempty _ _ Hsp Hne) as Hl100.
    assert (Es : ops_of Shp ops = map WriteAll (record_chunks (type_of s) (wrap_i32 (1 + zlen (s0 :: ss'))) s)).
    { unfold ops. rewrite Hh, hdr_after_type, Hr, Ha. destruct hs; ops_norm; reflexivity. }
    rewrite Es in Hlog, B1.
    change (s0 :: ss' ++ [s]) with ((s0 :: ss') ++ [s]). rewrite records_from_app, records_from_single.
    eapply crash_step; [exact HC|exact Hlog|exact B1|apply Forall_seek0_writes| |].
    + rewrite Hpp. apply Nat.le_refl.
    + intros q Hq. destruct (bp_of (w_shp w)) as [buf pos]. cbn [fst snd] in *. subst buf pos.
      apply crash_append; assumption.
Qed.
