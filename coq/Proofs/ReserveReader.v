(** C17 at the level of the reader state machine: every call of every history keeps the ledger bounded. *)
From SF Require Import Model.Bytes Model.F64 Model.ShapeType Model.Shapes Model.Res Model.Encode
  Model.F64Arith Model.Construct Model.Prog Model.Decode Model.Reader.
From SF Require Import Proofs.BytesLemmas Proofs.ProgLemmas Proofs.Reserve Proofs.ReserveProofs.
Open Scope Z_scope.

Lemma rb_usize_add a b : rb (usize_add a b).
Proof. unfold usize_add. destruct (a + b <? two64); constructor. Qed.

Lemma rb_it_read req st : rb (it_read req st).
Proof.
  unfold it_read. apply rb_bind; [apply rb_catch, rb_read_one_shape|]. intros [[hdr s]|e|]; [|constructor|constructor].
  apply rb_bind; [apply rb_usize_add|intros]. apply rb_bind; [apply rb_usize_add|intros; constructor].
Qed.

Lemma rb_it_next req st : rb (it_next req st).
Proof.
  unfold it_next. destruct (r_index st) as [idx|].
  - destruct (nth_entry idx (r_next st)) as [[off w]|]; [|constructor].
    destruct (offset_in_bytes off); [|constructor].
    destruct (_ =? _); [apply rb_it_read|]. apply rb_bind; [apply rb_catch, rb_seek_start_|].
    intros [q|e|]; [apply rb_it_read|constructor|constructor].
  - destruct (_ <=? _); [constructor|apply rb_it_read].
Qed.

Lemma rb_it_pull req : forall fuel st, rb (it_pull fuel req st).
Proof.
  induction fuel as [|f IH]; intros st; cbn [it_pull]; [constructor|].
  apply rb_bind; [apply rb_it_next|]. intros [[item|] st']; cbn [fst snd]; [|constructor].
  apply rb_bind; [apply IH|intros; constructor].
Qed.

Lemma rb_r_seek st k : rb (r_seek st k).
Proof.
  unfold r_seek. destruct (r_index st) as [idx|]; [|constructor].
  destruct (nth_entry idx k) as [[off w]|].
  - destruct (offset_in_bytes off); [|constructor]. apply rb_bind; [apply rb_catch, rb_seek_start_|]. intros [q|e|]; constructor.
  - apply rb_bind; [apply rb_catch, rb_seek_end_|]. intros [q|e|]; constructor.
Qed.

Lemma rb_r_read_nth req st i : rb (r_read_nth req st i).
Proof.
  unfold r_read_nth. destruct (r_index st) as [idx|]; [|constructor]. destruct (_ <=? _); [constructor|].
  apply rb_bind; [apply rb_r_seek|]. intros [[u|e|] st1]; cbn [fst snd]; [|constructor|constructor].
  apply rb_bind; [apply rb_catch, rb_read_one_shape|]. intros [[h s]|e|]; [|constructor|constructor].
  apply rb_bind; [apply rb_catch, rb_seek_start_|]. intros [q|e|]; constructor.
Qed.

Lemma rb_r_call req st c : rb (r_call req st c).
Proof.
  destruct c; cbn [r_call]; try constructor.
  - apply rb_bind; [apply rb_it_pull|intros; constructor].
  - apply rb_bind; [apply rb_r_read_nth|intros; constructor].
  - apply rb_bind; [apply rb_r_seek|intros; constructor].
Qed.

Lemma rb_r_calls req : forall cs st, rb (r_calls req st cs).
Proof.
  induction cs as [|c cs IH]; intros st; cbn [r_calls]; [constructor|].
  apply rb_bind; [apply rb_r_call|intros x]. apply rb_bind; [apply IH|intros; constructor].
Qed.

Lemma rb_r_new : rb r_new.
Proof. unfold r_new. apply rb_bind; [apply rb_read_header|intros; constructor]. Qed.
Lemma rb_r_with_shx idx : rb (r_with_shx idx).
Proof. unfold r_with_shx. apply rb_bind; [apply rb_read_header|intros; constructor]. Qed.

(** Opening (with or without index) and any history of calls: every
    pre-sizing request recorded in the ledger is at most RES_MAX bytes. *)
Theorem requests_bounded req (index : option (list (Z * Z))) cs s :
  ledger_ok s ->
  ledger_ok (snd (run (st <-- (match index with Some idx => r_with_shx idx | None => r_new end) ;; r_calls req st cs) s)).
Proof.
  intros Hs. apply rb_run; [|exact Hs]. apply rb_bind; [destruct index; [apply rb_r_with_shx|apply rb_r_new]|intros; apply rb_r_calls].
Qed.

Theorem index_requests_bounded s : ledger_ok s -> ledger_ok (snd (run read_index_file s)).
Proof. apply rb_run, rb_read_index_file. Qed.
