(** C06: typed reads agree with generic reads followed by conversion; the type
    of a value, of its variant, of the record it was read from and the types
    named in conversion errors agree. *)
From SF Require Import Model.Bytes Model.F64 Model.ShapeType Model.Shapes Model.Res Model.Encode
  Model.F64Arith Model.Construct Model.Prog Model.Decode Model.Reader Model.Convert.
From SF Require Import Proofs.ShapeTypeProofs Proofs.ProgLemmas.
Open Scope Z_scope.

(** `Shape::shapetype(&self)` agrees with the type attached to the concrete Rust type. *)
Lemma shape_shapetype_type_of s : shape_shapetype s = type_of s.
Proof. destruct s as [|d p|d b ps|d b ps|d b ps|b ps]; try reflexivity; destruct d; reflexivity. Qed.

(** ** A reading program that can only return values of type t *)
Definition returns_type (p : prog shape) (t : shape_type) : Prop :=
  forall s x s', run p s = (Ok x, s') -> type_of x = t.

Lemma rt_ret x t : type_of x = t -> returns_type (Ret x) t.
Proof. intros H s y s' E. cbn in E. injection E as <- _. exact H. Qed.

Lemma rt_fail e t : returns_type (Fail e) t.
Proof. intros s y s' E. cbn in E. discriminate. Qed.

Lemma rt_bind {A} (p : prog A) (f : A -> prog shape) t :
  (forall a, returns_type (f a) t) -> returns_type (bind p f) t.
Proof.
  intros H s x s' E. rewrite run_bind in E. destruct (run p s) as [[a|e|] s1]; try discriminate.
  exact (H a s1 x s' E).
Qed.

Ltac rt :=
  repeat first
    [ apply rt_fail
    | apply rt_ret; reflexivity
    | apply rt_bind; intros ?
    | match goal with
      | |- returns_type (if ?c then _ else _) _ => destruct c
      | |- returns_type (match ?x with _ => _ end) _ => destruct x
      | |- returns_type (let '(_, _) := ?x in _) _ => destruct x
      end ].

Lemma rt_read_point d size : returns_type (read_point d size) (point_type d).
Proof. destruct d; unfold read_point; rt. Qed.

Lemma rt_read_multipoint d size : returns_type (read_multipoint d size) (multipoint_type d).
Proof. destruct d; unfold read_multipoint; rt. Qed.

Lemma rt_read_polyline d size : returns_type (read_polyline d size) (polyline_type d).
Proof. unfold read_polyline. apply rt_bind; intros bp. destruct d; apply rt_ret; reflexivity. Qed.

Lemma rt_read_polygon d size : returns_type (read_polygon d size) (polygon_type d).
Proof. unfold read_polygon. apply rt_bind; intros bp. destruct d; apply rt_ret; reflexivity. Qed.

Lemma rt_read_multipatch size : returns_type (read_multipatch size) TMultipatch.
Proof. unfold read_multipatch. rt. Qed.

(** The generic dispatch: a record with type code t is decoded to the variant of type t. *)
Theorem read_content_type t size : returns_type (read_content t size) t.
Proof.
  destruct t; cbn [read_content].
  - exact (rt_ret SNull TNull eq_refl).
  - exact (rt_read_point XY size).
  - exact (rt_read_polyline XY size).
  - exact (rt_read_polygon XY size).
  - exact (rt_read_multipoint XY size).
  - exact (rt_read_point XYZM size).
  - exact (rt_read_polyline XYZM size).
  - exact (rt_read_polygon XYZM size).
  - exact (rt_read_multipoint XYZM size).
  - exact (rt_read_point XYM size).
  - exact (rt_read_polyline XYM size).
  - exact (rt_read_polygon XYM size).
  - exact (rt_read_multipoint XYM size).
  - exact (rt_read_multipatch size).
Qed.

(** ** Typed read = generic read, then conversion *)
Theorem typed_read_from (t : shape_type) (record_size : Z) (s : src) (x : shape) (s' : src) :
  run (read_from None record_size) s = (Ok x, s') ->
  fst (run (read_from (Some t) record_size) s) = try_from t x.
Proof.
  unfold read_from. rewrite !run_bind. destruct (run read_shape_type s) as [[t0|e|] s1]; try discriminate.
  intros E. pose proof (read_content_type t0 _ s1 x s' E) as Ht.
  unfold try_from. rewrite (shape_shapetype_type_of x). rewrite Ht.
  destruct (st_eqb t0 t) eqn:Eq.
  - apply st_eqb_eq in Eq. subst t. rewrite E. reflexivity.
  - reflexivity.
Qed.

Theorem typed_read_one_shape (t : shape_type) (s : src) (h : Z * Z) (x : shape) (s' : src) :
  run (read_one_shape None) s = (Ok (h, x), s') ->
  fst (run (read_one_shape (Some t)) s) = rmap (fun y => (h, y)) (try_from t x).
Proof.
  unfold read_one_shape. rewrite !run_bind. destruct (run read_record_header s) as [[hdr|e|] s1]; try discriminate.
  destruct ((snd hdr * 2 <? 0) || (two31 <=? snd hdr * 2)); [cbn; discriminate|].
  rewrite !run_bind. destruct (run (read_from None (snd hdr * 2)) s1) as [[y|e|] s2] eqn:E; try discriminate.
  cbn [run]. intros H. injection H as <- <- _.
  pose proof (typed_read_from t _ s1 y s2 E) as Ht.
  destruct (run (read_from (Some t) (snd hdr * 2)) s1) as [[z|e|] s3]; cbn [fst] in Ht; rewrite <- Ht; reflexivity.
Qed.

(** A typed read never yields a value of another type. *)
Theorem typed_read_type (t : shape_type) (record_size : Z) : returns_type (read_from (Some t) record_size) t.
Proof.
  unfold read_from. refine (rt_bind read_shape_type _ t _). intros t0. cbv zeta. destruct (st_eqb t0 t); [exact (read_content_type t _)|exact (rt_fail _ _)].
Qed.

(** ** Conversions *)
Theorem try_from_from s : try_from (type_of s) (shape_from s) = Ok s.
Proof. unfold try_from, shape_from. rewrite st_eqb_refl. reflexivity. Qed.

Theorem try_from_spec t s :
  try_from t s = if st_eqb (type_of s) t then Ok s else Err (EMismatch t (type_of s)).
Proof. unfold try_from. rewrite (shape_shapetype_type_of s). reflexivity. Qed.

(** Bulk conversion: all values if every one has the requested type, otherwise
    the error of the first one that has not. *)
Fixpoint first_other (t : shape_type) (l : list shape) : option shape :=
  match l with
  | [] => None
  | s :: r => if st_eqb (type_of s) t then first_other t r else Some s
  end.

Theorem convert_all_spec t l :
  convert_all t l = match first_other t l with None => Ok l | Some s => Err (EMismatch t (type_of s)) end.
Proof.
  induction l as [|s r IH]; [reflexivity|]. cbn [convert_all first_other]. rewrite try_from_spec.
  destruct (st_eqb (type_of s) t); [|reflexivity]. rewrite IH. destruct (first_other t r); reflexivity.
Qed.
