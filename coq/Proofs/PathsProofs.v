(** Sibling file names and the directory: the laws the path-based API rests on. *)
From SF Require Import Model.Bytes Model.ShapeType Model.Shapes Model.Res Model.Writer Model.Paths.
From SF Require Import Proofs.WriterInv.
Open Scope Z_scope.

Lemma name_eqb_eq a b : name_eqb a b = true <-> a = b.
Proof. unfold name_eqb. destruct (list_eq_dec Z.eq_dec a b); split; congruence. Qed.

Lemma name_eqb_refl a : name_eqb a a = true.
Proof. apply name_eqb_eq. reflexivity. Qed.

Lemma name_eqb_neq a b : a <> b -> name_eqb a b = false.
Proof. intros H. destruct (name_eqb a b) eqn:E; [apply name_eqb_eq in E; contradiction|reflexivity]. Qed.

(** ** Cutting at the last dot *)
Lemma cut_none n : cut_last_dot n = None <-> ~ In DOT n.
Proof.
  induction n as [|c r IH]; cbn [cut_last_dot In]; [tauto|].
  destruct (cut_last_dot r) as [[b a]|].
  - split; [discriminate|]. intros H. exfalso. apply H. right.
    destruct (in_dec Z.eq_dec DOT r) as [i|ni]; [exact i|]. apply IH in ni. discriminate.
  - destruct (Z.eqb_spec c DOT) as [->|ne].
    + split; [discriminate|]. intros H. exfalso. apply H. left. reflexivity.
    + split; [|reflexivity]. intros _ [H|H]; [congruence|]. apply (proj1 IH); [reflexivity|exact H].
Qed.

Lemma cut_spec n b a : cut_last_dot n = Some (b, a) -> n = b ++ DOT :: a /\ ~ In DOT a.
Proof.
  revert b a. induction n as [|c r IH]; intros b a; cbn [cut_last_dot]; [discriminate|].
  destruct (cut_last_dot r) as [[b' a']|] eqn:E.
  - intros H. injection H as <- <-. destruct (IH b' a' eq_refl) as [-> Hn]. split; [reflexivity|exact Hn].
  - destruct (Z.eqb_spec c DOT) as [->|ne]; [|discriminate].
    intros H. injection H as <- <-. split; [reflexivity|]. apply cut_none. exact E.
Qed.

Lemma cut_app b a : ~ In DOT a -> cut_last_dot (b ++ DOT :: a) = Some (b, a).
Proof.
  intros Ha. induction b as [|c b IH]; cbn [app cut_last_dot].
  - rewrite (proj2 (cut_none a) Ha). rewrite Z.eqb_refl. reflexivity.
  - rewrite IH. reflexivity.
Qed.

Lemma stem_nonempty n : n <> [] -> file_stem n <> [].
Proof. intros Hn. unfold file_stem. destruct (cut_last_dot n) as [[[|c b] a]|]; try exact Hn; discriminate. Qed.

Lemma stem_of_app s e : s <> [] -> ~ In DOT e -> file_stem (s ++ DOT :: e) = s.
Proof. intros Hs He. unfold file_stem. rewrite (cut_app s e He). destruct s; [contradiction|reflexivity]. Qed.

Lemma extension_of_app s e : s <> [] -> ~ In DOT e -> extension (s ++ DOT :: e) = Some e.
Proof. intros Hs He. unfold extension. rewrite (cut_app s e He). destruct s; [contradiction|reflexivity]. Qed.

(** A name that has an extension is its stem, a dot, the extension. *)
Lemma extension_spec n e : extension n = Some e -> n = with_ext n e /\ ~ In DOT e /\ file_stem n <> [].
Proof.
  unfold extension, with_ext, file_stem. destruct (cut_last_dot n) as [[[|c b] a]|] eqn:E; try discriminate.
  intros H. injection H as <-. destruct (cut_spec n _ _ E) as [Hn Ha]. split; [exact Hn|split; [exact Ha|discriminate]].
Qed.

(** ** Laws of `with_extension` *)
(** The siblings of a sibling are the siblings: the .dbf next to the .shx is the .dbf next to the .shp. *)
Theorem with_ext_with_ext n e e' : n <> [] -> ~ In DOT e -> with_ext (with_ext n e) e' = with_ext n e'.
Proof. intros Hn He. unfold with_ext at 1 3. unfold with_ext. rewrite (stem_of_app _ e (stem_nonempty n Hn) He). reflexivity. Qed.

Theorem with_ext_extension n e : n <> [] -> ~ In DOT e -> extension (with_ext n e) = Some e.
Proof. intros Hn He. apply extension_of_app; [apply stem_nonempty, Hn|exact He]. Qed.

(** Two siblings coincide only if stems and extensions do. *)
Theorem with_ext_inj n m e1 e2 : n <> [] -> m <> [] -> ~ In DOT e1 -> ~ In DOT e2 ->
  with_ext n e1 = with_ext m e2 -> file_stem n = file_stem m /\ e1 = e2.
Proof.
  intros Hn Hm H1 H2 H. unfold with_ext in H.
  pose proof (cut_app (file_stem n) e1 H1) as C1. rewrite H, (cut_app (file_stem m) e2 H2) in C1.
  injection C1 as -> ->. split; reflexivity.
Qed.

(** Two different names with the same extension have no sibling in common. *)
Theorem siblings_disjoint p q e e1 e2 : extension p = Some e -> extension q = Some e -> p <> q ->
  ~ In DOT e1 -> ~ In DOT e2 -> with_ext p e1 <> with_ext q e2.
Proof.
  intros Hp Hq Hne H1 H2 H.
  destruct (extension_spec p e Hp) as (Ep & _ & Sp). destruct (extension_spec q e Hq) as (Eq & _ & Sq).
  assert (Np : p <> []) by (intros ->; discriminate Hp). assert (Nq : q <> []) by (intros ->; discriminate Hq).
  destruct (with_ext_inj p q e1 e2 Np Nq H1 H2 H) as [Hs _].
  apply Hne. rewrite Ep, Eq. unfold with_ext. rewrite Hs. reflexivity.
Qed.

(** The siblings of one name under different extensions differ. *)
Theorem siblings_distinct n e1 e2 : e1 <> e2 -> with_ext n e1 <> with_ext n e2.
Proof. intros Hne H. unfold with_ext in H. apply app_inv_head in H. injection H as H. contradiction. Qed.

Lemma dotfree_SHX : ~ In DOT SHX. Proof. cbv; intuition discriminate. Qed.
Lemma dotfree_DBF : ~ In DOT DBF. Proof. cbv; intuition discriminate. Qed.
Lemma dotfree_SHP : ~ In DOT SHP. Proof. cbv; intuition discriminate. Qed.

(** ** The directory *)
Lemma fs_get_set_same f n c : fs_get (fs_set f n c) n = Some c.
Proof.
  induction f as [|[m d] r IH]; cbn [fs_set fs_get]; [rewrite name_eqb_refl; reflexivity|].
  destruct (name_eqb m n) eqn:E; cbn [fs_get]; [rewrite name_eqb_refl; reflexivity|rewrite E; exact IH].
Qed.

Lemma fs_get_set_other f n c m : m <> n -> fs_get (fs_set f n c) m = fs_get f m.
Proof.
  intros Hne. induction f as [|[k d] r IH]; cbn [fs_set fs_get].
  - rewrite (name_eqb_neq n m); [reflexivity|congruence].
  - destruct (name_eqb k n) eqn:E; cbn [fs_get].
    + apply name_eqb_eq in E. subst k. rewrite (name_eqb_neq n m); [reflexivity|congruence].
    + destruct (name_eqb k m); [reflexivity|exact IH].
Qed.

Lemma fs_get_remove_other f n m : m <> n -> fs_get (fs_remove f n) m = fs_get f m.
Proof.
  intros Hne. induction f as [|[k d] r IH]; cbn [fs_remove fs_get]; [reflexivity|].
  destruct (name_eqb k n) eqn:E; cbn [fs_get].
  - apply name_eqb_eq in E. subst k. rewrite (name_eqb_neq n m); [reflexivity|congruence].
  - destruct (name_eqb k m); [reflexivity|exact IH].
Qed.

(** A directory holds at most one entry per name. *)
Definition dir_ok (f : dir) : Prop := NoDup (map fst f).

Lemma fs_set_names f n c x : In x (map fst (fs_set f n c)) -> x = n \/ In x (map fst f).
Proof.
  induction f as [|[k d] r IH]; cbn [fs_set map fst In]; [intuition congruence|].
  destruct (name_eqb k n) eqn:E; cbn [map fst In].
  - apply name_eqb_eq in E. subst k. intuition congruence.
  - intros [H|H]; [tauto|]. destruct (IH H); tauto.
Qed.

Lemma fs_set_ok f n c : dir_ok f -> dir_ok (fs_set f n c).
Proof.
  unfold dir_ok. induction f as [|[k d] r IH]; cbn [fs_set map fst]; intros H.
  - constructor; [intros []|constructor].
  - inversion H as [|? ? Hk Hr]; subst. destruct (name_eqb k n) eqn:E; cbn [map fst].
    + apply name_eqb_eq in E. subst k. constructor; assumption.
    + constructor; [|apply IH, Hr]. intros Hin. destruct (fs_set_names r n c k Hin) as [->|Hin'];
        [rewrite name_eqb_refl in E; discriminate|contradiction].
Qed.

Lemma fs_get_remove_same f n : dir_ok f -> fs_get (fs_remove f n) n = None.
Proof.
  unfold dir_ok. induction f as [|[k d] r IH]; cbn [fs_remove fs_get map fst]; intros H; [reflexivity|].
  inversion H as [|? ? Hk Hr]; subst. destruct (name_eqb k n) eqn:E; cbn [fs_get].
  - apply name_eqb_eq in E. subst k. clear IH H Hr. induction r as [|[k d'] r IH]; cbn [fs_get]; [reflexivity|].
    destruct (name_eqb k n) eqn:E; [apply name_eqb_eq in E; subst k; exfalso; apply Hk; left; reflexivity|].
    apply IH. intros Hin. apply Hk. right. exact Hin.
  - rewrite E. apply IH, Hr.
Qed.

(** ** Writing by path, then opening by path *)
Section ByPath.
  Variable f : dir.
  Variable n : fname.
  Hypothesis Hn : with_ext n SHX <> n.

  (** Whatever the directory held before — older, longer files under the same
      names included — opening the path afterwards yields exactly the bytes
      the in-memory destinations hold, index included... *)
  Theorem open_after_write w :
    sr_open (sw_store (sw_create f n) n w) n = OOpen (fst (files w)) (Some (snd (files w))).
  Proof.
    unfold sr_open, sw_store, files. cbn [fst snd].
    rewrite (fs_get_set_other _ _ _ n) by congruence. rewrite fs_get_set_same, fs_get_set_same. reflexivity.
  Qed.

  (** ...and every other file is what it was. *)
  Theorem write_frame w m : m <> n -> m <> with_ext n SHX -> fs_get (sw_store (sw_create f n) n w) m = fs_get f m.
  Proof.
    intros H1 H2. unfold sw_store, sw_create. rewrite !fs_get_set_other by assumption. reflexivity.
  Qed.

  (** Without the index file the reader opens without index. *)
  Theorem open_without_shx w : dir_ok f ->
    sr_open (fs_remove (sw_store (sw_create f n) n w) (with_ext n SHX)) n = OOpen (fst (files w)) None.
  Proof.
    intros Hok. unfold sr_open. rewrite fs_get_remove_other by congruence.
    rewrite fs_get_remove_same by (unfold sw_store, sw_create; repeat apply fs_set_ok; exact Hok).
    unfold sw_store, files. cbn [fst]. rewrite (fs_get_set_other _ _ _ n) by congruence. rewrite fs_get_set_same. reflexivity.
  Qed.
End ByPath.

(** A second shapefile written next to the first one (another name with the
    same extension) leaves the first one as it was. *)
Theorem second_shapefile_harmless f p q e w1 w2 :
  extension p = Some e -> extension q = Some e -> p <> q -> with_ext p SHX <> p ->
  let f1 := sw_store (sw_create f p) p w1 in
  let f2 := sw_store (sw_create f1 q) q w2 in
  sr_open f2 p = OOpen (fst (files w1)) (Some (snd (files w1))).
Proof.
  intros Hp Hq Hne Hx f1 f2.
  destruct (extension_spec p e Hp) as (Ep & He & _). destruct (extension_spec q e Hq) as (Eq & _ & _).
  assert (A1 : p <> with_ext q SHX)
    by (intros H; apply (siblings_disjoint p q e e SHX Hp Hq Hne He dotfree_SHX); rewrite <- Ep; exact H).
  assert (A2 : with_ext p SHX <> q)
    by (intros H; apply (siblings_disjoint p q e SHX e Hp Hq Hne dotfree_SHX He); rewrite <- Eq; exact H).
  assert (A3 : with_ext p SHX <> with_ext q SHX) by (apply siblings_disjoint with e; auto using dotfree_SHX).
  unfold sr_open. subst f2. rewrite !(write_frame f1 q w2) by assumption.
  exact (open_after_write f p Hx w1).
Qed.
