(** C20, polygons there and back: an outer-first 2-D polygon as its
    constructor leaves it (every ring closed and oriented as its role says, no
    outer ring empty) converted to geo-types and back is the same polygon. *)
From SF Require Import Model.Bytes Model.F64 Model.ShapeType Model.Shapes Model.Res Model.F64Arith Model.Construct Model.Geo.
From SF Require Import Proofs.PolygonCtor Proofs.GeoProofs.
Open Scope Z_scope.

Definition role_of_bool (o : bool) : role := if o then Outer else Inner.

Definition rings_of_flat (l : list (bool * list Geo.coord)) : list (role * list pt) :=
  map (fun r => (role_of_bool (fst r), map (pt_of XY) (snd r))) l.

Lemma rings_of_gpoly_flat p : rings_of_gpoly p = rings_of_flat (flat_poly p).
Proof.
  unfold rings_of_gpoly, rings_of_flat, flat_poly. cbn [map fst snd role_of_bool]. f_equal.
  rewrite map_map. reflexivity.
Qed.

Definition fixed (r : role * list pt) : Prop := close_and_reorder XY r = r.

Lemma map_fixed rs : Forall fixed rs -> map (close_and_reorder XY) rs = rs.
Proof. induction 1 as [|r l H _ IH]; [reflexivity|]. cbn [map]. rewrite H, IH. reflexivity. Qed.

(** A polygon built from rings that are already as the constructor leaves them. *)
Lemma mk_polygon_fixed r0 rest : Forall fixed (r0 :: rest) -> snd r0 <> [] ->
  exists b, mk_polygon XY (r0 :: rest) = Ok (SPolygon XY b (r0 :: rest)).
Proof.
  intros Hf Hne. unfold mk_polygon. rewrite (map_fixed _ Hf).
  destruct (snd r0) as [|p ps] eqn:E; [contradiction|]. cbn [box_from_points rbind]. eexists. reflexivity.
Qed.

(** Every polygon of the list has a non-empty exterior. *)
Definition ext_nonempty (p : gpoly) : Prop := gp_ext p <> [].

Lemma all_rings_fixed gs :
  Forall ext_nonempty gs -> Forall fixed (rings_of_flat (flat_polys gs)) ->
  all_rings gs = Ok (rings_of_flat (flat_polys gs)).
Proof.
  induction gs as [|p r IH]; intros Hne Hf; [reflexivity|].
  inversion Hne as [|? ? Hp Hr]; subst.
  unfold flat_polys in *. cbn [flat_map] in *. unfold rings_of_flat in *. rewrite map_app in *.
  apply Forall_app in Hf. destruct Hf as [Hf1 Hf2].
  cbn [all_rings]. rewrite (IH Hr Hf2).
  unfold polygon_rings_from. rewrite rings_of_gpoly_flat. unfold rings_of_flat.
  unfold flat_poly in *. cbn [map fst snd role_of_bool] in *.
  destruct (mk_polygon_fixed _ _ Hf1) as [b Hb].
  { cbn [snd]. unfold ext_nonempty in Hp. destruct (gp_ext p); [contradiction|discriminate]. }
  rewrite Hb. reflexivity.
Qed.

Lemma role_of_bool_outer r : role_of_bool (role_is_outer r) = r.
Proof. destruct r; reflexivity. Qed.

(** Grouping never produces an empty exterior when the rings start with an outer ring and no outer ring is empty. *)
Lemma group_rings_ext : forall rings last acc,
  Forall (fun r => fst r = true -> snd r <> []) rings ->
  Forall ring_closed rings ->
  (last <> None \/ match rings with (false, _) :: _ => False | _ => True end) ->
  Forall ext_nonempty acc -> (forall p, last = Some p -> ext_nonempty p) ->
  Forall ext_nonempty (group_rings rings last acc).
Proof.
  induction rings as [|[o pts] r IH]; intros last acc Hne Hc Hfirst Hacc Hlast; cbn [group_rings].
  - destruct last as [p|]; [|exact Hacc]. apply Forall_app. split; [exact Hacc|constructor; [apply Hlast; reflexivity|constructor]].
  - inversion Hne as [|? ? Hn1 Hn2]; subst. inversion Hc as [|? ? Hc1 Hc2]; subst. unfold ring_closed in Hc1. cbn [fst snd] in *.
    destruct o.
    + apply IH; [exact Hn2|exact Hc2|left; discriminate| |].
      * destruct last as [p|]; [|exact Hacc]. apply Forall_app. split; [exact Hacc|constructor; [apply Hlast; reflexivity|constructor]].
      * intros p Hp. injection Hp as <-. unfold ext_nonempty, gpoly_new. cbn [gp_ext]. rewrite Hc1. apply Hn1. reflexivity.
    + destruct last as [p|]; [|destruct Hfirst as [H|H]; [contradiction H; reflexivity|contradiction]].
      apply IH; [exact Hn2|exact Hc2|left; discriminate|exact Hacc|].
      intros q Hq. injection Hq as <-. unfold ext_nonempty, gpoly_push. cbn [gp_ext]. apply (Hlast p eq_refl).
Qed.

Lemma last_map {A B} (f : A -> B) (l : list A) d0 : last (map f l) (f d0) = f (last l d0).
Proof. induction l as [|a l IH]; [reflexivity|]. cbn [map]. destruct l as [|b l']; [reflexivity|]. exact IH. Qed.

(** Closed as a shapefile ring (2-D) is closed as a geo-types line string. *)
Lemma closed_geo ps : is_part_closed XY ps = true -> geo_close (map xy ps) = map xy ps.
Proof.
  destruct ps as [|p0 r]; [discriminate|]. unfold is_part_closed, geo_close. cbn [map].
  change (xy p0 :: map xy r) with (map xy (p0 :: r)). rewrite (last_map xy (p0 :: r) p0).
  unfold coord_eq, xy, pt_eq. cbn [fst snd]. intros ->. reflexivity.
Qed.

Theorem polygon_there_and_back (rings0 : list (role * list pt)) (s : shape) :
  mk_polygon XY rings0 = Ok s ->
  Forall (fun r => is_part_closed XY (snd r) = true /\ ring_role (snd r) = fst r) (rings_of s) ->
  Forall (fun r => Forall clean2 (snd r)) (rings_of s) ->
  match rings_of s with (Inner, _) :: _ => False | _ => True end ->
  exists gs, to_geo s = Some (GMultiPolygon gs) /\ from_geo (GMultiPolygon gs) = Ok s.
Proof.
  intros Hmk Hfix Hclean Hfirst.
  assert (Hclosed : Forall (fun r => geo_close (map xy (snd r)) = map xy (snd r)) (rings_of s)).
  { apply Forall_forall. intros r Hr. rewrite Forall_forall in Hfix. apply closed_geo, (Hfix r Hr). }
  assert (Hne : Forall (fun r => fst r = Outer -> snd r <> []) (rings_of s)).
  { apply Forall_forall. intros r Hr _ He. rewrite Forall_forall in Hfix. destruct (Hfix r Hr) as [Hc _]. rewrite He in Hc. discriminate. }
  pose proof (mk_polygon_idempotent XY rings0 s Hmk Hfix) as Hidem.
  assert (Hs : exists b, s = SPolygon XY b (rings_of s)).
  { unfold mk_polygon in Hmk. destruct (map (close_and_reorder XY) rings0) as [|r0 rest]; [discriminate|].
    destruct (box_from_points XY (snd r0)); cbn [rbind] in Hmk; try discriminate. injection Hmk as <-. eexists. reflexivity. }
  destruct Hs as [b Hs]. set (rings := rings_of s) in *.
  set (flat := map (fun r => (role_is_outer (fst r), map xy (snd r))) rings).
  exists (group_rings flat None []). split; [rewrite Hs; reflexivity|].
  assert (Hflat : flat_polys (group_rings flat None []) = flat).
  { apply (polygon_to_geo_grouping XY b rings); [reflexivity|exact Hclosed|exact Hfirst]. }
  assert (Hback : rings_of_flat flat = rings).
  { unfold rings_of_flat, flat. rewrite map_map. cbn [fst snd].
    clear -Hclean. induction Hclean as [|r l Hr _ IH]; [reflexivity|]. cbn [map]. rewrite IH, role_of_bool_outer, (map_pt_of_xy _ Hr).
    destruct r; reflexivity. }
  cbn [from_geo]. rewrite all_rings_fixed.
  - rewrite Hflat, Hback. cbn [rbind]. exact Hidem.
  - apply group_rings_ext.
    + unfold flat. apply Forall_forall. intros x Hx. apply in_map_iff in Hx. destruct Hx as (r & <- & Hr). cbn [fst snd].
      rewrite Forall_forall in Hne. intros Ho. specialize (Hne r Hr). destruct (fst r); [|discriminate].
      intros Hm. apply Hne; [reflexivity|]. destruct (snd r); [reflexivity|discriminate].
    + unfold flat. apply Forall_forall. intros x Hx. apply in_map_iff in Hx. destruct Hx as (r & <- & Hr).
      unfold ring_closed. cbn [snd]. rewrite Forall_forall in Hclosed. apply Hclosed, Hr.
    + right. unfold flat. destruct rings as [|[[|] pts] r]; cbn [map role_is_outer fst]; auto.
    + constructor.
    + intros p Hp. discriminate.
  - rewrite Hflat, Hback. apply Forall_forall. intros r Hr. rewrite Forall_forall in Hfix. destruct (Hfix r Hr) as [Hc Ho].
    unfold fixed. apply close_and_reorder_fixpoint; assumption.
Qed.

(** ** geometry -> polygon -> geometry: the same coordinates in the same
    grouping, every ring kept or reversed as a whole *)
Definition ring_sim {A} (a b : list A) : Prop := b = a \/ b = rev a.

Definition gclosed (l : list Geo.coord) : Prop := l <> [] /\ geo_close l = l.

Lemma gclosed_eq l : gclosed l -> exists c0 r, l = c0 :: r /\ coord_eq c0 (last l c0) = true.
Proof.
  intros [Hne Hc]. destruct l as [|c0 r]; [contradiction|]. exists c0, r. split; [reflexivity|].
  unfold geo_close in Hc. destruct (coord_eq c0 (last (c0 :: r) c0)); [reflexivity|].
  exfalso. apply (f_equal (@length _)) in Hc. rewrite app_length in Hc. cbn in Hc. lia.
Qed.

Lemma gclosed_part l : gclosed l -> is_part_closed XY (map (pt_of XY) l) = true.
Proof.
  intros H. destruct (gclosed_eq l H) as (c0 & r & -> & Hc). unfold is_part_closed. cbn [map].
  change (pt_of XY c0 :: map (pt_of XY) r) with (map (pt_of XY) (c0 :: r)). rewrite (last_map (pt_of XY) (c0 :: r) c0).
  unfold pt_eq, pt_of. cbn [px py]. exact Hc.
Qed.

(** One normalisation of a closed ring keeps it or reverses it, and it stays closed. *)
Lemma car_closed r ps : is_part_closed XY ps = true ->
  exists q, close_and_reorder XY (r, ps) = (r, q) /\ ring_sim ps q /\ is_part_closed XY q = true.
Proof.
  intros Hc. unfold close_and_reorder, close_points, reorder. cbn [fst snd]. rewrite Hc.
  destruct (role_eqb r (ring_role ps)).
  - exists ps. split; [reflexivity|split; [left; reflexivity|exact Hc]].
  - exists (rev ps). split; [reflexivity|split; [right; reflexivity|apply rev_keeps_closed, Hc]].
Qed.

Lemma ring_sim_trans {A} (a b c : list A) : ring_sim a b -> ring_sim b c -> ring_sim a c.
Proof. intros [->| ->] [->| ->]; [left|right|right|left]; try reflexivity. apply rev_involutive. Qed.

Lemma ring_sim_map {A B} (f : A -> B) a b : ring_sim a b -> ring_sim (map f a) (map f b).
Proof. intros [->| ->]; [left; reflexivity|right; apply map_rev]. Qed.

(** The rings of one geo polygon after the two normalisations the conversion applies. *)
Definition sim_ring (a b : role * list pt) : Prop := fst a = fst b /\ ring_sim (snd a) (snd b) /\ is_part_closed XY (snd b) = true.

Lemma car_twice r ps : is_part_closed XY ps = true ->
  sim_ring (r, ps) (close_and_reorder XY (close_and_reorder XY (r, ps))).
Proof.
  intros Hc. destruct (car_closed r ps Hc) as (q & E1 & S1 & C1). rewrite E1.
  destruct (car_closed r q C1) as (q2 & E2 & S2 & C2). rewrite E2.
  split; [reflexivity|split; [exact (ring_sim_trans _ _ _ S1 S2)|exact C2]].
Qed.

Definition good_gpoly (p : gpoly) : Prop := gclosed (gp_ext p) /\ Forall gclosed (gp_ints p).

Lemma rings_of_gpoly_closed p : good_gpoly p -> Forall (fun r => is_part_closed XY (snd r) = true) (rings_of_gpoly p).
Proof.
  intros [He Hi]. unfold rings_of_gpoly. constructor; [cbn [snd]; apply gclosed_part, He|].
  apply Forall_forall. intros x Hx. apply in_map_iff in Hx. destruct Hx as (i & <- & Hin). cbn [snd].
  rewrite Forall_forall in Hi. apply gclosed_part, Hi, Hin.
Qed.

Lemma polygon_rings_from_ok p : good_gpoly p ->
  polygon_rings_from p = Ok (map (close_and_reorder XY) (rings_of_gpoly p)).
Proof.
  intros Hg. unfold polygon_rings_from, mk_polygon.
  destruct (rings_of_gpoly p) as [|r0 rest] eqn:E; [discriminate E|]. cbn [map].
  assert (Hne : snd (close_and_reorder XY r0) <> []).
  { pose proof (rings_of_gpoly_closed p Hg) as Hc. rewrite E in Hc. inversion Hc as [|? ? Hc0 _]; subst.
    destruct r0 as [r ps]. destruct (car_closed r ps Hc0) as (q & -> & _ & Cq). cbn [snd]. intros ->. discriminate. }
  destruct (snd (close_and_reorder XY r0)) as [|p0 ps0] eqn:E0; [contradiction|]. cbn [box_from_points rbind]. reflexivity.
Qed.

Lemma all_rings_ok ps : Forall good_gpoly ps ->
  all_rings ps = Ok (flat_map (fun p => map (close_and_reorder XY) (rings_of_gpoly p)) ps).
Proof.
  induction 1 as [|p r Hp _ IH]; [reflexivity|]. cbn [all_rings flat_map]. rewrite (polygon_rings_from_ok p Hp), IH. reflexivity.
Qed.

Lemma flat_map_map_comm {A B C} (f : B -> C) (g : A -> list B) (l : list A) :
  flat_map (fun x => map f (g x)) l = map f (flat_map g l).
Proof. induction l as [|a l IH]; [reflexivity|]. cbn [flat_map]. rewrite map_app, IH. reflexivity. Qed.

(** What becomes of one ring of the geometry: shapefile ring, two normalisations, back to coordinates. *)
Definition ring_trip (a : bool * list Geo.coord) : bool * list Geo.coord :=
  let r := close_and_reorder XY (close_and_reorder XY (role_of_bool (fst a), map (pt_of XY) (snd a))) in
  (role_is_outer (fst r), map xy (snd r)).

Lemma ring_trip_spec a : gclosed (snd a) ->
  fst (ring_trip a) = fst a /\ ring_sim (snd a) (snd (ring_trip a)) /\ ring_closed (ring_trip a).
Proof.
  intros Hg. destruct a as [o l]. cbn [fst snd] in *. unfold ring_trip. cbn [fst snd].
  destruct (car_twice (role_of_bool o) (map (pt_of XY) l) (gclosed_part l Hg)) as (Hf & Hs & Hc). cbn [fst snd] in *.
  split; [rewrite <- Hf; destruct o; reflexivity|]. split.
  - pose proof (ring_sim_map xy _ _ Hs) as H. rewrite map_xy_pt_of in H. exact H.
  - unfold ring_closed. cbn [snd]. apply closed_geo, Hc.
Qed.

Lemma good_flat ps : Forall good_gpoly ps -> Forall (fun a => gclosed (snd a)) (flat_polys ps).
Proof.
  induction 1 as [|p r [He Hi] _ IH]; [constructor|]. unfold flat_polys. cbn [flat_map]. apply Forall_app. split; [|exact IH].
  unfold flat_poly. constructor; [exact He|]. apply Forall_forall. intros x Hx. apply in_map_iff in Hx.
  destruct Hx as (i & <- & Hin). cbn [snd]. rewrite Forall_forall in Hi. apply Hi, Hin.
Qed.

Theorem multipolygon_there_and_back (ps : list gpoly) (s : shape) :
  Forall good_gpoly ps -> from_geo (GMultiPolygon ps) = Ok s ->
  exists ps', to_geo s = Some (GMultiPolygon ps') /\
    flat_polys ps' = map ring_trip (flat_polys ps) /\
    Forall (fun a => fst (ring_trip a) = fst a /\ ring_sim (snd a) (snd (ring_trip a))) (flat_polys ps).
Proof.
  intros Hg Hfrom. cbn [from_geo] in Hfrom. rewrite (all_rings_ok ps Hg) in Hfrom. cbn [rbind] in Hfrom.
  set (R1 := flat_map (fun p => map (close_and_reorder XY) (rings_of_gpoly p)) ps) in *.
  pose proof (mk_polygon_rings XY R1 s Hfrom) as Hr.
  assert (Hs : exists b, s = SPolygon XY b (rings_of s)).
  { unfold mk_polygon in Hfrom. destruct (map (close_and_reorder XY) R1) as [|r0 rest]; [discriminate|].
    destruct (box_from_points XY (snd r0)); cbn [rbind] in Hfrom; try discriminate. injection Hfrom as <-. eexists. reflexivity. }
  destruct Hs as [b Hs].
  assert (HF : map (fun r => (role_is_outer (fst r), map xy (snd r))) (rings_of s) = map ring_trip (flat_polys ps)).
  { rewrite Hr. unfold R1. rewrite flat_map_map_comm.
    replace (flat_map rings_of_gpoly ps) with (rings_of_flat (flat_polys ps)).
    2:{ unfold rings_of_flat, flat_polys. rewrite <- flat_map_map_comm. apply flat_map_ext. intros p. symmetry. apply rings_of_gpoly_flat. }
    unfold rings_of_flat. rewrite !map_map. reflexivity. }
  pose proof (good_flat ps Hg) as Hgf.
  exists (group_rings (map (fun r => (role_is_outer (fst r), map xy (snd r))) (rings_of s)) None []).
  split; [rewrite Hs at 1; reflexivity|]. split.
  - rewrite HF. rewrite group_rings_flat; [reflexivity| |].
    + apply Forall_forall. intros x Hx. apply in_map_iff in Hx. destruct Hx as (a & <- & Ha).
      rewrite Forall_forall in Hgf. apply (ring_trip_spec a (Hgf a Ha)).
    + right. destruct ps as [|p r]; [exact I|]. unfold flat_polys. cbn [flat_map flat_poly app map].
      inversion Hg as [|? ? [He _] _]; subst.
      destruct (ring_trip_spec (true, gp_ext p) He) as (Hf & _ & _). cbn [fst] in Hf.
      destruct (ring_trip (true, gp_ext p)) as [o l]. cbn [fst] in Hf. subst o. exact I.
  - apply Forall_forall. intros a Ha. rewrite Forall_forall in Hgf. destruct (ring_trip_spec a (Hgf a Ha)) as (H1 & H2 & _). split; assumption.
Qed.

(** A single geo polygon: one normalisation. *)
Definition ring_trip1 (a : bool * list Geo.coord) : bool * list Geo.coord :=
  let r := close_and_reorder XY (role_of_bool (fst a), map (pt_of XY) (snd a)) in
  (role_is_outer (fst r), map xy (snd r)).

Lemma ring_trip1_spec a : gclosed (snd a) ->
  fst (ring_trip1 a) = fst a /\ ring_sim (snd a) (snd (ring_trip1 a)) /\ ring_closed (ring_trip1 a).
Proof.
  intros Hg. destruct a as [o l]. cbn [fst snd] in *. unfold ring_trip1. cbn [fst snd].
  destruct (car_closed (role_of_bool o) (map (pt_of XY) l) (gclosed_part l Hg)) as (q & E & Hs & Hc). rewrite E. cbn [fst snd].
  split; [destruct o; reflexivity|]. split.
  - pose proof (ring_sim_map xy _ _ Hs) as H. rewrite map_xy_pt_of in H. exact H.
  - unfold ring_closed. cbn [snd]. apply closed_geo, Hc.
Qed.

Theorem polygon_from_geo_there_and_back (p : gpoly) (s : shape) :
  good_gpoly p -> from_geo (GPolygon p) = Ok s ->
  exists ps', to_geo s = Some (GMultiPolygon ps') /\
    flat_polys ps' = map ring_trip1 (flat_poly p) /\
    Forall (fun a => fst (ring_trip1 a) = fst a /\ ring_sim (snd a) (snd (ring_trip1 a))) (flat_poly p).
Proof.
  intros Hg Hfrom. cbn [from_geo] in Hfrom.
  pose proof (mk_polygon_rings XY _ s Hfrom) as Hr.
  assert (Hs : exists b, s = SPolygon XY b (rings_of s)).
  { unfold mk_polygon in Hfrom. destruct (map (close_and_reorder XY) (rings_of_gpoly p)) as [|r0 rest]; [discriminate|].
    destruct (box_from_points XY (snd r0)); cbn [rbind] in Hfrom; try discriminate. injection Hfrom as <-. eexists. reflexivity. }
  destruct Hs as [b Hs].
  assert (HF : map (fun r => (role_is_outer (fst r), map xy (snd r))) (rings_of s) = map ring_trip1 (flat_poly p)).
  { rewrite Hr, rings_of_gpoly_flat. unfold rings_of_flat. rewrite !map_map. reflexivity. }
  assert (Hgf : Forall (fun a => gclosed (snd a)) (flat_poly p)).
  { pose proof (good_flat [p] (Forall_cons _ Hg (Forall_nil _))) as H. unfold flat_polys in H. cbn [flat_map] in H. rewrite app_nil_r in H. exact H. }
  exists (group_rings (map (fun r => (role_is_outer (fst r), map xy (snd r))) (rings_of s)) None []).
  split; [rewrite Hs at 1; reflexivity|]. split.
  - rewrite HF. rewrite group_rings_flat; [reflexivity| |].
    + apply Forall_forall. intros x Hx. apply in_map_iff in Hx. destruct Hx as (a & <- & Ha).
      rewrite Forall_forall in Hgf. apply (ring_trip1_spec a (Hgf a Ha)).
    + right. unfold flat_poly. cbn [map]. destruct Hg as [He _].
      destruct (ring_trip1_spec (true, gp_ext p) He) as (Hf & _ & _). cbn [fst] in Hf.
      destruct (ring_trip1 (true, gp_ext p)) as [o l]. cbn [fst] in Hf. subst o. exact I.
  - apply Forall_forall. intros a Ha. rewrite Forall_forall in Hgf. destruct (ring_trip1_spec a (Hgf a Ha)) as (H1 & H2 & _). split; assumption.
Qed.
