(** C05, per-shape half: every public constructor of a multi-vertex shape
    computes a box whose minima and maxima are exactly the extreme values of
    the vertices of the constructed shape, in every dimension the point type
    carries — provided no coordinate is NaN. *)
From SF Require Import Model.Bytes Model.F64 Model.ShapeType Model.Shapes Model.Res Model.F64Arith Model.Construct.
From SF Require Import Proofs.F64Order.
Open Scope Z_scope.

Inductive coord := CX | CY | CZ | CM.
Definition get (c : coord) (p : pt) : f64 := match c with CX => px p | CY => py p | CZ => pz p | CM => pm p end.
Definition dim_has (d : dim) (c : coord) : bool :=
  match c with CX | CY => true | CZ => has_z_dim d | CM => has_m_dim d end.

Definition pts_nn (d : dim) (ps : list pt) : Prop :=
  Forall (fun p => forall c, dim_has d c = true -> nn (get c p)) ps.

(** [b] is the exact box of the vertices [vs]: in every carried dimension the
    minimum is (bit for bit) the value of some vertex and is <= every vertex's
    value, the maximum dually. *)
Definition box_exact (d : dim) (b : bbox) (vs : list pt) : Prop :=
  forall c, dim_has d c = true ->
    In (get c (bmin b)) (map (get c) vs) /\ Forall (fun v => f64_le (get c (bmin b)) (get c v) = true) vs /\
    In (get c (bmax b)) (map (get c) vs) /\ Forall (fun v => f64_le (get c v) (get c (bmax b)) = true) vs.

Lemma get_shrink d c a o : dim_has d c = true -> get c (shrink d a o) = f64_min (get c a) (get c o).
Proof. destruct d, c; cbn; intros H; try discriminate; reflexivity. Qed.
Lemma get_grow d c a o : dim_has d c = true -> get c (grow d a o) = f64_max (get c a) (get c o).
Proof. destruct d, c; cbn; intros H; try discriminate; reflexivity. Qed.

Lemma box_grow_points_coord d c : dim_has d c = true -> forall ps b,
  get c (bmin (box_grow_points d b ps)) = fold_left f64_min (map (get c) ps) (get c (bmin b)) /\
  get c (bmax (box_grow_points d b ps)) = fold_left f64_max (map (get c) ps) (get c (bmax b)).
Proof.
  intros Hc. unfold box_grow_points. induction ps as [|p r IH]; intros b; cbn [fold_left map]; [split; reflexivity|].
  destruct (IH (mkbox (shrink d (bmin b) p) (grow d (bmax b) p))) as [H1 H2].
  rewrite H1, H2. cbn [bmin bmax]. rewrite get_shrink, get_grow by exact Hc. split; reflexivity.
Qed.

Lemma box_grow_points_app d b a r : box_grow_points d b (a ++ r) = box_grow_points d (box_grow_points d b a) r.
Proof. unfold box_grow_points. apply fold_left_app. Qed.

Lemma Forall_map_iff {A B} (P : B -> Prop) (f : A -> B) l : Forall P (map f l) <-> Forall (fun x => P (f x)) l.
Proof. induction l; cbn; split; intros H; inversion H; subst; constructor; auto; apply IHl; auto. Qed.

(** The box grown from a first vertex over the others is exact. *)
Lemma box_grow_exact d q0 rest : pts_nn d (q0 :: rest) ->
  box_exact d (box_grow_points d (mkbox q0 q0) rest) (q0 :: rest).
Proof.
  intros Hnn c Hc. destruct (box_grow_points_coord d c Hc rest (mkbox q0 q0)) as [E1 E2]. cbn [bmin bmax] in *.
  assert (N0 : nn (get c q0)) by (inversion Hnn; auto).
  assert (Nr : Forall nn (map (get c) rest)).
  { inversion Hnn as [|? ? _ Hr]; subst. apply Forall_map_iff. eapply Forall_impl; [|exact Hr]. cbv beta. auto. }
  destruct (fold_min_like f64_min min_like_min (map (get c) rest) (get c q0) N0 Nr) as (I1 & _ & A1).
  destruct (fold_max_like f64_max max_like_max (map (get c) rest) (get c q0) N0 Nr) as (I2 & _ & A2).
  cbv zeta in *. rewrite E1, E2. change (get c q0 :: map (get c) rest) with (map (get c) (q0 :: rest)) in *.
  split; [exact I1|]. split; [apply Forall_map_iff in A1; exact A1|]. split; [exact I2|].
  rewrite Forall_forall in *. intros v Hv. apply A2. apply in_map. exact Hv.
Qed.

Lemma box_from_points_exact d ps b : box_from_points d ps = Ok b -> pts_nn d ps -> box_exact d b ps.
Proof.
  destruct ps as [|q0 rest]; cbn [box_from_points]; [discriminate|]. intros E Hnn. injection E as <-.
  apply box_grow_exact, Hnn.
Qed.

Lemma fold_grow_concat d : forall parts b, fold_left (box_grow_points d) parts b = box_grow_points d b (concat parts).
Proof.
  induction parts as [|p r IH]; intros b; cbn [fold_left concat]; [reflexivity|].
  rewrite IH, box_grow_points_app. reflexivity.
Qed.

Lemma fold_grow_concat_snd {A} d : forall (parts : list (A * list pt)) b,
  fold_left (fun b r => box_grow_points d b (snd r)) parts b = box_grow_points d b (concat (map snd parts)).
Proof.
  induction parts as [|p r IH]; intros b; cbn [fold_left concat map]; [reflexivity|].
  rewrite IH, box_grow_points_app. reflexivity.
Qed.

(** First part non-empty, then everything else: exact over the concatenation. *)
Lemma box_first_then_rest d p0 others b :
  rbind (box_from_points d p0) (fun b0 => Ok (box_grow_points d b0 others)) = Ok b ->
  pts_nn d (p0 ++ others) -> box_exact d b (p0 ++ others).
Proof.
  destruct p0 as [|q0 r0]; cbn [box_from_points rbind]; [discriminate|]. intros E Hnn. injection E as <-.
  rewrite <- box_grow_points_app. cbn [app]. apply box_grow_exact, Hnn.
Qed.

Lemma box_from_parts_exact d parts b : box_from_parts d parts = Ok b -> pts_nn d (concat parts) -> box_exact d b (concat parts).
Proof.
  destruct parts as [|p0 r]; cbn [box_from_parts]; [discriminate|]. intros E Hnn. cbn [concat].
  apply box_first_then_rest; [|exact Hnn]. rewrite <- E. destruct (box_from_points d p0); cbn [rbind]; try reflexivity.
  rewrite fold_grow_concat. reflexivity.
Qed.

(** ** The constructors *)
Definition shape_vertices (s : shape) : list pt := concat (shape_parts s).
Definition shape_nn (s : shape) : Prop := pts_nn (shape_dim s) (shape_vertices s).

Definition shape_box_exact (s : shape) : Prop :=
  match s with
  | SMultipoint d b _ | SPolyline d b _ | SPolygon d b _ => box_exact d b (shape_vertices s)
  | SMultipatch b _ => box_exact XYZM b (shape_vertices s)
  | _ => True
  end.

Theorem mk_multipoint_box d ps s : mk_multipoint d ps = Ok s -> shape_nn s -> shape_box_exact s.
Proof.
  unfold mk_multipoint. destruct (box_from_points d ps) as [b| |] eqn:E; cbn [rbind]; try discriminate.
  intros H; injection H as <-. unfold shape_nn, shape_box_exact, shape_vertices. cbn [shape_parts shape_dim concat].
  rewrite app_nil_r. apply box_from_points_exact, E.
Qed.

Theorem mk_polyline_new_box d ps s : mk_polyline_new d ps = Ok s -> shape_nn s -> shape_box_exact s.
Proof.
  unfold mk_polyline_new. destruct (length ps <? 2)%nat; [discriminate|].
  destruct (box_from_points d ps) as [b| |] eqn:E; cbn [rbind]; try discriminate.
  intros H; injection H as <-. unfold shape_nn, shape_box_exact, shape_vertices. cbn [shape_parts shape_dim concat].
  rewrite app_nil_r. apply box_from_points_exact, E.
Qed.

Theorem mk_polyline_box d parts s : mk_polyline d parts = Ok s -> shape_nn s -> shape_box_exact s.
Proof.
  unfold mk_polyline. destruct (forallb _ parts); [|discriminate].
  destruct (box_from_parts d parts) as [b| |] eqn:E; cbn [rbind]; try discriminate.
  intros H; injection H as <-. unfold shape_nn, shape_box_exact, shape_vertices. cbn [shape_parts shape_dim].
  apply box_from_parts_exact, E.
Qed.

Theorem mk_polygon_box d rings s : mk_polygon d rings = Ok s -> shape_nn s -> shape_box_exact s.
Proof.
  unfold mk_polygon. destruct (map (close_and_reorder d) rings) as [|r0 rest] eqn:Er; [discriminate|].
  intros H Hnn.
  assert (exists b, s = SPolygon d b (r0 :: rest) /\
                    rbind (box_from_points d (snd r0)) (fun b0 => Ok (box_grow_points d b0 (concat (map snd rest)))) = Ok b)
    as (b & -> & Hb).
  { destruct (box_from_points d (snd r0)) as [b0| |]; cbn [rbind] in *; try discriminate.
    injection H as <-. eexists; split; [reflexivity|]. rewrite fold_grow_concat_snd. reflexivity. }
  unfold shape_nn, shape_box_exact, shape_vertices in *. cbn [shape_parts shape_dim map concat] in *.
  apply box_first_then_rest; assumption.
Qed.

Theorem mk_polygon_new_box d ring s : mk_polygon_new d ring = Ok s -> shape_nn s -> shape_box_exact s.
Proof. unfold mk_polygon_new. apply mk_polygon_box. Qed.

Theorem mk_multipatch_box patches s : mk_multipatch patches = Ok s -> shape_nn s -> shape_box_exact s.
Proof.
  unfold mk_multipatch. destruct (map close_patch patches) as [|r0 rest] eqn:Er; [discriminate|].
  intros H Hnn.
  assert (exists b, s = SMultipatch b (r0 :: rest) /\
                    rbind (box_from_points XYZM (snd r0)) (fun b0 => Ok (box_grow_points XYZM b0 (concat (map snd rest)))) = Ok b)
    as (b & -> & Hb).
  { destruct (box_from_points XYZM (snd r0)) as [b0| |]; cbn [rbind] in *; try discriminate.
    injection H as <-. eexists; split; [reflexivity|]. rewrite fold_grow_concat_snd. reflexivity. }
  unfold shape_nn, shape_box_exact, shape_vertices in *. cbn [shape_parts shape_dim map concat] in *.
  apply box_first_then_rest; assumption.
Qed.

(** An exact box of a non-empty vertex list has min <= max. *)
Lemma box_exact_ordered d b vs c : box_exact d b vs -> dim_has d c = true -> vs <> [] ->
  f64_le (get c (bmin b)) (get c (bmax b)) = true.
Proof.
  intros H Hc Hne. destruct (H c Hc) as (_ & A1 & _ & A2). destruct vs as [|v r]; [contradiction|].
  inversion A1; inversion A2; subst. eapply f64_le_trans; eassumption.
Qed.
