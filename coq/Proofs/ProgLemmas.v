(** Laws of reading programs and of their interpreter, proved once for all
    programs by induction on the tree. *)
From SF Require Import Model.Bytes Model.ShapeType Model.Res Model.Prog.
From SF Require Import Proofs.BytesLemmas.
Open Scope Z_scope.

Lemma s_rest_skipn s : s_rest s = skipn (Z.to_nat (s_pos s)) (s_data s).
Proof.
  unfold s_rest. destruct (Z.leb_spec (zlen (s_data s)) (s_pos s)) as [H|H]; [|reflexivity].
  symmetry. apply skipn_all2. unfold zlen in H. lia.
Qed.

(** ** Interpreter and bind *)
Lemma run_bind {A B} (p : prog A) (f : A -> prog B) s :
  run (bind p f) s =
  match run p s with
  | (Ok a, s') => run (f a) s'
  | (Err e, s') => (Err e, s')
  | (Panic, s') => (Panic, s')
  end.
Proof.
  revert s; induction p as [a|e| |n k IH|q k IH|k IH|n k IH]; intros s; cbn [bind run]; try reflexivity.
  - destruct (do_take n s) as [r s']; apply IH.
  - destruct (do_seek_start q s) as [r s']; apply IH.
  - destruct (do_seek_end s) as [r s']; apply IH.
  - apply IH.
Qed.

Definition prog_eq {A} (p q : prog A) : Prop := forall s, run p s = run q s.

Lemma prog_eq_refl {A} (p : prog A) : prog_eq p p.
Proof. intros s; reflexivity. Qed.

Lemma prog_eq_trans {A} (p q r : prog A) : prog_eq p q -> prog_eq q r -> prog_eq p r.
Proof. intros H1 H2 s; rewrite H1; apply H2. Qed.

(** ** Repetition: the binary recursion is the unary one. *)
Ltac run_step :=
  rewrite ?run_bind; cbn [run];
  match goal with
  | |- context [match run ?p ?s with _ => _ end] => destruct (run p s) as [[?|?|] ?]
  end; try reflexivity.

Lemma rep_nat_add {A} (a b : nat) (p : prog A) :
  prog_eq (rep_nat (a + b) p) (x <-- rep_nat a p ;; y <-- rep_nat b p ;; Ret (x ++ y)).
Proof.
  induction a as [|a IH]; intros s; cbn [rep_nat Nat.add].
  - cbn [bind]. run_step.
  - rewrite !run_bind. destruct (run p s) as [[x|e|] s1]; try reflexivity.
    rewrite !run_bind, IH. repeat run_step.
Qed.

Lemma rep_pos_nat {A} (n : positive) (p : prog A) : prog_eq (rep_pos n p) (rep_nat (Pos.to_nat n) p).
Proof.
  induction n as [m IH|m IH|]; intros s; cbn [rep_pos].
  - rewrite Pos2Nat.inj_xI. cbn [rep_nat]. rewrite !run_bind.
    destruct (run p s) as [[x|e|] s1]; try reflexivity.
    replace (2 * Pos.to_nat m)%nat with (Pos.to_nat m + Pos.to_nat m)%nat by lia.
    rewrite !run_bind, rep_nat_add, !run_bind, IH.
    destruct (run (rep_nat (Pos.to_nat m) p) s1) as [[l1|e|] s2]; try reflexivity.
    rewrite !run_bind, IH. repeat run_step.
  - rewrite Pos2Nat.inj_xO.
    replace (2 * Pos.to_nat m)%nat with (Pos.to_nat m + Pos.to_nat m)%nat by lia.
    rewrite rep_nat_add, !run_bind, IH.
    destruct (run (rep_nat (Pos.to_nat m) p) s) as [[l1|e|] s2]; try reflexivity.
    rewrite !run_bind, IH. reflexivity.
  - change (Pos.to_nat 1) with 1%nat. cbn [rep_nat]. rewrite !run_bind.
    destruct (run p s) as [[x|e|] s1]; try reflexivity.
Qed.

Lemma rep_Z_nat {A} (n : nat) (p : prog A) : prog_eq (rep_Z (Z.of_nat n) p) (rep_nat n p).
Proof.
  destruct n as [|n]; [intros s; reflexivity|].
  cbn [Z.of_nat rep_Z]. intros s. rewrite rep_pos_nat, SuccNat2Pos.id_succ. reflexivity.
Qed.

(** ** Clean sources and successful reads *)
Definition clean (s : src) : Prop := s_fault s = None /\ 0 <= s_pos s.

(** [reads p bs a]: on a fault-free source whose next bytes are [bs] (whatever
    follows), [p] returns [a] and has consumed exactly [bs]. *)
Definition reads {A} (p : prog A) (bs : bytes) (a : A) : Prop :=
  forall s r, clean s -> s_rest s = bs ++ r ->
    exists s', run p s = (Ok a, s') /\ clean s' /\ s_data s' = s_data s /\ s_pos s' = s_pos s + zlen bs.

Lemma rest_after s s' bs r :
  0 <= s_pos s -> s_data s' = s_data s -> s_pos s' = s_pos s + zlen bs -> s_rest s = bs ++ r -> s_rest s' = r.
Proof.
  rewrite !s_rest_skipn. unfold zlen. intros Hp Hd Hs Hr. rewrite Hd, Hs.
  rewrite Z2Nat.inj_add by lia. rewrite Nat2Z.id, <- skipn_skipn_, Hr.
  rewrite skipn_app, skipn_all, Nat.sub_diag. reflexivity.
Qed.

Lemma reads_prog_eq {A} (p q : prog A) bs a : prog_eq p q -> reads q bs a -> reads p bs a.
Proof. intros He Hq s r Hc Hr. rewrite He. exact (Hq s r Hc Hr). Qed.

Lemma reads_ret {A} (a : A) : reads (Ret a) [] a.
Proof.
  intros s r Hc Hr. exists s. cbn [run]. repeat split; try apply Hc. change (zlen (@nil Z)) with 0. lia.
Qed.

Lemma reads_bind {A B} (p : prog A) (f : A -> prog B) bs1 bs2 a b :
  reads p bs1 a -> reads (f a) bs2 b -> reads (bind p f) (bs1 ++ bs2) b.
Proof.
  intros Hp Hf s r Hc Hr. rewrite <- app_assoc in Hr.
  destruct (Hp s (bs2 ++ r) Hc Hr) as (s1 & Hrun & Hc1 & Hd1 & Hp1).
  assert (Hr1 : s_rest s1 = bs2 ++ r) by (eapply rest_after; eauto; apply Hc).
  destruct (Hf s1 r Hc1 Hr1) as (s2 & Hrun2 & Hc2 & Hd2 & Hp2).
  exists s2. rewrite run_bind, Hrun. repeat split; try apply Hc2; try congruence.
  rewrite Hp2, Hp1, zlen_app. lia.
Qed.

Lemma reads_bind_nil {A B} (p : prog A) (f : A -> prog B) bs a b :
  reads p [] a -> reads (f a) bs b -> reads (bind p f) bs b.
Proof. intros Hp Hf. change bs with ([] ++ bs). eapply reads_bind; eauto. Qed.

Lemma reads_take (bs : bytes) : reads (take (length bs)) bs bs.
Proof.
  intros s r [Hf Hp] Hr. unfold take. cbn [run]. unfold do_take, faulty_now. rewrite Hf, Hr.
  rewrite app_length. replace (length bs <=? length bs + length r)%nat with true
    by (symmetry; apply Nat.leb_le; lia).
  rewrite firstn_app, firstn_all, Nat.sub_diag, app_nil_r. cbn [lift_res run firstn].
  eexists; split; [reflexivity|]. unfold clean, bump, set_pos; cbn. repeat split; auto; unfold zlen; lia.
Qed.

Lemma reads_take_n (n : nat) (bs : bytes) : length bs = n -> reads (take n) bs bs.
Proof. intros <-; apply reads_take. Qed.

Lemma reads_reserve (n : Z) : reads (reserve n) [] tt.
Proof.
  intros s r Hc Hr. unfold reserve. cbn [run]. eexists; split; [reflexivity|].
  unfold clean, do_reserve in *; cbn. repeat split; try apply Hc. change (zlen (@nil Z)) with 0; lia.
Qed.

Lemma reads_rep_nat {A} (p : prog A) (enc : A -> bytes) (l : list A) :
  (forall x, In x l -> reads p (enc x) x) -> reads (rep_nat (length l) p) (flat_map enc l) l.
Proof.
  induction l as [|x l IH]; intros H; cbn [length rep_nat flat_map].
  - apply reads_ret.
  - eapply reads_bind; [apply H; left; reflexivity|].
    rewrite <- (app_nil_r (flat_map enc l)).
    eapply reads_bind; [apply IH; intros y Hy; apply H; right; exact Hy|]. apply reads_ret.
Qed.

Lemma reads_rep_Z {A} (p : prog A) (enc : A -> bytes) (l : list A) :
  (forall x, In x l -> reads p (enc x) x) -> reads (rep_Z (zlen l) p) (flat_map enc l) l.
Proof.
  intros H. eapply reads_prog_eq; [apply rep_Z_nat|]. apply reads_rep_nat; exact H.
Qed.

Lemma reads_for_each {A B} (f : A -> prog B) (enc : A -> bytes) (g : A -> B) (xs : list A) :
  (forall x, In x xs -> reads (f x) (enc x) (g x)) ->
  reads (for_each xs f) (flat_map enc xs) (map g xs).
Proof.
  induction xs as [|x xs IH]; intros H; cbn [for_each flat_map map].
  - apply reads_ret.
  - eapply reads_bind; [apply H; left; reflexivity|].
    rewrite <- (app_nil_r (flat_map enc xs)).
    eapply reads_bind; [apply IH; intros y Hy; apply H; right; exact Hy|]. apply reads_ret.
Qed.

(** ** Simple programs: no seek, errors of the source are propagated (`?`). *)
Inductive simple {A} : prog A -> Prop :=
| simple_ret a : simple (Ret a)
| simple_fail e : simple (Fail e)
| simple_panic : simple PanicP
| simple_take n k : (forall e, k (Err e) = Fail e) -> k Panic = PanicP ->
                    (forall bs, simple (k (Ok bs))) -> simple (Take n k)
| simple_reserve n k : simple k -> simple (Reserve n k).

Lemma simple_bind {A B} (p : prog A) (f : A -> prog B) :
  simple p -> (forall a, simple (f a)) -> simple (bind p f).
Proof.
  intros Hp Hf; induction Hp as [a|e| |n k He Hk Hs IH|n k Hs IH]; cbn [bind]; try constructor; auto.
  - intros e. rewrite He. reflexivity.
  - rewrite Hk. reflexivity.
Qed.

Lemma simple_take_ n : simple (take n).
Proof. unfold take; constructor; intros; cbn [lift_res]; try reflexivity; constructor. Qed.

Lemma simple_reserve_ n : simple (reserve n).
Proof. unfold reserve; repeat constructor. Qed.

Lemma simple_rep_pos {A} n (p : prog A) : simple p -> simple (rep_pos n p).
Proof.
  intros Hp; induction n; cbn [rep_pos]; repeat (apply simple_bind; [assumption|intros]); try constructor.
Qed.

Lemma simple_rep_Z {A} n (p : prog A) : simple p -> simple (rep_Z n p).
Proof. intros Hp; destruct n; cbn [rep_Z]; try constructor. apply simple_rep_pos; exact Hp. Qed.

Lemma simple_for_each {A B} (xs : list A) (f : A -> prog B) :
  (forall x, simple (f x)) -> simple (for_each xs f).
Proof.
  intros H; induction xs; cbn [for_each]; [constructor|].
  apply simple_bind; [apply H|intros]. apply simple_bind; [assumption|intros; constructor].
Qed.

(** A simple program never moves the position backwards. *)
Lemma simple_pos_mono {A} (p : prog A) : simple p ->
  forall s r s', s_fault s = None -> run p s = (r, s') -> s_pos s <= s_pos s' /\ s_fault s' = None.
Proof.
  induction 1 as [a0|e| |n k0 He Hk Hs IH|n k0 Hs IH]; intros s r s' Hf Hrun; cbn [run] in Hrun;
    try (inversion Hrun; subst; split; [lia|exact Hf]).
  - unfold do_take, faulty_now in Hrun. rewrite Hf in Hrun.
    destruct (n <=? length (s_rest s))%nat.
    + apply IH in Hrun; [|exact Hf]. unfold bump, set_pos in Hrun; cbn in Hrun. split; [lia|apply Hrun].
    + rewrite He in Hrun. cbn [run] in Hrun. inversion Hrun; subst. unfold bump, set_pos; cbn. split; [lia|exact Hf].
  - apply IH in Hrun; [|exact Hf]. exact Hrun.
Qed.

(** ** Truncation.  Cutting the stream anywhere inside what a simple program
    consumes makes it fail with UnexpectedEof; cutting it after changes
    nothing. *)
Definition truncate (k : Z) (s : src) : src :=
  mksrc (firstn (Z.to_nat k) (s_data s)) (s_pos s) (s_ops s) (s_fault s) (s_reserved s).

Lemma rest_truncate k s :
  0 <= s_pos s -> s_pos s <= k -> s_rest (truncate k s) = firstn (Z.to_nat (k - s_pos s)) (s_rest s).
Proof.
  intros H0 Hk. rewrite !s_rest_skipn. unfold truncate; cbn [s_data s_pos].
  rewrite skipn_firstn_comm. f_equal. lia.
Qed.

Theorem simple_truncation {A} (p : prog A) : simple p ->
  forall s a s', clean s -> run p s = (Ok a, s') ->
  forall k, s_pos s <= k ->
    (s_pos s' <= k -> run p (truncate k s) = (Ok a, truncate k s')) /\
    (k < s_pos s' -> exists s2, run p (truncate k s) = (Err EIoEof, s2)).
Proof.
  induction 1 as [a0|e| |n k0 He Hk Hs IH|n k0 Hs IH]; intros s a s' Hc Hrun k Hle; cbn [run] in *.
  - inversion Hrun; subst. split; [reflexivity|lia].
  - discriminate.
  - discriminate.
  - destruct Hc as [Hf Hp].
    unfold do_take in *. unfold faulty_now in *. cbn [truncate s_fault]. rewrite Hf in *.
    destruct (Nat.leb_spec n (length (s_rest s))) as [Hn|Hn].
    + (* the read succeeds on the full stream *)
      set (s1 := bump (set_pos s (s_pos s + Z.of_nat n))) in *.
      assert (Hc1 : clean s1) by (unfold clean, s1, bump, set_pos; cbn; split; [exact Hf|lia]).
      assert (Hmono : s_pos s1 <= s_pos s').
      { eapply (simple_pos_mono (k0 (Ok (firstn n (s_rest s))))); [apply Hs|apply Hc1|exact Hrun]. }
      assert (Hp1 : s_pos s1 = s_pos s + Z.of_nat n) by reflexivity.
      change (mksrc (firstn (Z.to_nat k) (s_data s)) (s_pos s) (s_ops s) (s_fault s) (s_reserved s))
        with (truncate k s).
      rewrite rest_truncate by lia.
      destruct (Nat.leb_spec n (length (firstn (Z.to_nat (k - s_pos s)) (s_rest s)))) as [Hn2|Hn2];
        rewrite firstn_length in Hn2.
      * (* ... and on the truncated one: same bytes *)
        rewrite firstn_firstn. replace (Nat.min n (Z.to_nat (k - s_pos s))) with n by lia.
        assert (Hk1 : s_pos s1 <= k) by lia.
        destruct (IH (firstn n (s_rest s)) s1 a s' Hc1 Hrun k Hk1) as [IH1 IH2].
        replace (bump (set_pos (truncate k s) (s_pos (truncate k s) + Z.of_nat n))) with (truncate k s1)
          by reflexivity.
        split; assumption.
      * (* the truncated stream is too short: EOF *)
        rewrite He. cbn [run]. split.
        -- intros Hs'. exfalso. lia.
        -- intros _. eexists; reflexivity.
    + rewrite He in Hrun. cbn [run] in Hrun. discriminate.
  - apply (IH (do_reserve n s) a s'); auto.
Qed.
