(** C07: on arbitrary bytes, with or without an index, under any injected
    source fault, every reader call returns (a value or an error value, never
    a panic: all the machine arithmetic of the reader stays in range), and every
    iteration ends after a number of items bounded by the input. *)
From SF Require Import Model.Bytes Model.F64 Model.ShapeType Model.Shapes Model.Res Model.Encode
  Model.F64Arith Model.Construct Model.Prog Model.Decode Model.Reader.
From SF Require Import Proofs.BytesLemmas Proofs.ProgLemmas Proofs.NoPanic Proofs.NoPanicProofs Proofs.SimpleProofs.
Open Scope Z_scope.

Ltac Zify.zify_post_hook ::= Z.div_mod_to_equations.
Ltac splits := repeat (match goal with |- _ /\ _ => split end).
Ltac easy_goals := splits; first [reflexivity | assumption | discriminate | congruence | idtac].

(** ** The interpreter never changes the data, the fault plan is fixed *)
Lemma run_data {A} (p : prog A) : forall s, s_data (snd (run p s)) = s_data s.
Proof.
  induction p as [a|e| |n k IH|q k IH|k IH|n k IH]; intros s; cbn [run]; try reflexivity.
  - unfold do_take. destruct (faulty_now s); [rewrite IH; reflexivity|].
    destruct (n <=? length (s_rest s))%nat; rewrite IH; reflexivity.
  - unfold do_seek_start. destruct (faulty_now s); rewrite IH; reflexivity.
  - unfold do_seek_end. destruct (faulty_now s); rewrite IH; reflexivity.
  - rewrite IH. reflexivity.
Qed.

Lemma run_data' {A} (p : prog A) s r s' : run p s = (r, s') -> s_data s' = s_data s.
Proof. intros H. pose proof (run_data p s) as D. rewrite H in D. exact D. Qed.

(** ** What a successful record read guarantees *)
Lemma read_one_shape_size req s hdr x s' :
  run (read_one_shape req) s = (Ok (hdr, x), s') -> 0 <= snd hdr * 2 < two31.
Proof.
  unfold read_one_shape. rewrite run_bind. destruct (run read_record_header s) as [[h|e|] s1]; try discriminate.
  destruct (Z.ltb_spec (snd h * 2) 0); cbn [orb]; [cbn; discriminate|].
  destruct (Z.leb_spec two31 (snd h * 2)); [cbn; discriminate|].
  rewrite run_bind. destruct (run (read_from req (snd h * 2)) s1) as [[y|e|] s2]; try discriminate.
  cbn [run]. intros E. injection E as <- _ _. lia.
Qed.

(** ** Bounds kept by the reader state *)
Definition RB (st : rstate) : Prop :=
  in_i32 (h_len (r_hdr st)) /\
  match r_index st with Some idx => Forall (fun e => in_i32 (fst e)) idx | None => True end /\
  (0 <= r_cur st < two63 \/ r_cur st = UNKNOWN_POSITION) /\ 0 <= r_next st.

Definition two33 : Z := 8589934592.

Lemma flen_small st : in_i32 (h_len (r_hdr st)) -> 0 <= flen_bytes st < two33.
Proof. unfold flen_bytes, in_i32, two31, two33. lia. Qed.

Lemma it_read_total req st s : RB st -> 0 <= r_cur st < two33 ->
  exists o st' s', run (it_read req st) s = (Ok (Some o, st'), s') /\ RB st' /\ r_next st' = r_next st /\
                   r_index st' = r_index st /\ r_hdr st' = r_hdr st /\
                   (forall x, o = Ok x -> exists hdr, run (read_one_shape req) s = (Ok (hdr, x), s')) /\
                   (forall e, o = Err e -> r_cur st' = match r_index st with Some _ => UNKNOWN_POSITION | None => flen_bytes st end).
Proof.
  intros (Hl & Hi & Hc & Hn) Hcur. unfold it_read. rewrite run_bind.
  destruct (run_catch_np (read_one_shape req) s (np_read_one_shape req)) as (r & s' & Hrun & Hnp & Hraw).
  rewrite Hrun. destruct r as [[hdr x]|e|]; [| |contradiction].
  - pose proof (read_one_shape_size req s hdr x s' Hraw) as Hsz.
    unfold usize_add. destruct (Z.ltb_spec (r_cur st + 8) two64) as [_|?]; [|unfold two33, two64 in *; lia]. cbn [bind].
    destruct (Z.ltb_spec (r_cur st + 8 + snd hdr * 2) two64) as [_|?]; [|unfold two33, two31, two64 in *; lia]. cbn [bind run].
    eexists; eexists; eexists. split; [reflexivity|]. split; [|split; [reflexivity|split; [reflexivity|split; [reflexivity|]]]].
    + unfold RB. cbn [set_cur r_hdr r_index r_cur r_next]. splits; try assumption.
      left. unfold two33, two31, two63 in *. lia.
    + split; [intros y E; injection E as <-; eauto|intros e E; discriminate].
  - cbn [run]. eexists; eexists; eexists. split; [reflexivity|]. split; [|split; [reflexivity|split; [reflexivity|split; [reflexivity|]]]].
    + unfold RB. cbn [set_cur r_hdr r_index r_cur r_next]. splits; try assumption.
      destruct (r_index st); [right; reflexivity|left]. pose proof (flen_small st Hl). unfold two33, two63 in *. lia.
    + split; [intros y E; discriminate|intros e' _; reflexivity].
Qed.

(** One step of an iteration: always a value; it either ends the iteration
    (and changes nothing) or yields one item. *)
Lemma it_next_total req st s : RB st ->
  exists o st' s', run (it_next req st) s = (Ok (o, st'), s') /\ RB st' /\ r_index st' = r_index st /\ r_hdr st' = r_hdr st /\
    match r_index st with
    | Some idx => (o = None -> st' = st /\ s' = s /\ zlen idx <= r_next st) /\ (o <> None -> r_next st' = r_next st + 1 /\ r_next st < zlen idx)
    | None => (o = None -> st' = st /\ s' = s) /\
              (forall x, o = Some (Ok x) -> exists hdr, run (read_one_shape req) s = (Ok (hdr, x), s')) /\
              (forall e, o = Some (Err e) -> r_cur st' = flen_bytes st)
    end.
Proof.
  intros HB. pose proof HB as (Hl & Hi & Hc & Hn). unfold it_next. destruct (r_index st) as [idx|] eqn:Hidx.
  - unfold nth_entry. destruct (Z.ltb_spec (r_next st) 0) as [?|_]; [lia|].
    destruct (nth_error idx (Z.to_nat (r_next st))) as [[off w]|] eqn:He.
    + assert (Hlt : r_next st < zlen idx).
      { assert (Z.to_nat (r_next st) < length idx)%nat by (apply nth_error_Some; congruence). unfold zlen. lia. }
      assert (Hoff : in_i32 off).
      { rewrite Forall_forall in Hi. apply (Hi (off, w)). eapply nth_error_In, He. }
      set (st1 := set_next st (r_next st + 1)).
      assert (HB1 : RB st1) by (unfold RB, st1; cbn [set_next r_hdr r_index r_cur r_next]; rewrite Hidx; splits; try assumption; lia).
      unfold offset_in_bytes. destruct (Z.ltb_spec (off * 2) 0) as [Hneg|Hpos].
      * cbn [run]. exists (Some (Err EIoInvalidData)), st1, s. split; [reflexivity|]. split; [exact HB1|].
        split; [exact Hidx|]. split; [reflexivity|]. split; [discriminate|]. intros _. split; [reflexivity|exact Hlt].
      * assert (Hst : 0 <= off * 2 < two33) by (unfold in_i32, two31, two33 in *; lia).
        destruct (Z.eqb_spec (off * 2) (r_cur st1)) as [E|E].
        -- destruct (it_read_total req st1 s HB1) as (o & st' & s' & Hrun & HB' & Hn' & Hi' & Hh' & _); [rewrite <- E; exact Hst|].
           exists (Some o), st', s'. split; [exact Hrun|]. split; [exact HB'|].
           split; [rewrite Hi'; exact Hidx|]. split; [exact Hh'|]. split; [discriminate|]. intros _. split; [exact Hn'|exact Hlt].
        -- rewrite run_bind.
           destruct (run_catch_np (seek_start (off * 2)) s (np_seek_start_ _)) as (r & s1 & Hrun & Hnp & _).
           rewrite Hrun. destruct r as [q|e|]; [| |contradiction].
           ++ assert (HB2 : RB (set_cur st1 (off * 2))).
              { unfold RB, st1. cbn [set_cur set_next r_hdr r_index r_cur r_next]. rewrite Hidx. splits; try assumption; try lia.
                left. unfold two33, two63 in *. lia. }
              destruct (it_read_total req (set_cur st1 (off * 2)) s1 HB2) as (o & st' & s' & Hrun' & HB' & Hn' & Hi' & Hh' & _); [exact Hst|].
              exists (Some o), st', s'. split; [exact Hrun'|]. split; [exact HB'|].
              split; [rewrite Hi'; exact Hidx|]. split; [exact Hh'|]. split; [discriminate|]. intros _. split; [exact Hn'|exact Hlt].
           ++ cbn [run]. exists (Some (Err e)), (set_cur st1 UNKNOWN_POSITION), s1. split; [reflexivity|]. split.
              { unfold RB, st1. cbn [set_cur set_next r_hdr r_index r_cur r_next]. rewrite Hidx. splits; try assumption; try lia. }
              split; [exact Hidx|]. split; [reflexivity|]. split; [discriminate|]. intros _. split; [reflexivity|exact Hlt].
    + cbn [run]. exists None, st, s. split; [reflexivity|]. split; [exact HB|]. split; [exact Hidx|]. split; [reflexivity|].
      split; [|intros H; contradiction]. intros _. split; [reflexivity|]. split; [reflexivity|].
      apply nth_error_None in He. unfold zlen. lia.
  - destruct (Z.leb_spec (flen_bytes st) (r_cur st)) as [Hge|Hlt].
    + cbn [run]. exists None, st, s. split; [reflexivity|]. split; [exact HB|]. split; [exact Hidx|]. split; [reflexivity|].
      split; [auto|]. split; [intros x E; discriminate|intros e E; discriminate].
    + pose proof (flen_small st Hl) as Hf.
      assert (Hcur : 0 <= r_cur st < two33).
      { destruct Hc as [Hc|Hc]; [lia|]. rewrite Hc in Hlt. unfold UNKNOWN_POSITION, two64, two33 in *. lia. }
      destruct (it_read_total req st s HB Hcur) as (o & st' & s' & Hrun & HB' & Hn' & Hi' & Hh' & Hok & Herr).
      exists (Some o), st', s'. split; [exact Hrun|]. split; [exact HB'|]. split; [rewrite Hi'; exact Hidx|]. split; [exact Hh'|].
      split; [discriminate|]. split.
      * intros x E. injection E as ->. apply Hok. reflexivity.
      * intros e E. injection E as ->. rewrite (Herr e eq_refl), Hidx. reflexivity.
Qed.

(** ** Totality of every call and of every history *)
Lemma it_pull_total req : forall fuel st s, RB st ->
  exists items ended st' s', run (it_pull fuel req st) s = (Ok (items, ended, st'), s') /\ RB st' /\
    r_index st' = r_index st /\ r_hdr st' = r_hdr st.
Proof.
  induction fuel as [|f IH]; intros st s HB; cbn [it_pull].
  - cbn [run]. exists [], false, st, s. auto.
  - rewrite run_bind. destruct (it_next_total req st s HB) as (o & st1 & s1 & Hrun & HB1 & Hi1 & Hh1 & _). rewrite Hrun. cbn [fst snd].
    destruct o as [item|].
    + destruct (IH st1 s1 HB1) as (items & ended & st2 & s2 & Hrun2 & HB2 & Hi2 & Hh2).
      rewrite run_bind, Hrun2. cbn [run fst snd]. exists (item :: items), ended, st2, s2.
      split; [reflexivity|]. split; [exact HB2|]. split; congruence.
    + cbn [run]. exists [], true, st1, s1. auto.
Qed.

Lemma r_seek_total st s k : RB st -> zlen (s_data s) < two63 -> 0 <= k ->
  exists r st' s', run (r_seek st k) s = (Ok (r, st'), s') /\ RB st' /\ r_index st' = r_index st /\ r_hdr st' = r_hdr st /\ r <> Panic.
Proof.
  intros HB Hd Hk. pose proof HB as (Hl & Hi & Hc & Hn). unfold r_seek. destruct (r_index st) as [idx|] eqn:Hidx.
  - unfold nth_entry. destruct (Z.ltb_spec k 0) as [?|_]; [lia|].
    destruct (nth_error idx (Z.to_nat k)) as [[off w]|] eqn:He.
    + assert (Hoff : in_i32 off) by (rewrite Forall_forall in Hi; apply (Hi (off, w)); eapply nth_error_In, He).
      unfold offset_in_bytes. destruct (Z.ltb_spec (off * 2) 0) as [Hneg|Hpos].
      * cbn [run]. exists (Err EIoInvalidData), st, s. easy_goals.
      * rewrite run_bind. destruct (run_catch_np (seek_start (off * 2)) s (np_seek_start_ _)) as (r & s1 & Hrun & Hnp & Hraw).
        rewrite Hrun. destruct r as [q|e|]; [| |contradiction]; cbn [run].
        -- assert (q = off * 2).
           { unfold seek_start in Hraw. cbn [run] in Hraw. unfold do_seek_start in Hraw.
             destruct (faulty_now s); cbn [lift_res run] in Hraw; [discriminate|]. injection Hraw as <- _. reflexivity. }
           subst q. eexists; eexists; eexists. split; [reflexivity|]. split.
           { unfold RB. cbn [set_cur set_next r_hdr r_index r_cur r_next]. rewrite Hidx. splits; try assumption.
             - left. unfold in_i32, two31, two63 in *. lia.
             - pose proof (zlen_nonneg idx). lia. }
           split; [exact Hidx|]. split; [reflexivity|discriminate].
        -- exists (Err e), st, s1. easy_goals.
    + rewrite run_bind. destruct (run_catch_np seek_end s np_seek_end_) as (r & s1 & Hrun & Hnp & Hraw).
      rewrite Hrun. destruct r as [q|e|]; [| |contradiction]; cbn [run].
      * assert (q = zlen (s_data s)).
        { unfold seek_end in Hraw. cbn [run] in Hraw. unfold do_seek_end in Hraw.
          destruct (faulty_now s); cbn [lift_res run] in Hraw; [discriminate|]. injection Hraw as <- _. reflexivity. }
        subst q. eexists; eexists; eexists. split; [reflexivity|]. split.
        { unfold RB. cbn [set_cur set_next r_hdr r_index r_cur r_next]. rewrite Hidx. splits; try assumption.
          - left. pose proof (zlen_nonneg (s_data s)). lia.
          - pose proof (zlen_nonneg idx). lia. }
        split; [exact Hidx|]. split; [reflexivity|discriminate].
      * exists (Err e), st, s1. easy_goals.
  - cbn [run]. exists (Err EMissingIndex), st, s. easy_goals.
Qed.

Lemma r_read_nth_total req st s i : RB st -> zlen (s_data s) < two63 -> 0 <= i ->
  exists o st' s', run (r_read_nth req st i) s = (Ok (o, st'), s') /\ RB st' /\ r_index st' = r_index st /\ r_hdr st' = r_hdr st /\
                   o <> Some Panic.
Proof.
  intros HB Hd Hi0. pose proof HB as (Hl & Hi & Hc & Hn). unfold r_read_nth. destruct (r_index st) as [idx|] eqn:Hidx.
  - destruct (Z.leb_spec (zlen idx) i).
    + cbn [run]. exists None, st, s. easy_goals.
    + destruct (r_seek_total st s i HB Hd Hi0) as (r & st1 & s1 & Hrun & HB1 & Hi1 & Hh1 & Hnp).
      rewrite run_bind, Hrun. cbn [fst snd]. destruct r as [u|e|]; [| |contradiction].
      * pose proof HB1 as (Hl1 & Hix1 & Hc1 & Hn1).
        set (st2 := set_next (set_cur st1 UNKNOWN_POSITION) 0).
        assert (HB2 : RB st2).
        { unfold RB, st2. cbn [set_cur set_next r_hdr r_index r_cur r_next]. splits; try assumption; [right; reflexivity|lia]. }
        rewrite run_bind. destruct (run_catch_np (read_one_shape req) s1 (np_read_one_shape req)) as (r & s2 & Hrun2 & Hnp2 & _).
        rewrite Hrun2. destruct r as [[hdr x]|e|]; [| |contradiction].
        -- rewrite run_bind. destruct (run_catch_np (seek_start 100) s2 (np_seek_start_ _)) as (r3 & s3 & Hrun3 & Hnp3 & _).
           rewrite Hrun3. destruct r3 as [q|e|]; [| |contradiction]; cbn [run].
           ++ eexists; eexists; eexists. split; [reflexivity|]. split.
              { unfold RB, st2. cbn [set_cur set_next r_hdr r_index r_cur r_next]. splits; try assumption; try lia.
                left. unfold two63. lia. }
              split; [unfold st2; cbn [set_cur set_next r_index]; congruence|]. split; [unfold st2; cbn [set_cur set_next r_hdr]; congruence|discriminate].
           ++ exists (Some (Err e)), st2, s3. split; [reflexivity|]. split; [exact HB2|].
              split; [unfold st2; cbn [set_cur set_next r_index]; congruence|]. split; [unfold st2; cbn [set_cur set_next r_hdr]; congruence|discriminate].
        -- cbn [run]. exists (Some (Err e)), st2, s2. split; [reflexivity|]. split; [exact HB2|].
           split; [unfold st2; cbn [set_cur set_next r_index]; congruence|]. split; [unfold st2; cbn [set_cur set_next r_hdr]; congruence|discriminate].
      * cbn [run]. exists (Some (Err e)), st1, s1. easy_goals.
  - cbn [run]. exists (Some (Err EMissingIndex)), st, s. easy_goals.
Qed.

Definition rcall_nonneg (c : rcall) : Prop := match c with RNth i => 0 <= i | RSeek k => 0 <= k | _ => True end.

Theorem r_calls_total req : forall cs st s, RB st -> zlen (s_data s) < two63 -> Forall rcall_nonneg cs ->
  exists outs st' s', run (r_calls req st cs) s = (Ok (outs, st'), s') /\ RB st' /\ length outs = length cs.
Proof.
  induction cs as [|c cs IH]; intros st s HB Hd Hwf; cbn [r_calls].
  - cbn [run]. exists [], st, s. auto.
  - inversion Hwf as [|? ? Hc Hcs]; subst. rewrite run_bind.
    assert (exists o st1 s1, run (r_call req st c) s = (Ok (o, st1), s1) /\ RB st1) as (o & st1 & s1 & Hrun & HB1).
    { destruct c as [fuel|i|k| |]; cbn [r_call rcall_nonneg] in *.
      - destruct (it_pull_total req fuel st s HB) as (items & ended & st1 & s1 & Hrun & HB1 & _).
        rewrite run_bind, Hrun. cbn [run fst snd]. eauto.
      - destruct (r_read_nth_total req st s i HB Hd Hc) as (o & st1 & s1 & Hrun & HB1 & _).
        rewrite run_bind, Hrun. cbn [run fst snd]. eauto.
      - destruct (r_seek_total st s k HB Hd Hc) as (r & st1 & s1 & Hrun & HB1 & _).
        rewrite run_bind, Hrun. cbn [run fst snd]. eauto.
      - cbn [run]. eauto.
      - cbn [run]. eauto. }
    rewrite Hrun. cbn [fst snd]. rewrite run_bind.
    assert (Hd1 : zlen (s_data s1) < two63) by (rewrite (run_data' _ _ _ _ Hrun); exact Hd).
    destruct (IH st1 s1 HB1 Hd1 Hcs) as (outs & st2 & s2 & Hrun2 & HB2 & Hlen).
    rewrite Hrun2. cbn [run fst snd]. exists (o :: outs), st2, s2. split; [reflexivity|]. split; [exact HB2|].
    cbn [length]. rewrite Hlen. reflexivity.
Qed.

(** ** Bounded iteration *)

(** With an index: at most one item per remaining index entry. *)
Theorem it_pull_bounded_index req idx : forall fuel st s, RB st -> r_index st = Some idx ->
  (Z.to_nat (zlen idx - r_next st) < fuel)%nat ->
  exists items st' s', run (it_pull fuel req st) s = (Ok (items, true, st'), s') /\
                       (length items <= Z.to_nat (zlen idx - r_next st))%nat.
Proof.
  induction fuel as [|f IH]; intros st s HB Hidx Hf; [lia|]. cbn [it_pull]. rewrite run_bind.
  destruct (it_next_total req st s HB) as (o & st1 & s1 & Hrun & HB1 & Hi1 & Hh1 & Hcase). rewrite Hrun. cbn [fst snd].
  rewrite Hidx in Hcase. destruct Hcase as [Hnone Hsome]. destruct o as [item|].
  - destruct (Hsome ltac:(discriminate)) as [Hn1 Hlt].
    destruct (IH st1 s1 HB1) as (items & st2 & s2 & Hrun2 & Hlen); [congruence|lia|].
    rewrite run_bind, Hrun2. cbn [run fst snd]. exists (item :: items), st2, s2. split; [reflexivity|]. cbn [length]. lia.
  - cbn [run]. exists [], st1, s1. split; [reflexivity|]. cbn [length]. lia.
Qed.

(** Without index: every yielded shape consumed at least 12 bytes of the
    source and an error ends the iteration. *)
Lemma simple_pos_bound {A} (p : prog A) : simple p ->
  forall s r s', s_fault s = None -> 0 <= s_pos s <= zlen (s_data s) -> run p s = (r, s') -> s_pos s' <= zlen (s_data s).
Proof.
  induction 1 as [a0|e| |n k0 He Hk Hs IH|n k0 Hs IH]; intros s r s' Hf Hp Hrun; cbn [run] in Hrun;
    try (inversion Hrun; subst; lia).
  - unfold do_take, faulty_now in Hrun. rewrite Hf in Hrun.
    destruct (Nat.leb_spec n (length (s_rest s))) as [Hn|Hn].
    + apply IH in Hrun; [exact Hrun|exact Hf|]. cbn [bump set_pos s_pos s_data].
      rewrite s_rest_skipn in Hn. rewrite skipn_length in Hn. unfold zlen in *. lia.
    + rewrite He in Hrun. cbn [run] in Hrun. inversion Hrun; subst. cbn [bump set_pos s_pos]. lia.
  - apply IH in Hrun; [exact Hrun|exact Hf|exact Hp].
Qed.

Lemma take_pos n s bs s' : s_fault s = None -> 0 <= s_pos s -> run (take n) s = (Ok bs, s') ->
  s_pos s' = s_pos s + Z.of_nat n /\ s_fault s' = None /\ s_data s' = s_data s /\
  ((0 < n)%nat -> s_pos s' <= zlen (s_data s)).
Proof.
  intros Hf Hp. unfold take. cbn [run]. unfold do_take, faulty_now. rewrite Hf.
  destruct (Nat.leb_spec n (length (s_rest s))) as [Hn|Hn]; cbn [lift_res run]; [|discriminate].
  intros E. injection E as _ <-. cbn [bump set_pos s_pos s_fault s_data]. split; [reflexivity|]. split; [exact Hf|].
  split; [reflexivity|]. intros Hn0. rewrite s_rest_skipn in Hn. rewrite skipn_length in Hn. unfold zlen. lia.
Qed.

Lemma read_i32_pos (p : prog Z) s v s' : (p = read_i32_be \/ p = read_i32_le) ->
  s_fault s = None -> 0 <= s_pos s -> run p s = (Ok v, s') ->
  s_pos s' = s_pos s + 4 /\ s_fault s' = None /\ s_data s' = s_data s /\ s_pos s' <= zlen (s_data s).
Proof.
  intros Hp Hf H0 Hrun.
  assert (E : exists g, p = (bs <-- take 4 ;; Ret (g bs))) by (destruct Hp as [-> | ->]; eexists; reflexivity).
  destruct E as (g & ->). rewrite run_bind in Hrun. destruct (run (take 4) s) as [[bs|e|] s1] eqn:Et; try discriminate.
  cbn [run] in Hrun. injection Hrun as _ <-. destruct (take_pos 4 s bs s1 Hf H0 Et) as (P1 & P2 & P3 & P4).
  split; [rewrite P1; reflexivity|]. split; [exact P2|]. split; [exact P3|]. apply P4. lia.
Qed.

(** A successfully read record consumed at least 12 bytes that exist. *)
Lemma read_one_shape_consumes req s hdr x s' :
  s_fault s = None -> 0 <= s_pos s -> run (read_one_shape req) s = (Ok (hdr, x), s') ->
  s_pos s + 12 <= s_pos s' <= zlen (s_data s) /\ s_fault s' = None /\ s_data s' = s_data s.
Proof.
  intros Hf H0. unfold read_one_shape, read_record_header. rewrite !run_bind.
  destruct (run read_i32_be s) as [[num|e|] s1] eqn:E1; try discriminate.
  destruct (read_i32_pos read_i32_be s num s1 (or_introl eq_refl) Hf H0 E1) as (A1 & A2 & A3 & A4).
  rewrite run_bind. destruct (run read_i32_be s1) as [[words|e|] s2] eqn:E2; try discriminate.
  destruct (read_i32_pos read_i32_be s1 words s2 (or_introl eq_refl) A2 ltac:(lia) E2) as (B1 & B2 & B3 & B4).
  cbn [run snd]. destruct ((words * 2 <? 0) || (two31 <=? words * 2)); [cbn; discriminate|].
  rewrite run_bind. unfold read_from, read_shape_type. rewrite !run_bind.
  destruct (run read_i32_le s2) as [[code|e|] s3] eqn:E3; try discriminate.
  destruct (read_i32_pos read_i32_le s2 code s3 (or_intror eq_refl) B2 ltac:(lia) E3) as (C1 & C2 & C3 & C4).
  destruct (st_decode code) as [t|]; [|cbn; discriminate]. cbn [run].
  set (content := match req with None => read_content t (words * 2 - 4)
                  | Some rt => if st_eqb t rt then read_content rt (words * 2 - 4) else Fail (EMismatch rt t) end).
  assert (Hs : simple content).
  { unfold content. destruct req as [rt|]; [destruct (st_eqb t rt); [apply simple_read_content|apply simple_fail]|apply simple_read_content]. }
  destruct (run content s3) as [[y|e|] s4] eqn:E4; try discriminate. cbn [run]. intros E. injection E as _ _ <-.
  destruct (simple_pos_mono content Hs s3 _ s4 C2 E4) as [M1 M2].
  pose proof (simple_pos_bound content Hs s3 _ s4 C2 ltac:(rewrite C3, B3, A3 in *; lia) E4) as M3.
  pose proof (run_data' _ _ _ _ E4) as D4.
  split; [rewrite C3, B3, A3 in *; lia|]. split; [exact M2|]. congruence.
Qed.

Lemma it_pull_S f req st :
  it_pull (S f) req st
  = (x <-- it_next req st ;;
     match fst x with
     | None => Ret ([], true, snd x)
     | Some item => y <-- it_pull f req (snd x) ;; Ret (item :: fst (fst y), snd (fst y), snd y)
     end).
Proof. reflexivity. Qed.

(** Without index, on a fault-free source positioned inside the data: the
    iteration ends after at most (remaining bytes)/12 shapes and one error. *)
Theorem it_pull_bounded_noindex req : forall (k : nat) st s, RB st -> r_index st = None ->
  s_fault s = None -> 0 <= s_pos s <= zlen (s_data s) -> zlen (s_data s) - s_pos s < 12 * Z.of_nat k ->
  exists items st' s', run (it_pull (S k) req st) s = (Ok (items, true, st'), s') /\ (length items <= k)%nat.
Proof.
  induction k as [|k IH]; intros st s HB Hidx Hf Hp Hrem; [lia|].
  rewrite it_pull_S, run_bind.
  destruct (it_next_total req st s HB) as (o & st1 & s1 & Hrun & HB1 & Hi1 & Hh1 & Hcase). rewrite Hrun. cbn [fst snd].
  rewrite Hidx in Hcase. destruct Hcase as (Hnone & Hok & Herr). destruct o as [[x|e|]|].
  - (* a shape: at least 12 bytes consumed *)
    destruct (Hok x eq_refl) as (hdr & Hraw).
    destruct (read_one_shape_consumes req s hdr x s1 Hf ltac:(lia) Hraw) as (C1 & C2 & C3).
    destruct k as [|k'].
    + exfalso. lia.
    + destruct (IH st1 s1 HB1) as (items & st2 & s2 & Hrun2 & Hlen); [congruence|exact C2|rewrite C3; lia|rewrite C3; lia|].
      rewrite run_bind, Hrun2. cbn [run fst snd]. exists (Ok x :: items), st2, s2. split; [reflexivity|]. cbn [length]. lia.
  - (* an error: the next step ends the iteration *)
    pose proof (Herr e eq_refl) as Hcur.
    assert (Hend : run (it_pull (S k) req st1) s1 = (Ok ([], true, st1), s1)).
    { rewrite it_pull_S, run_bind. unfold it_next. rewrite Hi1, Hidx.
      replace (flen_bytes st1) with (flen_bytes st) by (unfold flen_bytes; rewrite Hh1; reflexivity).
      rewrite Hcur. rewrite Z.leb_refl. cbn [run fst snd]. reflexivity. }
    rewrite run_bind, Hend. cbn [run fst snd]. exists [Err e], st1, s1. split; [reflexivity|]. cbn [length]. lia.
  - (* impossible: items are never panics *)
    exfalso. destruct HB as (Hl & _ & Hc & _). unfold it_next in Hrun. rewrite Hidx in Hrun.
    destruct (flen_bytes st <=? r_cur st); [cbn in Hrun; discriminate|].
    unfold it_read in Hrun. rewrite run_bind in Hrun.
    destruct (run_catch_np (read_one_shape req) s (np_read_one_shape req)) as (r & s' & Hc' & Hnp & _).
    rewrite Hc' in Hrun. destruct r as [[hdr y]|e|]; [| |contradiction].
    + unfold usize_add in Hrun. destruct (r_cur st + 8 <? two64); cbn [bind run] in Hrun; [|discriminate].
      destruct (r_cur st + 8 + snd hdr * 2 <? two64); cbn [bind run] in Hrun; discriminate.
    + cbn [run] in Hrun. discriminate.
  - cbn [run]. exists [], st1, s1. split; [reflexivity|]. cbn [length]. lia.
Qed.

(** ** Opening a reader on bytes establishes the bounds *)
Lemma Forall_firstn_ {A} (P : A -> Prop) n l : Forall P l -> Forall P (firstn n l).
Proof. intros H; revert n; induction H as [|x l Hx Hl IH]; intros [|n]; cbn [firstn]; constructor; auto. Qed.
Lemma Forall_skipn_ {A} (P : A -> Prop) n l : Forall P l -> Forall P (skipn n l).
Proof. intros H; revert n; induction H as [|x l Hx Hl IH]; intros [|n]; cbn [skipn]; try constructor; auto. Qed.

Lemma take_bytes n s bs s' : all_bytes (s_data s) -> run (take n) s = (Ok bs, s') -> all_bytes bs /\ length bs = n.
Proof.
  intros Hb. unfold take. cbn [run]. unfold do_take. destruct (faulty_now s); cbn [lift_res run]; [discriminate|].
  destruct (Nat.leb_spec n (length (s_rest s))) as [Hn|Hn]; cbn [lift_res run]; [|discriminate].
  intros E. injection E as <- _. split; [|apply firstn_length_le; exact Hn].
  rewrite s_rest_skipn. unfold all_bytes in *. apply Forall_firstn_, Forall_skipn_, Hb.
Qed.

Lemma i32_of_be_range bs : all_bytes bs -> length bs = 4%nat -> in_i32 (i32_of_be bs).
Proof.
  intros Hb Hl. unfold i32_of_be, of_be. apply to_i32_range.
  assert (Hr : all_bytes (rev bs)) by (unfold all_bytes in *; apply Forall_rev; exact Hb).
  pose proof (of_le_range (rev bs) Hr) as H. rewrite zlen_rev in H. unfold zlen in H. rewrite Hl in H. exact H.
Qed.

Lemma read_i32_be_range s v s' : all_bytes (s_data s) -> run read_i32_be s = (Ok v, s') -> in_i32 v.
Proof.
  intros Hb. unfold read_i32_be. rewrite run_bind. destruct (run (take 4) s) as [[bs|e|] s1] eqn:E; try discriminate.
  cbn [run]. intros H. injection H as <- _. destruct (take_bytes 4 s bs s1 Hb E). apply i32_of_be_range; assumption.
Qed.

Ltac stepn H x s1 E := rewrite run_bind in H;
  match type of H with context [run ?p ?s] => destruct (run p s) as [[x|?|] s1] eqn:E; try discriminate end.
Ltac step H := let x := fresh "x" in let s1 := fresh "s" in let E := fresh "E" in stepn H x s1 E.

Lemma read_header_len s h s' : all_bytes (s_data s) -> run read_header s = (Ok h, s') -> in_i32 (h_len h).
Proof.
  intros Hb H. unfold read_header in H. stepn H code sa Ea.
  destruct (negb (code =? 9994)); [cbn in H; discriminate|].
  stepn H skip sb Eb. stepn H len sc Ec.
  assert (Hb1 : all_bytes (s_data sb)) by (rewrite (run_data' _ _ _ _ Eb), (run_data' _ _ _ _ Ea); exact Hb).
  pose proof (read_i32_be_range _ _ _ Hb1 Ec) as Hlen.
  do 10 (step H). cbn [run] in H. injection H as <- _. exact Hlen.
Qed.

Lemma rep_pos_forall {A} (P : A -> Prop) (p : prog A) :
  (forall s a s', all_bytes (s_data s) -> run p s = (Ok a, s') -> P a) ->
  forall n s l s', all_bytes (s_data s) -> run (rep_pos n p) s = (Ok l, s') -> Forall P l.
Proof.
  intros Hp. induction n as [n IH|n IH|]; intros s l s' Hb H; cbn [rep_pos] in H.
  - stepn H a sa Ea. pose proof (Hp _ _ _ Hb Ea) as Pa. assert (Hb1 : all_bytes (s_data sa)) by (rewrite (run_data' _ _ _ _ Ea); exact Hb).
    stepn H l1 sb Eb. pose proof (IH _ _ _ Hb1 Eb) as P1. assert (Hb2 : all_bytes (s_data sb)) by (rewrite (run_data' _ _ _ _ Eb); exact Hb1).
    stepn H l2 sc Ec. pose proof (IH _ _ _ Hb2 Ec) as P2. cbn [run] in H. injection H as <- _.
    constructor; [exact Pa|apply Forall_app; split; assumption].
  - stepn H l1 sa Ea. pose proof (IH _ _ _ Hb Ea) as P1. assert (Hb1 : all_bytes (s_data sa)) by (rewrite (run_data' _ _ _ _ Ea); exact Hb).
    stepn H l2 sb Eb. pose proof (IH _ _ _ Hb1 Eb) as P2. cbn [run] in H. injection H as <- _. apply Forall_app; split; assumption.
  - stepn H a sa Ea. cbn [run] in H. injection H as <- _. constructor; [eapply Hp; eassumption|constructor].
Qed.

Lemma read_index_file_range s idx s' : all_bytes (s_data s) -> run read_index_file s = (Ok idx, s') ->
  Forall (fun e => in_i32 (fst e)) idx.
Proof.
  intros Hb H. unfold read_index_file in H. stepn H h sa Ea.
  assert (Hb1 : all_bytes (s_data sa)) by (rewrite (run_data' _ _ _ _ Ea); exact Hb).
  cbv zeta in H. rewrite run_bind in H. cbn [reserve run] in H.
  set (s1 := do_reserve _ sa) in H. assert (Hb2 : all_bytes (s_data s1)) by exact Hb1.
  destruct (index_entries_declared (h_len h)) as [|n|n]; cbn [rep_Z] in H.
  - cbn [run] in H. injection H as <- _. constructor.
  - eapply (rep_pos_forall (fun e => in_i32 (fst e))); [|exact Hb2|exact H].
    intros s2 a s3 Hb3 Hr. stepn Hr off sb Eb. pose proof (read_i32_be_range _ _ _ Hb3 Eb) as Hz. stepn Hr w sc Ec. cbn [run] in Hr.
    injection Hr as <- _. exact Hz.
  - cbn [run] in H. injection H as <- _. constructor.
Qed.

(** Opening never panics, and the reader it returns satisfies the bounds. *)
Theorem open_total (index : option (list (Z * Z))) s :
  all_bytes (s_data s) ->
  match index with Some idx => Forall (fun e => in_i32 (fst e)) idx | None => True end ->
  let p := match index with Some idx => r_with_shx idx | None => r_new end in
  fst (run p s) <> Panic /\ forall st s', run p s = (Ok st, s') -> RB st /\ r_index st = index.
Proof.
  intros Hb Hi p. split.
  - apply np_run. subst p. destruct index; unfold r_with_shx, r_new; (apply np_bind; [apply np_read_header|intros; constructor]).
  - intros st s' H. subst p.
    assert (exists h, run read_header s = (Ok h, s') /\ st = mkr h index 100 0) as (h & Hh & ->).
    { destruct index; unfold r_with_shx, r_new in H; rewrite run_bind in H;
        destruct (run read_header s) as [[h|e|] s1]; try discriminate; cbn [run] in H; injection H as <- <-; eauto. }
    split; [|reflexivity]. unfold RB. cbn [r_hdr r_index r_cur r_next].
    split; [eapply read_header_len; eassumption|]. split; [exact Hi|]. split; [left; unfold two63; lia|lia].
Qed.

Theorem index_parse_total s : fst (run read_index_file s) <> Panic.
Proof. apply np_run, np_read_index_file. Qed.
