(** Index files: parsing the .shx, the index of a conformant file addresses
    its records ([Indexed]), opening a reader with an index; then the
    write-then-read theorems for every history of reader calls. *)
From SF Require Import Model.Bytes Model.F64 Model.ShapeType Model.Shapes Model.Res Model.Encode
  Model.F64Arith Model.Construct Model.Writer Model.Prog Model.Decode Model.Reader Spec.Esri Spec.Denote Spec.Layout.
From SF Require Import Proofs.BytesLemmas Proofs.ShapeTypeProofs Proofs.SizeProofs Proofs.ProgLemmas Proofs.DecodePrims
  Proofs.RecordL1 Proofs.ReaderSeq Proofs.WriterInv Proofs.EncodeRef Proofs.LayoutConf Proofs.RoundTrip Proofs.IndexReader.
Open Scope Z_scope.

Ltac Zify.zify_post_hook ::= Z.div_mod_to_equations.

(** ** Parsing the index file *)
Definition entry_bytes (e : Z * Z) : bytes := i32_be (fst e) ++ i32_be (snd e).

Lemma reads_entry e : in_i32 (fst e) -> in_i32 (snd e) ->
  reads (off <-- read_i32_be ;; words <-- read_i32_be ;; Ret (off, words)) (entry_bytes e) e.
Proof.
  intros H1 H2. unfold entry_bytes. eapply reads_bind; [apply reads_i32_be, H1|]. cbv beta.
  rewrite <- (app_nil_r (i32_be (snd e))). eapply reads_bind; [apply reads_i32_be, H2|]. cbv beta.
  destruct e; apply reads_ret.
Qed.

Theorem reads_index_file t box entries trailing :
  length box = 8%nat -> Forall f64_ok box -> 50 + 4 * zlen entries < two31 ->
  Forall (fun e => in_i32 (fst e) /\ in_i32 (snd e)) entries ->
  fst (run read_index_file (src_of (ref_shx_of t box entries ++ trailing))) = Ok entries.
Proof.
  intros Hbl Hbox Hn He.
  pose proof (zlen_nonneg entries) as Hnn.
  assert (Hl : in_i32 (50 + 4 * zlen entries)) by (unfold in_i32, two31 in *; lia).
  assert (R : reads read_index_file (ref_shx_of t box entries) entries).
  { unfold read_index_file, ref_shx_of. eapply reads_bind; [apply reads_header; assumption|]. cbv beta zeta.
    unfold header_of. cbn [h_len].
    replace (index_entries_declared (50 + 4 * zlen entries)) with (zlen entries)
      by (unfold index_entries_declared; rewrite Z.quot_div_nonneg by lia; lia).
    eapply reads_bind_nil; [apply reads_reserve|]. apply reads_rep_Z.
    intros e Hin. rewrite Forall_forall in He. destruct (He e Hin). apply reads_entry; assumption. }
  set (s0 := src_of (ref_shx_of t box entries ++ trailing)).
  assert (Hc0 : clean s0) by (unfold clean, s0, src_of; cbn; split; [reflexivity|lia]).
  destruct (R s0 trailing Hc0 eq_refl) as (s1 & Hrun & _). rewrite Hrun. reflexivity.
Qed.

(** ** The index of a conformant file addresses its records *)
Lemma index_addresses req trailing : forall rs pre off,
  zlen pre = 2 * off -> 0 <= off -> Forall (record_ok req) rs ->
  Forall2 (stored_at req (pre ++ ref_records_bytes rs ++ trailing)) (ref_index_entries off rs) rs.
Proof.
  induction rs as [|[num r] rs IH]; intros pre off Hpre Hoff Hok; cbn [ref_index_entries]; constructor.
  - inversion Hok as [|? ? Hok1 _]; subst. unfold stored_at. cbn [fst snd]. split; [exact Hoff|]. split; [|exact Hok1].
    exists (ref_records_bytes rs ++ trailing).
    replace (Z.to_nat (off * 2)) with (length pre) by (unfold zlen in Hpre; lia).
    rewrite skipn_app, skipn_all, Nat.sub_diag. cbn [skipn app].
    unfold ref_records_bytes. cbn [flat_map fst snd]. rewrite <- app_assoc. reflexivity.
  - inversion Hok as [|? ? Hok1 Hok2]; subst.
    specialize (IH (pre ++ ref_record num r) (off + 4 + zlen (ref_content r) / 2)).
    unfold ref_records_bytes in *. cbn [flat_map fst snd]. rewrite <- !app_assoc in *.
    apply IH; [|pose proof (zlen_nonneg (ref_content r)); lia|exact Hok2].
    destruct Hok1 as (_ & Hc & _). cbn [snd] in Hc. pose proof (ref_content_even r Hc).
    rewrite zlen_app, zlen_ref_record. lia.
Qed.

Theorem conformant_indexed req g trailing :
  file_conformant g -> Forall (record_ok req) (rf_records g) -> zlen trailing < two32 ->
  Indexed req (ref_shp g ++ trailing) (ref_index_entries 50 (rf_records g)) (rf_records g).
Proof.
  intros (Hbl & Hbox & Hrecs & Hlen) Hok Htr. split.
  - unfold ref_shp. rewrite <- app_assoc. apply index_addresses; [|lia|exact Hok].
    rewrite zlen_ref_header by exact Hbl. reflexivity.
  - unfold ref_shp. rewrite !zlen_app, zlen_ref_header by exact Hbl.
    pose proof (zlen_nonneg (ref_records_bytes (rf_records g))). unfold two31, two32, two63 in *. lia.
Qed.

(** ** Opening a reader with an index *)
Lemma open_with_index t box len idx data rest :
  length box = 8%nat -> Forall f64_ok box -> in_i32 len -> data = ref_header t box len ++ rest ->
  0 <= zlen idx ->
  exists s', run (r_with_shx idx) (src_of data) = (Ok (mkr (header_of t box len) (Some idx) 100 0), s') /\ RInv data idx (mkr (header_of t box len) (Some idx) 100 0) s'.
Proof.
  intros Hbl Hbox Hl -> Hz. unfold r_with_shx.
  set (s0 := src_of (ref_header t box len ++ rest)).
  assert (Hc0 : clean s0) by (unfold clean, s0, src_of; cbn; split; [reflexivity|lia]).
  destruct (reads_header t box len Hbl Hbox Hl s0 rest Hc0 eq_refl) as (s1 & Hrun & Hc1 & Hd1 & Hp1).
  rewrite run_bind, Hrun. cbn [run]. exists s1. split; [reflexivity|].
  constructor; cbn [r_index r_cur r_next]; auto.
  - left. rewrite Hp1, zlen_ref_header by exact Hbl. reflexivity.
  - lia.
Qed.

(** C14: with an index, the index alone locates the records — for every
    history of reader calls, any bytes around and between the records. *)
Theorem index_governs req t box len rest idx recs cs :
  length box = 8%nat -> Forall f64_ok box -> in_i32 len ->
  Indexed req (ref_header t box len ++ rest) idx recs -> Forall rcall_wf cs ->
  exists st' s',
    run (st <-- r_with_shx idx ;; x <-- r_calls req st cs ;; Ret (r_hdr st, fst x)) (src_of (ref_header t box len ++ rest))
    = (Ok (header_of t box len, abs_calls (shapes_of recs) 0 cs), s') /\ RInv (ref_header t box len ++ rest) idx st' s'.
Proof.
  intros Hbl Hbox Hl HI Hwf.
  destruct (open_with_index t box len idx _ rest Hbl Hbox Hl eq_refl (zlen_nonneg idx)) as (s1 & Hrun1 & Hinv1).
  destruct (index_history req _ idx recs cs _ s1 O HI Hinv1 eq_refl Hwf) as (st2 & s2 & Hrun2 & Hinv2).
  exists st2, s2. rewrite run_bind, Hrun1. cbn [fst snd]. rewrite run_bind, Hrun2. cbn [run fst snd r_hdr].
  auto.
Qed.

(** C04 / C01: the two files the writer leaves, read back through the index,
    for every history of reader calls. *)
Lemma numbered_index_in_i32 : forall rs off, 0 <= off ->
  off + sum_Z (map (fun nr => 4 + zlen (ref_content (snd nr)) / 2) rs) < two31 ->
  Forall (fun e => in_i32 (fst e) /\ in_i32 (snd e)) (ref_index_entries off rs).
Proof.
  induction rs as [|[n r] rs IH]; intros off Hoff Hs; cbn [ref_index_entries]; constructor.
  - cbn [map sum_Z fst snd] in *. pose proof (zlen_nonneg (ref_content r)).
    assert (0 <= sum_Z (map (fun nr : Z * ref_rec => 4 + zlen (ref_content (snd nr)) / 2) rs)).
    { clear. induction rs as [|x rs IH]; cbn [map sum_Z]; [lia|]. pose proof (zlen_nonneg (ref_content (snd x))). lia. }
    unfold in_i32, two31 in *. split; lia.
  - cbn [map sum_Z fst snd] in Hs. pose proof (zlen_nonneg (ref_content r)). apply IH; lia.
Qed.

Lemma sum_numbered i ss :
  sum_Z (map (fun nr : Z * ref_rec => 4 + zlen (ref_content (snd nr)) / 2) (numbered i (map rec_of_shape ss)))
  = sum_Z (map (fun s => record_words s + 4) ss).
Proof.
  revert i; induction ss as [|s r IH]; intros i; [reflexivity|].
  cbn [map numbered sum_Z snd]. rewrite IH, <- record_words_ref. lia.
Qed.

Theorem written_then_read_index (req : option shape_type) (ss : list shape) (cs : list rcall) :
  Forall shape_ok ss -> one_type ss -> FileFits ss -> RecordsFit ss ->
  (req = None \/ req = Some (file_type ss)) -> Forall rcall_wf cs ->
  exists idx,
    fst (run read_index_file (src_of (final_shx ss))) = Ok idx /\ zlen idx = zlen ss /\
    exists s',
      run (st <-- r_with_shx idx ;; x <-- r_calls req st cs ;; Ret (r_hdr st, fst x)) (src_of (final_shp ss))
      = (Ok (header_of (file_type ss) (box8 (h_box (final_hdr ss))) (file_words ss),
             abs_calls (map on_read ss) 0 cs), s').
Proof.
  intros Hok Hty Hf Hrf Hreq Hwf.
  set (g := layout (file_type ss) (h_box (final_hdr ss)) ss).
  pose proof (layout_conformant ss Hok Hty Hf) as Hconf. fold g in Hconf.
  exists (ref_index_entries 50 (rf_records g)).
  assert (Hrecs : Forall (record_ok req) (rf_records g)).
  { destruct Hconf as (_ & _ & Hr & _). unfold g, layout in *. cbn [rf_records rf_type] in *.
    rewrite Forall_forall in *. intros nr Hin. destruct (Hr nr Hin) as (H1 & H2 & H3). unfold record_ok.
    split; [exact H1|]. split; [exact H2|].
    assert (Hin2 : exists s, In s ss /\ snd nr = rec_of_shape s).
    { clear -Hin. revert Hin. generalize 1. induction ss as [|s r IH]; intros i Hin; cbn [map numbered] in Hin; [contradiction|].
      destruct Hin as [<-|Hin]; [exists s; split; [left; reflexivity|reflexivity]|].
      destruct (IH _ Hin) as (s' & Hs' & E). exists s'. split; [right; exact Hs'|exact E]. }
    destruct Hin2 as (s & Hs & E). rewrite E, zlen_ref_content_shape.
    unfold RecordsFit in Hrf. rewrite Forall_forall in Hrf. split; [apply Hrf, Hs|].
    unfold accepts. rewrite ref_type_rec_of_shape. unfold one_type in Hty. rewrite Forall_forall in Hty. rewrite (Hty s Hs).
    destruct Hreq as [-> | ->]; auto. }
  destruct Hconf as (Hbl & Hbox & Hcr & Hlen).
  assert (Hzi : zlen (ref_index_entries 50 (rf_records g)) = zlen ss).
  { rewrite zlen_ref_index_entries. unfold g, layout. cbn [rf_records]. rewrite zlen_numbered, zlen_map. reflexivity. }
  split; [|split; [exact Hzi|]].
  - rewrite final_shx_is_ref by exact Hf. fold g. unfold ref_shx. rewrite <- (app_nil_r (ref_shx_of _ _ _)).
    apply reads_index_file; try assumption.
    + rewrite Hzi. unfold FileFits, file_words in Hf. pose proof (sum_words_ge ss). pose proof (zlen_nonneg ss). unfold two31 in *. lia.
    + apply numbered_index_in_i32; [lia|]. unfold g, layout. cbn [rf_records]. rewrite sum_numbered.
      unfold FileFits, file_words in Hf. exact Hf.
  - rewrite final_shp_is_ref by exact Hf. fold g. unfold ref_shp.
    assert (Hl : in_i32 ((100 + zlen (ref_records_bytes (rf_records g))) / 2)).
    { pose proof (zlen_nonneg (ref_records_bytes (rf_records g))). unfold in_i32, two31 in *. lia. }
    pose proof (conformant_indexed req g [] (conj Hbl (conj Hbox (conj Hcr Hlen))) Hrecs) as HI.
    rewrite app_nil_r in HI. unfold ref_shp in HI. specialize (HI ltac:(unfold two32; cbn; lia)).
    destruct (index_governs req (rf_type g) (rf_box g) _ _ _ _ cs Hbl Hbox Hl HI Hwf) as (st' & s' & Hrun & _).
    exists s'. rewrite Hrun. f_equal. f_equal. f_equal.
    + unfold g, layout. cbn [rf_records rf_type rf_box]. f_equal.
      rewrite <- records_is_ref, zlen_records_from. unfold file_words. lia.
    + f_equal. unfold shapes_of, g, layout. cbn [rf_records]. clear. generalize 1.
      induction ss as [|s r IH]; intros i; [reflexivity|]. cbn [map numbered snd]. rewrite denote_rec_of_shape, IH. reflexivity.
Qed.
