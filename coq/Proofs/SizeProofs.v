(** C18: announced size = emitted size, for every shape value. *)
From SF Require Import Model.Bytes Model.F64 Model.ShapeType Model.Shapes Model.Encode.
From SF Require Import Proofs.BytesLemmas.
Open Scope Z_scope.

Definition clen (c : chunks) : Z := zlen (concat c).

Lemma clen_nil : clen [] = 0. Proof. reflexivity. Qed.
Lemma clen_cons b c : clen (b :: c) = zlen b + clen c.
Proof. unfold clen; cbn [concat]; apply zlen_app. Qed.
Lemma clen_app a b : clen (a ++ b) = clen a + clen b.
Proof. unfold clen; rewrite concat_app; apply zlen_app. Qed.

Lemma clen_xy ps : clen (xy_chunks ps) = 16 * zlen ps.
Proof.
  induction ps as [|p ps IH]; [reflexivity|].
  unfold xy_chunks in *; cbn [flat_map]. rewrite clen_app, IH, !clen_cons, clen_nil, !zlen_f64_enc, zlen_cons. lia.
Qed.
Lemma clen_ms ps : clen (ms_chunks ps) = 8 * zlen ps.
Proof.
  induction ps as [|p ps IH]; [reflexivity|].
  unfold ms_chunks in *; cbn [map]. rewrite clen_cons, IH, zlen_f64_enc, zlen_cons. lia.
Qed.
Lemma clen_zs ps : clen (zs_chunks ps) = 8 * zlen ps.
Proof.
  induction ps as [|p ps IH]; [reflexivity|].
  unfold zs_chunks in *; cbn [map]. rewrite clen_cons, IH, zlen_f64_enc, zlen_cons. lia.
Qed.

Lemma total_points_cons p parts : total_points (p :: parts) = zlen p + total_points parts.
Proof. reflexivity. Qed.

Lemma clen_flat_xy parts : clen (flat_map xy_chunks parts) = 16 * total_points parts.
Proof.
  induction parts as [|p parts IH]; [reflexivity|].
  cbn [flat_map]. rewrite clen_app, IH, clen_xy, total_points_cons. lia.
Qed.
Lemma clen_flat_ms parts : clen (flat_map ms_chunks parts) = 8 * total_points parts.
Proof.
  induction parts as [|p parts IH]; [reflexivity|].
  cbn [flat_map]. rewrite clen_app, IH, clen_ms, total_points_cons. lia.
Qed.
Lemma clen_flat_zs parts : clen (flat_map zs_chunks parts) = 8 * total_points parts.
Proof.
  induction parts as [|p parts IH]; [reflexivity|].
  cbn [flat_map]. rewrite clen_app, IH, clen_zs, total_points_cons. lia.
Qed.

Lemma clen_map_i32_le l : clen (map i32_le l) = 4 * zlen l.
Proof.
  induction l as [|x l IH]; [reflexivity|].
  cbn [map]. rewrite clen_cons, IH, zlen_i32_le, zlen_cons. lia.
Qed.

Lemma length_part_offsets acc lens : length (part_offsets acc lens) = length lens.
Proof. revert acc; induction lens as [|l r IH]; intros acc; cbn [part_offsets length]; [reflexivity|]. rewrite IH; reflexivity. Qed.

Lemma zlen_part_offsets acc lens : zlen (part_offsets acc lens) = zlen lens.
Proof. unfold zlen; rewrite length_part_offsets; reflexivity. Qed.

Lemma clen_bbox_xy b : clen (bbox_xy_chunks b) = 32.
Proof. unfold bbox_xy_chunks; rewrite !clen_cons, clen_nil, !zlen_f64_enc; reflexivity. Qed.
Lemma clen_m_range b : clen (m_range_chunks b) = 16.
Proof. unfold m_range_chunks; rewrite !clen_cons, clen_nil, !zlen_f64_enc; reflexivity. Qed.
Lemma clen_z_range b : clen (z_range_chunks b) = 16.
Proof. unfold z_range_chunks; rewrite !clen_cons, clen_nil, !zlen_f64_enc; reflexivity. Qed.

Lemma clen_multipart_head b parts : clen (multipart_head b parts) = 40 + 4 * zlen parts.
Proof.
  unfold multipart_head. rewrite !clen_app, clen_bbox_xy, !clen_cons, clen_nil, !zlen_i32_le,
    clen_map_i32_le, zlen_part_offsets. unfold part_lens; rewrite zlen_map. lia.
Qed.

Lemma clen_multipart_tail d b parts :
  clen (multipart_tail d b parts) = coords_per_point d * 8 * total_points parts + range_bytes d.
Proof.
  unfold multipart_tail. rewrite !clen_app, clen_flat_xy.
  destruct d; cbn [has_z_dim has_m_dim coords_per_point range_bytes];
    rewrite ?clen_app, ?clen_nil, ?clen_z_range, ?clen_m_range, ?clen_flat_zs, ?clen_flat_ms; lia.
Qed.

Lemma clen_point d p : clen (point_chunks d p) = coords_per_point d * 8.
Proof. destruct d; unfold point_chunks; rewrite !clen_cons, clen_nil, !zlen_f64_enc; reflexivity. Qed.

Lemma clen_multipoint d b ps :
  clen (multipoint_chunks d b ps) = 4 * 8 + 4 + coords_per_point d * 8 * zlen ps + range_bytes d.
Proof.
  unfold multipoint_chunks. rewrite !clen_app, clen_bbox_xy, clen_cons, clen_nil, zlen_i32_le, clen_xy.
  destruct d; cbn [has_z_dim has_m_dim coords_per_point range_bytes];
    rewrite ?clen_app, ?clen_nil, ?clen_z_range, ?clen_m_range, ?clen_zs, ?clen_ms; lia.
Qed.

Lemma clen_kinds (patches : list (pkind * list pt)) :
  clen (map (fun p => i32_le (pkind_code (fst p))) patches) = 4 * zlen patches.
Proof.
  induction patches as [|x l IH]; [reflexivity|].
  cbn [map]. rewrite clen_cons, IH, zlen_i32_le, zlen_cons. lia.
Qed.

Theorem size_in_bytes_correct (s : shape) : zlen (content_bytes s) = size_in_bytes s.
Proof.
  unfold content_bytes. change (zlen (concat (content_chunks s))) with (clen (content_chunks s)).
  destruct s as [|d p|d b ps|d b parts|d b rings|b patches]; cbn [content_chunks size_in_bytes].
  - reflexivity.
  - apply clen_point.
  - apply clen_multipoint.
  - unfold multipart_chunks; rewrite clen_app, clen_multipart_head, clen_multipart_tail. lia.
  - unfold multipart_chunks; rewrite clen_app, clen_multipart_head, clen_multipart_tail, zlen_map. lia.
  - rewrite !clen_app, clen_multipart_head, clen_kinds, clen_multipart_tail, zlen_map.
    cbn [coords_per_point range_bytes]. lia.
Qed.

Lemma total_points_nonneg parts : 0 <= total_points parts.
Proof.
  induction parts as [|p parts IH]; [cbn; lia|].
  rewrite total_points_cons. pose proof (zlen_nonneg p). lia.
Qed.

Lemma size_in_bytes_even s : exists k, size_in_bytes s = 2 * k.
Proof.
  destruct s as [|d p|d b ps|d b parts|d b rings|b patches]; cbn [size_in_bytes].
  - exists 0; reflexivity.
  - exists (coords_per_point d * 4); lia.
  - destruct d; cbn [coords_per_point range_bytes].
    + exists (18 + 8 * zlen ps); lia.
    + exists (18 + 12 * zlen ps + 8); lia.
    + exists (18 + 16 * zlen ps + 16); lia.
  - destruct d; cbn [coords_per_point range_bytes].
    + exists (20 + 2 * zlen parts + 8 * total_points parts); lia.
    + exists (20 + 2 * zlen parts + 12 * total_points parts + 8); lia.
    + exists (20 + 2 * zlen parts + 16 * total_points parts + 16); lia.
  - destruct d; cbn [coords_per_point range_bytes].
    + exists (20 + 2 * zlen rings + 8 * total_points (map snd rings)); lia.
    + exists (20 + 2 * zlen rings + 12 * total_points (map snd rings) + 8); lia.
    + exists (20 + 2 * zlen rings + 16 * total_points (map snd rings) + 16); lia.
  - exists (36 + 4 * zlen patches + 16 * total_points (map snd patches)). lia.
Qed.

(** The record header's content length counts exactly the type code plus the
    content, in 16-bit words; the division by two is exact. *)
Theorem record_words_exact t s :
  zlen (concat ([i32_le (st_code t)] ++ content_chunks s)) = 2 * record_words s.
Proof.
  change (zlen (concat ([i32_le (st_code t)] ++ content_chunks s)))
    with (clen ([i32_le (st_code t)] ++ content_chunks s)).
  rewrite clen_app, clen_cons, clen_nil, zlen_i32_le.
  change (clen (content_chunks s)) with (zlen (content_bytes s)).
  rewrite size_in_bytes_correct. unfold record_words.
  destruct (size_in_bytes_even s) as [k Hk]. rewrite Hk.
  replace (2 * k + 4) with ((k + 2) * 2) by lia. rewrite Z.div_mul by lia. lia.
Qed.

Theorem record_bytes_length t num s :
  zlen (record_bytes t num s) = 8 + 2 * record_words s.
Proof.
  unfold record_bytes, record_chunks, record_header_chunks.
  change (zlen (concat ?c)) with (clen c).
  rewrite clen_app, !clen_cons, clen_nil, !zlen_i32_be.
  change (clen ([i32_le (st_code t)] ++ content_chunks s))
    with (zlen (concat ([i32_le (st_code t)] ++ content_chunks s))).
  rewrite record_words_exact. lia.
Qed.

Lemma header_bytes_length h : zlen (header_bytes h) = 100.
Proof.
  unfold header_bytes, header_chunks. change (zlen (concat ?c)) with (clen c).
  rewrite !clen_cons, clen_nil, !zlen_i32_be, !zlen_i32_le, !zlen_f64_enc. reflexivity.
Qed.

Theorem record_len_both (t : shape_type) (s : shape) :
  zlen (concat ([i32_le (st_code t)] ++ content_chunks s)) = 2 * record_words s
  /\ 2 * record_words s = size_in_bytes s + 4.
Proof.
  split; [exact (record_words_exact t s)|].
  rewrite <- (record_words_exact t s). change (zlen (concat ?c)) with (clen c).
  rewrite clen_app, clen_cons, clen_nil, zlen_i32_le.
  change (clen (content_chunks s)) with (zlen (content_bytes s)).
  rewrite size_in_bytes_correct. lia.
Qed.
