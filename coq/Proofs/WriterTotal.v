(** C12 at the level of calls: under ANY fault plan armed on either
    destination at any time, in ANY writer state, every call of a history
    returns Ok, the type-mismatch error or the injected I/O error — never a
    panic — and a call returns Ok only if every destination operation it
    issued was applied. *)
From SF Require Import Model.Bytes Model.F64 Model.ShapeType Model.Shapes Model.Res Model.Encode
  Model.Construct Model.Writer.
From SF Require Import Proofs.BytesLemmas Proofs.ShapeTypeProofs Proofs.SizeProofs Proofs.WriterCore Proofs.WriterInv
  Proofs.WriterFaults.
Open Scope Z_scope.

Definition good_result (r : res unit) : Prop :=
  r = Ok tt \/ r = Err EIoInjected \/ exists a b, r = Err (EMismatch a b).

Lemma plan_ops_wf st s st0 ops st1 :
  write_shape_plan st s = Ok (st0, ops, st1) -> Forall (fun o => op_wf (snd o)) ops.
Proof.
  unfold write_shape_plan. destruct (negb (st_eqb (h_type (ws_hdr st)) TNull) && negb (st_eqb (h_type (ws_hdr st)) (type_of s))); [discriminate|].
  intros H. injection H as _ <- _.
  destruct (st_eqb (h_type (ws_hdr st)) TNull), (ws_has_shx st), (ws_interrupted st); wf_ops.
Qed.

Lemma plan_never_panics st s : write_shape_plan st s <> Panic.
Proof.
  unfold write_shape_plan. destruct (negb (st_eqb (h_type (ws_hdr st)) TNull) && negb (st_eqb (h_type (ws_hdr st)) (type_of s))); discriminate.
Qed.

Theorem write_shape_outcome st w s : world_pos_ok w ->
  good_result (fst (fst (w_write_shape st w s))) /\ world_pos_ok (snd (w_write_shape st w s)).
Proof.
  intros Hw. unfold w_write_shape. destruct (write_shape_plan st s) as [[[st0 ops] st1]|e|] eqn:Ep.
  - destruct (run_ops_prefix ops w Hw (plan_ops_wf st s st0 ops st1 Ep)) as (pre & post & r & w' & _ & R & Hw' & _ & _ & [[-> _]|[-> _]]);
      rewrite R; cbn [fst snd]; (split; [|exact Hw']); [left; reflexivity|right; left; reflexivity].
  - cbn [fst snd]. split; [|exact Hw]. right. right.
    unfold write_shape_plan in Ep. destruct (negb (st_eqb (h_type (ws_hdr st)) TNull) && negb (st_eqb (h_type (ws_hdr st)) (type_of s))); [|discriminate].
    injection Ep as <-. eauto.
  - exfalso. exact (plan_never_panics st s Ep).
Qed.

Theorem finalize_outcome st w : world_pos_ok w ->
  good_result (fst (fst (w_finalize st w))) /\ world_pos_ok (snd (w_finalize st w)).
Proof.
  intros Hw. unfold w_finalize. destruct (negb (ws_dirty st)); [split; [left; reflexivity|exact Hw]|].
  destruct (run_ops_prefix (finalize_ops st) w Hw (finalize_ops_wf st)) as (pre & post & r & w' & _ & R & Hw' & _ & _ & [[-> _]|[-> _]]);
    rewrite R; cbn [fst snd]; (split; [|exact Hw']); [left; reflexivity|right; left; reflexivity].
Qed.

Lemma heal_pos_ok w : world_pos_ok w -> world_pos_ok (heal w).
Proof. intros [H1 H2]. split; assumption. Qed.

(** Every call of every history, in any state and any world (any fault plans). *)
Theorem run_calls_outcomes : forall cs st w, world_pos_ok w ->
  Forall good_result (fst (fst (run_calls cs st w))) /\ world_pos_ok (snd (run_calls cs st w)).
Proof.
  induction cs as [|c cs IH]; intros st w Hw; [split; [constructor|exact Hw]|].
  cbn [run_calls]. destruct c as [s| |].
  - destruct (write_shape_outcome st w s Hw) as [G Hw1]. destruct (w_write_shape st w s) as [[r st1] w1]. cbn [fst snd] in G, Hw1.
    destruct (IH st1 w1 Hw1) as [G2 Hw2]. destruct (run_calls cs st1 w1) as [[rs st2] w2]. cbn [fst snd] in *.
    split; [constructor; assumption|exact Hw2].
  - destruct (finalize_outcome st w Hw) as [G Hw1]. destruct (w_finalize st w) as [[r st1] w1]. cbn [fst snd] in G, Hw1.
    destruct (IH st1 w1 Hw1) as [G2 Hw2]. destruct (run_calls cs st1 w1) as [[rs st2] w2]. cbn [fst snd] in *.
    split; [constructor; assumption|exact Hw2].
  - destruct (IH st (heal w) (heal_pos_ok w Hw)) as [G2 Hw2]. destruct (run_calls cs st (heal w)) as [[rs st2] w2]. cbn [fst snd] in *.
    split; [constructor; [left; reflexivity|assumption]|exact Hw2].
Qed.

(** A history started on fresh destinations with any fault armed, ended by
    drop or finalize + drop: no call panics, and neither does the drop. *)
Theorem history_never_panics (hs : bool) (t : dest) (k : nat) (persistent : bool) (cs : list wcall) (e : wending) :
  Forall good_result (fst (run_history hs (world_with_fault t k persistent) cs e)).
Proof.
  assert (Hw0 : world_pos_ok (world_with_fault t k persistent)) by (unfold world_pos_ok, dev_pos_ok, world_with_fault, wdev_empty; destruct t; cbn; lia).
  unfold run_history. destruct (run_calls_outcomes cs (w_new hs) _ Hw0) as [G Hw].
  destruct (run_calls cs (w_new hs) (world_with_fault t k persistent)) as [[rs st] w]. cbn [fst snd] in *.
  destruct e; [exact G|].
  destruct (finalize_outcome st w Hw) as [G1 _]. destruct (w_finalize st w) as [[r st1] w1]. cbn [fst snd] in *.
  apply Forall_app. split; [exact G|constructor; [exact G1|constructor]].
Qed.
