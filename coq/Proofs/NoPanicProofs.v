(** Every record-level reader, the header reader and the index reader are
    panic-free programs (generated from Proofs/SimpleProofs.v by renaming: the
    two predicates have the same closure properties). *)
From SF Require Import Model.Bytes Model.F64 Model.ShapeType Model.Shapes Model.Res Model.Encode
  Model.F64Arith Model.Construct Model.Prog Model.Decode.
From SF Require Import Proofs.BytesLemmas Proofs.ProgLemmas Proofs.NoPanic.
Open Scope Z_scope.

Ltac npt1 :=
  first
  [ apply np_take_
  | apply np_reserve_
  | apply np_ret
  | apply np_fail
  | apply np_rep_Z
  | apply np_for_each; intros
  | apply np_bind; [|intros]
  | match goal with
    | |- np (if ?c then _ else _) => destruct c
    | |- np (match ?x with _ => _ end) => destruct x
    | |- np (let '(_, _) := ?x in _) => destruct x
    end ].

Ltac npt := repeat npt1.

Lemma np_read_i32_le : np read_i32_le. Proof. unfold read_i32_le; npt. Qed.
Lemma np_read_i32_be : np read_i32_be. Proof. unfold read_i32_be; npt. Qed.
Lemma np_read_f64 : np read_f64. Proof. unfold read_f64; npt. Qed.

Lemma np_read_shape_type : np read_shape_type.
Proof. unfold read_shape_type. apply np_bind; [apply np_read_i32_le|intros]. npt. Qed.

Ltac npt2 :=
  repeat first
  [ apply np_read_i32_le | apply np_read_i32_be | apply np_read_f64 | apply np_read_shape_type
  | npt1 ].

Lemma np_read_header : np read_header. Proof. unfold read_header; npt2. Qed.
Lemma np_read_record_header : np read_record_header. Proof. unfold read_record_header; npt2. Qed.
Lemma np_read_xy_points d n : np (read_xy_points d n). Proof. unfold read_xy_points; npt2. Qed.
Lemma np_read_zs_into ps : np (read_zs_into ps). Proof. unfold read_zs_into; npt2. Qed.
Lemma np_read_ms_into ps : np (read_ms_into ps). Proof. unfold read_ms_into; npt2. Qed.
Lemma np_read_bbox_xy d : np (read_bbox_xy d). Proof. unfold read_bbox_xy; npt2. Qed.
Lemma np_read_z_range b : np (read_z_range b). Proof. unfold read_z_range; npt2. Qed.
Lemma np_read_m_range b : np (read_m_range b). Proof. unfold read_m_range; npt2. Qed.

Ltac npt3 :=
  repeat first
  [ apply np_read_xy_points | apply np_read_zs_into | apply np_read_ms_into
  | apply np_read_bbox_xy | apply np_read_z_range | apply np_read_m_range
  | apply np_read_i32_le | apply np_read_i32_be | apply np_read_f64 | apply np_read_shape_type
  | npt1 ].

Lemma np_read_point d size : np (read_point d size).
Proof. unfold read_point; destruct d; npt3. Qed.

Lemma np_read_multipoint d size : np (read_multipoint d size).
Proof. unfold read_multipoint; npt3. Qed.

Lemma np_multipart_new d : np (multipart_new d).
Proof. unfold multipart_new, read_parts; npt3. Qed.

Lemma np_read_parts_xy d offs n : np (read_parts_xy d offs n).
Proof. unfold read_parts_xy; npt3. Qed.

Lemma np_read_parts_zs b parts : np (read_parts_zs b parts).
Proof. unfold read_parts_zs; npt3. Qed.

Lemma np_read_parts_ms b parts : np (read_parts_ms b parts).
Proof. unfold read_parts_ms; npt3. Qed.

Ltac npt4 :=
  repeat first
  [ apply np_multipart_new | apply np_read_parts_xy | apply np_read_parts_zs | apply np_read_parts_ms
  | apply np_read_xy_points | apply np_read_zs_into | apply np_read_ms_into
  | apply np_read_bbox_xy | apply np_read_z_range | apply np_read_m_range
  | apply np_read_i32_le | apply np_read_i32_be | apply np_read_f64 | apply np_read_shape_type
  | npt1 ].

Lemma np_read_polyline_body d size : np (read_polyline_body d size).
Proof. unfold read_polyline_body; npt4. Qed.

Lemma np_read_multipatch size : np (read_multipatch size).
Proof. unfold read_multipatch, read_patch_type; npt4. Qed.

Lemma np_read_content t size : np (read_content t size).
Proof.
  destruct t; cbn [read_content]; try apply np_ret; try apply np_read_point;
    try apply np_read_multipoint; try apply np_read_multipatch;
    unfold read_polyline, read_polygon; (apply np_bind; [apply np_read_polyline_body|intros; apply np_ret]).
Qed.

Lemma np_read_from req size : np (read_from req size).
Proof.
  unfold read_from. apply np_bind; [apply np_read_shape_type|intros t].
  destruct req; [destruct (st_eqb t s); [apply np_read_content|apply np_fail]|apply np_read_content].
Qed.

Lemma np_read_one_shape req : np (read_one_shape req).
Proof.
  unfold read_one_shape. apply np_bind; [apply np_read_record_header|intros hdr].
  destruct ((snd hdr * 2 <? 0) || (two31 <=? snd hdr * 2)); [apply np_fail|].
  apply np_bind; [apply np_read_from|intros; apply np_ret].
Qed.

Lemma np_read_index_file : np read_index_file.
Proof. unfold read_index_file. apply np_bind; [apply np_read_header|intros]. npt2. Qed.

