(** C11: a crash at any byte of the .shp operation sequence never makes a
    reader (without index) see anything but a prefix of the written shapes. *)
From SF Require Import Model.Bytes Model.F64 Model.ShapeType Model.Shapes Model.Res Model.Encode
  Model.F64Arith Model.Construct Model.Writer Model.Prog Model.Decode Model.Reader Spec.Esri Spec.Denote Spec.Layout.
From SF Require Import Proofs.BytesLemmas Proofs.ShapeTypeProofs Proofs.SizeProofs Proofs.ProgLemmas Proofs.RecordL1
  Proofs.ReaderSeq Proofs.WriterCore Proofs.WriterInv Proofs.WriterFaults Proofs.EncodeRef Proofs.LayoutConf Proofs.RoundTrip
  Proofs.CrashRead Proofs.CrashStates.
Open Scope Z_scope.

Ltac Zify.zify_post_hook ::= Z.div_mod_to_equations.

(** ** The crash invariant along any history *)
Lemma run_calls_crash hs : forall cs st w ss,
  WInv hs st w ss -> Forall (fun x => type_of x <> TNull) ss -> Forall call_ok cs ->
  CrashInv w (records_from 1 ss) ->
  exists rs st' w', run_calls cs st w = (rs, st', w') /\ WInv hs st' w' (accepted_acc ss cs) /\
                    CrashInv w' (records_from 1 (accepted_acc ss cs)).
Proof.
  induction cs as [|c cs IH]; intros st w ss Inv Hss Hcs HC.
  - exists [], st, w. auto.
  - inversion Hcs as [|? ? Hc Hcs']; subst. destruct c as [s| |]; cbn [call_ok] in Hc; [| |contradiction].
    + cbn [run_calls accepted_acc]. pose proof (write_crash hs st w ss s Inv Hc Hss HC) as HC1.
      destruct (accepts_type ss s) eqn:Ha.
      * destruct (write_accepted hs st w ss s Inv Hc Hss Ha) as (st1 & w1 & E & Inv1). rewrite E in *. cbn [snd] in HC1.
        assert (Hnn : Forall (fun x => type_of x <> TNull) (ss ++ [s]))
          by (apply Forall_app; split; [exact Hss|constructor; [exact Hc|constructor]]).
        destruct (IH st1 w1 (ss ++ [s]) Inv1 Hnn Hcs' HC1) as (rs & st2 & w2 & E2 & Inv2 & HC2).
        rewrite E2. eexists; eexists; eexists. split; [reflexivity|split; assumption].
      * destruct ss as [|s0 ss']; [discriminate|]. cbn [accepts_type] in Ha.
        rewrite (write_rejected hs st w ss' s0 s Inv (Forall_inv Hss) Ha) in *. cbn [snd] in HC1.
        destruct (IH st w (s0 :: ss') Inv Hss Hcs' HC1) as (rs & st2 & w2 & E2 & Inv2 & HC2). rewrite E2. eexists; eexists; eexists. split; [reflexivity|split; assumption].
    + cbn [run_calls accepted_acc]. pose proof (finalize_crash hs st w ss Inv HC) as HC1.
      destruct (finalize_step hs st w ss Inv) as (st1 & w1 & E & Inv1 & _). rewrite E in *. cbn [snd] in HC1.
      destruct (IH st1 w1 ss Inv1 Hss Hcs' HC1) as (rs & st2 & w2 & E2 & Inv2 & HC2). rewrite E2. eexists; eexists; eexists. split; [reflexivity|split; assumption].
Qed.

(** Every byte-level prefix of the .shp operation sequence of any history
    (ended by drop or finalize+drop) has the crash form. *)
Theorem crash_states_shp hs cs e : Forall call_ok cs ->
  forall p, is_prefix p (explode (trace (w_shp (snd (run_history hs world0 cs e))))) ->
  crash_form (records_from 1 (accepted_acc [] cs)) (fst (bp_ops p ([], 0%nat))).
Proof.
  intros Hcs. unfold run_history.
  destruct (run_calls_crash hs cs (w_new hs) world0 [] (WInv_init hs) (Forall_nil _) Hcs world0_crash)
    as (rs & st & w & E & Inv & HC). rewrite E. destruct e.
  - cbn [snd]. unfold w_drop. apply (finalize_crash hs st w _ Inv HC).
  - destruct (finalize_step hs st w _ Inv) as (st1 & w1 & E1 & Inv1 & _).
    pose proof (finalize_crash hs st w _ Inv HC) as HC1. rewrite E1 in *. cbn [snd] in *.
    unfold w_drop. apply (finalize_crash hs st1 w1 _ Inv1 HC1).
Qed.

(** ** The records the writer stores are records the reader accepts *)
Lemma written_records_ok req ss :
  Forall shape_ok ss -> one_type ss -> FileFits ss -> RecordsFit ss ->
  (req = None \/ req = Some (file_type ss)) ->
  Forall (record_ok req) (numbered 1 (map rec_of_shape ss)).
Proof.
  intros Hok Hty Hf Hrf Hreq.
  pose proof (layout_conformant ss Hok Hty Hf) as (_ & _ & Hr & _). unfold layout in Hr. cbn [rf_records rf_type] in Hr.
  rewrite Forall_forall in *. intros nr Hin. destruct (Hr nr Hin) as (H1 & H2 & H3). unfold record_ok.
  split; [exact H1|]. split; [exact H2|].
  assert (Hin2 : exists s, In s ss /\ snd nr = rec_of_shape s).
  { clear -Hin. revert Hin. generalize 1. induction ss as [|s r IH]; intros i Hin; cbn [map numbered] in Hin; [contradiction|].
    destruct Hin as [<-|Hin]; [exists s; split; [left; reflexivity|reflexivity]|].
    destruct (IH _ Hin) as (s' & Hs' & E). exists s'. split; [right; exact Hs'|exact E]. }
  destruct Hin2 as (s & Hs & E). rewrite E, zlen_ref_content_shape.
  unfold RecordsFit in Hrf. rewrite Forall_forall in Hrf. split; [apply Hrf, Hs|].
  unfold accepts. rewrite ref_type_rec_of_shape. unfold one_type in Hty. rewrite Forall_forall in Hty. rewrite (Hty s Hs).
  destruct Hreq as [-> | ->]; auto.
Qed.

Lemma firstn_numbered_map j i ss :
  map (fun nr : Z * ref_rec => @Ok shape (denote (snd nr))) (firstn j (numbered i (map rec_of_shape ss)))
  = map (fun s => Ok (on_read s)) (firstn j ss).
Proof.
  revert i ss; induction j as [|j IH]; intros i ss; [reflexivity|]. destruct ss as [|s r]; [reflexivity|].
  cbn [map numbered firstn snd]. rewrite denote_rec_of_shape, IH. reflexivity.
Qed.

(** The reader on any crash state of the .shp. *)
Theorem crash_prefix (hs : bool) (cs : list wcall) (e : wending) (req : option shape_type) (fuel : nat) :
  Forall call_ok cs ->
  let ss := accepted_acc [] cs in
  Forall shape_ok ss -> FileFits ss -> RecordsFit ss -> (req = None \/ req = Some (file_type ss)) ->
  forall p, is_prefix p (explode (trace (w_shp (snd (run_history hs world0 cs e))))) ->
  let buf := fst (bp_ops p ([], 0%nat)) in
  (exists r s', run r_new (src_of buf) = (r, s') /\ forall st, r <> Ok st) \/
  (exists j tail ended st' s',
     run (st <-- r_new ;; it_pull fuel req st) (src_of buf)
     = (Ok (map (fun s => Ok (on_read s)) (firstn j ss) ++ tail, ended, st'), s') /\
     (tail = [] \/ tail = [Err EIoEof])).
Proof.
  intros Hcs ss Hok Hf Hrf Hreq p Hp buf.
  destruct (crash_states_shp hs cs e Hcs p Hp) as (H' & m & E & S). fold ss in E, S. fold buf in E.
  pose proof (written_records_ok req ss Hok (accepted_one_type0 cs) Hf Hrf Hreq) as Hrecs.
  rewrite records_is_ref in E, S. set (rs := numbered 1 (map rec_of_shape ss)) in *.
  destruct S as [[Hnil Hlen]|Hlen].
  - (* no complete header yet: fewer than 100 bytes, or exactly 100 with nothing after *)
    rewrite Hnil, app_nil_r in E. destruct (Nat.eq_dec (length H') 100) as [H100|Hne].
    + destruct (crash_read_noindex req H' rs 0 fuel H100 Hrecs) as [(e0 & s' & Er)|(j & tail & ended & st' & s' & Er & Ht)].
      * pose proof (zlen_nonneg (ref_records_bytes rs)). lia.
      * unfold rs. rewrite <- records_is_ref, zlen_records_from. unfold FileFits, file_words in Hf. unfold two31 in *. lia.
      * left. cbn [Z.to_nat firstn] in Er. rewrite app_nil_r in Er. rewrite E. exists (Err e0), s'. split; [exact Er|discriminate].
      * right. cbn [Z.to_nat firstn] in Er. rewrite app_nil_r in Er. rewrite E. exists j, tail, ended, st', s'.
        unfold rs in Er. rewrite firstn_numbered_map in Er. split; [exact Er|exact Ht].
    + left. rewrite E. destruct (crash_read_short H' ltac:(lia)) as (r & s' & Er & Hr). exists r, s'. split; assumption.
  - destruct (Nat.le_ge_cases m (length (ref_records_bytes rs))) as [Hm|Hm].
    + destruct (crash_read_noindex req H' rs (Z.of_nat m) fuel Hlen Hrecs) as [(e0 & s' & Er)|(j & tail & ended & st' & s' & Er & Ht)].
      * unfold zlen. lia.
      * unfold rs. rewrite <- records_is_ref, zlen_records_from. unfold FileFits, file_words in Hf. unfold two31 in *. lia.
      * left. rewrite Nat2Z.id in Er. rewrite E. exists (Err e0), s'. split; [exact Er|discriminate].
      * right. rewrite Nat2Z.id in Er. rewrite E. exists j, tail, ended, st', s'.
        unfold rs in Er. rewrite firstn_numbered_map in Er. split; [exact Er|exact Ht].
    + rewrite (firstn_all2 _ Hm) in E. rewrite <- (firstn_all (ref_records_bytes rs)) in E.
      destruct (crash_read_noindex req H' rs (zlen (ref_records_bytes rs)) fuel Hlen Hrecs) as [(e0 & s' & Er)|(j & tail & ended & st' & s' & Er & Ht)].
      * pose proof (zlen_nonneg (ref_records_bytes rs)). lia.
      * unfold rs. rewrite <- records_is_ref, zlen_records_from. unfold FileFits, file_words in Hf. unfold two31 in *. lia.
      * left. unfold zlen in Er. rewrite Nat2Z.id in Er. rewrite E. exists (Err e0), s'. split; [exact Er|discriminate].
      * right. unfold zlen in Er. rewrite Nat2Z.id in Er. rewrite E. exists j, tail, ended, st', s'.
        unfold rs in Er. rewrite firstn_numbered_map in Er. split; [exact Er|exact Ht].
Qed.

