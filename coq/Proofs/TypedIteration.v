(** C06 at the level of whole files: reading a conformant file (records of
    any types, in any mixture) with the typed reader of type t yields exactly
    what the generic reader yields, converted record by record, up to and
    including the first record of another type — where, without an index, the
    iteration ends; and the bulk reads (`read_as`, `read`) are the first error
    or all the values. *)
From SF Require Import Model.Bytes Model.F64 Model.ShapeType Model.Shapes Model.Res Model.Encode
  Model.F64Arith Model.Construct Model.Prog Model.Decode Model.Reader Model.Convert Spec.Esri Spec.Denote.
From SF Require Import Proofs.BytesLemmas Proofs.ShapeTypeProofs Proofs.ProgLemmas Proofs.DecodePrims
  Proofs.DecodePoints Proofs.RecordL1 Proofs.ReaderSeq Proofs.TypedGeneric Proofs.Truncation Proofs.CrashRead.
Open Scope Z_scope.

Ltac Zify.zify_post_hook ::= Z.div_mod_to_equations.

(** What a record denotes has the record's type. *)
Lemma type_of_denote r : rec_conformant r -> type_of (denote r) = ref_type r.
Proof.
  intros Hc. pose proof (L1_fields r Hc) as Hr.
  set (s0 := src_of (ref_fields r)).
  assert (Hc0 : clean s0) by (unfold clean, s0, src_of; cbn; split; [reflexivity|lia]).
  destruct (Hr s0 [] Hc0) as (s1 & Hrun & _); [rewrite s_rest_skipn, app_nil_r; reflexivity|].
  exact (read_content_type (ref_type r) _ s0 (denote r) s1 Hrun).
Qed.

(** The items of a typed iteration without index. *)
Fixpoint typed_items (t : shape_type) (rs : list (Z * ref_rec)) : list (res shape) :=
  match rs with
  | [] => []
  | (_, r) :: rest =>
      if st_eqb (ref_type r) t then Ok (denote r) :: typed_items t rest
      else [Err (EMismatch t (ref_type r))]
  end.

(** ...are the generic items converted one by one, cut after the first error. *)
Fixpoint cut_after_error (l : list (res shape)) : list (res shape) :=
  match l with
  | [] => []
  | Ok s :: r => Ok s :: cut_after_error r
  | x :: _ => [x]
  end.

Lemma typed_items_convert t rs : Forall (fun nr => rec_conformant (snd nr)) rs ->
  typed_items t rs = cut_after_error (map (fun nr => try_from t (denote (snd nr))) rs).
Proof.
  induction 1 as [|[n r] rs Hc _ IH]; [reflexivity|]. cbn [typed_items map snd cut_after_error].
  rewrite try_from_spec, (type_of_denote r Hc). destruct (st_eqb (ref_type r) t); [rewrite IH; reflexivity|reflexivity].
Qed.

Theorem it_pull_typed_noindex t : forall rs st s rest,
  r_index st = None -> clean s -> r_cur st = s_pos s ->
  flen_bytes st = r_cur st + zlen (ref_records_bytes rs) -> flen_bytes st < two64 ->
  Forall (record_ok None) rs -> s_rest s = ref_records_bytes rs ++ rest ->
  exists st' s', run (it_pull (S (S (length rs))) (Some t) st) s = (Ok (typed_items t rs, true, st'), s').
Proof.
  induction rs as [|[num r] rs IH]; intros st s rest Hidx Hcl Hcur Hlen Hov Hok Hr.
  - unfold ref_records_bytes in Hlen; cbn [flat_map] in Hlen. change (zlen (@nil Z)) with 0 in Hlen.
    rewrite it_pull_unfold, run_bind. unfold it_next. rewrite Hidx.
    destruct (Z.leb_spec (flen_bytes st) (r_cur st)) as [_|?]; [|lia]. cbn [run fst snd]. eexists; eexists; reflexivity.
  - inversion Hok as [|? ? Hok1 Hok2]; subst. pose proof Hok1 as (Hnum & Hc & Hsz & _). cbn [fst snd] in *.
    unfold ref_records_bytes in Hlen, Hr. cbn [flat_map fst snd] in Hlen, Hr. fold (ref_records_bytes rs) in Hlen, Hr.
    rewrite zlen_app in Hlen. rewrite <- app_assoc in Hr.
    pose proof (zlen_nonneg (ref_records_bytes rs)) as Hnn.
    assert (Hpos : 0 < zlen (ref_record num r)) by (rewrite zlen_ref_record; pose proof (zlen_nonneg (ref_content r)); lia).
    cbn [length]. rewrite it_pull_unfold, run_bind. cbn [typed_items].
    destruct (st_eqb (ref_type r) t) eqn:Et.
    + (* a record of the requested type *)
      apply st_eqb_eq in Et.
      assert (Hokt : record_ok (Some t) (num, r)) by (split; [exact Hnum|split; [exact Hc|split; [exact Hsz|exact Et]]]).
      destruct (it_next_noindex (Some t) st s num r (ref_records_bytes rs ++ rest) Hidx Hcl Hcur) as (s1 & Hrun & Hc1 & Hd1 & Hp1); auto; try lia.
      rewrite Hrun. cbn [fst snd]. rewrite run_bind.
      set (st1 := set_cur st (r_cur st + zlen (ref_record num r))).
      assert (Hr1 : s_rest s1 = ref_records_bytes rs ++ rest) by (eapply rest_after; eauto; apply Hcl).
      destruct (IH st1 s1 rest) as (st2 & s2 & Hrun2); auto.
      * unfold st1, set_cur; cbn [r_cur]; lia.
      * change (flen_bytes st1) with (flen_bytes st). change (r_cur st1) with (r_cur st + zlen (ref_record num r)). lia.
      * rewrite Hrun2. cbn [run fst snd]. eexists; eexists; reflexivity.
    + (* a record of another type: the typed read fails with the mismatch error, the iteration ends *)
      assert (Hokn : record_ok None (num, r)) by exact Hok1.
      destruct (L1_record None num r Hnum Hc Hsz I s (ref_records_bytes rs ++ rest) Hcl Hr) as (s1 & Hrun & _).
      pose proof (typed_read_one_shape t s _ _ s1 Hrun) as Ht.
      rewrite try_from_spec, (type_of_denote r Hc), Et in Ht. cbn [rmap] in Ht.
      destruct (run (read_one_shape (Some t)) s) as [rr s2] eqn:E2. cbn [fst] in Ht. subst rr.
      assert (Hlt : r_cur st < flen_bytes st) by lia.
      rewrite (it_next_error (Some t) st s _ s2 Hidx Hlt E2). cbn [fst snd]. rewrite run_bind.
      rewrite it_pull_after_error; [|exact Hidx|cbn [set_cur r_cur]; change (flen_bytes (set_cur st (flen_bytes st))) with (flen_bytes st); lia].
      cbn [run fst snd]. eexists; eexists; reflexivity.
Qed.

(** ** Bulk reads: `collect::<Result<Vec<_>, _>>()` over the iteration *)
Fixpoint collect_res (items : list (res shape)) : res (list shape) :=
  match items with
  | [] => Ok []
  | Ok s :: r => match collect_res r with Ok l => Ok (s :: l) | e => e end
  | Err e :: _ => Err e
  | Panic :: _ => Panic
  end.

Lemma collect_cut l : collect_res (cut_after_error l) = collect_res l.
Proof. induction l as [|[s|e|] l IH]; cbn [cut_after_error collect_res]; [reflexivity|rewrite IH; reflexivity|reflexivity|reflexivity]. Qed.

Lemma collect_map_try_from t (l : list shape) : collect_res (map (try_from t) l) = convert_all t l.
Proof.
  induction l as [|s l IH]; [reflexivity|]. cbn [map collect_res convert_all].
  destruct (try_from t s) as [x|e|] eqn:E; try reflexivity.
  - rewrite IH. assert (x = s) by (rewrite try_from_spec in E; destruct (st_eqb (type_of s) t); [injection E as <-; reflexivity|discriminate]). subst x.
    destruct (convert_all t l); reflexivity.
Qed.

(** `read_as::<T>` of a conformant file = `read` followed by the bulk conversion. *)
Theorem typed_bulk_is_generic_bulk_converted t rs : Forall (fun nr => rec_conformant (snd nr)) rs ->
  collect_res (typed_items t rs) = convert_all t (map (fun nr => denote (snd nr)) rs).
Proof.
  intros Hc. rewrite (typed_items_convert t rs Hc), collect_cut, <- collect_map_try_from, map_map. reflexivity.
Qed.
