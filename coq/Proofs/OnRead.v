(** Characterisation of [on_read]: what exactly survives a write-then-read
    round trip, clause by clause as C01 states it. *)
From SF Require Import Model.Bytes Model.F64 Model.ShapeType Model.Shapes Model.Res Model.Encode
  Model.F64Arith Model.Construct Spec.Esri Spec.Denote Spec.Layout.
From SF Require Import Proofs.LayoutConf.
Open Scope Z_scope.

(** The observable coordinates of a point of dimension d. *)
Definition xyz_of (d : dim) (p : pt) : f64 * f64 * f64 := (px p, py p, if has_z_dim d then pz p else 0).
Definition m_of (d : dim) (p : pt) : f64 := if has_m_dim d then pm p else 0.

Definition shape_box (s : shape) : option bbox :=
  match s with
  | SMultipoint _ b _ | SPolyline _ b _ | SPolygon _ b _ | SMultipatch b _ => Some b
  | _ => None
  end.

Definition patch_kinds (s : shape) : list pkind :=
  match s with SMultipatch _ ps => map fst ps | _ => [] end.

Definition is_point (s : shape) : bool := match s with SPoint _ _ => true | _ => false end.

Lemma map_map_ext {A B C} (f : A -> B) (g : B -> C) (h : A -> C) (l : list (list A)) :
  (forall x, g (f x) = h x) -> map (map g) (map (map f) l) = map (map h) l.
Proof.
  intros H. rewrite map_map. apply map_ext. intros ps. rewrite map_map. apply map_ext. exact H.
Qed.

(** Same variant, same dimension, same part / ring / patch structure. *)
Theorem on_read_type s : type_of (on_read s) = type_of s /\ shape_dim (on_read s) = shape_dim s.
Proof. destruct s; split; reflexivity. Qed.

(** X, Y and Z of every vertex of every part: bit-identical, same grouping, same order. *)
Ltac fin d := unfold xyz_of, m_of, norm_pt, clean_pt; cbn [px py pz pm]; destruct d; reflexivity.

Theorem on_read_xyz s :
  map (map (xyz_of (shape_dim s))) (shape_parts (on_read s)) = map (map (xyz_of (shape_dim s))) (shape_parts s).
Proof.
  destruct s as [|d p|d b ps|d b parts|d b rings|b patches]; cbn [on_read shape_parts shape_dim map].
  - reflexivity.
  - do 2 f_equal. fin d.
  - f_equal. rewrite map_map. apply map_ext. intros p. fin d.
  - apply map_map_ext. intros p. fin d.
  - rewrite !map_map. apply map_ext. intros r. cbn [ring_from_points snd]. rewrite map_map. apply map_ext.
    intros p. fin d.
  - rewrite !map_map. apply map_ext. intros r. cbn [snd]. rewrite map_map. apply map_ext. intros p. reflexivity.
Qed.

(** Measures: bit-identical for single points; for multi-vertex shapes NaN and
    anything at or below the no-data threshold becomes exactly NO_DATA, every
    other value is bit-identical. *)
Theorem on_read_measures s :
  map (map (m_of (shape_dim s))) (shape_parts (on_read s))
  = map (map (fun p => if is_point s then m_of (shape_dim s) p
                       else if has_m_dim (shape_dim s) then read_m_norm (pm p) else 0)) (shape_parts s).
Proof.
  destruct s as [|d p|d b ps|d b parts|d b rings|b patches]; cbn [on_read shape_parts shape_dim map is_point].
  - reflexivity.
  - do 2 f_equal. fin d.
  - f_equal. rewrite map_map. apply map_ext. intros p. fin d.
  - apply map_map_ext. intros p. fin d.
  - rewrite !map_map. apply map_ext. intros r. cbn [ring_from_points snd]. rewrite map_map. apply map_ext.
    intros p. fin d.
  - rewrite !map_map. apply map_ext. intros r. cbn [snd]. rewrite map_map. apply map_ext. intros p. reflexivity.
Qed.

Lemma read_m_norm_spec v :
  read_m_norm v = (if f64_is_nan v || f64_le v F_NO_DATA then F_NO_DATA else v).
Proof.
  unfold read_m_norm, f64_gt, f64_lt, f64_le.
  change (f64_is_nan F_NO_DATA) with false. cbn [negb andb].
  destruct (f64_is_nan v); cbn [negb andb orb]; [reflexivity|].
  destruct (f64_key F_NO_DATA <? f64_key v) eqn:E1; destruct (f64_key v <=? f64_key F_NO_DATA) eqn:E2; try reflexivity; lia.
Qed.

(** Patch kinds and the per-shape box (the coordinates the type carries). *)
Theorem on_read_kinds s : patch_kinds (on_read s) = patch_kinds s.
Proof. destruct s; try reflexivity. cbn [on_read patch_kinds]. rewrite map_map. reflexivity. Qed.

Theorem on_read_box s :
  shape_box (on_read s) = match shape_box s with Some b => Some (clean_box (shape_dim s) b) | None => None end.
Proof. destruct s; reflexivity. Qed.

(** Ring roles are recomputed from the vertex order of what was stored. *)
Theorem on_read_roles d b rings :
  on_read (SPolygon d b rings)
  = SPolygon d (clean_box d b) (map (fun r => (ring_role (map (norm_pt d) (snd r)), map (norm_pt d) (snd r))) rings).
Proof. reflexivity. Qed.

(** The orientation test only looks at X and Y. *)
Lemma shoelace_terms_norm d ps : shoelace_terms (map (norm_pt d) ps) = shoelace_terms ps.
Proof.
  induction ps as [|p0 r IH]; [reflexivity|]. destruct r as [|p1 r']; [reflexivity|].
  change (shoelace_terms (map (norm_pt d) (p0 :: p1 :: r')))
    with (fmul (fsub (px p1) (px p0)) (fadd (py p1) (py p0)) :: shoelace_terms (map (norm_pt d) (p1 :: r'))).
  rewrite IH. reflexivity.
Qed.

Lemma ring_role_norm d ps : ring_role (map (norm_pt d) ps) = ring_role ps.
Proof. unfold ring_role, ring_is_inner, shoelace_area. rewrite shoelace_terms_norm. reflexivity. Qed.

(** A value whose absent dimensions are +0.0 (what every constructor and the
    harness builds) is returned unchanged up to measures and roles. *)
Definition clean_point (d : dim) (p : pt) : Prop := clean_pt d p = p.

Theorem on_read_point d p : clean_point d p -> on_read (SPoint d p) = SPoint d p.
Proof. intros H. cbn [on_read]. rewrite H. reflexivity. Qed.
