(** C12 (continued): a finalize that failed harms nothing that follows.

    After a failed finalize the destinations are left positioned inside their
    headers and the writer is marked `finalize_interrupted`.  Once the
    destinations work again, EVERY continuation — more writes, accepted or
    rejected, finalizes in any place, drop — behaves exactly as in the
    undisturbed run: same results, same final files.  (Before the repair
    276a00f the first write after the failed finalize overwrote the header;
    known finding F15, now fixed.) *)
From SF Require Import Model.Bytes Model.F64 Model.ShapeType Model.Shapes Model.Res Model.Encode
  Model.Construct Model.Writer.
From SF Require Import Proofs.BytesLemmas Proofs.ShapeTypeProofs Proofs.SizeProofs Proofs.WriterCore Proofs.WriterInv
  Proofs.WriterFaults.
Open Scope Z_scope.

(** The state after a failed finalize, once the destinations work. *)
Record Recovering (hs : bool) (st : wstate) (w : world) (ss : list shape) : Prop := mkRecovering {
  rc_buf : WBuf hs st w ss;
  rc_wf : world_wf w;
  rc_dirty : ws_dirty st = true;
  rc_int : ws_interrupted st = true
}.

Lemma heal_wf w : world_pos_ok w -> world_wf (heal w).
Proof. intros [Hp1 Hp2]. split; split; [reflexivity|exact Hp1|reflexivity|exact Hp2]. Qed.

Theorem failed_finalize_recovering hs st w ss :
  WBuf hs st w ss -> ws_dirty st = true ->
  forall st1 w1, w_finalize st w = (Err EIoInjected, st1, w1) -> Recovering hs st1 (heal w1) ss.
Proof.
  intros Hb Hd st1 w1 E.
  destruct (finalize_any hs st w ss Hb Hd) as (r & st1' & w1' & E' & Hcase). rewrite E in E'. injection E' as <- <- <-.
  destruct Hcase as [[Hr _]|(_ & -> & Hb1)]; [discriminate|].
  constructor; [apply heal_WBuf; exact Hb1|apply heal_wf; exact (wb_pos _ _ _ _ Hb1)|exact Hd|reflexivity].
Qed.

(** ** Buffer/position lemmas that do not need the position *)
Lemma bp_first_header_slot H x h :
  fst x = H -> slot H [] ->
  bp_ops (WSeekStart 0 :: map WriteAll (header_chunks h)) x = (header_bytes h, 100%nat).
Proof.
  intros Hb Hs. destruct x as [buf pos]; cbn [fst] in Hb. subst buf.
  unfold bp_ops. cbn [fold_left bp_op]. fold (bp_ops (map WriteAll (header_chunks h)) (H, Z.to_nat 0)).
  change (Z.to_nat 0) with 0%nat. rewrite bp_write_chunks by lia. fold (header_bytes h).
  pose proof (write_header_slot H [] h Hs) as W. rewrite !app_nil_r in W. rewrite W, header_bytes_len. reflexivity.
Qed.

Lemma bp_seek_end_hfile H R x : fst x = H ++ R -> hfile H R (bp_ops [WSeekEnd] x).
Proof. intros Hb. destruct x as [buf pos]. cbn [fst] in Hb. unfold bp_ops. cbn [fold_left bp_op]. split; [exact Hb|reflexivity]. Qed.

(** ** finalize from a recovering state completes both files *)
Lemma finalize_recovering hs st w ss : Recovering hs st w ss ->
  exists st' w', w_finalize st w = (Ok tt, st', w') /\ WInv hs st' w' ss /\ ws_dirty st' = false.
Proof.
  intros [[Hpos Hh Hr Hhs (Hp & Hbp & Hsp) Hx] Hwf Hd Hi]. unfold w_finalize. rewrite Hd. cbn [negb].
  set (ops := finalize_ops st).
  destruct (run_ops_ok ops w Hwf (finalize_ops_wf st)) as (w' & R & Hw' & B1 & B2 & F1 & F2). rewrite R.
  do 2 eexists. split; [reflexivity|]. split; [|reflexivity].
  assert (Es : ops_of Shp ops = fin_ops (final_hdr ss)).
  { unfold ops. rewrite (finalize_ops_shp st hs Hhs), (final_header_inv st ss Hh). reflexivity. }
  constructor; cbn [ws_hdr ws_recnum ws_dirty ws_has_shx ws_interrupted]; auto.
  - exists (header_bytes (final_hdr ss)). split; [|split; [right; apply header_bytes_len|]].
    + rewrite B1, Es. apply (bp_finalize_any Hp); assumption.
    + intros _. split; [reflexivity|]. rewrite F1, Es. unfold fin_ops.
      change (WSeekStart 0 :: map WriteAll (header_chunks (final_hdr ss)) ++ [WSeekEnd; WFlush])
        with ((WSeekStart 0 :: map WriteAll (header_chunks (final_hdr ss))) ++ [WSeekEnd; WFlush]).
      apply last_is_flush_finalize.
  - destruct hs.
    + destruct Hx as (Hxh & Hbx & Hsx).
      assert (Ex : ops_of Shx ops = fin_ops (final_shx_hdr ss)).
      { unfold ops. rewrite (finalize_ops_shx st Hhs), (shx_header_inv st ss Hh Hr). reflexivity. }
      exists (header_bytes (final_shx_hdr ss)). split; [|split; [right; apply header_bytes_len|]].
      * rewrite B2, Ex. apply (bp_finalize_any Hxh); assumption.
      * intros _. split; [reflexivity|]. rewrite F2, Ex. unfold fin_ops.
        change (WSeekStart 0 :: map WriteAll (header_chunks (final_shx_hdr ss)) ++ [WSeekEnd; WFlush])
          with ((WSeekStart 0 :: map WriteAll (header_chunks (final_shx_hdr ss))) ++ [WSeekEnd; WFlush]).
        apply last_is_flush_finalize.
    + assert (Ex : ops_of Shx ops = []) by (unfold ops; apply finalize_ops_shx_none; exact Hhs).
      rewrite B2, Ex. exact Hx.
Qed.

(** ** write_shape from a recovering state *)
Lemma write_rejected_recovering hs st w ss s0 s :
  Recovering hs st w (s0 :: ss) -> type_of s0 <> TNull -> st_eqb (type_of s0) (type_of s) = false ->
  w_write_shape st w s = (Err (EMismatch (type_of s0) (type_of s)), st, w).
Proof.
  intros [[_ Hh _ _ _ _] _ _ _] Hnn Hne. unfold w_write_shape, write_shape_plan.
  rewrite Hh, hdr_after_type.
  replace (st_eqb (type_of s0) TNull) with false.
  - cbn [negb andb]. rewrite Hne. reflexivity.
  - symmetry. destruct (st_eqb (type_of s0) TNull) eqn:E; [|reflexivity]. apply st_eqb_eq in E. contradiction.
Qed.

Lemma write_accepted_recovering hs st w ss s :
  Recovering hs st w ss -> type_of s <> TNull -> Forall (fun x => type_of x <> TNull) ss -> accepts_type ss s = true ->
  exists st' w', w_write_shape st w s = (Ok tt, st', w') /\ WInv hs st' w' (ss ++ [s]).
Proof.
  intros [[Hpos Hh Hr Hhs (Hp & Hbp & Hsp) Hx] Hwf Hd Hi] Hs Hss Ha.
  unfold w_write_shape, write_shape_plan. rewrite Hh, hdr_after_type, Hhs, Hi.
  destruct ss as [|s0 ss'].
  - (* first write: header reserved at offset 0, both destinations re-positioned, then the record *)
    change (st_eqb TNull TNull) with true. cbn [negb andb].
    set (h0 := set_type_box (hdr_after []) (type_of s) sentinel_box).
    cbn [ws_hdr ws_recnum ws_dirty ws_has_shx ws_interrupted h_type h0 set_type_box].
    match goal with |- context [run_ops ?o w] => set (ops := o) end.
    assert (Hopswf : Forall (fun o => op_wf (snd o)) ops).
    { unfold ops. destruct hs; wf_ops. }
    destruct (run_ops_ok ops w Hwf Hopswf) as (w' & R & Hw' & B1 & B2 & F1 & F2). rewrite R.
    do 2 eexists. split; [reflexivity|].
    assert (Es : ops_of Shp ops = (WSeekStart 0 :: map WriteAll (header_chunks h0)) ++ [WSeekEnd]
                                  ++ map WriteAll (record_chunks (type_of s) (wrap_i32 (ws_recnum st)) s)).
    { unfold ops. destruct hs; ops_norm; ops_norm; reflexivity. }
    cbn [records_from index_from] in Hbp, Hsp, Hx. rewrite app_nil_r in Hbp.
    constructor; cbn [ws_hdr ws_recnum ws_dirty ws_has_shx ws_interrupted].
    + exact Hw'.
    + rewrite (hdr_after_snoc [] s eq_refl). reflexivity.
    + rewrite Hr. rewrite zlen_app. change (zlen (@nil shape)) with 0. change (zlen [s]) with 1. lia.
    + reflexivity.
    + exists (header_bytes h0). split; [|split; [right; apply header_bytes_len|intros; discriminate]].
      rewrite B1, Es, !bp_ops_app. rewrite (bp_first_header_slot Hp (bp_of (w_shp w)) h0 Hbp Hsp).
      cbn [app records_from]. rewrite app_nil_r. rewrite Hr. change (1 + zlen (@nil shape)) with 1.
      apply (bp_append (header_bytes h0) []). apply bp_seek_end_hfile. cbn [fst]. rewrite app_nil_r. reflexivity.
    + destruct hs.
      * destruct Hx as (Hxh & Hbx & Hsx). rewrite app_nil_r in Hbx.
        assert (Ex : ops_of Shx ops = (WSeekStart 0 :: map WriteAll (header_chunks h0)) ++ [WSeekEnd]
                       ++ map WriteAll (index_entry_chunks (h_len h0) (wrap_i32 (record_words s)))).
        { unfold ops. ops_norm. ops_norm. reflexivity. }
        exists (header_bytes h0). split; [|split; [right; apply header_bytes_len|intros; discriminate]].
        rewrite B2, Ex, !bp_ops_app. rewrite (bp_first_header_slot Hxh (bp_of (w_shx w)) h0 Hbx Hsx).
        cbn [app index_from]. rewrite app_nil_r.
        apply (bp_append (header_bytes h0) []). apply bp_seek_end_hfile. cbn [fst]. rewrite app_nil_r. reflexivity.
      * assert (Ex : ops_of Shx ops = []) by (unfold ops; ops_norm; ops_norm; reflexivity).
        rewrite B2, Ex. exact Hx.
    + reflexivity.
  - (* later write of the file's type: re-position, then append *)
    cbn [accepts_type] in Ha. pose proof (Forall_inv Hss) as Hs0. cbn beta in Hs0.
    replace (st_eqb (type_of s0) TNull) with false
      by (symmetry; destruct (st_eqb (type_of s0) TNull) eqn:E; [apply st_eqb_eq in E; contradiction|reflexivity]).
    rewrite Ha. cbn [negb andb app].
    apply st_eqb_eq in Ha.
    match goal with |- context [run_ops ?o w] => set (ops := o) end.
    assert (Hopswf : Forall (fun o => op_wf (snd o)) ops).
    { unfold ops. destruct hs; wf_ops. }
    destruct (run_ops_ok ops w Hwf Hopswf) as (w' & R & Hw' & B1 & B2 & F1 & F2). rewrite R.
    do 2 eexists. split; [reflexivity|].
    assert (Hne : records_from 1 (s0 :: ss') <> []).
    { cbn [records_from]. intros E. apply app_eq_nil in E. destruct E as [E _]. revert E. apply record_bytes_nonempty. }
    assert (Hl100 : length Hp = 100%nat) by (destruct Hsp as [[E _]|E]; [contradiction|exact E]).
    constructor; cbn [ws_hdr ws_recnum ws_dirty ws_has_shx ws_interrupted].
    + exact Hw'.
    + rewrite Hh. change (s0 :: ss' ++ [s]) with ((s0 :: ss') ++ [s]).
      rewrite (hdr_after_snoc (s0 :: ss') s) by (cbn [accepts_type]; apply st_eqb_eq; exact Ha). reflexivity.
    + rewrite Hr. change (s0 :: ss' ++ [s]) with ((s0 :: ss') ++ [s]). rewrite zlen_app. change (zlen [s]) with 1. lia.
    + reflexivity.
    + exists Hp. split; [|split; [apply hdr_slot_app; exact Hl100|intros; discriminate]].
      assert (Es : ops_of Shp ops = [WSeekEnd] ++ map WriteAll (record_chunks (type_of s) (wrap_i32 (1 + zlen (s0 :: ss'))) s)).
      { unfold ops. rewrite Hh, hdr_after_type, Hr, Ha. destruct hs; ops_norm; ops_norm; reflexivity. }
      rewrite B1, Es, bp_ops_app. change (s0 :: ss' ++ [s]) with ((s0 :: ss') ++ [s]).
      rewrite records_from_app, records_from_single. apply bp_append. apply bp_seek_end_hfile. exact Hbp.
    + destruct hs.
      * destruct Hx as (Hxh & Hbx & Hsx).
        assert (Ex : ops_of Shx ops = [WSeekEnd] ++ map WriteAll (index_entry_chunks (len_after 50 (s0 :: ss')) (wrap_i32 (record_words s)))).
        { unfold ops. rewrite Hh, hdr_after_len. ops_norm. ops_norm. reflexivity. }
        assert (Hnex : index_from 50 (s0 :: ss') <> []) by (cbn [index_from]; apply index_entry_nonempty).
        assert (Hlx : length Hxh = 100%nat) by (destruct Hsx as [[E _]|E]; [contradiction|exact E]).
        exists Hxh. split; [|split; [apply hdr_slot_app; exact Hlx|intros; discriminate]].
        rewrite B2, Ex, bp_ops_app. change (s0 :: ss' ++ [s]) with ((s0 :: ss') ++ [s]).
        rewrite index_from_app, index_from_single. apply bp_append. apply bp_seek_end_hfile. exact Hbx.
      * assert (Ex : ops_of Shx ops = []) by (unfold ops; ops_norm; ops_norm; reflexivity).
        rewrite B2, Ex. exact Hx.
    + reflexivity.
Qed.

(** ** Any continuation *)
Theorem run_calls_recovering hs : forall cs st w ss,
  Recovering hs st w ss -> Forall (fun x => type_of x <> TNull) ss -> Forall call_ok cs ->
  exists st' w', run_calls cs st w = (expected_results ss cs, st', w') /\
    (WInv hs st' w' (accepted_acc ss cs) \/ Recovering hs st' w' (accepted_acc ss cs)).
Proof.
  induction cs as [|c cs IH]; intros st w ss Rc Hss Hcs.
  - exists st, w. split; [reflexivity|right; exact Rc].
  - inversion Hcs as [|? ? Hc Hcs']; subst. destruct c as [s| |]; cbn [call_ok] in Hc; [| |contradiction].
    + cbn [run_calls accepted_acc expected_results].
      destruct (accepts_type ss s) eqn:Ha.
      * destruct (write_accepted_recovering hs st w ss s Rc Hc Hss Ha) as (st1 & w1 & E & Inv1). rewrite E.
        destruct (run_calls_inv hs cs st1 w1 (ss ++ [s]) Inv1) as (st2 & w2 & E2 & Inv2); auto.
        { apply Forall_app; split; [exact Hss|constructor; [exact Hc|constructor]]. }
        rewrite E2. exists st2, w2. split; [reflexivity|left; exact Inv2].
      * destruct ss as [|s0 ss']; [discriminate|]. cbn [accepts_type] in Ha.
        rewrite (write_rejected_recovering hs st w ss' s0 s Rc (Forall_inv Hss) Ha).
        destruct (IH st w (s0 :: ss') Rc Hss Hcs') as (st2 & w2 & E2 & Inv2).
        rewrite E2. exists st2, w2. split; [reflexivity|exact Inv2].
    + cbn [run_calls accepted_acc expected_results].
      destruct (finalize_recovering hs st w ss Rc) as (st1 & w1 & E & Inv1 & _). rewrite E.
      destruct (run_calls_inv hs cs st1 w1 ss Inv1 Hss Hcs') as (st2 & w2 & E2 & Inv2).
      rewrite E2. exists st2, w2. split; [reflexivity|left; exact Inv2].
Qed.

Lemma drop_files_recovering hs st w ss : Recovering hs st w ss ->
  d_buf (w_shp (w_drop st w)) = final_shp ss /\ d_buf (w_shx (w_drop st w)) = (if hs then final_shx ss else []).
Proof.
  intros Rc. unfold w_drop. destruct (finalize_recovering hs st w ss Rc) as (st1 & w1 & E & Inv1 & Hd). rewrite E. cbn [snd].
  destruct Inv1 as [_ _ _ _ (Hp & [Hb _] & _ & Hdp) Hx _].
  destruct (Hdp Hd) as [-> Hfl]. cbn [bp_of fst] in Hb. split; [exact Hb|].
  destruct hs.
  - destruct Hx as (Hxh & [Hbx _] & _ & Hdx). destruct (Hdx Hd) as [-> _]. exact Hbx.
  - unfold bp_of in Hx. injection Hx as Hx _. exact Hx.
Qed.

(** The headline: a finalize fails (any operation, either destination, any
    fault plan); the destinations work again; then ANY continuation of calls
    returns what it would have returned, and dropping the writer leaves exactly
    the files of the undisturbed history. *)
Theorem failed_finalize_harmless hs st w ss :
  WBuf hs st w ss -> ws_dirty st = true -> Forall (fun x => type_of x <> TNull) ss ->
  forall st1 w1, w_finalize st w = (Err EIoInjected, st1, w1) ->
  forall cs, Forall call_ok cs ->
  exists st2 w2, run_calls cs st1 (heal w1) = (expected_results ss cs, st2, w2) /\
    files (w_drop st2 w2) = (final_shp (accepted_acc ss cs), if hs then final_shx (accepted_acc ss cs) else []).
Proof.
  intros Hb Hd Hss st1 w1 E cs Hcs.
  pose proof (failed_finalize_recovering hs st w ss Hb Hd st1 w1 E) as Rc.
  destruct (run_calls_recovering hs cs st1 (heal w1) ss Rc Hss Hcs) as (st2 & w2 & E2 & [Inv|Rc2]).
  - exists st2, w2. split; [exact E2|]. unfold files. destruct (drop_files hs st2 w2 _ Inv) as (H1 & H2 & _). rewrite H1, H2. reflexivity.
  - exists st2, w2. split; [exact E2|]. unfold files. destruct (drop_files_recovering hs st2 w2 _ Rc2) as (H1 & H2). rewrite H1, H2. reflexivity.
Qed.
