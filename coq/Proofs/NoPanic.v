(** Panic-freedom of reading programs: a program in which `PanicP` is not
    reachable (the source never answers with a panic) never returns Panic, on
    any source: any bytes, any position, any injected fault. *)
From SF Require Import Model.Bytes Model.ShapeType Model.Res Model.Prog.
From SF Require Import Proofs.BytesLemmas Proofs.ProgLemmas.
Open Scope Z_scope.

Inductive np {A} : prog A -> Prop :=
| np_ret a : np (Ret a)
| np_fail e : np (Fail e)
| np_take n k : (forall r, r <> Panic -> np (k r)) -> np (Take n k)
| np_seek_start q k : (forall r, r <> Panic -> np (k r)) -> np (SeekStart q k)
| np_seek_end k : (forall r, r <> Panic -> np (k r)) -> np (SeekEnd k)
| np_reserve n k : np k -> np (Reserve n k).

Lemma do_take_not_panic n s : fst (do_take n s) <> Panic.
Proof. unfold do_take. destruct (faulty_now s); [cbn; discriminate|]. destruct (n <=? length (s_rest s))%nat; cbn; discriminate. Qed.
Lemma do_seek_start_not_panic q s : fst (do_seek_start q s) <> Panic.
Proof. unfold do_seek_start. destruct (faulty_now s); cbn; discriminate. Qed.
Lemma do_seek_end_not_panic s : fst (do_seek_end s) <> Panic.
Proof. unfold do_seek_end. destruct (faulty_now s); cbn; discriminate. Qed.

Theorem np_run {A} (p : prog A) : np p -> forall s, fst (run p s) <> Panic.
Proof.
  induction 1 as [a|e|n k Hk IH|q k Hk IH|k Hk IH|n k Hk IH]; intros s; cbn [run]; try discriminate.
  - pose proof (do_take_not_panic n s). destruct (do_take n s) as [r s']. apply IH. exact H.
  - pose proof (do_seek_start_not_panic q s). destruct (do_seek_start q s) as [r s']. apply IH. exact H.
  - pose proof (do_seek_end_not_panic s). destruct (do_seek_end s) as [r s']. apply IH. exact H.
  - apply IH.
Qed.

Lemma np_bind {A B} (p : prog A) (f : A -> prog B) : np p -> (forall a, np (f a)) -> np (bind p f).
Proof. intros Hp Hf; induction Hp; cbn [bind]; try constructor; auto. Qed.

Lemma np_catch {A} (p : prog A) : np p -> np (catch p).
Proof. induction 1; cbn [catch]; constructor; auto. Qed.

Lemma np_lift_res {A} (r : res A) : r <> Panic -> np (lift_res r).
Proof. destruct r; cbn; intros H; [constructor|constructor|contradiction]. Qed.

Lemma np_take_ n : np (take n). Proof. constructor. intros; apply np_lift_res; assumption. Qed.
Lemma np_seek_start_ q : np (seek_start q). Proof. constructor. intros; apply np_lift_res; assumption. Qed.
Lemma np_seek_end_ : np seek_end. Proof. constructor. intros; apply np_lift_res; assumption. Qed.
Lemma np_reserve_ n : np (reserve n). Proof. repeat constructor. Qed.

Lemma np_rep_pos {A} n (p : prog A) : np p -> np (rep_pos n p).
Proof. intros Hp; induction n; cbn [rep_pos]; repeat (apply np_bind; [assumption|intros]); try constructor. Qed.
Lemma np_rep_Z {A} n (p : prog A) : np p -> np (rep_Z n p).
Proof. intros Hp; destruct n; cbn [rep_Z]; try constructor. apply np_rep_pos; exact Hp. Qed.
Lemma np_for_each {A B} (xs : list A) (f : A -> prog B) : (forall x, np (f x)) -> np (for_each xs f).
Proof.
  intros H; induction xs; cbn [for_each]; [constructor|].
  apply np_bind; [apply H|intros]. apply np_bind; [assumption|intros; constructor].
Qed.

(** The result of a caught program is never a panic either, and errors become values. *)
Lemma run_catch_np {A} (p : prog A) s : np p -> exists r s', run (catch p) s = (Ok r, s') /\ r <> Panic /\ run p s = (r, s').
Proof.
  intros H. revert s. induction H as [a|e|n k Hk IH|q k Hk IH|k Hk IH|n k Hk IH]; intros s; cbn [catch run].
  - eexists; eexists; split; [reflexivity|split; [discriminate|reflexivity]].
  - eexists; eexists; split; [reflexivity|split; [discriminate|reflexivity]].
  - pose proof (do_take_not_panic n s). destruct (do_take n s) as [r s']. apply IH, H.
  - pose proof (do_seek_start_not_panic q s). destruct (do_seek_start q s) as [r s']. apply IH, H.
  - pose proof (do_seek_end_not_panic s). destruct (do_seek_end s) as [r s']. apply IH, H.
  - apply IH.
Qed.
