(** A header slot torn between two headers of the same file.

    While finalize rewrites the 100-byte header in place, a crash leaves the
    first i bytes of the new header followed by the remaining bytes of the old
    one ([mixb]).  When both are headers of the same shape type, the mixture is
    itself a well-formed header: its length field is the big-endian field torn
    between the two lengths (L4: not below the older one, below 2^31), its
    box fields are some 64-bit patterns. *)
From SF Require Import Model.Bytes Model.F64 Model.ShapeType Spec.Esri.
From SF Require Import Proofs.BytesLemmas Proofs.TornLength.
Open Scope Z_scope.

Definition mixb (i : nat) (new old : bytes) : bytes := firstn i new ++ skipn i old.

Lemma mixb_0 new old : mixb 0 new old = old.
Proof. reflexivity. Qed.

Lemma mixb_all i new old : (length new <= i)%nat -> length old = length new -> mixb i new old = new.
Proof. intros H E. unfold mixb. rewrite firstn_all2 by exact H. rewrite skipn_all2 by lia. apply app_nil_r. Qed.

Lemma mixb_same i l : mixb i l l = l.
Proof. apply firstn_skipn. Qed.

Lemma mixb_length i new old : length old = length new -> length (mixb i new old) = length new.
Proof. intros E. unfold mixb. rewrite app_length, firstn_length, skipn_length. lia. Qed.

(** Mixing two concatenations piecewise. *)
Lemma mixb_app i a2 r2 a1 r1 : length a1 = length a2 ->
  mixb i (a2 ++ r2) (a1 ++ r1) = mixb i a2 a1 ++ mixb (i - length a2) r2 r1.
Proof.
  intros E. unfold mixb. rewrite firstn_app, skipn_app, E.
  destruct (Nat.le_ge_cases i (length a2)) as [Hi|Hi].
  - replace (i - length a2)%nat with 0%nat by lia. cbn [firstn skipn]. rewrite app_nil_r, <- app_assoc. reflexivity.
  - rewrite (firstn_all2 a2) by exact Hi. rewrite (skipn_all2 a1) by lia. cbn [app]. rewrite app_nil_r, <- app_assoc. reflexivity.
Qed.

Lemma Forall_firstn_ {A} (P : A -> Prop) n l : Forall P l -> Forall P (firstn n l).
Proof. revert n; induction l as [|x l IH]; intros n H; destruct n; cbn [firstn]; try constructor; inversion H; subst; auto. Qed.
Lemma Forall_skipn_ {A} (P : A -> Prop) n l : Forall P l -> Forall P (skipn n l).
Proof. revert n; induction l as [|x l IH]; intros n H; destruct n; cbn [skipn]; auto. inversion H; subst; auto. Qed.

Lemma mixb_all_bytes i new old : all_bytes new -> all_bytes old -> all_bytes (mixb i new old).
Proof. intros Hn Ho. unfold mixb, all_bytes in *. apply Forall_app; split; [apply Forall_firstn_; exact Hn|apply Forall_skipn_; exact Ho]. Qed.

(** ** Bytes are the encoding of what they decode to *)
Lemma le_bytes_of_le bs : all_bytes bs -> le_bytes (length bs) (of_le bs) = bs.
Proof.
  induction 1 as [|b r Hb Hr IH]; [reflexivity|]. cbn [length le_bytes of_le]. f_equal.
  - replace (b + 256 * of_le r) with (b + of_le r * 256) by lia. rewrite Z_mod_plus_full. apply Z.mod_small. exact Hb.
  - replace (b + 256 * of_le r) with (b + of_le r * 256) by lia. rewrite Z_div_plus_full by lia.
    rewrite Z.div_small by exact Hb. rewrite Z.add_0_l. exact IH.
Qed.

Lemma be_bytes_of_be bs : all_bytes bs -> be_bytes (length bs) (of_be bs) = bs.
Proof.
  intros H. unfold be_bytes, of_be. rewrite <- (rev_length bs). rewrite le_bytes_of_le; [apply rev_involutive|].
  unfold all_bytes in *. apply Forall_rev. exact H.
Qed.

Lemma be_bytes_range n v : all_bytes (be_bytes n v).
Proof. unfold be_bytes, all_bytes. apply Forall_rev. apply le_bytes_range. Qed.

(** ** The torn length field *)
Lemma torn_len a b j : 0 <= a <= b -> b < two31 -> (j <= 4)%nat ->
  exists v, mixb j (i32_be b) (i32_be a) = i32_be v /\ a <= v < two31.
Proof.
  intros Hab Hb Hj. unfold i32_be. assert (E31 : two31 < two32) by (unfold two31, two32; lia).
  rewrite !Z.mod_small by lia.
  set (m := mixb j (be_bytes 4 b) (be_bytes 4 a)). exists (of_be m).
  assert (Hm : all_bytes m) by (apply mixb_all_bytes; apply be_bytes_range).
  assert (Lm : length m = 4%nat) by (unfold m; rewrite mixb_length; rewrite !be_bytes_length; reflexivity).
  assert (Hlo : a <= of_be m) by (apply torn_be32_monotone; [exact Hab|lia|exact Hj]).
  assert (Hhi : of_be m < two31) by (apply torn_be32_below; [exact Hab|exact Hb|exact Hj]).
  split; [|lia]. rewrite Z.mod_small by lia. rewrite <- Lm. symmetry. apply be_bytes_of_be. exact Hm.
Qed.

(** ** The torn box *)
Lemma f64_enc_range v : all_bytes (f64_enc v).
Proof. apply le_bytes_range. Qed.

Lemma torn_f64 a b j : exists v, mixb j (f64_enc b) (f64_enc a) = f64_enc v /\ f64_ok v.
Proof.
  set (m := mixb j (f64_enc b) (f64_enc a)). exists (f64_dec m).
  assert (Hm : all_bytes m) by (apply mixb_all_bytes; apply f64_enc_range).
  assert (Lm : length m = 8%nat) by (unfold m; rewrite mixb_length; rewrite !f64_enc_length; reflexivity).
  split.
  - unfold f64_enc, f64_dec. rewrite <- Lm. symmetry. apply le_bytes_of_le. exact Hm.
  - unfold f64_ok, f64_dec. pose proof (of_le_range m Hm) as R. unfold zlen in R. rewrite Lm in R. exact R.
Qed.

Lemma torn_f64s : forall box2 box1 j, length box1 = length box2 ->
  exists box3, mixb j (f64s box2) (f64s box1) = f64s box3 /\ length box3 = length box2 /\ Forall f64_ok box3.
Proof.
  induction box2 as [|b2 r2 IH]; intros box1 j E.
  - destruct box1; [|discriminate]. exists []. split; [destruct j; reflexivity|]. split; [reflexivity|constructor].
  - destruct box1 as [|b1 r1]; [discriminate|]. injection E as E. unfold f64s. cbn [flat_map]. fold (f64s r2) (f64s r1).
    rewrite mixb_app by (rewrite !f64_enc_length; reflexivity).
    destruct (torn_f64 b1 b2 j) as (v & -> & Hv).
    destruct (IH r1 (j - length (f64_enc b2))%nat E) as (r3 & -> & L3 & F3).
    exists (v :: r3). split; [reflexivity|]. split; [cbn [length]; rewrite L3; reflexivity|constructor; assumption].
Qed.

(** ** The torn header *)
Theorem torn_header t box2 box1 len2 len1 i :
  length box1 = 8%nat -> length box2 = 8%nat -> 0 <= len1 <= len2 -> len2 < two31 ->
  exists box3 len3, mixb i (ref_header t box2 len2) (ref_header t box1 len1) = ref_header t box3 len3 /\
    length box3 = 8%nat /\ Forall f64_ok box3 /\ len1 <= len3 < two31.
Proof.
  intros L1 L2 Hl Hl2. unfold ref_header.
  rewrite mixb_app by reflexivity. rewrite mixb_same.
  rewrite mixb_app by reflexivity. rewrite mixb_same.
  rewrite mixb_app by (rewrite !i32_be_length; reflexivity).
  rewrite mixb_app by reflexivity. rewrite mixb_same.
  rewrite mixb_app by reflexivity. rewrite mixb_same.
  set (j := (i - length (i32_be 9994) - length (repeat_Z 0 20))%nat).
  destruct (Nat.le_ge_cases j 4) as [Hj|Hj].
  - destruct (torn_len len1 len2 j Hl Hl2 Hj) as (len3 & -> & H3).
    destruct (torn_f64s box2 box1 (j - length (i32_be len2) - length (i32_le 1000) - length (i32_le (st_code t)))%nat) as (box3 & -> & L3 & F3);
      [rewrite L1, L2; reflexivity|].
    exists box3, len3. split; [reflexivity|]. split; [rewrite L3; exact L2|]. split; assumption.
  - rewrite (mixb_all j (i32_be len2) (i32_be len1)) by (rewrite ?i32_be_length; lia).
    destruct (torn_f64s box2 box1 (j - length (i32_be len2) - length (i32_le 1000) - length (i32_le (st_code t)))%nat) as (box3 & -> & L3 & F3);
      [rewrite L1, L2; reflexivity|].
    exists box3, len2. split; [reflexivity|]. split; [rewrite L3; exact L2|]. split; [exact F3|lia].
Qed.
