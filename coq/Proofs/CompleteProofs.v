(** C08: the complete writer and reader keep shapes and attribute rows paired
    (dbase modelled as an ordered row store). *)
From SF Require Import Model.Bytes Model.F64 Model.ShapeType Model.Shapes Model.Res Model.Encode
  Model.F64Arith Model.Construct Model.Writer Model.Prog Model.Decode Model.Reader Model.Complete Spec.Esri Spec.Denote.
From SF Require Import Proofs.BytesLemmas Proofs.ProgLemmas Proofs.RecordL1 Proofs.ReaderSeq Proofs.WriterCore Proofs.WriterInv
  Proofs.IndexReader.
Open Scope Z_scope.

(** ** Writer *)

(** A call whose shape the shape writer rejects (another type than the
    file's) changes nothing: not the writer state, not the table, not a byte
    of any destination. *)
Theorem cw_rejected st w s k id e :
  w_write_shape (cw_shape st) w s = (Err e, cw_shape st, w) -> cw_write st w s k id = (Err e, st, w).
Proof. intros H. unfold cw_write. rewrite H. destruct st; reflexivity. Qed.

(** The shapes and row ids a history of calls leaves behind. *)
Fixpoint cacc (ss : list shape) (ids : list Z) (cs : list (shape * rowk * Z)) : list shape * list Z :=
  match cs with
  | [] => (ss, ids)
  | (s, k, id) :: r => if accepts_type ss s then cacc (ss ++ [s]) (ids ++ [id]) r else cacc ss ids r
  end.

Definition ccall_ok (c : shape * rowk * Z) : Prop := type_of (fst (fst c)) <> TNull /\ snd (fst c) = RowOk.

Theorem cw_history : forall cs st w ss,
  WInv true (cw_shape st) w ss -> Forall (fun x => type_of x <> TNull) ss -> Forall ccall_ok cs ->
  zlen (cw_rows st) = zlen ss ->
  exists rs st' w', cw_calls cs st w = (rs, st', w') /\
    WInv true (cw_shape st') w' (fst (cacc ss (cw_rows st) cs)) /\
    cw_rows st' = snd (cacc ss (cw_rows st) cs) /\
    zlen (cw_rows st') = zlen (fst (cacc ss (cw_rows st) cs)) /\
    Forall (fun r => r = Ok tt \/ exists a b, r = Err (EMismatch a b)) rs.
Proof.
  induction cs as [|[[s k] id] cs IH]; intros st w ss Inv Hss Hcs Hlen.
  - exists [], st, w. cbn. auto.
  - inversion Hcs as [|? ? [Hs Hk] Hcs']; subst. cbn [fst snd] in Hs, Hk. subst k.
    cbn [cw_calls cacc]. unfold cw_write. destruct (accepts_type ss s) eqn:Ha.
    + destruct (write_accepted true (cw_shape st) w ss s Inv Hs Hss Ha) as (st1 & w1 & E & Inv1). rewrite E.
      destruct (IH (mkcw st1 (cw_rows st ++ [id])) w1 (ss ++ [s])) as (rs & st2 & w2 & E2 & Inv2 & R2 & L2 & F2); auto.
      * apply Forall_app; split; [exact Hss|constructor; [exact Hs|constructor]].
      * cbn [cw_rows]. rewrite !zlen_app. change (zlen [id]) with 1. change (zlen [s]) with 1. lia.
      * rewrite E2. eexists; eexists; eexists. split; [reflexivity|]. cbn [cw_rows] in *.
        split; [exact Inv2|]. split; [exact R2|]. split; [exact L2|]. constructor; [left; reflexivity|exact F2].
    + destruct ss as [|s0 ss']; [discriminate|]. cbn [accepts_type] in Ha.
      rewrite (write_rejected true (cw_shape st) w ss' s0 s Inv (Forall_inv Hss) Ha).
      replace (mkcw (cw_shape st) (cw_rows st)) with st by (destruct st; reflexivity).
      destruct (IH st w (s0 :: ss') Inv Hss Hcs' Hlen) as (rs & st2 & w2 & E2 & Inv2 & R2 & L2 & F2).
      rewrite E2. eexists; eexists; eexists. split; [reflexivity|].
      split; [exact Inv2|]. split; [exact R2|]. split; [exact L2|]. constructor; [right; eauto|exact F2].
Qed.

(** ** Reader *)
Definition pairs_spec (shapes : list shape) (rows : list Z) (k fuel : nat) : list (res (shape * Z)) * bool * nat :=
  let avail := combine (skipn k shapes) (skipn k rows) in
  if (length avail <? fuel)%nat then (map Ok avail, true, length shapes)
  else (map Ok (firstn fuel avail), false, (k + fuel)%nat).

Lemma nth_row_some rows k id : nth_error rows k = Some id -> nth_row rows (Z.of_nat k) = Some id.
Proof. intros H. unfold nth_row. destruct (Z.ltb_spec (Z.of_nat k) 0); [lia|]. rewrite Nat2Z.id. exact H. Qed.

(** Iterating pairs from an aligned position (shape cursor = row cursor = k)
    over a table that has one row per shape. *)
Theorem c_pull_aligned req data idx recs rows : forall fuel st s (k : nat),
  Indexed req data idx recs -> length rows = length recs ->
  RInv data idx (cr_shape st) s -> r_next (cr_shape st) = Z.of_nat k -> cr_row st = Z.of_nat k ->
  exists st' s',
    run (c_pull fuel req rows st) s
    = (Ok (fst (fst (pairs_spec (shapes_of recs) rows k fuel)), snd (fst (pairs_spec (shapes_of recs) rows k fuel)), st'), s') /\
    RInv data idx (cr_shape st') s' /\
    r_next (cr_shape st') = Z.of_nat (snd (pairs_spec (shapes_of recs) rows k fuel)) /\
    (snd (fst (pairs_spec (shapes_of recs) rows k fuel)) = false -> cr_row st' = Z.of_nat (snd (pairs_spec (shapes_of recs) rows k fuel))).
Proof.
  induction fuel as [|f IH]; intros st s k HI Hrows Hinv Hk Hrk.
  - cbn [c_pull run]. exists st, s. unfold pairs_spec. cbn [Nat.ltb Nat.leb firstn map fst snd]. rewrite Nat.add_0_r. auto.
  - pose proof HI as [HF _]. pose proof (Forall2_zlen _ _ _ HF) as Hlen.
    assert (Hls : length (shapes_of recs) = length recs) by (unfold shapes_of; apply map_length).
    cbn [c_pull]. rewrite run_bind. unfold c_next. rewrite run_bind.
    destruct (Z.ltb_spec (Z.of_nat k) (zlen idx)) as [Hlt|Hge].
    + destruct (it_next_index req data idx recs (cr_shape st) s (Z.of_nat k) HI Hinv Hk Hlt)
        as (nr & st1 & s1 & Hnr & Hrun & Hinv1 & Hn1 & Hh1).
      rewrite Hrun. cbn [fst snd]. rewrite Nat2Z.id in Hnr.
      assert (Hkr : (k < length rows)%nat) by (rewrite Hrows; apply nth_error_Some; congruence).
      destruct (nth_error rows k) as [id|] eqn:Eid; [|apply nth_error_None in Eid; lia].
      rewrite Hrk, (nth_row_some rows k id Eid). cbn [run fst snd]. rewrite run_bind.
      destruct (IH (mkcr st1 (Z.of_nat k + 1)) s1 (S k) HI Hrows) as (st2 & s2 & Hrun2 & Hinv2 & Hn2 & Hr2);
        cbn [cr_shape cr_row]; try assumption; try lia.
      rewrite Hrun2. cbn [run fst snd]. exists st2, s2.
      assert (Hs1 : skipn k (shapes_of recs) = denote (snd nr) :: skipn (S k) (shapes_of recs)).
      { unfold shapes_of. clear -Hnr. revert k Hnr. induction recs as [|x r IHr]; intros [|k] H; cbn in *; try discriminate.
        - injection H as ->. reflexivity.
        - apply IHr, H. }
      assert (Hs2 : skipn k rows = id :: skipn (S k) rows).
      { clear -Eid. revert k Eid. induction rows as [|x r IHr]; intros [|k] H; cbn in *; try discriminate.
        - injection H as ->. reflexivity.
        - apply IHr, H. }
      unfold pairs_spec in *. rewrite Hs1, Hs2. cbn [combine length].
      change (S (length (combine (skipn (S k) (shapes_of recs)) (skipn (S k) rows))) <? S f)%nat
        with (length (combine (skipn (S k) (shapes_of recs)) (skipn (S k) rows)) <? f)%nat.
      destruct (length (combine (skipn (S k) (shapes_of recs)) (skipn (S k) rows)) <? f)%nat; cbn [fst snd map firstn] in *.
      * split; [reflexivity|]. split; [exact Hinv2|]. split; [exact Hn2|intros; discriminate].
      * split; [reflexivity|]. split; [exact Hinv2|]. split; [rewrite Hn2; f_equal; lia|]. intros _. rewrite (Hr2 eq_refl). f_equal. lia.
    + pose proof (ri_next _ _ _ _ Hinv) as Hb. rewrite Hk in Hb.
      rewrite (it_next_end req data idx (cr_shape st) s Hinv) by lia. cbn [fst snd run]. exists (mkcr (cr_shape st) (cr_row st)), s.
      assert (Hsk : skipn k (shapes_of recs) = []) by (apply skipn_all2; unfold zlen in *; lia).
      unfold pairs_spec. rewrite Hsk. cbn [combine length Nat.ltb Nat.leb map fst snd].
      split; [reflexivity|]. split; [exact Hinv|]. split; [|intros; discriminate].
      cbn [cr_shape]. rewrite Hk, Hls. unfold zlen in *. lia.
Qed.
