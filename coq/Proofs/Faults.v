(** C13, failing and short-reading sources.

    1. A source that fails its k-th operation: a simple program (every record
       reader, the header and index readers) that reaches that operation
       returns the injected error; one that finishes before it is unaffected.
    2. `read_exact` over a source that hands out fewer bytes than asked per
       `read` call (std's loop) returns exactly what a source that returns
       them all returns. *)
From SF Require Import Model.Bytes Model.F64 Model.ShapeType Model.Shapes Model.Res Model.Encode
  Model.F64Arith Model.Construct Model.Prog Model.Decode Model.Reader.
From SF Require Import Proofs.BytesLemmas Proofs.ProgLemmas Proofs.SimpleProofs.
Open Scope Z_scope.

Definition with_fault (s : src) (f : fault) : src :=
  mksrc (s_data s) (s_pos s) (s_ops s) (Some f) (s_reserved s).

Lemma faulty_now_with s f : s_fault s = None ->
  faulty_now (with_fault s f) = (if f_persistent f then (f_at f <=? s_ops s)%nat else (f_at f =? s_ops s)%nat).
Proof. reflexivity. Qed.

Lemma simple_ops_mono {A} (p : prog A) : simple p ->
  forall s r s', run p s = (r, s') -> (s_ops s <= s_ops s')%nat.
Proof.
  induction 1 as [a|e| |n k He Hk Hs IH|n k Hs IH]; intros s r s' Hrun; cbn [run] in Hrun;
    try (inversion Hrun; subst; lia).
  - unfold do_take in Hrun. destruct (faulty_now s).
    + rewrite He in Hrun. cbn [run] in Hrun. inversion Hrun; subst. cbn [bump s_ops]. lia.
    + destruct (n <=? length (s_rest s))%nat.
      * apply IH in Hrun. cbn [bump set_pos s_ops] in Hrun. lia.
      * rewrite He in Hrun. cbn [run] in Hrun. inversion Hrun; subst. cbn [bump set_pos s_ops]. lia.
  - apply IH in Hrun. exact Hrun.
Qed.

(** The fault-free run of a simple program vs the run with a fault planned at
    operation [f_at f] (not yet reached). *)
Theorem simple_fault {A} (p : prog A) : simple p ->
  forall s r s' f, s_fault s = None -> (s_ops s <= f_at f)%nat -> run p s = (r, s') ->
    ((s_ops s' <= f_at f)%nat -> run p (with_fault s f) = (r, with_fault s' f)) /\
    ((f_at f < s_ops s')%nat -> fst (run p (with_fault s f)) = Err EIoInjected).
Proof.
  induction 1 as [a|e| |n k He Hk Hs IH|n k Hs IH]; intros s r s' f Hf Hle Hrun; cbn [run] in *.
  - inversion Hrun; subst. split; [reflexivity|lia].
  - inversion Hrun; subst. split; [reflexivity|lia].
  - inversion Hrun; subst. split; [reflexivity|lia].
  - unfold do_take in *. rewrite faulty_now_with by exact Hf. unfold faulty_now in Hrun. rewrite Hf in Hrun.
    assert (Hnow : (if f_persistent f then (f_at f <=? s_ops s)%nat else (f_at f =? s_ops s)%nat) = (f_at f =? s_ops s)%nat).
    { destruct (f_persistent f); [|reflexivity]. destruct (Nat.leb_spec (f_at f) (s_ops s)), (Nat.eqb_spec (f_at f) (s_ops s)); try reflexivity; lia. }
    rewrite Hnow. destruct (Nat.eqb_spec (f_at f) (s_ops s)) as [Eq|Ne].
    + (* this very operation fails *)
      rewrite He. cbn [run fst].
      assert (Hops : (s_ops s < s_ops s')%nat).
      { destruct (n <=? length (s_rest s))%nat;
          [eapply Nat.lt_le_trans; [|eapply (simple_ops_mono _ (Hs _)); exact Hrun]; cbn; lia|].
        rewrite He in Hrun. cbn [run] in Hrun. inversion Hrun; subst. cbn. lia. }
      split; [lia|reflexivity].
    + change (s_rest (with_fault s f)) with (s_rest s).
      destruct (n <=? length (s_rest s))%nat.
      * specialize (IH (firstn n (s_rest s)) (bump (set_pos s (s_pos s + Z.of_nat n))) r s' f Hf).
        apply IH; [cbn [bump set_pos s_ops]; lia|exact Hrun].
      * rewrite He in *. cbn [run] in *. inversion Hrun; subst. cbn [bump set_pos s_ops]. split; [reflexivity|lia].
  - apply (IH (do_reserve n s) r s' f); assumption.
Qed.

(** Every record reader is simple: a fault planned inside the record makes the
    read return the injected error; the iterator yields it as its item. *)
Corollary record_fault req s r s' f : s_fault s = None -> (s_ops s <= f_at f)%nat ->
  run (read_one_shape req) s = (r, s') -> (f_at f < s_ops s')%nat ->
  fst (run (read_one_shape req) (with_fault s f)) = Err EIoInjected.
Proof.
  intros Hf Hle Hrun Hlt. exact (proj2 (simple_fault _ (simple_read_one_shape req) s r s' f Hf Hle Hrun) Hlt).
Qed.

Corollary header_fault s r s' f : s_fault s = None -> (s_ops s <= f_at f)%nat ->
  run read_header s = (r, s') -> (f_at f < s_ops s')%nat -> fst (run read_header (with_fault s f)) = Err EIoInjected.
Proof. intros Hf Hle Hrun Hlt. exact (proj2 (simple_fault _ simple_read_header s r s' f Hf Hle Hrun) Hlt). Qed.

Corollary index_fault s r s' f : s_fault s = None -> (s_ops s <= f_at f)%nat ->
  run read_index_file s = (r, s') -> (f_at f < s_ops s')%nat -> fst (run read_index_file (with_fault s f)) = Err EIoInjected.
Proof. intros Hf Hle Hrun Hlt. exact (proj2 (simple_fault _ simple_read_index_file s r s' f Hf Hle Hrun) Hlt). Qed.

(** ** Short reads *)
Lemma firstn_split_skipn {A} (c k : nat) (l : list A) : firstn (c + k) l = firstn c l ++ firstn k (skipn c l).
Proof.
  revert l; induction c as [|c IH]; intros l; [reflexivity|]. destruct l as [|x l]; cbn [firstn skipn Nat.add app].
  - destruct k; reflexivity.
  - rewrite IH. reflexivity.
Qed.

Theorem read_exact_short_reads : forall (fuel n : nat) (rest : bytes) (sched : list nat), (n <= fuel)%nat ->
  fst (fst (read_exact_loop fuel n rest sched)) = (if (n <=? length rest)%nat then Some (firstn n rest) else None) /\
  ((n <= length rest)%nat -> snd (fst (read_exact_loop fuel n rest sched)) = skipn n rest).
Proof.
  induction fuel as [|fuel IH]; intros n rest sched Hn.
  - assert (n = 0%nat) by lia. subst n. cbn. split; [reflexivity|intros; reflexivity].
  - destruct n as [|m]; [cbn; split; [reflexivity|intros; reflexivity]|].
    cbn [read_exact_loop].
    set (c := match sched with [] => S m | c0 :: _ => Nat.min (Nat.max c0 1) (S m) end).
    assert (Hc : (1 <= c <= S m)%nat) by (unfold c; destruct sched; lia).
    destruct (firstn c rest) as [|g0 got'] eqn:Eg.
    + (* nothing left *)
      assert (rest = []) by (destruct rest; [reflexivity|destruct c; [lia|discriminate]]). subst rest.
      cbn. split; [reflexivity|intros; lia].
    + set (got := g0 :: got') in *.
      assert (Hlg : length got = Nat.min c (length rest)) by (rewrite <- Eg; apply firstn_length).
      assert (Hg1 : (1 <= length got)%nat) by (unfold got; cbn; lia).
      destruct (IH (S m - length got)%nat (skipn c rest) (tl sched) ltac:(lia)) as [IH1 IH2].
      destruct (read_exact_loop fuel (S m - length got) (skipn c rest) (tl sched)) as [[r rest'] sched''].
      cbn [fst snd] in *. rewrite skipn_length in IH1, IH2.
      destruct (Nat.leb_spec c (length rest)) as [Hcl|Hcl].
      * (* a full chunk *)
        assert (Hgc : length got = c) by lia. rewrite Hgc in *.
        destruct (Nat.leb_spec (S m) (length rest)) as [Hfit|Hnofit].
        -- destruct (Nat.leb_spec (S m - c) (length rest - c)); [|lia]. rewrite IH1. split.
           ++ f_equal. rewrite <- Eg. replace (S m) with (c + (S m - c))%nat at 2 by lia. symmetry. apply firstn_split_skipn.
           ++ intros _. rewrite IH2 by lia. rewrite skipn_skipn_. f_equal. lia.
        -- destruct (Nat.leb_spec (S m - c) (length rest - c)); [lia|]. rewrite IH1. split; [reflexivity|intros; lia].
      * (* the last, partial chunk: not enough data *)
        assert (Hgr : length got = length rest) by lia.
        destruct (Nat.leb_spec (S m) (length rest)); [lia|].
        destruct (Nat.leb_spec (S m - length got) (length rest - c)); [lia|]. rewrite IH1. split; [reflexivity|intros; lia].
Qed.
