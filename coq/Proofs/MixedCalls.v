(** Reader histories of the correspondence (Run/RunCase.v: [r_calls_mixed]) in
    which no call probes another type are the histories of [r_calls]
    (Model/Reader.v) the theorems speak about. *)
From SF Require Import Model.Bytes Model.ShapeType Model.Shapes Model.Res Model.Prog Model.Reader Run.RunCase.
From SF Require Import Proofs.ProgLemmas.
Open Scope Z_scope.

Lemma r_calls_mixed_plain cap req : forall os st s,
  Forall (fun o => match o with OProbe _ _ => False | _ => True end) os ->
  run (r_calls_mixed cap req st os) s = run (r_calls req st (map (rcall_of cap) os)) s.
Proof.
  induction os as [|o r IH]; intros st s H; [reflexivity|]. inversion H as [|? ? Ho Hr]; subst.
  cbn [r_calls_mixed r_calls map]. assert (E : req_of req o = req) by (destruct o; try reflexivity; contradiction).
  rewrite E, !run_bind. destruct (run (r_call req st (rcall_of cap o)) s) as [[x|e|] s1]; cbn [fst snd]; try reflexivity.
  rewrite !run_bind, (IH (snd x) s1 Hr). reflexivity.
Qed.
