(** Every record-level reader, the header reader and the index reader only
    make bounded pre-sizing requests (generated from Proofs/SimpleProofs.v by
    renaming; the side condition of every `reserve` is discharged by
    [cap_bound]: min(n, 1024) elements of at most 32 bytes). *)
From SF Require Import Model.Bytes Model.F64 Model.ShapeType Model.Shapes Model.Res Model.Encode
  Model.F64Arith Model.Construct Model.Prog Model.Decode.
From SF Require Import Proofs.BytesLemmas Proofs.ProgLemmas Proofs.Reserve.
Open Scope Z_scope.

Ltac cap_bound :=
  unfold capacity_for, MAX_PREALLOC, RES_MAX, sizeof_point;
  repeat match goal with |- context [match ?d with XY => _ | XYM => _ | XYZM => _ end] => destruct d end; lia.

Ltac rbt1 :=
  first
  [ apply rb_take_
  | (apply rb_reserve_; cap_bound)
  | apply rb_ret
  | apply rb_fail
  | apply rb_panic
  | apply rb_rep_Z
  | apply rb_for_each; intros
  | apply rb_bind; [|intros]
  | match goal with
    | |- rb (if ?c then _ else _) => destruct c
    | |- rb (match ?x with _ => _ end) => destruct x
    | |- rb (let '(_, _) := ?x in _) => destruct x
    end ].

Ltac rbt := repeat rbt1.

Lemma rb_read_i32_le : rb read_i32_le. Proof. unfold read_i32_le; rbt. Qed.
Lemma rb_read_i32_be : rb read_i32_be. Proof. unfold read_i32_be; rbt. Qed.
Lemma rb_read_f64 : rb read_f64. Proof. unfold read_f64; rbt. Qed.

Lemma rb_read_shape_type : rb read_shape_type.
Proof. unfold read_shape_type. apply rb_bind; [apply rb_read_i32_le|intros]. rbt. Qed.

Ltac rbt2 :=
  repeat first
  [ apply rb_read_i32_le | apply rb_read_i32_be | apply rb_read_f64 | apply rb_read_shape_type
  | rbt1 ].

Lemma rb_read_header : rb read_header. Proof. unfold read_header; rbt2. Qed.
Lemma rb_read_record_header : rb read_record_header. Proof. unfold read_record_header; rbt2. Qed.
Lemma rb_read_xy_points d n : rb (read_xy_points d n). Proof. unfold read_xy_points; rbt2. Qed.
Lemma rb_read_zs_into ps : rb (read_zs_into ps). Proof. unfold read_zs_into; rbt2. Qed.
Lemma rb_read_ms_into ps : rb (read_ms_into ps). Proof. unfold read_ms_into; rbt2. Qed.
Lemma rb_read_bbox_xy d : rb (read_bbox_xy d). Proof. unfold read_bbox_xy; rbt2. Qed.
Lemma rb_read_z_range b : rb (read_z_range b). Proof. unfold read_z_range; rbt2. Qed.
Lemma rb_read_m_range b : rb (read_m_range b). Proof. unfold read_m_range; rbt2. Qed.

Ltac rbt3 :=
  repeat first
  [ apply rb_read_xy_points | apply rb_read_zs_into | apply rb_read_ms_into
  | apply rb_read_bbox_xy | apply rb_read_z_range | apply rb_read_m_range
  | apply rb_read_i32_le | apply rb_read_i32_be | apply rb_read_f64 | apply rb_read_shape_type
  | rbt1 ].

Lemma rb_read_point d size : rb (read_point d size).
Proof. unfold read_point; destruct d; rbt3. Qed.

Lemma rb_read_multipoint d size : rb (read_multipoint d size).
Proof. unfold read_multipoint; rbt3. Qed.

Lemma rb_multipart_new d : rb (multipart_new d).
Proof. unfold multipart_new, read_parts; rbt3. Qed.

Lemma rb_read_parts_xy d offs n : rb (read_parts_xy d offs n).
Proof. unfold read_parts_xy; rbt3. Qed.

Lemma rb_read_parts_zs b parts : rb (read_parts_zs b parts).
Proof. unfold read_parts_zs; rbt3. Qed.

Lemma rb_read_parts_ms b parts : rb (read_parts_ms b parts).
Proof. unfold read_parts_ms; rbt3. Qed.

Ltac rbt4 :=
  repeat first
  [ apply rb_multipart_new | apply rb_read_parts_xy | apply rb_read_parts_zs | apply rb_read_parts_ms
  | apply rb_read_xy_points | apply rb_read_zs_into | apply rb_read_ms_into
  | apply rb_read_bbox_xy | apply rb_read_z_range | apply rb_read_m_range
  | apply rb_read_i32_le | apply rb_read_i32_be | apply rb_read_f64 | apply rb_read_shape_type
  | rbt1 ].

Lemma rb_read_polyline_body d size : rb (read_polyline_body d size).
Proof. unfold read_polyline_body; rbt4. Qed.

Lemma rb_read_multipatch size : rb (read_multipatch size).
Proof. unfold read_multipatch, read_patch_type; rbt4. Qed.

Lemma rb_read_content t size : rb (read_content t size).
Proof.
  destruct t; cbn [read_content]; try apply rb_ret; try apply rb_read_point;
    try apply rb_read_multipoint; try apply rb_read_multipatch;
    unfold read_polyline, read_polygon; (apply rb_bind; [apply rb_read_polyline_body|intros; apply rb_ret]).
Qed.

Lemma rb_read_from req size : rb (read_from req size).
Proof.
  unfold read_from. apply rb_bind; [apply rb_read_shape_type|intros t].
  destruct req; [destruct (st_eqb t s); [apply rb_read_content|apply rb_fail]|apply rb_read_content].
Qed.

Lemma rb_read_one_shape req : rb (read_one_shape req).
Proof.
  unfold read_one_shape. apply rb_bind; [apply rb_read_record_header|intros hdr].
  destruct ((snd hdr * 2 <? 0) || (two31 <=? snd hdr * 2)); [apply rb_fail|].
  apply rb_bind; [apply rb_read_from|intros; apply rb_ret].
Qed.

Lemma rb_read_index_file : rb read_index_file.
Proof. unfold read_index_file. apply rb_bind; [apply rb_read_header|intros]. rbt2. Qed.

