(** The layout of well-formed shapes is a conformant file, and what its
    records denote (Spec/Denote.v) is [on_read] of the shapes: the shapes
    themselves with measures of multi-vertex shapes normalised and ring roles
    recomputed from the vertex order. *)
From SF Require Import Model.Bytes Model.F64 Model.ShapeType Model.Shapes Model.Res Model.Encode
  Model.F64Arith Model.Construct Model.Writer Spec.Esri Spec.Denote Spec.Layout.
From SF Require Import Proofs.BytesLemmas Proofs.ShapeTypeProofs Proofs.SizeProofs Proofs.DecodePrims
  Proofs.DecodeParts Proofs.WriterInv Proofs.EncodeRef.
Open Scope Z_scope.

Ltac Zify.zify_post_hook ::= Z.div_mod_to_equations.
Ltac splits := repeat (match goal with |- _ /\ _ => split end).

(** ** Well-formed shape values: every coordinate is a 64-bit pattern. *)
Definition pt_ok (p : pt) : Prop := f64_ok (px p) /\ f64_ok (py p) /\ f64_ok (pz p) /\ f64_ok (pm p).
Definition box_ok (b : bbox) : Prop := pt_ok (bmin b) /\ pt_ok (bmax b).
Definition parts_ok (parts : list (list pt)) : Prop := Forall (Forall pt_ok) parts.

Definition shape_ok (s : shape) : Prop :=
  match s with
  | SNull => False
  | SPoint _ p => pt_ok p
  | SMultipoint _ b ps => box_ok b /\ Forall pt_ok ps
  | SPolyline _ b parts => box_ok b /\ parts_ok parts
  | SPolygon _ b rings => box_ok b /\ parts_ok (map snd rings)
  | SMultipatch b patches => box_ok b /\ parts_ok (map snd patches)
  end.

(** ** Offsets produced by running sums are conformant *)
Lemma running_ascending : forall lens acc, Forall (fun l => 0 <= l) lens ->
  ascending_from acc (running_offsets acc lens).
Proof.
  induction lens as [|l r IH]; intros acc H; cbn [running_offsets ascending_from]; [exact I|].
  inversion H as [|? ? Hl Hr]; subst. split; [lia|].
  destruct r as [|l2 r2]; cbn [running_offsets ascending_from]; [exact I|].
  specialize (IH (acc + l) Hr). cbn [running_offsets ascending_from] in IH. destruct IH as [_ IH]. split; [lia|exact IH].
Qed.

Lemma running_bounded : forall lens acc, Forall (fun l => 0 <= l) lens ->
  Forall (fun x => x <= acc + sum_Z lens) (running_offsets acc lens).
Proof.
  induction lens as [|l r IH]; intros acc H; cbn [running_offsets sum_Z]; [constructor|].
  inversion H as [|? ? Hl Hr]; subst.
  assert (Hs : 0 <= sum_Z r). { clear -Hr. induction Hr; cbn [sum_Z]; lia. }
  constructor; [lia|]. specialize (IH (acc + l) Hr). eapply Forall_impl; [|exact IH]. cbv beta. intros; lia.
Qed.

Lemma sum_lens_concat {A} (parts : list (list A)) : sum_Z (map (fun p => zlen p) parts) = zlen (concat parts).
Proof. induction parts as [|p r IH]; [reflexivity|]. cbn [map sum_Z concat]. rewrite zlen_app, IH. reflexivity. Qed.

Lemma lens_nonneg {A} (parts : list (list A)) : Forall (fun l => 0 <= l) (map (fun p => zlen p) parts).
Proof. induction parts; constructor; [apply zlen_nonneg|assumption]. Qed.

Lemma Forall_concat {A} (P : A -> Prop) (parts : list (list A)) : Forall (Forall P) parts -> Forall P (concat parts).
Proof. induction 1; cbn [concat]; [constructor|]. apply Forall_app; split; assumption. Qed.

Lemma Forall_map_ {A B} (P : B -> Prop) (f : A -> B) l : Forall (fun x => P (f x)) l -> Forall P (map f l).
Proof. induction 1; constructor; assumption. Qed.

(** Counts are bounded by the record size. *)
Lemma body_counts t b parts kinds :
  16 * zlen (concat parts) + 4 * zlen parts < two32 ->
  zlen (rb_pts (body_of t b parts kinds)) < two31 /\ zlen (rb_offsets (body_of t b parts kinds)) < two31.
Proof.
  intros H. unfold body_of. cbn [rb_pts rb_offsets]. rewrite zlen_map.
  pose proof (zlen_nonneg (concat parts)). pose proof (zlen_nonneg parts). split; [unfold two31, two32 in *; lia|].
  destruct (is_multipoint_type t); [change (zlen (@nil Z)) with 0; unfold two31; lia|].
  rewrite zlen_running, zlen_map. unfold two31, two32 in *. lia.
Qed.

Lemma body_of_conformant t b parts kinds :
  is_multi_type t = true ->
  (is_multipoint_type t = true -> exists ps, parts = [ps]) ->
  (if st_eqb t TMultipatch then length kinds = length parts /\ Forall (fun k => 0 <= k <= 5) kinds else kinds = []) ->
  box_ok b -> parts_ok parts ->
  16 * zlen (concat parts) + 4 * zlen parts < two32 ->
  body_conformant t (body_of t b parts kinds).
Proof.
  intros Ht Hmp Hk Hb Hp Hn. destruct (body_counts t b parts kinds Hn) as [Hn1 Hn2].
  unfold body_conformant. split; [exact Hn1|]. split; [exact Hn2|].
  destruct Hb as [(Hx1 & Hy1 & Hz1 & Hm1) (Hx2 & Hy2 & Hz2 & Hm2)].
  pose proof (Forall_concat _ _ Hp) as Hall.
  unfold body_of. cbn [rb_box rb_offsets rb_kinds rb_pts rb_z rb_m].
  split. { cbv beta iota zeta; splits; assumption. }
  split. { apply Forall_map_. eapply Forall_impl; [|exact Hall]. intros p (Hx & Hy & _). cbn. split; assumption. }
  split.
  { destruct (is_multipoint_type t) eqn:E; [reflexivity|].
    destruct parts as [|p0 r]; cbn [map running_offsets]; [reflexivity|].
    split; [reflexivity|]. rewrite zlen_map.
    pose proof (running_ascending (map (fun p => zlen p) r) (0 + zlen p0) (lens_nonneg r)) as Ha.
    pose proof (running_bounded (map (fun p => zlen p) r) (0 + zlen p0) (lens_nonneg r)) as Hbd.
    rewrite sum_lens_concat in Hbd. cbn [concat]. rewrite zlen_app.
    split; [|exact Hbd].
    destruct r as [|p1 r1]; cbn [map running_offsets ascending_from] in *; [exact I|].
    destruct Ha as [_ Ha]. split; [pose proof (zlen_nonneg p0); lia|exact Ha]. }
  split.
  { destruct (st_eqb t TMultipatch) eqn:E.
    - destruct Hk as [Hk1 Hk2]. split; [|exact Hk2]. rewrite Hk1.
      destruct (is_multipoint_type t) eqn:E2; [destruct t; discriminate|].
      unfold zlen in *. pose proof (zlen_running 0 (map (fun p => zlen p) parts)) as Hr. unfold zlen in Hr.
      rewrite map_length in Hr. lia.
    - exact Hk. }
  split.
  { destruct (st_has_z t).
    - cbn [fst snd]. rewrite !map_length. split; [reflexivity|]. split; [exact Hz1|]. split; [exact Hz2|].
      apply Forall_map_. eapply Forall_impl; [|exact Hall]. intros p (_ & _ & Hz & _). exact Hz.
    - reflexivity. }
  destruct (layout_has_m t).
  - cbn [fst snd]. rewrite !map_length. split; [reflexivity|]. split; [exact Hm1|]. split; [exact Hm2|].
    apply Forall_map_. eapply Forall_impl; [|exact Hall]. intros p (_ & _ & _ & Hm). exact Hm.
  - reflexivity.
Qed.

Lemma size_bounds_counts parts k : 0 <= k ->
  16 * total_points parts + 4 * zlen parts + k < two32 -> 16 * zlen (concat parts) + 4 * zlen parts < two32.
Proof. rewrite total_points_concat. lia. Qed.

(** A well-formed shape whose record length fits is stored as a conformant record. *)
Theorem rec_of_shape_conformant s : shape_ok s -> record_words s < two31 -> rec_conformant (rec_of_shape s).
Proof.
  intros Hok Hw. unfold record_words in Hw.
  assert (Hsz : size_in_bytes s < two32 - 4) by (pose proof (size_in_bytes_nonneg s); unfold two31, two32 in *; lia).
  destruct s as [|d p|d b ps|d b parts|d b rings|b patches]; cbn [shape_ok] in Hok.
  - contradiction.
  - destruct Hok as (Hx & Hy & Hz & Hm). destruct d; cbn [rec_of_shape rec_conformant]; splits; assumption.
  - destruct Hok as [Hb Hp]. cbn [rec_of_shape rec_conformant]. split; [destruct d; reflexivity|].
    apply body_of_conformant; try assumption.
    + destruct d; reflexivity.
    + intros _. eexists; reflexivity.
    + destruct d; reflexivity.
    + constructor; [exact Hp|constructor].
    + cbn [size_in_bytes] in Hsz. cbn [concat]. rewrite app_nil_r. change (zlen [ps]) with 1.
      pose proof (zlen_nonneg ps). destruct d; cbn [coords_per_point range_bytes] in Hsz; unfold two32 in *; lia.
  - destruct Hok as [Hb Hp]. cbn [rec_of_shape rec_conformant]. split; [destruct d; reflexivity|].
    apply body_of_conformant; try assumption.
    + destruct d; reflexivity.
    + destruct d; discriminate.
    + destruct d; reflexivity.
    + cbn [size_in_bytes] in Hsz. rewrite <- total_points_concat.
      pose proof (total_points_nonneg parts). pose proof (zlen_nonneg parts).
      destruct d; cbn [coords_per_point range_bytes] in Hsz; unfold two32 in *; lia.
  - destruct Hok as [Hb Hp]. cbn [rec_of_shape rec_conformant]. split; [destruct d; reflexivity|].
    apply body_of_conformant; try assumption.
    + destruct d; reflexivity.
    + destruct d; discriminate.
    + destruct d; reflexivity.
    + cbn [size_in_bytes] in Hsz. rewrite <- total_points_concat, zlen_map.
      pose proof (total_points_nonneg (map snd rings)). pose proof (zlen_nonneg rings).
      destruct d; cbn [coords_per_point range_bytes] in Hsz; unfold two32 in *; lia.
  - destruct Hok as [Hb Hp]. cbn [rec_of_shape rec_conformant]. split; [reflexivity|].
    apply body_of_conformant; try assumption.
    + reflexivity.
    + discriminate.
    + change (st_eqb TMultipatch TMultipatch) with true. cbv iota. rewrite !map_length. split; [reflexivity|].
      apply Forall_map_. apply Forall_forall. intros [k ps] _. destruct k; cbn; lia.
    + cbn [size_in_bytes] in Hsz. rewrite <- total_points_concat, zlen_map.
      pose proof (total_points_nonneg (map snd patches)). pose proof (zlen_nonneg patches). unfold two32 in *; lia.
Qed.

(** ** What the stored records denote *)
Definition clean_pt (d : dim) (p : pt) : pt :=
  mkpt (px p) (py p) (if has_z_dim d then pz p else 0) (if has_m_dim d then pm p else 0).
(** A vertex of a multi-vertex shape as it is read back: X, Y, Z bit-identical,
    the measure normalised (NaN and anything at or below the no-data threshold
    becomes NO_DATA). *)
Definition norm_pt (d : dim) (p : pt) : pt :=
  mkpt (px p) (py p) (if has_z_dim d then pz p else 0) (if has_m_dim d then read_m_norm (pm p) else 0).
Definition clean_box (d : dim) (b : bbox) : bbox := mkbox (clean_pt d (bmin b)) (clean_pt d (bmax b)).

Definition on_read (s : shape) : shape :=
  match s with
  | SNull => SNull
  | SPoint d p => SPoint d (clean_pt d p)
  | SMultipoint d b ps => SMultipoint d (clean_box d b) (map (norm_pt d) ps)
  | SPolyline d b parts => SPolyline d (clean_box d b) (map (map (norm_pt d)) parts)
  | SPolygon d b rings =>
      SPolygon d (clean_box d b) (map (fun r => ring_from_points (map (norm_pt d) (snd r))) rings)
  | SMultipatch b patches =>
      SMultipatch (clean_box XYZM b) (map (fun p => (fst p, map (norm_pt XYZM) (snd p))) patches)
  end.

Lemma vertices_norm_XY ps zs ms : vertices XY (map xy_of ps) zs ms = map (norm_pt XY) ps.
Proof. revert zs ms; induction ps as [|p r IH]; intros zs ms; cbn [map vertices xy_of]; [reflexivity|]. rewrite IH. reflexivity. Qed.

Lemma vertices_norm_XYM ps zs : vertices XYM (map xy_of ps) zs (Some (map pm ps)) = map (norm_pt XYM) ps.
Proof. revert zs; induction ps as [|p r IH]; intros zs; cbn [map vertices xy_of hd tl]; [reflexivity|]. rewrite IH. reflexivity. Qed.

Lemma vertices_norm_XYZM ps : vertices XYZM (map xy_of ps) (map pz ps) (Some (map pm ps)) = map (norm_pt XYZM) ps.
Proof. induction ps as [|p r IH]; cbn [map vertices xy_of hd tl]; [reflexivity|]. rewrite IH. reflexivity. Qed.

Lemma part_lengths_running : forall lens acc, part_lengths (running_offsets acc lens) (acc + sum_Z lens) = lens.
Proof.
  induction lens as [|l r IH]; intros acc; [reflexivity|].
  cbn [running_offsets sum_Z]. destruct r as [|l2 r2].
  - cbn [running_offsets part_lengths sum_Z]. f_equal. lia.
  - specialize (IH (acc + l)). cbn [running_offsets] in *. cbn [part_lengths] in *.
    f_equal; [lia|]. replace (acc + (l + sum_Z (l2 :: r2))) with (acc + l + sum_Z (l2 :: r2)) by lia. exact IH.
Qed.

Lemma chop_concat {A} (parts : list (list A)) : chop (map (fun p => zlen p) parts) (concat parts) = parts.
Proof.
  induction parts as [|p r IH]; [reflexivity|].
  cbn [map chop concat]. unfold zlen in *. rewrite !Nat2Z.id, firstn_app, Nat.sub_diag, firstn_all. cbn [firstn].
  rewrite app_nil_r. f_equal. rewrite skipn_app, Nat.sub_diag, skipn_all. cbn [skipn app]. exact IH.
Qed.

Lemma chop_parts {A B C} (f : A -> B) (g : A -> C) (parts : list (list A)) :
  chop (part_lengths (running_offsets 0 (map (fun p => zlen p) parts)) (zlen (map g (concat parts))))
       (map f (concat parts)) = map (map f) parts.
Proof.
  rewrite zlen_map, <- sum_lens_concat. rewrite <- (Z.add_0_l (sum_Z _)), part_lengths_running.
  rewrite concat_map. replace (map (fun p => zlen p) parts) with (map (fun p => zlen p) (map (map f) parts)).
  - apply chop_concat.
  - rewrite map_map. apply map_ext. intros p. unfold zlen. rewrite map_length. reflexivity.
Qed.

Lemma kind_of_code k : kind_of (pkind_code k) = k.
Proof. destruct k; reflexivity. Qed.

Lemma zip_kinds_map (f : list pt -> list pt) (patches : list (pkind * list pt)) :
  zip_kinds (map (fun p => pkind_code (fst p)) patches) (map f (map snd patches))
  = map (fun p => (fst p, f (snd p))) patches.
Proof.
  induction patches as [|[k ps] r IH]; [reflexivity|]. cbn [map zip_kinds fst snd]. rewrite kind_of_code, IH. reflexivity.
Qed.

Lemma denote_multi_body t d b parts kinds :
  dim_of_type t = d -> st_has_z t = has_z_dim d -> layout_has_m t = has_m_dim d ->
  let bd := body_of t b parts kinds in
  vertices d (rb_pts bd) (snd (rb_z bd)) (match rb_m bd with Some (_, ms) => Some ms | None => None end)
    = map (norm_pt d) (concat parts)
  /\ denote_box d bd = clean_box d b.
Proof.
  intros Hd Hz Hm bd. subst bd. unfold body_of. cbn [rb_pts rb_z rb_m rb_box]. split.
  - rewrite Hz, Hm. destruct d; cbn [has_z_dim has_m_dim snd].
    + apply vertices_norm_XY.
    + apply vertices_norm_XYM.
    + apply vertices_norm_XYZM.
  - unfold denote_box, clean_box, clean_pt. cbn [rb_box rb_z rb_m]. rewrite Hz, Hm.
    destruct d; cbn [has_z_dim has_m_dim fst snd]; reflexivity.
Qed.

Ltac multi_case t d b parts kinds :=
  unfold denote_multi;
  let Hv := fresh "Hv" in let Hb := fresh "Hb" in
  destruct (denote_multi_body t d b parts kinds eq_refl eq_refl eq_refl) as [Hv Hb];
  cbn [dim_of_type multipoint_type polyline_type polygon_type] in *; rewrite Hv, Hb;
  unfold body_of; cbn [rb_offsets rb_pts rb_kinds is_multipoint_type];
  rewrite ?chop_parts, ?zip_kinds_map, ?map_map; cbn [concat]; rewrite ?app_nil_r; reflexivity.

(** What the whitepaper says the stored record of [s] encodes is [on_read s]. *)
Theorem denote_rec_of_shape s : denote (rec_of_shape s) = on_read s.
Proof.
  destruct s as [|d p|d b ps|d b parts|d b rings|b patches]; cbn [rec_of_shape denote on_read].
  - reflexivity.
  - destruct d; reflexivity.
  - destruct d; cbn [multipoint_type].
    + multi_case TMultipoint XY b [ps] (@nil Z).
    + multi_case TMultipointM XYM b [ps] (@nil Z).
    + multi_case TMultipointZ XYZM b [ps] (@nil Z).
  - destruct d; cbn [polyline_type].
    + multi_case TPolyline XY b parts (@nil Z).
    + multi_case TPolylineM XYM b parts (@nil Z).
    + multi_case TPolylineZ XYZM b parts (@nil Z).
  - destruct d; cbn [polygon_type].
    + multi_case TPolygon XY b (map snd rings) (@nil Z).
    + multi_case TPolygonM XYM b (map snd rings) (@nil Z).
    + multi_case TPolygonZ XYZM b (map snd rings) (@nil Z).
  - multi_case TMultipatch XYZM b (map snd patches) (map (fun p => pkind_code (fst p)) patches).
Qed.
