From SF Require Import Model.Bytes.
From Coq Require Import Lia ZArith.
Open Scope Z_scope.
Ltac Zify.zify_post_hook ::= Z.div_mod_to_equations.

(** L4: a big-endian 32-bit field torn between an old value a and a new value
    b >= a (the first j bytes already hold b's, the rest still a's) reads as a
    value >= a: a length field torn during finalize never hides records
    committed by an earlier finalize. *)
Theorem torn_be32_monotone (a b : Z) (j : nat) :
  0 <= a <= b -> b < two32 -> (j <= 4)%nat ->
  a <= of_be (firstn j (be_bytes 4 b) ++ skipn j (be_bytes 4 a)).
Proof.
  intros Hab Hb Hj. unfold be_bytes, of_be, two32 in *. cbn [le_bytes rev app].
  destruct j as [|[|[|[|[|j]]]]]; [| | | | |exfalso; lia]; cbn [firstn skipn app rev of_le]; lia.
Qed.

(** ...and, both values being below 2^31, stays below 2^31 (its most
    significant byte is that of one of the two). *)
Theorem torn_be32_below (a b : Z) (j : nat) :
  0 <= a <= b -> b < two31 -> (j <= 4)%nat ->
  of_be (firstn j (be_bytes 4 b) ++ skipn j (be_bytes 4 a)) < two31.
Proof.
  intros Hab Hb Hj. unfold be_bytes, of_be, two31 in *. cbn [le_bytes rev app].
  destruct j as [|[|[|[|[|j]]]]]; [| | | | |exfalso; lia]; cbn [firstn skipn app rev of_le]; lia.
Qed.
