(** The reader on a conformant file, without index: opening returns the
    header as stored, iteration yields what every record denotes, in order,
    and ends at the declared length (bytes after it are ignored).  This is the
    core of C03 (and of C01 once the writer is shown to emit the layout). *)
From SF Require Import Model.Bytes Model.F64 Model.ShapeType Model.Shapes Model.Res Model.Encode
  Model.F64Arith Model.Construct Model.Prog Model.Decode Model.Reader Spec.Esri Spec.Denote.
From SF Require Import Proofs.BytesLemmas Proofs.ShapeTypeProofs Proofs.ProgLemmas Proofs.DecodePrims
  Proofs.DecodePoints Proofs.RecordL1.
Open Scope Z_scope.

Arguments f64_enc : simpl never.
Arguments i32_le : simpl never.
Arguments i32_be : simpl never.
Arguments f64s : simpl never.
Arguments i32s : simpl never.

Ltac Zify.zify_post_hook ::= Z.div_mod_to_equations.

Lemma run_catch {A} (p : prog A) s :
  run (catch p) s =
  match run p s with
  | (Ok a, s') => (Ok (Ok a), s')
  | (Err e, s') => (Ok (Err e), s')
  | (Panic, s') => (Panic, s')
  end.
Proof.
  revert s; induction p as [a|e| |n k IH|q k IH|k IH|n k IH]; intros s; cbn [catch run]; try reflexivity.
  - destruct (do_take n s) as [r s']; apply IH.
  - destruct (do_seek_start q s) as [r s']; apply IH.
  - destruct (do_seek_end s) as [r s']; apply IH.
  - apply IH.
Qed.

(** ** The header *)
Definition header_of (t : shape_type) (box : list f64) (len : Z) : header :=
  mkhdr len t 1000
    (mkbox (mkpt (nth 0 box 0) (nth 1 box 0) (nth 4 box 0) (nth 6 box 0))
           (mkpt (nth 2 box 0) (nth 3 box 0) (nth 5 box 0) (nth 7 box 0))).

Lemma reads_header t box len :
  length box = 8%nat -> Forall f64_ok box -> in_i32 len ->
  reads read_header (ref_header t box len) (header_of t box len).
Proof.
  intros Hlen Hok Hl.
  destruct box as [|b0 [|b1 [|b2 [|b3 [|b4 [|b5 [|b6 [|b7 [|]]]]]]]]]; try discriminate Hlen.
  repeat match goal with H : Forall _ (_ :: _) |- _ => inversion H; clear H; subst end.
  unfold read_header, ref_header.
  eapply reads_bind; [apply reads_i32_be; unfold in_i32, two31; lia|]. cbn beta.
  change (negb (9994 =? 9994)) with false. cbv iota.
  eapply reads_bind; [apply reads_take_n; reflexivity|]. cbn beta.
  eapply reads_bind; [apply reads_i32_be, Hl|]. cbn beta.
  eapply reads_bind; [apply reads_i32_le; unfold in_i32, two31; lia|]. cbn beta.
  eapply reads_bind; [apply reads_shape_type|]. cbn beta.
  unfold f64s; cbn [flat_map].
  do 8 (eapply reads_bind; [apply reads_f64; assumption|]; cbn beta).
  apply reads_ret.
Qed.

Lemma zlen_ref_header t box len : length box = 8%nat -> zlen (ref_header t box len) = 100.
Proof.
  intros H. unfold ref_header. rewrite !zlen_app, !zlen_i32_be, !zlen_i32_le, zlen_f64s.
  unfold zlen at 2. rewrite H. reflexivity.
Qed.

(** ** Records *)
Definition record_ok (req : option shape_type) (nr : Z * ref_rec) : Prop :=
  in_i32 (fst nr) /\ rec_conformant (snd nr) /\ zlen (ref_content (snd nr)) < two31 /\ accepts req (snd nr).

Lemma zlen_ref_record num r : zlen (ref_record num r) = 8 + zlen (ref_content r).
Proof. unfold ref_record. rewrite !zlen_app, !zlen_i32_be. lia. Qed.

Lemma ref_record_even num r : rec_conformant r -> 2 * (zlen (ref_record num r) / 2) = zlen (ref_record num r).
Proof. intros H. rewrite zlen_ref_record. pose proof (ref_content_even r H). lia. Qed.

Lemma ref_records_even rs : Forall (fun nr => rec_conformant (snd nr)) rs ->
  2 * (zlen (ref_records_bytes rs) / 2) = zlen (ref_records_bytes rs).
Proof.
  induction 1 as [|nr rs Hc Hrs IH]; [reflexivity|].
  unfold ref_records_bytes in *. cbn [flat_map]. rewrite zlen_app.
  pose proof (ref_record_even (fst nr) (snd nr) Hc). lia.
Qed.

Lemma usize_add_ok a b : a + b < two64 -> usize_add a b = Ret (a + b).
Proof. intros H. unfold usize_add. destruct (Z.ltb_spec (a + b) two64); [reflexivity|lia]. Qed.

(** One step of the iteration without index. *)
Lemma it_next_noindex req st s num r rest :
  r_index st = None -> clean s -> r_cur st = s_pos s -> r_cur st < flen_bytes st ->
  r_cur st + zlen (ref_record num r) < two64 ->
  record_ok req (num, r) -> s_rest s = ref_record num r ++ rest ->
  exists s', run (it_next req st) s =
             (Ok (Some (Ok (denote r)), set_cur st (r_cur st + zlen (ref_record num r))), s')
             /\ clean s' /\ s_data s' = s_data s /\ s_pos s' = s_pos s + zlen (ref_record num r).
Proof.
  intros Hidx Hcl Hcur Hlt Hov (Hnum & Hc & Hsz & Ha) Hr. cbn [fst snd] in *.
  destruct (L1_record req num r Hnum Hc Hsz Ha s rest Hcl Hr) as (s' & Hrun & Hc' & Hd & Hp).
  exists s'. unfold it_next. rewrite Hidx.
  destruct (Z.leb_spec (flen_bytes st) (r_cur st)) as [?|_]; [lia|].
  unfold it_read. rewrite run_bind, run_catch, Hrun. cbn [snd].
  pose proof (ref_content_even r Hc) as Hev. pose proof (zlen_nonneg (ref_content r)) as Hnn.
  rewrite zlen_ref_record in *.
  rewrite usize_add_ok by lia. cbn [bind].
  rewrite usize_add_ok by lia. cbn [bind run].
  split; [|auto].
  replace (r_cur st + 8 + zlen (ref_content r) / 2 * 2) with (r_cur st + (8 + zlen (ref_content r))) by lia.
  reflexivity.
Qed.

(** Iterating over the records that remain. *)
Lemma it_pull_noindex req : forall rs st s rest,
  r_index st = None -> clean s -> r_cur st = s_pos s ->
  flen_bytes st = r_cur st + zlen (ref_records_bytes rs) -> flen_bytes st < two64 ->
  Forall (record_ok req) rs -> s_rest s = ref_records_bytes rs ++ rest ->
  exists s', run (it_pull (S (length rs)) req st) s =
             (Ok (map (fun nr => Ok (denote (snd nr))) rs, true, set_cur st (flen_bytes st)), s')
             /\ clean s' /\ s_data s' = s_data s.
Proof.
  induction rs as [|[num r] rs IH]; intros st s rest Hidx Hcl Hcur Hlen Hov Hok Hr.
  - (* at the declared end *)
    cbn [length it_pull map]. unfold ref_records_bytes in Hlen; cbn [flat_map] in Hlen.
    change (zlen (@nil Z)) with 0 in Hlen.
    rewrite run_bind. unfold it_next. rewrite Hidx.
    destruct (Z.leb_spec (flen_bytes st) (r_cur st)) as [_|?]; [|lia]. cbn [run fst snd].
    exists s. split; [|auto]. rewrite Hlen. replace (r_cur st + 0) with (r_cur st) by lia.
    destruct st; reflexivity.
  - inversion Hok as [|? ? Hok1 Hok2]; subst.
    unfold ref_records_bytes in Hlen, Hr. cbn [flat_map fst snd] in Hlen, Hr. fold (ref_records_bytes rs) in Hlen, Hr.
    rewrite zlen_app in Hlen. rewrite <- app_assoc in Hr.
    pose proof (zlen_nonneg (ref_records_bytes rs)) as Hnn.
    assert (Hpos : 0 < zlen (ref_record num r)) by (rewrite zlen_ref_record; pose proof (zlen_nonneg (ref_content r)); lia).
    destruct (it_next_noindex req st s num r (ref_records_bytes rs ++ rest) Hidx Hcl Hcur) as (s1 & Hrun & Hc1 & Hd1 & Hp1); auto; try lia.
    change (it_pull (S (length ((num, r) :: rs))) req st)
      with (x <-- it_next req st ;;
            match fst x with
            | None => Ret ([], true, snd x)
            | Some item => y <-- it_pull (S (length rs)) req (snd x) ;; Ret (item :: fst (fst y), snd (fst y), snd y)
            end).
    rewrite run_bind, Hrun. cbn [fst snd]. rewrite run_bind.
    set (st1 := set_cur st (r_cur st + zlen (ref_record num r))).
    assert (Hr1 : s_rest s1 = ref_records_bytes rs ++ rest) by (eapply rest_after; eauto; apply Hcl).
    assert (E1 : r_index st1 = None) by exact Hidx.
    assert (E2 : r_cur st1 = s_pos s1) by (unfold st1, set_cur; cbn [r_cur]; lia).
    assert (E3 : flen_bytes st1 = r_cur st1 + zlen (ref_records_bytes rs)).
    { change (flen_bytes st1) with (flen_bytes st). change (r_cur st1) with (r_cur st + zlen (ref_record num r)). lia. }
    assert (E4 : flen_bytes st1 < two64) by exact Hov.
    destruct (IH st1 s1 rest E1 Hc1 E2 E3 E4 Hok2 Hr1) as (s2 & Hrun2 & Hc2 & Hd2).
    rewrite Hrun2. cbn [run fst snd map]. exists s2. split; [|split; [auto|congruence]].
    reflexivity.
Qed.

(** ** The whole file *)
Definition declared_words (g : ref_file) : Z := (100 + zlen (ref_records_bytes (rf_records g))) / 2.

Theorem read_all_noindex req g trailing :
  file_conformant g -> Forall (fun nr => accepts req (snd nr) /\ zlen (ref_content (snd nr)) < two31) (rf_records g) ->
  exists st s',
    run (st <-- r_new ;; x <-- it_pull (S (length (rf_records g))) req st ;; Ret (r_hdr st, x))
        (src_of (ref_shp g ++ trailing))
    = (Ok (header_of (rf_type g) (rf_box g) (declared_words g),
           (map (fun nr => Ok (denote (snd nr))) (rf_records g), true, st)), s').
Proof.
  intros (Hbl & Hbox & Hrecs & Hlen) Hacc.
  set (rs := rf_records g) in *. set (len := declared_words g).
  assert (Hconf : Forall (fun nr => rec_conformant (snd nr)) rs).
  { eapply Forall_impl; [|exact Hrecs]. cbn. intros ? (_ & H & _). exact H. }
  pose proof (ref_records_even rs Hconf) as Hev. pose proof (zlen_nonneg (ref_records_bytes rs)) as Hnn.
  assert (Hl : in_i32 len) by (unfold in_i32, len, declared_words; fold rs; unfold two31 in *; lia).
  assert (Hlen2 : 2 * len = 100 + zlen (ref_records_bytes rs)) by (unfold len, declared_words; fold rs; lia).
  (* open *)
  pose proof (reads_header (rf_type g) (rf_box g) len Hbl Hbox Hl) as Hh.
  set (s0 := src_of (ref_shp g ++ trailing)).
  assert (Hc0 : clean s0) by (unfold clean, s0, src_of; cbn; split; [reflexivity|lia]).
  assert (Hr0 : s_rest s0 = ref_header (rf_type g) (rf_box g) len ++ (ref_records_bytes rs ++ trailing)).
  { rewrite s_rest_skipn. unfold s0, src_of; cbn [s_pos s_data Z.to_nat skipn]. unfold ref_shp. fold rs. fold (declared_words g). fold len.
    rewrite <- app_assoc. reflexivity. }
  destruct (Hh s0 _ Hc0 Hr0) as (s1 & Hrun1 & Hc1 & Hd1 & Hp1).
  rewrite zlen_ref_header in Hp1 by exact Hbl.
  assert (Hr1 : s_rest s1 = ref_records_bytes rs ++ trailing).
  { eapply rest_after; eauto; [apply Hc0|]. rewrite zlen_ref_header by exact Hbl. exact Hp1. }
  set (st0 := mkr (header_of (rf_type g) (rf_box g) len) None 100 0).
  assert (Hok : Forall (record_ok req) rs).
  { rewrite Forall_forall in *. intros nr Hin. destruct (Hrecs nr Hin) as (H1 & H2 & _).
    destruct (Hacc nr Hin) as (H3 & H4). unfold record_ok. auto. }
  change (s_pos s0) with 0 in Hp1.
  assert (E2 : r_cur st0 = s_pos s1) by (change (r_cur st0) with 100; lia).
  assert (Efl : flen_bytes st0 = Z.max 0 len * 2) by reflexivity.
  assert (E3 : flen_bytes st0 = r_cur st0 + zlen (ref_records_bytes rs)) by (change (r_cur st0) with 100; lia).
  assert (E4 : flen_bytes st0 < two64) by (unfold two64; unfold two31, in_i32 in *; lia).
  destruct (it_pull_noindex req rs st0 s1 trailing eq_refl Hc1 E2 E3 E4 Hok Hr1) as (s2 & Hrun2 & Hc2 & Hd2).
  eexists. exists s2. unfold r_new. rewrite !run_bind, Hrun1. cbn [run]. rewrite run_bind.
    fold st0. rewrite Hrun2. cbn [run r_hdr st0]. reflexivity.
Qed.
