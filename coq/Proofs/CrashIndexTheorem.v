(** C11, the route through the index, composed with the writer: whatever
    prefixes of the .shp and of the .shx operation sequences were persisted
    (independently, cuts inside writes included), a reader given both either
    fails to open (the index or the .shp header cannot be read) or answers the
    index entries with a prefix of the written shapes followed by
    UnexpectedEof errors only. *)
From SF Require Import Model.Bytes Model.F64 Model.ShapeType Model.Shapes Model.Res Model.Encode
  Model.F64Arith Model.Construct Model.Writer Model.Prog Model.Decode Model.Reader Spec.Esri Spec.Denote Spec.Layout.
From SF Require Import Proofs.BytesLemmas Proofs.ShapeTypeProofs Proofs.SizeProofs Proofs.ProgLemmas Proofs.RecordL1
  Proofs.ReaderSeq Proofs.WriterCore Proofs.WriterInv Proofs.WriterFaults Proofs.EncodeRef Proofs.LayoutConf Proofs.RoundTrip
  Proofs.IndexReader Proofs.IndexFiles Proofs.CrashRead Proofs.CrashStates Proofs.CrashTheorem Proofs.CrashStatesShx Proofs.CrashIndex.
Open Scope Z_scope.

Ltac Zify.zify_post_hook ::= Z.div_mod_to_equations.

Lemma short_header_fails (B : bytes) h s' : (length B < 100)%nat -> run read_header (src_of B) = (Ok h, s') -> False.
Proof.
  intros HB Eh. destruct (read_header_pos (src_of B) h s' eq_refl ltac:(cbn; lia) Eh) as (P1 & _ & _ & P4).
  change (s_pos (src_of B)) with 0 in P1. change (s_data (src_of B)) with B in P4. unfold zlen in P4. lia.
Qed.

Lemma firstn_map_firstn {A B} (f : A -> B) j (l : list A) : map f (firstn j l) = firstn j (map f l).
Proof. symmetry. apply firstn_map. Qed.

Theorem crash_prefix_index (cs : list wcall) (e : wending) (req : option shape_type) (fuel : nat) :
  Forall call_ok cs ->
  let ss := accepted_acc [] cs in
  Forall shape_ok ss -> FileFits ss -> RecordsFit ss -> (req = None \/ req = Some (file_type ss)) ->
  let w := snd (run_history true world0 cs e) in
  forall p, is_prefix p (explode (trace (w_shp w))) ->
  forall px, is_prefix px (explode (trace (w_shx w))) ->
  let shp := fst (bp_ops p ([], 0%nat)) in
  let shx := fst (bp_ops px ([], 0%nat)) in
  forall idx sx, run read_index_file (src_of shx) = (Ok idx, sx) ->
  (exists r s', run (r_with_shx idx) (src_of shp) = (r, s') /\ forall st, r <> Ok st) \/
  (exists j n st' s', (j <= n)%nat /\ (n <= length ss)%nat /\
     run (st <-- r_with_shx idx ;; it_pull fuel req st) (src_of shp)
     = (Ok (firstn fuel (map (fun s => Ok (on_read s)) (firstn j ss) ++ repeat (Err EIoEof) (n - j)),
            (n <? fuel)%nat, st'), s')).
Proof.
  intros Hcs ss Hok Hf Hrf Hreq w p Hp px Hpx shp shx idx sx Hidx.
  destruct (crash_states_shp true cs e Hcs p Hp) as (H' & m & E & S). fold ss shp in E, S.
  destruct (crash_states_shx cs e Hcs px Hpx) as (Hx' & mx & Ex & Sx). fold ss shx in Ex, Sx.
  pose proof (written_records_ok req ss Hok (accepted_one_type0 cs) Hf Hrf Hreq) as Hrecs.
  set (rs := numbered 1 (map rec_of_shape ss)) in *.
  assert (HR : zlen (ref_records_bytes rs) < two31 * 4).
  { unfold rs. rewrite <- records_is_ref, zlen_records_from. unfold FileFits, file_words in Hf. unfold two31 in *. lia. }
  (* the index that was read is a prefix of the true index *)
  assert (Hentries : Forall (fun e0 => in_i32 (fst e0) /\ in_i32 (snd e0)) (ref_index_entries 50 rs)).
  { apply numbered_index_in_i32; [lia|]. unfold rs. rewrite sum_numbered. unfold FileFits, file_words in Hf. exact Hf. }
  assert (EX : index_from 50 ss = index_bytes (ref_index_entries 50 rs)).
  { unfold rs, index_bytes. rewrite (index_is_ref 50 1 ss (FileFits_words ss Hf)). reflexivity. }
  rewrite EX in Ex, Sx.
  assert (HHx : length Hx' = 100%nat).
  { destruct Sx as [[Hnil Hlen]|Hlen]; [|exact Hlen].
    destruct (Nat.eq_dec (length Hx') 100) as [E100|Hne]; [exact E100|exfalso].
    rewrite Hnil, app_nil_r in Ex. unfold read_index_file in Hidx. rewrite run_bind in Hidx.
    destruct (run read_header (src_of shx)) as [[h|er|] s1] eqn:Eh; try discriminate.
    rewrite Ex in Eh. exact (short_header_fails Hx' h s1 ltac:(lia) Eh). }
  rewrite Ex in Hidx.
  destruct (read_index_crash Hx' _ mx idx sx HHx Hentries Hidx) as (c & -> & Hc).
  (* the .shp *)
  rewrite records_is_ref in E, S. fold rs in E, S.
  assert (HH' : length H' = 100%nat \/ (length H' < 100)%nat /\ shp = H').
  { destruct S as [[Hnil Hlen]|Hlen]; [|left; exact Hlen].
    destruct (Nat.eq_dec (length H') 100) as [E100|Hne]; [left; exact E100|right]. split; [lia|]. rewrite E, Hnil. apply app_nil_r. }
  destruct HH' as [HH'|[Hshort Eshp]].
  2:{ left. unfold r_with_shx. rewrite run_bind. destruct (run read_header (src_of shp)) as [[h|er|] s1] eqn:Eh.
      - exfalso. rewrite Eshp in Eh. exact (short_header_fails H' h s1 Hshort Eh).
      - eexists; eexists. split; [reflexivity|intros st; discriminate].
      - eexists; eexists. split; [reflexivity|intros st; discriminate]. }
  destruct (crash_read_index_ordered req H' rs m c fuel HH' Hrecs HR) as [Hfail|(j & st' & s' & Hrun)].
  - left. rewrite E. exact Hfail.
  - right. rewrite <- E in Hrun.
    set (n := length (firstn c rs)) in *.
    assert (Hlrs : length rs = length ss).
    { unfold rs. clear. generalize 1. induction ss as [|s r IH]; intros i; cbn [map numbered length]; [reflexivity|]. rewrite IH. reflexivity. }
    assert (Hn : (n <= length ss)%nat) by (unfold n; rewrite firstn_length, <- Hlrs; apply Nat.le_min_r).
    set (j' := Nat.min j n).
    exists j', n, st', s'. split; [unfold j'; lia|]. split; [exact Hn|].
    rewrite Hrun. f_equal. f_equal. f_equal. f_equal.
    assert (E1 : firstn j (firstn c rs) = firstn j' rs).
    { assert (Fm : forall k (l : list (Z * ref_rec)), firstn k l = firstn (Nat.min k (length l)) l).
      { intros k l. destruct (Nat.le_ge_cases k (length l)) as [Hk|Hk].
        - rewrite Nat.min_l by exact Hk. reflexivity.
        - rewrite Nat.min_r by exact Hk. rewrite firstn_all. apply firstn_all2. exact Hk. }
      rewrite firstn_firstn, (Fm (Nat.min j c) rs). f_equal. unfold j', n. rewrite firstn_length. lia. }
    rewrite E1. unfold rs at 1. rewrite firstn_numbered_map. f_equal.
    assert (L : forall (l : list (Z * ref_rec)), map (fun _ => @Err shape EIoEof) l = repeat (Err EIoEof) (length l))
      by (induction l as [|x l IH]; cbn [map repeat length]; [reflexivity|rewrite IH; reflexivity]).
    rewrite L. f_equal. unfold j', n. rewrite skipn_length. f_equal. lia.
Qed.
