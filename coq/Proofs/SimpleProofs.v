(** Every record-level reader is a simple program (no seek, source errors
    propagated), hence L2: a truncated record reads as UnexpectedEof. *)
From SF Require Import Model.Bytes Model.F64 Model.ShapeType Model.Shapes Model.Res Model.Encode
  Model.F64Arith Model.Construct Model.Prog Model.Decode Spec.Esri Spec.Denote.
From SF Require Import Proofs.BytesLemmas Proofs.ProgLemmas Proofs.RecordL1.
Open Scope Z_scope.

Ltac simp1 :=
  first
  [ apply simple_take_
  | apply simple_reserve_
  | apply simple_ret
  | apply simple_fail
  | apply simple_panic
  | apply simple_rep_Z
  | apply simple_for_each; intros
  | apply simple_bind; [|intros]
  | match goal with
    | |- simple (if ?c then _ else _) => destruct c
    | |- simple (match ?x with _ => _ end) => destruct x
    | |- simple (let '(_, _) := ?x in _) => destruct x
    end ].

Ltac simp := repeat simp1.

Lemma simple_read_i32_le : simple read_i32_le. Proof. unfold read_i32_le; simp. Qed.
Lemma simple_read_i32_be : simple read_i32_be. Proof. unfold read_i32_be; simp. Qed.
Lemma simple_read_f64 : simple read_f64. Proof. unfold read_f64; simp. Qed.
#[export] Hint Resolve simple_read_i32_le simple_read_i32_be simple_read_f64 : simple.

Lemma simple_read_shape_type : simple read_shape_type.
Proof. unfold read_shape_type. apply simple_bind; [apply simple_read_i32_le|intros]. simp. Qed.

Ltac simp2 :=
  repeat first
  [ apply simple_read_i32_le | apply simple_read_i32_be | apply simple_read_f64 | apply simple_read_shape_type
  | simp1 ].

Lemma simple_read_header : simple read_header. Proof. unfold read_header; simp2. Qed.
Lemma simple_read_record_header : simple read_record_header. Proof. unfold read_record_header; simp2. Qed.
Lemma simple_read_xy_points d n : simple (read_xy_points d n). Proof. unfold read_xy_points; simp2. Qed.
Lemma simple_read_zs_into ps : simple (read_zs_into ps). Proof. unfold read_zs_into; simp2. Qed.
Lemma simple_read_ms_into ps : simple (read_ms_into ps). Proof. unfold read_ms_into; simp2. Qed.
Lemma simple_read_bbox_xy d : simple (read_bbox_xy d). Proof. unfold read_bbox_xy; simp2. Qed.
Lemma simple_read_z_range b : simple (read_z_range b). Proof. unfold read_z_range; simp2. Qed.
Lemma simple_read_m_range b : simple (read_m_range b). Proof. unfold read_m_range; simp2. Qed.

Ltac simp3 :=
  repeat first
  [ apply simple_read_xy_points | apply simple_read_zs_into | apply simple_read_ms_into
  | apply simple_read_bbox_xy | apply simple_read_z_range | apply simple_read_m_range
  | apply simple_read_i32_le | apply simple_read_i32_be | apply simple_read_f64 | apply simple_read_shape_type
  | simp1 ].

Lemma simple_read_point d size : simple (read_point d size).
Proof. unfold read_point; destruct d; simp3. Qed.

Lemma simple_read_multipoint d size : simple (read_multipoint d size).
Proof. unfold read_multipoint; simp3. Qed.

Lemma simple_multipart_new d : simple (multipart_new d).
Proof. unfold multipart_new, read_parts; simp3. Qed.

Lemma simple_read_parts_xy d offs n : simple (read_parts_xy d offs n).
Proof. unfold read_parts_xy; simp3. Qed.

Lemma simple_read_parts_zs b parts : simple (read_parts_zs b parts).
Proof. unfold read_parts_zs; simp3. Qed.

Lemma simple_read_parts_ms b parts : simple (read_parts_ms b parts).
Proof. unfold read_parts_ms; simp3. Qed.

Ltac simp4 :=
  repeat first
  [ apply simple_multipart_new | apply simple_read_parts_xy | apply simple_read_parts_zs | apply simple_read_parts_ms
  | apply simple_read_xy_points | apply simple_read_zs_into | apply simple_read_ms_into
  | apply simple_read_bbox_xy | apply simple_read_z_range | apply simple_read_m_range
  | apply simple_read_i32_le | apply simple_read_i32_be | apply simple_read_f64 | apply simple_read_shape_type
  | simp1 ].

Lemma simple_read_polyline_body d size : simple (read_polyline_body d size).
Proof. unfold read_polyline_body; simp4. Qed.

Lemma simple_read_multipatch size : simple (read_multipatch size).
Proof. unfold read_multipatch, read_patch_type; simp4. Qed.

Lemma simple_read_content t size : simple (read_content t size).
Proof.
  destruct t; cbn [read_content]; try apply simple_ret; try apply simple_read_point;
    try apply simple_read_multipoint; try apply simple_read_multipatch;
    unfold read_polyline, read_polygon; (apply simple_bind; [apply simple_read_polyline_body|intros; apply simple_ret]).
Qed.

Lemma simple_read_from req size : simple (read_from req size).
Proof.
  unfold read_from. apply simple_bind; [apply simple_read_shape_type|intros t].
  destruct req; [destruct (st_eqb t s); [apply simple_read_content|apply simple_fail]|apply simple_read_content].
Qed.

Lemma simple_read_one_shape req : simple (read_one_shape req).
Proof.
  unfold read_one_shape. apply simple_bind; [apply simple_read_record_header|intros hdr].
  destruct ((snd hdr * 2 <? 0) || (two31 <=? snd hdr * 2)); [apply simple_fail|].
  apply simple_bind; [apply simple_read_from|intros; apply simple_ret].
Qed.

Lemma simple_read_index_file : simple read_index_file.
Proof. unfold read_index_file. apply simple_bind; [apply simple_read_header|intros]. simp2. Qed.

(** L2: a record cut anywhere strictly inside is an UnexpectedEof, whatever
    reader is asked for; a cut after the record changes nothing. *)
Theorem L2_truncated_record req num r s rest k :
  in_i32 num -> rec_conformant r -> zlen (ref_content r) < two31 -> accepts req r ->
  clean s -> s_rest s = ref_record num r ++ rest ->
  s_pos s <= k < s_pos s + zlen (ref_record num r) ->
  exists s2, run (read_one_shape req) (truncate k s) = (Err EIoEof, s2).
Proof.
  intros Hnum Hc Hlt Ha Hcl Hr Hk.
  destruct (L1_record req num r Hnum Hc Hlt Ha s rest Hcl Hr) as (s' & Hrun & Hc' & Hd & Hp).
  assert (Hle : s_pos s <= k) by lia.
  destruct (simple_truncation _ (simple_read_one_shape req) s _ s' Hcl Hrun k Hle) as [_ H2].
  apply H2. lia.
Qed.

Theorem L2_record_inside req num r s rest k :
  in_i32 num -> rec_conformant r -> zlen (ref_content r) < two31 -> accepts req r ->
  clean s -> s_rest s = ref_record num r ++ rest ->
  s_pos s + zlen (ref_record num r) <= k ->
  exists s', run (read_one_shape req) (truncate k s) = (Ok ((num, zlen (ref_content r) / 2), denote r), truncate k s')
             /\ s_pos s' = s_pos s + zlen (ref_record num r) /\ s_data s' = s_data s /\ clean s'.
Proof.
  intros Hnum Hc Hlt Ha Hcl Hr Hk.
  destruct (L1_record req num r Hnum Hc Hlt Ha s rest Hcl Hr) as (s' & Hrun & Hc' & Hd & Hp).
  assert (Hle : s_pos s <= k) by (pose proof (zlen_nonneg (ref_record num r)); lia).
  destruct (simple_truncation _ (simple_read_one_shape req) s _ s' Hcl Hrun k Hle) as [H1 _].
  exists s'. split; [apply H1; lia|]. auto.
Qed.
