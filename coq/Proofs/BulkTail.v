(** The bulk helper `write_shapes(self, tail)` called on a writer that already
    received calls is the calls `write_shape` on the tail, one by one, up to
    and including the first that fails, followed by drop.  Every theorem about
    histories of single calls therefore covers histories ended by the helper. *)
From SF Require Import Model.Bytes Model.F64 Model.ShapeType Model.Shapes Model.Res Model.Encode
  Model.Construct Model.Writer.
Open Scope Z_scope.

Lemma run_calls_app cs1 : forall cs2 st w,
  run_calls (cs1 ++ cs2) st w =
  let '(rs1, st1, w1) := run_calls cs1 st w in
  let '(rs2, st2, w2) := run_calls cs2 st1 w1 in (rs1 ++ rs2, st2, w2).
Proof.
  induction cs1 as [|c cs1 IH]; intros cs2 st w; cbn [app run_calls].
  - destruct (run_calls cs2 st w) as [[rs2 st2] w2]. reflexivity.
  - destruct (match c with CWrite s => w_write_shape st w s | CFinalize => w_finalize st w | CHeal => (Ok tt, st, heal w) end)
      as [[r st'] w']. rewrite IH.
    destruct (run_calls cs1 st' w') as [[rs1 st1] w1]. destruct (run_calls cs2 st1 w1) as [[rs2 st2] w2]. reflexivity.
Qed.

(** The number of tail shapes the helper offers to the writer: all of them, or
    up to and including the first whose write fails. *)
Fixpoint bulk_offered (ss : list shape) (st : wstate) (w : world) : nat :=
  match ss with
  | [] => O
  | s :: r =>
      let '(res, st', w') := w_write_shape st w s in
      match res with Ok _ => S (bulk_offered r st' w') | _ => 1%nat end
  end.

Lemma bulk_offered_le ss : forall st w, (bulk_offered ss st w <= length ss)%nat.
Proof.
  induction ss as [|s r IH]; intros st w; cbn [bulk_offered length]; [lia|].
  destruct (w_write_shape st w s) as [[res st'] w']. destruct res; [specialize (IH st' w')|..]; lia.
Qed.

Lemma bulk_offered_pos s r st w : (1 <= bulk_offered (s :: r) st w)%nat.
Proof. cbn [bulk_offered]. destruct (w_write_shape st w s) as [[res st'] w']. destruct res; lia. Qed.

Theorem bulk_is_calls ss : forall st w,
  let '(rs, st1, w1) := run_calls (map CWrite (firstn (bulk_offered ss st w) ss)) st w in
  write_shapes_calls ss st w = (last rs (Ok tt), st1, w1) /\
  length rs = bulk_offered ss st w /\
  Forall (fun r => r = Ok tt) (removelast rs) /\
  ((bulk_offered ss st w < length ss)%nat -> last rs (Ok tt) <> Ok tt).
Proof.
  induction ss as [|s r IH]; intros st w.
  - cbn. split; [reflexivity|split; [reflexivity|split; [constructor|lia]]].
  - cbn [bulk_offered write_shapes_calls]. destruct (w_write_shape st w s) as [[res st'] w'] eqn:E. destruct res as [[]|e|].
    + cbn [firstn map run_calls]. rewrite E. specialize (IH st' w').
      destruct (run_calls (map CWrite (firstn (bulk_offered r st' w') r)) st' w') as [[rs st1] w1].
      destruct IH as (H1 & Hlen & H2 & H3). cbn [length]. split; [|split; [|split]].
      * rewrite H1. destruct rs; reflexivity.
      * rewrite Hlen. reflexivity.
      * destruct rs as [|x rs]; [constructor|]. cbn [removelast]. constructor; [reflexivity|exact H2].
      * intros Hlt. destruct rs as [|x rs]; [|apply H3; lia].
        exfalso. cbn [length] in Hlen. destruct r as [|s2 r2]; [cbn in Hlt; lia|].
        pose proof (bulk_offered_pos s2 r2 st' w'). lia.
    + cbn [firstn map run_calls]. rewrite E. cbn. split; [reflexivity|split; [reflexivity|split; [constructor|discriminate]]].
    + cbn [firstn map run_calls]. rewrite E. cbn. split; [reflexivity|split; [reflexivity|split; [constructor|discriminate]]].
Qed.

(** When every write of the tail succeeds the helper is the history of single
    calls, so the files after `write_shapes` are those of the plain history. *)
Theorem bulk_all_ok hs w0 cs tail :
  (let '(rs, _, _) := run_calls (cs ++ map CWrite tail) (w_new hs) w0 in
   Forall (fun r => r = Ok tt) (skipn (length cs) rs)) ->
  snd (run_history_bulk hs w0 cs tail) = snd (run_history hs w0 (cs ++ map CWrite tail) EDrop).
Proof.
  unfold run_history_bulk, run_history. rewrite run_calls_app.
  destruct (run_calls cs (w_new hs) w0) as [[rs st] w] eqn:E1.
  assert (Hl : length rs = length cs).
  { clear - E1. revert rs st w E1. generalize (w_new hs) as st0. generalize w0 as wi.
    induction cs as [|c cs IH]; intros wi st0 rs st w E; cbn [run_calls] in E; [injection E as <- _ _; reflexivity|].
    destruct (match c with CWrite s => w_write_shape st0 wi s | CFinalize => w_finalize st0 wi | CHeal => (Ok tt, st0, heal wi) end)
      as [[r st'] w']. destruct (run_calls cs st' w') as [[rs' st''] w''] eqn:E'. injection E as <- _ _. cbn [length]. f_equal. eapply IH; eauto. }
  generalize st w. clear E1. intros st1 w1.
  revert st1 w1. induction tail as [|s r IH]; intros st1 w1; cbn [map run_calls write_shapes_calls].
  - intros _. reflexivity.
  - destruct (w_write_shape st1 w1 s) as [[res st'] w'].
    destruct (run_calls (map CWrite r) st' w') as [[rs2 st2] w2] eqn:E2.
    rewrite <- Hl, skipn_app, skipn_all, Nat.sub_diag. cbn [app skipn]. intros Hall. inversion Hall as [|? ? Hr Hrest]; subst.
    specialize (IH st' w'). rewrite E2 in IH. rewrite <- Hl, skipn_app, skipn_all, Nat.sub_diag in IH. cbn [app skipn] in IH.
    specialize (IH Hrest). destruct (write_shapes_calls r st' w') as [[r' st''] w'']. exact IH.
Qed.
