(** C11, reader side: on ANY 100 bytes followed by a byte-prefix of a stream of
    conformant records, the reader either fails to open or yields a prefix of
    what the records denote (then at most one error), never anything else. *)
From SF Require Import Model.Bytes Model.F64 Model.ShapeType Model.Shapes Model.Res Model.Encode
  Model.F64Arith Model.Construct Model.Prog Model.Decode Model.Reader Spec.Esri Spec.Denote.
From SF Require Import Proofs.BytesLemmas Proofs.ProgLemmas Proofs.RecordL1 Proofs.SimpleProofs Proofs.ReaderSeq
  Proofs.NoPanic Proofs.NoPanicProofs Proofs.ReaderRobust Proofs.Truncation.
Open Scope Z_scope.

Ltac Zify.zify_post_hook ::= Z.div_mod_to_equations.

(** ** A successfully read header consumed exactly 100 bytes that exist *)
Lemma read_f64_pos s v s' : s_fault s = None -> 0 <= s_pos s -> run read_f64 s = (Ok v, s') ->
  s_pos s' = s_pos s + 8 /\ s_fault s' = None /\ s_data s' = s_data s /\ s_pos s' <= zlen (s_data s).
Proof.
  intros Hf H0 Hrun. unfold read_f64 in Hrun. rewrite run_bind in Hrun.
  destruct (run (take 8) s) as [[bs|e|] s1] eqn:Et; try discriminate.
  cbn [run] in Hrun. injection Hrun as _ <-. destruct (take_pos 8 s bs s1 Hf H0 Et) as (P1 & P2 & P3 & P4).
  split; [rewrite P1; reflexivity|]. split; [exact P2|]. split; [exact P3|]. apply P4. lia.
Qed.

Lemma read_header_pos s h s' : s_fault s = None -> 0 <= s_pos s -> run read_header s = (Ok h, s') ->
  s_pos s' = s_pos s + 100 /\ s_fault s' = None /\ s_data s' = s_data s /\ s_pos s' <= zlen (s_data s).
Proof.
  intros Hf H0 H. unfold read_header in H. stepn H code s1 E1.
  destruct (read_i32_pos read_i32_be s code s1 (or_introl eq_refl) Hf H0 E1) as (A1 & A2 & A3 & A4).
  destruct (negb (code =? 9994)); [cbn in H; discriminate|].
  stepn H skip s2 E2. destruct (take_pos 20 s1 skip s2 A2 ltac:(lia) E2) as (B1 & B2 & B3 & B4).
  stepn H len s3 E3. destruct (read_i32_pos read_i32_be s2 len s3 (or_introl eq_refl) B2 ltac:(lia) E3) as (C1 & C2 & C3 & C4).
  stepn H ver s4 E4. destruct (read_i32_pos read_i32_le s3 ver s4 (or_intror eq_refl) C2 ltac:(lia) E4) as (D1 & D2 & D3 & D4).
  stepn H t s5 E5.
  assert (T : s_pos s5 = s_pos s4 + 4 /\ s_fault s5 = None /\ s_data s5 = s_data s4 /\ s_pos s5 <= zlen (s_data s4)).
  { unfold read_shape_type in E5. stepn E5 c sx Ex.
    destruct (read_i32_pos read_i32_le s4 c sx (or_intror eq_refl) D2 ltac:(lia) Ex) as (X1 & X2 & X3 & X4).
    destruct (st_decode c); cbn [run] in E5; [|discriminate]. injection E5 as _ <-. auto. }
  destruct T as (T1 & T2 & T3 & T4).
  stepn H f1 s6 E6. destruct (read_f64_pos s5 f1 s6 T2 ltac:(lia) E6) as (F1 & F2 & F3 & F4).
  stepn H f2 s7 E7. destruct (read_f64_pos s6 f2 s7 F2 ltac:(lia) E7) as (G1 & G2 & G3 & G4).
  stepn H f3 s8 E8. destruct (read_f64_pos s7 f3 s8 G2 ltac:(lia) E8) as (H1 & H2 & H3 & H4).
  stepn H f4 s9 E9. destruct (read_f64_pos s8 f4 s9 H2 ltac:(lia) E9) as (I1 & I2 & I3 & I4).
  stepn H f5 s10 E10. destruct (read_f64_pos s9 f5 s10 I2 ltac:(lia) E10) as (J1 & J2 & J3 & J4).
  stepn H f6 s11 E11. destruct (read_f64_pos s10 f6 s11 J2 ltac:(lia) E11) as (K1 & K2 & K3 & K4).
  stepn H f7 s12 E12. destruct (read_f64_pos s11 f7 s12 K2 ltac:(lia) E12) as (L1 & L2 & L3 & L4).
  stepn H f8 s13 E13. destruct (read_f64_pos s12 f8 s13 L2 ltac:(lia) E13) as (M1 & M2 & M3 & M4).
  cbn [run] in H. injection H as _ <-.
  split; [lia|]. split; [exact M2|]. split; [congruence|]. assert (D : s_data s12 = s_data s) by congruence. rewrite D in M4. exact M4.
Qed.

(** ** Reading at the very end *)
Lemma read_at_end req s : clean s -> s_rest s = [] -> exists s', run (read_one_shape req) s = (Err EIoEof, s').
Proof.
  intros [Hf Hp] Hr. unfold read_one_shape, read_record_header, read_i32_be. rewrite !run_bind.
  unfold take at 1. cbn [run]. unfold do_take, faulty_now. rewrite Hf, Hr. cbn [length Nat.leb lift_res run]. eexists. reflexivity.
Qed.

Lemma it_pull_after_error req st s f :
  r_index st = None -> flen_bytes st <= r_cur st ->
  run (it_pull f req st) s = (Ok ([], match f with O => false | S _ => true end, st), s).
Proof.
  intros Hidx Hge. destruct f as [|f]; [reflexivity|]. rewrite it_pull_unfold, run_bind. unfold it_next. rewrite Hidx.
  destruct (Z.leb_spec (flen_bytes st) (r_cur st)); [|lia]. reflexivity.
Qed.

(** ** Iterating over a byte-prefix of a record stream, whatever length the header declares *)
Theorem crash_iteration req : forall fuel rs st s rest k,
  r_index st = None -> clean s -> r_cur st = s_pos s ->
  Forall (record_ok req) rs -> s_rest s = ref_records_bytes rs ++ rest ->
  s_pos s <= k <= s_pos s + zlen (ref_records_bytes rs) -> zlen (s_data s) < two63 ->
  exists j tail ended st' s',
    run (it_pull fuel req st) (truncate k s)
    = (Ok (map (fun nr => Ok (denote (snd nr))) (firstn j rs) ++ tail, ended, st'), s') /\
    (tail = [] \/ tail = [Err EIoEof]) /\
    (* at least the records that lie wholly inside both the retained bytes and the declared length *)
    (forall n, (n <= fuel)%nat -> (n <= length rs)%nat ->
       s_pos s + zlen (ref_records_bytes (firstn n rs)) <= k ->
       s_pos s + zlen (ref_records_bytes (firstn n rs)) <= flen_bytes st -> (n <= j)%nat).
Proof.
  induction fuel as [|fuel IH]; intros rs st s rest k Hidx Hcl Hcur Hok Hr Hk Hbig.
  - exists 0%nat, [], false, st, (truncate k s). split; [reflexivity|]. split; [left; reflexivity|]. intros n Hn _ _ _. exact Hn.
  - rewrite it_pull_unfold, run_bind.
    destruct (Z.leb_spec (flen_bytes st) (r_cur st)) as [Hge|Hlt].
    + (* the declared length is reached *)
      unfold it_next. rewrite Hidx. destruct (Z.leb_spec (flen_bytes st) (r_cur st)); [|lia].
      cbn [run fst snd]. exists 0%nat, [], true, st, (truncate k s). split; [reflexivity|]. split; [left; reflexivity|].
      intros n _ Hn _ Hfl. destruct n as [|n]; [apply Nat.le_refl|exfalso].
      destruct rs as [|[num r] rs']; [cbn in Hn; lia|].
      cbn [firstn] in Hfl. unfold ref_records_bytes in Hfl. cbn [flat_map fst snd] in Hfl. rewrite zlen_app, zlen_ref_record in Hfl.
      pose proof (zlen_nonneg (ref_content r)). pose proof (zlen_nonneg (flat_map (fun nr => ref_record (fst nr) (snd nr)) (firstn n rs'))). lia.
    + set (st1 := set_cur st (flen_bytes st)).
      assert (Hafter : forall s2, run (it_pull fuel req st1) s2 = (Ok ([], match fuel with O => false | S _ => true end, st1), s2)).
      { intros s2. apply it_pull_after_error; [exact Hidx|]. unfold st1; cbn [set_cur r_cur]. change (flen_bytes (set_cur st (flen_bytes st))) with (flen_bytes st). lia. }
      destruct rs as [|[num r] rs'].
      * (* no record left: reading hits the end *)
        unfold ref_records_bytes in Hk; cbn [flat_map] in Hk. change (zlen (@nil Z)) with 0 in Hk.
        assert (Hre : s_rest (truncate k s) = []).
        { rewrite rest_truncate by (destruct Hcl; lia). replace (k - s_pos s) with 0 by lia. reflexivity. }
        destruct (read_at_end req (truncate k s) (truncate_clean k s Hcl) Hre) as (s2 & Hrun).
        rewrite (it_next_error req st (truncate k s) EIoEof s2 Hidx Hlt Hrun). cbn [fst snd]. rewrite run_bind, Hafter. cbn [run fst snd].
        exists 0%nat, [Err EIoEof]. eexists. exists st1, s2. split; [reflexivity|]. split; [right; reflexivity|].
        intros n _ Hn _ _. cbn in Hn. exact Hn.
      * inversion Hok as [|? ? Hok1 Hok2]; subst. pose proof Hok1 as (Hnum & Hc & Hsz & Ha). cbn [fst snd] in *.
        unfold ref_records_bytes in Hr, Hk. cbn [flat_map fst snd] in Hr, Hk. fold (ref_records_bytes rs') in Hr, Hk.
        rewrite zlen_app in Hk. rewrite <- app_assoc in Hr.
        pose proof (zlen_nonneg (ref_records_bytes rs')) as Hnn. pose proof (zlen_nonneg (ref_content r)) as Hnc.
        pose proof (ref_content_even r Hc) as Hev.
        assert (HL : zlen (ref_record num r) = 8 + zlen (ref_content r)) by apply zlen_ref_record.
        destruct (Z.leb_spec (zlen (ref_record num r)) (k - s_pos s)) as [Hin|Hcut].
        -- destruct (L2_record_inside req num r s (ref_records_bytes rs' ++ rest) k Hnum Hc Hsz Ha Hcl Hr ltac:(lia))
             as (s1 & Hrun & Hp1 & Hd1 & Hc1).
           assert (Hposd : s_pos s <= zlen (s_data s)).
           { destruct Hcl as [_ Hp0]. rewrite s_rest_skipn in Hr.
             assert (L : length (skipn (Z.to_nat (s_pos s)) (s_data s)) = length (ref_record num r ++ ref_records_bytes rs' ++ rest)) by (rewrite Hr; reflexivity).
             rewrite skipn_length, app_length in L. unfold zlen in *. lia. }
           assert (G1 : r_cur st + 8 + zlen (ref_content r) / 2 * 2 < two64) by (clear - Hcur Hposd Hbig Hsz Hnc Hev; unfold two63, two64, two31 in *; lia).
           assert (G2 : 0 <= r_cur st) by (destruct Hcl; lia).
           assert (G3 : 0 <= zlen (ref_content r) / 2) by (clear - Hnc; lia).
           rewrite (it_next_ok_at req st (truncate k s) _ _ _ Hidx Hlt Hrun G1 G2 G3). cbn [fst snd]. rewrite run_bind.
           set (st2 := set_cur st (r_cur st + 8 + zlen (ref_content r) / 2 * 2)).
           assert (Hr1 : s_rest s1 = ref_records_bytes rs' ++ rest) by (eapply rest_after; eauto; apply Hcl).
           destruct (IH rs' st2 s1 rest k) as (j & tail & ended & st3 & s3 & Hrun3 & Htail & Hlb); try assumption.
           ++ unfold st2; cbn [set_cur r_cur]. lia.
           ++ lia.
           ++ rewrite Hd1. exact Hbig.
           ++ rewrite Hrun3. cbn [run fst snd]. exists (S j), tail, ended, st3, s3. split; [reflexivity|]. split; [exact Htail|].
              intros n Hnf Hn Hins Hfl. destruct n as [|n]; [lia|]. apply le_n_S. apply Hlb.
              ** lia.
              ** cbn [length] in Hn. lia.
              ** cbn [firstn] in Hins. unfold ref_records_bytes in Hins. cbn [flat_map fst snd] in Hins. rewrite zlen_app in Hins.
                 fold (ref_records_bytes (firstn n rs')) in Hins. lia.
              ** cbn [firstn] in Hfl. unfold ref_records_bytes in Hfl. cbn [flat_map fst snd] in Hfl. rewrite zlen_app in Hfl.
                 fold (ref_records_bytes (firstn n rs')) in Hfl. change (flen_bytes st2) with (flen_bytes st). lia.
        -- destruct (L2_truncated_record req num r s (ref_records_bytes rs' ++ rest) k Hnum Hc Hsz Ha Hcl Hr ltac:(lia)) as (s2 & Hrun).
           rewrite (it_next_error req st (truncate k s) EIoEof s2 Hidx Hlt Hrun). cbn [fst snd]. rewrite run_bind, Hafter. cbn [run fst snd].
           exists 0%nat, [Err EIoEof]. eexists. exists st1, s2. split; [reflexivity|]. split; [right; reflexivity|].
           intros n _ Hn Hins _. destruct n as [|n]; [apply Nat.le_refl|exfalso].
           cbn [firstn] in Hins. unfold ref_records_bytes in Hins. cbn [flat_map fst snd] in Hins. rewrite zlen_app in Hins.
           pose proof (zlen_nonneg (flat_map (fun nr => ref_record (fst nr) (snd nr)) (firstn n rs'))). lia.
Qed.

(** ** The file level: any 100 bytes, then a byte-prefix of the records *)
Theorem crash_read_noindex_lb req (H' : bytes) rs m fuel :
  length H' = 100%nat -> Forall (record_ok req) rs -> 0 <= m <= zlen (ref_records_bytes rs) ->
  zlen (ref_records_bytes rs) < two31 * 4 ->
  let data := H' ++ firstn (Z.to_nat m) (ref_records_bytes rs) in
  (exists e s', run read_header (src_of data) = (Err e, s') /\ run r_new (src_of data) = (Err e, s')) \/
  (exists h s1 j tail ended st' s',
     run read_header (src_of data) = (Ok h, s1) /\
     run (st <-- r_new ;; it_pull fuel req st) (src_of data)
     = (Ok (map (fun nr => Ok (denote (snd nr))) (firstn j rs) ++ tail, ended, st'), s') /\
     (tail = [] \/ tail = [Err EIoEof]) /\
     (forall n, (n <= fuel)%nat -> (n <= length rs)%nat ->
        zlen (ref_records_bytes (firstn n rs)) <= m ->
        100 + zlen (ref_records_bytes (firstn n rs)) <= Z.max 0 (h_len h) * 2 -> (n <= j)%nat)).
Proof.
  intros HH Hok Hm Hsmall data. set (R := ref_records_bytes rs) in *.
  unfold r_new. destruct (run read_header (src_of data)) as [[h|e|] s1] eqn:Eh.
  - right. rewrite run_bind. unfold r_new. rewrite run_bind, Eh. cbn [run].
    destruct (read_header_pos (src_of data) h s1 eq_refl ltac:(cbn; lia) Eh) as (P1 & P2 & P3 & P4).
    change (s_pos (src_of data)) with 0 in P1. change (s_data (src_of data)) with data in P3, P4.
    (* the same source seen as a truncation of the source over the complete records *)
    set (sf := mksrc (H' ++ R) 100 (s_ops s1) None (s_reserved s1)).
    assert (Hs1 : s1 = truncate (100 + m) sf).
    { unfold truncate, sf. cbn [s_data s_pos s_ops s_fault s_reserved]. destruct s1 as [d p o f rsv]. cbn in P1, P2, P3.
      subst d p f. f_equal. unfold data. rewrite firstn_app, HH.
      replace (Z.to_nat (100 + m)) with (100 + Z.to_nat m)%nat by lia.
      rewrite (firstn_all2 H') by (rewrite HH; apply Nat.le_add_r). replace (100 + Z.to_nat m - 100)%nat with (Z.to_nat m) by (apply Nat.add_sub_swap || lia). reflexivity. }
    assert (Hcf : clean sf) by (split; [reflexivity|cbn; lia]).
    assert (Hrf : s_rest sf = R ++ []).
    { rewrite s_rest_skipn. unfold sf. cbn [s_pos s_data]. change (Z.to_nat 100) with 100%nat.
      rewrite skipn_app, skipn_all2, HH, Nat.sub_diag by lia. rewrite app_nil_r. reflexivity. }
    set (st0 := mkr h None 100 0).
    destruct (crash_iteration req fuel rs st0 sf [] (100 + m)) as (j & tail & ended & st' & s' & Hrun & Htail & Hlb); try assumption; try reflexivity.
    + cbn [s_pos sf]. fold R. lia.
    + unfold sf. cbn [s_data]. rewrite zlen_app. unfold zlen at 1. rewrite HH. fold R. unfold two31, two63 in *. lia.
    + rewrite Hs1. exists h, (truncate (100 + m) sf), j, tail, ended, st', s'. split; [rewrite <- Hs1; reflexivity|]. split; [exact Hrun|]. split; [exact Htail|].
      intros n Hnf Hn Hin Hfl. apply Hlb; try assumption; change (s_pos sf) with 100; lia.
  - left. exists e, s1. split; [reflexivity|]. rewrite run_bind, Eh. reflexivity.
  - exfalso. pose proof (np_run _ np_read_header (src_of data)) as N. rewrite Eh in N. apply N. reflexivity.
Qed.

Theorem crash_read_noindex req (H' : bytes) rs m fuel :
  length H' = 100%nat -> Forall (record_ok req) rs -> 0 <= m <= zlen (ref_records_bytes rs) ->
  zlen (ref_records_bytes rs) < two31 * 4 ->
  let data := H' ++ firstn (Z.to_nat m) (ref_records_bytes rs) in
  (exists e s', run r_new (src_of data) = (Err e, s')) \/
  (exists j tail ended st' s',
     run (st <-- r_new ;; it_pull fuel req st) (src_of data)
     = (Ok (map (fun nr => Ok (denote (snd nr))) (firstn j rs) ++ tail, ended, st'), s') /\
     (tail = [] \/ tail = [Err EIoEof])).
Proof.
  intros HH Hok Hm Hsmall data.
  destruct (crash_read_noindex_lb req H' rs m fuel HH Hok Hm Hsmall) as [(e & s' & _ & E)|(h & s1 & j & tail & ended & st' & s' & _ & E & Ht & _)].
  - left. exists e, s'. exact E.
  - right. exists j, tail, ended, st', s'. split; [exact E|exact Ht].
Qed.

(** Fewer than 100 bytes: opening fails. *)
Theorem crash_read_short (H' : bytes) : (length H' < 100)%nat ->
  exists r s', run r_new (src_of H') = (r, s') /\ (forall st, r <> Ok st).
Proof.
  intros HH. unfold r_new. rewrite run_bind. destruct (run read_header (src_of H')) as [[h|e|] s1] eqn:Eh.
  - exfalso. destruct (read_header_pos (src_of H') h s1 eq_refl ltac:(cbn; lia) Eh) as (P1 & _ & _ & P4).
    change (s_pos (src_of H')) with 0 in P1. change (s_data (src_of H')) with H' in P4. unfold zlen in P4. lia.
  - eexists; eexists. split; [reflexivity|]. intros st; discriminate.
  - eexists; eexists. split; [reflexivity|]. intros st; discriminate.
Qed.
