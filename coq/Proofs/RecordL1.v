(** L1 at the level of whole records, and L2 (a truncated record is an
    UnexpectedEof). *)
From SF Require Import Model.Bytes Model.F64 Model.ShapeType Model.Shapes Model.Res Model.Encode
  Model.F64Arith Model.Construct Model.Prog Model.Decode Spec.Esri Spec.Denote.
From SF Require Import Proofs.BytesLemmas Proofs.ShapeTypeProofs Proofs.ProgLemmas Proofs.DecodePrims
  Proofs.DecodePoints Proofs.DecodeParts Proofs.DecodeL1.
Open Scope Z_scope.

Arguments f64_enc : simpl never.
Arguments i32_le : simpl never.
Arguments i32_be : simpl never.
Arguments f64s : simpl never.
Arguments i32s : simpl never.

Ltac Zify.zify_post_hook ::= Z.div_mod_to_equations.

Theorem L1_fields r : rec_conformant r ->
  reads (read_content (ref_type r) (zlen (ref_fields r))) (ref_fields r) (denote r).
Proof.
  intros Hc. destruct r as [|x y|x y m|x y z m|t b]; cbn [ref_type ref_fields denote rec_conformant] in *.
  - apply reads_ret.
  - destruct Hc as [Hx Hy]. replace (zlen (f64s [x; y])) with 16 by (rewrite zlen_f64s; reflexivity).
    cbn [read_content]. apply reads_point_XY; assumption.
  - destruct Hc as (Hx & Hy & Hm). replace (zlen (f64s [x; y; m])) with 24 by (rewrite zlen_f64s; reflexivity).
    cbn [read_content]. apply reads_point_XYM; assumption.
  - destruct Hc as (Hx & Hy & Hz & Hm). destruct m as [m|].
    + replace (zlen (f64s [x; y; z] ++ f64_enc m)) with 32
        by (rewrite zlen_app, zlen_f64s, zlen_f64_enc; reflexivity).
      cbn [read_content]. apply reads_point_XYZM_m; assumption.
    + rewrite app_nil_r. replace (zlen (f64s [x; y; z])) with 24 by (rewrite zlen_f64s; reflexivity).
      cbn [read_content]. apply reads_point_XYZM_nom; assumption.
  - destruct Hc as [Ht Hb]. apply L1_multi; assumption.
Qed.

(** What a reader asked for [req] accepts: the generic reader everything, a
    typed reader the records of its type. *)
Definition accepts (req : option shape_type) (r : ref_rec) : Prop :=
  match req with None => True | Some t => ref_type r = t end.

Lemma zlen_ref_content r : zlen (ref_content r) = 4 + zlen (ref_fields r).
Proof. unfold ref_content. rewrite zlen_app, zlen_i32_le. reflexivity. Qed.

Theorem L1_read_from req r : rec_conformant r -> accepts req r ->
  reads (read_from req (zlen (ref_content r))) (ref_content r) (denote r).
Proof.
  intros Hc Ha. unfold read_from.
  eapply (reads_bind _ _ (i32_le (st_code (ref_type r))) (ref_fields r)); [apply reads_shape_type|]. cbn beta zeta.
  replace (zlen (ref_content r) - 4) with (zlen (ref_fields r)) by (rewrite zlen_ref_content; lia).
  destruct req as [t|]; cbn [accepts] in Ha.
  - subst t. rewrite st_eqb_refl. apply L1_fields, Hc.
  - apply L1_fields, Hc.
Qed.

(** Every field is 4 or 8 bytes: contents have an even length. *)
Lemma ref_content_even r : rec_conformant r -> 2 * (zlen (ref_content r) / 2) = zlen (ref_content r).
Proof.
  intros Hc. rewrite zlen_ref_content.
  destruct r as [|x y|x y m|x y z m|t b]; cbn [ref_fields].
  - change (zlen (@nil Z)) with 0. reflexivity.
  - rewrite zlen_f64s. reflexivity.
  - rewrite zlen_f64s. reflexivity.
  - destruct m; rewrite ?app_nil_r, ?zlen_app, ?zlen_f64s, ?zlen_f64_enc; reflexivity.
  - unfold ref_body_bytes. destruct (rb_box b) as [[[a b0] c] e].
    destruct (is_multipoint_type t), (st_eqb t TMultipatch), (st_has_z t), (layout_has_m t);
      destruct (rb_m b) as [[mr ms]|]; zlen_norm; change (zlen (@nil Z)) with 0;
      repeat match goal with |- context [zlen ?l] => generalize (zlen l); intro end; lia.
Qed.

Lemma ref_content_nonneg r : 0 <= zlen (ref_content r).
Proof. apply zlen_nonneg. Qed.

Theorem L1_record req num r :
  in_i32 num -> rec_conformant r -> zlen (ref_content r) < two31 -> accepts req r ->
  reads (read_one_shape req) (ref_record num r) ((num, zlen (ref_content r) / 2), denote r).
Proof.
  intros Hnum Hc Hlt Ha. unfold read_one_shape, ref_record, read_record_header.
  pose proof (ref_content_even r Hc) as Hev. pose proof (ref_content_nonneg r) as Hnn.
  assert (Hw : in_i32 (zlen (ref_content r) / 2)) by (unfold in_i32, two31 in *; lia).
  intros s rest Hcl Hr.
  assert (H1 := reads_i32_be num Hnum).
  assert (H2 := reads_i32_be _ Hw).
  assert (H3 := L1_read_from req r Hc Ha).
  rewrite <- !app_assoc in Hr.
  destruct (H1 s _ Hcl Hr) as (s1 & R1 & C1 & D1 & P1).
  assert (Hr1 : s_rest s1 = i32_be (zlen (ref_content r) / 2) ++ ref_content r ++ rest)
    by (eapply rest_after; eauto; apply Hcl).
  destruct (H2 s1 _ C1 Hr1) as (s2 & R2 & C2 & D2 & P2).
  assert (Hr2 : s_rest s2 = ref_content r ++ rest) by (eapply rest_after; eauto; apply C1).
  destruct (H3 s2 rest C2 Hr2) as (s3 & R3 & C3 & D3 & P3).
  rewrite !run_bind, R1. rewrite run_bind, R2. cbn [run snd].
  replace (zlen (ref_content r) / 2 * 2) with (zlen (ref_content r)) by lia.
  replace (zlen (ref_content r) <? 0) with false by (symmetry; apply Z.ltb_ge; lia).
  replace (two31 <=? zlen (ref_content r)) with false by (symmetry; apply Z.leb_gt; lia).
  cbn [orb]. rewrite run_bind, R3. cbn [run].
  exists s3. repeat split; try apply C3; try congruence.
  rewrite P3, P2, P1. rewrite !zlen_app, !zlen_i32_be. lia.
Qed.
