(** C16: polygon and multipatch constructors close and orient rings, losing no vertex. *)
From SF Require Import Model.Bytes Model.F64 Model.ShapeType Model.Shapes Model.Res Model.F64Arith Model.Construct.
From SF Require Import Proofs.F64Order Proofs.BoxExact.
Open Scope Z_scope.

(** ** Numeric equality of points (`PartialEq`) *)
Lemma f64_eq_refl a : nn a -> f64_eq a a = true.
Proof. unfold nn, f64_eq. intros ->. cbn. apply Z.eqb_refl. Qed.

Lemma f64_eq_sym a b : f64_eq a b = f64_eq b a.
Proof. unfold f64_eq. rewrite (Z.eqb_sym (f64_key a)). destruct (f64_is_nan a), (f64_is_nan b); reflexivity. Qed.

Definition pt_nn (d : dim) (p : pt) : Prop := forall c, dim_has d c = true -> nn (get c p).

Lemma pt_eq_refl d p : pt_nn d p -> pt_eq d p p = true.
Proof.
  intros H. pose proof (H CX eq_refl) as Hx. pose proof (H CY eq_refl) as Hy. cbn [get] in *.
  destruct d; cbn [pt_eq].
  - rewrite !f64_eq_refl by assumption. reflexivity.
  - pose proof (H CM eq_refl) as Hm. cbn [get] in Hm. rewrite !f64_eq_refl by assumption. reflexivity.
  - pose proof (H CM eq_refl) as Hm. pose proof (H CZ eq_refl) as Hz. cbn [get] in *. rewrite !f64_eq_refl by assumption. reflexivity.
Qed.

Lemma pt_eq_sym d a b : pt_eq d a b = pt_eq d b a.
Proof. destruct d; cbn [pt_eq]; rewrite (f64_eq_sym (px a)), (f64_eq_sym (py a)), ?(f64_eq_sym (pm a)), ?(f64_eq_sym (pz a)); reflexivity. Qed.

(** ** Closing *)
Lemma last_app_single {A} (l : list A) x d0 : last (l ++ [x]) d0 = x.
Proof. apply last_last. Qed.

(** The closed ring is the caller's sequence, followed by one copy of its
    first vertex if it was open. *)
Theorem close_points_vertices d ps :
  close_points d ps = ps \/ exists p0 r, ps = p0 :: r /\ close_points d ps = ps ++ [p0] /\ is_part_closed d ps = false.
Proof.
  unfold close_points. destruct (is_part_closed d ps) eqn:E; [left; reflexivity|].
  destruct ps as [|p0 r]; [left; reflexivity|]. right. exists p0, r. auto.
Qed.

Theorem close_points_closed d ps : ps <> [] -> pt_nn d (hd pt0 ps) -> is_part_closed d (close_points d ps) = true.
Proof.
  intros Hne Hn. unfold close_points. destruct (is_part_closed d ps) eqn:E; [exact E|].
  destruct ps as [|p0 r]; [contradiction|]. cbn [hd] in Hn.
  change ((p0 :: r) ++ [p0]) with (p0 :: (r ++ [p0])). cbn [is_part_closed].
  change (p0 :: r ++ [p0]) with ((p0 :: r) ++ [p0]). rewrite last_app_single. apply pt_eq_refl, Hn.
Qed.

Lemma hd_rev_last {A} (l : list A) d0 : hd d0 (rev l) = last l d0.
Proof.
  induction l as [|x l' _] using rev_ind; [reflexivity|]. rewrite rev_app_distr, last_last. reflexivity.
Qed.

Lemma last_rev_hd {A} (l : list A) d0 : last (rev l) d0 = hd d0 l.
Proof. rewrite <- (rev_involutive l) at 2. rewrite hd_rev_last. reflexivity. Qed.

Lemma last_indep {A} (l : list A) a b : l <> [] -> last l a = last l b.
Proof. induction l as [|x l IH]; [contradiction|]. intros _. destruct l; [reflexivity|]. cbn [last]. apply IH. discriminate. Qed.

Lemma is_part_closed_alt d ps : ps <> [] -> is_part_closed d ps = pt_eq d (hd pt0 ps) (last ps pt0).
Proof.
  destruct ps as [|p0 r]; [contradiction|]. intros _. cbn [is_part_closed hd].
  rewrite (last_indep (p0 :: r) p0 pt0) by discriminate. reflexivity.
Qed.

Theorem rev_keeps_closed d ps : is_part_closed d ps = true -> is_part_closed d (rev ps) = true.
Proof.
  intros H. destruct ps as [|p0 r]; [discriminate|].
  assert (Hne : rev (p0 :: r) <> []) by (intros E; apply (f_equal (@length pt)) in E; rewrite rev_length in E; discriminate).
  rewrite is_part_closed_alt by exact Hne. rewrite hd_rev_last, last_rev_hd. cbn [hd].
  rewrite pt_eq_sym. cbn [is_part_closed] in H. rewrite (last_indep (p0 :: r) pt0 p0) by discriminate. exact H.
Qed.

(** ** Closing and reordering one ring *)

(** Vertex preservation: the result is the caller's sequence, closed by one
    copy of its first vertex if it was open, then kept or reversed as a whole —
    whatever the orientation test answers. *)
Theorem close_and_reorder_vertices d ring :
  let c := close_points d (snd ring) in
  fst (close_and_reorder d ring) = fst ring /\
  (snd (close_and_reorder d ring) = c \/ snd (close_and_reorder d ring) = rev c).
Proof. unfold close_and_reorder, reorder. cbn [fst snd]. split; [reflexivity|]. destruct (role_eqb _ _); auto. Qed.

Theorem close_and_reorder_closed d ring : snd ring <> [] -> pt_nn d (hd pt0 (snd ring)) ->
  is_part_closed d (snd (close_and_reorder d ring)) = true.
Proof.
  intros Hne Hn. pose proof (close_points_closed d (snd ring) Hne Hn) as Hc.
  unfold close_and_reorder, reorder. cbn [fst snd]. destruct (role_eqb _ _); [exact Hc|apply rev_keeps_closed, Hc].
Qed.

(** Orientation: the ring's role agrees with the orientation test of its final
    vertex order whenever reversing the closed ring flips that test (i.e. for
    every ring the test can tell from its mirror image: non-zero area). *)
Lemma role_eqb_true a b : role_eqb a b = true <-> a = b.
Proof. destruct a, b; cbn; split; intros H; try reflexivity; discriminate. Qed.

Theorem close_and_reorder_oriented d ring :
  let c := close_points d (snd ring) in
  ring_role (rev c) <> ring_role c ->
  ring_role (snd (close_and_reorder d ring)) = fst ring.
Proof.
  intros c Hflip. unfold close_and_reorder, reorder. cbn [fst snd]. fold c.
  destruct (role_eqb (fst ring) (ring_role c)) eqn:E.
  - apply role_eqb_true in E. symmetry. exact E.
  - destruct (fst ring), (ring_role c) eqn:Ec, (ring_role (rev c)) eqn:Er; cbn in E; try discriminate; try reflexivity; congruence.
Qed.

(** Idempotence: a ring that is closed and whose role agrees with the test is left alone. *)
Theorem close_and_reorder_fixpoint d ring :
  is_part_closed d (snd ring) = true -> ring_role (snd ring) = fst ring -> close_and_reorder d ring = ring.
Proof.
  intros Hc Hr. unfold close_and_reorder, reorder, close_points. rewrite Hc. cbn [fst snd].
  rewrite Hr. destruct ring as [r ps]. cbn [fst snd]. replace (role_eqb r r) with true by (destruct r; reflexivity). reflexivity.
Qed.

(** ** Whole polygons *)
Definition rings_of (s : shape) : list (role * list pt) := match s with SPolygon _ _ rings => rings | _ => [] end.

Theorem mk_polygon_rings d rings s : mk_polygon d rings = Ok s -> rings_of s = map (close_and_reorder d) rings.
Proof.
  unfold mk_polygon. destruct (map (close_and_reorder d) rings) as [|r0 rest] eqn:E; [discriminate|].
  destruct (box_from_points d (snd r0)); cbn [rbind]; try discriminate. intros H. injection H as <-. reflexivity.
Qed.

Theorem mk_polygon_idempotent d rings s :
  mk_polygon d rings = Ok s ->
  Forall (fun r => is_part_closed d (snd r) = true /\ ring_role (snd r) = fst r) (rings_of s) ->
  mk_polygon d (rings_of s) = Ok s.
Proof.
  intros H Hall. pose proof (mk_polygon_rings d rings s H) as Hr.
  assert (Hmap : map (close_and_reorder d) (rings_of s) = rings_of s).
  { clear -Hall. induction Hall as [|r l [Hc Ho] _ IH]; [reflexivity|]. cbn [map]. rewrite IH, close_and_reorder_fixpoint by assumption. reflexivity. }
  unfold mk_polygon in *. rewrite Hmap. rewrite Hr in *. exact H.
Qed.

(** ** Multipatches: ring kinds are closed, strips and fans are left untouched *)
Theorem close_patch_spec p :
  fst (close_patch p) = fst p /\
  (if pkind_is_ring (fst p) then snd (close_patch p) = close_points XYZM (snd p) else snd (close_patch p) = snd p).
Proof. unfold close_patch. destruct (pkind_is_ring (fst p)) eqn:E; cbn [fst snd]; rewrite ?E; auto. Qed.

Definition patches_of (s : shape) : list (pkind * list pt) := match s with SMultipatch _ ps => ps | _ => [] end.

Theorem mk_multipatch_patches patches s : mk_multipatch patches = Ok s -> patches_of s = map close_patch patches.
Proof.
  unfold mk_multipatch. destruct (map close_patch patches) as [|p0 rest] eqn:E; [discriminate|].
  destruct (box_from_points XYZM (snd p0)); cbn [rbind]; try discriminate. intros H. injection H as <-. reflexivity.
Qed.
