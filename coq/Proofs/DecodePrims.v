(** L1, part 1: the primitive readers consume exactly the encodings of the
    ESRI layout, and list lemmas about attaching Z/M values to vertices. *)
From SF Require Import Model.Bytes Model.F64 Model.ShapeType Model.Shapes Model.Res Model.Encode
  Model.Prog Model.Decode Spec.Esri Spec.Denote.
From SF Require Import Proofs.BytesLemmas Proofs.ShapeTypeProofs Proofs.ProgLemmas.
Open Scope Z_scope.

Lemma reads_ret_eq {A} (a b : A) (bs : bytes) : bs = [] -> a = b -> reads (Ret a) bs b.
Proof. intros -> ->; apply reads_ret. Qed.

Lemma reads_i32_le v : in_i32 v -> reads read_i32_le (i32_le v) v.
Proof.
  intros H. unfold read_i32_le. rewrite <- (app_nil_r (i32_le v)).
  eapply reads_bind; [apply reads_take_n, i32_le_length|]. rewrite i32_of_le_i32_le by exact H. apply reads_ret.
Qed.

Lemma reads_i32_be v : in_i32 v -> reads read_i32_be (i32_be v) v.
Proof.
  intros H. unfold read_i32_be. rewrite <- (app_nil_r (i32_be v)).
  eapply reads_bind; [apply reads_take_n, i32_be_length|]. rewrite i32_of_be_i32_be by exact H. apply reads_ret.
Qed.

Lemma reads_f64 v : f64_ok v -> reads read_f64 (f64_enc v) v.
Proof.
  intros H. unfold read_f64. rewrite <- (app_nil_r (f64_enc v)).
  eapply reads_bind; [apply reads_take_n, f64_enc_length|]. rewrite f64_dec_enc by exact H. apply reads_ret.
Qed.

Lemma st_code_in_i32 t : in_i32 (st_code t).
Proof. destruct t; unfold in_i32, two31; cbn; lia. Qed.

Lemma reads_shape_type t : reads read_shape_type (i32_le (st_code t)) t.
Proof.
  unfold read_shape_type. rewrite <- (app_nil_r (i32_le _)).
  eapply reads_bind; [apply reads_i32_le, st_code_in_i32|]. rewrite st_decode_code. apply reads_ret.
Qed.

(** Lengths of the spec's encodings. *)
Lemma zlen_f64s l : zlen (f64s l) = 8 * zlen l.
Proof.
  induction l as [|x l IH]; [reflexivity|]. unfold f64s in *; cbn [flat_map].
  rewrite zlen_app, IH, zlen_f64_enc, zlen_cons. lia.
Qed.

Lemma zlen_i32s l : zlen (i32s l) = 4 * zlen l.
Proof.
  induction l as [|x l IH]; [reflexivity|]. unfold i32s in *; cbn [flat_map].
  rewrite zlen_app, IH, zlen_i32_le, zlen_cons. lia.
Qed.

Definition xy_enc (p : f64 * f64) : bytes := f64_enc (fst p) ++ f64_enc (snd p).

Lemma zlen_xys (l : list (f64 * f64)) : zlen (flat_map xy_enc l) = 16 * zlen l.
Proof.
  induction l as [|x l IH]; [reflexivity|]. cbn [flat_map]. unfold xy_enc at 1.
  rewrite !zlen_app, IH, !zlen_f64_enc, zlen_cons. lia.
Qed.

(** ** Vertex lists *)
Definition xy_pt (d : dim) (p : f64 * f64) : pt := pt_xy d (fst p) (snd p).

Fixpoint zipw {A B C} (f : A -> B -> C) (a : list A) (b : list B) : list C :=
  match a, b with
  | x :: a', y :: b' => f x y :: zipw f a' b'
  | _, _ => []
  end.

Lemma zipw_length {A B C} (f : A -> B -> C) a b : length a = length b -> length (zipw f a b) = length a.
Proof.
  revert b; induction a as [|x a IH]; intros [|y b] H; cbn in *; try discriminate; [reflexivity|].
  rewrite IH; [reflexivity|lia].
Qed.

Lemma reads_xy_points d (pts : list (f64 * f64)) :
  Forall (fun p => f64_ok (fst p) /\ f64_ok (snd p)) pts ->
  reads (read_xy_points d (zlen pts)) (flat_map xy_enc pts) (map (xy_pt d) pts).
Proof.
  intros Hok. unfold read_xy_points.
  eapply reads_bind_nil; [apply reads_reserve|].
  replace (map (xy_pt d) pts) with (map (xy_pt d) pts) by reflexivity.
  assert (H : reads (rep_Z (zlen (map (xy_pt d) pts))
                (x <-- read_f64 ;; y <-- read_f64 ;; Ret (pt_xy d x y)))
             (flat_map (fun q => f64_enc (px q) ++ f64_enc (py q)) (map (xy_pt d) pts)) (map (xy_pt d) pts)).
  { apply reads_rep_Z. intros q Hq. apply in_map_iff in Hq. destruct Hq as (p & <- & Hp).
    rewrite Forall_forall in Hok. destruct (Hok p Hp) as [Hx Hy].
    unfold xy_pt, pt_xy; cbn [px py].
    eapply reads_bind; [apply reads_f64, Hx|].
    rewrite <- (app_nil_r (f64_enc (snd p))).
    eapply reads_bind; [apply reads_f64, Hy|]. apply reads_ret. }
  rewrite zlen_map in H.
  replace (flat_map xy_enc pts) with
    (flat_map (fun q => f64_enc (px q) ++ f64_enc (py q)) (map (xy_pt d) pts)); [exact H|].
  clear. induction pts as [|p pts IH]; [reflexivity|]. cbn [map flat_map]. rewrite IH. reflexivity.
Qed.

(** Attaching one value per vertex, reading the values from the source. *)
Lemma reads_for_each_zip {A B} (f : A -> prog B) (g : A -> f64 -> B) (xs : list A) (vs : list f64) :
  length xs = length vs -> Forall f64_ok vs ->
  (forall x v, f64_ok v -> reads (f x) (f64_enc v) (g x v)) ->
  reads (for_each xs f) (f64s vs) (zipw g xs vs).
Proof.
  intros Hlen Hok Hf. revert vs Hlen Hok; induction xs as [|x xs IH]; intros [|v vs] Hlen Hok;
    cbn in Hlen; try discriminate; cbn [for_each zipw].
  - apply reads_ret.
  - inversion Hok; subst. unfold f64s; cbn [flat_map].
    eapply reads_bind; [apply Hf; assumption|].
    rewrite <- (app_nil_r (flat_map f64_enc vs)).
    eapply reads_bind; [apply IH; [lia|assumption]|]. apply reads_ret.
Qed.

Lemma reads_zs_into ps zs :
  length ps = length zs -> Forall f64_ok zs -> reads (read_zs_into ps) (f64s zs) (zipw set_z ps zs).
Proof.
  intros; unfold read_zs_into. apply reads_for_each_zip; auto.
  intros x v Hv. rewrite <- (app_nil_r (f64_enc v)). eapply reads_bind; [apply reads_f64, Hv|apply reads_ret].
Qed.

Definition set_m_norm (p : pt) (m : f64) : pt := set_m p (read_m_norm m).

Lemma reads_ms_into ps ms :
  length ps = length ms -> Forall f64_ok ms -> reads (read_ms_into ps) (f64s ms) (zipw set_m_norm ps ms).
Proof.
  intros; unfold read_ms_into. apply reads_for_each_zip; auto.
  intros x v Hv. rewrite <- (app_nil_r (f64_enc v)). eapply reads_bind; [apply reads_f64, Hv|apply reads_ret].
Qed.

(** The vertices of the denotation, built the way the decoder builds them. *)
Lemma vertices_XY pts zs ms : vertices XY pts zs ms = map (xy_pt XY) pts.
Proof.
  revert zs ms; induction pts as [|[x y] pts IH]; intros zs ms; cbn [vertices map]; [reflexivity|].
  rewrite IH. reflexivity.
Qed.

Lemma vertices_XYM_none pts zs : vertices XYM pts zs None = map (xy_pt XYM) pts.
Proof.
  revert zs; induction pts as [|[x y] pts IH]; intros zs; cbn [vertices map]; [reflexivity|].
  rewrite IH. reflexivity.
Qed.

Lemma vertices_XYM_some pts zs ms : length ms = length pts ->
  vertices XYM pts zs (Some ms) = zipw set_m_norm (map (xy_pt XYM) pts) ms.
Proof.
  revert zs ms; induction pts as [|[x y] pts IH]; intros zs [|m ms] H; cbn [length] in H; try discriminate;
    cbn [vertices map zipw hd tl has_z_dim has_m_dim]; [reflexivity|].
  injection H as H. rewrite IH by exact H. reflexivity.
Qed.

Lemma vertices_XYZM_none pts zs : length zs = length pts ->
  vertices XYZM pts zs None = zipw set_z (map (xy_pt XYZM) pts) zs.
Proof.
  revert zs; induction pts as [|[x y] pts IH]; intros [|z zs] H; cbn [length] in H; try discriminate;
    cbn [vertices map zipw hd tl has_z_dim has_m_dim]; [reflexivity|].
  injection H as H. rewrite IH by exact H. reflexivity.
Qed.

Lemma vertices_XYZM_some pts zs ms : length zs = length pts -> length ms = length pts ->
  vertices XYZM pts zs (Some ms) = zipw set_m_norm (zipw set_z (map (xy_pt XYZM) pts) zs) ms.
Proof.
  revert zs ms; induction pts as [|[x y] pts IH]; intros [|z zs] [|m ms] H1 H2; cbn [length] in H1, H2;
    try discriminate; cbn [vertices map zipw hd tl has_z_dim has_m_dim]; [reflexivity|].
  injection H1 as H1. injection H2 as H2. rewrite IH by assumption. reflexivity.
Qed.
