(** C12: destination failures.  Running the operations of a writer call on
    destinations with any fault plan applies exactly a prefix of them and
    returns Ok (all applied) or the injected error (never a panic); a finalize
    that failed can be repeated and, once the destinations work, completes both
    files exactly as an undisturbed run would. *)
From SF Require Import Model.Bytes Model.F64 Model.ShapeType Model.Shapes Model.Res Model.Encode
  Model.Construct Model.Writer.
From SF Require Import Proofs.BytesLemmas Proofs.ShapeTypeProofs Proofs.SizeProofs Proofs.WriterCore Proofs.WriterInv.
Open Scope Z_scope.

(** ** Any world: positions non-negative, faults allowed *)
Definition dev_pos_ok (d : wdev) : Prop := 0 <= d_pos d.
Definition world_pos_ok (w : world) : Prop := dev_pos_ok (w_shp w) /\ dev_pos_ok (w_shx w).

Lemma apply_op_any op d : dev_pos_ok d -> op_wf op ->
  exists r d', apply_op op d = (r, d') /\ dev_pos_ok d' /\
    ((r = Ok tt /\ bp_of d' = bp_op op (bp_of d)) \/ (r = Err EIoInjected /\ bp_of d' = bp_of d)).
Proof.
  intros Hp Hop. unfold apply_op. destruct (dev_faulty d).
  - eexists; eexists. split; [reflexivity|]. split; [exact Hp|]. right. split; reflexivity.
  - unfold bp_of, dev_pos_ok in *.
    destruct op as [bs|p| |]; eexists; eexists; (split; [reflexivity|]); cbn [d_pos d_buf bp_op]; split.
    + pose proof (zlen_nonneg bs); lia.
    + left. split; [reflexivity|]. f_equal. unfold zlen. rewrite Z2Nat.inj_add by lia. rewrite Nat2Z.id. reflexivity.
    + exact Hop.
    + left. split; reflexivity.
    + apply zlen_nonneg.
    + left. split; [reflexivity|]. f_equal. unfold zlen. apply Nat2Z.id.
    + exact Hp.
    + left. split; reflexivity.
Qed.

(** Running operations in any world applies exactly a prefix of them. *)
Theorem run_ops_prefix : forall ops w, world_pos_ok w -> Forall (fun o => op_wf (snd o)) ops ->
  exists pre post r w', ops = pre ++ post /\ run_ops ops w = (r, w') /\ world_pos_ok w' /\
    bp_of (w_shp w') = bp_ops (ops_of Shp pre) (bp_of (w_shp w)) /\
    bp_of (w_shx w') = bp_ops (ops_of Shx pre) (bp_of (w_shx w)) /\
    ((r = Ok tt /\ post = []) \/ (r = Err EIoInjected /\ post <> [])).
Proof.
  induction ops as [|[t op] ops IH]; intros w Hw Hops.
  - exists [], [], (Ok tt), w. cbn. repeat split; try apply Hw. left. split; reflexivity.
  - inversion Hops as [|? ? Hop Hops']; subst. cbn [snd] in Hop. cbn [run_ops]. destruct Hw as [Hs Hx].
    assert (Hd : dev_pos_ok (get_dev w t)) by (destruct t; assumption).
    destruct (apply_op_any op (get_dev w t) Hd Hop) as (r & d' & E & Hd' & Hcase). rewrite E.
    destruct Hcase as [[-> Hbp]|[-> Hbp]].
    + assert (Hw1 : world_pos_ok (set_dev w t d')) by (destruct t; split; assumption).
      destruct (IH (set_dev w t d') Hw1 Hops') as (pre & post & r & w' & Eo & R & Hw' & B1 & B2 & Hr).
      exists ((t, op) :: pre), post, r, w'. rewrite R. split; [cbn [app]; rewrite Eo; reflexivity|].
      split; [reflexivity|]. split; [exact Hw'|].
      destruct t; cbn [set_dev get_dev w_shp w_shx ops_of dest_eqb] in *.
      * split; [rewrite B1, Hbp; reflexivity|]. split; [rewrite B2; reflexivity|exact Hr].
      * split; [rewrite B1; reflexivity|]. split; [rewrite B2, Hbp; reflexivity|exact Hr].
    + exists [], ((t, op) :: ops), (Err EIoInjected), (set_dev w t d'). split; [reflexivity|]. split; [reflexivity|].
      split; [destruct t; split; assumption|].
      destruct t; cbn [set_dev get_dev w_shp w_shx ops_of] in *; unfold bp_ops; cbn [fold_left];
        (split; [first [exact Hbp|reflexivity]|split; [first [exact Hbp|reflexivity]|right; split; [reflexivity|discriminate]]]).
Qed.

(** Hence no writer call ever panics, and a call fails only with the error of
    the failing destination operation. *)
Corollary run_ops_outcome ops w : world_pos_ok w -> Forall (fun o => op_wf (snd o)) ops ->
  fst (run_ops ops w) = Ok tt \/ fst (run_ops ops w) = Err EIoInjected.
Proof.
  intros Hw Ho. destruct (run_ops_prefix ops w Hw Ho) as (pre & post & r & w' & _ & R & _ & _ & _ & [[-> _]|[-> _]]);
    rewrite R; auto.
Qed.

(** ** Retrying finalize *)

(** The header slot: the first (at most) 100 bytes; shorter only while nothing
    follows it. *)
Definition slot (H R : bytes) : Prop := (R = [] /\ (length H <= 100)%nat) \/ length H = 100%nat.

Lemma hdr_slot_slot H R : hdr_slot H R -> slot H R.
Proof. intros [[-> ->]|Hl]; [left; split; [reflexivity|cbn; lia]|right; exact Hl]. Qed.

Lemma write_at_0 buf bs : write_at buf 0 bs = bs ++ skipn (length bs) buf.
Proof. unfold write_at. cbn [Nat.ltb Nat.leb firstn Nat.add app]. destruct (length buf <? 0)%nat eqn:E; [apply Nat.ltb_lt in E; lia|reflexivity]. Qed.

Lemma write_prefix_keeps_slot H R bs : slot H R -> (length bs <= 100)%nat ->
  exists H', write_at (H ++ R) 0 bs = H' ++ R /\ slot H' R.
Proof.
  intros Hs Hb. rewrite write_at_0. destruct Hs as [[-> Hl]|Hl].
  - rewrite app_nil_r. exists (bs ++ skipn (length bs) H). rewrite app_nil_r. split; [reflexivity|].
    left. split; [reflexivity|]. rewrite app_length, skipn_length. lia.
  - exists (bs ++ skipn (length bs) H). split.
    + rewrite skipn_app. replace (length bs - length H)%nat with 0%nat by lia. cbn [skipn]. rewrite app_assoc. reflexivity.
    + right. rewrite app_length, skipn_length. lia.
Qed.

Lemma write_header_slot H R h : slot H R -> write_at (H ++ R) 0 (header_bytes h) = header_bytes h ++ R.
Proof.
  intros Hs. rewrite write_at_0, header_bytes_len. destruct Hs as [[-> Hl]|Hl].
  - rewrite app_nil_r. rewrite skipn_all2 by lia. reflexivity.
  - rewrite skipn_app, skipn_all2 by lia. replace (100 - length H)%nat with 0%nat by lia. reflexivity.
Qed.

Definition fin_ops (h : header) : list wop := WSeekStart 0 :: map WriteAll (header_chunks h) ++ [WSeekEnd; WFlush].

(** A complete finalize on a buffer whose header slot holds anything. *)
Lemma bp_finalize_any H R x h : fst x = H ++ R -> slot H R -> hfile (header_bytes h) R (bp_ops (fin_ops h) x).
Proof.
  intros Hb Hs. destruct x as [buf pos]; cbn [fst] in Hb. subst buf. unfold fin_ops.
  unfold bp_ops. cbn [fold_left bp_op]. rewrite fold_left_app.
  fold (bp_ops (map WriteAll (header_chunks h)) (H ++ R, Z.to_nat 0)).
  change (Z.to_nat 0) with 0%nat. rewrite bp_write_chunks by lia. fold (header_bytes h).
  rewrite write_header_slot by exact Hs. cbn [fold_left bp_op]. split; reflexivity.
Qed.

Inductive is_prefix {A} : list A -> list A -> Prop :=
| prefix_nil l : is_prefix [] l
| prefix_cons x p l : is_prefix p l -> is_prefix (x :: p) (x :: l).

Lemma is_prefix_app {A} (p q : list A) : is_prefix p (p ++ q).
Proof. induction p; cbn; constructor; assumption. Qed.

Lemma is_prefix_map_writes (p : list wop) (cs : list bytes) (tail : list wop) :
  is_prefix p (map WriteAll cs ++ tail) ->
  (exists i, p = map WriteAll (firstn i cs)) \/ (exists q, p = map WriteAll cs ++ q /\ is_prefix q tail).
Proof.
  revert p; induction cs as [|c cs IH]; intros p Hp; cbn [map app] in Hp.
  - right. exists p. split; [reflexivity|exact Hp].
  - inversion Hp as [|x p' l Hp']; subst.
    + left. exists 0%nat. reflexivity.
    + destruct (IH p' Hp') as [[i ->]|[q [-> Hq]]].
      * left. exists (S i). reflexivity.
      * right. exists q. split; [reflexivity|exact Hq].
Qed.

Lemma concat_firstn_len (cs : list bytes) i : (length (concat (firstn i cs)) <= length (concat cs))%nat.
Proof.
  rewrite <- (firstn_skipn i cs) at 2. rewrite concat_app, app_length. lia.
Qed.

(** A partially executed finalize leaves the record region alone. *)
Lemma partial_finalize_keeps_slot h p H R x :
  is_prefix p (fin_ops h) -> fst x = H ++ R -> slot H R ->
  exists H', fst (bp_ops p x) = H' ++ R /\ slot H' R.
Proof.
  intros Hp Hb Hs. destruct x as [buf pos]; cbn [fst] in Hb. subst buf. unfold fin_ops in Hp.
  remember (map WriteAll (header_chunks h) ++ [WSeekEnd; WFlush]) as tl eqn:Etl.
  inversion Hp as [|o p' l Hp' E1 E2]; [exists H; split; [reflexivity|exact Hs]|]. subst tl. clear Hp.
  unfold bp_ops. cbn [fold_left bp_op]. fold (bp_ops p' (H ++ R, Z.to_nat 0)). change (Z.to_nat 0) with 0%nat.
  destruct (is_prefix_map_writes p' _ _ Hp') as [[i ->]|[q [-> Hq]]].
  - rewrite bp_write_chunks by lia. cbn [fst].
    apply write_prefix_keeps_slot; [exact Hs|].
    pose proof (concat_firstn_len (header_chunks h) i). fold (header_bytes h) in *. rewrite header_bytes_len in *. lia.
  - rewrite bp_ops_app, bp_write_chunks by lia. fold (header_bytes h). rewrite write_header_slot by exact Hs.
    exists (header_bytes h). split; [|right; apply header_bytes_len].
    inversion Hq as [|o1 q1 l1 Hq1]; subst; [reflexivity|].
    inversion Hq1 as [|o2 q2 l2 Hq2]; subst; [reflexivity|]. inversion Hq2; subst. reflexivity.
Qed.

Lemma ops_of_prefix t pre post : is_prefix (ops_of t pre) (ops_of t (pre ++ post)).
Proof. rewrite ops_of_app. apply is_prefix_app. Qed.

(** ** The buffers of a writer whose destinations may have failed *)
Record WBuf (hs : bool) (st : wstate) (w : world) (ss : list shape) : Prop := mkWBuf {
  wb_pos : world_pos_ok w;
  wb_hdr : ws_hdr st = hdr_after ss;
  wb_rec : ws_recnum st = 1 + zlen ss;
  wb_hs : ws_has_shx st = hs;
  wb_shp : exists H, d_buf (w_shp w) = H ++ records_from 1 ss /\ slot H (records_from 1 ss);
  wb_shx : if hs then exists H, d_buf (w_shx w) = H ++ index_from 50 ss /\ slot H (index_from 50 ss)
           else bp_of (w_shx w) = ([], 0%nat)
}.

Lemma WInv_WBuf hs st w ss : WInv hs st w ss -> WBuf hs st w ss.
Proof.
  intros [[[_ Hp1] [_ Hp2]] Hh Hr Hhs (H & [Hb _] & Hsl & _) Hx]. constructor; auto.
  - split; assumption.
  - exists H. split; [exact Hb|apply hdr_slot_slot, Hsl].
  - destruct hs.
    + destruct Hx as (Hxh & [Hbx _] & Hsx & _). exists Hxh. split; [exact Hbx|apply hdr_slot_slot, Hsx].
    + exact Hx.
Qed.

(** Arming any fault plan on either destination keeps [WBuf]. *)
Definition arm_dev (d : wdev) (f : option (nat * bool)) : wdev :=
  mkwdev (d_buf d) (d_pos d) (d_ops d) f (d_flushed d) (d_log d).
Definition arm (w : world) (f1 f2 : option (nat * bool)) : world := mkworld (arm_dev (w_shp w) f1) (arm_dev (w_shx w) f2).

Lemma arm_WBuf hs st w ss f1 f2 : WBuf hs st w ss -> WBuf hs st (arm w f1 f2) ss.
Proof. intros [Hp Hh Hr Hhs Hs Hx]. constructor; auto. Qed.

Lemma set_interrupted_WBuf hs st w ss b : WBuf hs st w ss -> WBuf hs (set_interrupted st b) w ss.
Proof. intros [Hp Hh Hr Hhs Hs Hx]. constructor; assumption. Qed.

Lemma finalize_ops_shp st hs : ws_has_shx st = hs -> ops_of Shp (finalize_ops st) = fin_ops (final_header st).
Proof. intros Hhs. unfold finalize_ops, fin_ops. rewrite Hhs. destruct hs; ops_norm; reflexivity. Qed.

Lemma finalize_ops_shx st : ws_has_shx st = true -> ops_of Shx (finalize_ops st) = fin_ops (shx_header st).
Proof. intros Hhs. unfold finalize_ops, fin_ops. rewrite Hhs. ops_norm. reflexivity. Qed.

Lemma finalize_ops_shx_none st : ws_has_shx st = false -> ops_of Shx (finalize_ops st) = [].
Proof. intros Hhs. unfold finalize_ops. rewrite Hhs. ops_norm. reflexivity. Qed.

Lemma finalize_ops_wf st : Forall (fun o => op_wf (snd o)) (finalize_ops st).
Proof.
  unfold finalize_ops. constructor; [cbn; lia|]. apply Forall_app; split; [apply Forall_on_wf|].
  apply Forall_app; split; [repeat constructor|].
  destruct (ws_has_shx st); [|constructor]. constructor; [cbn; lia|]. apply Forall_app; split; [apply Forall_on_wf|repeat constructor].
Qed.

Lemma prefix_of_nil {A} (p : list A) : is_prefix p [] -> p = [].
Proof. inversion 1; reflexivity. Qed.

(** finalize on destinations with any fault plan: it succeeds and both
    files are complete, or it returns the injected error, leaves the writer
    state unchanged (still dirty) and the record regions intact. *)
Theorem finalize_any hs st w ss : WBuf hs st w ss -> ws_dirty st = true ->
  exists r st1 w1, w_finalize st w = (r, st1, w1) /\
    ((r = Ok tt /\ ws_dirty st1 = false /\ d_buf (w_shp w1) = final_shp ss /\
      d_buf (w_shx w1) = (if hs then final_shx ss else [])) \/
     (r = Err EIoInjected /\ st1 = set_interrupted st true /\ WBuf hs st1 w1 ss)).
Proof.
  intros [Hpos Hh Hr Hhs (Hs & Hbs & Hss) Hx] Hd. unfold w_finalize. rewrite Hd. cbn [negb].
  destruct (run_ops_prefix (finalize_ops st) w Hpos (finalize_ops_wf st)) as (pre & post & r & w1 & Eo & R & Hpos1 & B1 & B2 & Hcase).
  rewrite R.
  pose proof (ops_of_prefix Shp pre post) as P1. pose proof (ops_of_prefix Shx pre post) as P2. rewrite <- Eo in P1, P2.
  rewrite (finalize_ops_shp st hs Hhs), (final_header_inv st ss Hh) in P1.
  destruct Hcase as [[-> ->]|[-> Hne]].
  - (* everything was applied *)
    rewrite app_nil_r in Eo. subst pre.
    exists (Ok tt). eexists. exists w1. split; [reflexivity|]. left. split; [reflexivity|]. split; [reflexivity|].
    rewrite (finalize_ops_shp st hs Hhs), (final_header_inv st ss Hh) in B1.
    assert (F1 : d_buf (w_shp w1) = final_shp ss).
    { pose proof (bp_finalize_any Hs (records_from 1 ss) (bp_of (w_shp w)) (final_hdr ss) Hbs Hss) as [Hf _].
      rewrite <- B1 in Hf. exact Hf. }
    split; [exact F1|]. destruct hs.
    + destruct Hx as (Hxh & Hbx & Hsx). rewrite (finalize_ops_shx st Hhs), (shx_header_inv st ss Hh Hr) in B2.
      pose proof (bp_finalize_any Hxh (index_from 50 ss) (bp_of (w_shx w)) (final_shx_hdr ss) Hbx Hsx) as [Hf _].
      rewrite <- B2 in Hf. exact Hf.
    + rewrite (finalize_ops_shx_none st Hhs) in B2. unfold bp_ops in B2. cbn [fold_left] in B2.
      rewrite Hx in B2. unfold bp_of in B2. injection B2 as B2 _. exact B2.
  - (* a prefix was applied *)
    exists (Err EIoInjected), (set_interrupted st true), w1. split; [reflexivity|]. right. split; [reflexivity|]. split; [reflexivity|].
    apply set_interrupted_WBuf. constructor; auto.
    + destruct (partial_finalize_keeps_slot (final_hdr ss) _ Hs (records_from 1 ss) (bp_of (w_shp w)) P1 Hbs Hss) as (H' & E' & S').
      exists H'. rewrite <- B1 in E'. split; [exact E'|exact S'].
    + destruct hs.
      * destruct Hx as (Hxh & Hbx & Hsx). rewrite (finalize_ops_shx st Hhs), (shx_header_inv st ss Hh Hr) in P2.
        destruct (partial_finalize_keeps_slot (final_shx_hdr ss) _ Hxh (index_from 50 ss) (bp_of (w_shx w)) P2 Hbx Hsx) as (H' & E' & S').
        exists H'. rewrite <- B2 in E'. split; [exact E'|exact S'].
      * rewrite (finalize_ops_shx_none st Hhs) in P2. apply prefix_of_nil in P2. rewrite P2 in B2.
        unfold bp_ops in B2. cbn [fold_left] in B2. rewrite B2. exact Hx.
Qed.

Lemma heal_WBuf hs st w ss : WBuf hs st w ss -> WBuf hs st (heal w) ss.
Proof. intros [Hp Hh Hr Hhs Hs Hx]. constructor; auto. Qed.

Lemma heal_no_fault w st : world_pos_ok w -> forall r st1 w1, w_finalize st (heal w) = (r, st1, w1) -> r <> Err EIoInjected.
Proof.
  intros [Hp1 Hp2] r st1 w1. unfold w_finalize. destruct (negb (ws_dirty st)); [intros E; injection E as <- _ _; discriminate|].
  assert (Hwf : world_wf (heal w)) by (split; split; [reflexivity|exact Hp1|reflexivity|exact Hp2]).
  destruct (run_ops_ok (finalize_ops st) (heal w) Hwf (finalize_ops_wf st)) as (w' & R & _). rewrite R.
  intros E; injection E as <- _ _. discriminate.
Qed.

(** C12: a finalize that failed — at any operation of either destination,
    one-shot or persistent — can be called again and, once the destinations
    work, completes both files exactly as an undisturbed run would. *)
Theorem finalize_retry hs st w ss : WBuf hs st w ss -> ws_dirty st = true ->
  forall st1 w1, w_finalize st w = (Err EIoInjected, st1, w1) ->
  exists st2 w2, w_finalize st1 (heal w1) = (Ok tt, st2, w2) /\ ws_dirty st2 = false /\
    d_buf (w_shp w2) = final_shp ss /\ d_buf (w_shx w2) = (if hs then final_shx ss else []).
Proof.
  intros Hb Hd st1 w1 E.
  destruct (finalize_any hs st w ss Hb Hd) as (r & st1' & w1' & E' & Hcase). rewrite E in E'. injection E' as <- <- <-.
  destruct Hcase as [[Hr _]|(_ & -> & Hb1)]; [discriminate|].
  destruct (finalize_any hs _ (heal w1) ss (heal_WBuf _ _ _ _ Hb1) Hd) as (r2 & st2 & w2 & E2 & Hcase2).
  destruct Hcase2 as [(-> & Hd2 & F1 & F2)|(-> & _)].
  - exists st2, w2. auto.
  - exfalso. exact (heal_no_fault w1 _ (wb_pos _ _ _ _ Hb1) _ _ _ E2 eq_refl).
Qed.

(** Short writes: std's `write_all` loop over a destination that accepts at
    most c_i >= 1 bytes on its i-th `write` call delivers exactly the bytes. *)
Fixpoint write_all_loop (fuel : nat) (bs : bytes) (sched : list nat) : option (list bytes) :=
  match bs with
  | [] => Some []
  | _ =>
    match fuel with
    | O => None
    | S fuel' =>
        let c := match sched with [] => length bs | c0 :: _ => Nat.min (Nat.max c0 1) (length bs) end in
        match write_all_loop fuel' (skipn c bs) (tl sched) with
        | Some pieces => Some (firstn c bs :: pieces)
        | None => None
        end
    end
  end.

Theorem write_all_short_writes : forall (fuel : nat) (bs : bytes) (sched : list nat), (length bs <= fuel)%nat ->
  exists pieces, write_all_loop fuel bs sched = Some pieces /\ concat pieces = bs.
Proof.
  induction fuel as [|fuel IH]; intros bs sched Hl.
  - destruct bs; [exists []; split; reflexivity|cbn in Hl; lia].
  - destruct bs as [|b bs']; [exists []; split; reflexivity|].
    cbn [write_all_loop]. set (l := b :: bs') in *.
    set (c := match sched with [] => length l | c0 :: _ => Nat.min (Nat.max c0 1) (length l) end).
    assert (Hc : (1 <= c <= length l)%nat) by (unfold c, l; cbn [length]; destruct sched; lia).
    destruct (IH (skipn c l) (tl sched)) as (pieces & E & Hcat); [rewrite skipn_length; lia|].
    rewrite E. exists (firstn c l :: pieces). split; [reflexivity|]. cbn [concat]. rewrite Hcat. apply firstn_skipn.
Qed.
