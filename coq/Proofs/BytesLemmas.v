(** Lemmas on the fixed-width codecs: lengths, byte ranges, round trips. *)
From SF Require Import Model.Bytes.
Open Scope Z_scope.

Ltac Zify.zify_post_hook ::= Z.div_mod_to_equations.

Lemma zlen_nil {A} : zlen (@nil A) = 0.
Proof. reflexivity. Qed.

Lemma zlen_cons {A} (x : A) l : zlen (x :: l) = 1 + zlen l.
Proof. unfold zlen; cbn [length]; lia. Qed.

Lemma zlen_app {A} (a b : list A) : zlen (a ++ b) = zlen a + zlen b.
Proof. unfold zlen; rewrite app_length; lia. Qed.

Lemma zlen_nonneg {A} (l : list A) : 0 <= zlen l.
Proof. unfold zlen; lia. Qed.

Lemma zlen_map {A B} (f : A -> B) l : zlen (map f l) = zlen l.
Proof. unfold zlen; rewrite map_length; reflexivity. Qed.

Lemma zlen_rev {A} (l : list A) : zlen (rev l) = zlen l.
Proof. unfold zlen; rewrite rev_length; reflexivity. Qed.

Lemma le_bytes_length n v : length (le_bytes n v) = n.
Proof. revert v; induction n as [|n IH]; intros v; cbn [le_bytes length]; [reflexivity|]. rewrite IH; reflexivity. Qed.

Lemma be_bytes_length n v : length (be_bytes n v) = n.
Proof. unfold be_bytes; rewrite rev_length; apply le_bytes_length. Qed.

Lemma i32_le_length v : length (i32_le v) = 4%nat.
Proof. apply le_bytes_length. Qed.
Lemma i32_be_length v : length (i32_be v) = 4%nat.
Proof. apply be_bytes_length. Qed.
Lemma f64_enc_length v : length (f64_enc v) = 8%nat.
Proof. apply le_bytes_length. Qed.

Lemma zlen_i32_le v : zlen (i32_le v) = 4.
Proof. unfold zlen; rewrite i32_le_length; reflexivity. Qed.
Lemma zlen_i32_be v : zlen (i32_be v) = 4.
Proof. unfold zlen; rewrite i32_be_length; reflexivity. Qed.
Lemma zlen_f64_enc v : zlen (f64_enc v) = 8.
Proof. unfold zlen; rewrite f64_enc_length; reflexivity. Qed.

Lemma le_bytes_range n v : all_bytes (le_bytes n v).
Proof.
  revert v; induction n as [|n IH]; intros v; cbn [le_bytes]; constructor.
  - apply Z.mod_pos_bound; lia.
  - apply IH.
Qed.

Lemma of_le_le_bytes n v : 0 <= v < 256 ^ Z.of_nat n -> of_le (le_bytes n v) = v.
Proof.
  revert v; induction n as [|n IH]; intros v Hv.
  - cbn. change (256 ^ Z.of_nat 0) with 1 in Hv. lia.
  - cbn [le_bytes of_le]. rewrite IH.
    + pose proof (Z.div_mod v 256). lia.
    + rewrite Nat2Z.inj_succ, Z.pow_succ_r in Hv by lia.
      split; [apply Z.div_pos; lia|]. apply Z.div_lt_upper_bound; lia.
Qed.

Lemma of_be_be_bytes n v : 0 <= v < 256 ^ Z.of_nat n -> of_be (be_bytes n v) = v.
Proof. intros H; unfold of_be, be_bytes; rewrite rev_involutive; apply of_le_le_bytes; exact H. Qed.

Lemma pow256_4 : 256 ^ Z.of_nat 4 = two32. Proof. reflexivity. Qed.
Lemma pow256_8 : 256 ^ Z.of_nat 8 = two64. Proof. reflexivity. Qed.

Lemma to_i32_wrap v : in_i32 v -> to_i32 (v mod two32) = v.
Proof.
  unfold in_i32, to_i32, two31, two32; intros H.
  destruct (Z.ltb_spec (v mod 4294967296) 2147483648); lia.
Qed.

Lemma i32_of_le_i32_le v : in_i32 v -> i32_of_le (i32_le v) = v.
Proof.
  intros H; unfold i32_of_le, i32_le. rewrite of_le_le_bytes.
  - apply to_i32_wrap; exact H.
  - rewrite pow256_4. apply Z.mod_pos_bound; reflexivity.
Qed.

Lemma i32_of_be_i32_be v : in_i32 v -> i32_of_be (i32_be v) = v.
Proof.
  intros H; unfold i32_of_be, i32_be. rewrite of_be_be_bytes.
  - apply to_i32_wrap; exact H.
  - rewrite pow256_4. apply Z.mod_pos_bound; reflexivity.
Qed.

Lemma f64_dec_enc v : 0 <= v < two64 -> f64_dec (f64_enc v) = v.
Proof. intros H; unfold f64_dec, f64_enc; apply of_le_le_bytes; rewrite pow256_8; exact H. Qed.

(** Decoded values are always in range, whatever the bytes. *)
Lemma of_le_range bs : all_bytes bs -> 0 <= of_le bs < 256 ^ zlen bs.
Proof.
  induction 1 as [|b r Hb Hr IH]; cbn [of_le].
  - change (zlen (@nil Z)) with 0. cbn. lia.
  - rewrite zlen_cons. rewrite Z.pow_add_r by (try lia; apply zlen_nonneg). change (256 ^ 1) with 256. nia.
Qed.

Lemma to_i32_range u : 0 <= u < two32 -> in_i32 (to_i32 u).
Proof. unfold in_i32, to_i32, two31, two32; intros H; destruct (Z.ltb_spec u 2147483648); lia. Qed.

Lemma sum_Z_app a b : sum_Z (a ++ b) = sum_Z a + sum_Z b.
Proof. induction a as [|x a IH]; cbn [sum_Z app]; lia. Qed.

Lemma skipn_skipn_ {A} (x y : nat) (l : list A) : skipn x (skipn y l) = skipn (y + x) l.
Proof.
  revert l; induction y as [|y IH]; intros l; cbn [Nat.add]; [rewrite skipn_O; reflexivity|].
  destruct l as [|a l]; [rewrite !skipn_nil; reflexivity|]. rewrite !skipn_cons. apply IH.
Qed.
