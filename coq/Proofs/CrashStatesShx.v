(** C11, writer side, the index file: every byte-level prefix of the operations
    the writer issued to the .shx leaves Hx' ++ (byte-prefix of the index
    entries of the accepted shapes), Hx' being 100 bytes (any mixture of an old
    and a new header) or fewer with nothing after them.  Mirror of
    Proofs/CrashStates.v for the second destination. *)
From SF Require Import Model.Bytes Model.F64 Model.ShapeType Model.Shapes Model.Res Model.Encode
  Model.Construct Model.Writer.
From SF Require Import Proofs.BytesLemmas Proofs.ShapeTypeProofs Proofs.SizeProofs Proofs.WriterCore Proofs.WriterInv
  Proofs.WriterFaults Proofs.CrashStates.
Open Scope Z_scope.

Lemma run_ops_log_shx : forall ops w, world_wf w -> Forall (fun o => op_wf (snd o)) ops ->
  trace (w_shx (snd (run_ops ops w))) = trace (w_shx w) ++ ops_of Shx ops.
Proof.
  induction ops as [|[t op] ops IH]; intros w Hw Hops; [cbn; rewrite app_nil_r; reflexivity|].
  inversion Hops as [|? ? Hop Hops']; subst. cbn [snd] in Hop. cbn [run_ops]. destruct Hw as [Hs Hx].
  destruct t; cbn [get_dev].
  - destruct (apply_op_ok op (w_shp w) Hs Hop) as (d' & E & Hd' & _). rewrite E.
    specialize (IH (set_dev w Shp d') (conj Hd' Hx) Hops').
    destruct (run_ops ops (set_dev w Shp d')) as [r w'] eqn:R. cbn [snd] in *.
    rewrite IH. cbn [set_dev w_shx ops_of dest_eqb]. reflexivity.
  - destruct (apply_op_ok op (w_shx w) Hx Hop) as (d' & E & Hd' & _). rewrite E.
    assert (L : d_log d' = op :: d_log (w_shx w)).
    { unfold apply_op in E. destruct Hx as [Hf _]. unfold dev_faulty in E. rewrite Hf in E.
      destruct op; injection E as <-; reflexivity. }
    specialize (IH (set_dev w Shx d') (conj Hs Hd') Hops').
    destruct (run_ops ops (set_dev w Shx d')) as [r w'] eqn:R. cbn [snd] in *.
    rewrite IH. cbn [set_dev w_shx ops_of dest_eqb]. unfold trace. rewrite L. cbn [rev]. rewrite <- app_assoc. reflexivity.
Qed.

Definition CrashInvX (w : world) (R : bytes) : Prop :=
  bp_ops (explode (trace (w_shx w))) ([], 0%nat) = bp_of (w_shx w) /\
  forall p, is_prefix p (explode (trace (w_shx w))) -> crash_form R (fst (bp_ops p ([], 0%nat))).

Lemma crash_step_x w w' O R X :
  CrashInvX w R ->
  trace (w_shx w') = trace (w_shx w) ++ O -> bp_of (w_shx w') = bp_ops O (bp_of (w_shx w)) ->
  Forall seek0 O -> (snd (bp_of (w_shx w)) <= length (fst (bp_of (w_shx w))))%nat ->
  (forall q, is_prefix q (explode O) -> crash_form (R ++ X) (fst (bp_ops q (bp_of (w_shx w))))) ->
  CrashInvX w' (R ++ X).
Proof.
  intros [Hfull Hpre] Ht Hb Hs Hpos Hq. split.
  - rewrite Ht, explode_app, bp_ops_app, Hfull, Hb. destruct (bp_of (w_shx w)) as [buf pos]. apply bp_ops_explode; assumption.
  - intros p Hp. rewrite Ht, explode_app in Hp. destruct (is_prefix_app_cases p _ _ Hp) as [Hp1|(q & -> & Hq1)].
    + apply crash_form_mono, Hpre, Hp1.
    + rewrite bp_ops_app, Hfull. apply Hq, Hq1.
Qed.

Lemma world0_crash_x : CrashInvX world0 [].
Proof.
  split; [reflexivity|]. intros p Hp. cbn in Hp. inversion Hp; subst. cbn. exists [], 0%nat. split; [reflexivity|].
  left. split; [reflexivity|cbn; lia].
Qed.

(** finalize *)
Lemma finalize_crash_x st w ss : WInv true st w ss -> CrashInvX w (index_from 50 ss) ->
  CrashInvX (snd (w_finalize st w)) (index_from 50 ss).
Proof.
  intros Inv HC. unfold w_finalize. destruct (ws_dirty st) eqn:Hd; cbn [negb]; [|exact HC].
  pose proof Inv as [Hwf Hh Hr Hhs _ (Hp & [Hbp Hpp] & Hsp & _) _].
  pose proof (run_ops_log_shx (finalize_ops st) w Hwf (finalize_ops_wf st)) as Hlog.
  destruct (run_ops_ok (finalize_ops st) w Hwf (finalize_ops_wf st)) as (w' & R & _ & _ & B2 & _). rewrite R in *. cbn [snd] in *.
  rewrite (finalize_ops_shx st Hhs), (shx_header_inv st ss Hh Hr) in Hlog, B2.
  rewrite <- (app_nil_r (index_from 50 ss)).
  eapply crash_step_x; [exact HC|exact Hlog|exact B2| | |].
  - unfold fin_ops. constructor; [reflexivity|]. apply Forall_app; split; [|repeat constructor].
    clear. induction (header_chunks (final_shx_hdr ss)); cbn [map]; constructor; [exact I|assumption].
  - rewrite Hpp. apply Nat.le_refl.
  - intros q Hq. rewrite app_nil_r. unfold fin_ops in Hq. cbn [explode] in Hq. rewrite explode_app, explode_writes in Hq.
    fold (header_bytes (final_shx_hdr ss)) in Hq. cbn [explode] in Hq.
    destruct (bp_of (w_shx w)) as [buf pos]. cbn [fst snd] in *. subst buf.
    destruct (crash_header Hp (index_from 50 ss) (header_bytes (final_shx_hdr ss)) [WSeekEnd; WFlush] q
                (hdr_slot_slot _ _ Hsp) (header_bytes_len _) (fun q0 x H0 => tail_end_flush q0 x H0) Hq pos) as (H' & E & S).
    exists H', (length (index_from 50 ss)). rewrite firstn_all. split; assumption.
Qed.

(** write_shape *)
Lemma write_crash_x st w ss s :
  WInv true st w ss -> type_of s <> TNull -> Forall (fun x => type_of x <> TNull) ss ->
  CrashInvX w (index_from 50 ss) ->
  CrashInvX (snd (w_write_shape st w s))
            (if accepts_type ss s then index_from 50 (ss ++ [s]) else index_from 50 ss).
Proof.
  intros Inv Hs Hss HC. destruct (accepts_type ss s) eqn:Ha.
  2:{ destruct ss as [|s0 ss']; [discriminate|]. cbn [accepts_type] in Ha.
      rewrite (write_rejected true st w ss' s0 s Inv (Forall_inv Hss) Ha). exact HC. }
  pose proof Inv as [Hwf Hh Hr Hhs _ (Hp & [Hbp Hpp] & Hsp & _) Hint].
  unfold w_write_shape, write_shape_plan. rewrite Hh, hdr_after_type, Hhs, Hint. cbn [app].
  destruct ss as [|s0 ss'].
  - (* first write *)
    change (st_eqb TNull TNull) with true. cbn [negb andb].
    set (h0 := set_type_box (hdr_after []) (type_of s) sentinel_box).
    cbn [ws_hdr ws_recnum ws_dirty ws_has_shx h_type h0 set_type_box].
    match goal with |- context [run_ops ?o w] => set (ops := o) end.
    assert (Hopswf : Forall (fun o => op_wf (snd o)) ops) by (unfold ops; wf_ops).
    pose proof (run_ops_log_shx ops w Hwf Hopswf) as Hlog.
    destruct (run_ops_ok ops w Hwf Hopswf) as (w' & R & _ & _ & B2 & _). rewrite R in *. cbn [snd] in *.
    assert (Es : ops_of Shx ops = (WSeekStart 0 :: map WriteAll (header_chunks h0))
                                  ++ map WriteAll (index_entry_chunks (h_len h0) (wrap_i32 (record_words s)))).
    { unfold ops. ops_norm. reflexivity. }
    rewrite Es in Hlog, B2.
    cbn [app]. rewrite index_from_single.
    pose proof (hdr_slot_slot _ _ Hsp) as Hsl.
    assert (Eh : write_at Hp 0 (concat (header_chunks h0)) = concat (header_chunks h0)).
    { pose proof (write_header_slot Hp [] h0 Hsl) as W. rewrite !app_nil_r in W. exact W. }
    assert (Hl : length (concat (header_chunks h0)) = 100%nat) by apply header_bytes_len.
    remember (header_chunks h0) as hcs eqn:Ehcs.
    assert (Elen : h_len h0 = 50) by reflexivity. rewrite Elen in *. clear Ehcs.
    remember (index_entry_chunks 50 (wrap_i32 (record_words s))) as rcs eqn:Ercs. clear Ercs.
    change (index_from 50 []) with (@nil Z) in *. rewrite <- (app_nil_l (concat rcs)).
    eapply crash_step_x; [exact HC|exact Hlog|exact B2| | |].
    + cbn [app]. constructor; [reflexivity|]. apply Forall_app; split; apply Forall_seek0_writes.
    + rewrite Hpp. apply Nat.le_refl.
    + intros q Hq. cbn [app]. rewrite explode_app in Hq. cbn [explode] in Hq. rewrite !explode_writes in Hq. cbn [app] in Hq.
      remember (concat hcs) as hb eqn:Ehb. clear Ehb. remember (concat rcs) as rb eqn:Erb. clear Erb.
      destruct (bp_of (w_shx w)) as [buf pos]. cbn [fst snd] in *. rewrite app_nil_r in Hbp. clear Hpp B2 Hlog HC. subst buf.
      change (map (fun b : Z => WriteAll [b]) hb) with (singles hb) in Hq.
      change (map (fun b : Z => WriteAll [b]) rb) with (singles rb) in Hq.
      remember (singles hb ++ singles rb) as tl eqn:Etl.
      inversion Hq as [|o q' l Hq' E1 E2]; [|subst tl].
      * exists Hp, 0%nat. cbn [firstn]. rewrite app_nil_r. split; [reflexivity|]. exact Hsl.
      * change (bp_ops (WSeekStart 0 :: q') (Hp, pos)) with (bp_ops q' (Hp, 0%nat)).
        destruct (is_prefix_app_cases q' _ _ Hq') as [Hh'|(q2 & -> & Hq2)].
        -- destruct (is_prefix_singles q' _ Hh') as (i & ->). rewrite bp_singles by lia. cbn [fst].
           destruct (write_prefix_keeps_slot Hp [] (firstn i hb)) as (H' & E & S).
           { exact Hsl. } { rewrite firstn_length, Hl. lia. }
           rewrite !app_nil_r in E. exists H', 0%nat. cbn [firstn]. split; [rewrite app_nil_r; exact E|exact S].
        -- destruct (is_prefix_singles q2 _ Hq2) as (i & ->).
           rewrite bp_ops_app, bp_singles by lia.
           rewrite Eh. rewrite bp_singles by (rewrite Hl; cbn; lia).
           cbn [fst]. replace (0 + length hb)%nat with (length hb) by reflexivity.
           rewrite write_at_end. exists hb, (length (firstn i rb)). rewrite firstn_len_firstn.
           split; [reflexivity|right; exact Hl].
  - (* later write *)
    cbn [accepts_type] in Ha. pose proof (Forall_inv Hss) as Hs0. cbn beta in Hs0.
    replace (st_eqb (type_of s0) TNull) with false
      by (symmetry; destruct (st_eqb (type_of s0) TNull) eqn:E; [apply st_eqb_eq in E; contradiction|reflexivity]).
    rewrite Ha. cbn [negb andb app]. apply st_eqb_eq in Ha.
    match goal with |- context [run_ops ?o w] => set (ops := o) end.
    assert (Hopswf : Forall (fun o => op_wf (snd o)) ops) by (unfold ops; wf_ops).
    pose proof (run_ops_log_shx ops w Hwf Hopswf) as Hlog.
    destruct (run_ops_ok ops w Hwf Hopswf) as (w' & R & _ & _ & B2 & _). rewrite R in *. cbn [snd] in *.
    assert (Hne : index_from 50 (s0 :: ss') <> []) by (cbn [index_from]; apply index_entry_nonempty).
    pose proof (hdr_slot_nonempty _ _ Hsp Hne) as Hl100.
    assert (Es : ops_of Shx ops = map WriteAll (index_entry_chunks (len_after 50 (s0 :: ss')) (wrap_i32 (record_words s)))).
    { unfold ops. rewrite Hh, hdr_after_len. ops_norm. reflexivity. }
    rewrite Es in Hlog, B2.
    change (s0 :: ss' ++ [s]) with ((s0 :: ss') ++ [s]). rewrite index_from_app, index_from_single.
    eapply crash_step_x; [exact HC|exact Hlog|exact B2|apply Forall_seek0_writes| |].
    + rewrite Hpp. apply Nat.le_refl.
    + intros q Hq. destruct (bp_of (w_shx w)) as [buf pos]. cbn [fst snd] in *. subst buf pos.
      apply crash_append; assumption.
Qed.

(** The invariant along any history, and at the end. *)
Lemma run_calls_crash_x : forall cs st w ss,
  WInv true st w ss -> Forall (fun x => type_of x <> TNull) ss -> Forall call_ok cs ->
  CrashInvX w (index_from 50 ss) ->
  exists rs st' w', run_calls cs st w = (rs, st', w') /\ WInv true st' w' (accepted_acc ss cs) /\
                    CrashInvX w' (index_from 50 (accepted_acc ss cs)).
Proof.
  induction cs as [|c cs IH]; intros st w ss Inv Hss Hcs HC.
  - exists [], st, w. auto.
  - inversion Hcs as [|? ? Hc Hcs']; subst. destruct c as [s| |]; cbn [call_ok] in Hc; [| |contradiction].
    + cbn [run_calls accepted_acc]. pose proof (write_crash_x st w ss s Inv Hc Hss HC) as HC1.
      destruct (accepts_type ss s) eqn:Ha.
      * destruct (write_accepted true st w ss s Inv Hc Hss Ha) as (st1 & w1 & E & Inv1). rewrite E in *. cbn [snd] in HC1.
        assert (Hnn : Forall (fun x => type_of x <> TNull) (ss ++ [s]))
          by (apply Forall_app; split; [exact Hss|constructor; [exact Hc|constructor]]).
        destruct (IH st1 w1 (ss ++ [s]) Inv1 Hnn Hcs' HC1) as (rs & st2 & w2 & E2 & Inv2 & HC2).
        rewrite E2. eexists; eexists; eexists. split; [reflexivity|split; assumption].
      * destruct ss as [|s0 ss']; [discriminate|]. cbn [accepts_type] in Ha.
        rewrite (write_rejected true st w ss' s0 s Inv (Forall_inv Hss) Ha) in *. cbn [snd] in HC1.
        destruct (IH st w (s0 :: ss') Inv Hss Hcs' HC1) as (rs & st2 & w2 & E2 & Inv2 & HC2). rewrite E2. eexists; eexists; eexists. split; [reflexivity|split; assumption].
    + cbn [run_calls accepted_acc]. pose proof (finalize_crash_x st w ss Inv HC) as HC1.
      destruct (finalize_step true st w ss Inv) as (st1 & w1 & E & Inv1 & _). rewrite E in *. cbn [snd] in HC1.
      destruct (IH st1 w1 ss Inv1 Hss Hcs' HC1) as (rs & st2 & w2 & E2 & Inv2 & HC2). rewrite E2. eexists; eexists; eexists. split; [reflexivity|split; assumption].
Qed.

Theorem crash_states_shx cs e : Forall call_ok cs ->
  forall p, is_prefix p (explode (trace (w_shx (snd (run_history true world0 cs e))))) ->
  crash_form (index_from 50 (accepted_acc [] cs)) (fst (bp_ops p ([], 0%nat))).
Proof.
  intros Hcs. unfold run_history.
  destruct (run_calls_crash_x cs (w_new true) world0 [] (WInv_init true) (Forall_nil _) Hcs world0_crash_x)
    as (rs & st & w & E & Inv & HC). rewrite E. destruct e.
  - cbn [snd]. unfold w_drop. apply (finalize_crash_x st w _ Inv HC).
  - destruct (finalize_step true st w _ Inv) as (st1 & w1 & E1 & Inv1 & _).
    pose proof (finalize_crash_x st w _ Inv HC) as HC1. rewrite E1 in *. cbn [snd] in *.
    unfold w_drop. apply (finalize_crash_x st1 w1 _ Inv1 HC1).
Qed.
