(** The reader with an index, for every history of calls: it refines the
    abstract reader (records, next position).  The only hypothesis on the
    .shp bytes is that each index entry points at the bytes of a conformant
    record ([Indexed]): arbitrary filler, any physical order, overlaps are all
    allowed.  Serves C04 (reader half), C14, C15 and the index routes of C01. *)
From SF Require Import Model.Bytes Model.F64 Model.ShapeType Model.Shapes Model.Res Model.Encode
  Model.F64Arith Model.Construct Model.Prog Model.Decode Model.Reader Spec.Esri Spec.Denote.
From SF Require Import Proofs.BytesLemmas Proofs.ProgLemmas Proofs.RecordL1 Proofs.ReaderSeq.
Open Scope Z_scope.

Ltac Zify.zify_post_hook ::= Z.div_mod_to_equations.

(** ** What the index must point at *)
Definition stored_at (req : option shape_type) (data : bytes) (e : Z * Z) (nr : Z * ref_rec) : Prop :=
  0 <= fst e /\
  (exists rest, skipn (Z.to_nat (fst e * 2)) data = ref_record (fst nr) (snd nr) ++ rest) /\
  record_ok req nr.

Definition Indexed (req : option shape_type) (data : bytes) (idx : list (Z * Z)) (recs : list (Z * ref_rec)) : Prop :=
  Forall2 (stored_at req data) idx recs /\ zlen data < two63.

(** ** Invariant of the reader between calls *)
Record RInv (data : bytes) (idx : list (Z * Z)) (st : rstate) (s : src) : Prop := mkRInv {
  ri_clean : clean s;
  ri_data : s_data s = data;
  ri_index : r_index st = Some idx;
  ri_pos : r_cur st = s_pos s \/ r_cur st = UNKNOWN_POSITION;
  ri_next : 0 <= r_next st <= zlen idx
}.

Lemma skipn_bound {A} n (l a r : list A) : skipn n l = a ++ r -> (n + length a <= length l)%nat \/ a = [].
Proof.
  intros H. destruct a as [|x a]; [right; reflexivity|left].
  assert (L : length (skipn n l) = length ((x :: a) ++ r)) by (rewrite H; reflexivity).
  rewrite skipn_length, app_length in L. cbn [length] in *. lia.
Qed.

Lemma stored_bound req data e nr : stored_at req data e nr ->
  fst e * 2 + zlen (ref_record (fst nr) (snd nr)) <= zlen data.
Proof.
  intros (H0 & (rest & Hs) & _). destruct (skipn_bound _ _ _ _ Hs) as [Hb|Hb].
  - unfold zlen. lia.
  - exfalso. assert (Z : zlen (ref_record (fst nr) (snd nr)) = 0) by (rewrite Hb; reflexivity).
    rewrite zlen_ref_record in Z. pose proof (zlen_nonneg (ref_content (snd nr))). lia.
Qed.

(** Reading the record an entry points at, from a source positioned there. *)
Lemma read_record_at req data e nr s :
  stored_at req data e nr -> clean s -> s_data s = data -> s_pos s = fst e * 2 ->
  exists s', run (read_one_shape req) s = (Ok ((fst nr, zlen (ref_content (snd nr)) / 2), denote (snd nr)), s')
             /\ clean s' /\ s_data s' = data /\ s_pos s' = fst e * 2 + zlen (ref_record (fst nr) (snd nr)).
Proof.
  intros (H0 & (rest & Hs) & (Hnum & Hc & Hsz & Ha)) Hcl Hd Hp.
  assert (Hr : s_rest s = ref_record (fst nr) (snd nr) ++ rest) by (rewrite s_rest_skipn, Hd, Hp; exact Hs).
  destruct (L1_record req (fst nr) (snd nr) Hnum Hc Hsz Ha s rest Hcl Hr) as (s' & Hrun & Hc' & Hd' & Hp').
  exists s'. split; [exact Hrun|]. split; [exact Hc'|]. split; [congruence|]. rewrite Hp', Hp. reflexivity.
Qed.

Lemma run_seek_start p s : clean s -> 0 <= p ->
  run (seek_start p) s = (Ok p, bump (set_pos s p)) /\ clean (bump (set_pos s p)).
Proof.
  intros [Hf Hp] H0. unfold seek_start. cbn [run]. unfold do_seek_start, faulty_now. rewrite Hf. cbn [lift_res run].
  split; [reflexivity|]. split; [exact Hf|exact H0].
Qed.

Lemma run_seek_end s : clean s ->
  run seek_end s = (Ok (zlen (s_data s)), bump (set_pos s (zlen (s_data s)))) /\ clean (bump (set_pos s (zlen (s_data s)))).
Proof.
  intros [Hf Hp]. unfold seek_end. cbn [run]. unfold do_seek_end, faulty_now. rewrite Hf. cbn [lift_res run].
  split; [reflexivity|]. split; [exact Hf|apply zlen_nonneg].
Qed.

Lemma nth_entry_some {A} (idx : list A) k : 0 <= k < zlen idx -> exists e, nth_error idx (Z.to_nat k) = Some e.
Proof.
  intros H. destruct (nth_error idx (Z.to_nat k)) eqn:E; [eauto|].
  apply nth_error_None in E. unfold zlen in H. lia.
Qed.

Lemma Forall2_nth {A B} (P : A -> B -> Prop) la lb n a :
  Forall2 P la lb -> nth_error la n = Some a -> exists b, nth_error lb n = Some b /\ P a b.
Proof.
  intros H; revert n; induction H as [|x y la lb Hxy H IH]; intros [|n] E; cbn in *; try discriminate.
  - injection E as <-. eauto.
  - apply IH, E.
Qed.

Lemma Forall2_zlen {A B} (P : A -> B -> Prop) la lb : Forall2 P la lb -> zlen la = zlen lb.
Proof. intros H. unfold zlen. f_equal. induction H; cbn [length]; congruence. Qed.

Definition shapes_of (recs : list (Z * ref_rec)) : list shape := map (fun nr => denote (snd nr)) recs.

Lemma UNKNOWN_big : UNKNOWN_POSITION = two64 - 1. Proof. reflexivity. Qed.

(** ** One step of the iteration *)
Lemma it_next_index req data idx recs st s k :
  Indexed req data idx recs -> RInv data idx st s -> r_next st = k -> k < zlen idx ->
  exists nr st' s', nth_error recs (Z.to_nat k) = Some nr /\
    run (it_next req st) s = (Ok (Some (Ok (denote (snd nr))), st'), s') /\
    RInv data idx st' s' /\ r_next st' = k + 1 /\ r_hdr st' = r_hdr st.
Proof.
  intros [HF Hbig] [Hcl Hd Hidx Hpos Hnext] Hk Hlt.
  destruct (nth_entry_some idx k) as [[off w] He]; [lia|].
  destruct (Forall2_nth _ _ _ _ _ HF He) as (nr & Hnr & Hst).
  pose proof (stored_bound _ _ _ _ Hst) as Hb. cbn [fst] in Hb.
  pose proof Hst as (Hoff & _ & (_ & Hc & Hsz & _)). cbn [fst snd] in *.
  pose proof (ref_content_even (snd nr) Hc) as Hev. pose proof (zlen_nonneg (ref_content (snd nr))) as Hnn.
  rewrite zlen_ref_record in Hb.
  exists nr. unfold it_next. rewrite Hidx. unfold nth_entry. rewrite Hk.
  destruct (Z.ltb_spec k 0) as [?|_]; [lia|]. rewrite He.
  unfold offset_in_bytes. destruct (Z.ltb_spec (off * 2) 0) as [?|_]; [lia|].
  set (st1 := set_next st (k + 1)).
  assert (Hread : forall s0 stc, clean s0 -> s_data s0 = data -> s_pos s0 = off * 2 -> r_cur stc = off * 2 ->
            r_index stc = Some idx -> r_next stc = k + 1 ->
            exists st' s', run (it_read req stc) s0 = (Ok (Some (Ok (denote (snd nr))), st'), s') /\
              RInv data idx st' s' /\ r_next st' = k + 1 /\ r_hdr st' = r_hdr stc).
  { intros s0 stc Hc0 Hd0 Hp0 Hcur0 Hi0 Hn0.
    destruct (read_record_at req data (off, w) nr s0 Hst Hc0 Hd0 Hp0) as (s' & Hrun & Hc' & Hd' & Hp').
    cbn [fst] in Hp'. rewrite zlen_ref_record in Hp'.
    unfold it_read. rewrite run_bind, run_catch, Hrun. cbn [snd].
    rewrite usize_add_ok by (rewrite Hcur0; unfold two63, two64 in *; lia). cbn [bind].
    rewrite usize_add_ok by (rewrite Hcur0; unfold two63, two64 in *; lia). cbn [bind run].
    eexists. exists s'. split; [reflexivity|]. split; [|split; [exact Hn0|reflexivity]].
    constructor; cbn [set_cur r_index r_cur r_next]; auto.
    - left. rewrite Hcur0, Hp'. lia.
    - rewrite Hn0. lia. }
  destruct (Z.eqb_spec (off * 2) (r_cur st1)) as [E|E].
  - (* already there *)
    change (r_cur st1) with (r_cur st) in E.
    assert (Hp : s_pos s = off * 2).
    { destruct Hpos as [Hp|Hp]; [lia|]. rewrite Hp, UNKNOWN_big in E. unfold two63, two64 in *. lia. }
    destruct (Hread s st1 Hcl Hd Hp) as (st' & s' & R1 & R2 & R3 & R4); auto.
    exists st', s'. auto.
  - assert (Hoff2 : 0 <= off * 2) by lia.
    destruct (run_seek_start (off * 2) s Hcl Hoff2) as [Hrs Hcs].
    rewrite run_bind, run_catch, Hrs. cbn [snd].
    destruct (Hread (bump (set_pos s (off * 2))) (set_cur st1 (off * 2))) as (st' & s' & R1 & R2 & R3 & R4); auto.
    exists st', s'. auto.
Qed.

Lemma it_next_end req data idx st s :
  RInv data idx st s -> r_next st = zlen idx -> run (it_next req st) s = (Ok (None, st), s).
Proof.
  intros [Hcl Hd Hidx Hpos Hnext] Hk. unfold it_next. rewrite Hidx. unfold nth_entry.
  destruct (Z.ltb_spec (r_next st) 0) as [?|_]; [lia|].
  assert (E : nth_error idx (Z.to_nat (r_next st)) = None) by (apply nth_error_None; unfold zlen in *; lia).
  rewrite E. reflexivity.
Qed.

(** ** Iterating [fuel] times from position [k] *)
Definition pull_spec (shapes : list shape) (k : nat) (fuel : nat) : list (res shape) * bool * nat :=
  let avail := skipn k shapes in
  if (length avail <? fuel)%nat then (map Ok avail, true, length shapes)
  else (map Ok (firstn fuel avail), false, (k + fuel)%nat).

Lemma it_pull_index req data idx recs : forall fuel st s (k : nat),
  Indexed req data idx recs -> RInv data idx st s -> r_next st = Z.of_nat k ->
  exists st' s',
    run (it_pull fuel req st) s
    = (Ok (fst (fst (pull_spec (shapes_of recs) k fuel)), snd (fst (pull_spec (shapes_of recs) k fuel)), st'), s') /\
    RInv data idx st' s' /\ r_next st' = Z.of_nat (snd (pull_spec (shapes_of recs) k fuel)) /\ r_hdr st' = r_hdr st.
Proof.
  induction fuel as [|f IH]; intros st s k HI Hinv Hk.
  - cbn [it_pull run]. exists st, s. unfold pull_spec. cbn [Nat.ltb Nat.leb firstn map fst snd].
    rewrite Nat.add_0_r. auto.
  - pose proof HI as [HF _]. pose proof (Forall2_zlen _ _ _ HF) as Hlen.
    assert (Hls : length (shapes_of recs) = length recs) by (unfold shapes_of; apply map_length).
    cbn [it_pull]. rewrite run_bind.
    destruct (Z.ltb_spec (Z.of_nat k) (zlen idx)) as [Hlt|Hge].
    + destruct (it_next_index req data idx recs st s (Z.of_nat k) HI Hinv Hk Hlt)
        as (nr & st1 & s1 & Hnr & Hrun & Hinv1 & Hn1 & Hh1).
      rewrite Hrun. cbn [fst snd]. rewrite run_bind. rewrite Nat2Z.id in Hnr.
      destruct (IH st1 s1 (S k) HI Hinv1) as (st2 & s2 & Hrun2 & Hinv2 & Hn2 & Hh2); [lia|].
      rewrite Hrun2. cbn [run fst snd]. exists st2, s2.
      assert (Hsk : skipn k (shapes_of recs) = denote (snd nr) :: skipn (S k) (shapes_of recs)).
      { unfold shapes_of. clear -Hnr. revert k Hnr. induction recs as [|x r IHr]; intros [|k] H; cbn in *; try discriminate.
        - injection H as ->. reflexivity.
        - apply IHr, H. }
      unfold pull_spec in *. rewrite Hsk. cbn [length].
      change (S (length (skipn (S k) (shapes_of recs))) <? S f)%nat with (length (skipn (S k) (shapes_of recs)) <? f)%nat.
      destruct (length (skipn (S k) (shapes_of recs)) <? f)%nat; cbn [fst snd map firstn] in *.
      * split; [reflexivity|]. split; [exact Hinv2|]. split; [exact Hn2|congruence].
      * split; [reflexivity|]. split; [exact Hinv2|]. split; [rewrite Hn2; f_equal; lia|congruence].
    + pose proof (ri_next _ _ _ _ Hinv) as Hb. rewrite Hk in Hb.
      rewrite (it_next_end req data idx st s Hinv) by lia. cbn [fst snd run]. exists st, s.
      assert (Hsk : skipn k (shapes_of recs) = []) by (apply skipn_all2; unfold zlen in *; lia).
      unfold pull_spec. rewrite Hsk. cbn [length Nat.ltb Nat.leb map fst snd].
      split; [reflexivity|]. split; [exact Hinv|]. split; [|reflexivity].
      rewrite Hk, Hls. unfold zlen in *. lia.
Qed.

(** ** seek and random access *)
Lemma r_seek_index req data idx recs st s k :
  Indexed req data idx recs -> RInv data idx st s -> 0 <= k ->
  exists st' s', run (r_seek st k) s = (Ok (Ok tt, st'), s') /\ RInv data idx st' s' /\
    r_next st' = Z.min k (zlen idx) /\ r_hdr st' = r_hdr st /\
    (k < zlen idx -> exists e, nth_error idx (Z.to_nat k) = Some e /\ s_pos s' = fst e * 2 /\ r_cur st' = fst e * 2).
Proof.
  intros [HF Hbig] [Hcl Hd Hidx Hpos Hnext] Hk. unfold r_seek. rewrite Hidx. unfold nth_entry.
  destruct (Z.ltb_spec k 0) as [?|_]; [lia|].
  destruct (Z.ltb_spec k (zlen idx)) as [Hlt|Hge].
  - destruct (nth_entry_some idx k) as [[off w] He]; [lia|]. rewrite He.
    destruct (Forall2_nth _ _ _ _ _ HF He) as (nr & Hnr & (Hoff & _)). cbn [fst] in Hoff.
    unfold offset_in_bytes. destruct (Z.ltb_spec (off * 2) 0) as [?|_]; [lia|].
    assert (Hoff2 : 0 <= off * 2) by lia.
    destruct (run_seek_start (off * 2) s Hcl Hoff2) as [Hrs Hcs].
    rewrite run_bind, run_catch, Hrs. cbn [snd run].
    eexists. eexists. split; [reflexivity|]. split.
    + constructor; cbn [set_cur set_next r_index r_cur r_next]; auto. lia.
    + cbn [set_cur set_next r_next r_hdr r_cur]. split; [reflexivity|]. split; [reflexivity|].
      intros _. exists (off, w). cbn [fst]. auto.
  - assert (E : nth_error idx (Z.to_nat k) = None) by (apply nth_error_None; unfold zlen in *; lia). rewrite E.
    destruct (run_seek_end s Hcl) as [Hrs Hcs].
    rewrite run_bind, run_catch, Hrs. cbn [snd run].
    eexists. eexists. split; [reflexivity|]. split.
    + constructor; cbn [set_cur set_next r_index r_cur r_next]; auto. pose proof (zlen_nonneg idx). lia.
    + cbn [set_cur set_next r_next r_hdr]. split; [reflexivity|]. split; [reflexivity|]. intros; lia.
Qed.

Lemma r_read_nth_index req data idx recs st s i :
  Indexed req data idx recs -> RInv data idx st s -> 0 <= i ->
  exists st' s',
    run (r_read_nth req st i) s
    = (Ok (match nth_error (shapes_of recs) (Z.to_nat i) with Some x => Some (Ok x) | None => None end, st'), s') /\
    RInv data idx st' s' /\ r_next st' = (if i <? zlen idx then 0 else r_next st) /\ r_hdr st' = r_hdr st.
Proof.
  intros HI Hinv Hi. pose proof HI as [HF Hbig]. pose proof (Forall2_zlen _ _ _ HF) as Hlen.
  pose proof Hinv as [Hcl Hd Hidx Hpos Hnext].
  unfold r_read_nth. rewrite Hidx.
  destruct (Z.leb_spec (zlen idx) i) as [Hge|Hlt].
  - cbn [run]. exists st, s.
    assert (E : nth_error (shapes_of recs) (Z.to_nat i) = None).
    { apply nth_error_None. unfold shapes_of. rewrite map_length. unfold zlen in *. lia. }
    rewrite E. destruct (Z.ltb_spec i (zlen idx)); [lia|]. auto.
  - destruct (r_seek_index req data idx recs st s i HI Hinv Hi) as (st1 & s1 & Hrun1 & Hinv1 & Hn1 & Hh1 & Hat).
    destruct (Hat Hlt) as ([off w] & He & Hp1 & Hc1). cbn [fst] in *.
    destruct (Forall2_nth _ _ _ _ _ HF He) as (nr & Hnr & Hst).
    rewrite run_bind, Hrun1. cbn [fst snd].
    pose proof Hinv1 as [Hcl1 Hd1 Hidx1 _ _].
    destruct (read_record_at req data (off, w) nr s1 Hst Hcl1 Hd1 Hp1) as (s2 & Hrun2 & Hc2 & Hd2 & Hp2).
    rewrite run_bind, run_catch, Hrun2. cbn [snd].
    destruct (run_seek_start 100 s2 Hc2) as [Hrs Hcs]; [lia|].
    rewrite run_bind, run_catch, Hrs. cbn [snd run].
    eexists. eexists. split.
    + f_equal. f_equal. f_equal. unfold shapes_of. rewrite nth_error_map, Hnr. reflexivity.
    + destruct (Z.ltb_spec i (zlen idx)); [|lia]. split; [|split; [reflexivity|exact Hh1]].
      constructor; cbn [set_cur set_next r_index r_cur r_next]; auto. pose proof (zlen_nonneg idx). lia.
Qed.

(** ** The abstract reader: (shapes, next position) *)
Definition abs_call (shapes : list shape) (k : nat) (c : rcall) : rout * nat :=
  match c with
  | RIter fuel => let '(items, ended, k') := pull_spec shapes k fuel in (OItems items ended, k')
  | RNth i =>
      match nth_error shapes (Z.to_nat i) with
      | Some x => (ONthR (Some (Ok x)), O)
      | None => (ONthR None, k)
      end
  | RSeek j => (OSeekR (Ok tt), Nat.min (Z.to_nat j) (length shapes))
  | RCount => (OCountR (Ok (zlen shapes)), k)
  | RHint => (OHintR (Some (zlen shapes - Z.of_nat k)), k)
  end.

Fixpoint abs_calls (shapes : list shape) (k : nat) (cs : list rcall) : list rout :=
  match cs with
  | [] => []
  | c :: r => fst (abs_call shapes k c) :: abs_calls shapes (snd (abs_call shapes k c)) r
  end.

Definition rcall_wf (c : rcall) : Prop :=
  match c with RNth i => 0 <= i | RSeek k => 0 <= k | _ => True end.

Lemma r_call_refines req data idx recs st s (k : nat) c :
  Indexed req data idx recs -> RInv data idx st s -> r_next st = Z.of_nat k -> rcall_wf c ->
  exists st' s', run (r_call req st c) s = (Ok (fst (abs_call (shapes_of recs) k c), st'), s') /\
    RInv data idx st' s' /\ r_next st' = Z.of_nat (snd (abs_call (shapes_of recs) k c)) /\ r_hdr st' = r_hdr st.
Proof.
  intros HI Hinv Hk Hwf. pose proof HI as [HF _]. pose proof (Forall2_zlen _ _ _ HF) as Hlen.
  assert (Hls : length (shapes_of recs) = length recs) by (unfold shapes_of; apply map_length).
  assert (Hzs : zlen (shapes_of recs) = zlen idx) by (unfold zlen in *; lia).
  destruct c as [fuel|i|j| |]; cbn [r_call abs_call rcall_wf] in *.
  - destruct (it_pull_index req data idx recs fuel st s k HI Hinv Hk) as (st' & s' & Hrun & Hinv' & Hn' & Hh').
    rewrite run_bind, Hrun. cbn [run fst snd]. exists st', s'.
    destruct (pull_spec (shapes_of recs) k fuel) as [[items ended] k']. cbn [fst snd] in *. auto.
  - destruct (r_read_nth_index req data idx recs st s i HI Hinv Hwf) as (st' & s' & Hrun & Hinv' & Hn' & Hh').
    rewrite run_bind, Hrun. cbn [run fst snd]. exists st', s'.
    destruct (nth_error (shapes_of recs) (Z.to_nat i)) eqn:E; cbn [fst snd].
    + split; [reflexivity|]. split; [exact Hinv'|]. split; [|exact Hh'].
      assert (Z.to_nat i < length (shapes_of recs))%nat by (apply nth_error_Some; congruence).
      destruct (Z.ltb_spec i (zlen idx)); [exact Hn'|unfold zlen in *; lia].
    + split; [reflexivity|]. split; [exact Hinv'|]. split; [|exact Hh'].
      apply nth_error_None in E. destruct (Z.ltb_spec i (zlen idx)); [unfold zlen in *; lia|]. rewrite Hn'. exact Hk.
  - destruct (r_seek_index req data idx recs st s j HI Hinv Hwf) as (st' & s' & Hrun & Hinv' & Hn' & Hh' & _).
    rewrite run_bind, Hrun. cbn [run fst snd]. exists st', s'. split; [reflexivity|]. split; [exact Hinv'|]. split; [|exact Hh'].
    rewrite Hn'. unfold zlen in *. lia.
  - cbn [run]. exists st, s. unfold r_count. rewrite (ri_index _ _ _ _ Hinv), Hzs. auto.
  - cbn [run]. exists st, s. unfold size_hint. rewrite (ri_index _ _ _ _ Hinv), Hk, Hzs.
    pose proof (ri_next _ _ _ _ Hinv). rewrite Z.max_r by lia. auto.
Qed.

(** Every history of calls on a reader with an index returns what the
    abstract reader returns. *)
Theorem index_history req data idx recs : forall cs st s (k : nat),
  Indexed req data idx recs -> RInv data idx st s -> r_next st = Z.of_nat k -> Forall rcall_wf cs ->
  exists st' s', run (r_calls req st cs) s = (Ok (abs_calls (shapes_of recs) k cs, st'), s') /\ RInv data idx st' s'.
Proof.
  induction cs as [|c cs IH]; intros st s k HI Hinv Hk Hwf.
  - cbn [r_calls run abs_calls]. exists st, s. auto.
  - inversion Hwf as [|? ? Hc Hcs]; subst.
    destruct (r_call_refines req data idx recs st s k c HI Hinv Hk Hc) as (st1 & s1 & Hrun1 & Hinv1 & Hn1 & _).
    destruct (IH st1 s1 _ HI Hinv1 Hn1 Hcs) as (st2 & s2 & Hrun2 & Hinv2).
    cbn [r_calls abs_calls]. rewrite run_bind, Hrun1. cbn [fst snd]. rewrite run_bind, Hrun2. cbn [run fst snd].
    exists st2, s2. auto.
Qed.
