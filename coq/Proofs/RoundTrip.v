(** Write-then-read: the files the writer leaves are conformant whitepaper
    files (C02), and the reader returns [on_read] of every written shape, in
    order, then ends (C01, sequential route without index; the index routes
    are in Proofs/IndexReader.v). *)
From SF Require Import Model.Bytes Model.F64 Model.ShapeType Model.Shapes Model.Res Model.Encode
  Model.F64Arith Model.Construct Model.Writer Model.Prog Model.Decode Model.Reader Spec.Esri Spec.Denote Spec.Layout.
From SF Require Import Proofs.BytesLemmas Proofs.ShapeTypeProofs Proofs.SizeProofs Proofs.ProgLemmas Proofs.RecordL1
  Proofs.ReaderSeq Proofs.WriterCore Proofs.WriterInv Proofs.EncodeRef Proofs.LayoutConf.
Open Scope Z_scope.

Ltac Zify.zify_post_hook ::= Z.div_mod_to_equations.

(** ** All accepted shapes have the file's type *)
Definition one_type (ss : list shape) : Prop := Forall (fun s => type_of s = file_type ss) ss.

Lemma st_eqb_eq a b : st_eqb a b = true -> a = b.
Proof. destruct a, b; cbn; intros H; try reflexivity; discriminate. Qed.

Lemma accepted_one_type : forall cs ss, one_type ss -> one_type (accepted_acc ss cs).
Proof.
  induction cs as [|c cs IH]; intros ss H; cbn [accepted_acc]; [exact H|].
  destruct c as [s| |]; try (apply IH; exact H).
  destruct (accepts_type ss s) eqn:E; [|apply IH; exact H].
  apply IH. unfold one_type in *. destruct ss as [|s0 r].
  - cbn [app file_type]. constructor; [reflexivity|constructor].
  - cbn [accepts_type] in E. apply st_eqb_eq in E. cbn [app file_type] in *.
    apply Forall_app with (l1 := s0 :: r). split; [exact H|]. constructor; [symmetry; exact E|constructor].
Qed.

Lemma accepted_one_type0 cs : one_type (accepted_acc [] cs).
Proof. apply accepted_one_type. constructor. Qed.

Lemma accepted_all : forall (P : shape -> Prop) cs ss, Forall P ss ->
  Forall (fun c => match c with CWrite s => P s | _ => True end) cs -> Forall P (accepted_acc ss cs).
Proof.
  intros P. induction cs as [|c cs IH]; intros ss Hs Hc; cbn [accepted_acc]; [exact Hs|].
  inversion Hc as [|? ? Hc1 Hc2]; subst. destruct c as [s| |]; try (apply IH; assumption).
  destruct (accepts_type ss s); apply IH; try assumption.
  apply Forall_app; split; [exact Hs|constructor; [exact Hc1|constructor]].
Qed.

(** ** The header box consists of 64-bit patterns *)
Lemma f64_min_cases a b : f64_min a b = a \/ f64_min a b = b.
Proof. unfold f64_min. destruct (f64_lt a b); auto. Qed.
Lemma f64_max_cases a b : f64_max a b = a \/ f64_max a b = b.
Proof. unfold f64_max. destruct (f64_gt a b); auto. Qed.
Lemma f64_min_ok a b : f64_ok a -> f64_ok b -> f64_ok (f64_min a b).
Proof. destruct (f64_min_cases a b) as [-> | ->]; auto. Qed.
Lemma f64_max_ok a b : f64_ok a -> f64_ok b -> f64_ok (f64_max a b).
Proof. destruct (f64_max_cases a b) as [-> | ->]; auto. Qed.

Lemma f64_ok_0 : f64_ok 0. Proof. unfold f64_ok, two64; lia. Qed.

Definition range_ok (r : f64 * f64) : Prop := f64_ok (fst r) /\ f64_ok (snd r).

Lemma ranges_ok s : shape_ok s -> range_ok (x_range s) /\ range_ok (y_range s) /\ range_ok (z_range s) /\ range_ok (m_range s).
Proof.
  assert (H0 : range_ok (0, 0)) by (split; apply f64_ok_0).
  destruct s as [|d p|d b ps|d b parts|d b rings|b patches]; cbn [shape_ok]; intros H.
  - contradiction.
  - destruct H as (Hx & Hy & Hz & Hm). unfold range_ok. cbn [x_range y_range fst snd]. splits; try assumption;
      destruct d; cbn [z_range m_range fst snd]; try assumption; try apply f64_ok_0;
      destruct (is_no_data (pm p)); cbn [fst snd]; try assumption; apply f64_ok_0.
  - destruct H as [[(Hx1 & Hy1 & Hz1 & Hm1) (Hx2 & Hy2 & Hz2 & Hm2)] _]. unfold range_ok.
    destruct d; cbn [x_range y_range z_range m_range fst snd]; splits; try assumption; apply f64_ok_0.
  - destruct H as [[(Hx1 & Hy1 & Hz1 & Hm1) (Hx2 & Hy2 & Hz2 & Hm2)] _]. unfold range_ok.
    destruct d; cbn [x_range y_range z_range m_range fst snd]; splits; try assumption; apply f64_ok_0.
  - destruct H as [[(Hx1 & Hy1 & Hz1 & Hm1) (Hx2 & Hy2 & Hz2 & Hm2)] _]. unfold range_ok.
    destruct d; cbn [x_range y_range z_range m_range fst snd]; splits; try assumption; apply f64_ok_0.
  - destruct H as [[(Hx1 & Hy1 & Hz1 & Hm1) (Hx2 & Hy2 & Hz2 & Hm2)] _]. unfold range_ok.
    cbn [x_range y_range z_range m_range fst snd]; splits; assumption.
Qed.

Lemma grow_box_ok b s : box_ok b -> shape_ok s -> box_ok (grow_from_shape b s).
Proof.
  intros [(Hx1 & Hy1 & Hz1 & Hm1) (Hx2 & Hy2 & Hz2 & Hm2)] Hs.
  destruct (ranges_ok s Hs) as ([Ax Bx] & [Ay By] & [Az Bz] & [Am Bm]).
  unfold grow_from_shape, box_ok, pt_ok. cbn [bmin bmax px py pz pm].
  splits; try (apply f64_min_ok; assumption); try (apply f64_max_ok; assumption);
    try (destruct (st_has_m (type_of s))); try (destruct (st_has_z (type_of s)));
    try (apply f64_min_ok; assumption); try (apply f64_max_ok; assumption); assumption.
Qed.

Lemma sentinel_box_ok : box_ok sentinel_box.
Proof. unfold box_ok, pt_ok, sentinel_box, f64_ok, F_INF, F_NEG_INF, two64; cbn; lia. Qed.

Lemma fold_hdr_step_box_ok ss : forall h, box_ok (h_box h) -> Forall shape_ok ss -> box_ok (h_box (fold_left hdr_step ss h)).
Proof.
  induction ss as [|s r IH]; intros h Hb Hs; cbn [fold_left]; [exact Hb|].
  inversion Hs as [|? ? H1 H2]; subst. apply IH; [|exact H2].
  unfold hdr_step. cbn [set_box set_len h_box]. apply grow_box_ok; assumption.
Qed.

Lemma subst_sentinels_ok b : box_ok b -> box_ok (subst_sentinels b).
Proof.
  intros [(Hx1 & Hy1 & Hz1 & Hm1) (Hx2 & Hy2 & Hz2 & Hm2)]. unfold subst_sentinels, box_ok, pt_ok. cbn [bmin bmax px py pz pm].
  splits; try assumption;
    try (destruct (f64_eq (pz (bmax b)) F_NEG_INF && f64_eq (pz (bmin b)) F_INF); try assumption; apply f64_ok_0);
    try (destruct (f64_eq (pm (bmax b)) F_NEG_INF && f64_eq (pm (bmin b)) F_INF); try assumption; apply f64_ok_0).
Qed.

Lemma final_hdr_box_ok ss : Forall shape_ok ss -> box_ok (h_box (final_hdr ss)).
Proof.
  intros Hs. unfold final_hdr. cbn [set_box h_box]. apply subst_sentinels_ok.
  unfold hdr_after. destruct ss as [|s0 r].
  - unfold box_ok, pt_ok, header_default, f64_ok, F_NO_DATA, two64; cbn; lia.
  - apply fold_hdr_step_box_ok; [apply sentinel_box_ok|exact Hs].
Qed.

Lemma box8_ok b : box_ok b -> Forall f64_ok (box8 b).
Proof. intros [(Hx1 & Hy1 & Hz1 & Hm1) (Hx2 & Hy2 & Hz2 & Hm2)]. unfold box8. repeat (constructor; [assumption|]). constructor. Qed.

Lemma ref_type_rec_of_shape s : ref_type (rec_of_shape s) = type_of s.
Proof. destruct s as [|d p|d b ps|d b parts|d b rings|b patches]; try reflexivity; destruct d; reflexivity. Qed.

Lemma FileFits_each ss : FileFits ss -> Forall (fun s => record_words s < two31) ss.
Proof.
  unfold FileFits, file_words. induction ss as [|s r IH]; intros H; constructor.
  - cbn [map sum_Z] in H. pose proof (sum_words_nonneg r). unfold two31 in *. lia.
  - apply IH. cbn [map sum_Z] in H. pose proof (record_words_ge2 s). lia.
Qed.

Lemma numbered_conformant t : forall rs i, 0 <= i -> i + zlen rs <= two31 ->
  Forall (fun r => rec_conformant r /\ (ref_type r = t \/ ref_type r = TNull)) rs ->
  Forall (fun nr => in_i32 (fst nr) /\ rec_conformant (snd nr) /\ (ref_type (snd nr) = t \/ ref_type (snd nr) = TNull))
         (numbered i rs).
Proof.
  induction rs as [|r rest IH]; intros i Hi Hn H; cbn [numbered]; constructor.
  - inversion H as [|? ? [H1 H2] _]; subst. cbn [fst snd]. rewrite zlen_cons in Hn. pose proof (zlen_nonneg rest).
    split; [unfold in_i32, two31 in *; lia|]. split; assumption.
  - inversion H; subst. rewrite zlen_cons in Hn. apply IH; [lia|lia|assumption].
Qed.

(** C02, conformance half: the file the writer must produce is a conformant
    whitepaper file. *)
Theorem layout_conformant ss : Forall shape_ok ss -> one_type ss -> FileFits ss ->
  file_conformant (layout (file_type ss) (h_box (final_hdr ss)) ss).
Proof.
  intros Hok Hty Hf. unfold file_conformant, layout. cbn [rf_box rf_records rf_type].
  split; [reflexivity|]. split; [apply box8_ok, final_hdr_box_ok, Hok|]. split.
  - apply numbered_conformant; [lia| |].
    + rewrite zlen_map. unfold FileFits, file_words in Hf. pose proof (sum_words_ge ss). unfold two31 in *. lia.
    + pose proof (FileFits_each ss Hf) as He. clear Hf. unfold one_type in Hty.
      generalize dependent (file_type ss). intros t Hty.
      induction ss as [|s r IH]; cbn [map]; constructor.
      * split; [apply rec_of_shape_conformant; [exact (Forall_inv Hok)|exact (Forall_inv He)]|].
        left. rewrite ref_type_rec_of_shape. exact (Forall_inv Hty).
      * apply IH; [exact (Forall_inv_tail Hok)|exact (Forall_inv_tail He)|exact (Forall_inv_tail Hty)].
  - rewrite <- records_is_ref, zlen_records_from. unfold FileFits, file_words in Hf. lia.
Qed.

(** ** C01: sequential reading of what the writer left *)
Lemma records_accepted req : forall rs i,
  Forall (fun r => (req = None \/ req = Some (ref_type r)) /\ zlen (ref_content r) < two31) rs ->
  Forall (fun nr => accepts req (snd nr) /\ zlen (ref_content (snd nr)) < two31) (numbered i rs).
Proof.
  induction rs as [|r rest IH]; intros i H; cbn [numbered]; constructor.
  - inversion H as [|? ? [H1 H2] _]; subst. cbn [snd]. split; [|exact H2].
    destruct H1 as [-> | ->]; cbn [accepts]; auto.
  - inversion H; subst. apply IH; assumption.
Qed.

(** The reader refuses a record whose content is 2^31 bytes or more (its i32
    byte count would overflow), although the writer can store up to 2^32 - 2
    bytes: the round trip is claimed for records below 2 GiB. *)
Definition RecordsFit (ss : list shape) : Prop := Forall (fun s => 4 + size_in_bytes s < two31) ss.

Theorem written_then_read_seq (req : option shape_type) (ss : list shape) (trailing : bytes) :
  Forall shape_ok ss -> one_type ss -> FileFits ss -> RecordsFit ss ->
  (req = None \/ req = Some (file_type ss)) ->
  exists st s',
    run (st <-- r_new ;; x <-- it_pull (S (length ss)) req st ;; Ret (r_hdr st, x))
        (src_of (final_shp ss ++ trailing))
    = (Ok (header_of (file_type ss) (box8 (h_box (final_hdr ss))) (file_words ss),
           (map (fun s => Ok (on_read s)) ss, true, st)), s').
Proof.
  intros Hok Hty Hf Hrf Hreq. rewrite final_shp_is_ref by exact Hf.
  set (g := layout (file_type ss) (h_box (final_hdr ss)) ss).
  destruct (read_all_noindex req g trailing (layout_conformant ss Hok Hty Hf)) as (st & s' & E).
  - unfold g, layout. cbn [rf_records]. apply (records_accepted req).
    pose proof Hrf as He. unfold RecordsFit in He. unfold one_type in Hty.
    clear g Hok Hf Hrf. generalize dependent (file_type ss). intros t Hty Hreq.
    induction ss as [|s r IH]; cbn [map]; constructor.
    + rewrite ref_type_rec_of_shape. split.
      * rewrite (Forall_inv Hty). destruct Hreq as [-> | ->]; auto.
      * pose proof (Forall_inv He) as Hw. cbv beta in Hw. rewrite zlen_ref_content_shape. exact Hw.
    + apply IH; [exact (Forall_inv_tail He)|exact (Forall_inv_tail Hty)].
  - exists st, s'. subst g. unfold layout in *. cbn [rf_records rf_type rf_box] in E.
    assert (L : length (numbered 1 (map rec_of_shape ss)) = length ss).
    { pose proof (zlen_numbered 1 (map rec_of_shape ss)) as Z1. rewrite zlen_map in Z1. unfold zlen in Z1. lia. }
    rewrite L in E. rewrite E.
    assert (D : declared_words (mkfile (file_type ss) (box8 (h_box (final_hdr ss))) (numbered 1 (map rec_of_shape ss)))
                = file_words ss).
    { unfold declared_words. cbn [rf_records]. rewrite <- records_is_ref, zlen_records_from. unfold file_words. lia. }
    assert (M : forall i, map (fun nr : Z * ref_rec => @Ok shape (denote (snd nr))) (numbered i (map rec_of_shape ss))
                = map (fun s => Ok (on_read s)) ss).
    { clear. induction ss as [|s r IH]; intros i; [reflexivity|].
      cbn [map numbered snd]. rewrite denote_rec_of_shape, IH. reflexivity. }
    rewrite D, M. reflexivity.
Qed.
