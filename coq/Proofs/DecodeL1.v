(** L1 (parse of encode): on the bytes of any conformant record of the ESRI
    layout, the library's record reader returns what the record denotes and
    consumes exactly the record. *)
From SF Require Import Model.Bytes Model.F64 Model.ShapeType Model.Shapes Model.Res Model.Encode
  Model.F64Arith Model.Construct Model.Prog Model.Decode Spec.Esri Spec.Denote.
From SF Require Import Proofs.BytesLemmas Proofs.ShapeTypeProofs Proofs.ProgLemmas Proofs.DecodePrims
  Proofs.DecodePoints Proofs.DecodeParts.
Open Scope Z_scope.

Arguments f64_enc : simpl never.
Arguments i32_le : simpl never.
Arguments i32_be : simpl never.
Arguments le_bytes : simpl never.
Arguments f64s : simpl never.
Arguments i32s : simpl never.

Lemma reads_conv {A} (p : prog A) bs bs' a a' : reads p bs a -> bs = bs' -> a = a' -> reads p bs' a'.
Proof. intros H -> ->; exact H. Qed.

Lemma xy_enc_eta pts : flat_map (fun p : f64 * f64 => f64_enc (fst p) ++ f64_enc (snd p)) pts = flat_map xy_enc pts.
Proof. reflexivity. Qed.

Ltac bytes_eq := unfold f64s, i32s; cbn [flat_map app]; repeat rewrite <- app_assoc; rewrite ?app_nil_r; cbn [app]; reflexivity.

Ltac body_unfold :=
  unfold ref_body_bytes; cbn [rb_box rb_offsets rb_kinds rb_pts rb_z rb_m is_multipoint_type st_eqb st_code
    st_has_z st_has_m layout_has_m Z.eqb Pos.eqb orb fst snd]; rewrite ?xy_enc_eta.

Ltac size_eq :=
  unfold ref_body_bytes; cbn [rb_box rb_offsets rb_kinds rb_pts rb_z rb_m is_multipoint_type st_eqb st_code
    st_has_z st_has_m layout_has_m Z.eqb Pos.eqb orb fst snd];
  rewrite ?xy_enc_eta; zlen_norm; change (zlen (@nil Z)) with 0;
  unfold polyline_size, multipoint_size, multipatch_size; unfold zlen in *; lia.

(** The body of a multi-vertex record. *)
Lemma L1_multi t b : is_multi_type t = true -> body_conformant t b ->
  reads (read_content t (zlen (ref_body_bytes t b))) (ref_body_bytes t b) (denote_multi t b).
Proof.
  intros Ht Hconf. destruct b as [[[[a b0] c] e] offs kinds pts [[zlo zhi] zs] m].
  unfold body_conformant in Hconf. cbn [rb_box rb_offsets rb_kinds rb_pts rb_z rb_m fst snd] in Hconf.
  destruct Hconf as (Hn & Hnp & Hbox & Hpts & Hoffs & Hkinds & Hz & Hm).
  destruct t; try discriminate Ht;
    cbn [is_multipoint_type st_eqb st_code st_has_z st_has_m layout_has_m Z.eqb Pos.eqb orb] in Hoffs, Hkinds, Hz, Hm;
    cbn [read_content].
  - (* TPolyline *)
    subst kinds. injection Hz as -> -> ->. subst m.
      replace (zlen (ref_body_bytes TPolyline _)) with (polyline_size XY (zlen pts) (zlen offs) false) by size_eq.
      unfold read_polyline. rewrite <- (app_nil_r (ref_body_bytes _ _)).
      eapply reads_bind.
      { eapply reads_conv; [apply (reads_polyline_XY a b0 c e offs pts Hbox Hpts Hn Hnp Hoffs)| |reflexivity].
        body_unfold; bytes_eq. }
      cbn [fst snd]. apply reads_ret_eq; [reflexivity|].
      unfold denote_multi, denote_box, dim_of_type; body_unfold; cbn [has_z_dim has_m_dim]. rewrite vertices_XY. reflexivity.
  - (* TPolygon *)
    subst kinds. injection Hz as -> -> ->. subst m.
      replace (zlen (ref_body_bytes TPolygon _)) with (polyline_size XY (zlen pts) (zlen offs) false) by size_eq.
      unfold read_polygon. rewrite <- (app_nil_r (ref_body_bytes _ _)).
      eapply reads_bind.
      { eapply reads_conv; [apply (reads_polyline_XY a b0 c e offs pts Hbox Hpts Hn Hnp Hoffs)| |reflexivity].
        body_unfold; bytes_eq. }
      cbn [fst snd]. apply reads_ret_eq; [reflexivity|].
      unfold denote_multi, denote_box, dim_of_type; body_unfold; cbn [has_z_dim has_m_dim]. rewrite vertices_XY. reflexivity.
  - (* TMultipoint *)
    subst kinds offs. injection Hz as -> -> ->. subst m.
      replace (zlen (ref_body_bytes TMultipoint _)) with (multipoint_size XY (zlen pts) false) by size_eq.
      eapply reads_conv; [apply (reads_multipoint_XY a b0 c e pts Hbox Hpts Hn)| |].
      * body_unfold; bytes_eq.
      * unfold denote_multi, denote_box, dim_of_type; body_unfold; cbn [has_z_dim has_m_dim]. rewrite vertices_XY. reflexivity.
  - (* TPolylineZ *)
    subst kinds. destruct m as [[[mlo mhi] ms]|].
    +
      replace (zlen (ref_body_bytes TPolylineZ _)) with (polyline_size XYZM (zlen pts) (zlen offs) true) by size_eq.
      unfold read_polyline. rewrite <- (app_nil_r (ref_body_bytes _ _)).
      eapply reads_bind.
      { eapply reads_conv; [apply (reads_polyline_XYZM_some a b0 c e offs pts Hbox Hpts Hn Hnp Hoffs zlo zhi zs Hz mlo mhi ms Hm)| |reflexivity].
        body_unfold; bytes_eq. }
      cbn [fst snd]. apply reads_ret_eq; [reflexivity|].
      unfold denote_multi, denote_box, dim_of_type; body_unfold; cbn [has_z_dim has_m_dim]. rewrite vertices_XYZM_some by (apply Hz || apply Hm). reflexivity.
    +
      replace (zlen (ref_body_bytes TPolylineZ _)) with (polyline_size XYZM (zlen pts) (zlen offs) false) by size_eq.
      unfold read_polyline. rewrite <- (app_nil_r (ref_body_bytes _ _)).
      eapply reads_bind.
      { eapply reads_conv; [apply (reads_polyline_XYZM_none a b0 c e offs pts Hbox Hpts Hn Hnp Hoffs zlo zhi zs Hz)| |reflexivity].
        body_unfold; bytes_eq. }
      cbn [fst snd]. apply reads_ret_eq; [reflexivity|].
      unfold denote_multi, denote_box, dim_of_type; body_unfold; cbn [has_z_dim has_m_dim]. rewrite vertices_XYZM_none by apply Hz. reflexivity.
  - (* TPolygonZ *)
    subst kinds. destruct m as [[[mlo mhi] ms]|].
    +
      replace (zlen (ref_body_bytes TPolygonZ _)) with (polyline_size XYZM (zlen pts) (zlen offs) true) by size_eq.
      unfold read_polygon. rewrite <- (app_nil_r (ref_body_bytes _ _)).
      eapply reads_bind.
      { eapply reads_conv; [apply (reads_polyline_XYZM_some a b0 c e offs pts Hbox Hpts Hn Hnp Hoffs zlo zhi zs Hz mlo mhi ms Hm)| |reflexivity].
        body_unfold; bytes_eq. }
      cbn [fst snd]. apply reads_ret_eq; [reflexivity|].
      unfold denote_multi, denote_box, dim_of_type; body_unfold; cbn [has_z_dim has_m_dim]. rewrite vertices_XYZM_some by (apply Hz || apply Hm). reflexivity.
    +
      replace (zlen (ref_body_bytes TPolygonZ _)) with (polyline_size XYZM (zlen pts) (zlen offs) false) by size_eq.
      unfold read_polygon. rewrite <- (app_nil_r (ref_body_bytes _ _)).
      eapply reads_bind.
      { eapply reads_conv; [apply (reads_polyline_XYZM_none a b0 c e offs pts Hbox Hpts Hn Hnp Hoffs zlo zhi zs Hz)| |reflexivity].
        body_unfold; bytes_eq. }
      cbn [fst snd]. apply reads_ret_eq; [reflexivity|].
      unfold denote_multi, denote_box, dim_of_type; body_unfold; cbn [has_z_dim has_m_dim]. rewrite vertices_XYZM_none by apply Hz. reflexivity.
  - (* TMultipointZ *)
    subst kinds offs. destruct m as [[[mlo mhi] ms]|].
    +
      replace (zlen (ref_body_bytes TMultipointZ _)) with (multipoint_size XYZM (zlen pts) true) by size_eq.
      eapply reads_conv; [apply (reads_multipoint_XYZM_some a b0 c e pts Hbox Hpts Hn zlo zhi zs Hz mlo mhi ms Hm)| |].
      * body_unfold; bytes_eq.
      * unfold denote_multi, denote_box, dim_of_type; body_unfold; cbn [has_z_dim has_m_dim]. rewrite vertices_XYZM_some by (apply Hz || apply Hm). reflexivity.
    +
      replace (zlen (ref_body_bytes TMultipointZ _)) with (multipoint_size XYZM (zlen pts) false) by size_eq.
      eapply reads_conv; [apply (reads_multipoint_XYZM_none a b0 c e pts Hbox Hpts Hn zlo zhi zs Hz)| |].
      * body_unfold; bytes_eq.
      * unfold denote_multi, denote_box, dim_of_type; body_unfold; cbn [has_z_dim has_m_dim]. rewrite vertices_XYZM_none by apply Hz. reflexivity.
  - (* TPolylineM *)
    subst kinds. injection Hz as -> -> ->. destruct m as [[[mlo mhi] ms]|].
    +
      replace (zlen (ref_body_bytes TPolylineM _)) with (polyline_size XYM (zlen pts) (zlen offs) true) by size_eq.
      unfold read_polyline. rewrite <- (app_nil_r (ref_body_bytes _ _)).
      eapply reads_bind.
      { eapply reads_conv; [apply (reads_polyline_XYM_some a b0 c e offs pts Hbox Hpts Hn Hnp Hoffs mlo mhi ms Hm)| |reflexivity].
        body_unfold; bytes_eq. }
      cbn [fst snd]. apply reads_ret_eq; [reflexivity|].
      unfold denote_multi, denote_box, dim_of_type; body_unfold; cbn [has_z_dim has_m_dim]. rewrite vertices_XYM_some by apply Hm. reflexivity.
    +
      replace (zlen (ref_body_bytes TPolylineM _)) with (polyline_size XYM (zlen pts) (zlen offs) false) by size_eq.
      unfold read_polyline. rewrite <- (app_nil_r (ref_body_bytes _ _)).
      eapply reads_bind.
      { eapply reads_conv; [apply (reads_polyline_XYM_none a b0 c e offs pts Hbox Hpts Hn Hnp Hoffs)| |reflexivity].
        body_unfold; bytes_eq. }
      cbn [fst snd]. apply reads_ret_eq; [reflexivity|].
      unfold denote_multi, denote_box, dim_of_type; body_unfold; cbn [has_z_dim has_m_dim]. rewrite vertices_XYM_none. reflexivity.
  - (* TPolygonM *)
    subst kinds. injection Hz as -> -> ->. destruct m as [[[mlo mhi] ms]|].
    +
      replace (zlen (ref_body_bytes TPolygonM _)) with (polyline_size XYM (zlen pts) (zlen offs) true) by size_eq.
      unfold read_polygon. rewrite <- (app_nil_r (ref_body_bytes _ _)).
      eapply reads_bind.
      { eapply reads_conv; [apply (reads_polyline_XYM_some a b0 c e offs pts Hbox Hpts Hn Hnp Hoffs mlo mhi ms Hm)| |reflexivity].
        body_unfold; bytes_eq. }
      cbn [fst snd]. apply reads_ret_eq; [reflexivity|].
      unfold denote_multi, denote_box, dim_of_type; body_unfold; cbn [has_z_dim has_m_dim]. rewrite vertices_XYM_some by apply Hm. reflexivity.
    +
      replace (zlen (ref_body_bytes TPolygonM _)) with (polyline_size XYM (zlen pts) (zlen offs) false) by size_eq.
      unfold read_polygon. rewrite <- (app_nil_r (ref_body_bytes _ _)).
      eapply reads_bind.
      { eapply reads_conv; [apply (reads_polyline_XYM_none a b0 c e offs pts Hbox Hpts Hn Hnp Hoffs)| |reflexivity].
        body_unfold; bytes_eq. }
      cbn [fst snd]. apply reads_ret_eq; [reflexivity|].
      unfold denote_multi, denote_box, dim_of_type; body_unfold; cbn [has_z_dim has_m_dim]. rewrite vertices_XYM_none. reflexivity.
  - (* TMultipointM *)
    subst kinds offs. injection Hz as -> -> ->. destruct m as [[[mlo mhi] ms]|].
    +
      replace (zlen (ref_body_bytes TMultipointM _)) with (multipoint_size XYM (zlen pts) true) by size_eq.
      eapply reads_conv; [apply (reads_multipoint_XYM_some a b0 c e pts Hbox Hpts Hn mlo mhi ms Hm)| |].
      * body_unfold; bytes_eq.
      * unfold denote_multi, denote_box, dim_of_type; body_unfold; cbn [has_z_dim has_m_dim]. rewrite vertices_XYM_some by apply Hm. reflexivity.
    +
      replace (zlen (ref_body_bytes TMultipointM _)) with (multipoint_size XYM (zlen pts) false) by size_eq.
      eapply reads_conv; [apply (reads_multipoint_XYM_none a b0 c e pts Hbox Hpts Hn)| |].
      * body_unfold; bytes_eq.
      * unfold denote_multi, denote_box, dim_of_type; body_unfold; cbn [has_z_dim has_m_dim]. rewrite vertices_XYM_none. reflexivity.
  - (* Multipatch *)
    destruct m as [[[mlo mhi] ms]|].
    +
      replace (zlen (ref_body_bytes TMultipatch _)) with (multipatch_size (zlen pts) (zlen offs) true)
        by (destruct Hkinds as [Hkl _]; assert (zlen kinds = zlen offs) by (unfold zlen; rewrite Hkl; reflexivity); size_eq).
      eapply reads_conv; [apply (reads_multipatch_some a b0 c e offs pts Hbox Hpts Hn Hnp Hoffs zlo zhi zs Hz mlo mhi ms Hm kinds Hkinds)| |].
      * body_unfold; bytes_eq.
      * unfold denote_multi, denote_box, dim_of_type; body_unfold; cbn [has_z_dim has_m_dim]. rewrite vertices_XYZM_some by (apply Hz || apply Hm). reflexivity.
    +
      replace (zlen (ref_body_bytes TMultipatch _)) with (multipatch_size (zlen pts) (zlen offs) false)
        by (destruct Hkinds as [Hkl _]; assert (zlen kinds = zlen offs) by (unfold zlen; rewrite Hkl; reflexivity); size_eq).
      eapply reads_conv; [apply (reads_multipatch_none a b0 c e offs pts Hbox Hpts Hn Hnp Hoffs zlo zhi zs Hz kinds Hkinds)| |].
      * body_unfold; bytes_eq.
      * unfold denote_multi, denote_box, dim_of_type; body_unfold; cbn [has_z_dim has_m_dim]. rewrite vertices_XYZM_none by apply Hz. reflexivity.
Qed.
