(** C11, the route through the index: a reader opened with ANY index whose
    entries address records of a file, on ANY truncation of that file, yields
    for every index entry either the record it addresses (when the record
    lies wholly inside the retained bytes) or an UnexpectedEof error: never a
    shape that is not in the file, never a reordered one, never a panic. *)
From SF Require Import Model.Bytes Model.F64 Model.ShapeType Model.Shapes Model.Res Model.Encode
  Model.F64Arith Model.Construct Model.Prog Model.Decode Model.Reader Spec.Esri Spec.Denote.
From SF Require Import Proofs.BytesLemmas Proofs.ProgLemmas Proofs.RecordL1 Proofs.SimpleProofs Proofs.ReaderSeq
  Proofs.NoPanic Proofs.NoPanicProofs Proofs.ReaderRobust Proofs.Truncation Proofs.IndexReader Proofs.CrashRead.
Open Scope Z_scope.

Ltac Zify.zify_post_hook ::= Z.div_mod_to_equations.

(** ** The reader on a truncated source *)
Record RInvT (data : bytes) (K : Z) (idx : list (Z * Z)) (st : rstate) (s : src) : Prop := mkRInvT {
  rt_clean : clean s;
  rt_data : s_data s = firstn (Z.to_nat K) data;
  rt_index : r_index st = Some idx;
  rt_pos : r_cur st = s_pos s \/ r_cur st = UNKNOWN_POSITION;
  rt_next : 0 <= r_next st <= zlen idx
}.

(** what an index entry is answered with when the file is cut at byte K *)
Definition item_at (K : Z) (e : Z * Z) (nr : Z * ref_rec) : res shape :=
  if fst e * 2 + zlen (ref_record (fst nr) (snd nr)) <=? K then Ok (denote (snd nr)) else Err EIoEof.

Definition full_of (data : bytes) (s : src) : src := mksrc data (s_pos s) (s_ops s) (s_fault s) (s_reserved s).

Lemma truncate_full data K s : s_data s = firstn (Z.to_nat K) data -> truncate K (full_of data s) = s.
Proof. intros H. unfold truncate, full_of. cbn [s_data s_pos s_ops s_fault s_reserved]. rewrite <- H. destruct s; reflexivity. Qed.

Lemma rest_beyond s : zlen (s_data s) <= s_pos s -> s_rest s = [].
Proof. intros H. unfold s_rest. destruct (Z.leb_spec (zlen (s_data s)) (s_pos s)); [reflexivity|lia]. Qed.

(** Reading the record an entry addresses, from a truncated source positioned there. *)
Lemma read_record_at_trunc req data K e nr s :
  stored_at req data e nr -> zlen data < two63 -> 0 <= K -> clean s -> s_data s = firstn (Z.to_nat K) data -> s_pos s = fst e * 2 ->
  exists s', clean s' /\ s_data s' = firstn (Z.to_nat K) data /\
    ((fst e * 2 + zlen (ref_record (fst nr) (snd nr)) <= K /\
      run (read_one_shape req) s = (Ok ((fst nr, zlen (ref_content (snd nr)) / 2), denote (snd nr)), s') /\
      s_pos s' = fst e * 2 + zlen (ref_record (fst nr) (snd nr)))
     \/ (K < fst e * 2 + zlen (ref_record (fst nr) (snd nr)) /\ run (read_one_shape req) s = (Err EIoEof, s'))).
Proof.
  intros Hst Hbig HK Hcl Hd Hp.
  set (sf := full_of data s).
  assert (Hclf : clean sf) by (destruct Hcl; split; assumption).
  destruct (read_record_at req data e nr sf Hst Hclf eq_refl Hp) as (sf' & Hrun & Hc' & Hd' & Hp').
  pose proof (truncate_full data K s Hd) as Etr. fold sf in Etr.
  set (en := fst e * 2 + zlen (ref_record (fst nr) (snd nr))) in *.
  destruct (Z.le_gt_cases (fst e * 2) K) as [Hin|Hout].
  - (* the record starts inside the retained bytes *)
    destruct (simple_truncation (read_one_shape req) (simple_read_one_shape req) sf _ sf' Hclf Hrun K ltac:(cbn; lia)) as [T1 T2].
    destruct (Z.le_gt_cases en K) as [Hle|Hgt].
    + specialize (T1 ltac:(lia)). rewrite Etr in T1. exists (truncate K sf').
      split; [apply truncate_clean, Hc'|]. split; [unfold truncate; cbn [s_data]; rewrite Hd'; reflexivity|].
      left. split; [exact Hle|]. split; [exact T1|exact Hp'].
    + destruct (T2 ltac:(lia)) as (s2 & R2). rewrite Etr in R2. exists s2.
      destruct (simple_pos_mono _ (simple_read_one_shape req) s _ s2 (proj1 Hcl) R2) as [Hm Hf].
      split; [split; [exact Hf|destruct Hcl; lia]|]. split; [rewrite (run_data' _ _ _ _ R2); exact Hd|].
      right. split; [lia|exact R2].
  - (* the record starts beyond the cut: nothing to read *)
    assert (Hre : s_rest s = []).
    { apply rest_beyond. rewrite Hd. unfold zlen. rewrite firstn_length. lia. }
    destruct (read_at_end req s Hcl Hre) as (s2 & R2). exists s2.
    destruct (simple_pos_mono _ (simple_read_one_shape req) s _ s2 (proj1 Hcl) R2) as [Hm Hf].
    split; [split; [exact Hf|destruct Hcl; lia]|]. split; [rewrite (run_data' _ _ _ _ R2); exact Hd|].
    right. split; [|exact R2]. pose proof (zlen_nonneg (ref_record (fst nr) (snd nr))). unfold en. lia.
Qed.

(** One step of the indexed iteration on the truncated source. *)
Lemma it_next_index_trunc req data K idx recs st s k :
  Indexed req data idx recs -> 0 <= K -> RInvT data K idx st s -> r_next st = k -> k < zlen idx ->
  exists e nr st' s', nth_error idx (Z.to_nat k) = Some e /\ nth_error recs (Z.to_nat k) = Some nr /\
    run (it_next req st) s = (Ok (Some (item_at K e nr), st'), s') /\
    RInvT data K idx st' s' /\ r_next st' = k + 1 /\ r_hdr st' = r_hdr st.
Proof.
  intros [HF Hbig] HK [Hcl Hd Hidx Hpos Hnext] Hk Hlt.
  destruct (nth_entry_some idx k) as [[off w] He]; [lia|].
  destruct (Forall2_nth _ _ _ _ _ HF He) as (nr & Hnr & Hst).
  pose proof (stored_bound _ _ _ _ Hst) as Hb. cbn [fst] in Hb.
  pose proof Hst as (Hoff & _ & (_ & Hc & Hsz & _)). cbn [fst snd] in *.
  pose proof (ref_content_even (snd nr) Hc) as Hev. pose proof (zlen_nonneg (ref_content (snd nr))) as Hnn.
  exists (off, w), nr. unfold it_next. rewrite Hidx. unfold nth_entry. rewrite Hk.
  destruct (Z.ltb_spec k 0) as [?|_]; [lia|]. rewrite He.
  unfold offset_in_bytes. destruct (Z.ltb_spec (off * 2) 0) as [?|_]; [lia|].
  set (st1 := set_next st (k + 1)).
  assert (Hread : forall s0 stc, clean s0 -> s_data s0 = firstn (Z.to_nat K) data -> s_pos s0 = off * 2 -> r_cur stc = off * 2 ->
            r_index stc = Some idx -> r_next stc = k + 1 -> r_hdr stc = r_hdr st ->
            exists st' s', run (it_read req stc) s0 = (Ok (Some (item_at K (off, w) nr), st'), s') /\
              RInvT data K idx st' s' /\ r_next st' = k + 1 /\ r_hdr st' = r_hdr st).
  { intros s0 stc Hc0 Hd0 Hp0 Hcur0 Hi0 Hn0 Hh0.
    destruct (read_record_at_trunc req data K (off, w) nr s0 Hst Hbig HK Hc0 Hd0 Hp0) as (s' & Hc' & Hd' & [(Hle & Hrun & Hp')|(Hgt & Hrun)]);
      cbn [fst] in *.
    - rewrite zlen_ref_record in Hp', Hb, Hle.
      unfold it_read. rewrite run_bind, run_catch, Hrun. cbn [snd].
      rewrite usize_add_ok by (rewrite Hcur0; unfold two63, two64 in *; lia). cbn [bind].
      rewrite usize_add_ok by (rewrite Hcur0; unfold two63, two64 in *; lia). cbn [bind run].
      eexists. exists s'. split.
      + unfold item_at. cbn [fst]. rewrite zlen_ref_record. destruct (Z.leb_spec (off * 2 + (8 + zlen (ref_content (snd nr)))) K); [reflexivity|lia].
      + split; [|split; [exact Hn0|exact Hh0]].
        constructor; cbn [set_cur r_index r_cur r_next]; auto.
        * left. rewrite Hcur0, Hp'. lia.
        * rewrite Hn0. lia.
    - unfold it_read. rewrite run_bind, run_catch, Hrun. cbn [snd run]. rewrite Hi0.
      eexists. exists s'. split.
      + unfold item_at. cbn [fst]. destruct (Z.leb_spec (off * 2 + zlen (ref_record (fst nr) (snd nr))) K); [lia|reflexivity].
      + split; [|split; [exact Hn0|exact Hh0]].
        constructor; cbn [set_cur r_index r_cur r_next]; auto. rewrite Hn0. lia. }
  destruct (Z.eqb_spec (off * 2) (r_cur st1)) as [E|E].
  - change (r_cur st1) with (r_cur st) in E.
    assert (Hp : s_pos s = off * 2).
    { destruct Hpos as [Hp|Hp]; [lia|]. rewrite Hp, UNKNOWN_big in E. unfold two63, two64 in *. lia. }
    destruct (Hread s st1 Hcl Hd Hp) as (st' & s' & R1 & R2 & R3 & R4); auto.
    exists st', s'. split; [reflexivity|]. split; [exact Hnr|]. split; [exact R1|]. split; [exact R2|]. split; [exact R3|exact R4].
  - assert (Hoff2 : 0 <= off * 2) by lia.
    destruct (run_seek_start (off * 2) s Hcl Hoff2) as [Hrs Hcs].
    rewrite run_bind, run_catch, Hrs. cbn [snd].
    destruct (Hread (bump (set_pos s (off * 2))) (set_cur st1 (off * 2))) as (st' & s' & R1 & R2 & R3 & R4); auto.
    exists st', s'. split; [reflexivity|]. split; [exact Hnr|]. split; [exact R1|]. split; [exact R2|]. split; [exact R3|exact R4].
Qed.

Lemma it_next_end_trunc req data K idx st s :
  RInvT data K idx st s -> r_next st = zlen idx -> run (it_next req st) s = (Ok (None, st), s).
Proof.
  intros [Hcl Hd Hidx Hpos Hnext] Hk. unfold it_next. rewrite Hidx. unfold nth_entry.
  destruct (Z.ltb_spec (r_next st) 0) as [?|_]; [lia|].
  assert (E : nth_error idx (Z.to_nat (r_next st)) = None) by (apply nth_error_None; unfold zlen in *; lia).
  rewrite E. reflexivity.
Qed.

(** ** Iterating: every index entry is answered by [item_at] *)
Definition items_all (K : Z) (idx : list (Z * Z)) (recs : list (Z * ref_rec)) : list (res shape) :=
  map (fun p => item_at K (fst p) (snd p)) (combine idx recs).

Lemma items_all_nth K idx recs k e nr :
  nth_error idx k = Some e -> nth_error recs k = Some nr ->
  skipn k (items_all K idx recs) = item_at K e nr :: skipn (S k) (items_all K idx recs).
Proof.
  unfold items_all. revert idx recs; induction k as [|k IH]; intros idx recs He Hn.
  - destruct idx, recs; try discriminate. cbn in He, Hn. injection He as ->. injection Hn as ->. reflexivity.
  - destruct idx, recs; try discriminate. cbn [nth_error] in He, Hn. cbn [combine map skipn]. apply IH; assumption.
Qed.

Theorem it_pull_index_trunc req data K idx recs : forall fuel st s (k : nat),
  Indexed req data idx recs -> 0 <= K -> RInvT data K idx st s -> r_next st = Z.of_nat k ->
  exists st' s',
    run (it_pull fuel req st) s
    = (Ok (firstn fuel (skipn k (items_all K idx recs)), (length (skipn k (items_all K idx recs)) <? fuel)%nat, st'), s').
Proof.
  induction fuel as [|f IH]; intros st s k HI HK Hinv Hk.
  - cbn [it_pull run firstn]. exists st, s. reflexivity.
  - pose proof HI as [HF _]. pose proof (Forall2_zlen _ _ _ HF) as Hlen.
    assert (Hlall : length (items_all K idx recs) = length idx).
    { unfold items_all. rewrite map_length, combine_length. unfold zlen in Hlen. lia. }
    cbn [it_pull]. rewrite run_bind.
    destruct (Z.ltb_spec (Z.of_nat k) (zlen idx)) as [Hlt|Hge].
    + destruct (it_next_index_trunc req data K idx recs st s (Z.of_nat k) HI HK Hinv Hk Hlt)
        as (e & nr & st1 & s1 & He & Hnr & Hrun & Hinv1 & Hn1 & Hh1).
      rewrite Hrun. cbn [fst snd]. rewrite run_bind. rewrite Nat2Z.id in He, Hnr.
      destruct (IH st1 s1 (S k) HI HK Hinv1) as (st2 & s2 & Hrun2); [lia|].
      rewrite Hrun2. cbn [run fst snd]. exists st2, s2.
      rewrite (items_all_nth K idx recs k e nr He Hnr). cbn [firstn length]. reflexivity.
    + pose proof (rt_next _ _ _ _ _ Hinv) as Hb. rewrite Hk in Hb.
      rewrite (it_next_end_trunc req data K idx st s Hinv) by lia. cbn [fst snd run]. exists st, s.
      assert (Hsk : skipn k (items_all K idx recs) = []) by (apply skipn_all2; unfold zlen in *; lia).
      rewrite Hsk. cbn [firstn length Nat.ltb Nat.leb]. reflexivity.
Qed.

(** ** The file level: open with the index on the truncated file, then iterate *)
Theorem crash_read_index req data idx recs K fuel :
  Indexed req data idx recs -> 0 <= K ->
  let cut := firstn (Z.to_nat K) data in
  (exists r s', run (r_with_shx idx) (src_of cut) = (r, s') /\ forall st, r <> Ok st) \/
  (exists st' s',
     run (st <-- r_with_shx idx ;; it_pull fuel req st) (src_of cut)
     = (Ok (firstn fuel (items_all K idx recs), (length (items_all K idx recs) <? fuel)%nat, st'), s')).
Proof.
  intros HI HK cut. unfold r_with_shx. destruct (run read_header (src_of cut)) as [[h|e|] s1] eqn:Eh.
  - right. rewrite run_bind, run_bind, Eh. cbn [run].
    destruct (read_header_pos (src_of cut) h s1 eq_refl ltac:(cbn; lia) Eh) as (P1 & P2 & P3 & P4).
    change (s_pos (src_of cut)) with 0 in P1. change (s_data (src_of cut)) with cut in P3.
    assert (Hinv : RInvT data K idx (mkr h (Some idx) 100 0) s1).
    { constructor; cbn [r_index r_cur r_next];
        [split; [exact P2|lia] | exact P3 | reflexivity | left; lia | pose proof (zlen_nonneg idx); lia]. }
    destruct (it_pull_index_trunc req data K idx recs fuel _ s1 0%nat HI HK Hinv eq_refl) as (st' & s' & Hrun).
    cbn [skipn] in Hrun. exists st', s'. exact Hrun.
  - left. eexists; eexists. rewrite run_bind, Eh. split; [reflexivity|]. intros st; discriminate.
  - left. eexists; eexists. rewrite run_bind, Eh. split; [reflexivity|]. intros st; discriminate.
Qed.

(** ** The index read from a crash state of the .shx *)
From SF Require Import Proofs.IndexFiles.

Definition entry_prog : prog (Z * Z) := off <-- read_i32_be ;; words <-- read_i32_be ;; Ret (off, words).
Definition index_bytes (entries : list (Z * Z)) : bytes := flat_map entry_bytes entries.

Lemma entry_bytes_len e : length (entry_bytes e) = 8%nat.
Proof. unfold entry_bytes. rewrite app_length, !i32_be_length. reflexivity. Qed.

(** A successful entry read consumed 8 bytes that exist. *)
Lemma entry_prog_pos s e s' : clean s -> run entry_prog s = (Ok e, s') ->
  s_pos s' = s_pos s + 8 /\ clean s' /\ s_data s' = s_data s /\ s_pos s' <= zlen (s_data s).
Proof.
  intros [Hf Hp] H. unfold entry_prog in H. stepn H off s1 E1.
  destruct (read_i32_pos read_i32_be s off s1 (or_introl eq_refl) Hf Hp E1) as (A1 & A2 & A3 & A4).
  stepn H w s2 E2.
  destruct (read_i32_pos read_i32_be s1 w s2 (or_introl eq_refl) A2 ltac:(lia) E2) as (B1 & B2 & B3 & B4).
  cbn [run] in H. injection H as _ <-. split; [lia|]. split; [split; [exact B2|lia]|]. split; [congruence|]. rewrite <- A3. exact B4.
Qed.

Lemma read_entries_prefix : forall n entries (mx : nat) s l s',
  clean s -> s_rest s = firstn mx (index_bytes entries) ->
  Forall (fun e => in_i32 (fst e) /\ in_i32 (snd e)) entries ->
  run (rep_nat n entry_prog) s = (Ok l, s') -> l = firstn n entries /\ (n <= length entries)%nat.
Proof.
  induction n as [|n IH]; intros entries mx s l s' Hcl Hr He H.
  - cbn [rep_nat run] in H. injection H as <- _. split; [reflexivity|lia].
  - cbn [rep_nat] in H. rewrite run_bind in H. destruct (run entry_prog s) as [[e|er|] s1] eqn:E1; try discriminate.
    destruct (entry_prog_pos s e s1 Hcl E1) as (P1 & Hc1 & D1 & P4).
    (* 8 bytes were available: the stream holds a whole first entry *)
    assert (L8 : (8 <= length (s_rest s))%nat).
    { rewrite s_rest_skipn, skipn_length. destruct Hcl as [_ Hp]. unfold zlen in P4. lia. }
    rewrite Hr in L8. destruct entries as [|e0 es].
    { cbn in L8. rewrite firstn_nil in L8. cbn in L8. lia. }
    inversion He as [|? ? [He1 He2] Hes]; subst.
    unfold index_bytes in Hr, L8. cbn [flat_map] in Hr, L8. fold (index_bytes es) in Hr, L8.
    assert (Hmx : (8 <= mx)%nat).
    { rewrite firstn_length, app_length, entry_bytes_len in L8. lia. }
    rewrite firstn_app, entry_bytes_len in Hr. rewrite (firstn_all2 (entry_bytes e0)) in Hr by (rewrite entry_bytes_len; exact Hmx).
    destruct (reads_entry e0 He1 He2 s _ Hcl Hr) as (s1' & R1 & Hc1' & D1' & P1').
    unfold entry_prog in E1. rewrite R1 in E1. injection E1 as <- <-.
    rewrite run_bind in H. destruct (run (rep_nat n entry_prog) s1') as [[l1|er|] s2] eqn:E2; try discriminate.
    cbn [run] in H. injection H as <- _.
    assert (Hr1 : s_rest s1' = firstn (mx - 8) (index_bytes es)).
    { eapply rest_after; [apply Hcl|exact D1'|exact P1'|exact Hr]. }
    destruct (IH es (mx - 8)%nat s1' l1 s2 Hc1' Hr1 Hes E2) as [-> Hn].
    split; [reflexivity|cbn [length]; lia].
Qed.

(** Whatever 100 bytes stand in front, a successful read of the index from
    (those bytes) ++ (a byte-prefix of the true entries) returns a prefix of
    the true entries. *)
Theorem read_index_crash (Hx' : bytes) (entries : list (Z * Z)) (mx : nat) idx s' :
  length Hx' = 100%nat -> Forall (fun e => in_i32 (fst e) /\ in_i32 (snd e)) entries ->
  run read_index_file (src_of (Hx' ++ firstn mx (index_bytes entries))) = (Ok idx, s') ->
  exists c, idx = firstn c entries /\ (c <= length entries)%nat.
Proof.
  intros HH He H. unfold read_index_file in H. set (data := Hx' ++ firstn mx (index_bytes entries)) in *.
  rewrite run_bind in H. destruct (run read_header (src_of data)) as [[h|e|] s1] eqn:Eh; try discriminate.
  destruct (read_header_pos (src_of data) h s1 eq_refl ltac:(cbn; lia) Eh) as (P1 & P2 & P3 & P4).
  change (s_pos (src_of data)) with 0 in P1. change (s_data (src_of data)) with data in P3.
  cbv zeta in H. set (n := index_entries_declared (h_len h)) in *.
  rewrite run_bind in H. unfold reserve in H. cbn [run] in H.
  set (s2 := do_reserve (capacity_for n * 8) s1) in *.
  assert (Hc2 : clean s2) by (unfold s2, do_reserve; split; cbn; [exact P2|lia]).
  assert (Hr2 : s_rest s2 = firstn mx (index_bytes entries)).
  { unfold s2. rewrite s_rest_skipn. unfold do_reserve. cbn [s_pos s_data]. rewrite P3, P1. unfold data.
    change (Z.to_nat (0 + 100)) with 100%nat. rewrite skipn_app, skipn_all2, HH, Nat.sub_diag by lia. reflexivity. }
  assert (Hn : n = Z.of_nat (Z.to_nat n)) by (unfold n, index_entries_declared; lia).
  fold entry_prog in H.
  assert (Er : run (rep_Z n entry_prog) s2 = run (rep_nat (Z.to_nat n) entry_prog) s2) by (rewrite Hn at 1; apply rep_Z_nat).
  rewrite Er in H.
  destruct (read_entries_prefix (Z.to_nat n) entries mx s2 idx s' Hc2 Hr2 He H) as [-> Hle].
  exists (Z.to_nat n). split; [reflexivity|exact Hle].
Qed.

(** ** Files laid out in index order: the answers are a prefix of records, then errors *)
Lemma items_all_beyond K : forall rs off, K < off * 2 -> Forall (fun nr => rec_conformant (snd nr)) rs ->
  items_all K (ref_index_entries off rs) rs = map (fun _ => Err EIoEof) rs.
Proof.
  induction rs as [|[num r] rs IH]; intros off HK Hc; [reflexivity|].
  inversion Hc as [|? ? Hc1 Hc2]; subst. cbn [snd] in Hc1.
  cbn [ref_index_entries]. unfold items_all. cbn [combine map fst snd]. fold (items_all K (ref_index_entries (off + 4 + zlen (ref_content r) / 2) rs) rs).
  unfold item_at at 1. cbn [fst snd]. pose proof (zlen_nonneg (ref_record num r)).
  destruct (Z.leb_spec (off * 2 + zlen (ref_record num r)) K); [lia|]. f_equal.
  apply IH; [|exact Hc2]. pose proof (zlen_nonneg (ref_content r)). lia.
Qed.

Theorem items_all_ordered K : forall rs off, Forall (fun nr => rec_conformant (snd nr)) rs ->
  exists j, items_all K (ref_index_entries off rs) rs
            = map (fun nr => Ok (denote (snd nr))) (firstn j rs) ++ map (fun _ => Err EIoEof) (skipn j rs).
Proof.
  induction rs as [|[num r] rs IH]; intros off Hc; [exists 0%nat; reflexivity|].
  inversion Hc as [|? ? Hc1 Hc2]; subst. cbn [snd] in Hc1.
  pose proof (ref_content_even r Hc1) as Hev. pose proof (zlen_nonneg (ref_content r)) as Hnn.
  destruct (Z.le_gt_cases (off * 2 + zlen (ref_record num r)) K) as [Hin|Hout].
  - destruct (IH (off + 4 + zlen (ref_content r) / 2) Hc2) as (j & Ej). exists (S j).
    cbn [ref_index_entries]. unfold items_all. cbn [combine map fst snd firstn skipn app].
    fold (items_all K (ref_index_entries (off + 4 + zlen (ref_content r) / 2) rs) rs). rewrite Ej.
    unfold item_at. cbn [fst snd]. destruct (Z.leb_spec (off * 2 + zlen (ref_record num r)) K); [reflexivity|lia].
  - exists 0%nat. cbn [firstn skipn map app]. rewrite zlen_ref_record in Hout.
    cbn [ref_index_entries]. unfold items_all. cbn [combine map fst snd].
    fold (items_all K (ref_index_entries (off + 4 + zlen (ref_content r) / 2) rs) rs).
    rewrite items_all_beyond by (try exact Hc2; lia).
    unfold item_at. cbn [fst snd]. rewrite zlen_ref_record. destruct (Z.leb_spec (off * 2 + (8 + zlen (ref_content r))) K); [lia|reflexivity].
Qed.

Lemma firstn_ref_index_entries c : forall rs off, firstn c (ref_index_entries off rs) = ref_index_entries off (firstn c rs).
Proof.
  induction c as [|c IH]; intros rs off; [reflexivity|]. destruct rs as [|[num r] rs]; [reflexivity|].
  cbn [ref_index_entries firstn]. rewrite IH. reflexivity.
Qed.

Lemma ref_records_bytes_app a b : ref_records_bytes (a ++ b) = ref_records_bytes a ++ ref_records_bytes b.
Proof. unfold ref_records_bytes. apply flat_map_app. Qed.

(** Any 100 bytes in front, any byte-prefix of the records behind them, any
    prefix of the true index: the reader with that index fails to open or
    answers the entries with a prefix of the records followed by
    UnexpectedEof errors only. *)
Theorem crash_read_index_ordered req (H' : bytes) rs (m c fuel : nat) :
  length H' = 100%nat -> Forall (record_ok req) rs -> zlen (ref_records_bytes rs) < two31 * 4 ->
  let shp := H' ++ firstn m (ref_records_bytes rs) in
  let idx := firstn c (ref_index_entries 50 rs) in
  (exists r s', run (r_with_shx idx) (src_of shp) = (r, s') /\ forall st, r <> Ok st) \/
  (exists j st' s',
     run (st <-- r_with_shx idx ;; it_pull fuel req st) (src_of shp)
     = (Ok (firstn fuel (map (fun nr => Ok (denote (snd nr))) (firstn j (firstn c rs))
                         ++ map (fun _ => Err EIoEof) (skipn j (firstn c rs))),
            (length (firstn c rs) <? fuel)%nat, st'), s')).
Proof.
  intros HH Hok Hsmall shp idx. set (R := ref_records_bytes rs) in *.
  set (data := H' ++ R). set (K := 100 + Z.of_nat (Nat.min m (length R))).
  assert (Ecut : shp = firstn (Z.to_nat K) data).
  { unfold shp, data, K. rewrite firstn_app, HH. replace (Z.to_nat (100 + Z.of_nat (Nat.min m (length R)))) with (100 + Nat.min m (length R))%nat by lia.
    rewrite (firstn_all2 H') by (rewrite HH; lia). f_equal.
    replace (100 + Nat.min m (length R) - 100)%nat with (Nat.min m (length R)) by lia.
    destruct (Nat.le_ge_cases m (length R)) as [Hm|Hm].
    - rewrite Nat.min_l by exact Hm. reflexivity.
    - rewrite Nat.min_r by exact Hm. rewrite firstn_all. apply firstn_all2. exact Hm. }
  set (rc := firstn c rs).
  assert (Hokc : Forall (record_ok req) rc) by (unfold rc; clear -Hok; revert c; induction Hok; intros [|c]; cbn [firstn]; constructor; auto).
  assert (HI : Indexed req data (ref_index_entries 50 rc) rc).
  { split.
    - unfold data, R. rewrite <- (firstn_skipn c rs) at 1. fold rc. rewrite ref_records_bytes_app.
      apply index_addresses; [unfold zlen; rewrite HH; reflexivity|lia|exact Hokc].
    - unfold data. rewrite zlen_app. unfold zlen at 1. rewrite HH. fold R. unfold two31, two63 in *. lia. }
  unfold idx. rewrite firstn_ref_index_entries. fold rc.
  destruct (crash_read_index req data (ref_index_entries 50 rc) rc K fuel HI ltac:(unfold K; lia)) as [Hfail|(st' & s' & Hrun)].
  - left. rewrite Ecut. exact Hfail.
  - right. rewrite <- Ecut in Hrun.
    assert (Hconf : Forall (fun nr => rec_conformant (snd nr)) rc).
    { rewrite Forall_forall in *. intros nr Hin. apply (Hokc nr Hin). }
    destruct (items_all_ordered K rc 50 Hconf) as (j & Ej). rewrite Ej in Hrun.
    exists j, st', s'. rewrite Hrun. do 3 f_equal.
    rewrite app_length, !map_length, <- app_length, firstn_skipn. reflexivity.
Qed.
