(** The library's encoder emits the whitepaper layout: for every shape value,
    type code + `write_to` output = [ref_content] of the record the value
    should be stored as (Spec/Layout.v); hence the files of the writer are
    [ref_shp] / [ref_shx] of the layout of the accepted shapes (C02, C04). *)
From SF Require Import Model.Bytes Model.F64 Model.ShapeType Model.Shapes Model.Res Model.Encode
  Model.Construct Model.Writer Spec.Esri Spec.Layout.
From SF Require Import Proofs.BytesLemmas Proofs.ShapeTypeProofs Proofs.SizeProofs Proofs.WriterCore Proofs.WriterInv.
Open Scope Z_scope.

Arguments f64_enc : simpl never.
Arguments i32_le : simpl never.
Arguments i32_be : simpl never.

Lemma part_offsets_running acc lens : part_offsets acc lens = running_offsets acc lens.
Proof. revert acc; induction lens as [|l r IH]; intros acc; cbn; [reflexivity|]. rewrite IH. reflexivity. Qed.

Lemma total_points_concat parts : total_points parts = zlen (concat parts).
Proof.
  induction parts as [|p r IH]; [reflexivity|].
  rewrite total_points_cons. cbn [concat]. rewrite zlen_app, IH. reflexivity.
Qed.

Definition xy_enc2 (p : f64 * f64) : bytes := f64_enc (fst p) ++ f64_enc (snd p).

Lemma concat_xy_chunks ps : concat (xy_chunks ps) = flat_map xy_enc2 (map xy_of ps).
Proof.
  induction ps as [|p r IH]; [reflexivity|].
  unfold xy_chunks in *. cbn [flat_map map concat app]. rewrite IH.
  unfold xy_enc2, xy_of. cbn [fst snd]. rewrite <- app_assoc. reflexivity.
Qed.

Lemma concat_flat_xy parts : concat (flat_map xy_chunks parts) = flat_map xy_enc2 (map xy_of (concat parts)).
Proof.
  induction parts as [|p r IH]; [reflexivity|].
  cbn [flat_map concat]. rewrite concat_app, IH, concat_xy_chunks, map_app, flat_map_app. reflexivity.
Qed.

Lemma concat_map_f64 {A} (f : A -> f64) (l : list A) : concat (map (fun p => f64_enc (f p)) l) = f64s (map f l).
Proof. induction l as [|p r IH]; [reflexivity|]. cbn [map concat]. rewrite IH. reflexivity. Qed.

Lemma concat_flat_f64 {A} (f : A -> f64) (parts : list (list A)) :
  concat (flat_map (fun ps => map (fun p => f64_enc (f p)) ps) parts) = f64s (map f (concat parts)).
Proof.
  induction parts as [|p r IH]; [reflexivity|].
  cbn [flat_map concat]. rewrite concat_app, IH, concat_map_f64, map_app. unfold f64s. rewrite flat_map_app. reflexivity.
Qed.

Lemma concat_map_i32 l : concat (map i32_le l) = i32s l.
Proof. induction l as [|x r IH]; [reflexivity|]. cbn [map concat]. rewrite IH. reflexivity. Qed.

Lemma concat_bbox_xy b : concat (bbox_xy_chunks b) = f64s [px (bmin b); py (bmin b); px (bmax b); py (bmax b)].
Proof. unfold bbox_xy_chunks, f64s. cbn [concat flat_map]. reflexivity. Qed.

Lemma concat_z_range b : concat (z_range_chunks b) = f64s [pz (bmin b); pz (bmax b)].
Proof. reflexivity. Qed.
Lemma concat_m_range b : concat (m_range_chunks b) = f64s [pm (bmin b); pm (bmax b)].
Proof. reflexivity. Qed.

Lemma concat_tail d b parts :
  concat (multipart_tail d b parts)
  = flat_map xy_enc2 (map xy_of (concat parts))
    ++ (if has_z_dim d then f64s [pz (bmin b); pz (bmax b)] ++ f64s (map pz (concat parts)) else [])
    ++ (if has_m_dim d then f64s [pm (bmin b); pm (bmax b)] ++ f64s (map pm (concat parts)) else []).
Proof.
  unfold multipart_tail. rewrite !concat_app, concat_flat_xy. f_equal. f_equal.
  - destruct (has_z_dim d); [|reflexivity]. rewrite concat_app, concat_z_range. f_equal.
    apply (concat_flat_f64 pz).
  - destruct (has_m_dim d); [|reflexivity]. rewrite concat_app, concat_m_range. f_equal.
    apply (concat_flat_f64 pm).
Qed.

Lemma concat_head b parts :
  concat (multipart_head b parts)
  = f64s [px (bmin b); py (bmin b); px (bmax b); py (bmax b)]
    ++ i32_le (zlen parts) ++ i32_le (zlen (concat parts)) ++ i32s (running_offsets 0 (map (fun p => zlen p) parts)).
Proof.
  unfold multipart_head. rewrite !concat_app, concat_bbox_xy, concat_map_i32, part_offsets_running, total_points_concat.
  cbn [concat]. rewrite !app_nil_r. reflexivity.
Qed.

Lemma zlen_running acc lens : zlen (running_offsets acc lens) = zlen lens.
Proof. revert acc; induction lens as [|l r IH]; intros acc; [reflexivity|]. cbn [running_offsets]. rewrite !zlen_cons, IH. reflexivity. Qed.

Lemma has_dims_polyline d : st_has_z (polyline_type d) = has_z_dim d /\ layout_has_m (polyline_type d) = has_m_dim d
  /\ is_multipoint_type (polyline_type d) = false /\ st_eqb (polyline_type d) TMultipatch = false.
Proof. destruct d; repeat split; reflexivity. Qed.
Lemma has_dims_polygon d : st_has_z (polygon_type d) = has_z_dim d /\ layout_has_m (polygon_type d) = has_m_dim d
  /\ is_multipoint_type (polygon_type d) = false /\ st_eqb (polygon_type d) TMultipatch = false.
Proof. destruct d; repeat split; reflexivity. Qed.
Lemma has_dims_multipoint d : st_has_z (multipoint_type d) = has_z_dim d /\ layout_has_m (multipoint_type d) = has_m_dim d
  /\ is_multipoint_type (multipoint_type d) = true.
Proof. destruct d; repeat split; reflexivity. Qed.

Lemma multipart_is_ref t d b parts :
  st_has_z t = has_z_dim d -> layout_has_m t = has_m_dim d -> is_multipoint_type t = false -> st_eqb t TMultipatch = false ->
  concat (multipart_chunks d b parts) = ref_body_bytes t (body_of t b parts []).
Proof.
  intros Hz Hm Hp Hk. unfold multipart_chunks, ref_body_bytes, body_of.
  cbn [rb_box rb_offsets rb_kinds rb_pts rb_z rb_m]. rewrite Hz, Hm, Hp, Hk.
  rewrite concat_app, concat_head, concat_tail, zlen_running, !zlen_map.
  rewrite <- ?app_assoc. do 4 f_equal. rewrite app_nil_l. f_equal. f_equal.
  - destruct (has_z_dim d); reflexivity.
  - destruct (has_m_dim d); reflexivity.
Qed.

(** The encoder emits the whitepaper layout of [rec_of_shape s]. *)
Theorem content_is_ref (s : shape) :
  i32_le (st_code (type_of s)) ++ content_bytes s = ref_content (rec_of_shape s).
Proof.
  unfold ref_content, content_bytes. destruct s as [|d p|d b ps|d b parts|d b rings|b patches].
  - reflexivity.
  - destruct d; cbn [rec_of_shape ref_type type_of point_type ref_fields content_chunks point_chunks concat f64s flat_map];
      rewrite ?app_nil_r; reflexivity.
  - cbn [rec_of_shape ref_type type_of ref_fields content_chunks]. f_equal.
    unfold multipoint_chunks, ref_body_bytes, body_of. cbn [rb_box rb_offsets rb_kinds rb_pts rb_z rb_m].
    cbn [concat]. rewrite app_nil_r, zlen_map.
    rewrite !concat_app, concat_bbox_xy, concat_xy_chunks. cbn [concat]. rewrite app_nil_r.
    destruct d; cbn [multipoint_type has_z_dim has_m_dim]; cbv [is_multipoint_type st_has_z layout_has_m st_has_m st_eqb st_code orb Z.eqb Pos.eqb];
      rewrite ?concat_app, ?concat_z_range, ?concat_m_range, ?(concat_map_f64 pz), ?(concat_map_f64 pm);
      cbn [concat]; rewrite <- ?app_assoc; reflexivity.
  - cbn [rec_of_shape ref_type type_of ref_fields content_chunks]. f_equal.
    destruct (has_dims_polyline d) as (Hz & Hm & Hp & Hk). apply multipart_is_ref; assumption.
  - cbn [rec_of_shape ref_type type_of ref_fields content_chunks]. f_equal.
    destruct (has_dims_polygon d) as (Hz & Hm & Hp & Hk). apply multipart_is_ref; assumption.
  - cbn [rec_of_shape ref_type type_of ref_fields content_chunks]. f_equal.
    unfold ref_body_bytes, body_of. cbn [rb_box rb_offsets rb_kinds rb_pts rb_z rb_m].
    change (is_multipoint_type TMultipatch) with false. change (st_eqb TMultipatch TMultipatch) with true.
    change (st_has_z TMultipatch) with true. change (layout_has_m TMultipatch) with true. cbv iota.
    rewrite !concat_app, concat_head, (concat_tail XYZM), zlen_running, !zlen_map. cbn [has_z_dim has_m_dim].
    rewrite <- ?app_assoc. do 4 f_equal. f_equal.
    rewrite <- concat_map_i32, map_map. reflexivity.
Qed.

(** ** Records, headers, files *)
Ltac Zify.zify_post_hook ::= Z.div_mod_to_equations.

Lemma i32_be_wrap i : i32_be (wrap_i32 i) = i32_be i.
Proof.
  unfold i32_be. f_equal. unfold wrap_i32, to_i32, two31, two32.
  destruct (i mod 4294967296 <? 2147483648) eqn:E; lia.
Qed.

Lemma size_in_bytes_nonneg s : 0 <= size_in_bytes s.
Proof. rewrite <- size_in_bytes_correct. apply zlen_nonneg. Qed.

Lemma zlen_ref_content_shape s : zlen (ref_content (rec_of_shape s)) = 4 + size_in_bytes s.
Proof. rewrite <- content_is_ref, zlen_app, zlen_i32_le, size_in_bytes_correct. reflexivity. Qed.

Lemma record_words_ref s : record_words s = zlen (ref_content (rec_of_shape s)) / 2.
Proof. rewrite zlen_ref_content_shape. unfold record_words. f_equal. lia. Qed.

Lemma record_words_ge2 s : 2 <= record_words s.
Proof. unfold record_words. pose proof (size_in_bytes_nonneg s). lia. Qed.

Lemma record_is_ref i s : record_bytes (type_of s) (wrap_i32 i) s = ref_record i (rec_of_shape s).
Proof.
  unfold record_bytes, record_chunks, record_header_chunks, ref_record.
  cbn [app concat]. rewrite i32_be_wrap, <- record_words_ref, <- content_is_ref.
  unfold content_bytes. rewrite <- ?app_assoc. reflexivity.
Qed.

Lemma records_is_ref i ss : records_from i ss = ref_records_bytes (numbered i (map rec_of_shape ss)).
Proof.
  revert i; induction ss as [|s r IH]; intros i; [reflexivity|].
  cbn [records_from map numbered]. unfold ref_records_bytes in *. cbn [flat_map fst snd].
  rewrite IH, record_is_ref. reflexivity.
Qed.

Lemma header_is_ref h : h_version h = 1000 ->
  header_bytes h = ref_header (h_type h) (box8 (h_box h)) (h_len h).
Proof.
  intros Hv. unfold header_bytes, header_chunks, ref_header, box8, f64s. rewrite Hv.
  cbn [concat flat_map]. rewrite <- ?app_assoc. reflexivity.
Qed.

(** Length of the file in 16-bit words, computed without wrapping. *)
Definition file_words (ss : list shape) : Z := 50 + sum_Z (map (fun s => record_words s + 4) ss).
(** The guard of the theorems: the file length fits its i32 field. *)
Definition FileFits (ss : list shape) : Prop := file_words ss < two31.

Lemma sum_words_nonneg ss : 0 <= sum_Z (map (fun s => record_words s + 4) ss).
Proof. induction ss as [|s r IH]; cbn [map sum_Z]; [lia|]. pose proof (record_words_ge2 s). lia. Qed.

Lemma sum_words_ge ss : 6 * zlen ss <= sum_Z (map (fun s => record_words s + 4) ss).
Proof. induction ss as [|s r IH]; cbn [map sum_Z]; [change (zlen (@nil shape)) with 0; lia|]. rewrite zlen_cons. pose proof (record_words_ge2 s). lia. Qed.

Lemma wrap_i32_id z : in_i32 z -> wrap_i32 z = z.
Proof. intros H. unfold wrap_i32. apply to_i32_wrap, H. Qed.

Lemma FileFits_words ss : FileFits ss -> Forall (fun s => wrap_i32 (record_words s) = record_words s) ss.
Proof.
  unfold FileFits, file_words. induction ss as [|s r IH]; intros H; constructor.
  - cbn [map sum_Z] in H. pose proof (sum_words_nonneg r). pose proof (record_words_ge2 s).
    apply wrap_i32_id. unfold in_i32, two31 in *. lia.
  - apply IH. cbn [map sum_Z] in H. pose proof (record_words_ge2 s). lia.
Qed.

Lemma len_after_sum off ss : Forall (fun s => wrap_i32 (record_words s) = record_words s) ss ->
  len_after off ss = off + sum_Z (map (fun s => record_words s + 4) ss).
Proof.
  unfold len_after. revert off; induction ss as [|s r IH]; intros off H; cbn [fold_left map sum_Z]; [lia|].
  inversion H as [|? ? Hs Hr]; subst. rewrite IH by exact Hr. rewrite Hs. lia.
Qed.

Lemma zlen_records_from i ss : zlen (records_from i ss) = 2 * sum_Z (map (fun s => record_words s + 4) ss).
Proof.
  revert i; induction ss as [|s r IH]; intros i; cbn [records_from map sum_Z]; [reflexivity|].
  rewrite zlen_app, IH, record_is_ref. unfold ref_record. rewrite !zlen_app, !zlen_i32_be, zlen_ref_content_shape.
  unfold record_words. destruct (size_in_bytes_even s) as [k Hk]. rewrite Hk. lia.
Qed.

Definition file_type (ss : list shape) : shape_type := match ss with [] => TNull | s0 :: _ => type_of s0 end.

Lemma fold_hdr_step_version l h : h_version (fold_left hdr_step l h) = h_version h.
Proof. revert h; induction l as [|x l IH]; intros h; cbn [fold_left]; [reflexivity|]. rewrite IH. reflexivity. Qed.

Lemma hdr_after_version ss : h_version (hdr_after ss) = 1000.
Proof. unfold hdr_after. destruct ss as [|s0 r]; [reflexivity|]. rewrite fold_hdr_step_version. reflexivity. Qed.

(** The .shp left behind by the writer is the whitepaper file of the layout of
    the accepted shapes. *)
Theorem final_shp_is_ref ss : FileFits ss ->
  final_shp ss = ref_shp (layout (file_type ss) (h_box (final_hdr ss)) ss).
Proof.
  intros Hf. unfold final_shp, ref_shp, layout. cbn [rf_type rf_box rf_records].
  rewrite <- records_is_ref. f_equal.
  rewrite header_is_ref by (unfold final_hdr; cbn [set_box h_version]; apply hdr_after_version).
  unfold final_hdr. cbn [set_box h_type h_box h_len]. rewrite hdr_after_type, hdr_after_len.
  rewrite len_after_sum by (apply FileFits_words, Hf). rewrite zlen_records_from.
  f_equal. lia.
Qed.

(** The .shx. *)
Lemma index_is_ref off i ss : Forall (fun s => wrap_i32 (record_words s) = record_words s) ss ->
  index_from off ss
  = flat_map (fun e => i32_be (fst e) ++ i32_be (snd e)) (ref_index_entries off (numbered i (map rec_of_shape ss))).
Proof.
  revert off i; induction ss as [|s r IH]; intros off i H; [reflexivity|].
  inversion H as [|? ? Hs Hr]; subst.
  cbn [index_from map numbered ref_index_entries flat_map fst snd]. rewrite Hs, <- record_words_ref.
  unfold index_entry_chunks. cbn [concat]. rewrite app_nil_r. f_equal.
  rewrite (IH _ (i + 1) Hr). do 2 f_equal. lia.
Qed.

Lemma zlen_ref_index_entries off rs : zlen (ref_index_entries off rs) = zlen rs.
Proof.
  revert off; induction rs as [|[n r] rest IH]; intros off; [reflexivity|].
  cbn [ref_index_entries]. rewrite !zlen_cons, IH. reflexivity.
Qed.

Lemma zlen_numbered i rs : zlen (numbered i rs) = zlen rs.
Proof. revert i; induction rs as [|r rest IH]; intros i; [reflexivity|]. cbn [numbered]. rewrite !zlen_cons, IH. reflexivity. Qed.

Theorem final_shx_is_ref ss : FileFits ss ->
  final_shx ss = ref_shx (layout (file_type ss) (h_box (final_hdr ss)) ss).
Proof.
  intros Hf. unfold final_shx, ref_shx, ref_shx_of, layout. cbn [rf_type rf_box rf_records].
  rewrite (index_is_ref 50 1) by (apply FileFits_words, Hf). f_equal.
  rewrite header_is_ref by (unfold final_shx_hdr, final_hdr; cbn [set_len set_box h_version]; apply hdr_after_version).
  unfold final_shx_hdr, final_hdr. cbn [set_len set_box h_type h_box h_len]. rewrite hdr_after_type.
  f_equal. rewrite zlen_ref_index_entries, zlen_numbered, zlen_map.
  assert (Hn : wrap_i32 (zlen ss) = zlen ss).
  { apply wrap_i32_id. unfold FileFits, file_words in Hf. pose proof (sum_words_ge ss). pose proof (zlen_nonneg ss).
    unfold in_i32, two31 in *. lia. }
  rewrite Hn. pose proof (zlen_nonneg ss). rewrite Z.quot_div_nonneg by lia. lia.
Qed.
