(** C11, last clause: everything written before the last finalize that
    completed on the .shp remains readable from it.

    Once a finalize has completed with the shapes ss0 (not empty), every later
    crash state of the .shp — any byte-level prefix of the later operations —
    is H' ++ (a byte-prefix of the record stream that contains all records of
    ss0), where H' is the header of one later finalize torn over the header of
    the finalize before it ([mixb]), both of them final headers of lists that
    extend ss0. *)
From SF Require Import Model.Bytes Model.F64 Model.ShapeType Model.Shapes Model.Res Model.Encode
  Model.Construct Model.Writer.
From SF Require Import Proofs.BytesLemmas Proofs.ShapeTypeProofs Proofs.SizeProofs Proofs.WriterCore Proofs.WriterInv
  Proofs.WriterFaults Proofs.CrashStates Proofs.HeaderMix.
Open Scope Z_scope.

Definition lpre {A} (a b : list A) : Prop := exists x, b = a ++ x.

Lemma lpre_refl {A} (a : list A) : lpre a a.
Proof. exists []. symmetry. apply app_nil_r. Qed.

Lemma lpre_trans {A} (a b c : list A) : lpre a b -> lpre b c -> lpre a c.
Proof. intros [x ->] [y ->]. exists (x ++ y). symmetry. apply app_assoc. Qed.

Lemma lpre_app {A} (a b x : list A) : lpre a b -> lpre a (b ++ x).
Proof. intros [y ->]. exists (y ++ x). symmetry. apply app_assoc. Qed.

Lemma records_lpre_len ssA ss : lpre ssA ss -> (length (records_from 1 ssA) <= length (records_from 1 ss))%nat.
Proof. intros [x ->]. rewrite records_from_app, app_length. lia. Qed.

(** ** The form of a crash buffer after a commit of ss0 *)
Definition committed_form (ss0 ss : list shape) (buf : bytes) : Prop :=
  exists i ssA ssB m,
    buf = mixb i (header_bytes (final_hdr ssB)) (header_bytes (final_hdr ssA)) ++ firstn m (records_from 1 ss) /\
    lpre ss0 ssA /\ lpre ssA ssB /\ lpre ssB ss /\ (length (records_from 1 ssB) <= m)%nat.

Lemma committed_form_mono ss0 ss x buf : committed_form ss0 ss buf -> committed_form ss0 (ss ++ x) buf.
Proof.
  intros (i & ssA & ssB & m & E & P1 & P2 & P3 & Hm). set (R := records_from 1 ss) in *.
  pose proof (records_lpre_len ssB ss P3) as HB. fold R in HB.
  exists i, ssA, ssB, (Nat.min m (length R)). rewrite records_from_app. fold R.
  split; [|split; [exact P1|split; [exact P2|split; [apply lpre_app; exact P3|lia]]]].
  rewrite E. f_equal. rewrite firstn_app_le by lia.
  destruct (Nat.le_ge_cases m (length R)) as [H|H].
  - rewrite Nat.min_l by exact H. reflexivity.
  - rewrite Nat.min_r by exact H. rewrite firstn_all. apply firstn_all2. exact H.
Qed.

(** ** The invariant *)
Definition CommitInv (tc : list wop) (w : world) (ss0 ss : list shape) : Prop :=
  exists ssL,
    is_prefix tc (explode (trace (w_shp w))) /\ lpre ss0 ssL /\ lpre ssL ss /\
    fst (bp_of (w_shp w)) = header_bytes (final_hdr ssL) ++ records_from 1 ss /\
    forall p, is_prefix p (explode (trace (w_shp w))) -> is_prefix tc p ->
              committed_form ss0 ss (fst (bp_ops p ([], 0%nat))).

Lemma is_prefix_refl {A} (l : list A) : is_prefix l l.
Proof. induction l; constructor; assumption. Qed.

Lemma is_prefix_trans {A} (a b c : list A) : is_prefix a b -> is_prefix b c -> is_prefix a c.
Proof.
  intros H; revert c; induction H as [l|x p l H IH]; intros c Hc; [constructor|].
  inversion Hc; subst. constructor. apply IH. assumption.
Qed.

Lemma is_prefix_app_r {A} (p a b : list A) : is_prefix p a -> is_prefix p (a ++ b).
Proof. intros H. eapply is_prefix_trans; [exact H|apply is_prefix_app]. Qed.

Lemma is_prefix_antisym_len {A} (a b : list A) : is_prefix a b -> is_prefix b a -> a = b.
Proof.
  intros H; induction H as [l|x p l H IH]; intros Hb.
  - inversion Hb; reflexivity.
  - inversion Hb; subst. f_equal. apply IH. assumption.
Qed.

(** prefixes of a ++ b that extend a *)
Lemma is_prefix_extends {A} (a b p : list A) : is_prefix p (a ++ b) -> is_prefix a p -> exists q, p = a ++ q /\ is_prefix q b.
Proof.
  revert p; induction a as [|x a IH]; intros p Hp Ha; cbn [app] in *.
  - exists p. split; [reflexivity|exact Hp].
  - inversion Ha as [|y a' p' Ha']; subst. inversion Hp as [|z p'' l Hp']; subst.
    destruct (IH p' Hp' Ha') as (q & -> & Hq). exists q. split; [reflexivity|exact Hq].
Qed.

Lemma commit_step tc w w' O ss0 ss ss' ssL' :
  CommitInv tc w ss0 ss -> CrashInv w (records_from 1 ss) ->
  trace (w_shp w') = trace (w_shp w) ++ O ->
  lpre ss0 ssL' -> lpre ssL' ss' ->
  fst (bp_of (w_shp w')) = header_bytes (final_hdr ssL') ++ records_from 1 ss' ->
  (forall buf, committed_form ss0 ss buf -> committed_form ss0 ss' buf) ->
  (forall q, is_prefix q (explode O) -> committed_form ss0 ss' (fst (bp_ops q (bp_of (w_shp w))))) ->
  CommitInv tc w' ss0 ss'.
Proof.
  intros (ssL & Htc & P1 & P2 & Hbuf & Hall) [Hfull _] Ht Q1 Q2 Hbuf' Hmono Hq.
  exists ssL'. rewrite Ht, explode_app.
  split; [apply is_prefix_app_r; exact Htc|]. split; [exact Q1|]. split; [exact Q2|]. split; [exact Hbuf'|].
  intros p Hp Hext. destruct (is_prefix_app_cases p _ _ Hp) as [Hp1|(q & -> & Hq1)].
  - apply Hmono, Hall; assumption.
  - rewrite bp_ops_app, Hfull. apply Hq, Hq1.
Qed.

(** ** Establishing it: a finalize completes *)
Lemma commit_established hs st w ss : WInv hs st w ss -> ws_dirty st = false -> CrashInv w (records_from 1 ss) ->
  CommitInv (explode (trace (w_shp w))) w ss ss.
Proof.
  intros Inv Hd [Hfull _]. destruct Inv as [_ _ _ _ (Hp & [Hb _] & _ & Hdp) _ _]. destruct (Hdp Hd) as [-> _].
  exists ss. split; [apply is_prefix_refl|]. split; [apply lpre_refl|]. split; [apply lpre_refl|].
  split; [exact Hb|]. intros p Hp1 Hp2. rewrite (is_prefix_antisym_len _ _ Hp1 Hp2), Hfull, Hb.
  exists 0%nat, ss, ss, (length (records_from 1 ss)). rewrite mixb_0, firstn_all.
  split; [reflexivity|]. split; [apply lpre_refl|]. split; [apply lpre_refl|]. split; [apply lpre_refl|apply Nat.le_refl].
Qed.

(** ** Preservation: finalize *)
Lemma write_at_mix hn ho R i : length hn = 100%nat -> length ho = 100%nat ->
  write_at (ho ++ R) 0 (firstn i hn) = mixb i hn ho ++ R.
Proof.
  intros Ln Lo. rewrite write_at_0. unfold mixb. rewrite <- app_assoc. f_equal.
  rewrite firstn_length, Ln. destruct (Nat.le_ge_cases i 100) as [Hi|Hi].
  - rewrite Nat.min_l by exact Hi. rewrite skipn_app. replace (i - length ho)%nat with 0%nat by lia. reflexivity.
  - rewrite Nat.min_r by exact Hi. rewrite skipn_app, Lo, Nat.sub_diag.
    rewrite (skipn_all2 ho) by lia. rewrite (skipn_all2 (n := i) ho) by lia. reflexivity.
Qed.

Lemma crash_header_mix hn ho R p pos : length hn = 100%nat -> length ho = 100%nat ->
  is_prefix p (WSeekStart 0 :: singles hn ++ [WSeekEnd; WFlush]) ->
  exists i, fst (bp_ops p (ho ++ R, pos)) = mixb i hn ho ++ R.
Proof.
  intros Ln Lo Hq. inversion Hq as [|o q' l Hq']; subst.
  - exists 0%nat. reflexivity.
  - change (bp_ops (WSeekStart 0 :: q') (ho ++ R, pos)) with (bp_ops q' (ho ++ R, 0%nat)).
    destruct (is_prefix_app_cases q' _ _ Hq') as [Hh'|(q2 & -> & Hq2)].
    + destruct (is_prefix_singles q' hn Hh') as (i & ->). rewrite bp_singles by lia. cbn [fst].
      exists i. apply write_at_mix; assumption.
    + rewrite bp_ops_app, bp_singles by lia. rewrite (tail_end_flush q2 _ Hq2). cbn [fst].
      exists 100%nat. rewrite <- (firstn_all hn) at 1. rewrite Ln. apply write_at_mix; assumption.
Qed.

Lemma finalize_commit tc hs st w ss0 ss : WInv hs st w ss -> CrashInv w (records_from 1 ss) -> CommitInv tc w ss0 ss ->
  CommitInv tc (snd (w_finalize st w)) ss0 ss.
Proof.
  intros Inv HC HI. unfold w_finalize. destruct (ws_dirty st) eqn:Hd; cbn [negb]; [|exact HI].
  pose proof Inv as [Hwf Hh Hr Hhs (Hp & [Hbp Hpp] & Hsp & _) _ _].
  pose proof (run_ops_log (finalize_ops st) w Hwf (finalize_ops_wf st)) as Hlog.
  destruct (run_ops_ok (finalize_ops st) w Hwf (finalize_ops_wf st)) as (w' & R & _ & B1 & _). rewrite R in *. cbn [snd] in *.
  rewrite (finalize_ops_shp st hs Hhs), (final_header_inv st ss Hh) in Hlog, B1.
  pose proof HI as (ssL & Htc & P1 & P2 & Hbuf & Hall).
  assert (Hfin : fst (bp_of (w_shp w')) = header_bytes (final_hdr ss) ++ records_from 1 ss).
  { rewrite B1. pose proof (bp_finalize_any (header_bytes (final_hdr ssL)) (records_from 1 ss) (bp_of (w_shp w)) (final_hdr ss) Hbuf
                              (or_intror (header_bytes_len _))) as [Hf _]. exact Hf. }
  eapply (commit_step tc w w' _ ss0 ss ss ss HI HC Hlog (lpre_trans _ _ _ P1 P2) (lpre_refl _) Hfin (fun b H => H)).
  intros q Hq. unfold fin_ops in Hq. cbn [explode] in Hq. rewrite explode_app, explode_writes in Hq.
  fold (header_bytes (final_hdr ss)) in Hq. cbn [explode] in Hq.
  destruct (bp_of (w_shp w)) as [buf pos]. cbn [fst snd] in *. clear Hbp. subst buf.
  set (hn := header_bytes (final_hdr ss)) in *. set (ho := header_bytes (final_hdr ssL)) in *.
  assert (Ln : length hn = 100%nat) by apply header_bytes_len. assert (Lo : length ho = 100%nat) by apply header_bytes_len.
  assert (Form : forall i, committed_form ss0 ss (mixb i hn ho ++ records_from 1 ss)).
  { intros i. exists i, ssL, ss, (length (records_from 1 ss)). rewrite firstn_all.
    split; [reflexivity|]. split; [exact P1|]. split; [exact P2|]. split; [apply lpre_refl|apply Nat.le_refl]. }
  change (map (fun b : Z => WriteAll [b]) hn) with (singles hn) in Hq.
  destruct (crash_header_mix hn ho (records_from 1 ss) q pos Ln Lo Hq) as (i & Ei). pose proof (Form i) as G. rewrite <- Ei in G. exact G.
Qed.

(** ** Preservation: write_shape *)
Lemma write_commit tc hs st w ss0 ss s :
  WInv hs st w ss -> type_of s <> TNull -> Forall (fun x => type_of x <> TNull) ss -> ss0 <> [] ->
  CrashInv w (records_from 1 ss) -> CommitInv tc w ss0 ss ->
  CommitInv tc (snd (w_write_shape st w s)) ss0 (if accepts_type ss s then ss ++ [s] else ss).
Proof.
  intros Inv Hs Hss Hne0 HC HI. destruct (accepts_type ss s) eqn:Ha.
  2:{ destruct ss as [|s0 ss']; [discriminate|]. cbn [accepts_type] in Ha.
      rewrite (write_rejected hs st w ss' s0 s Inv (Forall_inv Hss) Ha). exact HI. }
  pose proof HI as (ssL & Htc & P1 & P2 & Hbuf & Hall).
  destruct ss as [|s0 ss'].
  { (* something was committed, so ss is not empty *)
    exfalso. destruct P1 as [x ->]. destruct P2 as [y E]. destruct ss0; [apply Hne0; reflexivity|discriminate]. }
  pose proof Inv as [Hwf Hh Hr Hhs (Hp & [Hbp Hpp] & Hsp & _) _ Hint].
  unfold w_write_shape, write_shape_plan. rewrite Hh, hdr_after_type, Hhs, Hint. cbn [app].
  cbn [accepts_type] in Ha. pose proof (Forall_inv Hss) as Hs0. cbn beta in Hs0.
  replace (st_eqb (type_of s0) TNull) with false
    by (symmetry; destruct (st_eqb (type_of s0) TNull) eqn:E; [apply st_eqb_eq in E; contradiction|reflexivity]).
  rewrite Ha. cbn [negb andb app]. apply st_eqb_eq in Ha.
  match goal with |- context [run_ops ?o w] => set (ops := o) end.
  assert (Hopswf : Forall (fun o => op_wf (snd o)) ops) by (unfold ops; destruct hs; wf_ops).
  pose proof (run_ops_log ops w Hwf Hopswf) as Hlog.
  destruct (run_ops_ok ops w Hwf Hopswf) as (w' & R & _ & B1 & _). rewrite R in *. cbn [snd] in *.
  assert (Es : ops_of Shp ops = map WriteAll (record_chunks (type_of s) (wrap_i32 (1 + zlen (s0 :: ss'))) s)).
  { unfold ops. rewrite Hh, hdr_after_type, Hr, Ha. destruct hs; ops_norm; reflexivity. }
  rewrite Es in Hlog, B1.
  set (ss := s0 :: ss') in *. set (ho := header_bytes (final_hdr ssL)) in *.
  assert (Lo : length ho = 100%nat) by apply header_bytes_len.
  assert (Hpos : snd (bp_of (w_shp w)) = length (ho ++ records_from 1 ss)) by (rewrite Hpp, Hbuf; reflexivity).
  assert (Hfin : fst (bp_of (w_shp w')) = ho ++ records_from 1 (ss ++ [s])).
  { rewrite B1. destruct (bp_of (w_shp w)) as [buf pos]. cbn [fst snd] in *. subst buf pos.
    rewrite bp_write_chunks by apply Nat.le_refl. cbn [fst]. rewrite write_at_end, records_from_app, records_from_single, <- app_assoc. reflexivity. }
  eapply (commit_step tc w w' _ ss0 ss (ss ++ [s]) ssL HI HC Hlog P1 (lpre_app _ _ _ P2) Hfin (fun b H => committed_form_mono ss0 ss [s] b H)).
  intros q Hq. rewrite explode_writes in Hq. destruct (is_prefix_singles q _ Hq) as (i & ->).
  destruct (bp_of (w_shp w)) as [buf pos]. cbn [fst snd] in *. subst buf pos.
  rewrite bp_singles by apply Nat.le_refl. cbn [fst]. rewrite write_at_end.
  set (rb := concat (record_chunks (type_of s) (wrap_i32 (1 + zlen ss)) s)).
  exists 0%nat, ssL, ssL, (length (records_from 1 ss) + length (firstn i rb))%nat. rewrite mixb_0.
  split; [|split; [exact P1|split; [apply lpre_refl|split; [apply lpre_app; exact P2|]]]].
  - rewrite <- app_assoc. f_equal. rewrite records_from_app, records_from_single. fold rb.
    rewrite firstn_app_2, firstn_len_firstn. reflexivity.
  - pose proof (records_lpre_len ssL ss P2). lia.
Qed.
