(** Destinations without faults: the effect of operation lists on buffer and
    position, and the buffer lemmas (append, overwrite of the header). *)
From SF Require Import Model.Bytes Model.F64 Model.ShapeType Model.Shapes Model.Res Model.Encode
  Model.Construct Model.Writer.
From SF Require Import Proofs.BytesLemmas Proofs.SizeProofs.
Open Scope Z_scope.

(** ** write_at *)
Lemma write_at_inside buf p bs : (p <= length buf)%nat ->
  write_at buf p bs = firstn p buf ++ bs ++ skipn (p + length bs) buf.
Proof.
  intros H. unfold write_at. destruct (Nat.ltb_spec (length buf) p); [lia|reflexivity].
Qed.

Lemma write_at_end buf bs : write_at buf (length buf) bs = buf ++ bs.
Proof.
  rewrite write_at_inside by lia. rewrite firstn_all, skipn_all2 by lia. rewrite app_nil_r. reflexivity.
Qed.

Lemma write_at_prefix H R bs : length bs = length H -> write_at (H ++ R) 0 bs = bs ++ R.
Proof.
  intros E. rewrite write_at_inside by lia. cbn [firstn app Nat.add].
  rewrite E, skipn_app, skipn_all, Nat.sub_diag. reflexivity.
Qed.

Lemma write_at_app buf p a b : (p <= length buf)%nat ->
  write_at (write_at buf p a) (p + length a) b = write_at buf p (a ++ b).
Proof.
  intros H. rewrite (write_at_inside buf p a H).
  assert (Hl : length (firstn p buf) = p) by (rewrite firstn_length; lia).
  rewrite write_at_inside by (rewrite !app_length, Hl; lia).
  rewrite (write_at_inside buf p (a ++ b) H).
  rewrite firstn_app, Hl. replace (p + length a - p)%nat with (length a) by lia.
  rewrite firstn_app, firstn_all.
  rewrite (firstn_all2 (firstn p buf)) by lia.
  replace (length a - length a)%nat with 0%nat by lia. cbn [firstn]. rewrite app_nil_r.
  rewrite <- !app_assoc. f_equal. f_equal.
  rewrite skipn_app, Hl. rewrite (skipn_all2 (firstn p buf)) by lia. cbn [app].
  replace (p + length a + length b - p)%nat with (length a + length b)%nat by lia.
  rewrite skipn_app. rewrite (skipn_all2 a) by lia. cbn [app].
  replace (length a + length b - length a)%nat with (length b) by lia.
  rewrite skipn_skipn_. rewrite app_length. f_equal. f_equal. lia.
Qed.

Lemma write_at_length buf p bs : (p <= length buf)%nat ->
  length (write_at buf p bs) = Nat.max (length buf) (p + length bs).
Proof.
  intros H. rewrite write_at_inside by exact H. rewrite !app_length, firstn_length, skipn_length. lia.
Qed.

(** ** Buffer/position effect of operations *)
Definition bp := (bytes * nat)%type.

Definition bp_op (op : wop) (x : bp) : bp :=
  let '(buf, pos) := x in
  match op with
  | WriteAll bs => (write_at buf pos bs, (pos + length bs)%nat)
  | WSeekStart p => (buf, Z.to_nat p)
  | WSeekEnd => (buf, length buf)
  | WFlush => (buf, pos)
  end.

Definition bp_ops (ops : list wop) (x : bp) : bp := fold_left (fun x op => bp_op op x) ops x.

Definition bp_of (d : wdev) : bp := (d_buf d, Z.to_nat (d_pos d)).

Definition last_is_flush (ops : list wop) (before : bool) : bool :=
  match rev ops with [] => before | WFlush :: _ => true | _ => false end.

(** Operations sent to one destination. *)
Fixpoint ops_of (t : dest) (ops : list (dest * wop)) : list wop :=
  match ops with
  | [] => []
  | (t', op) :: r => if dest_eqb t t' then op :: ops_of t r else ops_of t r
  end.

Definition no_fault (w : world) : Prop := d_fault (w_shp w) = None /\ d_fault (w_shx w) = None.

Definition dev_wf (d : wdev) : Prop := d_fault d = None /\ 0 <= d_pos d.

Definition op_wf (op : wop) : Prop := match op with WSeekStart p => 0 <= p | _ => True end.

Lemma apply_op_ok op d : dev_wf d -> op_wf op ->
  exists d', apply_op op d = (Ok tt, d') /\ dev_wf d' /\ bp_of d' = bp_op op (bp_of d)
             /\ d_flushed d' = match op with WFlush => true | _ => false end.
Proof.
  intros [Hf Hp] Hop. unfold apply_op, dev_faulty. rewrite Hf. unfold bp_of.
  destruct op as [bs|p| |]; eexists; (split; [reflexivity|]); unfold dev_wf; cbn [d_fault d_pos d_buf d_flushed bp_op].
  - repeat split; auto.
    + pose proof (zlen_nonneg bs); lia.
    + f_equal. unfold zlen. rewrite Z2Nat.inj_add by lia. rewrite Nat2Z.id. reflexivity.
  - cbn in Hop. repeat split; auto.
  - repeat split; auto.
    + apply zlen_nonneg.
    + f_equal. unfold zlen. apply Nat2Z.id.
  - repeat split; auto.
Qed.

(** Running a list of operations in a fault-free world: each destination
    sees exactly its own operations, all succeed. *)
Definition world_wf (w : world) : Prop := dev_wf (w_shp w) /\ dev_wf (w_shx w).

Lemma bp_ops_app a b x : bp_ops (a ++ b) x = bp_ops b (bp_ops a x).
Proof. unfold bp_ops. apply fold_left_app. Qed.

Lemma run_ops_ok : forall ops w, world_wf w -> Forall (fun o => op_wf (snd o)) ops ->
  exists w', run_ops ops w = (Ok tt, w') /\ world_wf w'
    /\ bp_of (w_shp w') = bp_ops (ops_of Shp ops) (bp_of (w_shp w))
    /\ bp_of (w_shx w') = bp_ops (ops_of Shx ops) (bp_of (w_shx w))
    /\ d_flushed (w_shp w') = last_is_flush (ops_of Shp ops) (d_flushed (w_shp w))
    /\ d_flushed (w_shx w') = last_is_flush (ops_of Shx ops) (d_flushed (w_shx w)).
Proof.
  induction ops as [|[t op] ops IH]; intros w Hw Hops.
  - exists w. cbn. repeat split; apply Hw.
  - inversion Hops as [|? ? Hop Hops']; subst. cbn [snd] in Hop. cbn [run_ops].
    destruct Hw as [Hs Hx].
    destruct t; cbn [get_dev].
    + destruct (apply_op_ok op (w_shp w) Hs Hop) as (d' & E & Hd' & Hbp & Hfl). rewrite E.
      destruct (IH (set_dev w Shp d')) as (w' & R & Hw' & B1 & B2 & F1 & F2); [split; assumption|assumption|].
      exists w'. rewrite R. cbn [set_dev w_shp w_shx] in *. repeat split; try apply Hw'.
      * rewrite B1, Hbp. cbn [ops_of dest_eqb]. reflexivity.
      * rewrite B2. cbn [ops_of dest_eqb]. reflexivity.
      * rewrite F1, Hfl. cbn [ops_of dest_eqb]. unfold last_is_flush. cbn [rev].
        destruct (rev (ops_of Shp ops)) as [|o r] eqn:Er; cbn [app]; [destruct op; reflexivity|reflexivity].
      * rewrite F2. reflexivity.
    + destruct (apply_op_ok op (w_shx w) Hx Hop) as (d' & E & Hd' & Hbp & Hfl). rewrite E.
      destruct (IH (set_dev w Shx d')) as (w' & R & Hw' & B1 & B2 & F1 & F2); [split; assumption|assumption|].
      exists w'. rewrite R. cbn [set_dev w_shp w_shx] in *. repeat split; try apply Hw'.
      * rewrite B1. cbn [ops_of dest_eqb]. reflexivity.
      * rewrite B2, Hbp. cbn [ops_of dest_eqb]. reflexivity.
      * rewrite F1. reflexivity.
      * rewrite F2, Hfl. cbn [ops_of dest_eqb]. unfold last_is_flush. cbn [rev].
        destruct (rev (ops_of Shx ops)) as [|o r] eqn:Er; cbn [app]; [destruct op; reflexivity|reflexivity].
Qed.

(** ** Effect of chunk lists *)
Lemma ops_of_on_same t cs : ops_of t (on t cs) = map WriteAll cs.
Proof. unfold on. induction cs as [|c cs IH]; cbn [map ops_of]; [reflexivity|]. destruct t; cbn [dest_eqb]; rewrite IH; reflexivity. Qed.

Lemma ops_of_on_other t t' cs : dest_eqb t t' = false -> ops_of t (on t' cs) = [].
Proof. intros H. unfold on. induction cs as [|c cs IH]; cbn [map ops_of]; [reflexivity|]. rewrite H. exact IH. Qed.

Lemma ops_of_app t a b : ops_of t (a ++ b) = ops_of t a ++ ops_of t b.
Proof.
  induction a as [|[t' op] a IH]; cbn [app ops_of]; [reflexivity|]. destruct (dest_eqb t t'); cbn [app]; rewrite IH; reflexivity.
Qed.

Lemma bp_write_chunks cs buf pos : (pos <= length buf)%nat ->
  bp_ops (map WriteAll cs) (buf, pos) = (write_at buf pos (concat cs), (pos + length (concat cs))%nat).
Proof.
  revert buf pos; induction cs as [|c cs IH]; intros buf pos H; cbn [map concat].
  - unfold bp_ops; cbn [fold_left]. rewrite write_at_inside by exact H. cbn [app length].
    rewrite Nat.add_0_r, firstn_skipn. reflexivity.
  - unfold bp_ops in *; cbn [fold_left bp_op]. rewrite IH.
    + rewrite write_at_app by exact H. rewrite app_length. f_equal. lia.
    + rewrite write_at_length by exact H. lia.
Qed.

Lemma Forall_on_wf t cs : Forall (fun o => op_wf (snd o)) (on t cs).
Proof. unfold on. induction cs; cbn [map]; constructor; cbn; auto. Qed.
