(** C19: the code table, for every integer (no enumeration of the 2^32 values:
    case analysis over [Z]). *)
From SF Require Import Model.Bytes Model.ShapeType.
From Coq Require Import String.
Open Scope Z_scope.

Lemma st_decode_code t : st_decode (st_code t) = Some t.
Proof. destruct t; reflexivity. Qed.

Lemma st_decode_some c t : st_decode c = Some t -> st_code t = c.
Proof.
  unfold st_decode.
  repeat match goal with
  | |- context [?a =? ?b] => destruct (Z.eqb_spec a b) as [->|_]
  end; intros H; try discriminate; inversion H; subst; reflexivity.
Qed.

Lemma st_decode_iff c t : st_decode c = Some t <-> st_code t = c.
Proof. split; [apply st_decode_some|]. intros <-; apply st_decode_code. Qed.

Lemma st_code_injective a b : st_code a = st_code b -> a = b.
Proof.
  intros H. pose proof (st_decode_code a) as Ha. rewrite H, st_decode_code in Ha.
  inversion Ha; reflexivity.
Qed.

Lemma st_code_in_table t : In (st_code t) esri_codes.
Proof. destruct t; cbn; tauto. Qed.

Lemma st_decode_none c : ~ In c esri_codes -> st_decode c = None.
Proof.
  intros H. destruct (st_decode c) as [t|] eqn:E; [|reflexivity].
  apply st_decode_some in E. subst c. exfalso; apply H, st_code_in_table.
Qed.

Lemma st_decode_in_table c t : st_decode c = Some t -> In c esri_codes.
Proof. intros H; apply st_decode_some in H; subst; apply st_code_in_table. Qed.

Lemma in_table_decodes c : In c esri_codes -> exists t, st_decode c = Some t.
Proof.
  cbn. intros H.
  repeat match goal with
  | H : _ \/ _ |- _ => destruct H as [<-|H]
  | H : False |- _ => destruct H
  end; eexists; reflexivity.
Qed.

(** Row of the ESRI table a type maps to. *)
Definition row_of (t : shape_type) : Z * (bool * (bool * (bool * string))) :=
  (st_code t, (st_has_z t, (st_has_m t, (st_is_multipart t, st_name t)))).

Lemma rows_are_the_table : map row_of all_types = esri_table.
Proof. reflexivity. Qed.

Lemma all_types_complete t : In t all_types.
Proof. destruct t; cbn; tauto. Qed.

Lemma row_in_table t : In (row_of t) esri_table.
Proof. rewrite <- rows_are_the_table. apply in_map, all_types_complete. Qed.

Lemma st_eqb_eq a b : st_eqb a b = true <-> a = b.
Proof.
  unfold st_eqb. rewrite Z.eqb_eq. split; [apply st_code_injective|intros ->; reflexivity].
Qed.

Lemma st_eqb_refl a : st_eqb a a = true.
Proof. apply st_eqb_eq; reflexivity. Qed.
