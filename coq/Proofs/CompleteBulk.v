(** The complete writer's bulk helper `write_shapes_and_records(self, pairs)` is
    the single calls `write_shape_and_record` on the pairs, in order, up to and
    including the first that fails: it returns that call's result and leaves
    the writer, the table and the destinations as those calls leave them. *)
From SF Require Import Model.Bytes Model.F64 Model.ShapeType Model.Shapes Model.Res Model.Encode
  Model.Construct Model.Writer Model.Prog Model.Decode Model.Reader Model.Complete.
Open Scope Z_scope.

Fixpoint cbulk_offered (cs : list (shape * rowk * Z)) (st : cwstate) (w : world) : nat :=
  match cs with
  | [] => O
  | (s, k, id) :: r =>
      let '(res, st', w') := cw_write st w s k id in
      match res with Ok _ => S (cbulk_offered r st' w') | _ => 1%nat end
  end.

Lemma cbulk_offered_pos c r st w : (1 <= cbulk_offered (c :: r) st w)%nat.
Proof. destruct c as [[s k] id]. cbn [cbulk_offered]. destruct (cw_write st w s k id) as [[res st'] w']. destruct res; lia. Qed.

Theorem cw_bulk_is_calls cs : forall st w,
  let '(rs, st1, w1) := cw_calls (firstn (cbulk_offered cs st w) cs) st w in
  cw_bulk cs st w = (last rs (Ok tt), st1, w1) /\
  length rs = cbulk_offered cs st w /\
  Forall (fun r => r = Ok tt) (removelast rs) /\
  ((cbulk_offered cs st w < length cs)%nat -> last rs (Ok tt) <> Ok tt).
Proof.
  induction cs as [|[[s k] id] r IH]; intros st w.
  - cbn. split; [reflexivity|split; [reflexivity|split; [constructor|lia]]].
  - cbn [cbulk_offered cw_bulk]. destruct (cw_write st w s k id) as [[res st'] w'] eqn:E. destruct res as [[]|e|].
    + cbn [firstn cw_calls]. rewrite E. specialize (IH st' w').
      destruct (cw_calls (firstn (cbulk_offered r st' w') r) st' w') as [[rs st1] w1].
      destruct IH as (H1 & Hlen & H2 & H3). cbn [length]. split; [|split; [|split]].
      * rewrite H1. destruct rs; reflexivity.
      * rewrite Hlen. reflexivity.
      * destruct rs as [|x rs]; [constructor|]. cbn [removelast]. constructor; [reflexivity|exact H2].
      * intros Hlt. destruct rs as [|x rs]; [|apply H3; lia].
        exfalso. cbn [length] in Hlen. destruct r as [|c2 r2]; [cbn in Hlt; lia|].
        pose proof (cbulk_offered_pos c2 r2 st' w'). lia.
    + cbn [firstn cw_calls]. rewrite E. cbn. split; [reflexivity|split; [reflexivity|split; [constructor|discriminate]]].
    + cbn [firstn cw_calls]. rewrite E. cbn. split; [reflexivity|split; [reflexivity|split; [constructor|discriminate]]].
Qed.
