(** L3: the invariant of the writer state machine, for every history of
    write_shape / finalize calls on fault-free destinations.  The files left
    behind are a function of the accepted shapes only. *)
From SF Require Import Model.Bytes Model.F64 Model.ShapeType Model.Shapes Model.Res Model.Encode
  Model.Construct Model.Writer.
From SF Require Import Proofs.BytesLemmas Proofs.ShapeTypeProofs Proofs.SizeProofs Proofs.WriterCore.
Open Scope Z_scope.

(** ** What the files must contain after the accepted shapes [ss] *)
Definition accepts_type (ss : list shape) (s : shape) : bool :=
  match ss with [] => true | s0 :: _ => st_eqb (type_of s0) (type_of s) end.

Definition hdr_step (h : header) (s : shape) : header :=
  set_box (set_len h (h_len h + (wrap_i32 (record_words s) + 4))) (grow_from_shape (h_box h) s).

Definition hdr_after (ss : list shape) : header :=
  match ss with
  | [] => header_default
  | s0 :: _ => fold_left hdr_step ss (set_type_box header_default (type_of s0) sentinel_box)
  end.

Fixpoint records_from (i : Z) (ss : list shape) : bytes :=
  match ss with
  | [] => []
  | s :: r => record_bytes (type_of s) (wrap_i32 i) s ++ records_from (i + 1) r
  end.

Fixpoint index_from (off : Z) (ss : list shape) : bytes :=
  match ss with
  | [] => []
  | s :: r => concat (index_entry_chunks off (wrap_i32 (record_words s)))
              ++ index_from (off + (wrap_i32 (record_words s) + 4)) r
  end.

Definition len_after (off : Z) (ss : list shape) : Z :=
  fold_left (fun o s => o + (wrap_i32 (record_words s) + 4)) ss off.

Lemma records_from_app i a b : records_from i (a ++ b) = records_from i a ++ records_from (i + zlen a) b.
Proof.
  revert i; induction a as [|s a IH]; intros i; cbn [app records_from].
  - change (zlen (@nil shape)) with 0. rewrite Z.add_0_r. reflexivity.
  - rewrite IH, zlen_cons, <- app_assoc. do 3 f_equal. lia.
Qed.

Lemma index_from_app off a b : index_from off (a ++ b) = index_from off a ++ index_from (len_after off a) b.
Proof.
  revert off; induction a as [|s a IH]; intros off; cbn [app index_from len_after fold_left]; [reflexivity|].
  rewrite IH, <- app_assoc. reflexivity.
Qed.

Lemma records_from_single i s : records_from i [s] = concat (record_chunks (type_of s) (wrap_i32 i) s).
Proof. cbn [records_from]. rewrite app_nil_r. reflexivity. Qed.

Lemma index_from_single off s : index_from off [s] = concat (index_entry_chunks off (wrap_i32 (record_words s))).
Proof. cbn [index_from]. rewrite app_nil_r. reflexivity. Qed.

(** The final files. *)
Definition final_hdr (ss : list shape) : header := set_box (hdr_after ss) (subst_sentinels (h_box (hdr_after ss))).
Definition final_shx_hdr (ss : list shape) : header :=
  set_len (final_hdr ss) (50 + Z.quot (wrap_i32 (zlen ss) * 2 * 4) 2).
Definition final_shp (ss : list shape) : bytes := header_bytes (final_hdr ss) ++ records_from 1 ss.
Definition final_shx (ss : list shape) : bytes := header_bytes (final_shx_hdr ss) ++ index_from 50 ss.

(** ** Header after the accepted shapes *)
Lemma hdr_step_type h s : h_type (hdr_step h s) = h_type h.
Proof. reflexivity. Qed.

Lemma fold_hdr_step_type ss h : h_type (fold_left hdr_step ss h) = h_type h.
Proof. revert h; induction ss as [|s ss IH]; intros h; cbn [fold_left]; [reflexivity|]. rewrite IH. reflexivity. Qed.

Lemma hdr_after_type ss : h_type (hdr_after ss) = match ss with [] => TNull | s0 :: _ => type_of s0 end.
Proof. destruct ss as [|s0 ss]; [reflexivity|]. unfold hdr_after. rewrite fold_hdr_step_type. reflexivity. Qed.

Lemma fold_hdr_step_len ss h : h_len (fold_left hdr_step ss h) = len_after (h_len h) ss.
Proof.
  revert h; induction ss as [|s ss IH]; intros h; cbn [fold_left len_after]; [reflexivity|]. rewrite IH. reflexivity.
Qed.

Lemma hdr_after_len ss : h_len (hdr_after ss) = len_after 50 ss.
Proof. destruct ss as [|s0 ss]; [reflexivity|]. unfold hdr_after. rewrite fold_hdr_step_len. reflexivity. Qed.

Lemma hdr_after_snoc ss s : accepts_type ss s = true ->
  hdr_after (ss ++ [s]) =
  hdr_step (match ss with [] => set_type_box header_default (type_of s) sentinel_box | _ => hdr_after ss end) s.
Proof.
  intros Ha. destruct ss as [|s0 ss]; [reflexivity|].
  cbn [app]. unfold hdr_after. rewrite (app_comm_cons ss [s] s0). rewrite fold_left_app. reflexivity.
Qed.

(** ** Streams with a 100-byte header in front *)
Definition hfile (H R : bytes) (x : bp) : Prop := fst x = H ++ R /\ snd x = length (fst x).

Definition hdr_slot (H R : bytes) : Prop := (H = [] /\ R = []) \/ length H = 100%nat.

Lemma header_bytes_len h : length (header_bytes h) = 100%nat.
Proof. pose proof (header_bytes_length h) as E. unfold zlen in E. lia. Qed.

Lemma write_header_at_0 H R h : hdr_slot H R -> write_at (H ++ R) 0 (header_bytes h) = header_bytes h ++ R.
Proof.
  intros [[-> ->]|Hl].
  - cbn [app]. change (@nil Z) with (@nil Z ++ @nil Z) at 1. rewrite (write_at_end []). rewrite app_nil_r. reflexivity.
  - apply write_at_prefix. rewrite header_bytes_len. lia.
Qed.

(** seek(Start 0), write the header: used by the first write (nothing follows
    the header slot yet). *)
Lemma bp_first_header H x h :
  hfile H [] x -> hdr_slot H [] ->
  bp_ops (WSeekStart 0 :: map WriteAll (header_chunks h)) x = (header_bytes h, 100%nat).
Proof.
  intros [Hb Hp] Hs. destruct x as [buf pos]; cbn [fst snd] in *.
  unfold bp_ops. cbn [fold_left bp_op]. fold (bp_ops (map WriteAll (header_chunks h)) (buf, Z.to_nat 0)).
  change (Z.to_nat 0) with 0%nat. rewrite bp_write_chunks by lia. fold (header_bytes h).
  subst buf. rewrite write_header_at_0 by exact Hs. rewrite app_nil_r, header_bytes_len. reflexivity.
Qed.

(** seek(Start 0), write the header, seek(End 0), flush: finalize. *)
Lemma bp_finalize H R x h :
  hfile H R x -> hdr_slot H R ->
  hfile (header_bytes h) R (bp_ops (WSeekStart 0 :: map WriteAll (header_chunks h) ++ [WSeekEnd; WFlush]) x).
Proof.
  intros [Hb Hp] Hs. destruct x as [buf pos]; cbn [fst snd] in *.
  unfold bp_ops. cbn [fold_left bp_op]. rewrite fold_left_app.
  fold (bp_ops (map WriteAll (header_chunks h)) (buf, Z.to_nat 0)).
  change (Z.to_nat 0) with 0%nat. rewrite bp_write_chunks by lia. fold (header_bytes h).
  subst buf. rewrite write_header_at_0 by exact Hs. cbn [fold_left bp_op]. split; reflexivity.
Qed.

(** Appending at the end. *)
Lemma bp_append H R x cs :
  hfile H R x -> hfile H (R ++ concat cs) (bp_ops (map WriteAll cs) x).
Proof.
  intros [Hb Hp]. destruct x as [buf pos]; cbn [fst snd] in *. subst pos.
  rewrite bp_write_chunks by lia. rewrite write_at_end. split; cbn [fst snd].
  - rewrite Hb, app_assoc. reflexivity.
  - rewrite app_length. reflexivity.
Qed.

(** ** The invariant *)
Record WInv (hs : bool) (st : wstate) (w : world) (ss : list shape) : Prop := mkWInv {
  inv_wf : world_wf w;
  inv_hdr : ws_hdr st = hdr_after ss;
  inv_rec : ws_recnum st = 1 + zlen ss;
  inv_hs : ws_has_shx st = hs;
  inv_shp : exists H, hfile H (records_from 1 ss) (bp_of (w_shp w)) /\ hdr_slot H (records_from 1 ss)
            /\ (ws_dirty st = false -> H = header_bytes (final_hdr ss) /\ d_flushed (w_shp w) = true);
  inv_shx : if hs
            then exists H, hfile H (index_from 50 ss) (bp_of (w_shx w)) /\ hdr_slot H (index_from 50 ss)
                 /\ (ws_dirty st = false -> H = header_bytes (final_shx_hdr ss) /\ d_flushed (w_shx w) = true)
            else bp_of (w_shx w) = ([], 0%nat);
  inv_int : ws_interrupted st = false
}.

Lemma world0_wf : world_wf world0.
Proof. unfold world_wf, dev_wf, world0, wdev_empty; cbn. repeat split; lia. Qed.

Lemma WInv_init hs : WInv hs (w_new hs) world0 [].
Proof.
  constructor.
  - apply world0_wf.
  - reflexivity.
  - reflexivity.
  - reflexivity.
  - exists []. split; [split; reflexivity|]. split; [left; split; reflexivity|]. cbn. intros; discriminate.
  - destruct hs; [|reflexivity]. exists []. split; [split; reflexivity|]. split; [left; split; reflexivity|].
    cbn. intros; discriminate.
  - reflexivity.
Qed.

Lemma record_bytes_nonempty t i s : record_bytes t i s <> [].
Proof.
  intros E. pose proof (record_bytes_length t i s) as H. rewrite E in H. change (zlen (@nil Z)) with 0 in H.
  assert (0 <= record_words s).
  { unfold record_words. apply Z.div_pos; [|lia]. rewrite <- size_in_bytes_correct. pose proof (zlen_nonneg (content_bytes s)). lia. }
  lia.
Qed.

Lemma hdr_slot_nonempty H R : hdr_slot H R -> R <> [] -> length H = 100%nat.
Proof. intros [[_ E]|Hl] Hn; [contradiction|exact Hl]. Qed.

Lemma hdr_slot_app H R x : length H = 100%nat -> hdr_slot H (R ++ x).
Proof. intros Hl; right; exact Hl. Qed.

Lemma index_entry_nonempty off w rest : concat (index_entry_chunks off w) ++ rest <> [].
Proof.
  unfold index_entry_chunks. cbn [concat]. intros E. apply (f_equal (@length Z)) in E.
  rewrite !app_length, i32_be_length in E. cbn in E. lia.
Qed.

Lemma last_is_flush_finalize ops b : last_is_flush (ops ++ [WSeekEnd; WFlush]) b = true.
Proof. unfold last_is_flush. rewrite rev_app_distr. reflexivity. Qed.

Lemma last_is_flush_writes cs tail b : tail <> [] -> last_is_flush (tail ++ map WriteAll cs) b = false \/ cs = [].
Proof.
  intros Ht. destruct cs as [|c cs]; [right; reflexivity|left].
  unfold last_is_flush. rewrite rev_app_distr. cbn [map]. 
  destruct (rev (WriteAll c :: map WriteAll cs)) as [|o r] eqn:E.
  - apply (f_equal (@length wop)) in E. rewrite rev_length in E. discriminate.
  - assert (In o (WriteAll c :: map WriteAll cs)) as Hin by (apply in_rev; rewrite E; left; reflexivity).
    cbn [app]. destruct Hin as [<-|Hin]; [reflexivity|]. apply in_map_iff in Hin. destruct Hin as (x & <- & _). reflexivity.
Qed.

(** ** A rejected write changes nothing (C10) *)
Lemma write_rejected hs st w ss s0 s :
  WInv hs st w (s0 :: ss) -> type_of s0 <> TNull -> st_eqb (type_of s0) (type_of s) = false ->
  w_write_shape st w s = (Err (EMismatch (type_of s0) (type_of s)), st, w).
Proof.
  intros Inv Hnn Hne. unfold w_write_shape, write_shape_plan.
  rewrite (inv_hdr _ _ _ _ Inv), hdr_after_type.
  replace (st_eqb (type_of s0) TNull) with false.
  - cbn [negb andb]. rewrite Hne. reflexivity.
  - symmetry. destruct (st_eqb (type_of s0) TNull) eqn:E; [|reflexivity]. apply st_eqb_eq in E. contradiction.
Qed.

(** ** An accepted write appends one record (and one index entry) *)
Ltac ops_norm :=
  cbn [ops_of dest_eqb app];
  repeat first [ rewrite ops_of_app | rewrite ops_of_on_same | rewrite (ops_of_on_other Shp Shx) by reflexivity
               | rewrite (ops_of_on_other Shx Shp) by reflexivity ];
  cbn [ops_of dest_eqb app]; rewrite ?app_nil_r.

Lemma wf_seek0_on t cs rest : Forall (fun o => op_wf (snd o)) rest ->
  Forall (fun o => op_wf (snd o)) ((t, WSeekStart 0) :: on t cs ++ rest).
Proof. intros H. constructor; [cbn; lia|]. apply Forall_app; split; [apply Forall_on_wf|exact H]. Qed.

Ltac wf_ops :=
  repeat first [ apply Forall_nil | apply Forall_on_wf
               | apply Forall_cons; [cbn; first [exact I | lia]|]
               | apply Forall_app; split ].

Lemma write_accepted hs st w ss s :
  WInv hs st w ss -> type_of s <> TNull -> Forall (fun x => type_of x <> TNull) ss -> accepts_type ss s = true ->
  exists st' w', w_write_shape st w s = (Ok tt, st', w') /\ WInv hs st' w' (ss ++ [s]).
Proof.
  intros Inv Hs Hss Ha. destruct Inv as [Hwf Hh Hr Hhs (Hp & Hfp & Hsp & Hdp) Hx Hint].
  unfold w_write_shape, write_shape_plan. rewrite Hh, hdr_after_type, Hhs, Hint. cbn [app].
  destruct ss as [|s0 ss'].
  - (* first write: header reserved at offset 0, then the record *)
    change (st_eqb TNull TNull) with true. cbn [negb andb].
    set (h0 := set_type_box (hdr_after []) (type_of s) sentinel_box).
    cbn [ws_hdr ws_recnum ws_dirty ws_has_shx h_type h0 set_type_box].
    match goal with |- context [run_ops ?o w] => set (ops := o) end.
    assert (Hopswf : Forall (fun o => op_wf (snd o)) ops).
    { unfold ops. destruct hs; wf_ops. }
    destruct (run_ops_ok ops w Hwf Hopswf) as (w' & R & Hw' & B1 & B2 & F1 & F2). rewrite R.
    do 2 eexists. split; [reflexivity|].
    assert (Es : ops_of Shp ops = (WSeekStart 0 :: map WriteAll (header_chunks h0))
                                  ++ map WriteAll (record_chunks (type_of s) (wrap_i32 (ws_recnum st)) s)).
    { unfold ops. destruct hs; ops_norm; reflexivity. }
    constructor; cbn [ws_hdr ws_recnum ws_dirty ws_has_shx ws_interrupted].
    + exact Hw'.
    + rewrite (hdr_after_snoc [] s eq_refl). reflexivity.
    + rewrite Hr. rewrite zlen_app. change (zlen (@nil shape)) with 0. change (zlen [s]) with 1. lia.
    + reflexivity.
    + exists (header_bytes h0). split; [|split; [right; apply header_bytes_len|intros; discriminate]].
      rewrite B1, Es, bp_ops_app. rewrite (bp_first_header Hp _ h0 Hfp Hsp).
      cbn [app records_from]. rewrite app_nil_r. rewrite Hr. change (1 + zlen (@nil shape)) with 1.
      apply (bp_append (header_bytes h0) [] (header_bytes h0, 100%nat)).
      split; cbn [fst snd]; [rewrite app_nil_r; reflexivity|rewrite header_bytes_len; reflexivity].
    + destruct hs.
      * destruct Hx as (Hxh & Hfx & Hsx & Hdx).
        assert (Ex : ops_of Shx ops = (WSeekStart 0 :: map WriteAll (header_chunks h0))
                       ++ map WriteAll (index_entry_chunks (h_len h0) (wrap_i32 (record_words s)))).
        { unfold ops. ops_norm. reflexivity. }
        exists (header_bytes h0). split; [|split; [right; apply header_bytes_len|intros; discriminate]].
        rewrite B2, Ex, bp_ops_app. rewrite (bp_first_header Hxh _ h0 Hfx Hsx).
        cbn [app index_from]. rewrite app_nil_r.
        apply (bp_append (header_bytes h0) [] (header_bytes h0, 100%nat)).
        split; cbn [fst snd]; [rewrite app_nil_r; reflexivity|rewrite header_bytes_len; reflexivity].
      * assert (Ex : ops_of Shx ops = []) by (unfold ops; ops_norm; reflexivity).
        rewrite B2, Ex. exact Hx.
    + reflexivity.
  - (* later write of the file's type: append *)
    cbn [accepts_type] in Ha. pose proof (Forall_inv Hss) as Hs0. cbn beta in Hs0.
    replace (st_eqb (type_of s0) TNull) with false
      by (symmetry; destruct (st_eqb (type_of s0) TNull) eqn:E; [apply st_eqb_eq in E; contradiction|reflexivity]).
    rewrite Ha. cbn [negb andb app].
    apply st_eqb_eq in Ha.
    match goal with |- context [run_ops ?o w] => set (ops := o) end.
    assert (Hopswf : Forall (fun o => op_wf (snd o)) ops).
    { unfold ops. destruct hs; wf_ops. }
    destruct (run_ops_ok ops w Hwf Hopswf) as (w' & R & Hw' & B1 & B2 & F1 & F2). rewrite R.
    do 2 eexists. split; [reflexivity|].
    assert (Hne : records_from 1 (s0 :: ss') <> []).
    { cbn [records_from]. intros E. apply app_eq_nil in E. destruct E as [E _]. revert E. apply record_bytes_nonempty. }
    pose proof (hdr_slot_nonempty _ _ Hsp Hne) as Hl100.
    constructor; cbn [ws_hdr ws_recnum ws_dirty ws_has_shx ws_interrupted].
    + exact Hw'.
    + rewrite Hh. change (s0 :: ss' ++ [s]) with ((s0 :: ss') ++ [s]).
      rewrite (hdr_after_snoc (s0 :: ss') s) by (cbn [accepts_type]; apply st_eqb_eq; exact Ha). reflexivity.
    + rewrite Hr. change (s0 :: ss' ++ [s]) with ((s0 :: ss') ++ [s]). rewrite zlen_app. change (zlen [s]) with 1. lia.
    + reflexivity.
    + exists Hp. split; [|split; [apply hdr_slot_app; exact Hl100|intros; discriminate]].
      assert (Es : ops_of Shp ops = map WriteAll (record_chunks (type_of s) (wrap_i32 (1 + zlen (s0 :: ss'))) s)).
      { unfold ops. rewrite Hh, hdr_after_type, Hr, Ha. destruct hs; ops_norm; reflexivity. }
      rewrite B1, Es. change (s0 :: ss' ++ [s]) with ((s0 :: ss') ++ [s]).
      rewrite records_from_app, records_from_single. apply bp_append. exact Hfp.
    + destruct hs.
      * destruct Hx as (Hxh & Hfx & Hsx & Hdx).
        assert (Ex : ops_of Shx ops = map WriteAll (index_entry_chunks (len_after 50 (s0 :: ss')) (wrap_i32 (record_words s)))).
        { unfold ops. rewrite Hh, hdr_after_len. ops_norm. reflexivity. }
        assert (Hnex : index_from 50 (s0 :: ss') <> []) by (cbn [index_from]; apply index_entry_nonempty).
        exists Hxh. split; [|split; [apply hdr_slot_app; exact (hdr_slot_nonempty _ _ Hsx Hnex)|intros; discriminate]].
        rewrite B2, Ex. change (s0 :: ss' ++ [s]) with ((s0 :: ss') ++ [s]).
        rewrite index_from_app, index_from_single. apply bp_append. exact Hfx.
      * assert (Ex : ops_of Shx ops = []) by (unfold ops; ops_norm; reflexivity).
        rewrite B2, Ex. exact Hx.
    + reflexivity.
Qed.

(** ** finalize *)
Lemma final_header_inv st ss : ws_hdr st = hdr_after ss -> final_header st = final_hdr ss.
Proof. intros H. unfold final_header, final_hdr. rewrite H. reflexivity. Qed.

Lemma shx_header_inv st ss : ws_hdr st = hdr_after ss -> ws_recnum st = 1 + zlen ss ->
  shx_header st = final_shx_hdr ss.
Proof.
  intros H Hr. unfold shx_header, final_shx_hdr. rewrite (final_header_inv st ss H), Hr.
  replace (1 + zlen ss - 1) with (zlen ss) by lia. reflexivity.
Qed.

Lemma finalize_step hs st w ss : WInv hs st w ss ->
  exists st' w', w_finalize st w = (Ok tt, st', w') /\ WInv hs st' w' ss /\ ws_dirty st' = false.
Proof.
  intros Inv. unfold w_finalize. destruct (ws_dirty st) eqn:Hd; cbn [negb].
  2:{ exists st, w. split; [reflexivity|]. split; [exact Inv|exact Hd]. }
  destruct Inv as [Hwf Hh Hr Hhs (Hp & Hfp & Hsp & Hdp) Hx Hint].
  set (ops := finalize_ops st).
  assert (Hopswf : Forall (fun o => op_wf (snd o)) ops).
  { unfold ops, finalize_ops. rewrite Hhs. destruct hs; wf_ops. }
  destruct (run_ops_ok ops w Hwf Hopswf) as (w' & R & Hw' & B1 & B2 & F1 & F2). rewrite R.
  do 2 eexists. split; [reflexivity|]. split; [|reflexivity].
  assert (Es : ops_of Shp ops = WSeekStart 0 :: map WriteAll (header_chunks (final_hdr ss)) ++ [WSeekEnd; WFlush]).
  { unfold ops, finalize_ops. rewrite Hhs, (final_header_inv st ss Hh). destruct hs; ops_norm; reflexivity. }
  constructor; cbn [ws_hdr ws_recnum ws_dirty ws_has_shx ws_interrupted]; auto.
  - exists (header_bytes (final_hdr ss)). split; [|split; [right; apply header_bytes_len|]].
    + rewrite B1, Es. apply (bp_finalize Hp); assumption.
    + intros _. split; [reflexivity|]. rewrite F1, Es.
      change (WSeekStart 0 :: map WriteAll (header_chunks (final_hdr ss)) ++ [WSeekEnd; WFlush])
        with ((WSeekStart 0 :: map WriteAll (header_chunks (final_hdr ss))) ++ [WSeekEnd; WFlush]).
      apply last_is_flush_finalize.
  - destruct hs.
    + destruct Hx as (Hxh & Hfx & Hsx & Hdx).
      assert (Ex : ops_of Shx ops = WSeekStart 0 :: map WriteAll (header_chunks (final_shx_hdr ss)) ++ [WSeekEnd; WFlush]).
      { unfold ops, finalize_ops. rewrite Hhs, (shx_header_inv st ss Hh Hr). ops_norm. reflexivity. }
      exists (header_bytes (final_shx_hdr ss)). split; [|split; [right; apply header_bytes_len|]].
      * rewrite B2, Ex. apply (bp_finalize Hxh); assumption.
      * intros _. split; [reflexivity|]. rewrite F2, Ex.
        change (WSeekStart 0 :: map WriteAll (header_chunks (final_shx_hdr ss)) ++ [WSeekEnd; WFlush])
          with ((WSeekStart 0 :: map WriteAll (header_chunks (final_shx_hdr ss))) ++ [WSeekEnd; WFlush]).
        apply last_is_flush_finalize.
    + assert (Ex : ops_of Shx ops = []) by (unfold ops, finalize_ops; rewrite Hhs; ops_norm; reflexivity).
      rewrite B2, Ex. exact Hx.
Qed.

(** finalize on a writer with nothing new to commit performs no I/O. *)
Lemma finalize_clean_silent st w : ws_dirty st = false -> w_finalize st w = (Ok tt, st, w).
Proof. intros H. unfold w_finalize. rewrite H. reflexivity. Qed.

(** ** Histories *)
Fixpoint accepted_acc (ss : list shape) (cs : list wcall) : list shape :=
  match cs with
  | [] => ss
  | CWrite s :: r => if accepts_type ss s then accepted_acc (ss ++ [s]) r else accepted_acc ss r
  | _ :: r => accepted_acc ss r
  end.

Fixpoint expected_results (ss : list shape) (cs : list wcall) : list (res unit) :=
  match cs with
  | [] => []
  | CWrite s :: r =>
      if accepts_type ss s then Ok tt :: expected_results (ss ++ [s]) r
      else Err (EMismatch (match ss with s0 :: _ => type_of s0 | [] => TNull end) (type_of s))
           :: expected_results ss r
  | _ :: r => Ok tt :: expected_results ss r
  end.

Definition call_ok (c : wcall) : Prop :=
  match c with CWrite s => type_of s <> TNull | CFinalize => True | CHeal => False end.

Lemma run_calls_inv hs : forall cs st w ss,
  WInv hs st w ss -> Forall (fun x => type_of x <> TNull) ss -> Forall call_ok cs ->
  exists st' w', run_calls cs st w = (expected_results ss cs, st', w') /\ WInv hs st' w' (accepted_acc ss cs).
Proof.
  induction cs as [|c cs IH]; intros st w ss Inv Hss Hcs.
  - exists st, w. split; [reflexivity|exact Inv].
  - inversion Hcs as [|? ? Hc Hcs']; subst. destruct c as [s| |]; cbn [call_ok] in Hc; [| |contradiction].
    + cbn [run_calls accepted_acc expected_results].
      destruct (accepts_type ss s) eqn:Ha.
      * destruct (write_accepted hs st w ss s Inv Hc Hss Ha) as (st1 & w1 & E & Inv1). rewrite E.
        destruct (IH st1 w1 (ss ++ [s]) Inv1) as (st2 & w2 & E2 & Inv2); auto.
        { apply Forall_app; split; [exact Hss|constructor; [exact Hc|constructor]]. }
        rewrite E2. exists st2, w2. split; [reflexivity|exact Inv2].
      * destruct ss as [|s0 ss']; [discriminate|]. cbn [accepts_type] in Ha.
        rewrite (write_rejected hs st w ss' s0 s Inv (Forall_inv Hss) Ha).
        destruct (IH st w (s0 :: ss') Inv Hss Hcs') as (st2 & w2 & E2 & Inv2).
        rewrite E2. exists st2, w2. split; [reflexivity|exact Inv2].
    + cbn [run_calls accepted_acc expected_results].
      destruct (finalize_step hs st w ss Inv) as (st1 & w1 & E & Inv1 & _). rewrite E.
      destruct (IH st1 w1 ss Inv1 Hss Hcs') as (st2 & w2 & E2 & Inv2).
      rewrite E2. exists st2, w2. split; [reflexivity|exact Inv2].
Qed.

(** The files left behind when the writer is dropped. *)
Lemma drop_files hs st w ss : WInv hs st w ss ->
  d_buf (w_shp (w_drop st w)) = final_shp ss /\
  d_buf (w_shx (w_drop st w)) = (if hs then final_shx ss else []) /\
  d_flushed (w_shp (w_drop st w)) = true.
Proof.
  intros Inv. unfold w_drop. destruct (finalize_step hs st w ss Inv) as (st1 & w1 & E & Inv1 & Hd). rewrite E. cbn [snd].
  destruct Inv1 as [_ _ _ _ (Hp & [Hb _] & _ & Hdp) Hx _].
  destruct (Hdp Hd) as [-> Hfl]. cbn [bp_of fst] in Hb. split; [exact Hb|]. split; [|exact Hfl].
  destruct hs.
  - destruct Hx as (Hxh & [Hbx _] & _ & Hdx). destruct (Hdx Hd) as [-> _]. exact Hbx.
  - unfold bp_of in Hx. injection Hx as Hx _. exact Hx.
Qed.

Definition files (w : world) : bytes * bytes := (d_buf (w_shp w), d_buf (w_shx w)).

Theorem history_files hs cs e : Forall call_ok cs ->
  files (snd (run_history hs world0 cs e))
  = (final_shp (accepted_acc [] cs), if hs then final_shx (accepted_acc [] cs) else []).
Proof.
  intros Hcs. unfold run_history.
  destruct (run_calls_inv hs cs (w_new hs) world0 [] (WInv_init hs) (Forall_nil _) Hcs) as (st & w & E & Inv).
  rewrite E. destruct e.
  - cbn [snd]. unfold files. destruct (drop_files hs st w _ Inv) as (H1 & H2 & _). rewrite H1, H2. reflexivity.
  - destruct (finalize_step hs st w _ Inv) as (st1 & w1 & E1 & Inv1 & _). rewrite E1. cbn [snd].
    unfold files. destruct (drop_files hs st1 w1 _ Inv1) as (H1 & H2 & _). rewrite H1, H2. reflexivity.
Qed.

Definition is_write (c : wcall) : bool := match c with CWrite _ => true | _ => false end.

Lemma accepted_acc_filter ss cs : accepted_acc ss (filter is_write cs) = accepted_acc ss cs.
Proof.
  revert ss; induction cs as [|c cs IH]; intros ss; [reflexivity|].
  destruct c as [s| |]; cbn [filter is_write accepted_acc]; [destruct (accepts_type ss s); apply IH|apply IH|apply IH].
Qed.

Lemma call_ok_filter cs : Forall call_ok cs -> Forall call_ok (filter is_write cs).
Proof.
  induction 1 as [|c cs Hc Hcs IH]; [constructor|]. destruct c; cbn [filter is_write]; auto.
Qed.

(** C09: finalize calls are irrelevant for the bytes left behind. *)
Theorem finalize_irrelevant hs cs e : Forall call_ok cs ->
  files (snd (run_history hs world0 cs e)) = files (snd (run_history hs world0 (filter is_write cs) EDrop)).
Proof.
  intros Hcs. rewrite (history_files hs cs e Hcs).
  rewrite (history_files hs _ EDrop (call_ok_filter cs Hcs)). rewrite accepted_acc_filter. reflexivity.
Qed.

(** Every successful finalize leaves both destinations complete and flushed. *)
Theorem finalize_complete hs cs : Forall call_ok cs ->
  forall rs st w, run_calls cs (w_new hs) world0 = (rs, st, w) ->
  exists st' w', w_finalize st w = (Ok tt, st', w') /\ ws_dirty st' = false /\
    d_buf (w_shp w') = final_shp (accepted_acc [] cs) /\ d_flushed (w_shp w') = true /\
    (if hs then d_buf (w_shx w') = final_shx (accepted_acc [] cs) /\ d_flushed (w_shx w') = true
     else d_buf (w_shx w') = []).
Proof.
  intros Hcs rs st w E.
  destruct (run_calls_inv hs cs (w_new hs) world0 [] (WInv_init hs) (Forall_nil _) Hcs) as (st0 & w0 & E0 & Inv).
  rewrite E in E0. injection E0 as _ <- <-.
  destruct (finalize_step hs st w _ Inv) as (st1 & w1 & E1 & Inv1 & Hd).
  exists st1, w1. split; [exact E1|]. split; [exact Hd|].
  destruct Inv1 as [_ _ _ _ (Hp & [Hb _] & _ & Hdp) Hx _].
  destruct (Hdp Hd) as [-> Hfl]. cbn [bp_of fst] in Hb. split; [exact Hb|]. split; [exact Hfl|].
  destruct hs.
  - destruct Hx as (Hxh & [Hbx _] & _ & Hdx). destruct (Hdx Hd) as [-> Hflx]. split; [exact Hbx|exact Hflx].
  - unfold bp_of in Hx. injection Hx as Hx _. exact Hx.
Qed.

(** C10: removing the rejected calls from a history changes nothing. *)
Fixpoint remove_rejected (ss : list shape) (cs : list wcall) : list wcall :=
  match cs with
  | [] => []
  | CWrite s :: r => if accepts_type ss s then CWrite s :: remove_rejected (ss ++ [s]) r else remove_rejected ss r
  | c :: r => c :: remove_rejected ss r
  end.

Lemma accepted_acc_remove ss cs : accepted_acc ss (remove_rejected ss cs) = accepted_acc ss cs.
Proof.
  revert ss; induction cs as [|c cs IH]; intros ss; [reflexivity|].
  destruct c as [s| |]; cbn [remove_rejected accepted_acc].
  - destruct (accepts_type ss s) eqn:Ha; [cbn [accepted_acc]; rewrite Ha|]; apply IH.
  - apply IH.
  - apply IH.
Qed.

Lemma call_ok_remove ss cs : Forall call_ok cs -> Forall call_ok (remove_rejected ss cs).
Proof.
  intros H; revert ss; induction H as [|c cs Hc Hcs IH]; intros ss; [constructor|].
  destruct c as [s| |]; cbn [remove_rejected]; [destruct (accepts_type ss s)|..]; auto.
Qed.

Theorem rejected_erasable hs cs e : Forall call_ok cs ->
  files (snd (run_history hs world0 cs e)) = files (snd (run_history hs world0 (remove_rejected [] cs) e)).
Proof.
  intros Hcs. rewrite (history_files hs cs e Hcs).
  rewrite (history_files hs _ e (call_ok_remove [] cs Hcs)). rewrite accepted_acc_remove. reflexivity.
Qed.

(** In any reachable state, a write of another type fails with the mismatch
    error naming the file's type and the offered type, and leaves the state
    and both destinations (buffers, positions, operation logs) unchanged. *)
Theorem reject_changes_nothing hs cs s : Forall call_ok cs -> type_of s <> TNull ->
  forall rs st w, run_calls cs (w_new hs) world0 = (rs, st, w) ->
  accepts_type (accepted_acc [] cs) s = false ->
  exists t, h_type (ws_hdr st) = t /\ t <> TNull /\
    w_write_shape st w s = (Err (EMismatch t (type_of s)), st, w).
Proof.
  intros Hcs Hs rs st w E Ha.
  destruct (run_calls_inv hs cs (w_new hs) world0 [] (WInv_init hs) (Forall_nil _) Hcs) as (st0 & w0 & E0 & Inv).
  rewrite E in E0. injection E0 as _ <- <-.
  destruct (accepted_acc [] cs) as [|s0 ss'] eqn:Eacc; [discriminate|]. cbn [accepts_type] in Ha.
  assert (Hnn : type_of s0 <> TNull).
  { assert (Hall : forall cs ss, Forall call_ok cs -> Forall (fun x => type_of x <> TNull) ss ->
                   Forall (fun x => type_of x <> TNull) (accepted_acc ss cs)).
    { clear. induction cs as [|c cs IH]; intros ss Hc Hss; [exact Hss|].
      inversion Hc; subst. destruct c as [s| |]; cbn [accepted_acc]; [|apply IH; auto|apply IH; auto].
      destruct (accepts_type ss s); apply IH; auto. apply Forall_app; split; [exact Hss|constructor; [assumption|constructor]]. }
    pose proof (Hall cs [] Hcs (Forall_nil _)) as H. rewrite Eacc in H. exact (Forall_inv H). }
  exists (type_of s0). split; [rewrite (inv_hdr _ _ _ _ Inv), hdr_after_type; reflexivity|]. split; [exact Hnn|].
  apply (write_rejected hs st w ss' s0 s Inv Hnn Ha).
Qed.
