(** C13, truncation: reading a valid file cut at any length never invents
    data — every record wholly inside the retained bytes is returned, the cut
    record is an UnexpectedEof, and the iteration ends. *)
From SF Require Import Model.Bytes Model.F64 Model.ShapeType Model.Shapes Model.Res Model.Encode
  Model.F64Arith Model.Construct Model.Prog Model.Decode Model.Reader Spec.Esri Spec.Denote.
From SF Require Import Proofs.BytesLemmas Proofs.ProgLemmas Proofs.RecordL1 Proofs.SimpleProofs Proofs.ReaderSeq.
Open Scope Z_scope.

Ltac Zify.zify_post_hook ::= Z.div_mod_to_equations.

(** The records that fit entirely in the first m bytes. *)
Fixpoint inside (m : Z) (rs : list (Z * ref_rec)) : list (Z * ref_rec) :=
  match rs with
  | [] => []
  | (n, r) :: rest =>
      if zlen (ref_record n r) <=? m then (n, r) :: inside (m - zlen (ref_record n r)) rest else []
  end.

Lemma truncate_clean k s : clean s -> clean (truncate k s).
Proof. intros [H1 H2]. split; assumption. Qed.

Lemma it_pull_unfold f req st :
  it_pull (S f) req st
  = (x <-- it_next req st ;;
     match fst x with
     | None => Ret ([], true, snd x)
     | Some item => y <-- it_pull f req (snd x) ;; Ret (item :: fst (fst y), snd (fst y), snd y)
     end).
Proof. reflexivity. Qed.

Lemma it_next_error req st s e s' :
  r_index st = None -> r_cur st < flen_bytes st -> run (read_one_shape req) s = (Err e, s') ->
  run (it_next req st) s = (Ok (Some (Err e), set_cur st (flen_bytes st)), s').
Proof.
  intros Hidx Hlt Hrun. unfold it_next. rewrite Hidx.
  destruct (Z.leb_spec (flen_bytes st) (r_cur st)); [lia|].
  unfold it_read. rewrite run_bind, run_catch, Hrun. cbn [run]. rewrite Hidx. reflexivity.
Qed.

Lemma it_next_ok_at req st s hdr x s' :
  r_index st = None -> r_cur st < flen_bytes st -> run (read_one_shape req) s = (Ok (hdr, x), s') ->
  r_cur st + 8 + snd hdr * 2 < two64 -> 0 <= r_cur st -> 0 <= snd hdr ->
  run (it_next req st) s = (Ok (Some (Ok x), set_cur st (r_cur st + 8 + snd hdr * 2)), s').
Proof.
  intros Hidx Hlt Hrun Hov H0 Hw. unfold it_next. rewrite Hidx.
  destruct (Z.leb_spec (flen_bytes st) (r_cur st)); [lia|].
  unfold it_read. rewrite run_bind, run_catch, Hrun. cbn [snd].
  rewrite usize_add_ok by lia. cbn [bind]. rewrite usize_add_ok by lia. cbn [bind run]. reflexivity.
Qed.

Theorem truncated_iteration req : forall rs st s rest k,
  r_index st = None -> clean s -> r_cur st = s_pos s ->
  flen_bytes st = r_cur st + zlen (ref_records_bytes rs) -> flen_bytes st < two64 ->
  Forall (record_ok req) rs -> s_rest s = ref_records_bytes rs ++ rest ->
  s_pos s <= k < s_pos s + zlen (ref_records_bytes rs) ->
  exists st' s',
    run (it_pull (S (S (length rs))) req st) (truncate k s)
    = (Ok (map (fun nr => Ok (denote (snd nr))) (inside (k - s_pos s) rs) ++ [Err EIoEof], true, st'), s').
Proof.
  induction rs as [|[num r] rs IH]; intros st s rest k Hidx Hcl Hcur Hlen Hov Hok Hr Hk.
  - unfold ref_records_bytes in Hk; cbn [flat_map] in Hk. change (zlen (@nil Z)) with 0 in Hk. lia.
  - inversion Hok as [|? ? Hok1 Hok2]; subst. pose proof Hok1 as (Hnum & Hc & Hsz & Ha). cbn [fst snd] in *.
    unfold ref_records_bytes in Hlen, Hr, Hk. cbn [flat_map fst snd] in Hlen, Hr, Hk. fold (ref_records_bytes rs) in Hlen, Hr, Hk.
    rewrite zlen_app in Hlen, Hk. rewrite <- app_assoc in Hr.
    pose proof (zlen_nonneg (ref_records_bytes rs)) as Hnn. pose proof (zlen_nonneg (ref_content r)) as Hnc.
    pose proof (ref_content_even r Hc) as Hev.
    assert (HL : zlen (ref_record num r) = 8 + zlen (ref_content r)) by apply zlen_ref_record.
    cbn [inside length]. destruct (Z.leb_spec (zlen (ref_record num r)) (k - s_pos s)) as [Hin|Hcut].
    + (* the record is wholly inside *)
      destruct (L2_record_inside req num r s (ref_records_bytes rs ++ rest) k Hnum Hc Hsz Ha Hcl Hr ltac:(lia))
        as (s1 & Hrun & Hp1 & Hd1 & Hc1).
      rewrite it_pull_unfold, run_bind.
      assert (Hlt : r_cur st < flen_bytes st) by (clear - Hlen HL Hnc Hnn; lia).
      assert (G1 : r_cur st + 8 + zlen (ref_content r) / 2 * 2 < two64) by (clear - Hlen HL Hnc Hnn Hev Hov; lia).
      assert (G2 : 0 <= r_cur st) by (destruct Hcl; lia).
      assert (G3 : 0 <= zlen (ref_content r) / 2) by (clear - Hnc; lia).
      rewrite (it_next_ok_at req st (truncate k s) _ _ _ Hidx Hlt Hrun G1 G2 G3).
      cbn [fst snd]. rewrite run_bind.
      set (st1 := set_cur st (r_cur st + 8 + zlen (ref_content r) / 2 * 2)).
      assert (Hr1 : s_rest s1 = ref_records_bytes rs ++ rest) by (eapply rest_after; eauto; apply Hcl).
      destruct (IH st1 s1 rest k) as (st2 & s2 & Hrun2); try assumption.
      * unfold st1; cbn [set_cur r_cur]. lia.
      * change (flen_bytes st1) with (flen_bytes st). unfold st1; cbn [set_cur r_cur]. lia.
      * lia.
      * rewrite Hrun2. cbn [run fst snd map app]. exists st2, s2.
        replace (k - s_pos s - zlen (ref_record num r)) with (k - s_pos s1) by lia. reflexivity.
    + (* the cut falls inside this record *)
      destruct (L2_truncated_record req num r s (ref_records_bytes rs ++ rest) k Hnum Hc Hsz Ha Hcl Hr ltac:(lia)) as (s2 & Hrun).
      rewrite it_pull_unfold, run_bind. rewrite (it_next_error req st (truncate k s) EIoEof s2 Hidx ltac:(lia) Hrun).
      cbn [fst snd]. rewrite run_bind, it_pull_unfold, run_bind.
      set (st1 := set_cur st (flen_bytes st)).
      assert (E : run (it_next req st1) s2 = (Ok (None, st1), s2)).
      { unfold it_next. change (r_index st1) with (r_index st). rewrite Hidx.
        change (flen_bytes st1) with (flen_bytes st). change (r_cur st1) with (flen_bytes st). rewrite Z.leb_refl. reflexivity. }
      rewrite E. cbn [run fst snd map app]. exists st1, s2. reflexivity.
Qed.

(** The whole file, cut at any length from 100 to just below its end. *)
Theorem truncated_file req g l :
  file_conformant g -> Forall (record_ok req) (rf_records g) -> 100 <= l < zlen (ref_shp g) ->
  exists s',
    run (st <-- r_new ;; x <-- it_pull (S (S (length (rf_records g)))) req st ;; Ret (fst x))
        (src_of (firstn (Z.to_nat l) (ref_shp g)))
    = (Ok (map (fun nr => Ok (denote (snd nr))) (inside (l - 100) (rf_records g)) ++ [Err EIoEof], true), s').
Proof.
  intros (Hbl & Hbox & Hrecs & Hlen) Hok Hl.
  set (rs := rf_records g) in *. set (len := declared_words g).
  assert (Hconf : Forall (fun nr => rec_conformant (snd nr)) rs).
  { eapply Forall_impl; [|exact Hrecs]. cbn. intros ? (_ & H & _). exact H. }
  pose proof (ref_records_even rs Hconf) as Hev. pose proof (zlen_nonneg (ref_records_bytes rs)) as Hnn.
  assert (Hli : in_i32 len) by (unfold in_i32, len, declared_words; fold rs; unfold two31 in *; lia).
  assert (Hlen2 : 2 * len = 100 + zlen (ref_records_bytes rs)) by (unfold len, declared_words; fold rs; lia).
  pose proof (reads_header (rf_type g) (rf_box g) len Hbl Hbox Hli) as Hh.
  set (s0 := src_of (ref_shp g)).
  assert (Hc0 : clean s0) by (unfold clean, s0, src_of; cbn; split; [reflexivity|lia]).
  assert (Hr0 : s_rest s0 = ref_header (rf_type g) (rf_box g) len ++ (ref_records_bytes rs ++ [])).
  { rewrite s_rest_skipn. unfold s0, src_of; cbn [s_pos s_data Z.to_nat skipn]. unfold ref_shp. fold rs. fold (declared_words g). fold len.
    rewrite app_nil_r. reflexivity. }
  destruct (Hh s0 _ Hc0 Hr0) as (s1 & Hrun1 & Hc1 & Hd1 & Hp1).
  rewrite zlen_ref_header in Hp1 by exact Hbl. change (s_pos s0) with 0 in Hp1.
  assert (Hr1 : s_rest s1 = ref_records_bytes rs ++ []).
  { eapply rest_after; eauto; [apply Hc0|]. rewrite zlen_ref_header by exact Hbl. exact Hp1. }
  (* the header survives the cut *)
  destruct (simple_truncation _ simple_read_header s0 _ s1 Hc0 Hrun1 l ltac:(cbn; lia)) as [Hcut _].
  specialize (Hcut ltac:(lia)).
  change (src_of (firstn (Z.to_nat l) (ref_shp g))) with (truncate l s0).
  set (st0 := mkr (header_of (rf_type g) (rf_box g) len) None 100 0).
  assert (Hzs : zlen (ref_shp g) = 100 + zlen (ref_records_bytes rs)).
  { unfold ref_shp. fold rs. rewrite zlen_app, zlen_ref_header by exact Hbl. reflexivity. }
  destruct (truncated_iteration req rs st0 s1 [] l) as (st2 & s2 & Hrun2); try assumption; try reflexivity.
  - change (r_cur st0) with 100. lia.
  - change (flen_bytes st0) with (Z.max 0 len * 2). change (r_cur st0) with 100. lia.
  - change (flen_bytes st0) with (Z.max 0 len * 2). unfold two64; unfold two31, in_i32 in *; lia.
  - lia.
  - eexists. unfold r_new. rewrite !run_bind, Hcut. cbn [run]. rewrite run_bind.
    fold st0. rewrite Hrun2. cbn [run fst]. rewrite Hp1. replace (0 + 100) with 100 by lia. reflexivity.
Qed.

(** Cut inside the header: opening fails with UnexpectedEof. *)
Theorem truncated_header g l :
  file_conformant g -> 0 <= l < 100 ->
  exists s', run r_new (src_of (firstn (Z.to_nat l) (ref_shp g))) = (Err EIoEof, s').
Proof.
  intros (Hbl & Hbox & Hrecs & Hlen) Hl.
  set (rs := rf_records g) in *. set (len := declared_words g).
  pose proof (zlen_nonneg (ref_records_bytes rs)) as Hnn.
  assert (Hli : in_i32 len) by (unfold in_i32, len, declared_words; fold rs; unfold two31 in *; lia).
  pose proof (reads_header (rf_type g) (rf_box g) len Hbl Hbox Hli) as Hh.
  set (s0 := src_of (ref_shp g)).
  assert (Hc0 : clean s0) by (unfold clean, s0, src_of; cbn; split; [reflexivity|lia]).
  assert (Hr0 : s_rest s0 = ref_header (rf_type g) (rf_box g) len ++ (ref_records_bytes rs ++ [])).
  { rewrite s_rest_skipn. unfold s0, src_of; cbn [s_pos s_data Z.to_nat skipn]. unfold ref_shp. fold rs. fold (declared_words g). fold len.
    rewrite app_nil_r. reflexivity. }
  destruct (Hh s0 _ Hc0 Hr0) as (s1 & Hrun1 & Hc1 & Hd1 & Hp1).
  rewrite zlen_ref_header in Hp1 by exact Hbl. change (s_pos s0) with 0 in Hp1.
  destruct (simple_truncation _ simple_read_header s0 _ s1 Hc0 Hrun1 l ltac:(cbn; lia)) as [_ Hcut].
  destruct (Hcut ltac:(lia)) as (s2 & E).
  change (src_of (firstn (Z.to_nat l) (ref_shp g))) with (truncate l s0).
  exists s2. unfold r_new. rewrite run_bind, E. reflexivity.
Qed.
