(** C20: conversions to and from geo-types (modelled as list structures) and
    the geo-traits view of points. *)
From SF Require Import Model.Bytes Model.F64 Model.ShapeType Model.Shapes Model.Res Model.F64Arith Model.Construct Model.Geo.
From SF Require Import Proofs.F64Order Proofs.BoxExact Proofs.PolygonCtor.
Open Scope Z_scope.

(** ** Refusals *)
Theorem to_geo_refusals :
  to_geo SNull = None /\
  (forall b ps, (exists k pts, In (k, pts) ps /\ (k = KStrip \/ k = KFan)) -> to_geo (SMultipatch b ps) = None) /\
  from_geo GCollection = Err EDbase /\ (forall a b, from_geo (GRect a b) = Err EDbase) /\
  (forall a b c, from_geo (GTriangle a b c) = Err EDbase).
Proof.
  split; [reflexivity|]. split; [|repeat split; reflexivity].
  intros b ps (k & pts & Hin & Hk). cbn [to_geo].
  assert (E : patches_rings ps = None).
  { induction ps as [|[k0 p0] r IH]; [contradiction|]. cbn [patches_rings]. destruct Hin as [E|Hin].
    - injection E as -> ->. destruct Hk as [-> | ->]; reflexivity.
    - rewrite (IH Hin). destruct (patch_outer k0); reflexivity. }
  rewrite E. reflexivity.
Qed.

(** ** Points, multipoints, polylines: every X/Y pair, their order and the grouping into lines *)
Theorem to_geo_simple :
  (forall d p, to_geo (SPoint d p) = Some (GPoint (xy p))) /\
  (forall d b ps, to_geo (SMultipoint d b ps) = Some (GMultiPoint (map xy ps))) /\
  (forall d b parts, to_geo (SPolyline d b parts) = Some (GMultiLineString (map (map xy) parts))).
Proof. repeat split. Qed.

(** A 2-D point is determined by its X/Y pair. *)
Definition clean2 (p : pt) : Prop := pz p = 0 /\ pm p = 0.
Lemma pt_of_xy p : clean2 p -> pt_of XY (xy p) = p.
Proof. intros [Hz Hm]. destruct p as [x y z m]. cbn in *. subst. reflexivity. Qed.
Lemma map_pt_of_xy ps : Forall clean2 ps -> map (pt_of XY) (map xy ps) = ps.
Proof. induction 1 as [|p r Hp _ IH]; [reflexivity|]. cbn [map]. rewrite pt_of_xy, IH by exact Hp. reflexivity. Qed.
Lemma xy_pt_of c : xy (pt_of XY c) = c.
Proof. destruct c; reflexivity. Qed.
Lemma map_xy_pt_of l : map xy (map (pt_of XY) l) = l.
Proof. induction l as [|c r IH]; [reflexivity|]. cbn [map]. rewrite xy_pt_of, IH. reflexivity. Qed.

(** Converting back yields the original 2-D shape (the box is recomputed by the
    constructor: the exact box of the same vertices, C05). *)
Theorem back_point p : clean2 p -> from_geo (GPoint (xy p)) = Ok (SPoint XY p).
Proof. intros H. cbn [from_geo]. rewrite pt_of_xy by exact H. reflexivity. Qed.

Theorem back_multipoint ps : Forall clean2 ps -> from_geo (GMultiPoint (map xy ps)) = mk_multipoint XY ps.
Proof. intros H. cbn [from_geo]. rewrite map_pt_of_xy by exact H. reflexivity. Qed.

Theorem back_polyline parts : Forall (Forall clean2) parts ->
  from_geo (GMultiLineString (map (map xy) parts)) = mk_polyline XY parts.
Proof.
  intros H. cbn [from_geo]. f_equal. rewrite map_map. rewrite <- (map_id parts) at 2. apply map_ext_in.
  intros ps Hin. rewrite Forall_forall in H. apply map_pt_of_xy, H, Hin.
Qed.

(** geometry -> shape -> geometry is the identity on points, multipoints and
    (multi)line strings with components the constructors accept. *)
Theorem there_and_back_lines l s : from_geo (GMultiLineString l) = Ok s -> to_geo s = Some (GMultiLineString l).
Proof.
  cbn [from_geo]. unfold mk_polyline. destruct (forallb _ _); [|discriminate].
  destruct (box_from_parts XY (map (map (pt_of XY)) l)); cbn [rbind]; try discriminate.
  intros H; injection H as <-. cbn [to_geo]. do 2 f_equal. rewrite map_map. rewrite <- (map_id l) at 2. apply map_ext. apply map_xy_pt_of.
Qed.

Theorem there_and_back_multipoint l s : from_geo (GMultiPoint l) = Ok s -> to_geo s = Some (GMultiPoint l).
Proof.
  cbn [from_geo]. unfold mk_multipoint. destruct (box_from_points XY (map (pt_of XY) l)); cbn [rbind]; try discriminate.
  intros H; injection H as <-. cbn [to_geo]. rewrite map_xy_pt_of. reflexivity.
Qed.

Theorem there_and_back_linestring l s : from_geo (GLineString l) = Ok s -> to_geo s = Some (GMultiLineString [l]).
Proof.
  cbn [from_geo]. unfold mk_polyline_new. destruct (_ <? _)%nat; [discriminate|].
  destruct (box_from_points XY (map (pt_of XY) l)); cbn [rbind]; try discriminate.
  intros H; injection H as <-. cbn [to_geo map]. rewrite map_xy_pt_of. reflexivity.
Qed.

(** ** Polygons: rings grouped into exterior + holes *)
Definition flat_poly (p : gpoly) : list (bool * list Geo.coord) := (true, gp_ext p) :: map (fun i => (false, i)) (gp_ints p).
Definition flat_polys (l : list gpoly) : list (bool * list Geo.coord) := flat_map flat_poly l.
Definition flat_last (o : option gpoly) : list (bool * list Geo.coord) := match o with Some p => flat_poly p | None => [] end.

Definition ring_closed (r : bool * list Geo.coord) : Prop := geo_close (snd r) = snd r.

Lemma flat_polys_app a b : flat_polys (a ++ b) = flat_polys a ++ flat_polys b.
Proof. unfold flat_polys. apply flat_map_app. Qed.

(** Flattening the grouped polygons gives back exactly the rings, in order:
    every polygon is one outer ring followed by the inner rings that followed
    it — no ring lost, moved to another polygon, or reordered. *)
Lemma group_rings_flat : forall rings last acc,
  Forall ring_closed rings ->
  (last <> None \/ match rings with (false, _) :: _ => False | _ => True end) ->
  flat_polys (group_rings rings last acc) = flat_polys acc ++ flat_last last ++ rings.
Proof.
  induction rings as [|[o pts] r IH]; intros last acc Hc Hfirst; cbn [group_rings].
  - destruct last as [p|]; [rewrite flat_polys_app; cbn [flat_polys flat_map flat_last]; rewrite !app_nil_r; reflexivity|].
    cbn [flat_last]. rewrite !app_nil_r. reflexivity.
  - inversion Hc as [|? ? Hc1 Hc2]; subst. unfold ring_closed in Hc1. cbn [snd] in Hc1. destruct o.
    + rewrite IH; [|exact Hc2|left; discriminate].
      unfold gpoly_new. cbn [map]. rewrite Hc1. cbn [flat_last flat_poly gp_ext gp_ints map app].
      destruct last as [p|]; [rewrite flat_polys_app; cbn [flat_polys flat_map flat_last]; rewrite app_nil_r, <- !app_assoc; reflexivity|].
      cbn [flat_last app]. reflexivity.
    + destruct last as [p|]; [|destruct Hfirst as [H|H]; [contradiction H; reflexivity|contradiction]].
      rewrite IH; [|exact Hc2|left; discriminate]. f_equal.
      unfold gpoly_push. cbn [flat_last flat_poly gp_ext gp_ints]. rewrite Hc1. unfold flat_poly. cbn [gp_ext gp_ints]. rewrite map_app. cbn [map app]. rewrite <- app_assoc. reflexivity.
Qed.

Theorem polygon_to_geo_grouping d b rings gs :
  to_geo (SPolygon d b rings) = Some (GMultiPolygon gs) ->
  Forall (fun r => geo_close (map xy (snd r)) = map xy (snd r)) rings ->
  match rings with (Inner, _) :: _ => False | _ => True end ->
  flat_polys gs = map (fun r => (role_is_outer (fst r), map xy (snd r))) rings.
Proof.
  cbn [to_geo]. intros H Hc Hf. injection H as <-.
  rewrite group_rings_flat; [reflexivity| |].
  - apply Forall_forall. intros x Hx. apply in_map_iff in Hx. destruct Hx as (r & <- & Hr). rewrite Forall_forall in Hc.
    unfold ring_closed. cbn [snd]. apply Hc, Hr.
  - right. destruct rings as [|[[|] pts] r]; cbn [map role_is_outer fst]; auto.
Qed.

(** ** geo-traits: every index below the reported dimension count can be read and returns the matching field *)
Theorem coord_dims (d : dim) (p : pt) (i : Z) : 0 <= i < coord_dim d p ->
  coord_nth d p i = Ok (if i =? 0 then px p else if i =? 1 then py p
                        else match d with XYZM => if i =? 2 then pz p else pm p | _ => pm p end).
Proof.
  intros Hi. unfold coord_dim, coord_nth in *. destruct d.
  - assert (i = 0 \/ i = 1) as [-> | ->] by lia; reflexivity.
  - destruct (is_no_data (pm p)); [assert (i = 0 \/ i = 1) as [-> | ->] by lia; reflexivity|].
    assert (i = 0 \/ i = 1 \/ i = 2) as [-> | [-> | ->]] by lia; reflexivity.
  - destruct (is_no_data (pm p)) eqn:E.
    + assert (i = 0 \/ i = 1 \/ i = 2) as [-> | [-> | ->]] by lia; reflexivity.
    + assert (i = 0 \/ i = 1 \/ i = 2 \/ i = 3) as [-> | [-> | [-> | ->]]] by lia; cbn; rewrite ?E; reflexivity.
Qed.

Theorem coord_dim_range d p : 2 <= coord_dim d p <= 4.
Proof. unfold coord_dim. destruct d; try lia; destruct (is_no_data (pm p)); lia. Qed.
