(** L1, part 3: the multi-part body (polylines, polygons, multipatches). *)
From SF Require Import Model.Bytes Model.F64 Model.ShapeType Model.Shapes Model.Res Model.Encode
  Model.Prog Model.Decode Spec.Esri Spec.Denote.
From SF Require Import Proofs.BytesLemmas Proofs.ShapeTypeProofs Proofs.ProgLemmas Proofs.DecodePrims
  Proofs.DecodePoints.
Open Scope Z_scope.

Lemma f64s_app a b : f64s (a ++ b) = f64s a ++ f64s b.
Proof. unfold f64s. apply flat_map_app. Qed.

Lemma Forall_firstn {A} (P : A -> Prop) n l : Forall P l -> Forall P (firstn n l).
Proof.
  intros H; revert n; induction H as [|x l Hx Hl IH]; intros [|n]; cbn [firstn]; constructor; auto.
Qed.

Lemma Forall_skipn {A} (P : A -> Prop) n l : Forall P l -> Forall P (skipn n l).
Proof.
  intros H; revert n; induction H as [|x l Hx Hl IH]; intros [|n]; cbn [skipn]; try constructor; auto.
Qed.

(** ** Part offsets *)
Lemma reads_parts offs : Forall in_i32 offs -> reads (read_parts (zlen offs)) (i32s offs) offs.
Proof.
  intros H. unfold read_parts. eapply reads_bind_nil; [apply reads_reserve|].
  unfold i32s. apply reads_rep_Z. intros x Hx. rewrite Forall_forall in H. apply reads_i32_le, H, Hx.
Qed.

Lemma reads_multipart_new d a b c e nparts offs npts :
  f64_ok a -> f64_ok b -> f64_ok c -> f64_ok e ->
  nparts = zlen offs -> nparts < two31 -> 0 <= npts < two31 -> Forall in_i32 offs ->
  reads (multipart_new d)
        (f64s [a; b; c; e] ++ i32_le nparts ++ i32_le npts ++ i32s offs)
        (mkbox (pt_xy d a b) (pt_xy d c e), nparts, npts, offs).
Proof.
  intros Ha Hb Hc He -> Hnp Hn Hoffs. unfold multipart_new.
  assert (Hi1 : in_i32 (zlen offs)) by (unfold in_i32; pose proof (zlen_nonneg offs); unfold two31 in *; lia).
  assert (Hi2 : in_i32 npts) by (unfold in_i32; unfold two31 in *; lia).
  rstep reads_bbox_xy. rstep reads_i32_le. rstep reads_i32_le.
  replace (zlen offs <? 0) with false by (symmetry; apply Z.ltb_ge, zlen_nonneg).
  replace (npts <? 0) with false by (symmetry; apply Z.ltb_ge; lia). cbn [orb].
  rewrite <- (app_nil_r (i32s offs)). rstep reads_parts.
  eapply reads_bind_nil; [apply reads_reserve|]. apply reads_ret.
Qed.

(** ** Points of the parts *)
Definition read_part_xy (d : dim) (se : Z * Z) : prog (list pt) :=
  let '(s, e) := se in
  if (s <? 0) || (e <? s) then Fail EIoInvalidData else read_xy_points d (e - s).

Lemma read_parts_xy_unfold d offs n :
  read_parts_xy d offs n = for_each (part_ranges offs n) (read_part_xy d).
Proof. reflexivity. Qed.

Lemma zlen_firstn_le {A} (l : list A) k : 0 <= k <= zlen l -> zlen (firstn (Z.to_nat k) l) = k.
Proof. unfold zlen; intros H. rewrite firstn_length. lia. Qed.

Lemma zlen_skipn {A} (l : list A) k : 0 <= k <= zlen l -> zlen (skipn (Z.to_nat k) l) = zlen l - k.
Proof. unfold zlen; intros H. rewrite skipn_length. lia. Qed.

Lemma flat_map_firstn_skipn {A B} (f : A -> list B) k (l : list A) :
  flat_map f l = flat_map f (firstn k l) ++ flat_map f (skipn k l).
Proof. rewrite <- flat_map_app, firstn_skipn. reflexivity. Qed.

Lemma reads_parts_xy_gen d : forall r o (l : list (f64 * f64)) n,
  0 <= o -> ascending_from o r -> Forall (fun x => x <= n) r -> o <= n -> zlen l = n - o ->
  Forall (fun p => f64_ok (fst p) /\ f64_ok (snd p)) l ->
  reads (for_each (part_ranges (o :: r) n) (read_part_xy d))
        (flat_map xy_enc l)
        (chop (part_lengths (o :: r) n) (map (xy_pt d) l)).
Proof.
  induction r as [|o' r IH]; intros o l n Ho Hasc Hle Hon Hlen Hok.
  - cbn [part_ranges part_lengths for_each chop]. unfold read_part_xy.
    replace (o <? 0) with false by (symmetry; apply Z.ltb_ge; lia).
    replace (n <? o) with false by (symmetry; apply Z.ltb_ge; lia). cbn [orb].
    rewrite <- (app_nil_r (flat_map xy_enc l)). rewrite <- Hlen.
    rstep reads_xy_points. cbn [bind]. apply reads_ret_eq; [reflexivity|].
    rewrite firstn_all2; [reflexivity|]. rewrite map_length. unfold zlen. lia.
  - cbn [ascending_from] in Hasc. destruct Hasc as [Hoo' Hasc]. inversion Hle as [|? ? Ho'n Hle']; subst.
    change (part_ranges (o :: o' :: r) n) with ((o, o') :: part_ranges (o' :: r) n).
    change (part_lengths (o :: o' :: r) n) with ((o' - o) :: part_lengths (o' :: r) n).
    cbn [for_each chop]. unfold read_part_xy at 1.
    replace (o <? 0) with false by (symmetry; apply Z.ltb_ge; lia).
    replace (o' <? o) with false by (symmetry; apply Z.ltb_ge; lia). cbn [orb].
    rewrite (flat_map_firstn_skipn xy_enc (Z.to_nat (o' - o)) l).
    assert (Hk : 0 <= o' - o <= zlen l) by lia.
    eapply reads_bind.
    { rewrite <- (zlen_firstn_le l (o' - o)) at 1 by exact Hk. apply reads_xy_points, Forall_firstn, Hok. }
    cbn beta. rewrite <- (app_nil_r (flat_map xy_enc (skipn _ l))).
    eapply reads_bind.
    { apply (IH o' (skipn (Z.to_nat (o' - o)) l) n); auto; try lia.
      - rewrite zlen_skipn by exact Hk. lia.
      - apply Forall_skipn, Hok. }
    cbn beta. apply reads_ret_eq; [reflexivity|]. rewrite firstn_map, skipn_map. reflexivity.
Qed.

(** ** Z and M values of the parts *)
Fixpoint zipw_parts {A B C} (f : A -> B -> C) (parts : list (list A)) (vs : list B) : list (list C) :=
  match parts with
  | [] => []
  | p :: r => zipw f p (firstn (length p) vs) :: zipw_parts f r (skipn (length p) vs)
  end.

Definition total_len {A} (parts : list (list A)) : nat := length (concat parts).

Lemma reads_for_each_parts {A B} (f : list A -> prog (list B)) (g : A -> f64 -> B) :
  (forall p vs, length p = length vs -> Forall f64_ok vs -> reads (f p) (f64s vs) (zipw g p vs)) ->
  forall parts vs, total_len parts = length vs -> Forall f64_ok vs ->
  reads (for_each parts f) (f64s vs) (zipw_parts g parts vs).
Proof.
  intros Hf. induction parts as [|p parts IH]; intros vs Hlen Hok; cbn [for_each zipw_parts].
  - unfold total_len in Hlen; cbn in Hlen. destruct vs; [apply reads_ret|discriminate].
  - unfold total_len in Hlen. cbn [concat] in Hlen. rewrite app_length in Hlen.
    rewrite <- (firstn_skipn (length p) vs) at 1. rewrite f64s_app.
    eapply reads_bind.
    { apply Hf; [rewrite firstn_length; lia|apply Forall_firstn, Hok]. }
    cbn beta. rewrite <- (app_nil_r (f64s (skipn _ vs))).
    eapply reads_bind.
    { apply IH; [unfold total_len; rewrite skipn_length; lia|apply Forall_skipn, Hok]. }
    apply reads_ret.
Qed.

Lemma reads_parts_zs b parts lo hi zs :
  f64_ok lo -> f64_ok hi -> total_len parts = length zs -> Forall f64_ok zs ->
  reads (read_parts_zs b parts) (f64s [lo; hi] ++ f64s zs)
        (mkbox (set_z (bmin b) lo) (set_z (bmax b) hi), zipw_parts set_z parts zs).
Proof.
  intros. unfold read_parts_zs. rstep reads_z_range. rewrite <- (app_nil_r (f64s zs)).
  eapply reads_bind; [apply reads_for_each_parts; auto; intros; apply reads_zs_into; auto|]. apply reads_ret.
Qed.

Lemma reads_parts_ms b parts lo hi ms :
  f64_ok lo -> f64_ok hi -> total_len parts = length ms -> Forall f64_ok ms ->
  reads (read_parts_ms b parts) (f64s [lo; hi] ++ f64s ms)
        (mkbox (set_m (bmin b) lo) (set_m (bmax b) hi), zipw_parts set_m_norm parts ms).
Proof.
  intros. unfold read_parts_ms. rstep reads_m_range. rewrite <- (app_nil_r (f64s ms)).
  eapply reads_bind; [apply reads_for_each_parts; auto; intros; apply reads_ms_into; auto|]. apply reads_ret.
Qed.

(** Attaching values part by part = attaching them to the flat list, then
    chopping. *)
Lemma zipw_firstn {A B C} (f : A -> B -> C) k a b :
  zipw f (firstn k a) (firstn k b) = firstn k (zipw f a b).
Proof.
  revert a b; induction k as [|k IH]; intros [|x a] [|y b]; cbn [firstn zipw]; try reflexivity.
  rewrite IH. reflexivity.
Qed.

Lemma zipw_skipn {A B C} (f : A -> B -> C) k a b :
  zipw f (skipn k a) (skipn k b) = skipn k (zipw f a b).
Proof.
  revert a b; induction k as [|k IH]; intros [|x a] [|y b]; cbn [skipn zipw]; try reflexivity.
  - destruct (skipn k a); reflexivity.
  - apply IH.
Qed.

Lemma zipw_firstn_short {A B C} (f : A -> B -> C) k a b :
  zipw f (firstn k a) (firstn (length (firstn k a)) b) = firstn k (zipw f a b).
Proof.
  revert a b; induction k as [|k IH]; intros [|x a] [|y b]; cbn [firstn zipw length]; try reflexivity.
  rewrite IH. reflexivity.
Qed.

Lemma zipw_parts_chop {A B C} (f : A -> B -> C) : forall lens (l : list A) (vs : list B),
  length l = length vs -> Forall (fun k => 0 <= k) lens ->
  zipw_parts f (chop lens l) vs = chop lens (zipw f l vs).
Proof.
  induction lens as [|k lens IH]; intros l vs Hlen Hpos; cbn [chop zipw_parts]; [reflexivity|].
  inversion Hpos; subst. f_equal.
  - apply zipw_firstn_short.
  - rewrite <- zipw_skipn. rewrite firstn_length.
    destruct (Nat.le_gt_cases (Z.to_nat k) (length l)) as [Hk|Hk].
    + rewrite Nat.min_l by exact Hk. apply IH; [rewrite !skipn_length; lia|assumption].
    + rewrite Nat.min_r by lia. rewrite (skipn_all2 l) by lia.
      rewrite !(skipn_all2 vs) by lia. apply (IH [] []); [reflexivity|assumption].
Qed.

Lemma total_len_chop {A} : forall lens (l : list A),
  Forall (fun k => 0 <= k) lens -> sum_Z lens = zlen l -> total_len (chop lens l) = length l.
Proof.
  unfold total_len. induction lens as [|k lens IH]; intros l Hpos Hsum; cbn [chop concat sum_Z] in *.
  - unfold zlen in Hsum. destruct l; [reflexivity|cbn in Hsum; lia].
  - inversion Hpos; subst. rewrite app_length, IH; auto.
    + rewrite firstn_length, skipn_length. lia.
    + assert (0 <= sum_Z lens) by (clear - H2; induction H2; cbn [sum_Z]; lia).
      rewrite zlen_skipn; [lia|]. lia.
Qed.

Lemma sum_part_lengths : forall r o n, sum_Z (part_lengths (o :: r) n) = n - o.
Proof.
  induction r as [|o' r IH]; intros o n.
  - cbn [part_lengths sum_Z]. lia.
  - change (part_lengths (o :: o' :: r) n) with ((o' - o) :: part_lengths (o' :: r) n).
    cbn [sum_Z]. rewrite IH. lia.
Qed.

Lemma part_lengths_nonneg : forall r o n, ascending_from o r -> Forall (fun x => x <= n) r -> o <= n ->
  Forall (fun k => 0 <= k) (part_lengths (o :: r) n).
Proof.
  induction r as [|o' r IH]; intros o n Hasc Hle Hon.
  - cbn [part_lengths]. constructor; [lia|constructor].
  - cbn [ascending_from] in Hasc. destruct Hasc as [Hoo' Hasc]. inversion Hle; subst.
    change (part_lengths (o :: o' :: r) n) with ((o' - o) :: part_lengths (o' :: r) n).
    constructor; [lia|]. apply IH; auto.
Qed.

(** ** The body of polylines / polygons, and multipatches *)
Lemma ascending_bounds : forall r o, ascending_from o r -> Forall (fun x => o <= x) r.
Proof.
  induction r as [|x r IH]; intros o H; constructor; cbn [ascending_from] in H; destruct H as [H1 H2]; [exact H1|].
  apply IH in H2. eapply Forall_impl; [|exact H2]. cbn; intros; lia.
Qed.


Lemma pkind_decode_kind_of k : 0 <= k <= 5 -> pkind_decode k = Some (kind_of k).
Proof.
  intros H. unfold kind_of.
  assert (k = 0 \/ k = 1 \/ k = 2 \/ k = 3 \/ k = 4 \/ k = 5) as Hk by lia.
  destruct Hk as [->|[->|[->|[->|[->| ->]]]]]; reflexivity.
Qed.

Lemma zip_map_kind_of ks (parts : list (list pt)) : zip (map kind_of ks) parts = zip_kinds ks parts.
Proof.
  revert parts; induction ks as [|k ks IH]; intros [|p parts]; cbn [map zip zip_kinds]; try reflexivity.
  rewrite IH. reflexivity.
Qed.


Section MultiPart.
  Variables (a b c e : f64) (offs : list Z) (pts : list (f64 * f64)).
  Hypothesis Hbox : f64_ok a /\ f64_ok b /\ f64_ok c /\ f64_ok e.
  Hypothesis Hpts : Forall (fun p => f64_ok (fst p) /\ f64_ok (snd p)) pts.
  Hypothesis Hn : zlen pts < two31.
  Hypothesis Hnp : zlen offs < two31.
  Hypothesis Hoffs : match offs with
                     | [] => pts = []
                     | o :: r => o = 0 /\ ascending_from 0 r /\ Forall (fun x => x <= zlen pts) r
                     end.

  Let n := zlen pts.
  Let np := zlen offs.
  Let lens := part_lengths offs n.
  Let head := f64s [a; b; c; e] ++ i32_le np ++ i32_le n ++ i32s offs.

  Lemma mp_n_nonneg : 0 <= n. Proof. apply zlen_nonneg. Qed.
  Lemma mp_np_nonneg : 0 <= np. Proof. apply zlen_nonneg. Qed.

  Lemma offs_in_i32 : Forall in_i32 offs.
  Proof.
    destruct offs as [|o r]; [constructor|]. destruct Hoffs as (-> & Hasc & Hle).
    constructor; [unfold in_i32, two31; lia|].
    apply ascending_bounds in Hasc. rewrite Forall_forall in *. intros x Hx.
    specialize (Hasc x Hx). specialize (Hle x Hx). unfold in_i32. fold n in Hle. unfold n, two31 in *. lia.
  Qed.

  Lemma lens_nonneg : Forall (fun k => 0 <= k) lens.
  Proof.
    unfold lens. destruct offs as [|o r]; [constructor|]. destruct Hoffs as (-> & Hasc & Hle).
    apply part_lengths_nonneg; auto. apply mp_n_nonneg.
  Qed.

  Lemma lens_sum : sum_Z lens = n.
  Proof.
    unfold lens. destruct offs as [|o r].
    - cbn. unfold n. rewrite Hoffs. reflexivity.
    - destruct Hoffs as (-> & _ & _). rewrite sum_part_lengths. lia.
  Qed.

  Lemma reads_parts_xy_conf d :
    reads (read_parts_xy d offs n) (flat_map xy_enc pts) (chop lens (map (xy_pt d) pts)).
  Proof.
    rewrite read_parts_xy_unfold. unfold lens. destruct offs as [|o r].
    - rewrite Hoffs. cbn. apply reads_ret.
    - destruct Hoffs as (-> & Hasc & Hle). pose proof mp_n_nonneg.
      apply reads_parts_xy_gen; auto; unfold n in *; try lia.
  Qed.

  Lemma total_len_parts0 {A} (l : list A) : length l = length pts -> total_len (chop lens l) = length l.
  Proof.
    intros Hl. apply total_len_chop; [apply lens_nonneg|]. rewrite lens_sum. unfold n, zlen. lia.
  Qed.

  Lemma psize_nonneg d w : 0 <= polyline_size d n np w.
  Proof. pose proof mp_n_nonneg; pose proof mp_np_nonneg. unfold polyline_size. destruct d, w; lia. Qed.

  Lemma psize_neq d : d <> XY -> polyline_size d n np true <> polyline_size d n np false.
  Proof. pose proof mp_n_nonneg. unfold polyline_size. destruct d; intros; try contradiction; lia. Qed.

  Ltac new_step :=
    destruct Hbox as (Ha & Hb & Hc & He);
    eapply reads_bind;
      [apply (reads_multipart_new _ a b c e np offs n); auto;
       [pose proof mp_n_nonneg; unfold n in *; lia | apply offs_in_i32]|]; cbn beta iota.

  Lemma reads_polyline_XY :
    reads (read_polyline_body XY (polyline_size XY n np false))
          (head ++ flat_map xy_enc pts)
          (mkbox (pt_xy XY a b) (pt_xy XY c e), chop lens (map (xy_pt XY) pts)).
  Proof.
    unfold read_polyline_body.
    new_step.
    rewrite record_size_is_refl by apply psize_nonneg. cbn [negb andb has_z_dim].
    rewrite <- (app_nil_r (flat_map xy_enc pts)).
    eapply reads_bind; [apply reads_parts_xy_conf|]. cbn [bind fst snd]. apply reads_ret.
  Qed.

  Variables (zlo zhi : f64) (zs : list f64).
  Hypothesis Hz : length zs = length pts /\ f64_ok zlo /\ f64_ok zhi /\ Forall f64_ok zs.
  Variables (mlo mhi : f64) (ms : list f64).
  Hypothesis Hm : length ms = length pts /\ f64_ok mlo /\ f64_ok mhi /\ Forall f64_ok ms.

  Let zblock := f64s [zlo; zhi] ++ f64s zs.
  Let mblock := f64s [mlo; mhi] ++ f64s ms.

  Lemma reads_polyline_XYM_none :
    reads (read_polyline_body XYM (polyline_size XYM n np false))
          (head ++ flat_map xy_enc pts)
          (mkbox (pt_xy XYM a b) (pt_xy XYM c e), chop lens (map (xy_pt XYM) pts)).
  Proof.
    clear Hz Hm.
    unfold read_polyline_body. new_step.
    rewrite (record_size_is_neq (polyline_size XYM n np false) (polyline_size XYM n np true))
      by (intros E; symmetry in E; revert E; apply psize_neq; discriminate).
    rewrite record_size_is_refl by apply psize_nonneg. cbn [negb andb has_z_dim].
    rewrite <- (app_nil_r (flat_map xy_enc pts)).
    eapply reads_bind; [apply reads_parts_xy_conf|]. cbn [bind fst snd]. apply reads_ret.
  Qed.

  Lemma reads_polyline_XYM_some :
    reads (read_polyline_body XYM (polyline_size XYM n np true))
          (head ++ flat_map xy_enc pts ++ mblock)
          (mkbox (set_m (pt_xy XYM a b) mlo) (set_m (pt_xy XYM c e) mhi),
           chop lens (zipw set_m_norm (map (xy_pt XYM) pts) ms)).
  Proof.
    clear Hz.
    destruct Hm as (Hml & Hmlo & Hmhi & Hms).
    unfold read_polyline_body. new_step.
    rewrite record_size_is_refl by apply psize_nonneg. cbn [negb andb has_z_dim].
    eapply reads_bind; [apply reads_parts_xy_conf|]. cbn [bind fst snd].
    rewrite <- (app_nil_r mblock).
    eapply reads_bind; [apply reads_parts_ms; auto; rewrite total_len_parts0; rewrite map_length; lia|].
    cbn [bmin bmax]. apply reads_ret_eq; [reflexivity|]. f_equal.
    apply zipw_parts_chop; [rewrite map_length; lia|apply lens_nonneg].
  Qed.

  Lemma reads_polyline_XYZM_none :
    reads (read_polyline_body XYZM (polyline_size XYZM n np false))
          (head ++ flat_map xy_enc pts ++ zblock)
          (mkbox (set_z (pt_xy XYZM a b) zlo) (set_z (pt_xy XYZM c e) zhi),
           chop lens (zipw set_z (map (xy_pt XYZM) pts) zs)).
  Proof.
    clear Hm.
    destruct Hz as (Hzl & Hzlo & Hzhi & Hzs).
    unfold read_polyline_body. new_step.
    rewrite (record_size_is_neq (polyline_size XYZM n np false) (polyline_size XYZM n np true))
      by (intros E; symmetry in E; revert E; apply psize_neq; discriminate).
    rewrite record_size_is_refl by apply psize_nonneg. cbn [negb andb has_z_dim].
    eapply reads_bind; [apply reads_parts_xy_conf|]. cbn beta.
    rewrite <- (app_nil_r zblock).
    eapply reads_bind; [apply reads_parts_zs; auto; rewrite total_len_parts0; rewrite map_length; lia|].
    cbn [bind fst snd bmin bmax]. apply reads_ret_eq; [reflexivity|]. f_equal.
    apply zipw_parts_chop; [rewrite map_length; lia|apply lens_nonneg].
  Qed.

  Lemma reads_polyline_XYZM_some :
    reads (read_polyline_body XYZM (polyline_size XYZM n np true))
          (head ++ flat_map xy_enc pts ++ zblock ++ mblock)
          (mkbox (set_m (set_z (pt_xy XYZM a b) zlo) mlo) (set_m (set_z (pt_xy XYZM c e) zhi) mhi),
           chop lens (zipw set_m_norm (zipw set_z (map (xy_pt XYZM) pts) zs) ms)).
  Proof.
    destruct Hz as (Hzl & Hzlo & Hzhi & Hzs). destruct Hm as (Hml & Hmlo & Hmhi & Hms).
    unfold read_polyline_body. new_step.
    rewrite record_size_is_refl by apply psize_nonneg. cbn [negb andb has_z_dim].
    eapply reads_bind; [apply reads_parts_xy_conf|]. cbn beta.
    eapply reads_bind; [apply reads_parts_zs; auto; rewrite total_len_parts0; rewrite map_length; lia|].
    cbn [bind fst snd bmin bmax].
    rewrite <- (app_nil_r mblock).
    eapply reads_bind.
    { apply reads_parts_ms; auto.
      rewrite zipw_parts_chop by (try apply lens_nonneg; rewrite map_length; lia).
      rewrite total_len_parts0; rewrite zipw_length; rewrite map_length; lia. }
    cbn [bmin bmax]. apply reads_ret_eq; [reflexivity|]. f_equal.
    rewrite zipw_parts_chop by (try apply lens_nonneg; rewrite map_length; lia).
    apply zipw_parts_chop; [rewrite zipw_length; rewrite map_length; lia|apply lens_nonneg].
  Qed.

  (** Multipatch *)
  Variable kinds : list Z.
  Hypothesis Hkinds : length kinds = length offs /\ Forall (fun k => 0 <= k <= 5) kinds.

  Lemma reads_kinds :
    reads (rep_Z np read_patch_type) (i32s kinds) (map kind_of kinds).
  Proof. clear Hz Hm.
    destruct Hkinds as (Hkl & Hk).
    replace np with (zlen (map kind_of kinds)) by (unfold np, zlen; rewrite map_length, Hkl; reflexivity).
    replace (i32s kinds) with (flat_map (fun k => i32_le (pkind_code k)) (map kind_of kinds)).
    - apply reads_rep_Z. intros k Hk'. unfold read_patch_type.
      rewrite <- (app_nil_r (i32_le _)).
      eapply reads_bind; [apply reads_i32_le; destruct k; unfold in_i32, two31; cbn; lia|].
      cbn beta. destruct k; apply reads_ret.
    - unfold i32s. clear - Hk. induction Hk as [|k l Hk0 Hl IH]; [reflexivity|]. cbn [map flat_map].
      rewrite IH. f_equal. f_equal. unfold kind_of. rewrite (pkind_decode_kind_of k Hk0).
      assert (k = 0 \/ k = 1 \/ k = 2 \/ k = 3 \/ k = 4 \/ k = 5) as Hk1 by lia.
      destruct Hk1 as [->|[->|[->|[->|[->| ->]]]]]; reflexivity.
  Qed.

  Lemma mpsize_nonneg w : 0 <= multipatch_size n np w.
  Proof. clear Hz Hm. pose proof mp_n_nonneg; pose proof mp_np_nonneg. unfold multipatch_size. destruct w; lia. Qed.

  Lemma mpsize_neq : multipatch_size n np true <> multipatch_size n np false.
  Proof. clear Hz Hm. pose proof mp_n_nonneg. unfold multipatch_size. lia. Qed.

  Lemma reads_multipatch_none :
    reads (read_multipatch (multipatch_size n np false))
          (head ++ i32s kinds ++ flat_map xy_enc pts ++ zblock)
          (SMultipatch (mkbox (set_z (pt_xy XYZM a b) zlo) (set_z (pt_xy XYZM c e) zhi))
             (zip_kinds kinds (chop lens (zipw set_z (map (xy_pt XYZM) pts) zs)))).
  Proof.
    clear Hm.
    destruct Hz as (Hzl & Hzlo & Hzhi & Hzs).
    unfold read_multipatch. new_step.
    rewrite (record_size_is_neq (multipatch_size n np false) (multipatch_size n np true))
      by (intros E; symmetry in E; revert E; apply mpsize_neq).
    rewrite record_size_is_refl by apply mpsize_nonneg. cbn [negb andb].
    eapply reads_bind_nil; [apply reads_reserve|]. eapply reads_bind_nil; [apply reads_reserve|].
    eapply reads_bind; [apply reads_kinds|]. cbn beta.
    eapply reads_bind; [apply reads_parts_xy_conf|]. cbn beta.
    rewrite <- (app_nil_r zblock).
    eapply reads_bind; [apply reads_parts_zs; auto; rewrite total_len_parts0; rewrite map_length; lia|].
    cbn [bind fst snd bmin bmax]. apply reads_ret_eq; [reflexivity|]. f_equal.
    rewrite zip_map_kind_of. f_equal.
    apply zipw_parts_chop; [rewrite map_length; lia|apply lens_nonneg].
  Qed.

  Lemma reads_multipatch_some :
    reads (read_multipatch (multipatch_size n np true))
          (head ++ i32s kinds ++ flat_map xy_enc pts ++ zblock ++ mblock)
          (SMultipatch (mkbox (set_m (set_z (pt_xy XYZM a b) zlo) mlo) (set_m (set_z (pt_xy XYZM c e) zhi) mhi))
             (zip_kinds kinds (chop lens (zipw set_m_norm (zipw set_z (map (xy_pt XYZM) pts) zs) ms)))).
  Proof.
    destruct Hz as (Hzl & Hzlo & Hzhi & Hzs). destruct Hm as (Hml & Hmlo & Hmhi & Hms).
    unfold read_multipatch. new_step.
    rewrite record_size_is_refl by apply mpsize_nonneg. cbn [negb andb].
    eapply reads_bind_nil; [apply reads_reserve|]. eapply reads_bind_nil; [apply reads_reserve|].
    eapply reads_bind; [apply reads_kinds|]. cbn beta.
    eapply reads_bind; [apply reads_parts_xy_conf|]. cbn beta.
    eapply reads_bind; [apply reads_parts_zs; auto; rewrite total_len_parts0; rewrite map_length; lia|].
    cbn [bind fst snd bmin bmax].
    rewrite <- (app_nil_r mblock).
    eapply reads_bind.
    { apply reads_parts_ms; auto.
      rewrite zipw_parts_chop by (try apply lens_nonneg; rewrite map_length; lia).
      rewrite total_len_parts0; rewrite zipw_length; rewrite map_length; lia. }
    cbn [bmin bmax fst snd]. apply reads_ret_eq; [reflexivity|]. f_equal.
    rewrite zip_map_kind_of. f_equal.
    rewrite zipw_parts_chop by (try apply lens_nonneg; rewrite map_length; lia).
    apply zipw_parts_chop; [rewrite zipw_length; rewrite map_length; lia|apply lens_nonneg].
  Qed.
End MultiPart.
