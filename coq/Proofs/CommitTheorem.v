(** C11, last clause, composed: everything written before a finalize that
    completed on the .shp remains readable from every later crash state. *)
From SF Require Import Model.Bytes Model.F64 Model.ShapeType Model.Shapes Model.Res Model.Encode
  Model.F64Arith Model.Construct Model.Writer Model.Prog Model.Decode Model.Reader Spec.Esri Spec.Denote Spec.Layout.
From SF Require Import Proofs.BytesLemmas Proofs.ShapeTypeProofs Proofs.SizeProofs Proofs.ProgLemmas Proofs.RecordL1
  Proofs.ReaderSeq Proofs.WriterCore Proofs.WriterInv Proofs.WriterFaults Proofs.EncodeRef Proofs.LayoutConf Proofs.RoundTrip
  Proofs.CrashRead Proofs.CrashStates Proofs.CrashTheorem Proofs.HeaderMix Proofs.CrashCommit.
Open Scope Z_scope.

Ltac Zify.zify_post_hook ::= Z.div_mod_to_equations.

(** ** The commit invariant along any continuation *)
Lemma run_calls_commit tc hs : forall cs st w ss ss0,
  WInv hs st w ss -> Forall (fun x => type_of x <> TNull) ss -> Forall call_ok cs -> ss0 <> [] ->
  CrashInv w (records_from 1 ss) -> CommitInv tc w ss0 ss ->
  exists rs st' w', run_calls cs st w = (rs, st', w') /\ WInv hs st' w' (accepted_acc ss cs) /\
                    CrashInv w' (records_from 1 (accepted_acc ss cs)) /\ CommitInv tc w' ss0 (accepted_acc ss cs).
Proof.
  induction cs as [|c cs IH]; intros st w ss ss0 Inv Hss Hcs Hne HC HI.
  - exists [], st, w. auto.
  - inversion Hcs as [|? ? Hc Hcs']; subst. destruct c as [s| |]; cbn [call_ok] in Hc; [| |contradiction].
    + cbn [run_calls accepted_acc]. pose proof (write_crash hs st w ss s Inv Hc Hss HC) as HC1.
      pose proof (write_commit tc hs st w ss0 ss s Inv Hc Hss Hne HC HI) as HI1.
      destruct (accepts_type ss s) eqn:Ha.
      * destruct (write_accepted hs st w ss s Inv Hc Hss Ha) as (st1 & w1 & E & Inv1). rewrite E in *. cbn [snd] in HC1, HI1.
        assert (Hnn : Forall (fun x => type_of x <> TNull) (ss ++ [s]))
          by (apply Forall_app; split; [exact Hss|constructor; [exact Hc|constructor]]).
        destruct (IH st1 w1 (ss ++ [s]) ss0 Inv1 Hnn Hcs' Hne HC1 HI1) as (rs & st2 & w2 & E2 & Inv2 & HC2 & HI2).
        rewrite E2. eexists; eexists; eexists. split; [reflexivity|]. split; [exact Inv2|]. split; assumption.
      * destruct ss as [|s0 ss']; [discriminate|]. cbn [accepts_type] in Ha.
        rewrite (write_rejected hs st w ss' s0 s Inv (Forall_inv Hss) Ha) in *. cbn [snd] in HC1, HI1.
        destruct (IH st w (s0 :: ss') ss0 Inv Hss Hcs' Hne HC1 HI1) as (rs & st2 & w2 & E2 & Inv2 & HC2 & HI2).
        rewrite E2. eexists; eexists; eexists. split; [reflexivity|]. split; [exact Inv2|]. split; assumption.
    + cbn [run_calls accepted_acc]. pose proof (finalize_crash hs st w ss Inv HC) as HC1.
      pose proof (finalize_commit tc hs st w ss0 ss Inv HC HI) as HI1.
      destruct (finalize_step hs st w ss Inv) as (st1 & w1 & E & Inv1 & _). rewrite E in *. cbn [snd] in HC1, HI1.
      destruct (IH st1 w1 ss ss0 Inv1 Hss Hcs' Hne HC1 HI1) as (rs & st2 & w2 & E2 & Inv2 & HC2 & HI2).
      rewrite E2. eexists; eexists; eexists. split; [reflexivity|]. split; [exact Inv2|]. split; assumption.
Qed.

Lemma run_calls_app cs1 cs2 st w :
  run_calls (cs1 ++ cs2) st w =
  let '(rs1, st1, w1) := run_calls cs1 st w in
  let '(rs2, st2, w2) := run_calls cs2 st1 w1 in (rs1 ++ rs2, st2, w2).
Proof.
  revert st w; induction cs1 as [|c cs1 IH]; intros st w.
  - cbn [app run_calls]. destruct (run_calls cs2 st w) as [[rs2 st2] w2]. reflexivity.
  - cbn [app run_calls].
    destruct (match c with CWrite s => w_write_shape st w s | CFinalize => w_finalize st w | CHeal => (Ok tt, st, heal w) end)
      as [[r st'] w'].
    rewrite IH. destruct (run_calls cs1 st' w') as [[rs1 st1] w1]. destruct (run_calls cs2 st1 w1) as [[rs2 st2] w2]. reflexivity.
Qed.

Lemma accepted_acc_app ss cs1 cs2 : accepted_acc ss (cs1 ++ cs2) = accepted_acc (accepted_acc ss cs1) cs2.
Proof.
  revert ss; induction cs1 as [|c cs1 IH]; intros ss; [reflexivity|].
  destruct c as [s| |]; cbn [app accepted_acc]; [destruct (accepts_type ss s); apply IH|apply IH|apply IH].
Qed.

Lemma accepted_acc_lpre ss cs : lpre ss (accepted_acc ss cs).
Proof.
  revert ss; induction cs as [|c cs IH]; intros ss; [apply lpre_refl|].
  destruct c as [s| |]; cbn [accepted_acc]; [|apply IH|apply IH].
  destruct (accepts_type ss s); [|apply IH]. eapply lpre_trans; [|apply IH]. exists [s]. reflexivity.
Qed.

(** ** Crash states after a commit *)
Definition shp_after (hs : bool) (cs : list wcall) : world := snd (run_calls cs (w_new hs) world0).

Theorem committed_states hs cs1 cs2 e :
  Forall call_ok cs1 -> Forall call_ok cs2 -> accepted_acc [] cs1 <> [] ->
  let tc := explode (trace (w_shp (shp_after hs (cs1 ++ [CFinalize])))) in
  forall p, is_prefix p (explode (trace (w_shp (snd (run_history hs world0 (cs1 ++ CFinalize :: cs2) e))))) ->
  is_prefix tc p ->
  committed_form (accepted_acc [] cs1) (accepted_acc [] (cs1 ++ CFinalize :: cs2)) (fst (bp_ops p ([], 0%nat))).
Proof.
  intros H1 H2 Hne tc p Hp Hext.
  destruct (run_calls_crash hs cs1 (w_new hs) world0 [] (WInv_init hs) (Forall_nil _) H1 world0_crash)
    as (rs1 & st1 & w1 & E1 & Inv1 & HC1).
  set (ss0 := accepted_acc [] cs1) in *.
  assert (Hnn0 : Forall (fun x => type_of x <> TNull) ss0).
  { unfold ss0. apply accepted_all; [constructor|]. rewrite Forall_forall in *. intros c Hc. specialize (H1 c Hc). destruct c; auto. }
  destruct (finalize_step hs st1 w1 ss0 Inv1) as (st1' & w1' & Ef & Inv1' & Hd1).
  pose proof (finalize_crash hs st1 w1 ss0 Inv1 HC1) as HC1'. rewrite Ef in HC1'. cbn [snd] in HC1'.
  pose proof (commit_established hs st1' w1' ss0 Inv1' Hd1 HC1') as HI1.
  assert (Etc : tc = explode (trace (w_shp w1'))).
  { unfold tc, shp_after. rewrite run_calls_app, E1. cbn [run_calls]. rewrite Ef. reflexivity. }
  rewrite <- Etc in HI1.
  destruct (run_calls_commit tc hs cs2 st1' w1' ss0 ss0 Inv1' Hnn0 H2 Hne HC1' HI1) as (rs2 & st2 & w2 & E2 & Inv2 & HC2 & HI2).
  assert (Eacc : accepted_acc [] (cs1 ++ CFinalize :: cs2) = accepted_acc ss0 cs2).
  { rewrite accepted_acc_app. reflexivity. }
  rewrite Eacc. set (ss := accepted_acc ss0 cs2) in *.
  assert (Erun : run_calls (cs1 ++ CFinalize :: cs2) (w_new hs) world0 = (rs1 ++ Ok tt :: rs2, st2, w2)).
  { rewrite run_calls_app, E1. cbn [run_calls]. rewrite Ef, E2. reflexivity. }
  unfold run_history in Hp. rewrite Erun in Hp.
  destruct e.
  - cbn [snd] in Hp. unfold w_drop in Hp.
    destruct (finalize_commit tc hs st2 w2 ss0 ss Inv2 HC2 HI2) as (ssL & _ & _ & _ & _ & Hall). apply Hall; assumption.
  - destruct (finalize_step hs st2 w2 ss Inv2) as (st3 & w3 & E3 & Inv3 & _).
    pose proof (finalize_crash hs st2 w2 ss Inv2 HC2) as HC3. pose proof (finalize_commit tc hs st2 w2 ss0 ss Inv2 HC2 HI2) as HI3.
    rewrite E3 in *. cbn [snd] in *. unfold w_drop in Hp.
    destruct (finalize_commit tc hs st3 w3 ss0 ss Inv3 HC3 HI3) as (ssL & _ & _ & _ & _ & Hall). apply Hall; assumption.
Qed.

(** ** The header of a committed form is a readable header declaring at least the committed length *)
Lemma firstn_numbered_app i (a b : list ref_rec) : firstn (length a) (numbered i (a ++ b)) = numbered i a.
Proof. revert i; induction a as [|x a IH]; intros i; [reflexivity|]. cbn [app numbered length firstn]. rewrite IH. reflexivity. Qed.

Lemma file_words_app a b : file_words (a ++ b) = file_words a + sum_Z (map (fun s => record_words s + 4) b).
Proof. unfold file_words. rewrite map_app, sum_Z_app. lia. Qed.

Lemma file_words_lpre a b : lpre a b -> file_words a <= file_words b.
Proof. intros [x ->]. rewrite file_words_app. pose proof (sum_words_nonneg x). lia. Qed.

Lemma FileFits_lpre a b : lpre a b -> FileFits b -> FileFits a.
Proof. intros H Hf. unfold FileFits in *. pose proof (file_words_lpre a b H). lia. Qed.

Lemma final_hdr_ref ss : FileFits ss ->
  header_bytes (final_hdr ss) = ref_header (file_type ss) (box8 (h_box (final_hdr ss))) (file_words ss).
Proof.
  intros Hf. rewrite header_is_ref by (unfold final_hdr; cbn [set_box h_version]; apply hdr_after_version).
  unfold final_hdr. cbn [set_box h_type h_box h_len]. rewrite hdr_after_type, hdr_after_len.
  rewrite len_after_sum by (apply FileFits_words, Hf). reflexivity.
Qed.

Lemma file_type_lpre a b : a <> [] -> lpre a b -> file_type b = file_type a.
Proof. intros Hne [x ->]. destruct a; [contradiction|reflexivity]. Qed.

Lemma box8_length b : length (box8 b) = 8%nat.
Proof. reflexivity. Qed.

(** ** Composition with the reader *)
Theorem committed_readable hs cs1 cs2 e (req : option shape_type) (fuel : nat) :
  Forall call_ok cs1 -> Forall call_ok cs2 ->
  let ss0 := accepted_acc [] cs1 in
  let ss := accepted_acc [] (cs1 ++ CFinalize :: cs2) in
  ss0 <> [] -> Forall shape_ok ss -> FileFits ss -> RecordsFit ss -> (req = None \/ req = Some (file_type ss)) ->
  (length ss0 <= fuel)%nat ->
  let tc := explode (trace (w_shp (shp_after hs (cs1 ++ [CFinalize])))) in
  forall p, is_prefix p (explode (trace (w_shp (snd (run_history hs world0 (cs1 ++ CFinalize :: cs2) e))))) ->
  is_prefix tc p ->
  let buf := fst (bp_ops p ([], 0%nat)) in
  exists j tail ended st' s',
    run (st <-- r_new ;; it_pull fuel req st) (src_of buf)
    = (Ok (map (fun s => Ok (on_read s)) (firstn j ss) ++ tail, ended, st'), s') /\
    (tail = [] \/ tail = [Err EIoEof]) /\ (length ss0 <= j)%nat.
Proof.
  intros H1 H2 ss0 ss Hne Hok Hf Hrf Hreq Hfuel tc p Hp Hext buf.
  destruct (committed_states hs cs1 cs2 e H1 H2 Hne p Hp Hext) as (i & ssA & ssB & m & E & P1 & P2 & P3 & Hm).
  fold ss0 ss buf in E, P1, P3.
  assert (P0A : lpre ss0 ssA) by exact P1. assert (P0B : lpre ss0 ssB) by (eapply lpre_trans; eassumption).
  assert (PAs : lpre ssA ss) by (eapply lpre_trans; eassumption).
  assert (NeA : ssA <> []) by (destruct P0A as [x ->]; destruct ss0; [contradiction|discriminate]).
  assert (NeB : ssB <> []) by (destruct P0B as [x ->]; destruct ss0; [contradiction|discriminate]).
  pose proof (FileFits_lpre ssB ss P3 Hf) as HfB. pose proof (FileFits_lpre ssA ss PAs Hf) as HfA.
  rewrite (final_hdr_ref ssB HfB), (final_hdr_ref ssA HfA) in E.
  rewrite (file_type_lpre ss0 ssB Hne P0B), (file_type_lpre ss0 ssA Hne P0A) in E.
  assert (Hlen : 0 <= file_words ssA <= file_words ssB).
  { split; [unfold file_words; pose proof (sum_words_nonneg ssA); lia|apply file_words_lpre; exact P2]. }
  destruct (torn_header (file_type ss0) (box8 (h_box (final_hdr ssB))) (box8 (h_box (final_hdr ssA))) (file_words ssB) (file_words ssA) i
              (box8_length _) (box8_length _) Hlen HfB)
    as (box3 & len3 & Emix & L3 & F3 & Hl3).
  rewrite Emix in E. clear Emix.
  pose proof (written_records_ok req ss Hok (accepted_one_type0 _) Hf Hrf Hreq) as Hrecs.
  rewrite records_is_ref in E. set (rs := numbered 1 (map rec_of_shape ss)) in *.
  set (H' := ref_header (file_type ss0) box3 len3) in *.
  assert (HH : length H' = 100%nat).
  { pose proof (zlen_ref_header (file_type ss0) box3 len3 L3) as Z. fold H' in Z. unfold zlen in Z. lia. }
  assert (HR : zlen (ref_records_bytes rs) < two31 * 4).
  { unfold rs. rewrite <- records_is_ref, zlen_records_from. unfold FileFits, file_words in Hf. unfold two31 in *. lia. }
  (* the retained part of the record stream *)
  set (m' := Nat.min m (length (ref_records_bytes rs))).
  assert (Em : firstn m (ref_records_bytes rs) = firstn (Z.to_nat (Z.of_nat m')) (ref_records_bytes rs)).
  { rewrite Nat2Z.id. unfold m'. destruct (Nat.le_ge_cases m (length (ref_records_bytes rs))) as [Hle|Hge].
    - rewrite Nat.min_l by exact Hle. reflexivity.
    - rewrite Nat.min_r by exact Hge. rewrite firstn_all. apply firstn_all2. exact Hge. }
  rewrite Em in E.
  assert (Hm' : 0 <= Z.of_nat m' <= zlen (ref_records_bytes rs)) by (unfold m', zlen; lia).
  destruct (crash_read_noindex_lb req H' rs (Z.of_nat m') fuel HH Hrecs Hm' HR)
    as [(e0 & s' & Eh & _)|(h & s1 & j & tail & ended & st' & s' & Eh & Er & Ht & Hlb)].
  - (* the header is readable: contradiction *)
    exfalso. rewrite <- E in Eh.
    destruct (reads_header (file_type ss0) box3 len3 L3 F3 ltac:(unfold in_i32, two31 in *; lia) (src_of buf)
                (firstn (Z.to_nat (Z.of_nat m')) (ref_records_bytes rs))) as (s2 & Eh2 & _).
    + split; [reflexivity|cbn; lia].
    + rewrite E. reflexivity.
    + rewrite Eh in Eh2. discriminate.
  - rewrite <- E in Eh, Er. exists j, tail, ended, st', s'.
    unfold rs in Er. rewrite firstn_numbered_map in Er. split; [exact Er|]. split; [exact Ht|].
    (* the parsed header is the torn one *)
    destruct (reads_header (file_type ss0) box3 len3 L3 F3 ltac:(unfold in_i32, two31 in *; lia) (src_of buf)
                (firstn (Z.to_nat (Z.of_nat m')) (ref_records_bytes rs))) as (s2 & Eh2 & _).
    + split; [reflexivity|cbn; lia].
    + rewrite E. reflexivity.
    + rewrite Eh in Eh2. injection Eh2 as Eh2 _. subst h. cbn [header_of h_len] in Hlb.
      destruct P3 as [x3 E3]. destruct P0B as [xB EB].
      assert (Ess : ss = ss0 ++ (xB ++ x3)) by (rewrite E3, EB, <- app_assoc; reflexivity).
      assert (Efirst : firstn (length ss0) rs = numbered 1 (map rec_of_shape ss0)).
      { unfold rs. rewrite Ess, map_app. rewrite <- (map_length rec_of_shape ss0). apply firstn_numbered_app. }
      apply Hlb.
      * exact Hfuel.
      * unfold rs. rewrite Ess. clear.
        assert (G : forall (l : list ref_rec) i, length (numbered i l) = length l)
          by (induction l as [|a l IH]; intros i; cbn [numbered length]; [reflexivity|rewrite IH; reflexivity]).
        rewrite G, map_length, app_length. lia.
      * rewrite Efirst, <- records_is_ref.
        pose proof (records_lpre_len ss0 ssB (ex_intro _ xB EB)) as Hl0.
        pose proof (records_lpre_len ssB ss (ex_intro _ x3 E3)) as Hl1.
        unfold m', rs. rewrite <- records_is_ref. unfold zlen. lia.
      * rewrite Efirst, <- records_is_ref, zlen_records_from.
        pose proof (file_words_lpre ss0 ssA P0A) as Hw. unfold file_words in Hw at 1. lia.
Qed.
