(** C17: every pre-sizing request (`Vec::with_capacity`, `vec![x; n]`) the
    reader makes is bounded by a constant, whatever counts the input declares:
    the ledger [s_reserved] of the source only ever receives entries of at most
    [RES_MAX] bytes. *)
From SF Require Import Model.Bytes Model.ShapeType Model.Res Model.Prog.
From SF Require Import Proofs.BytesLemmas Proofs.ProgLemmas.
Open Scope Z_scope.

(** 1024 elements of at most 32 bytes. *)
Definition RES_MAX : Z := 32768.

Inductive rb {A} : prog A -> Prop :=
| rb_ret a : rb (Ret a)
| rb_fail e : rb (Fail e)
| rb_panic : rb PanicP
| rb_take n k : (forall r, rb (k r)) -> rb (Take n k)
| rb_seek_start q k : (forall r, rb (k r)) -> rb (SeekStart q k)
| rb_seek_end k : (forall r, rb (k r)) -> rb (SeekEnd k)
| rb_reserve n k : n <= RES_MAX -> rb k -> rb (Reserve n k).

Definition ledger_ok (s : src) : Prop := Forall (fun n => n <= RES_MAX) (s_reserved s).

Theorem rb_run {A} (p : prog A) : rb p -> forall s, ledger_ok s -> ledger_ok (snd (run p s)).
Proof.
  induction 1 as [a|e| |n k Hk IH|q k Hk IH|k Hk IH|n k Hn Hk IH]; intros s Hs; cbn [run]; try exact Hs.
  - destruct (do_take n s) as [r s'] eqn:E. apply IH. unfold do_take in E.
    destruct (faulty_now s); [injection E as _ <-; exact Hs|]. destruct (n <=? length (s_rest s))%nat; injection E as _ <-; exact Hs.
  - destruct (do_seek_start q s) as [r s'] eqn:E. apply IH. unfold do_seek_start in E. destruct (faulty_now s); injection E as _ <-; exact Hs.
  - destruct (do_seek_end s) as [r s'] eqn:E. apply IH. unfold do_seek_end in E. destruct (faulty_now s); injection E as _ <-; exact Hs.
  - apply IH. unfold ledger_ok, do_reserve. cbn [s_reserved]. constructor; assumption.
Qed.

Lemma rb_bind {A B} (p : prog A) (f : A -> prog B) : rb p -> (forall a, rb (f a)) -> rb (bind p f).
Proof. intros Hp Hf; induction Hp; cbn [bind]; try constructor; auto. Qed.

Lemma rb_catch {A} (p : prog A) : rb p -> rb (catch p).
Proof. induction 1; cbn [catch]; constructor; auto. Qed.

Lemma rb_lift_res {A} (r : res A) : rb (lift_res r).
Proof. destruct r; constructor. Qed.

Lemma rb_take_ n : rb (take n). Proof. constructor. intros; apply rb_lift_res. Qed.
Lemma rb_seek_start_ q : rb (seek_start q). Proof. constructor. intros; apply rb_lift_res. Qed.
Lemma rb_seek_end_ : rb seek_end. Proof. constructor. intros; apply rb_lift_res. Qed.
Lemma rb_reserve_ n : n <= RES_MAX -> rb (reserve n). Proof. intros H. constructor; [exact H|constructor]. Qed.

Lemma rb_rep_pos {A} n (p : prog A) : rb p -> rb (rep_pos n p).
Proof. intros Hp; induction n; cbn [rep_pos]; repeat (apply rb_bind; [assumption|intros]); try constructor. Qed.
Lemma rb_rep_Z {A} n (p : prog A) : rb p -> rb (rep_Z n p).
Proof. intros Hp; destruct n; cbn [rep_Z]; try constructor. apply rb_rep_pos; exact Hp. Qed.
Lemma rb_for_each {A B} (xs : list A) (f : A -> prog B) : (forall x, rb (f x)) -> rb (for_each xs f).
Proof.
  intros H; induction xs; cbn [for_each]; [constructor|].
  apply rb_bind; [apply H|intros]. apply rb_bind; [assumption|intros; constructor].
Qed.
