# Top-level build of the verification framework (offline).
SHELL := /bin/bash
COQDIR := coq
CACHE := .cache
VFILES := $(shell cd $(COQDIR) && find Model Spec Proofs Properties Run -name '*.v' | sort)

.PHONY: setup coq harness extract clean coq-clean

setup: coq harness extract

extract: coq
	python3 -c "import sys; sys.path.insert(0,'lib'); import sfv; print(sfv.build_extracted())"

$(COQDIR)/Makefile: $(COQDIR)/_CoqProject $(addprefix $(COQDIR)/,$(VFILES))
	cd $(COQDIR) && coq_makefile -f _CoqProject -o Makefile $(VFILES)

coq: $(COQDIR)/Makefile
	cd $(COQDIR) && timeout 3000 $(MAKE) -j6 --no-print-directory 2>&1 | grep -v '^WARNING conda' ; exit $${PIPESTATUS[0]}

harness:
	./lib/build_harness.sh

coq-clean:
	cd $(COQDIR) && [ -f Makefile ] && $(MAKE) cleanall --no-print-directory ; rm -f $(COQDIR)/Makefile $(COQDIR)/Makefile.conf

clean: coq-clean
	rm -rf $(CACHE)
