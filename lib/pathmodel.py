"""The path-based API against the directory model (coq/Model/Paths.v, case kind 16).

Each case builds a scratch directory (stale files of the library's own formats under chosen names), runs a
writer history through `ShapeWriter::from_path` / `Writer::from_path` under a chosen file name, optionally
removes one file, lists the directory and reads back through `ShapeReader::from_path` / `Reader::from_path`.
The model (Model/Paths.v on top of the in-memory writer and reader models) runs the same case; the oracle below
evaluates what the properties say about files opened by path with an independent transcription of
`Path::with_extension` (gen/pathcases.py)."""
import os

import cases as C
import pathcases as PC
import shapes
import sfv
import stages

STEMS = [b"a", b"roads", b"x1", b"T", b"caf\xc3\xa9", b"two words", b"r-2"]
OTHER_EXT = [b"SHP", b"bak", b"gz", b"shp2", b"Shp", b"s"]


def gen_name(rng, complete):
    """A file name for the .shp: mostly `<stem>.shp`, otherwise one of the shapes of name that change
    what `with_extension` does (several dots, leading dot, trailing dot, no extension, other extension)."""
    s = rng.choice(STEMS)
    k = rng.randrange(14)
    if k < 5:
        return s + b".shp"
    if k == 5:
        return s + b"." + rng.choice(STEMS) + b".shp"            # roads.north.shp
    if k == 6:
        return b"." + s + b".shp"                                 # .hidden.shp
    if k == 7:
        return s + b"..shp"                                       # empty middle component
    if k == 8:
        return s                                                  # no extension at all
    if k == 9:
        return b"." + s                                           # leading dot only: no extension
    if k == 10:
        return s + b"."                                           # empty extension
    if k == 11:
        return s + b".tar." + rng.choice(OTHER_EXT)
    if k == 12:
        return s + b".shp." + rng.choice(OTHER_EXT)               # roads.shp.bak
    return s + b"." + rng.choice(OTHER_EXT)


def decoys(name):
    """Names a wrong sibling rule would use."""
    first = name.split(b".")[0] if not name.startswith(b".") else b"." + name[1:].split(b".")[0]
    out = set()
    for ext in (b"shx", b"dbf"):
        out.add(first + b"." + ext)                 # cut at the first dot
        out.add(name + b"." + ext)                  # appended
        out.add(PC.file_stem(name) + b"." + ext.upper())
        out.add(PC.file_stem(name).lower() + b"." + ext)
        out.add(PC.file_stem(name) + ext)           # dot lost
    return out


def gen_case(rng, complete, codes):
    name = gen_name(rng, complete)
    while PC.with_extension(name, b"shx") == name or (complete and PC.with_extension(name, b"dbf") == name):
        name = gen_name(rng, complete)
    shx, dbf = PC.with_extension(name, b"shx"), PC.with_extension(name, b"dbf")
    created = [name, shx] + ([dbf] if complete else [])
    dec = sorted(decoys(name) - set(created))
    # stale files: under the names the writer is about to create (longer than what it will write), under
    # decoy names, and a sibling shapefile sharing the first part of the name
    stale = {}
    for n in created:
        if rng.random() < 0.5:
            stale[n] = rng.choice([4, 100, 108, 5000, 20000])
    for n in rng.sample(dec, rng.randrange(0, 3)):
        stale[n] = rng.choice([4, 100, 300])
    if rng.random() < 0.3:
        other = rng.choice(STEMS) + b".shp"
        for n in (other, PC.with_extension(other, b"shx")):
            if n not in created:
                stale[n] = 236
    code = rng.choice(codes)
    nw = rng.choice([0, 1, 1, 2, 3, 5])
    specs = [shapes.gen_ctor(rng, code, "small") for _ in range(nw)]
    refused = []
    if complete:
        history = [(0, s) for s in specs]
        if nw and rng.random() < 0.25:
            other_code = rng.choice([c for c in codes if c != code])
            pos = rng.randrange(1, nw + 1)
            history.insert(pos, (0, shapes.gen_ctor(rng, other_code, "small")))
            refused.append(pos)
        ending = 0
    else:
        history = [("w", s) for s in specs]
        if nw and rng.random() < 0.25:
            other_code = rng.choice([c for c in codes if c != code])
            pos = rng.randrange(1, nw + 1)
            history.insert(pos, ("w", shapes.gen_ctor(rng, other_code, "small")))
            refused.append(pos)
        for _ in range(rng.randrange(0, 2)):
            history.insert(rng.randrange(0, len(history) + 1), ("f",))
        refused = [i for i, h in enumerate(history) if h[0] == "w" and h[1][0] != code and nw] if refused else []
        ending = rng.randrange(2)
    k = rng.randrange(10)
    if k < 4:
        rm = b""
    elif k == 4:
        rm = shx
    elif k == 5:
        rm = name
    elif k == 6:
        rm = dbf
    elif k == 7 and stale:
        rm = rng.choice(sorted(stale))
    elif k == 8 and dec:
        rm = rng.choice(dec)
    else:
        rm = b"absent.shx"
    queries = [(name, 1), (shx, 1), (dbf, 0)] + [(n, 0) for n in sorted(set(stale) | set(rng.sample(dec, min(2, len(dec)))))
                                                 if n not in (name, shx, dbf)]
    ops = []
    if complete:
        for _ in range(rng.randrange(0, 3)):
            ops.append(rng.choice([("it", rng.choice([-1, 1, 2])), ("seek", rng.randrange(0, nw + 2)), ("count",)]))
        ops.append(("readall",))
    else:
        for _ in range(rng.randrange(0, 3)):
            ops.append(rng.choice([("it", rng.choice([-1, 1, 2])), ("seek", rng.randrange(0, nw + 2)), ("count",),
                                   ("nth", rng.randrange(0, nw + 2)), ("hint",), ("skiptake", rng.randrange(0, 3), rng.randrange(1, 3))]))
        ops.append(("readall",))
    case = PC.path_case(complete, sorted(stale.items()), name, history, rm, queries, ops, ending=ending)
    meta = {"complete": complete, "name": name, "stale": stale, "history_len": len(history) + (1 if (not complete and ending == 1) else 0),
            "nw": nw, "rm": rm, "queries": queries, "ops": ops, "code": code,
            "refused": set(refused) if complete else {i for i, h in enumerate(history) if h[0] == "w" and h[1][0] != code and any(
                x[0] == "w" and x[1][0] == code for x in history[:i])}}
    return case, meta


def _show(b):
    return b.decode("utf-8", "replace")


def oracle(meta, r):
    """What the properties say about the directory and the read, from the case alone."""
    p = PC.parse_path(r, meta["complete"], meta["queries"], meta["ops"])
    name = meta["name"]
    if p["status"] != 0:
        return "writing %r by path failed or panicked: %r" % (_show(name), r[:8])
    shx, dbf = PC.with_extension(name, b"shx"), PC.with_extension(name, b"dbf")
    created = {name, shx} | ({dbf} if meta["complete"] else set())
    for i, c in enumerate(p["calls"]):
        want_refused = i in meta["refused"]
        if want_refused and c[:2] != ("err", 8):
            return "call %d (a shape of another type) returned %r" % (i, c)
        if not want_refused and c != ("ok",):
            return "call %d returned %r" % (i, c)
    rm = meta["rm"]
    present = (set(meta["stale"]) | created) - ({rm} if rm else set())
    if p["removed"] != int(bool(rm) and rm in (set(meta["stale"]) | created)):
        return "removing %r after the writer was dropped: %s" % (_show(rm), "failed" if not p["removed"] else "succeeded although no such file should exist")
    if p["nfiles"] != len(present):
        return ("the directory holds %d files after Writer/ShapeWriter::from_path(%r), expected the %d files %s"
                % (p["nfiles"], _show(name), len(present), sorted(_show(x) for x in present)))
    nw = meta["nw"]
    for q, _ in meta["queries"]:
        got = p["files"][q]
        if q not in present:
            if got is not None:
                return "a file %r exists after writing %r by path" % (_show(q), _show(name))
            continue
        if q in created:
            if q == dbf and meta["complete"]:
                if got != "other":
                    return "the table %r is %r" % (_show(q), got)
                continue
            if got is None or got == "other":
                return "the file %r is missing (or not a shapefile file) after writing %r by path" % (_show(q), _show(name))
            size, data = got
            if q == shx and size != 100 + 8 * nw:
                return ("the index %r holds %d bytes after %d shapes were written by path (stale file of %s bytes before)"
                        % (_show(q), size, nw, meta["stale"].get(q)))
            if q == name and data is not None:
                words = int.from_bytes(data[24:28], "big")
                if 2 * words != size:
                    return ("the file %r holds %d bytes but its header announces %d (stale file of %s bytes before)"
                            % (_show(q), size, 2 * words, meta["stale"].get(q)))
        else:
            if got is None or got == "other" or got[0] != max(4, meta["stale"][q]):
                return "the unrelated file %r (%d bytes) was changed by writing %r by path: now %r" % (_show(q), meta["stale"][q], _show(name), got and got[0])
    rd = p["read"]
    if rm == name:
        return None if rd == [1, 13] else "opening the removed %r returned %r" % (_show(name), rd[:6])
    if meta["complete"] and rm == dbf:
        return None if rd == [1, 12] else "Reader::from_path without its .dbf returned %r instead of MissingDbf" % (rd[:6],)
    if not rd or rd[0] != 0:
        return "opening %r by path after writing it failed: %r" % (_show(name), rd[:6])
    return None


def stage(rep, binary, rng, tag, complete, n, codes=(1, 3, 5, 8, 11, 13, 15, 18, 21, 23, 25, 28, 31)):
    os.environ["SFV_TMP"] = os.path.join(sfv.CACHE, "tmp")
    os.makedirs(os.environ["SFV_TMP"], exist_ok=True)
    cases, metas = [], {}
    for _ in range(n):
        c, m = gen_case(rng, complete, list(codes))
        cases.append(c)
        metas[tuple(c)] = m
    label = "path (complete)" if complete else "path"
    impl = stages.correspondence(rep, tag, binary, cases, label, oracle=lambda c, r: oracle(metas[tuple(c)], r))
    rep.cov.setdefault("by_path_cases", {})
    d = rep.cov["by_path_cases"]
    d["cases"] = d.get("cases", 0) + len(cases)
    d["names_with_several_dots"] = d.get("names_with_several_dots", 0) + sum(1 for m in metas.values() if m["name"].count(b".") > 1)
    d["names_without_extension"] = d.get("names_without_extension", 0) + sum(1 for m in metas.values() if PC.extension(m["name"]) is None)
    d["stale_file_under_a_created_name"] = d.get("stale_file_under_a_created_name", 0) + sum(
        1 for m in metas.values() if m["name"] in m["stale"] or PC.with_extension(m["name"], b"shx") in m["stale"])
    d["a_file_removed_before_reading"] = d.get("a_file_removed_before_reading", 0) + sum(1 for m in metas.values() if m["rm"])
    return impl
