"""C06 — Typed reads agree with generic reads; shape type identity is consistent."""
import cases as C
import files as F
import refesri
import shapes
import sfv
import stages

TYPES14 = [0] + shapes.ALL_CODES


def spec_of(rng, code):
    return [0] if code == 0 else shapes.gen_ctor(rng, code, "mixed", True, 3, 4)


def parse_conv(r, n):
    """Result of a conv case: per-shape (shapetype, concrete, try_from), bulk."""
    c = C.Cur(r)
    per = []
    for _ in range(n):
        st, ct, tag = c.next(), c.next(), c.next()
        if tag == 0:
            start = c.i
            shapes.parse_shape(c)
            per.append((st, ct, ("ok", c.v[start:c.i])))
        else:
            per.append((st, ct, ("err",) + tuple(c.err())))
    tag = c.next()
    if tag == 0:
        k = c.next()
        out = []
        for _ in range(k):
            start = c.i
            shapes.parse_shape(c)
            out.append(c.v[start:c.i])
        bulk = ("ok", out)
    else:
        bulk = ("err",) + tuple(c.err())
    assert c.at_end()
    return per, bulk


def run(rep, tier, rng):
    stages.proof_stage(rep, "C06")
    dev = sfv.build_harness("dev")
    # ---- conversions: the full requested x actual matrix, then bulk lists
    conv_cases, meta = [], []
    reps = 3 if tier == "thorough" else 1
    for _ in range(reps):
        for S in shapes.ALL_CODES:
            for T in TYPES14:
                spec = spec_of(rng, T)
                conv_cases.append([7, S, 1] + spec)
                meta.append((S, [T], [spec]))
            for _k in range(4 if tier == "thorough" else 2):
                n = rng.randint(1, 4)
                types = [S] * n
                if rng.random() < 0.7:
                    types[rng.randrange(n)] = rng.choice([t for t in TYPES14 if t != S])
                    if rng.random() < 0.4:
                        types.insert(rng.randrange(n + 1), rng.choice([t for t in TYPES14 if t != S]))
                specs = [spec_of(rng, t) for t in types]
                conv_cases.append([7, S, len(specs)] + [x for sp in specs for x in sp])
                meta.append((S, types, specs))
    flat_specs = [[2] + sp for (_, _, sps) in meta for sp in sps]
    rendered = sfv.run_impl(dev, flat_specs)
    impl = stages.correspondence(rep, "conv", dev, conv_cases, "conv(try_from / from / bulk)")
    nfail, k = 0, 0
    pairs = set()
    for case, (S, types, specs), r in zip(conv_cases, meta, impl):
        vals = [rendered[k + i][1:] for i in range(len(specs))]
        k += len(specs)
        if r == [-3]:
            continue
        per, bulk = parse_conv(r, len(specs))
        msg = None
        for (st, ct, res), T, v in zip(per, types, vals):
            pairs.add((S, T))
            if st != T or ct != T:
                msg = "a value of type %d reports Shape::shapetype() = %d, HasShapeType = %d" % (T, st, ct)
            elif T == S and res != ("ok", v):
                msg = "try_from of a value of the requested type %d is not the identity" % S
            elif T != S and res != ("err", 8, S, T):
                msg = "try_from::<%d>(value of type %d) returned %r instead of Mismatch(requested %d, actual %d)" % (S, T, res[:4], S, T)
        first = next((t for t in types if t != S), None)
        want = ("ok", vals) if first is None else ("err", 8, S, first)
        if not msg and bulk != want:
            msg = "bulk conversion to %d of types %r returned %r" % (S, types, bulk if bulk[0] == "err" else ("ok", len(bulk[1])))
        if msg:
            nfail += 1
            if nfail == 1:
                rep.violation({"kind": "oracle", "what": msg, "case_kind": "conv", "case": case, "requested": S, "types": types})
    rep.cov["requested_x_actual_pairs_covered"] = len(pairs)
    # ---- typed vs generic reads of files of every actual type
    rcases, rmeta = [], []
    bcases, bmeta = [], []
    for T in TYPES14:
        for rep_i in range(2 if tier == "thorough" else 1):
            m = F.gen_model(rng, T, nrecs=rng.randint(1, 3), null_prob=0.25 if rep_i else 0.0)
            m.pop("trailing", None)
            shp = refesri.encode_shp(m)
            shx = refesri.encode_shx(m)
            items = [refesri.denote(r["shape"]) for r in m["records"]]
            codes = [r["shape"]["code"] for r in m["records"]]
            for with_idx in (False, True):
                ops = [("it", -1)]
                rcases.append(C.read_case(-1, shp, shx if with_idx else None, ops))
                rmeta.append((T, -1, items, codes, with_idx))
                for S in shapes.ALL_CODES:
                    rcases.append(C.read_case(S, shp, shx if with_idx else None, ops))
                    rmeta.append((T, S, items, codes, with_idx))
            # random access by type and the bulk reads (read_nth_shape_as, read_as / read); also under a header that
            # announces another type than the records carry (the header type plays no part in reading records)
            for htype in (T, rng.choice([t for t in TYPES14 if t != T])):
                m2 = dict(m)
                m2["type"] = htype
                shp2, shx2 = refesri.encode_shp(m2), refesri.encode_shx(m2)
                n = len(codes)
                for with_idx in (False, True):
                    ops2 = ([("nth", i) for i in range(n)] if with_idx else []) + [("readall",)]
                    for S in [-1] + shapes.ALL_CODES:
                        bcases.append(C.read_case(S, shp2, shx2 if with_idx else None, ops2))
                        bmeta.append((T, S, items, codes, with_idx, ops2, htype))
    rimpl = stages.correspondence(rep, "read", dev, rcases, "read(typed x actual matrix)")
    generic = {}
    for (T, S, items, codes, wi), r, c in zip(rmeta, rimpl, rcases):
        rd = C.parse_read(r, [("it", -1)])
        if S == -1:
            generic[(id(items), wi)] = rd
    for (T, S, items, codes, wi), r, c in zip(rmeta, rimpl, rcases):
        if S == -1:
            continue
        rd = C.parse_read(r, [("it", -1)])
        g = generic[(id(items), wi)]
        msg = None
        if "ops" not in rd or "ops" not in g:
            msg = "open failed"
        else:
            gi = g["ops"][0]["items"]
            want = []
            for it, code in zip(gi, codes):
                if it[0] != "ok":
                    want.append(tuple(it))
                    break
                if code == S:
                    want.append(("ok", list(it[1])))
                else:
                    want.append(("err", 8, S, code))
                    if not wi:
                        break          # without index the iteration ends after an error
            got = [tuple(x) if x[0] != "ok" else ("ok", list(x[1])) for x in rd["ops"][0]["items"]]
            if got != want:
                msg = ("typed read as %d of a file of type %d (records %r, index %r) yields %r, generic read + conversion gives %r"
                       % (S, T, codes, wi, [x[:4] if x[0] != "ok" else "ok" for x in got], [x[:4] if x[0] != "ok" else "ok" for x in want]))
        if msg:
            nfail += 1
            if nfail == 1:
                rep.violation({"kind": "oracle", "what": msg, "case_kind": "read", "case": c, "requested": S, "file_type": T})
    # ---- the path-based one-liners: `read_shapes` (generic) and `read_shapes_as::<T>` of files on disk whose index
    # lists the records in another order than they are stored: both follow the index, so they agree
    import C14
    import pathio
    for mi in range(6 if tier != "thorough" else 26):
        code = shapes.ALL_CODES[(3 * mi + 2) % 13]
        m = F.gen_model(rng, code, nrecs=3, null_prob=0.0, allow_degenerate=False)
        m.pop("trailing", None)
        shp, entries = C14.build_layout(rng, m, (2, 0, 1), [0, 1, 0, 2], lambda k: bytes(k))
        shx = refesri.encode_shx(m, entries=entries)
        msg = pathio.check(rep, dev, "c06", "perm%d" % mi, shp, shx, code, "file on disk with a permuted index")
        if msg:
            nfail += 1
            if nfail == 1:
                rep.violation({"kind": "oracle", "what": msg, "case_kind": "path", "type": code})
    pathio.cleanup("c06")
    # ---- a record whose type code is no ESRI code, among records of the requested type: the typed read reports what the
    # generic read reports (the same InvalidShapeType error), item by item, by iteration, random access and in bulk
    import struct
    ucases, umeta = [], []
    for mi in range(13 if tier != "thorough" else 39):
        code = shapes.ALL_CODES[mi % 13]
        m = F.gen_model(rng, code, nrecs=3, null_prob=0.0, allow_degenerate=False)
        m.pop("trailing", None)
        shp, shx = bytearray(refesri.encode_shp(m)), refesri.encode_shx(m)
        pos = 100 + len(refesri.encode_record(1, m["records"][0]["shape"])) + 8
        bad = [2, 4, 32, -1, 2147483647, -2147483648, 0x01000008, 6, 33][mi % 9]
        shp[pos:pos + 4] = struct.pack("<i", bad)
        for wi in (True, False):
            for ops in ([("it", -1)], [("nth", 0), ("nth", 1), ("nth", 2)] if wi else [("it", 1), ("it", -1)], [("readall",)]):
                for req in (-1, code):
                    ucases.append(C.read_case(req, bytes(shp), shx if wi else None, ops))
                    umeta.append((code, bad, wi, ops, req))
    uimpl = stages.correspondence(rep, "read_undef", dev, ucases, "read(record with an undefined type code, typed and generic)")
    for i in range(0, len(ucases), 2):
        (code, bad, wi, ops, _), rg, rt = umeta[i], uimpl[i], uimpl[i + 1]
        g, t = C.parse_read(rg, ops), C.parse_read(rt, ops)
        if g.get("ops") != t.get("ops"):
            nfail += 1
            rep.violation({"kind": "oracle", "what": "a file of type %d whose second record carries the undefined type code %d, %s index, "
                           "ops %r: the typed reader answers %r, the generic reader %r" % (
                               code, bad, "with" if wi else "without", ops,
                               [[x[:3] if isinstance(x, tuple) and x[0] != "ok" else "ok" for x in o.get("items", [])] or o for o in t.get("ops", [])][:3],
                               [[x[:3] if isinstance(x, tuple) and x[0] != "ok" else "ok" for x in o.get("items", [])] or o for o in g.get("ops", [])][:3]),
                           "case_kind": "read", "case": ucases[i + 1]})
            break
    rep.cov["undefined_code_records_typed_vs_generic"] = len(ucases)
    # ---- the complete reader: the generic bulk read continues from where the reader stands, like the typed one
    import C08
    qcases, qmeta = [], []
    for code in (shapes.ALL_CODES if tier == "thorough" else rng.sample(shapes.ALL_CODES, 4)):
        a = shapes.gen_ctor(rng, code, "small", True, 1, 2)
        for n, k in ((4, 2), (4, 0), (3, 3), (5, 1)):
            for pre in ([("seek", k)], [("it", 1), ("seek", k)], [("seek", k), ("it", 1)]):
                ops = pre + [("readall",)]
                qcases.append(C08.pair_case([(0, a)] * n, ops))
                qmeta.append((n, k, ops))
    qimpl = stages.correspondence(rep, "pair_bulk", dev, qcases, "pair(bulk read of the complete reader after seek)", vm_sample=20)
    for c, (n, k, ops), r in zip(qcases, qmeta, qimpl):
        if r in ([-4], [-2], [2], [-5]):
            continue
        res = C08.parse_pair(r, n, ops)
        if "ops" not in res:
            continue
        first = k + (1 if ops[-2][0] == "it" else 0)
        ids = [it[2] for it in res["ops"][-1]["items"] if it[0] == "ok"]
        if ids != list(range(first, n)):
            nfail += 1
            rep.violation({"kind": "oracle", "what": "complete reader, %d pairs, after %r the bulk read returned the rows %r, expected %r"
                           % (n, ops[:-1], ids, list(range(first, n))), "case_kind": "pair", "case": c})
            break
    # ---- the complete reader's typed entry points on a table with fewer rows than the file has records, a record of
    # another type lying beyond the last row: typed and generic answers are the same pairs (kind 17)
    tcases, tmeta = [], []
    for T, U in ((21, 1), (3, 8), (8, 1), (15, 5), (31, 11), (1, 21)) if tier != "thorough" else [(a, b) for a in shapes.ALL_CODES for b in (1, 8) if a != b]:
        recs = [F.gen_rec(rng, T, "finite", allow_degenerate=False) for _ in range(3)] + [F.gen_rec(rng, U, "finite", allow_degenerate=False)]
        m = {"type": T, "box": [0] * 8, "records": [{"num": i + 1, "shape": r} for i, r in enumerate(recs)]}
        shp, shx = refesri.encode_shp(m), refesri.encode_shx(m)
        for nrows in (1, 2, 3):
            for ops in ([("readall",)], [("it", -1)], [("it", 1), ("readall",)]):
                for wi in (True, False):
                    for req in (-1, T):
                        tcases.append([17, req] + C.pack_bytes(shp) + ([1] + C.pack_bytes(shx) if wi else [0]) + [nrows] + C08.pair_case([], ops)[2:])
                        tmeta.append((T, U, nrows, ops, wi, req))
    timpl = stages.correspondence(rep, "pairfile_typed", dev, tcases, "pairfile(typed and generic complete reader, table shorter than the file)", vm_sample=20)
    for i in range(0, len(tcases), 2):
        (T, U, nrows, ops, wi, _), rg, rt = tmeta[i], timpl[i], timpl[i + 1]
        if rg != rt and nrows < 3:
            nfail += 1
            rep.violation({"kind": "oracle", "what": "complete reader, 3 records of type %d then one of type %d, table of %d rows, %s index, ops %r: the typed "
                           "entry points answer %r..., the generic ones %r..." % (T, U, nrows, "with" if wi else "without", ops, rt[:8], rg[:8]),
                           "case_kind": "pairfile", "case": tcases[i + 1][:80]})
            break
    # ---- typed random access and bulk reads
    bimpl = stages.correspondence(rep, "read_bulk", dev, bcases, "read(read_nth_shape_as / read_as / read, typed x actual)")
    for (T, S, items, codes, wi, ops2, htype), r, c in zip(bmeta, bimpl, bcases):
        rd = C.parse_read(r, ops2)
        msg = None
        if "ops" not in rd:
            msg = "open failed on a file whose header type is %d: %r" % (htype, rd)
        else:
            def conv(it, code):
                if S == -1 or code == S:
                    return ("ok", list(it))
                return ("err", 8, S, code)
            outs = rd["ops"]
            if wi:
                for i, code in enumerate(codes):
                    got = outs[i]["nth"]
                    want = conv(items[i], code)
                    got_n = None if got is None else (tuple(got) if got[0] != "ok" else ("ok", list(got[1])))
                    if got_n != want:
                        msg = ("read_nth_shape_as::<%d>(%d) of a record of type %d returned %r, the generic read converted gives %r"
                               % (S, i, code, None if got is None else got[:4], want[:4] if want[0] != "ok" else "ok"))
                        break
            if not msg:
                want_all = []
                err = None
                for it, code in zip(items, codes):
                    cv = conv(it, code)
                    if cv[0] != "ok":
                        err = cv
                        break
                    want_all.append(cv[1])
                got = outs[-1]["all"]
                if err:
                    if tuple(got) != err:
                        msg = "read_as::<%d> (header type %d, records %r) returned %r, expected %r" % (S, htype, codes, got[:4], err)
                elif got[0] != "ok" or [list(v) for v in got[1]] != want_all:
                    msg = "read_as::<%d> (header type %d, records %r) did not return the %d shapes: %r" % (S, htype, codes, len(want_all), got[:2] if got[0] != "ok" else len(got[1]))
        if msg:
            nfail += 1
            if nfail == 1:
                rep.violation({"kind": "oracle", "what": msg, "case_kind": "read", "case": c, "requested": S, "file_type": T})
    rep.cov["rule"] = ("conversions: the full matrix of 13 requested types x 14 actual kinds (values from the public constructors, null "
                       "shape included) through Shape::shapetype, HasShapeType, TryFrom, From, and bulk conversions of lists with "
                       "a foreign value (also the null shape) at a random position; reads: reference-encoder files of each of the "
                       "14 types (with null records) read generically and as each of the 13 concrete types, with and without "
                       "index, by iteration, by typed random access (read_nth_shape_as) and in bulk (read_as / read), also under a header "
                       "announcing another type; oracle: typed result = generic result converted, errors name requested and actual type; "
                       "non-trivial = distinct case")
    rep.cov["exhaustive"] = True
    rep.sample({"conv_case": conv_cases[5][:20], "requested": meta[5][0], "actual": meta[5][1]})
    rep.cov["oracle"] = {"conversions": len(conv_cases), "typed_reads": len(rcases), "failing": nfail}
