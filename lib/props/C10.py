"""C10 — A writer holds one shape type; a rejected write changes nothing."""
import itertools

import cases as C
import shapes
import sfv
import stages


def run(rep, tier, rng):
    stages.proof_stage(rep, "C10")
    dev = sfv.build_harness("dev")
    L = 4 if tier == "thorough" else 2
    bases = [list(t) for k in range(0, L + 1) for t in itertools.product("af", repeat=k)]
    cases, meta = [], []
    for t1 in shapes.ALL_CODES:
        a = shapes.gen_ctor(rng, t1, "mixed")
        for t2 in shapes.ALL_CODES:
            if t1 == t2:
                continue
            x = shapes.gen_ctor(rng, t2, "mixed")
            hs = rng.random() < 0.5
            for b in bases:
                if tier != "thorough" and rng.random() < 0.4:
                    continue
                h = ["a"] + b                      # the first write fixes the type
                for pos in range(1, len(h) + 1):
                    if tier != "thorough" and rng.random() < 0.5:
                        continue
                    hx = h[:pos] + ["x"] + h[pos:]
                    wire = lambda hh: [("f",) if c == "f" else ("w", a if c == "a" else x) for c in hh]
                    ending = rng.randint(0, 1)
                    cases.append(C.whist_case(hs, ending, wire(hx)))
                    meta.append({"h": hx, "pos": pos, "t1": t1, "t2": t2, "without": C.whist_case(hs, ending, wire(h))})
    # the rejected call right after a finalize that FAILED (one-shot destination fault inside finalize): the writer is
    # then in its `finalize_interrupted` state, which a rejected write must not touch either
    fpairs = [(t1, t2) for t1 in shapes.ALL_CODES for t2 in shapes.ALL_CODES if t1 != t2]
    if tier != "thorough":
        fpairs = rng.sample(fpairs, 20)
    probes = []
    for t1, t2 in fpairs:
        a, x = shapes.gen_ctor(rng, t1, "small"), shapes.gen_ctor(rng, t2, "small")
        probes.append((t1, t2, a, x))
    nops = [(C.parse_whist(r)["shp"]["ops"] - 16, C.parse_whist(r)["shx"]["ops"] - 16)
            for r in sfv.run_impl(dev, [C.whist_case(True, 0, [("w", a)]) for (_, _, a, _) in probes])]
    for (t1, t2, a, x), (n_a, n_ax) in zip(probes, nops):
        for j in ((0, 1, 3, 7, 13, 14, 15) if tier == "thorough" else (0, 6, 14)):
            for hs in (True, False):
                for dest in ((1, 2) if hs else (1,)):
                    k = (n_a if dest == 1 else n_ax) + j      # the j-th operation of the first finalize on that destination
                    hx = [("w", a), ("f",), ("w", x), ("w", a), ("f",)]
                    h = [("w", a), ("f",), ("w", a), ("f",)]
                    cases.append(C.whist_case(hs, 0, hx, fault=(dest, k, 0)))
                    meta.append({"h": ["a", "F", "x", "a", "f"], "pos": 2, "t1": t1, "t2": t2,
                                 "without": C.whist_case(hs, 0, h, fault=(dest, k, 0))})
    # the rejected call right after a FIRST write that failed part-way (the writer already holds the type of that shape)
    for (t1, t2, a, x), (n_a, n_ax) in zip(probes, nops):
        for j in sorted(set([0, 1, 13, 14, max(0, n_a - 1)] if tier != "thorough" else range(0, n_a))):
            if j >= n_a:
                continue
            hx = [("w", a), ("w", x), ("w", a), ("f",)]
            h = [("w", a), ("w", a), ("f",)]
            cases.append(C.whist_case(True, 0, hx, fault=(1, j, 0)))
            meta.append({"h": ["A", "x", "a", "f"], "pos": 1, "t1": t1, "t2": t2,
                         "without": C.whist_case(True, 0, h, fault=(1, j, 0))})
    # the bulk helper `write_shapes` offered a collection of another type after single calls fixed the type
    for (t1, t2, a, x) in probes:
        for prefix in (["a"], ["a", "f"], ["a", "a"], ["f", "a"]):
            for ntail in (1, 2):
                hs = rng.random() < 0.5
                wire = [("f",) if c == "f" else ("w", a) for c in prefix]
                cases.append(C.whist_case(hs, 3 + ntail, wire + [("w", x)] * ntail))
                meta.append({"h": prefix + ["X"], "pos": len(prefix), "t1": t1, "t2": t2, "without": C.whist_case(hs, 0, wire)})
    rep.cov["bulk_tail_of_another_type_cases"] = sum(1 for m in meta if "X" in m["h"])
    rep.cov["after_failed_first_write_cases"] = sum(1 for m in meta if "A" in m["h"])
    rep.cov["after_failed_finalize_cases"] = sum(1 for m in meta if "F" in m["h"])
    rep.cov["rule"] = ("all 13x12 ordered pairs (file type, offered type); histories 'a' + {a, finalize}^<=%d with the rejected "
                       "write inserted at every later position (sampled in the quick tier), with/without shx, ending drop or "
                       "finalize+drop; oracle: the rejected call returns MismatchShapeType{requested: file type, actual: offered "
                       "type}, and bytes, positions and complete operation traces of both destinations equal those of the history "
                       "without the call; the same with the rejected call placed right after a finalize that failed (one-shot fault at "
                       "several operations of the header rewrite, either destination); through the complete Writer (real dbase): "
                       "the row of the rejected pair is not written, counts stay equal and later pairs stay paired; "
                       "non-trivial = distinct case" % L)
    rep.sample({"history": "".join(meta[0]["h"]), "file_type": meta[0]["t1"], "offered": meta[0]["t2"]})
    impl = stages.correspondence(rep, "whist", dev, cases, "whist")
    wo = {}
    for m in meta:
        wo.setdefault(tuple(m["without"]), None)
    wl = list(wo)
    wres = dict(zip(wl, [C.parse_whist(r) for r in sfv.run_impl(dev, [list(w) for w in wl])]))
    nfail, n_after_failed = 0, 0
    for c, m, r in zip(cases, meta, impl):
        res, base = C.parse_whist(r), wres[tuple(m["without"])]
        msg = None
        if "special" in res:
            msg = "writer panicked"
        else:
            got = res["results"][m["pos"]]
            if got != ("err", 8, m["t1"], m["t2"]):
                msg = "rejected write returned %r instead of MismatchShapeType(%d, %d)" % (got, m["t1"], m["t2"])
            else:
                others = res["results"][:m["pos"]] + res["results"][m["pos"] + 1:]
                if others != base["results"]:
                    msg = "results of the other calls changed"
                for dv in ("shp", "shx"):
                    if res[dv]["buf"] != base[dv]["buf"] or res[dv]["log"] != base[dv]["log"] or res[dv]["ops"] != base[dv]["ops"]:
                        msg = "the rejected write left a trace on the %s destination" % dv
        rep.dist("pair_%d_%d" % (m["t1"], m["t2"]))
        if "F" in m["h"] and "special" not in res and res["results"][1][0] == "err":
            n_after_failed += 1
        if msg:
            nfail += 1
            if nfail == 1:
                rep.violation({"kind": "oracle", "what": msg, "case_kind": "whist", "case": c, "history": "".join(m["h"]),
                               "impl_result": r})
    # ---- the names under which the error message shows the two types (`Display` of ShapeType, used by the Display of
    # Error::MismatchShapeType): the ESRI names
    import C19
    trows = sfv.run_impl(dev, [[1, code] for code in shapes.ALL_CODES])
    for code, row in zip(shapes.ALL_CODES, trows):
        rep.count_case((1, code, tuple(row)))
        name = bytes(row[5:]).decode("utf-8", "replace") if len(row) > 5 else None
        if name != C19.ESRI[code][3]:
            nfail += 1
            rep.violation({"kind": "oracle", "what": "a type-mismatch error involving a %s shape names it %r in its message"
                           % (C19.ESRI[code][3], name), "case_kind": "table", "case": [1, code]})
            break
    # ---- through the complete writer: the rejected shape's attribute row is not written either
    import C08
    pcases, pmeta = [], []
    ppairs = [(t1, t2) for t1 in shapes.ALL_CODES for t2 in shapes.ALL_CODES if t1 != t2]
    if tier != "thorough":
        ppairs = rng.sample(ppairs, 40)
    pops = [("count",), ("it", -1)]
    for t1, t2 in ppairs:
        a, b, x = shapes.gen_ctor(rng, t1, "small", True, 1, 2), shapes.gen_ctor(rng, t1, "small", True, 2, 3), shapes.gen_ctor(rng, t2, "small", True, 1, 2)
        # "p": a shape written through the bare ShapeWriter before it is wrapped into the complete writer
        # (`Writer::new` accepts a writer that already holds a type)
        # "X": a pair of the other type inside the collection handed to the bulk helper `write_shapes_and_records` at the end
        for h in (["a", "x"], ["a", "x", "b"], ["a", "b", "x", "x", "a"], ["p", "x", "a", "b"], ["p", "p", "a", "x", "b"],
                  ["a", "X"], ["a", "b", "X", "X"], ["p", "X"]):
            calls = [(3 if ch == "p" else 5 if ch == "X" else 0, a if ch in "ap" else b if ch == "b" else x) for ch in h]
            pcases.append(C08.pair_case(calls, pops))
            pmeta.append((h, t1, t2))
    pimpl = stages.correspondence(rep, "pair", dev, pcases, "pair(rejected shape through the complete writer)", vm_sample=30)
    for c, (h, t1, t2), r in zip(pcases, pmeta, pimpl):
        msg = None
        if r in ([-4], [-2], [2], [-5]):
            msg = "panic in the complete writer/reader"
        else:
            res = C08.parse_pair(r, len(h), pops)
            n_ok = sum(1 for ch in h if ch in "ab")
            n_pre = sum(1 for ch in h if ch == "p")
            if "X" in h:
                h = h[:h.index("X")] + ["x"]           # the whole bulk is one call: refused at its first pair
            for j, ch in enumerate(h):
                want = ("err", 8, t1, t2) if ch == "x" else ("ok",)
                if res["results"][j] != want:
                    msg = "call %d of %s returned %r, expected %r" % (j, "".join(h), res["results"][j], want)
            if not msg and res["counts"] != (n_pre + n_ok, n_pre + n_ok, n_ok):
                msg = ("after %s: %d shp records, %d shx entries, %d dbf rows; %d pairs were accepted (the row of a rejected "
                       "shape must not be written)" % ("".join(h), res["counts"][0], res["counts"][1], res["counts"][2], n_ok))
            elif not msg and "ops" in res:
                ids = [it[2] for it in res["ops"][1]["items"] if it[0] == "ok"]
                want_ids = [j for j, ch in enumerate(h) if ch in "ab"]
                if ids != want_ids:
                    msg = "pairs read back carry row ids %r, expected %r" % (ids, want_ids)
            elif not msg:
                msg = "reader could not be opened"
        if msg:
            nfail += 1
            if nfail == 1:
                rep.violation({"kind": "oracle", "what": msg, "case_kind": "pair", "case": c[:400], "history": "".join(h)})
    rep.cov["complete_writer_histories"] = len(pcases)
    rep.cov["rejected_call_after_a_finalize_that_really_failed"] = n_after_failed
    rep.cov["pairs_covered"] = len([k for k in rep.cov["distribution"] if k.startswith("pair_")])
    rep.cov["distribution"] = {"cases": len(cases), "pairs": rep.cov["pairs_covered"]}
    rep.cov["oracle"] = {"checked": len(cases), "failing": nfail}
    rep.assumptions += ["dbase is the real crate in the complete-writer stage; in the model it is an ordered row store"]
