"""C10 — A writer holds one shape type; a rejected write changes nothing."""
import itertools

import cases as C
import shapes
import sfv
import stages


def run(rep, tier, rng):
    stages.proof_stage(rep, "C10")
    dev = sfv.build_harness("dev")
    L = 4 if tier == "thorough" else 2
    bases = [list(t) for k in range(0, L + 1) for t in itertools.product("af", repeat=k)]
    cases, meta = [], []
    for t1 in shapes.ALL_CODES:
        a = shapes.gen_ctor(rng, t1, "mixed")
        for t2 in shapes.ALL_CODES:
            if t1 == t2:
                continue
            x = shapes.gen_ctor(rng, t2, "mixed")
            hs = rng.random() < 0.5
            for b in bases:
                if tier != "thorough" and rng.random() < 0.4:
                    continue
                h = ["a"] + b                      # the first write fixes the type
                for pos in range(1, len(h) + 1):
                    if tier != "thorough" and rng.random() < 0.5:
                        continue
                    hx = h[:pos] + ["x"] + h[pos:]
                    wire = lambda hh: [("f",) if c == "f" else ("w", a if c == "a" else x) for c in hh]
                    ending = rng.randint(0, 1)
                    cases.append(C.whist_case(hs, ending, wire(hx)))
                    meta.append({"h": hx, "pos": pos, "t1": t1, "t2": t2, "without": C.whist_case(hs, ending, wire(h))})
    rep.cov["rule"] = ("all 13x12 ordered pairs (file type, offered type); histories 'a' + {a, finalize}^<=%d with the rejected "
                       "write inserted at every later position (sampled in the quick tier), with/without shx, ending drop or "
                       "finalize+drop; oracle: the rejected call returns MismatchShapeType{requested: file type, actual: offered "
                       "type}, and bytes, positions and complete operation traces of both destinations equal those of the history "
                       "without the call; non-trivial = distinct case" % L)
    rep.sample({"history": "".join(meta[0]["h"]), "file_type": meta[0]["t1"], "offered": meta[0]["t2"]})
    impl = stages.correspondence(rep, "whist", dev, cases, "whist")
    wo = {}
    for m in meta:
        wo.setdefault(tuple(m["without"]), None)
    wl = list(wo)
    wres = dict(zip(wl, [C.parse_whist(r) for r in sfv.run_impl(dev, [list(w) for w in wl])]))
    nfail = 0
    for c, m, r in zip(cases, meta, impl):
        res, base = C.parse_whist(r), wres[tuple(m["without"])]
        msg = None
        if "special" in res:
            msg = "writer panicked"
        else:
            got = res["results"][m["pos"]]
            if got != ("err", 8, m["t1"], m["t2"]):
                msg = "rejected write returned %r instead of MismatchShapeType(%d, %d)" % (got, m["t1"], m["t2"])
            else:
                others = res["results"][:m["pos"]] + res["results"][m["pos"] + 1:]
                if others != base["results"]:
                    msg = "results of the other calls changed"
                for dv in ("shp", "shx"):
                    if res[dv]["buf"] != base[dv]["buf"] or res[dv]["log"] != base[dv]["log"] or res[dv]["ops"] != base[dv]["ops"]:
                        msg = "the rejected write left a trace on the %s destination" % dv
        rep.dist("pair_%d_%d" % (m["t1"], m["t2"]))
        if msg:
            nfail += 1
            if nfail == 1:
                rep.violation({"kind": "oracle", "what": msg, "case_kind": "whist", "case": c, "history": "".join(m["h"]),
                               "impl_result": r})
    rep.cov["pairs_covered"] = len([k for k in rep.cov["distribution"] if k.startswith("pair_")])
    rep.cov["distribution"] = {"cases": len(cases), "pairs": rep.cov["pairs_covered"]}
    rep.cov["oracle"] = {"checked": len(cases), "failing": nfail}
    rep.assumptions += ["the complete writer (attribute row not written for a rejected shape) is covered by C08"]
