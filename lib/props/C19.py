"""C19 — Shape type codes form the ESRI table, for every 32-bit value."""
import concurrent.futures as cf
import subprocess

import sfv
import stages

# Independent transcription of the ESRI table (whitepaper p.4): code -> (Z, M, multipart, name)
ESRI = {0: (0, 0, None, "NullShape"), 1: (0, 0, 0, "Point"), 3: (0, 0, 1, "Polyline"), 5: (0, 0, 1, "Polygon"),
        8: (0, 0, 0, "Multipoint"), 11: (1, 1, 0, "PointZ"), 13: (1, 1, 1, "PolylineZ"), 15: (1, 1, 1, "PolygonZ"),
        18: (1, 1, 0, "MultipointZ"), 21: (0, 1, 0, "PointM"), 23: (0, 1, 1, "PolylineM"), 25: (0, 1, 1, "PolygonM"),
        28: (0, 1, 0, "MultipointM"), 31: (1, 0, 1, "Multipatch")}


def oracle_row(code, row):
    """row = [1, code', z, m, multipart, name...] or [0]."""
    if code not in ESRI:
        return None if row == [0] else "code %d decodes but is not an ESRI code" % code
    if row == [0]:
        return "ESRI code %d does not decode" % code
    z, m, mp, name = ESRI[code]
    if row[1] != code:
        return "decode then encode of %d gives %d" % (code, row[1])
    if row[2] != z or row[3] != m:
        return "has_z/has_m of code %d are %d/%d, ESRI says %d/%d" % (code, row[2], row[3], z, m)
    if mp is not None and row[4] != mp:
        return "is_multipart of code %d is %d, ESRI says %d" % (code, row[4], mp)
    if bytes(row[5:]).decode() != name:
        return "display name of code %d is %r, ESRI says %r" % (code, bytes(row[5:]).decode(), name)
    return None


def _sweep(args):
    binary, lo, hi = args
    p = subprocess.run([binary, "sweep", str(lo), str(hi)], stdout=subprocess.PIPE, text=True, timeout=3000)
    return [l for l in p.stdout.splitlines() if not l.startswith("WARNING")]


def run(rep, tier, rng):
    stages.proof_stage(rep, "C19")
    dev = sfv.build_harness("dev")
    rel = sfv.build_harness("release")
    rep.cov["rule"] = ("table cases: every code in [-70000,70000], all single-bit and boundary values, random 32-bit values "
                       "(model vs implementation, dev profile); exhaustive sweep of ShapeType::from over all 2^32 codes in the "
                       "release build, every code that decodes compared with the model's table and the ESRI table; files whose header "
                       "type or record type is an ESRI code, a near miss or a random value (record with nothing but its type code, "
                       "and with 16 more bytes) read by the generic reader; one shape of each type written: header and record "
                       "carry the ESRI code; "
                       "non-trivial = distinct case")
    # 1. exhaustive sweep over all 2^32 codes (release build, 16 processes)
    lo, hi = -(1 << 31), (1 << 31) - 1
    step = (1 << 32) // 16
    jobs = [(rel, lo + k * step, lo + (k + 1) * step - 1) for k in range(16)]
    valid, tried = [], 0
    with cf.ThreadPoolExecutor(16) as ex:
        for lines in ex.map(_sweep, jobs):
            for l in lines:
                if l.startswith("count"):
                    tried += int(l.split()[1])
                else:
                    valid.append([int(t) for t in l.split()])
    rep.cov["sweep_codes_tried"] = tried
    rep.cov["exhaustive"] = tried == (1 << 32)
    if tried != (1 << 32):
        raise sfv.CheckError("sweep covered %d codes instead of 2^32" % tried)
    sweep_cases = [[1, v[0]] for v in valid]
    sweep_rows = [[1] + v[1:] for v in valid]
    got = sorted(v[0] for v in valid)
    if got != sorted(ESRI):
        bad = sorted(set(got) ^ set(ESRI))
        c = bad[0]
        rep.violation({"kind": "oracle", "what": "set of decodable codes differs from the ESRI table at code %d" % c,
                       "case_kind": "table", "case": [1, c], "decodable": got})
    # 2. table cases through model and implementation
    codes = set(range(-70000, 70001) if tier == "thorough" else range(-3000, 3001))
    for b in range(32):
        for d in (-1, 0, 1):
            codes.add(((1 << b) + d + (1 << 31)) % (1 << 32) - (1 << 31))
            codes.add((-(1 << b) + d + (1 << 31)) % (1 << 32) - (1 << 31))
    for c in list(ESRI):
        for k in (8, 16, 24, 31):
            codes.add(((c + (1 << k)) + (1 << 31)) % (1 << 32) - (1 << 31))   # same low byte, other high bits
    for _ in range(20000 if tier == "thorough" else 2000):
        codes.add(rng.randint(lo, hi))
    cases = [[1, c] for c in sorted(codes)]
    rep.sample({"case": [1, 25], "meaning": "ShapeType::from(25)"})
    rep.sample({"case": [1, -2147483648]})
    stages.correspondence(rep, "table", dev, cases, "table",
                          nontrivial=lambda c, r: True, oracle=lambda c, r: oracle_row(c[1], r))
    # 3. rows found by the exhaustive sweep, against the model
    stages.correspondence(rep, "sweep", dev, sweep_cases, "table(sweep rows)", impl_out=sweep_rows,
                          oracle=lambda c, r: oracle_row(c[1], r))
    # 4. the code as read from files: in the file header and as the type of a record (a record holding nothing but
    # its type code, and one with 16 more bytes), generic reader
    import struct
    import cases as C
    import refesri
    fcodes = sorted(set(ESRI) | {2, 4, 6, 7, 9, 10, 12, 14, 16, 17, 19, 20, 22, 24, 26, 27, 29, 30, 32, 33, 99, 255, 256, 261, -1, -31,
                                 lo, hi, 1 << 24, 1 << 16, 5 << 8, (31 << 24)} | set(rng.randint(lo, hi) for _ in range(60)))
    fcases, fmeta = [], []
    for code in fcodes:
        for extra in (b"", bytes(16)):
            body = struct.pack("<i", code) + extra
            rec = struct.pack(">ii", 1, len(body) // 2) + body
            for htype in (0, code):
                hdr = bytearray(refesri.encode_header(0, [0] * 8, (100 + len(rec)) // 2))
                hdr[32:36] = struct.pack("<i", htype)
                fcases.append(C.read_case(-1, bytes(hdr) + rec, None, [("it", -1)]))
                fmeta.append((code, htype, len(extra), -1))
            # ... and by a typed reader (which must report an invalid code as invalid, not as a type mismatch)
            if not extra:
                hdr = refesri.encode_header(0, [0] * 8, (100 + len(rec)) // 2)
                for req in (1, 25):
                    fcases.append(C.read_case(req, hdr + rec, None, [("it", -1)]))
                    fmeta.append((code, 0, 0, req))
    # the type code of the .shx header is decoded like that of the .shp
    onept = refesri.encode_shp({"type": 1, "box": [0] * 8, "records": [{"num": 1, "shape": {"code": 1, "x": 0, "y": 0}}]})
    for code in fcodes:
        shx = bytearray(refesri.encode_header(1, [0] * 8, 54) + struct.pack(">ii", 50, 10))
        shx[32:36] = struct.pack("<i", code)
        fcases.append(C.read_case(-1, onept, bytes(shx), [("it", -1)]))
        fmeta.append((code, "shx", 0, -1))

    def oracle_file(c, r, m):
        code, htype, extra, req = m
        rd = C.parse_read(r, [("it", -1)])
        if rd.get("panic"):
            return "panic reading a record of type code %d" % code
        if htype == "shx":
            if code in ESRI:
                return None if "ops" in rd else "an index whose header carries ESRI code %d was refused" % code
            return None if rd.get("open_err") == [6, code] else ".shx header with type code %d was not refused with InvalidShapeType(%d): %r" % (code, code, {k: rd[k] for k in rd if k != "ops"})
        if req != -1:
            if "ops" not in rd:
                return "open failed"
            items = rd["ops"][0]["items"]
            want = ("err", 6, code) if code not in ESRI else (("err", 8, req, code) if code != req else None)
            if want is not None and (not items or tuple(items[0]) != want):
                return "a typed reader (%d) answered a record of type code %d with %r, expected %r" % (req, code, items[:1], want)
            return None
        if htype not in ESRI:
            return None if rd.get("open_err") == [6, htype] else "header with type code %d was not refused with InvalidShapeType(%d): %r" % (htype, htype, rd)
        if "open_err" in rd:
            return "header with ESRI type code %d was refused" % htype
        items = rd["ops"][0]["items"]
        if code not in ESRI:
            if not items or tuple(items[0]) != ("err", 6, code):
                return "a record whose type code %d is not an ESRI code was answered %r instead of InvalidShapeType(%d)" % (
                    code, items[:1], code)
        elif code == 0 and (not items or items[0][0] != "ok"):
            return "a null-shape record was not read"
        return None

    fimpl = stages.correspondence(rep, "files", dev, fcases, "read(type code in header and record)")
    for c, r, m in zip(fcases, fimpl, fmeta):
        msg = oracle_file(c, r, m)
        if msg:
            rep.violation({"kind": "oracle", "what": msg, "case_kind": "read", "case": c})
            break
    # 4b. codes whose low byte(s) alone would be an ESRI code (256 + c, 65536 + c, c << 8 ...), read from sources that hand
    # out one, two or three bytes per read call: the four bytes of the code are the code, however they arrive
    scases, smeta = [], []
    tricky = sorted({256 * k + c0 for c0 in ESRI for k in (1, 2, 256, 65536)} | {c0 << 8 for c0 in ESRI if c0})
    if tier != "thorough":
        tricky = rng.sample(tricky, 24)
    for code in tricky:
        body = struct.pack("<i", code) + bytes(16)
        rec = struct.pack(">ii", 1, len(body) // 2) + body
        for sched in ([1], [3], [2, 1]):
            hdr = bytearray(refesri.encode_header(0, [0] * 8, (100 + len(rec)) // 2))
            scases.append(C.read_case(-1, bytes(hdr) + rec, None, [("it", -1)], sched=sched))
            smeta.append((code, "record", sched))
            hdr[32:36] = struct.pack("<i", code)
            scases.append(C.read_case(-1, bytes(hdr) + rec, None, [("it", -1)], sched=sched))
            smeta.append((code, "header", sched))
    simpl = stages.correspondence(rep, "files_short", dev, scases, "read(type code arriving in pieces)")
    for c, r, (code, where, sched) in zip(scases, simpl, smeta):
        rd = C.parse_read(r, [("it", -1)])
        good = (rd.get("open_err") == [6, code]) if where == "header" else ("ops" in rd and rd["ops"][0]["items"][:1] == [("err", 6, code)])
        if not good:
            rep.violation({"kind": "oracle", "what": "type code %d in the %s, read from a source delivering %r bytes per call, was not refused with "
                           "InvalidShapeType(%d): %r" % (code, where, sched, code, rd.get("open_err") or (rd.get("ops") or [{}])[0].get("items", [])[:1]),
                           "case_kind": "read", "case": c})
            break
    # 4c. through the complete reader (shapes paired with table rows): a record whose code is no ESRI code is reported as
    # such wherever the table ends (kind 17: fewer rows than records, as many, more)
    import C08
    pt = lambda i: {"num": i + 1, "shape": {"code": 1, "x": i, "y": i}}
    pcases, pmeta = [], []
    for code in ([2, 19, 267, -11, lo] if tier != "thorough" else [2, 4, 19, 32, 267, -11, -1, lo, hi]):
        for bad_at in (0, 2):
            m = {"type": 1, "box": [0] * 8, "records": [pt(i) for i in range(3)]}
            shp = bytearray(refesri.encode_shp(m))
            pos = 100 + 28 * bad_at + 8
            shp[pos:pos + 4] = struct.pack("<i", code)
            for nrows in (0, 2, 3, 5):
                for ops in ([("readall",)], [("it", -1)]):
                    for wi in (True, False):
                        pcases.append([17, -1] + C.pack_bytes(bytes(shp)) + ([1] + C.pack_bytes(refesri.encode_shx(m)) if wi else [0]) + [nrows] + C08.pair_case([], ops)[2:])
                        pmeta.append((code, bad_at, nrows, ops))
    pimpl = stages.correspondence(rep, "pairfile", dev, pcases, "pairfile(undefined code through the complete reader)", vm_sample=20)
    for c, r, (code, bad_at, nrows, ops) in zip(pcases, pimpl, pmeta):
        if r[:1] != [0]:
            continue
        res = C08.parse_pair([0, 0, 0, 0] + r, 0, ops)
        items = res["ops"][0]["items"]
        reported = any(it[0] == "err" and tuple(it[1:3]) == (6, code) for it in items)
        # the record is reached when the rows before it exist (shape i is read before row i is asked for)
        if nrows >= bad_at and not reported:
            rep.violation({"kind": "oracle", "what": "complete reader, %d rows, record %d of 3 carries the undefined type code %d: %r returned %r "
                           "without reporting InvalidShapeType(%d)" % (nrows, bad_at, code, ops[0], [it[:3] if it[0] != "ok" else "ok" for it in items], code),
                           "case_kind": "pairfile", "case": c[:120]})
            break
    # 5. the code as WRITTEN: one shape of each of the 13 types through the writer; header and record carry the ESRI code
    import shapes as SH
    wcases = [C.whist_case(True, 0, [("w", SH.gen_ctor(rng, code, "small"))]) for code in SH.ALL_CODES]
    wimpl = stages.correspondence(rep, "write", dev, wcases, "whist(type code written)")
    for code, c, r in zip(SH.ALL_CODES, wcases, wimpl):
        res = C.parse_whist(r)
        if "special" in res:
            continue
        buf, bx = res["shp"]["buf"], res["shx"]["buf"]
        got = (struct.unpack("<i", buf[32:36])[0], struct.unpack("<i", buf[108:112])[0], struct.unpack("<i", bx[32:36])[0])
        if got != (code, code, code):
            rep.violation({"kind": "oracle", "what": "a %s is written with type codes %r (.shp header, record, .shx header), ESRI says %d"
                           % (ESRI[code][3], got, code), "case_kind": "whist", "case": c})
            break
    rep.cov["distribution"] = {"codes_in_table_cases": len(cases), "valid_codes_found_by_sweep": len(valid)}
    rep.assumptions += ["ShapeType::from is a pure function of its i32 argument",
                        "Header::read_from and the record type on ESRI codes, boundary and random values: stage 4 (not exhaustive)"]
