"""C01 — Write-then-read round trip preserves every shape exactly."""
import os
import shutil
import subprocess

import cases as C
import pipeline as P
import shapes
import sfv
import stages


def oracle_file(f):
    """Direct property oracle on the implementation's outputs: every route
    returns exactly the written shapes, modulo the stated normalisation."""
    vals = f["values"]
    n = len(vals)
    exp = [P.on_read(v) for v in vals]
    for route, rd in f.get("reads", {}).items():
        if rd.get("panic") or "open_err" in rd:
            return "route %s: open failed or panicked: %r" % (route, rd)
        if route[1] == "seq":
            items = rd["ops"][0]["items"]
            if not rd["ops"][0]["ended"]:
                return "route %s: iteration did not end" % (route,)
            if len(items) != n:
                return "route %s: %d shapes read back, %d written" % (route, len(items), n)
            for i, it in enumerate(items):
                if it[0] != "ok" or not P.same_modulo(exp[i][0], exp[i][1], it[1]):
                    return "route %s: shape %d differs after the round trip: %r" % (route, i, it)
        else:
            ops = rd["ops"]
            req = rd["requested"]
            if ops[0]["count"] != n:
                return "route %s: shape_count %r, %d written" % (route, ops[0]["count"], n)
            for o, r in zip(req[1:], ops[1:]):
                if o[0] == "nth":
                    i, it = o[1], r["nth"]
                    if i >= n:
                        if it is not None:
                            return "route %s: read_nth(%d) beyond the end returned something" % (route, i)
                    elif it is None or it[0] != "ok" or not P.same_modulo(exp[i][0], exp[i][1], it[1]):
                        return "route %s: read_nth(%d) (after %r) differs from the written shape: %r" % (route, i, req[1:], it)
                elif o[0] == "it":
                    items = r["items"]
                    if not r["ended"] or len(items) != n:
                        return "route %s: iteration after random access gave %d shapes, %d written" % (route, len(items), n)
                    for i, it in enumerate(items):
                        if it[0] != "ok" or not P.same_modulo(exp[i][0], exp[i][1], it[1]):
                            return "route %s: iteration after random access: shape %d differs: %r" % (route, i, it)
    return None


def run(rep, tier, rng):
    stages.proof_stage(rep, "C01")
    dev = sfv.build_harness("dev")
    nfiles = 400 if tier == "thorough" else 70
    files = []
    for i in range(nfiles):
        code = shapes.ALL_CODES[i % 13]
        prof = "exact" if (code in shapes.POLYGON_CODES and rng.random() < 0.5) else "mixed"
        if i // 13 == 3 and shapes.dim_of(code) >= 3:
            prof = "nanm"                 # every measure NaN, half of the heights NaN: ranges that are NaN themselves
        f = P.gen_file(rng, code, profile=prof)
        f["calls"] = P.finalize_placements(rng, len(f["specs"]))
        files.append(f)
    # counts beyond the readers' pre-sizing cap of 1024 elements: parts, rings, patches, points
    big = [(31, 1030, 1), (3, 1030, 2), (8, 1, 1100)] + ([(5, 1030, 1), (15, 3, 400), (28, 1, 2050), (13, 1026, 2)] if tier == "thorough" else [])
    bigfiles = []
    for code, nparts, npts in big:
        f = {"code": code, "specs": [shapes.grid_ctor(rng, code, nparts, npts, "small")]}
        f["calls"] = [("w", 0)]
        bigfiles.append(f)
    rep.cov["rule"] = ("%d files (13 types round-robin, 1-5 shapes from the public constructors, floats from the special-value "
                       "pool incl. NaN in Z/M, half of the polygons on the exact integer domain); each file: constructor values "
                       "(kind 2), writer history with random finalize placement (kind 4), 6 in-memory reader routes "
                       "{generic,typed}x{sequential,with/without shx} and {generic,typed} random access (kind 5); non-trivial = "
                       "distinct case whose implementation result is not an error; plus %d single-shape files with more than 1024 "
                       "parts / rings / patches / points" % (nfiles, len(big)))
    P.run_ctor_stage(rep, dev, files, "c01")
    P.run_write_stage(rep, dev, files, "c01")
    P.run_read_stage(rep, dev, files, "c01")
    # the large shapes: through the model as well in the thorough tier (the model reader is quadratic in the record
    # size), implementation + round-trip oracle only in the quick tier
    with_model = tier == "thorough"
    P.run_ctor_stage(rep, dev, bigfiles, "c01big", model=with_model)
    P.run_write_stage(rep, dev, bigfiles, "c01big", model=with_model)
    P.run_read_stage(rep, dev, bigfiles, "c01big", routes=P.ROUTES if not with_model else P.ROUTES[:2], model=with_model)
    files = files + bigfiles
    nfail = 0
    for f in files:
        rep.dist("files_type_%s" % shapes.TYPE_NAMES[f["code"]])
        rep.dist("shapes", len(f["specs"]))
        msg = oracle_file(f)
        if msg:
            nfail += 1
            if nfail == 1:
                rep.violation({"kind": "oracle", "what": msg, "case_kind": "roundtrip", "file": f["specs"], "code": f["code"]})
    rep.sample({"type": files[0]["code"], "constructor_calls": files[0]["specs"][:2]})
    nfail += after_failed_finalize(rep, dev, rng, tier)
    nfail += long_files_on_disk(rep, dev, rng, tier)
    path_route(rep, files[: (40 if tier == "thorough" else 12)])
    rep.cov["oracle"] = {"files": len(files), "failing": nfail}
    rep.assumptions += ["files opened by path: sibling names (`Path::with_extension`), creation / truncation, absence of the index "
                        "are modelled (Model/Paths.v, C01_roundtrip_by_path) and tied by the kind-16 correspondence; "
                        "BufWriter/BufReader/File themselves are covered by the comparison with the in-memory route only",
                        "f64 arithmetic of the orientation test is Flocq's binary64 (round to nearest even)"]


def after_failed_finalize(rep, dev, rng, tier):
    """Shapes written after a finalize that failed once (I/O fault at one of its operations on either destination)
    come back, with the index and without, like those of the undisturbed history."""
    ops_i = [("count",), ("it", -1), ("nth", 1), ("nth", 2), ("nth", 0)]
    nfail, n = 0, 0
    for code in (shapes.ALL_CODES if tier == "thorough" else rng.sample(shapes.ALL_CODES, 4)):
        a, b, c = (shapes.gen_ctor(rng, code, "small") for _ in range(3))
        calls = [("w", a), ("f",), ("w", b), ("w", c)]
        base = C.parse_whist(sfv.run_impl(dev, [C.whist_case(True, 0, calls)])[0])
        one = C.parse_whist(sfv.run_impl(dev, [C.whist_case(True, 0, [("w", a)])])[0])
        if "special" in base or "special" in one:
            continue
        want = sfv.run_impl(dev, [C.read_case(-1, base["shp"]["buf"], base["shx"]["buf"], ops_i),
                                  C.read_case(-1, base["shp"]["buf"], None, [("it", -1)])])
        fcases = [C.whist_case(True, 0, calls, fault=(dest, n0 + j, 0))
                  for dest, n0 in ((1, one["shp"]["ops"] - 16), (2, one["shx"]["ops"] - 16))
                  for j in (range(16) if tier == "thorough" else (0, 2, 8, 14, 15))]
        for fc, r in zip(fcases, sfv.run_impl(dev, fcases)):
            res = C.parse_whist(r)
            rep.count_case((tuple(fc[:8]), tuple(r[:6])))
            n += 1
            if "special" in res or res["results"][1][0] != "err" or any(x != ("ok",) for x in res["results"][2:]):
                continue
            got = sfv.run_impl(dev, [C.read_case(-1, res["shp"]["buf"], res["shx"]["buf"], ops_i),
                                     C.read_case(-1, res["shp"]["buf"], None, [("it", -1)])])
            if got != want:
                nfail += 1
                if nfail == 1:
                    which = "with the index" if got[0] != want[0] else "without index"
                    rep.violation({"kind": "oracle", "what": "three shapes of type %d, the finalize after the first failing once (destination %d): "
                                   "read back %s, the shapes written after the failed finalize are not those of the undisturbed history"
                                   % (code, fc[3], which), "case_kind": "whist", "case": fc})
    rep.cov["round_trips_after_a_failed_finalize"] = n
    return nfail


def long_files_on_disk(rep, dev, rng, tier):
    """Files of 40-100 KiB written by the library (hundreds of multi-part shapes of varying sizes), placed on disk and
    read through the path-based API (std's 8 KiB buffered reader: every kind of field straddles a refill somewhere):
    same answers as from memory."""
    import pathio
    nfail = 0
    plans = [(3, 300, 3), (25, 500, 4), (31, 250, 3), (8, 600, 1), (13, 200, 2), (5, 400, 2)]
    for pi, (code, nshapes, nparts) in enumerate(plans if tier == "thorough" else plans[:3]):
        specs = [shapes.grid_ctor(rng, code, nparts, 2 + (i % 3), "small") for i in range(nshapes)]
        w = C.parse_whist(sfv.run_impl(dev, [C.whist_case(True, 0, [("w", sp) for sp in specs])])[0])
        if "special" in w:
            continue
        for with_idx in (True, False):
            msg = pathio.check(rep, dev, "c01long", "long%d%s" % (pi, "i" if with_idx else ""), w["shp"]["buf"],
                               w["shx"]["buf"] if with_idx else None, code,
                               "%d shapes of type %d with %d parts each (%d bytes) on disk, %s index"
                               % (nshapes, code, nparts, len(w["shp"]["buf"]), "with" if with_idx else "without"))
            rep.count_case(("long", code, with_idx, len(w["shp"]["buf"])))
            if msg:
                nfail += 1
                if nfail == 1:
                    rep.violation({"kind": "oracle", "what": msg, "case_kind": "path"})
    pathio.cleanup("c01long")
    rep.cov["long_files_read_by_path"] = len(plans if tier == "thorough" else plans[:3])
    return nfail


def path_route(rep, files):
    """Files on disk opened by path (see pipeline.path_situations), then the path-based API against the
    directory model (Model/Paths.v: sibling names, stale files, removed files; lib/pathmodel.py)."""
    P.path_situations(rep, files, "c01")
    import pathmodel
    import random
    pathmodel.stage(rep, os.path.join(sfv.TARGET, "debug", "runner"), random.Random(rep.seed * 7919 + 16), "c01p", 0,
                    600 if rep.tier == "thorough" else 160)
