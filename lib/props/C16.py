"""C16 — Polygon and multipatch constructors close and orient rings, losing no vertex."""
from fractions import Fraction

import pipeline as P
import shapes
import sfv
import stages

RING_KINDS = (2, 3, 4, 5)          # OuterRing, InnerRing, FirstRing, Ring


def fkey(b):
    mag = b & 0x7FFFFFFFFFFFFFFF
    return None if mag > shapes.INF else (-mag if b >> 63 else mag)


def num_eq(p, q):
    """derived PartialEq of the point types: numeric equality of every coordinate."""
    for a, b in zip(p, q):
        ka, kb = fkey(a), fkey(b)
        if ka is None or kb is None or ka != kb:
            return False
    return True


def gen_ring(rng, d, style):
    """An input ring (list of points as bit patterns) and a label."""
    g = lambda: shapes.f2b(float(rng.randint(-6, 6)))
    if style == "triangle":
        base = [[0, 0], [shapes.f2b(4.0), 0], [0, shapes.f2b(3.0)]]
        if rng.random() < 0.5:
            base.reverse()
        pts = [b + [g() for _ in range(d - 2)] for b in base]
    elif style == "degenerate":
        n = rng.choice([1, 2, 3])
        p0 = [g() for _ in range(d)]
        pts = [list(p0) for _ in range(n)] if rng.random() < 0.5 else [[g(), 0] + [g() for _ in range(d - 2)] for _ in range(n)]
    else:
        n = rng.randint(3, 6)
        pts = [[g() for _ in range(d)] for _ in range(n)]
    mode = rng.choice(["open", "closed", "closed_but_zm", "closed_signed_zero"] if d > 2 else ["open", "closed", "closed_signed_zero"])
    if mode == "closed":
        pts.append(list(pts[0]))
    elif mode == "closed_signed_zero":
        # closed by VALUE: the last vertex equals the first, a zero coordinate differing in sign only (0.0 == -0.0)
        c = rng.randrange(d)
        pts[0][c] = rng.choice([0, shapes.NZERO])
        q = list(pts[0])
        q[c] = shapes.NZERO if pts[0][c] == 0 else 0
        pts.append(q)
    elif mode == "closed_but_zm":
        q = list(pts[0])
        q[rng.randrange(2, d)] = shapes.f2b(99.0)          # same X, Y; another M or Z
        pts.append(q)
    if style == "lowm" and d > 2:
        # measures below the "no data" threshold (-1e38) other than the NO_DATA value itself: ordinary numbers for a constructor
        low = [shapes.f2b(-2e39), shapes.f2b(-3e39), shapes.f2b(-1e300), shapes.F_MAX | (1 << 63), shapes.NINF]
        for p in (pts[1:-1] if mode == "closed_signed_zero" else pts[:-1] if mode != "open" else pts):
            if rng.random() < 0.6:
                p[d - 1] = rng.choice(low)
        if mode == "closed":
            pts[-1] = list(pts[0])
        elif mode == "closed_but_zm":
            pts[0][d - 1], pts[-1][d - 1] = low[0], low[1]       # same X, Y, Z; two different low measures: an open ring
    if style == "special":
        for p in (pts[1:-1] if mode == "closed_signed_zero" else pts[:-1] if mode != "open" else pts):
            if rng.random() < 0.3:
                p[rng.randrange(d)] = rng.choice([shapes.INF, shapes.NINF, shapes.NZERO, shapes.F_MAX, 1])
        if mode == "closed":
            pts[-1] = list(pts[0])
    return pts, mode


def expect_closed(pts):
    if not pts:
        return pts
    return pts if num_eq(pts[0], pts[-1]) else pts + [list(pts[0])]


def check_ring(inp, out, declared, got_role, d, is_ring_kind=True, orient=True):
    """out must be the closed input, kept or reversed as a whole; closed; oriented."""
    want = expect_closed(inp) if is_ring_kind else inp
    if out != want and out != want[::-1]:
        return "stored ring is not the caller's sequence (closed, then kept or reversed as a whole)"
    if not is_ring_kind:
        if out != inp:
            return "a triangle strip / fan was modified"
        return None
    if out and all(fkey(v) is not None for v in out[0]) and not num_eq(out[0], out[-1]):
        return "stored ring is not closed (first != last)"
    if got_role != declared:
        return "declared role changed"
    if orient:
        e, ok = P.shoelace_exact([[p[0], p[1]] for p in out])
        e2, ok2 = P.shoelace_exact([[p[0], p[1]] for p in out][::-1])
        if e is not None and ok and ok2 and e != 0:
            # exact evaluation: Outer <=> sum >= 0 (clockwise), Inner <=> sum <= 0
            if (declared == 0 and e < 0) or (declared == 1 and e > 0):
                return "ring of non-zero exact area is oriented against its role (role %d, exact shoelace %s)" % (declared, e)
    return None


def run(rep, tier, rng):
    stages.proof_stage(rep, "C16")
    dev = sfv.build_harness("dev")
    cases, meta = [], []
    n = 2500 if tier == "thorough" else 450
    for i in range(n):
        fam = rng.choice(["polygon", "polygon", "multipatch"])
        style = rng.choice(["triangle", "general", "general", "degenerate", "special", "lowm"])
        if fam == "polygon":
            code = rng.choice(shapes.POLYGON_CODES)
            d = shapes.dim_of(code)
            k = rng.randint(1, 3)
            rings = []
            for _ in range(k):
                pts, mode = gen_ring(rng, d, style)
                rings.append((rng.randint(0, 1), pts))
            if k == 1 and rng.random() < 0.5:
                spec = [code, 0, rings[0][0]] + shapes.flat_pts(rings[0][1])
            else:
                spec = [code, 1, k]
                for role, pts in rings:
                    spec += [role] + shapes.flat_pts(pts)
            cases.append([2] + spec)
            meta.append(("polygon", code, rings, style))
        else:
            k = rng.randint(1, 3)
            patches = []
            for _ in range(k):
                pts, mode = gen_ring(rng, 4, style)
                patches.append((rng.randint(0, 5), pts))
            if k == 1 and rng.random() < 0.5:
                spec = [31, 0, patches[0][0]] + shapes.flat_pts(patches[0][1])
            else:
                spec = [31, 1, k]
                for kind, pts in patches:
                    spec += [kind] + shapes.flat_pts(pts)
            cases.append([2] + spec)
            meta.append(("multipatch", 31, patches, style))
        rep.dist(fam + "_" + style)
    # rings of more than 1024 vertices (the reader's pre-sizing cap and a natural block size): K vertices up the line
    # x = 0, then across and down x = 16 — the few long edges carry all the area, and they fall on every index
    # around 1024 and 2048 as K and the starting vertex vary
    for K in ((1021, 1023, 1024, 1025, 2047, 2048, 2050) if tier == "thorough" else (1023, 1024, 1025, 2048)):
        for rot in (0, 1, 5):
            for rev in (False, True):
                pts = [[0, shapes.f2b(float(y))] for y in range(1, K + 1)] + [[shapes.f2b(16.0), shapes.f2b(float(K))], [shapes.f2b(16.0), shapes.f2b(1.0)]]
                pts = pts[rot:] + pts[:rot]
                if rev:
                    pts.reverse()
                role = (K + rot) % 2
                if rot == 5:
                    pts.append(list(pts[0]))
                cases.append([2, 5, 0, role] + shapes.flat_pts(pts))
                meta.append(("polygon", 5, [(role, pts)], "long"))
                rep.dist("polygon_long")
    rep.cov["rule"] = ("%d constructor calls: Polygon/PolygonM/PolygonZ new and with_rings, Multipatch new and with_parts; rings "
                       "of 1-6 vertices, open, closed, closed by value only (a zero differing in sign), or closed in X/Y only (last "
                       "vertex differs in M or Z), both "
                       "orientations, both declared roles, all six patch kinds, triangles (3 open / 4 closed vertices), "
                       "degenerate (repeated or collinear vertices), special values (+-inf, -0, f64::MAX), measures below the no-data threshold, "
                       "rings of 1023-2050 vertices whose long edges fall on every index around 1024 and 2048; constructed value "
                       "compared with the model; oracle: every stored ring = caller's sequence closed by one copy of its first "
                       "vertex if open, kept or reversed as a whole; closed in every coordinate; role kept; Outer clockwise / "
                       "Inner counter-clockwise by EXACT rational signed area whenever the double evaluation is exact and the "
                       "area non-zero; strips and fans untouched; rebuilding from its own rings is the identity; non-trivial = "
                       "distinct accepted call" % n)
    impl = stages.correspondence(rep, "ctor", dev, cases, "ctor", nontrivial=lambda c, r: r[0] == 0)
    nfail, rebuilt = 0, []
    for c, (fam, code, parts, style), r in zip(cases, meta, impl):
        if r[0] != 0:
            rep.dist("constructor_panics")
            continue
        s = shapes.parse_shape(shapes.Cur(list(r[1:])))
        d = shapes.dim_of(code)
        msg = None
        if len(s["parts"]) != len(parts):
            msg = "number of rings changed"
        else:
            for (tag, inp), out, got in zip(parts, s["parts"], s["tags"]):
                m = check_ring(inp, out, tag, got, d, is_ring_kind=(fam == "polygon" or tag in RING_KINDS), orient=(fam == "polygon"))
                if m:
                    msg = m
                    break
        if not msg and fam == "polygon":
            # rebuild from its own rings
            spec = [code, 1, len(s["parts"])]
            nonzero = True
            for tag, out in zip(s["tags"], s["parts"]):
                spec += [tag] + shapes.flat_pts(out)
                e, ok = P.shoelace_exact([[p[0], p[1]] for p in out])
                nonzero = nonzero and e is not None and ok and e != 0
            if nonzero:
                rebuilt.append(([2] + spec, list(r)))
        if msg:
            nfail += 1
            if nfail == 1:
                rep.violation({"kind": "oracle", "what": msg, "case_kind": "ctor", "case": c, "style": style})
    if rebuilt:
        again = sfv.run_impl(dev, [x[0] for x in rebuilt])
        for (spec, orig), r in zip(rebuilt, again):
            rep.count_case((spec, r))
            if r != orig:
                nfail += 1
                if nfail == 1:
                    rep.violation({"kind": "oracle", "what": "rebuilding a polygon (non-zero exact areas) from its own rings changes it",
                                   "case_kind": "ctor", "case": spec})
    rep.cov["rebuilt_from_own_rings"] = len(rebuilt)
    rep.sample({"case": cases[3][:24], "style": meta[3][3]})
    rep.cov["oracle"] = {"checked": len(cases), "failing": nfail}
    rep.assumptions += ["orientation by exact signed area is proved on the exact domain of Proofs/F64Exact.v (common exponent, "
                        "(vertices+1)*4C^2 < 2^53); the oracle checks it on every generated ring whose double evaluation is exact, "
                        "a superset of that domain",
                        "the polygon!/multipatch! macros expand to the same constructors; not exercised separately"]
