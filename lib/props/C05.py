"""C05 — Stored bounding boxes are exact: per shape and in the file header."""
import struct

import cases as C
import pipeline as P
import shapes
import sfv
import stages

NON_NAN_SPECIAL = [0, shapes.NZERO, shapes.INF, shapes.NINF, shapes.F_MAX, shapes.F_MIN, shapes.F_MAX - 1, shapes.F_MIN - 1,
                   shapes.NO_DATA + 1, shapes.f2b(-1e38), shapes.f2b(1e38), shapes.f2b(2.0 ** 53), 1, shapes.NZERO | 1,
                   0x0010000000000000]


def key(b):
    """Total order of non-NaN doubles on bit patterns (+0 and -0 equal)."""
    mag = b & 0x7FFFFFFFFFFFFFFF
    return -mag if b >> 63 else mag


def is_nan(b):
    return (b & 0x7FFFFFFFFFFFFFFF) > shapes.INF


def make_float_gen(mode, const):
    def g(rng, allow_nan=False, profile="mixed"):
        if profile == "const":                       # Z or M forced to one special value
            return const
        r = rng.random()
        if mode == "special" and r < 0.25:
            return rng.choice(NON_NAN_SPECIAL)
        return shapes.f2b(float(rng.randint(-9, 9)) if r < 0.8 else rng.randint(-4000, 4000) / 8.0)
    return g


def coords_of(s):
    d = shapes.dim_of(s["code"])
    if s["code"] in shapes.POINT_CODES:
        return [s["pt"]], d
    return [p for part in s["parts"] for p in part], d


def extremes(vals):
    lo = min(vals, key=key)
    hi = max(vals, key=key)
    return key(lo), key(hi)


def shape_box_oracle(s):
    """Per-shape box == exact extremes of its vertices (numerically)."""
    if s["code"] in shapes.POINT_CODES:
        return None
    pts, d = coords_of(s)
    if any(is_nan(v) for p in pts for v in p) or not pts:
        return "skip"
    box = s["box"]
    names = ["x", "y"] + (["z"] if d == 4 else []) + (["m"] if d >= 3 else [])
    idx = {"x": (0, 2), "y": (1, 3)}
    if d == 4:
        idx["z"], idx["m"] = (4, 5), (6, 7)
    elif d == 3:
        idx["m"] = (4, 5)
    for k, nm in enumerate(names):
        lo, hi = extremes([p[k] for p in pts])
        blo, bhi = box[idx[nm][0]], box[idx[nm][1]]
        if is_nan(blo) or is_nan(bhi) or key(blo) != lo or key(bhi) != hi:
            return "box %s range [%#x, %#x] is not the extreme of the vertices" % (nm, blo, bhi)
    return None


def header_oracle(code, shapes_written, buf):
    """Header box == extremes over all written shapes (X, Y; Z for Z types and
    multipatch; M for M and Z types when every measure is real data); 0 for
    dimensions the type does not carry."""
    hb = struct.unpack("<8Q", buf[36:100])        # xmin ymin xmax ymax zmin zmax mmin mmax
    d = shapes.dim_of(code)
    allpts = []
    for s in shapes_written:
        pts, _ = coords_of(s)
        allpts += pts
    if any(is_nan(v) for p in allpts for v in p):
        return "skip"
    if not allpts:
        return None if hb == (0,) * 8 else "header box of a file without shapes is not all zero: %r" % (hb,)
    want = {}
    want["x"] = extremes([p[0] for p in allpts])
    want["y"] = extremes([p[1] for p in allpts])
    has_z = d == 4
    has_m = d >= 3 and code != 31
    if has_z:
        want["z"] = extremes([p[2] for p in allpts])
    if has_m:
        ms = [p[-1] for p in allpts]
        if all(key(m) > key(shapes.NO_DATA) for m in ms):
            want["m"] = extremes(ms)
    got = {"x": (hb[0], hb[2]), "y": (hb[1], hb[3]), "z": (hb[4], hb[5]), "m": (hb[6], hb[7])}
    for nm, (lo, hi) in want.items():
        if is_nan(got[nm][0]) or is_nan(got[nm][1]) or (key(got[nm][0]), key(got[nm][1])) != (lo, hi):
            return "header %s range [%#x, %#x] is not the extreme over the written shapes" % (nm, got[nm][0], got[nm][1])
    if not has_z and (hb[4], hb[5]) != (0, 0):
        return "header Z range of a type without Z is not 0"
    if d < 3 and (hb[6], hb[7]) != (0, 0):
        return "header M range of a type without M is not 0"
    return None


def run(rep, tier, rng):
    stages.proof_stage(rep, "C05")
    dev = sfv.build_harness("dev")
    nfiles = 520 if tier == "thorough" else 104
    files = []
    saved = shapes.gen_float
    try:
        for i in range(nfiles):
            code = shapes.ALL_CODES[i % 13]
            mode = ["special", "special", "plain", "constz", "constm"][(i // 13) % 5]
            const = rng.choice([shapes.INF, shapes.NINF, shapes.F_MAX, shapes.F_MIN, 0])
            shapes.gen_float = make_float_gen(mode, const)
            # every eighth file: parts of 8-25 vertices (block sizes 8 and 16 and their neighbours), so that single extreme
            # vertices also sit at positions 8, 9, 16, 17, 24 of a first part
            long_parts = (i // 13) % 8 == 2 and code not in shapes.POINT_CODES
            f = P.gen_file(rng, code, nshapes=rng.randint(1, 4), profile="mixed", max_parts=3, max_pts=25 if long_parts else 4)
            if long_parts:
                f["specs"] = [shapes.grid_ctor(rng, code, rng.randint(1, 2), rng.choice([8, 9, 10, 15, 16, 17, 24, 25]), "mixed") for _ in f["specs"]]
            if mode in ("constz", "constm"):
                # every Z (or every M) of the file is the same special value
                f["specs"] = [force_const(spec, code, mode, const) for spec in f["specs"]]
            f["calls"] = P.finalize_placements(rng, len(f["specs"]))
            f["mode"] = mode
            files.append(f)
    finally:
        shapes.gen_float = saved
    # an empty file: all ranges 0
    files.append({"code": 1, "specs": [], "calls": [("f",)], "mode": "empty"})
    rep.cov["rule"] = ("%d files x 13 types, 1-4 shapes, 1-3 parts (polygon/multipatch later rings of 0-4 vertices, so single "
                       "extreme vertices occur), coordinates small numbers with a quarter of the values drawn from non-NaN "
                       "specials (+-0, +-inf, f64::MAX/MIN and neighbours, values next to NO_DATA, subnormals) placed at random "
                       "vertices of random parts of random shapes, plus files whose Z (or M) values are all one special value "
                       "(+-inf, f64::MAX/MIN, 0), plus an empty file; constructed values and written bytes compared with the "
                       "model; oracle: per-shape box and header box recomputed from the vertices with a total order on bit "
                       "patterns; plus histories in which the second write fails on its first operation (one-shot fault on either "
                       "destination) before finalize: the header box must cover the first shape only; "
                       "non-trivial = distinct case" % nfiles)
    P.run_ctor_stage(rep, dev, files, "c05")
    P.run_write_stage(rep, dev, files, "c05")
    nfail, skipped, extreme_pos = 0, 0, {}
    for f in files:
        rep.dist("mode_" + f["mode"])
        vals = [shapes.parse_shape(shapes.Cur(list(v))) if v is not None else None for v in f.get("values", [])]
        msg = None
        for s in vals:
            if s is None:
                continue
            m = shape_box_oracle(s)
            if m == "skip":
                skipped += 1
            elif m:
                msg = m
            if s["code"] not in shapes.POINT_CODES and s.get("parts"):
                pts, _ = coords_of(s)
                if pts:
                    k = max(range(len(pts)), key=lambda j: key(pts[j][0]))
                    pos = "first" if k == 0 else ("last" if k == len(pts) - 1 else "middle")
                    rep.dist("xmax_at_" + pos)
        w = f["written"]
        if not msg and "special" not in w and all(r == ("ok",) for r in w["results"]):
            order = [c[1] for c in f["calls"] if c[0] == "w"]
            m = header_oracle(f["code"], [vals[i] for i in order], w["shp"]["buf"])
            if m == "skip":
                skipped += 1
            elif m:
                msg = m
            if f.get("has_shx", True) and w["shx"]["buf"][36:100] != w["shp"]["buf"][36:100]:
                msg = msg or ".shx header box differs from the .shp header box"
        if msg:
            nfail += 1
            if nfail == 1:
                wire = [("w", f["specs"][c[1]]) if c[0] == "w" else c for c in f["calls"]]
                rep.violation({"kind": "oracle", "what": msg, "case_kind": "whist", "case": C.whist_case(True, 0, wire),
                               "code": f["code"], "mode": f["mode"], "specs": f["specs"]})
    # ---- a write_shape that fails on its very first destination operation puts nothing in the file: the header
    # box must not cover that shape either (one-shot fault, then finalize)
    cand = [f for f in files if len(f["specs"]) >= 2 and "special" not in f["written"] and f.get("values")
            and all(v is not None for v in f["values"])]
    cand = cand[: (60 if tier == "thorough" else 26)]
    base = sfv.run_impl(dev, [C.whist_case(True, 0, [("w", f["specs"][0])]) for f in cand])
    fcases, fmeta = [], []
    for f, b in zip(cand, base):
        pb = C.parse_whist(b)
        if "special" in pb:
            continue
        for dest, n0 in ((1, pb["shp"]["ops"] - 16), (2, pb["shx"]["ops"] - 16)):
            fcases.append(C.whist_case(True, 0, [("w", f["specs"][0]), ("w", f["specs"][1]), ("f",)], fault=(dest, n0, 0)))
            fmeta.append((f, dest))
    fimpl = stages.correspondence(rep, "whist_fault", dev, fcases, "whist(first operation of the second write fails)")
    for c, (f, dest), r in zip(fcases, fmeta, fimpl):
        res = C.parse_whist(r)
        msg = None
        if "special" in res:
            continue
        if res["results"][0] != ("ok",) or res["results"][1][0] != "err":
            msg = "the write whose first operation failed returned %r" % (res["results"][1],)
        elif dest == 1:
            vals = [shapes.parse_shape(shapes.Cur(list(v))) for v in f["values"]]
            m = header_oracle(f["code"], [vals[0]], res["shp"]["buf"])
            if m and m != "skip":
                msg = "after a write that failed before writing anything: " + m
        if msg:
            nfail += 1
            if nfail == 1:
                rep.violation({"kind": "oracle", "what": msg, "case_kind": "whist", "case": c, "code": f["code"]})
    rep.cov["failed_write_histories"] = len(fcases)
    rep.sample({"type": files[0]["code"], "constructor_calls": files[0]["specs"][:2]})
    rep.cov["oracle"] = {"files": len(files), "failing": nfail, "skipped_because_of_nan": skipped}
    rep.assumptions += ["no claim for NaN coordinates, for the header M range of multipatch files or of files containing "
                        "no-data measures (as the property states)"]


def force_const(spec, code, mode, const):
    """Rewrites a constructor spec so that every Z (mode constz) or every M
    (mode constm) is `const`; types without that dimension are left alone."""
    d = shapes.dim_of(code)
    if (mode == "constz" and d != 4) or (mode == "constm" and d < 3):
        return spec
    off = 2 if mode == "constz" else d - 1
    c = shapes.Cur(list(spec))
    out = [c.next()]

    def pts():
        n = c.next()
        out.append(n)
        for _ in range(n):
            p = [c.next() for _ in range(d)]
            p[off] = const
            out.extend(p)
    if code in shapes.POINT_CODES:
        p = [c.next() for _ in range(d)]
        p[off] = const
        return out + p
    if code in shapes.MULTIPOINT_CODES:
        pts()
        return out
    sub = c.next()
    out.append(sub)
    if code in shapes.POLYLINE_CODES:
        if sub == 0:
            pts()
        else:
            k = c.next()
            out.append(k)
            for _ in range(k):
                pts()
        return out
    # polygon / multipatch: tag before each point list
    if sub == 0:
        out.append(c.next())
        pts()
    else:
        k = c.next()
        out.append(k)
        for _ in range(k):
            out.append(c.next())
            pts()
    return out
