"""C20 — geo-types conversions preserve coordinates, order and ring nesting."""
import cases as C
import shapes
import sfv
import stages

MEASURES = [shapes.f2b(5.0), shapes.NO_DATA, shapes.NO_DATA + 1, shapes.NO_DATA - 1, shapes.f2b(-1e38), shapes.NANS[0], shapes.NANS[1],
            shapes.INF, shapes.NINF, 0, shapes.F_MIN]


def gcoord(rng, nan=True):
    c = [shapes.f2b(float(rng.randint(-9, 9))), shapes.f2b(float(rng.randint(-9, 9)))]
    if rng.random() < 0.08:
        # non-finite and extreme ordinates are ordinary f64 values for a conversion (NaN only where no ring is closed by
        # comparing coordinates)
        c[rng.randrange(2)] = rng.choice([shapes.INF, shapes.NINF, shapes.F_MAX, shapes.f2b(1e300), 1] + ([shapes.NANS[0]] if nan else []))
    return c


def gring(rng, n=None, closed=None):
    n = rng.randint(3, 5) if n is None else n
    pts = [gcoord(rng, nan=closed is False) for _ in range(n)]
    if (rng.random() < 0.5 if closed is None else closed) and pts:
        pts.append(list(pts[0]))
    return pts


def enc_coords(pts):
    out = [len(pts)]
    for p in pts:
        out += p
    return out


def enc_poly(ext, ints):
    out = enc_coords(ext) + [len(ints)]
    for i in ints:
        out += enc_coords(i)
    return out


def parse_geo(c):
    tag = c.next()
    rd = lambda: [[c.next(), c.next()] for _ in range(c.next())]
    if tag == 1:
        return ("point", [c.next(), c.next()])
    if tag == 5:
        return ("multipoint", rd())
    if tag == 6:
        return ("multiline", [rd() for _ in range(c.next())])
    if tag == 7:
        polys = []
        for _ in range(c.next()):
            ext = rd()
            ints = [rd() for _ in range(c.next())]
            polys.append((ext, ints))
        return ("multipolygon", polys)
    return ("other", tag)


def close_xy(pts):
    if pts and pts[0] != pts[-1]:
        return pts + [list(pts[0])]
    return pts


def norm_ring(pts):
    """A ring up to orientation: the closed coordinate cycle or its reverse."""
    p = [tuple(x) for x in close_xy([list(q) for q in pts])]
    return min(tuple(p), tuple(reversed(p)))


def run(rep, tier, rng):
    stages.proof_stage(rep, "C20")
    geo = sfv.build_harness("dev", crate=sfv.HARNESS_GEO, binname="runner-geo")
    dev = sfv.build_harness("dev")
    listed = [f for f in sfv.load_known_findings().get("findings", []) if f.get("id") == "F12"]
    cases, meta = [], []
    n = 1500 if tier == "thorough" else 260
    # ---- shape -> geometry -> shape
    to_specs = []
    for i in range(n):
        code = rng.choice([0] + shapes.ALL_CODES + shapes.POLYGON_CODES * 2)
        spec = [0] if code == 0 else shapes.gen_ctor(rng, code, "small", True, 4, 5)
        to_specs.append(spec)
        cases.append([10] + spec)
        meta.append(("to", spec))
    # multipoints whose neighbouring points share X and Y (stacked along Z or M, or plainly repeated): every point is
    # a point of the geometry
    for code in (8, 28, 18):
        for reps in ([2], [1, 3], [2, 2, 1], [4]):
            d = shapes.dim_of(code)
            pts = []
            for r in reps:
                base = shapes.gen_pt(rng, d, "small")
                for j in range(r):
                    q = list(base)
                    for t in range(2, d):
                        q[t] = shapes.f2b(float(j + t))
                    pts.append(q)
            spec = [code] + shapes.flat_pts(pts)
            to_specs.append(spec)
            cases.append([10] + spec)
            meta.append(("to", spec))
    # ring-only multipatches: every sequence of ring kinds {OuterRing, InnerRing, FirstRing, Ring} of length <= 3 and a
    # sample of longer ones (grouping into polygons depends on the order of the kinds)
    import itertools
    seqs = [list(t) for k in (1, 2, 3) for t in itertools.product((2, 3, 4, 5), repeat=k)]
    seqs += [[rng.choice((2, 3, 4, 5)) for _ in range(rng.randint(4, 6))] for _ in range(120 if tier == "thorough" else 40)]
    for kinds in seqs:
        spec = [31, 1, len(kinds)]
        for kd in kinds:
            spec += [kd] + shapes.flat_pts(shapes.gen_ring_pts(rng, 4, 3, "small", closed=True))
        to_specs.append(spec)
        cases.append([10] + spec)
        meta.append(("to", spec))
    # ---- geometry -> shape -> geometry
    for i in range(n):
        v = rng.choice(["point", "line", "linestring", "polygon", "multipoint", "multiline", "multipolygon", "multipolygon",
                        "collection", "rect", "triangle", "linestring1"])
        if v == "point":
            g, e = ("point", gcoord(rng)), None
            enc = [1] + g[1]
        elif v == "line":
            a, b = gcoord(rng), gcoord(rng)
            g, enc = ("line", [a, b]), [2] + a + b
        elif v in ("linestring", "linestring1"):
            pts = gring(rng, rng.randint(2, 5) if v == "linestring" else 1, closed=False)
            g, enc = (v, pts), [3] + enc_coords(pts)
        elif v == "polygon":
            ext, ints = gring(rng), [gring(rng) for _ in range(rng.randint(0, 2))]
            g, enc = ("polygon", (ext, ints)), [4] + enc_poly(ext, ints)
        elif v == "multipoint":
            pts = [gcoord(rng) for _ in range(rng.randint(1, 5))]
            g, enc = ("multipoint", pts), [5] + enc_coords(pts)
        elif v == "multiline":
            ls = [gring(rng, rng.randint(2, 4), closed=False) for _ in range(rng.randint(1, 3))]
            g, enc = ("multiline", ls), [6, len(ls)] + [x for l in ls for x in enc_coords(l)]
        elif v == "multipolygon":
            ps = [(gring(rng), [gring(rng) for _ in range(rng.randint(0, 2))]) for _ in range(rng.randint(1, 3))]
            g, enc = ("multipolygon", ps), [7, len(ps)] + [x for (e2, i2) in ps for x in enc_poly(e2, i2)]
        elif v == "collection":
            g, enc = ("collection", None), [8]
        elif v == "rect":
            a, b = gcoord(rng), gcoord(rng)
            g, enc = ("rect", None), [9] + a + b
        else:
            g, enc = ("triangle", None), [10] + gcoord(rng) + gcoord(rng) + gcoord(rng)
        cases.append([11] + enc)
        meta.append(("from", g))
    # ---- geo-traits dimension view
    for code, d in ((1, 2), (21, 3), (11, 4)):
        for m in MEASURES:
            for z in ([shapes.f2b(3.0), shapes.NANS[0]] if d == 4 else [None]):
                p = [shapes.f2b(1.0), shapes.f2b(2.0)] + ([z] if d == 4 else []) + ([m] if d >= 3 else [])
                cases.append([12, code] + p)
                meta.append(("dims", (code, p)))
    # ---- shapes as the READER returns them (polylines and multipoints with parts of one or no point, no part at all:
    # nothing a constructor builds): every X/Y pair, their order and the grouping into lines survive the conversion
    import files as F
    import refesri
    fcases, fmeta = [], []
    for code in (3, 13, 23, 8, 18, 28):
        for lens in ([], [1], [0], [2, 1], [1, 3], [2, 0, 2], [3]):
            if code in refesri.MULTIPOINT:
                rec = F.gen_rec(rng, code, "finite", max_pts=sum(lens))
            else:
                rec = F.gen_rec(rng, code, "finite", lens=lens)
            m = {"type": code, "box": [0] * 8, "records": [{"num": 1, "shape": rec}, {"num": 2, "shape": {"code": 0}}]}
            fcases.append([13] + C.pack_bytes(refesri.encode_shp(m)))
            fmeta.append((code, rec))
    rep.cov["rule"] = ("%d shapes of all 13 types and the null shape (polygons with several outer rings and holes, ring-only and "
                       "strip/fan multipatches, every sequence of ring kinds of length <= 3) converted to geo-types and back; "
                       "polylines and multipoints as the reader returns them (parts of one or no point, no part) converted to "
                       "geo-types; %d geo-types geometries of every variant (Point, "
                       "Line, LineString, Polygon, MultiPoint, MultiLineString, MultiPolygon with holes, GeometryCollection, "
                       "Rect, Triangle; also a one-coordinate LineString) converted to shapes and back; Point/PointM/PointZ x "
                       "measure pool {real, NO_DATA, just above/below, -1e38, NaN, +-inf, f64::MIN} through the geo-traits "
                       "coordinate view; all compared with the model (geo-types modelled as list structures); oracle: X/Y pairs, "
                       "order and grouping preserved (up to ring orientation from geo-types), 2-D shapes come back unchanged, "
                       "refusals are errors, every index below dim() reads the matching field; non-trivial = distinct case"
                       % (n, n))
    # constructed values of the 'to' shapes (rendered by the main harness)
    rendered = sfv.run_impl(dev, [[2] + sp for sp in to_specs])
    impl = stages.correspondence(rep, "geo", geo, cases, "geo(to / from / dims)")
    fimpl = stages.correspondence(rep, "geo_file", geo, fcases, "geo(shapes read from a file -> geometry)")
    nfail_f = 0
    for c, (code, rec), r in zip(fcases, fmeta, fimpl):
        msg = None
        if r[0] != 0 or r[1] != 2:
            msg = "a conformant file could not be read or converted: %r" % (r[:4],)
        else:
            cur = C.Cur(r[2:])
            if cur.next() != 0:
                msg = "a %s read from a file was refused" % shapes.TYPE_NAMES[code]
            else:
                g = parse_geo(cur)
                pts = [list(p) for p in rec["pts"]]
                if code in refesri.MULTIPOINT:
                    ok = g == ("multipoint", pts)
                else:
                    offs = rec["offsets"] + [len(pts)]
                    ok = g == ("multiline", [pts[a:b] for a, b in zip(offs, offs[1:])])
                if not ok:
                    msg = ("X/Y pairs, order or grouping changed converting a %s read from a file (parts of %r points) to geo-types"
                           % (shapes.TYPE_NAMES[code], [b - a for a, b in zip((rec.get("offsets") or [0]) + [len(pts)], ((rec.get("offsets") or [0]) + [len(pts)])[1:])]))
                elif cur.next() != 1:
                    msg = "a null shape read from a file was not refused"
        if msg:
            nfail_f += 1
            if nfail_f == 1:
                rep.violation({"kind": "oracle", "what": msg, "case_kind": "geo", "case": c})
    nfail, f12, k = 0, 0, 0
    for c, (kind, info), r in zip(cases, meta, impl):
        rep.dist(kind if kind != "from" else "from_" + info[0])
        msg = None
        if kind == "to":
            val = rendered[k]
            k += 1
            if val[0] != 0:
                continue
            s = shapes.parse_shape(shapes.Cur(list(val[1:])))
            code = s["code"]
            strip_fan = code == 31 and any(t in (0, 1) for t in s["tags"])
            if code == 0 or strip_fan:
                if r != [1]:
                    msg = "null shape / strip or fan multipatch was not refused with an error: %r" % (r[:6],)
            elif r[0] != 0:
                msg = "conversion of a %s to geo-types failed: %r" % (shapes.TYPE_NAMES[code], r[:4])
            else:
                cur = C.Cur(r[1:])
                g = parse_geo(cur)
                xy = lambda pts: [[p[0], p[1]] for p in pts]
                if code in shapes.POINT_CODES:
                    ok = g == ("point", s["pt"][:2])
                elif code in shapes.MULTIPOINT_CODES:
                    ok = g == ("multipoint", xy(s["parts"][0]))
                elif code in shapes.POLYLINE_CODES:
                    ok = g == ("multiline", [xy(p) for p in s["parts"]])
                else:
                    # flatten: exterior then holes must be the rings in order (closed in X/Y by geo-types)
                    if code == 31:
                        outer = [t in (2, 4) for t in s["tags"]]
                    else:
                        outer = [t == 0 for t in s["tags"]]
                    flat = []
                    for ext, ints in g[1]:
                        flat.append((True, ext))
                        flat += [(False, i) for i in ints]
                    want = [(o, close_xy(xy(p))) for o, p in zip(outer, s["parts"])]
                    if want and not want[0][0]:
                        want = [(True, [])] + want          # inner ring without a previous outer ring
                        # every leading inner ring gets its own empty exterior
                        want, seen_outer, w2 = [], False, []
                        for o, p in zip(outer, s["parts"]):
                            if o:
                                seen_outer = True
                            if not o and not seen_outer:
                                w2.append((True, []))
                            w2.append((o, close_xy(xy(p))))
                        want = w2
                    ok = g[0] == "multipolygon" and flat == want
                if not ok:
                    msg = "X/Y pairs, order or grouping changed converting a %s to geo-types" % shapes.TYPE_NAMES[code]
                else:
                    tag = cur.next()
                    if code in (1, 8, 3) and tag == 0:
                        back = cur.v[cur.i:]
                        if list(back) != list(val[1:]):
                            msg = "converting a 2-D %s to geo-types and back does not yield the original shape" % shapes.TYPE_NAMES[code]
                    elif code == 5 and tag == 0:
                        back = shapes.parse_shape(shapes.Cur(list(cur.v[cur.i:])))
                        if s["tags"] and s["tags"][0] == 0 and (back["parts"] != s["parts"] or back["tags"] != s["tags"]):
                            # outer-first polygon whose rings all have non-zero area: identical; otherwise up to reversal
                            import pipeline as P
                            nz = all((P.shoelace_exact(xy(p))[0] or 0) != 0 for p in s["parts"])
                            if nz:
                                msg = "converting an outer-first 2-D polygon to geo-types and back does not yield the original rings"
                    elif tag == 2 and (code in (1, 8, 3) or (code == 5 and s["tags"] and s["tags"][0] == 0 and all(s["parts"]))):
                        msg = "converting back panicked"
        elif kind == "from":
            v, g = info
            if v in ("collection", "rect", "triangle"):
                if r != [1]:
                    msg = "%s was not refused with an error: %r" % (v, r[:4])
            elif v == "linestring1":
                if r == [2]:
                    f12 += 1
                elif r[0] != 0:
                    msg = "one-coordinate line string: %r" % (r[:4],)
            elif r[0] != 0:
                msg = "conversion of a geo-types %s failed: %r" % (v, r[:4])
            else:
                cur = C.Cur(r[1:])
                s = shapes.parse_shape(cur)
                tag = cur.next()
                g2 = parse_geo(cur) if tag == 0 else None
                if v == "point":
                    ok = s["code"] == 1 and s["pt"] == g and g2 == ("point", g)
                elif v == "line":
                    ok = s["parts"] == [g] and g2 == ("multiline", [g])
                elif v == "linestring":
                    ok = s["parts"] == [g] and g2 == ("multiline", [g])
                elif v == "multipoint":
                    ok = s["parts"] == [g] and g2 == ("multipoint", g)
                elif v == "multiline":
                    ok = s["parts"] == g and g2 == ("multiline", g)
                else:
                    polys = [g] if v == "polygon" else g
                    want = [[norm_ring(e)] + [norm_ring(i) for i in ints] for (e, ints) in polys]
                    got = [[norm_ring(e)] + [norm_ring(i) for i in ints] for (e, ints) in g2[1]] if g2 and g2[0] == "multipolygon" else None
                    # zero-area rings may change role (and hence grouping): compare the multiset of rings then
                    import pipeline as P
                    nz = all((P.shoelace_exact(close_xy(r0))[0] or 0) != 0 for (e, ints) in polys for r0 in [e] + ints)
                    if nz:
                        ok = got == want
                    else:
                        ok = got is not None and sorted(x for p in got for x in p) == sorted(x for p in want for x in p)
                if not ok:
                    msg = "geo-types %s -> shape -> geo-types changed coordinates or grouping" % v
        else:
            code, p = info
            d = {1: 2, 21: 3, 11: 4}[code]
            cnt = r[0]
            fields = p[:2] + ([p[2]] if d == 4 else []) + ([p[-1]] if d >= 3 else [])
            if not (2 <= cnt <= d):
                msg = "dimension count %d for a point type with %d fields" % (cnt, d)
            else:
                cur = C.Cur(r[1:])
                for i in range(cnt):
                    t = cur.next()
                    if t != 0:
                        msg = "index %d below the reported dimension count %d panics" % (i, cnt)
                        break
                    if cur.next() != fields[i]:
                        msg = "index %d does not return the matching field" % i
                        break
                rest = list(cur.v[cur.i:])
                if not msg and rest:
                    views = {1: "the value", 2: "a reference", 3: "PointTrait::coord of the value", 4: "PointTrait::coord of a reference", 5: "PointTrait::dim"}
                    what = {-1: "reports another dimension count", -2: "x / y / x_y disagree", -3: "panics", -4: "has no coordinate"}
                    msg = ("geo-traits view through %s: %s" % (views.get(rest[1], rest[1]), what.get(rest[2], "index %d read through nth / nth_unchecked "
                           "does not return what nth_or_panic of the value returns" % rest[2]))) if rest[0] == -9 and len(rest) >= 3 else "unexpected output %r" % rest[:6]
        if msg:
            nfail += 1
            if nfail == 1:
                rep.violation({"kind": "oracle", "what": msg, "case_kind": "geo", "case": c, "impl_result": r[:80]})
    if f12:
        if listed:
            rep.known_finding("F12 a geo-types LineString with exactly one coordinate makes From<LineString> panic "
                              "(Polyline::new asserts two points): %d cases of this run" % f12)
        else:
            rep.violation({"kind": "oracle", "what": "a one-coordinate LineString makes the conversion panic", "case_kind": "geo",
                           "case": [11, 3, 1, 0, 0]})
    rep.cov["known_finding_F12_cases"] = f12
    rep.sample({"case": cases[3][:20], "kind": meta[3][0]})
    rep.cov["oracle"] = {"checked": len(cases), "failing": nfail}
    rep.assumptions += ["geo-types (Polygon::new / interiors_push closing rings) and geo-traits are modelled, not verified"]
