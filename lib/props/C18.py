"""C18 — A shape's announced byte size equals what its serialisation emits."""
import shapes
import sfv
import stages


def oracle(case, r):
    if r[0] == 2:
        return None          # constructor refused the input (panic): no shape, nothing to check
    if r[0] != 0:
        return "unexpected result tag %d" % r[0]
    size, n = r[1], r[2]
    lens = r[3:3 + n]
    nbytes = r[3 + n]
    if size != nbytes:
        return "size_in_bytes() = %d but write_to emitted %d bytes" % (size, nbytes)
    if sum(lens) != nbytes:
        return "chunk lengths do not add up"
    if (size + 4) % 2 != 0:
        return "size + 4 is odd: the record length in words would be inexact"
    return None


def record_lengths(rep, dev, tier, rng):
    """The content length the writer stores in each record header (and in the
    index entry) = (size_in_bytes + 4) / 2 of THAT shape: sequences of shapes
    of one type with different sizes, read off the real bytes."""
    import struct
    import cases as C
    wcases, metas = [], []
    for code in shapes.ALL_CODES:
        for rep_i in range(4 if tier == "thorough" else 2):
            n = rng.randint(2, 4)
            specs = [shapes.gen_ctor(rng, code, "mixed", True, 1 + 2 * k, 2 + 3 * k) for k in range(n)]
            rng.shuffle(specs)
            calls = [("w", sp) for sp in specs]
            if rep_i == 1:
                # a shape of another type offered in between (refused): it must leave no byte behind
                other = shapes.gen_ctor(rng, rng.choice([t for t in shapes.ALL_CODES if t != code]), "small")
                calls.insert(rng.randint(1, len(calls)), ("w", other))
            wcases.append(C.whist_case(True, 0, calls))
            metas.append(specs)
    # records whose content exceeds 65 535 and 131 071 words (a word count kept in 16 or 17 bits would wrap), each followed by a
    # small record
    for code, npts in ((8, 8200), (13, 4100), (18, 8200)) + (((28, 8300), (5, 16400)) if tier == "thorough" else ()):
        specs = [shapes.grid_ctor(rng, code, 1, npts, "small"), shapes.grid_ctor(rng, code, 1, 3, "small")]
        wcases.append(C.whist_case(True, 0, [("w", sp) for sp in specs]))
        metas.append(specs)
    sizes = sfv.run_impl(dev, [[3] + sp for specs in metas for sp in specs])
    nsmall = len(wcases) - (5 if tier == "thorough" else 3)
    impl = stages.correspondence(rep, "reclen", dev, wcases[:nsmall], "whist(record lengths)")
    impl += stages.correspondence(rep, "reclen_big", dev, wcases[nsmall:], "whist(record lengths above 65535 words)", model=False)   # the model writer is quadratic in the file size
    k, nfail = 0, 0
    for c, specs, r in zip(wcases, metas, impl):
        res = C.parse_whist(r)
        want = [sizes[k + i][1] for i in range(len(specs))]
        k += len(specs)
        if "special" in res:
            continue
        shp, shx, pos, msg = res["shp"]["buf"], res["shx"]["buf"], 100, None
        for i, size in enumerate(want):
            num, words = struct.unpack(">ii", shp[pos:pos + 8])
            off, xwords = struct.unpack(">ii", shx[100 + 8 * i:108 + 8 * i])
            if words * 2 != size + 4:
                msg = "record %d: header stores %d words, size_in_bytes() + 4 = %d bytes" % (i + 1, words, size + 4)
            elif xwords != words or off * 2 != pos:
                msg = "index entry %d (%d, %d) does not match the record at byte %d with %d words" % (i, off, xwords, pos, words)
            if msg:
                break
            pos += 8 + size + 4
        if not msg and pos != len(shp):
            msg = "records do not fill the file: %d of %d bytes" % (pos, len(shp))
        rep.dist("record_length_files")
        if msg:
            nfail += 1
            if nfail == 1:
                rep.violation({"kind": "oracle", "what": msg, "case_kind": "whist", "case": c})
    rep.cov["record_length_oracle"] = {"files": len(wcases), "failing": nfail}


def run(rep, tier, rng):
    stages.proof_stage(rep, "C18")
    dev = sfv.build_harness("dev")
    hi = 6 if tier == "thorough" else 5
    cases = []
    for code in shapes.ALL_CODES:
        for nparts in range(0, hi + 1):
            for npts in range(0, hi + 1):
                cases.append([3] + shapes.grid_ctor(rng, code, nparts, npts))
                rep.dist("grid")
    # counts beyond 1024 (the reader's pre-sizing cap, a natural block size) for every kind of count: parts, rings,
    # patches, points of a multipoint, points of one part
    for code in shapes.ALL_CODES:
        if code in shapes.POINT_CODES:
            continue
        for nparts, npts in (((1025, 1), (1, 1030)) if code not in shapes.MULTIPOINT_CODES else ((1, 1026),)):
            if code in shapes.POLYLINE_CODES and npts < 2:
                npts = 2
            if tier != "thorough" and code not in (8, 3, 15, 31, 28):
                continue
            cases.append([3] + shapes.grid_ctor(rng, code, nparts, npts))
            rep.dist("beyond_1024")
    nrand = 3000 if tier == "thorough" else 400
    for i in range(nrand):
        code = rng.choice(shapes.ALL_CODES)
        big = rng.random() < 0.2
        cases.append([3] + shapes.gen_ctor(rng, code, "mixed", valid=rng.random() < 0.9,
                                           max_parts=25 if big else 5, max_pts=30 if big else 7))
        rep.dist("random_large" if big else "random")
    rep.cov["rule"] = ("enc cases: dense grid (13 types x parts 0..%d x points per part 0..%d) plus %d random constructor "
                       "calls (20%% large: up to 25 parts x 30 points) plus shapes with more than 1024 parts / rings / patches / points; shapes are built by the public constructors, then "
                       "size_in_bytes() and write_to(chunk-logging sink) are called through WritableShape; non-trivial = "
                       "constructor accepted the input and the result is distinct" % (hi, hi, nrand))
    rep.sample({"case": cases[40], "meaning": "kind 3 (enc) + constructor spec"})
    impl = stages.correspondence(rep, "enc", dev, cases, "enc", nontrivial=lambda c, r: r[0] == 0, oracle=oracle)
    for c, r in zip(cases, impl):
        rep.dist("ctor_panic" if r[0] == 2 else "encoded")
        if r[0] == 0:
            rep.dist("type_%s" % shapes.TYPE_NAMES[c[1]])
    record_lengths(rep, dev, tier, rng)
    # ---- shapes that only the READER produces (no part at all, empty and one-vertex parts, empty multipoints), written
    # again: a file copy.  What the writer emits for them must again be a strictly well-formed file with the same
    # structure (announced sizes = emitted sizes, record after record)
    import cases as C
    import files as F
    import refesri
    ccases, cmeta = [], []
    for code in F.ALL_TYPES:
        for k in range(8 if tier == "thorough" else 3):
            if code in refesri.POINT:
                m = F.gen_model(rng, code, nrecs=2, null_prob=0.0)
            elif code in refesri.MULTIPOINT:
                m = F.gen_model(rng, code, nrecs=3, null_prob=0.0, max_pts=[0, 1, 3][k % 3])
            else:
                lens = [[], [0], [0, 2], [2, 0], [1], [3, 1, 0]][(k + code) % 6]
                m = {"type": code, "box": [0] * 8, "records": [{"num": 1, "shape": F.gen_rec(rng, code, "finite", lens=lens)},
                                                               {"num": 2, "shape": F.gen_rec(rng, code, "finite", lens=[2])},
                                                               {"num": 3, "shape": F.gen_rec(rng, code, "finite", lens=[])}]}
            m.pop("trailing", None)
            ccases.append([14] + C.pack_bytes(refesri.encode_shp(m)))
            cmeta.append(m)
    cimpl = stages.correspondence(rep, "copy", dev, ccases, "copy(read, then write again)")
    nfail = 0
    for c, m, r in zip(ccases, cmeta, cimpl):
        msg = None
        if r[0] == 2 or r in ([-2], [-5]):
            msg = "panic while copying a conformant file"
        elif r[0] == 1:
            msg = "a conformant file could not be read: %r" % (r[:3],)
        else:
            res = C.parse_whist(r[1:])
            if any(x != ("ok",) for x in res["results"]):
                msg = "a shape obtained from the reader could not be written: %r" % (res["results"],)
            else:
                try:
                    dec = refesri.strict_decode_shp(res["shp"]["buf"], require_numbering=True)
                    want = [(x["shape"]["code"], x["shape"].get("offsets"), len(x["shape"].get("pts", []))) for x in m["records"] if x["shape"]["code"] != 0]
                    got = [(x["shape"]["code"], x["shape"].get("offsets"), len(x["shape"].get("pts", []))) for x in dec["records"]]
                    if got != want:
                        msg = "the copy holds records %r, the original %r" % (got[:4], want[:4])
                except refesri.Malformed as e:
                    msg = "the copy of a conformant file is not well-formed (announced and emitted sizes differ?): %s" % e
        if msg:
            nfail += 1
            if nfail == 1:
                rep.violation({"kind": "oracle", "what": msg, "case_kind": "copy", "case": c, "type": m["type"]})
    rep.cov["files_copied"] = len(ccases)
    rep.assumptions += ["shapes the constructors refuse (no part, 0/1-vertex polyline parts, empty multipoint) are covered "
                        "by the theorem (all shape values) and by the reader-built values of C03/C01 cases",
                        "content-length field of written record headers: theorem C18_record_len plus the writer cases of C02/C04"]
