"""C18 — A shape's announced byte size equals what its serialisation emits."""
import shapes
import sfv
import stages


def oracle(case, r):
    if r[0] == 2:
        return None          # constructor refused the input (panic): no shape, nothing to check
    if r[0] != 0:
        return "unexpected result tag %d" % r[0]
    size, n = r[1], r[2]
    lens = r[3:3 + n]
    nbytes = r[3 + n]
    if size != nbytes:
        return "size_in_bytes() = %d but write_to emitted %d bytes" % (size, nbytes)
    if sum(lens) != nbytes:
        return "chunk lengths do not add up"
    if (size + 4) % 2 != 0:
        return "size + 4 is odd: the record length in words would be inexact"
    return None


def run(rep, tier, rng):
    stages.proof_stage(rep, "C18")
    dev = sfv.build_harness("dev")
    hi = 6 if tier == "thorough" else 5
    cases = []
    for code in shapes.ALL_CODES:
        for nparts in range(0, hi + 1):
            for npts in range(0, hi + 1):
                cases.append([3] + shapes.grid_ctor(rng, code, nparts, npts))
                rep.dist("grid")
    nrand = 3000 if tier == "thorough" else 400
    for i in range(nrand):
        code = rng.choice(shapes.ALL_CODES)
        big = rng.random() < 0.2
        cases.append([3] + shapes.gen_ctor(rng, code, "mixed", valid=rng.random() < 0.9,
                                           max_parts=25 if big else 5, max_pts=30 if big else 7))
        rep.dist("random_large" if big else "random")
    rep.cov["rule"] = ("enc cases: dense grid (13 types x parts 0..%d x points per part 0..%d) plus %d random constructor "
                       "calls (20%% large: up to 25 parts x 30 points); shapes are built by the public constructors, then "
                       "size_in_bytes() and write_to(chunk-logging sink) are called through WritableShape; non-trivial = "
                       "constructor accepted the input and the result is distinct" % (hi, hi, nrand))
    rep.sample({"case": cases[40], "meaning": "kind 3 (enc) + constructor spec"})
    impl = stages.correspondence(rep, "enc", dev, cases, "enc", nontrivial=lambda c, r: r[0] == 0, oracle=oracle)
    for c, r in zip(cases, impl):
        rep.dist("ctor_panic" if r[0] == 2 else "encoded")
        if r[0] == 0:
            rep.dist("type_%s" % shapes.TYPE_NAMES[c[1]])
    rep.assumptions += ["shapes the constructors refuse (no part, 0/1-vertex polyline parts, empty multipoint) are covered "
                        "by the theorem (all shape values) and by the reader-built values of C03/C01 cases",
                        "content-length field of written record headers: theorem C18_record_len plus the writer cases of C02/C04"]
