"""C14 — With an index, records are located by the index alone."""
import itertools

import cases as C
import files as F
import refesri
import sfv
import stages


def build_layout(rng, model, perm, fillers, filler_bytes):
    """Physical file: header, then for each physical slot filler + record.
    perm[k] = index (in index order) of the record stored in physical slot k.
    Returns (shp bytes, index entries in index order)."""
    recs = model["records"]
    body, pos = bytearray(), 100
    offs = {}
    for k, i in enumerate(perm):
        fl = filler_bytes(2 * fillers[k])
        body += fl
        pos += len(fl)
        b = refesri.encode_record(recs[i]["num"], recs[i]["shape"])
        offs[i] = (pos // 2, (len(b) - 8) // 2)
        body += b
        pos += len(b)
    fl = filler_bytes(2 * fillers[len(perm)])
    body += fl
    pos += len(fl)
    shp = refesri.encode_header(model["type"], model["box"], pos // 2) + bytes(body)
    return shp, [offs[i] for i in range(len(recs))]


def histories(n, key):
    hs = [[("it", -1)], [("count",), ("nth", 0), ("it", -1)]]
    order = list(range(n))
    order = order[::-1] if key % 2 else order[1:] + order[:1]
    hs.append([("nth", i) for i in order] + [("nth", n), ("it", 2), ("nth", 0), ("it", -1), ("count",)])
    if n:
        hs.append([("seek", n - 1), ("it", -1), ("seek", 0), ("it", 1), ("nth", n - 1), ("it", -1)])
        # iterator adaptors: skip / take inside and beyond the index
        hs.append([("skiptake", 1, 1), ("skiptake", n, 1), ("seek", 0), ("skiptake", n - 1, 2), ("nth", 0), ("skiptake", 0, n + 1)])
    # the bulk read (`read` / `read_as`), fresh and after a seek
    hs.append([("readall",)])
    if n:
        hs.append([("seek", n - 1), ("count",), ("readall",)])
    return hs


def expected(items, n, ops):
    import C04
    return C04.abstract_reader(n, ops)


def run(rep, tier, rng):
    import C04
    stages.proof_stage(rep, "C14")
    dev = sfv.build_harness("dev")
    cases, meta = [], []
    nmodels = 120 if tier == "thorough" else 26
    maxperm = 5 if tier == "thorough" else 4
    for mi in range(nmodels):
        code = F.ALL_TYPES[mi % 13]
        n = 1 + mi % maxperm
        model = F.gen_model(rng, code, nrecs=n, null_prob=0.1, allow_degenerate=True)
        model.pop("trailing", None)
        items = [refesri.denote(r["shape"]) for r in model["records"]]
        perms = list(itertools.permutations(range(n)))
        if tier != "thorough" and len(perms) > 6:
            perms = rng.sample(perms, 6)
        for pi, perm in enumerate(perms):
            for style in range(3 if tier == "thorough" else 2):
                if style == 0:
                    fillers = [rng.randint(0, 3) for _ in range(n + 1)]
                elif style == 1:
                    fillers = [rng.choice([0, 1, 1, 3, 17, 33]) for _ in range(n + 1)]
                else:
                    fillers = [0] * (n + 1)
                fb = (lambda k: bytes(rng.getrandbits(8) for _ in range(k))) if rng.random() < 0.7 else \
                     (lambda k: (refesri.encode_record(9, model["records"][0]["shape"]) * 4)[:k])
                shp, entries = build_layout(rng, model, perm, fillers, fb)
                shx = refesri.encode_shx(model, entries=entries)
                for ops in histories(n, mi + pi):
                    for req in ([-1] if (code == 0 or any(r["shape"]["code"] == 0 for r in model["records"])) else [-1, code]):
                        # every fifth history on sources (both .shp and .shx) that deliver a few bytes per read call
                        sched = [[3], [7, 1, 5], [8], [1]][len(cases) % 4] if len(cases) % 5 == 2 else ()
                        cases.append(C.read_case(req, shp, shx, ops, sched=sched))
                        meta.append((items, n, ops, perm, fillers, code))
                rep.dist("perm_identity" if list(perm) == sorted(perm) else "perm_other")
                rep.dist("leading_filler_words_%d" % min(fillers[0], 4))
                rep.dist("gap_odd_words", sum(1 for x in fillers if x % 2 == 1))
    # ---- index entries that point beyond the end of the .shp (byte offsets up to and beyond 2^31): located by the
    # index alone, such an entry is answered with an end-of-file error and the others are unaffected
    far_cases, far_meta = [], []
    for mi in range(8 if tier == "thorough" else 4):
        code = F.ALL_TYPES[(3 * mi) % 13]
        model = F.gen_model(rng, code, nrecs=3, null_prob=0.0, allow_degenerate=False)
        model.pop("trailing", None)
        items = [refesri.denote(r["shape"]) for r in model["records"]]
        shp, entries = build_layout(rng, model, (0, 1, 2), [0, 1, 0, 0], lambda k: bytes(k))
        for far in ((1 << 30), (1 << 30) + 32, (1 << 31) - 1, (1 << 29) + 7, len(shp) // 2 + 4):
            for at in (1, 3):
                ent = list(entries)
                ent.insert(at, (far, 14))
                shx = refesri.encode_shx(model, entries=ent)
                ops = [("count",), ("it", -1), ("nth", at), ("nth", 0), ("nth", 3)]
                far_cases.append(C.read_case(-1, shp, shx, ops))
                far_meta.append((items, at, far, ops))
    rep.dist("index_entry_beyond_the_end", len(far_cases))
    # ---- more than 1024 index entries (beyond the reader's pre-sizing cap), physical order reversed; the model
    # reader is quadratic in the file size, so this file goes through the implementation and the oracle only
    nbig = 1030 if tier != "thorough" else 2100
    bigmodel = F.gen_model(rng, 1, nrecs=nbig, null_prob=0.0)
    bigmodel.pop("trailing", None)
    big_items = [refesri.denote(r["shape"]) for r in bigmodel["records"]]
    big_shp, big_entries = build_layout(rng, bigmodel, tuple(reversed(range(nbig))), [0] * (nbig + 1), lambda k: bytes(k))
    big_shx = refesri.encode_shx(bigmodel, entries=big_entries)
    big_ops = [("count",), ("it", -1), ("nth", nbig - 1), ("nth", 1024), ("nth", nbig), ("hint",), ("it", 3)]
    big_case = C.read_case(-1, big_shp, big_shx, big_ops)
    rep.cov["rule"] = ("%d record sets (14 type codes incl. null records, 1-%d records, foreign layouts) x permutations of the "
                       "physical order x filler lengths 0..3 words (and 17/33 words) before, between and after the records x filler "
                       "content random or record-like; header length covers the file; histories {iterate; count+nth(0)+iterate; "
                       "nth in non-monotone order + partial iteration + nth + iterate; seek + iterate}; generic and typed; "
                       "oracle: answers = abstract reader over the Python denotation of the records in index order; "
                       "plus indexes with an entry pointing beyond the end of the .shp (word offsets up to i32::MAX) and one index of "
                       "more than 1024 entries in reversed physical order (implementation + oracle only), the bulk read (read / read_as) "
                       "fresh and after a seek, rotated layouts placed on disk under plain and dotted names and read by path; "
                       "non-trivial = distinct case" % (nmodels, maxperm))
    impl = stages.correspondence(rep, "read", dev, cases, "read(permuted/filler layouts)")
    nfail = 0
    for c, (items, n, ops, perm, fillers, code), r in zip(cases, meta, impl):
        want = [("ok", it) for it in items]
        rd = C.parse_read(r, ops)
        msg = C04.check_against_abstract(rd, ops, want, n)
        if msg:
            nfail += 1
            if nfail == 1:
                rep.violation({"kind": "oracle", "what": msg, "case_kind": "read", "case": c, "ops": ops,
                               "physical_order": list(perm), "filler_words": fillers, "type": code})
    # ---- a record of ANOTHER type with a payload (a Point among Multipoints) stored directly before the record the index
    # lists next, no filler: the typed reader answers it with an error and must still find the next record where the
    # index says
    mixed_cases, mixed_meta = [], []
    for trial in range(6 if tier != "thorough" else 30):
        pt = lambda k: {"code": 8, "box": [1, 2, 3, 4], "pts": [[0x3FF0000000000000 + (k << 40) + j, 0x4000000000000000 + j] for j in range(1 + k % 3)]}
        mm = {"type": 8, "box": [0] * 8, "records": [{"num": 1, "shape": pt(1)}, {"num": 2, "shape": {"code": 1, "x": 0x3FF0000000000000, "y": 0x4000000000000000}},
                                                    {"num": 3, "shape": pt(2)}, {"num": 4, "shape": pt(3)}]}
        perm = [(0, 1, 2, 3), (1, 2, 0, 3), (0, 3, 1, 2), (3, 1, 2, 0), (1, 2, 3, 0), (2, 1, 3, 0)][trial % 6]
        mshp, mentries = build_layout(rng, mm, perm, [0] * 5, lambda k: bytes(k))
        mshx = refesri.encode_shx(mm, entries=mentries)
        items = [("ok", refesri.denote(r["shape"])) for r in mm["records"]]
        items[1] = ("err", 8, 8, 1)
        for ops in ([("it", -1)], [("it", 2), ("it", -1)], [("nth", 1), ("it", -1)], [("seek", 1), ("it", -1), ("nth", 2)]):
            mixed_cases.append(C.read_case(8, mshp, mshx, ops))
            mixed_meta.append((items, ops, perm))
    mimpl = stages.correspondence(rep, "read_mixed", dev, mixed_cases, "read(typed iteration over a record of another type, no filler)")
    for c, (items, ops, perm), r in zip(mixed_cases, mixed_meta, mimpl):
        msg = C04.check_against_abstract(C.parse_read(r, ops), ops, items, 4)
        if msg:
            nfail += 1
            rep.violation({"kind": "oracle", "what": "Multipoint file with a Point record (physical order %r, no filler), typed reader: %s" % (list(perm), msg),
                           "case_kind": "read", "case": c, "ops": ops})
            break
    # ---- the complete reader (shapes paired with table rows) counts shapes by the index too, whatever the table holds
    import C08
    m4 = F.gen_model(rng, 1, nrecs=4, null_prob=0.0)
    m4.pop("trailing", None)
    shp4, shx4 = refesri.encode_shp(m4), refesri.encode_shx(m4)
    ccases = [[17, -1] + C.pack_bytes(shp4) + [1] + C.pack_bytes(shx4) + [nrows] + C08.pair_case([], [("count",), ("it", -1)])[2:] for nrows in (0, 3, 4, 6, 9)]
    for c, r in zip(ccases, stages.correspondence(rep, "pairfile", dev, ccases, "pairfile(shape_count of the complete reader)", vm_sample=5)):
        if r[:1] == [0]:
            res = C08.parse_pair([0, 0, 0, 0] + r, 0, [("count",), ("it", -1)])
            if res["ops"][0]["count"] != 4:
                nfail += 1
                rep.violation({"kind": "oracle", "what": "the complete reader on an index of 4 entries beside a table of %d rows reports %r shapes"
                               % (c[-7] if False else [x for x in (0, 3, 4, 6, 9)][ccases.index(c)], res["ops"][0]["count"]), "case_kind": "pairfile", "case": c[:60]})
                break
    # ---- permuted layouts on disk under a dotted name, read through the path-based one-liners (which must find and
    # follow the .shx beside the .shp)
    import pathio
    pn = 0
    for mi in range(10 if tier != "thorough" else 40):
        code = F.ALL_TYPES[(5 * mi + 1) % 13]
        model = F.gen_model(rng, code, nrecs=3 + mi % 2, null_prob=0.0, allow_degenerate=False)
        model.pop("trailing", None)
        nrec = len(model["records"])
        perm = tuple(list(range(1, nrec)) + [0])          # a rotation: not an involution
        shp, entries = build_layout(rng, model, perm, [1] * (nrec + 1), lambda k: bytes(k))
        shx = refesri.encode_shx(model, entries=entries)
        msg = pathio.check(rep, dev, "c14", ["plain%d" % mi, "parcels.v%d" % mi, "survey.2024.%d" % mi][mi % 3], shp, shx, code,
                           "permuted layout with index on disk")
        pn += 1
        if msg:
            nfail += 1
            if nfail == 1:
                rep.violation({"kind": "oracle", "what": msg, "case_kind": "path", "physical_order": list(perm)})
    # the index of more than 1024 entries on disk (the path-based readers go through std's 8 KiB buffered reader: the
    # entries straddle its refills), read by path
    msg = pathio.check(rep, dev, "c14", "big.index", big_shp, big_shx, 1, "index of %d entries (reversed layout) on disk" % nbig)
    pn += 1
    if msg:
        nfail += 1
        rep.violation({"kind": "oracle", "what": msg, "case_kind": "path"})
    pathio.cleanup("c14")
    rep.cov["permuted_layouts_read_by_path"] = pn
    # entries beyond the end
    far_impl = stages.correspondence(rep, "read_far", dev, far_cases, "read(index entries beyond the end of the .shp)")
    for c, (items, at, far, ops), r in zip(far_cases, far_meta, far_impl):
        rd = C.parse_read(r, ops)
        msg = None
        if rd.get("panic") or "open_err" in rd:
            msg = "reader could not be opened or panicked on an index with an entry beyond the end: %r" % (rd,)
        else:
            got = rd["ops"][1]["items"]
            want = [("ok", it) for it in items]
            want.insert(at, None)
            if len(got) != 4:
                msg = "iteration over 4 index entries yielded %d items" % len(got)
            else:
                for g, wv in zip(got, want):
                    if wv is None:
                        if tuple(g) != ("err", 1):
                            msg = "entry at word offset %d (beyond the end of the .shp) answered %r instead of an end-of-file error" % (far, g)
                    elif tuple(g) != tuple(wv):
                        msg = "a record next to an entry beyond the end was not read as stored"
            nth = rd["ops"][2]["nth"]
            if not msg and (nth is None or nth[0] != "err"):
                msg = "random access at the entry beyond the end returned %r" % (nth,)
        if msg:
            nfail += 1
            if nfail == 1:
                rep.violation({"kind": "oracle", "what": msg, "case_kind": "read", "case": c, "ops": ops})
    # the large index
    big_impl = stages.correspondence(rep, "read_big", dev, [big_case], "read(%d index entries)" % nbig, model=False)
    rd = C.parse_read(big_impl[0], big_ops)
    msg = C04.check_against_abstract(rd, big_ops, [("ok", it) for it in big_items], nbig) if not (rd.get("panic") or "open_err" in rd) \
        else "reader could not be opened on an index of %d entries" % nbig
    if msg:
        nfail += 1
        rep.violation({"kind": "oracle", "what": "index of %d entries: %s" % (nbig, msg), "case_kind": "read", "case": big_case[:200]})
    rep.sample({"physical_order": list(meta[3][3]), "filler_words": meta[3][4], "ops": meta[3][2]})
    rep.cov["oracle"] = {"checked": len(cases), "failing": nfail}
