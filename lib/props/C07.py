"""C07 — Reading arbitrary bytes never panics, overflows or runs forever."""
import struct

import cases as C
import files as F
import refesri
import sfv
import stages

OPS = [("count",), ("it", -1), ("nth", 0), ("nth", 1), ("seek", 1), ("it", -1), ("nth", 5), ("hint",), ("it", 2)]
OPS_NOIDX = [("it", -1), ("nth", 0), ("count",), ("it", -1)]


def mutants_of(rng, model, tier):
    """(label, shp, shx or None) for one valid file."""
    offs = []
    shp = refesri.encode_shp(model, offs)
    shx = refesri.encode_shx(model)
    out = []
    vals = F.BOUNDARY if tier == "thorough" else F.BOUNDARY[:12]
    for (off, kind, endian) in offs:
        for v in vals:
            m = F.set_i32(shp, off, v, endian)
            out.append(("shp:%s=%d" % (kind, v), m, shx if rng.random() < 0.5 else None))
    # index fields: header length, every offset and length
    nent = (len(shx) - 100) // 8
    for k in range(nent):
        for which in (0, 4):
            for v in vals:
                out.append(("shx:%s=%d" % ("offset" if which == 0 else "length", v),
                            shp, F.set_i32(shx, 100 + 8 * k + which, v, ">")))
    for v in vals:
        out.append(("shx:file_length=%d" % v, shp, F.set_i32(shx, 24, v, ">")))
        out.append(("shx:file_code=%d" % v, shp, F.set_i32(shx, 0, v, ">")))
    # consistent-but-unbacked counts: declare many points/parts and a matching record length
    for (off, kind, endian) in offs:
        if kind in ("num_points", "num_parts"):
            for big in (1 << 20, (1 << 27) - 1, 1 << 28):
                m = F.set_i32(shp, off, big, endian)
                # record length consistent with the count for a 2D multipoint/polyline layout
                rec_start = max(o for (o, k2, _) in offs if k2 == "record_number" and o < off)
                for words in ((40 + 16 * big) // 2, (44 + 4 * big + 16 * 3) // 2, (48 + 16 * big + 4) // 2):
                    if -(1 << 31) <= words < (1 << 31):
                        out.append(("shp:unbacked %s=%d" % (kind, big), F.set_i32(m, rec_start + 4, words, ">"), None))
    return out, shp, shx


def run(rep, tier, rng):
    stages.proof_stage(rep, "C07")
    dev = sfv.build_harness("dev")
    rel = sfv.build_harness("release")
    cases, labels = [], []
    seen_fields = set()
    nmodels = 26 if tier == "thorough" else 13
    for mi in range(nmodels):
        code = F.ALL_TYPES[mi % 13]
        model = F.gen_model(rng, code, nrecs=rng.randint(1, 2), null_prob=0.1, max_parts=2, max_pts=3, profile="finite",
                            allow_degenerate=False)   # every field exists; degenerate structures: family below
        model.pop("trailing", None)
        muts, shp, shx = mutants_of(rng, model, tier)
        if tier != "thorough":
            # a sample, but every (shape type, field kind, value) triple is kept
            kept = []
            for mu in muts:
                key = (code, mu[0])
                if key not in seen_fields or rng.random() < 0.45:
                    kept.append(mu)
                seen_fields.add(key)
            muts = kept
        for (label, m_shp, m_shx) in muts:
            req = -1 if rng.random() < 0.6 else code
            cases.append(C.read_case(req, m_shp, m_shx, OPS if m_shx is not None else OPS_NOIDX))
            labels.append(label.split("=")[0])
        # truncations and extensions at every length (step 1 around the header and first record, coarser later)
        step = 1 if tier == "thorough" else 3
        for l in list(range(0, min(len(shp), 190), step)) + list(range(190, len(shp) + 1, 7)):
            cases.append(C.read_case(-1, shp[:l], shx if l % 2 else None, OPS if l % 2 else OPS_NOIDX))
            labels.append("shp:truncated")
        for l in range(0, len(shx) + 1, 2 * step + 1):
            cases.append(C.read_case(-1, shp, shx[:l], OPS))
            labels.append("shx:truncated")
        for _ in range(6):
            ext = bytes(rng.getrandbits(8) for _ in range(rng.randint(1, 60)))
            cases.append(C.read_case(-1, shp + ext, (shx + ext) if rng.random() < 0.5 else shx, OPS))
            labels.append("extended")
        for _ in range(40 if tier == "thorough" else 12):
            b = bytearray(shp)
            for _k in range(rng.randint(1, 3)):
                b[rng.randrange(len(b))] ^= 1 << rng.randrange(8)
            with_idx = rng.random() < 0.5
            cases.append(C.read_case(-1 if rng.random() < 0.5 else code, bytes(b), shx if with_idx else None,
                                     OPS if with_idx else OPS_NOIDX))
            labels.append("bitflip")
    # conformant files with degenerate part structures: no part, empty parts in first / middle / last position,
    # one-vertex parts (valid input must not panic either)
    for code in [t for t in F.ALL_TYPES if t not in refesri.POINT and t not in refesri.MULTIPOINT]:
        for lens in ([], [0], [0, 0], [0, 3], [3, 0], [2, 0, 2], [1], [1, 0, 1], [0, 4, 0]):
            model = {"type": code, "box": [0] * 8,
                     "records": [{"num": 1, "shape": F.gen_rec(rng, code, "finite", lens=lens)},
                                 {"num": 2, "shape": F.gen_rec(rng, code, "finite", lens=[2])}]}
            shp, shx = refesri.encode_shp(model), refesri.encode_shx(model)
            for req in (-1, code):
                cases.append(C.read_case(req, shp, shx, OPS))
                labels.append("degenerate parts")
                cases.append(C.read_case(req, shp, None, OPS_NOIDX))
                labels.append("degenerate parts")
    # valid records with tens of thousands of parts (empty ones suffice), with and without the optional M block: depth
    # of any per-part recursion, quadratic per-part work (implementation only: the model reader is quadratic here)
    deep = []
    for code, nparts in ((23, 240000), (15, 240000), (31, 120000), (5, 60000)) + (((13, 240000), (25, 240000)) if tier == "thorough" else ()):
        rec = F.gen_rec(rng, code, "finite", lens=[0] * nparts)
        if code in refesri.HAS_M:
            rec["mrange"], rec["ms"] = [0, 0], []
        model = {"type": code, "box": [0] * 8, "records": [{"num": 1, "shape": rec}, {"num": 2, "shape": F.gen_rec(rng, code, "finite", lens=[2])}]}
        shp, shx = refesri.encode_shp(model), refesri.encode_shx(model)
        deep.append(C.read_case(-1, shp, None, [("it", -1)]))
        deep.append(C.read_case(code, shp, shx, [("nth", 0), ("it", -1)]))
    for _ in range(300 if tier == "thorough" else 60):
        tail = bytes(rng.getrandbits(8) for _ in range(rng.randint(0, 300)))
        data = struct.pack(">i", 9994) + tail
        cases.append(C.read_case(-1, data, None, OPS_NOIDX))
        labels.append("random tail")
        cases.append(C.read_case(-1, data, data, OPS))
        labels.append("random tail")
    # the ops of a case with index where shx=None were requested with OPS_NOIDX: normalise
    fixed = []
    for c in cases:
        fixed.append(c)
    cases = fixed
    for l in labels:
        rep.dist(l)
    rep.cov["rule"] = ("%d valid reference files x every 32-bit field (file code/length/version/type, record number, content "
                       "length, record type, part and point counts, every part offset, every patch kind; index header and every "
                       "index offset/length) x boundary values (0, +-1, +-2, 2^30-1, 2^30, 2^30+1, i32::MAX, i32::MIN, ...), "
                       "counts that are consistent with the declared record length but not backed by data, truncations and "
                       "extensions, bit flips, random bytes behind a valid file code; reader histories {count, iterate, random "
                       "access, seek, size hint}; dev profile (overflow checks, debug assertions) and release; every result "
                       "compared with the model; oracle: no panic, no dead process, every full iteration ends within the bound; "
                       "non-trivial = distinct case" % nmodels)
    impl = stages.correspondence(rep, "read", dev, cases, "read(malformed)")
    nfail = 0
    dimpl = sfv.run_impl(dev, deep) + sfv.run_impl(rel, deep)
    for c, r in zip(deep + deep, dimpl):
        rep.count_case((tuple(c[:6]), len(c), tuple(r[:4])))
        if r in ([-2], [2], [-5]) or r[:1] != [0]:
            nfail += 1
            rep.violation({"kind": "oracle", "what": "a valid record of tens of thousands of parts makes the reader %s"
                           % ("die (abort / stack overflow)" if r == [-2] else "hang" if r == [-5] else "fail or panic: %r" % (r[:4],)),
                           "case_kind": "read", "case_prefix": c[:12], "parts": "see lib/props/C07.py: deep"})
            break
    rep.cov["records_of_tens_of_thousands_of_parts"] = len(deep)
    err_kinds = {}
    for c, r, lab in zip(cases, impl, labels):
        msg = None
        if r == [2]:
            msg = "panic while reading malformed input (%s)" % lab
        elif r == [-2] or r == [-5]:
            msg = "harness process died (abort/stack overflow/hang) on malformed input (%s)" % lab
        else:
            has_idx = c[2] == 1
            ops = OPS if has_idx else OPS_NOIDX
            try:
                rd = C.parse_read(r, ops)
            except Exception as e:              # unparsable output = a panic item in the middle
                rd = None
                msg = "unparsable result (panic inside a call?) on %s: %r" % (lab, r[:20])
            if rd and "ops" in rd:
                for o, got in zip(ops, rd["ops"]):
                    if o[0] == "it":
                        if o[1] < 0 and not got["ended"]:
                            msg = "iteration did not end within the bound (%s)" % lab
                        for it in got["items"]:
                            if it[0] == "panic":
                                msg = "panic item (%s)" % lab
                            if it[0] == "err":
                                err_kinds[C.ERR_NAMES.get(it[1], str(it[1]))] = err_kinds.get(C.ERR_NAMES.get(it[1], str(it[1])), 0) + 1
                    if o[0] == "nth" and got["nth"] is not None and got["nth"][0] == "panic":
                        msg = "panic in read_nth (%s)" % lab
            elif rd and "open_err" in rd:
                k = C.ERR_NAMES.get(rd["open_err"][0], "?")
                err_kinds["open:" + k] = err_kinds.get("open:" + k, 0) + 1
        if msg:
            nfail += 1
            if nfail == 1:
                rep.violation({"kind": "oracle", "what": msg, "case_kind": "read", "case": c, "impl_result": r[:60]})
    rep.cov["error_kinds_hit"] = err_kinds
    # release build: wrapping arithmetic must give the same answers
    rimpl = sfv.run_impl(rel, cases)
    diff = [i for i, (a, b) in enumerate(zip(impl, rimpl)) if a != b]
    rep.cov["release_vs_dev_differences"] = len(diff)
    if diff:
        i = diff[0]
        rep.violation({"kind": "oracle", "what": "release build (wrapping arithmetic) answers differently from the dev build "
                       "(checked arithmetic) on malformed input (%s)" % labels[i], "case": cases[i], "dev": impl[i][:60],
                       "release": rimpl[i][:60]})
    rep.sample({"mutation": labels[3], "case_prefix": cases[3][:16]})
    rep.cov["oracle"] = {"checked": len(cases), "failing": nfail}
    rep.assumptions += ["stack exhaustion, allocator abort and wall-clock hang are runtime behaviours: the model carries their "
                        "causes (arithmetic, counts, termination measure); the harness watches for them (catch_unwind, watchdog "
                        "thread, pull cap)"]
