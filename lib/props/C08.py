"""C08 — Shapes and attribute rows stay paired one-to-one through write and read."""
import itertools

import cases as C
import pipeline as P
import shapes
import sfv
import stages


def pair_case(calls, ops):
    """calls: list of (row kind, ctor spec); ops: ('it', j) | ('seek', k) | ('count',)."""
    out = [9, len(calls)]
    for kind, spec in calls:
        out += [kind] + spec
    out.append(len(ops))
    for o in ops:
        out += [0, o[1]] if o[0] == "it" else ([2, o[1]] if o[0] == "seek" else ([6] if o[0] == "readall" else [3]))
    return out


def parse_pair(r, ncalls, ops):
    c = C.Cur(r)
    n = c.next()
    results = [c.res_unit() for _ in range(n)]
    counts = (c.next(), c.next(), c.next())
    tag = c.next()
    if tag != 0:
        return {"results": results, "counts": counts, "open_err": True}
    outs = []
    for o in ops:
        if o[0] == "it":
            k = c.next()
            items = []
            for _ in range(k):
                t = c.next()
                if t == 0:
                    start = c.i
                    shapes.parse_shape(c)
                    sh = c.v[start:c.i]
                    items.append(("ok", sh, c.next()))
                elif t == 1:
                    items.append(("err",) + tuple(c.err()))
                else:
                    items.append(("panic",))
            outs.append({"items": items, "ended": c.next()})
        elif o[0] == "seek":
            outs.append({"seek": c.res_unit()})
        elif o[0] == "readall":
            t = c.next()
            if t == 0:
                k = c.next()
                pairs = []
                for _ in range(k):
                    start = c.i
                    shapes.parse_shape(c)
                    sh = c.v[start:c.i]
                    pairs.append(("ok", sh, c.next()))
                outs.append({"items": pairs, "ended": 1})
            else:
                outs.append({"items": [("err",) + tuple(c.err())], "ended": 1})
        else:
            t = c.next()
            outs.append({"count": c.next() if t == 0 else None})
    assert c.at_end()
    return {"results": results, "counts": counts, "ops": outs}


def run(rep, tier, rng):
    stages.proof_stage(rep, "C08")
    dev = sfv.build_harness("dev")
    listed = [f for f in sfv.load_known_findings().get("findings", []) if f.get("id") == "F10"]
    L = 4 if tier == "thorough" else 3
    alphabet = ["a", "b", "x", "m", "t"]       # pair a, pair b (other size), shape of another type, row missing field, row wrong type
    hists = [list(t) for k in range(0, L + 1) for t in itertools.product(alphabet, repeat=k)]
    cases, meta = [], []
    codes = shapes.ALL_CODES if tier == "thorough" else [shapes.ALL_CODES[i] for i in (0, 4, 7, 9, 12)]
    variants = [(code, "mixed") for code in codes] + [(code, "nom") for code in shapes.ALL_CODES if shapes.dim_of(code) >= 3]
    # polygons and multipatches with an empty later ring / patch (the constructors accept them)
    variants += [(code, "emptypart") for code in shapes.POLYGON_CODES + [31]]
    for code, prof in variants:
        if prof == "emptypart":
            d = shapes.dim_of(code)
            tag = lambda: rng.randint(0, 1) if code != 31 else rng.randint(0, 5)
            ring = lambda n: [tag()] + shapes.flat_pts(shapes.gen_pts(rng, d, n, "small"))
            a = [code, 1, 2] + ring(3) + ring(0)
            b = [code, 1, 3] + ring(4) + ring(0) + ring(3)
        else:
            a = shapes.gen_ctor(rng, code, prof, True, 1, 2)
            b = shapes.gen_ctor(rng, code, prof, True, 3, 4)
        x = shapes.gen_ctor(rng, rng.choice([t for t in shapes.ALL_CODES if t != code]), "small", True, 1, 2)
        for h in hists:
            if prof in ("nom", "emptypart") and (len(h) > 3 or any(ch in "mt" for ch in h)):
                continue                           # measured types with every measure = NO_DATA: short clean histories
            if tier != "thorough" and len(h) == L and rng.random() < 0.6:
                continue
            calls = [(0, a) if ch == "a" else (0, b) if ch == "b" else (0, x) if ch == "x" else (1, a) if ch == "m" else (2, b)
                     for ch in h]
            n_ok = sum(1 for ch in h if ch in "ab")
            # count, everything, seek, one pair, the rest; then again: seek and the bulk read (`Reader::read`), which
            # starts where the reader stands, shapes and rows alike
            ops = [("count",), ("it", -1), ("seek", min(1, n_ok)), ("it", 1), ("it", -1), ("seek", min(1, n_ok)), ("readall",)]
            cases.append(pair_case(calls, ops))
            meta.append((h, calls, ops, code))
    # the bare ShapeWriter finalized (once or twice, nothing written yet) before `Writer::new` wraps it, then pairs
    pre_cases, pre_meta = [], []
    for code in (shapes.ALL_CODES if tier == "thorough" else rng.sample(shapes.ALL_CODES, 4)):
        a, b = shapes.gen_ctor(rng, code, "small", True, 1, 2), shapes.gen_ctor(rng, code, "small", True, 2, 3)
        for npre in (1, 2):
            calls = [(4, [0])] * npre + [(0, a), (0, b), (0, a)]
            pre_cases.append(pair_case(calls, [("count",), ("it", -1)]))
            pre_meta.append((code, npre))
    # more than 1024 pairs
    big = [(0, shapes.gen_ctor(rng, 1, "small")) for _ in range(1030)]
    cases.append(pair_case(big, [("count",), ("it", -1)]))
    meta.append((["a"] * 1030, big, [("count",), ("it", -1)], 1))
    clean = [i for i, m in enumerate(meta) if not any(ch in "mt" for ch in m[0])]
    rep.cov["rule"] = ("exhaustive histories over {pair a, pair b (other size), pair with a shape of another type, pair whose row "
                       "misses the field, pair whose row has a value of the wrong type}^<=%d x %d types through the real Writer "
                       "(and, for the 9 measured types, shapes whose every measure is NO_DATA; for polygons and multipatches, shapes with "
                       "an empty later ring / patch) through "
                       "the real dbase TableWriter/Reader and the real Reader (in-memory destinations; rows carry their call "
                       "index), plus one history of 1030 pairs; entry counts read off the three real files; reader ops {count, "
                       "iterate all, seek, iterate 1, iterate all}; histories without rejected rows are compared with the "
                       "model (dbase = ordered row store); oracle: counts equal, failing calls change nothing, pairs come back "
                       "as (shape i, row i); histories with a rejected row are the known finding F10; non-trivial = distinct case"
                       % (L, len(codes)))
    impl_all = sfv.run_impl(dev, cases)
    stages.correspondence(rep, "pair", dev, [cases[i] for i in clean], "pair(histories without rejected rows)",
                          impl_out=[impl_all[i] for i in clean], vm_sample=40)
    renders = {}
    nfail, f10 = 0, 0
    ctor_specs = []
    for (h, calls, ops, code) in meta:
        for kind, spec in calls[:6]:
            ctor_specs.append(tuple(spec))
    uniq = list(dict.fromkeys(ctor_specs))
    rendered = dict(zip(uniq, [r[1:] for r in sfv.run_impl(dev, [[2] + list(sp) for sp in uniq])]))
    for i, ((h, calls, ops, code), r) in enumerate(zip(meta, impl_all)):
        if i not in clean:
            rep.count_case((cases[i], r))
        rep.dist("len_%d" % min(len(h), 9))
        if r in ([-4], [-2], [2], [-5]):
            nfail += 1
            if nfail == 1:
                rep.violation({"kind": "oracle", "what": "panic in the complete writer/reader", "case": cases[i][:300], "history": "".join(h)})
            continue
        res = parse_pair(r, len(calls), ops)
        bad_rows = any(ch in "mt" for ch in h)
        msg = None
        # results of the calls
        ftype = None
        exp_pairs = []
        for j, (ch, (kind, spec)) in enumerate(zip(h, calls)):
            t = spec[0]
            got = res["results"][j]
            if ftype is None or t == ftype:
                ftype = t
                if kind == 0:
                    if got != ("ok",):
                        msg = "call %d (acceptable pair) returned %r" % (j, got)
                    exp_pairs.append((spec, j))
                elif got[0] != "err":
                    msg = "call %d with a row the table rejects returned Ok" % j
            elif got != ("err", 8, ftype, t):
                msg = "call %d with a shape of another type returned %r" % (j, got)
        nrec, nidx, nrows = res["counts"]
        if not msg and not bad_rows:
            if not (nrec == nidx == nrows == len(exp_pairs)):
                msg = "entry counts differ: %d shp records, %d shx entries, %d dbf rows, %d accepted pairs" % (nrec, nidx, nrows, len(exp_pairs))
            elif "ops" not in res:
                msg = "reader could not be opened"
            else:
                n = len(exp_pairs)
                exp = [(P.on_read(list(rendered[tuple(sp)])) if len(h) <= 6 else None, idx) for sp, idx in exp_pairs]
                pos = 0
                for o, out in zip(ops, res["ops"]):
                    if o[0] == "count" and out["count"] != n:
                        msg = "shape_count %r, %d pairs written" % (out["count"], n)
                    elif o[0] == "seek":
                        pos = min(o[1], n)
                    elif o[0] in ("it", "readall"):
                        if o[0] == "readall":
                            o = ("it", -1)
                        want = exp[pos:] if o[1] < 0 else exp[pos:pos + o[1]]
                        got = out["items"]
                        if len(got) != len(want):
                            msg = "iteration from position %d yielded %d pairs, expected %d" % (pos, len(got), len(want))
                        else:
                            for g, wv in zip(got, want):
                                if g[0] != "ok" or g[2] != wv[1] or (wv[0] is not None and not P.same_modulo(wv[0][0], wv[0][1], g[1])):
                                    msg = "pair read back is not (shape i, row i): row id %r, expected %r" % (g[2] if g[0] == "ok" else g, wv[1])
                                    break
                        pos = n if (o[1] < 0 or len(want) < o[1]) else pos + o[1]
                    if msg:
                        break
        elif not msg and bad_rows:
            if not (nrec == nidx == nrows):
                f10 += 1          # the known finding: a rejected row leaves the shape behind
                continue
        if msg:
            nfail += 1
            if nfail == 1:
                rep.violation({"kind": "oracle", "what": msg, "case_kind": "pair", "case": cases[i][:400], "history": "".join(h[:40])})
    if f10:
        if listed:
            rep.known_finding("F10 write_shape_and_record writes the shape before the row: a call whose row the table rejects "
                              "leaves unequal entry counts (%d histories of this run)" % f10)
        else:
            rep.violation({"kind": "oracle", "what": "a call whose row is rejected leaves unequal entry counts (shape written, row not)",
                           "case_kind": "pair", "case": cases[[i for i, m in enumerate(meta) if any(ch in 'mt' for ch in m[0])][0]]})
    # ---- by path: two shapefiles with attribute tables side by side whose names share their first part
    # (`roads.north`, `roads.south`): each keeps its own .shx and .dbf
    import os
    import shutil
    import subprocess
    d = os.path.join(sfv.CACHE, "tmp", "c08pp")
    shutil.rmtree(d, ignore_errors=True)
    os.makedirs(d, exist_ok=True)
    pr = subprocess.run([os.path.join(sfv.TARGET, "debug", "runner"), "pathpair", d], stdout=subprocess.PIPE, text=True, timeout=120)
    lines = [l for l in pr.stdout.splitlines() if not l.startswith("WARNING")]
    want = "5 10 1000 11 1001 12 1002 13 1003 14 1004"
    present = sorted(os.listdir(d))
    shutil.rmtree(d, ignore_errors=True)
    if lines[:2] != [want, want]:
        nfail += 1
        rep.violation({"kind": "oracle", "what": "two shapefiles written side by side by path (roads.north, roads.south): reading the first back gives %r, "
                       "expected its own 5 pairs %r; files present: %r" % (lines[:2], want, present), "case_kind": "path"})
    elif present != ["roads.north.dbf", "roads.north.shp", "roads.north.shx", "roads.south.dbf", "roads.south.shp", "roads.south.shx"]:
        nfail += 1
        rep.violation({"kind": "oracle", "what": "Writer::from_path left the files %r" % (present,), "case_kind": "path"})
    rep.cov["path_pairs_side_by_side"] = 1
    # ---- Writer::from_path / Reader::from_path against the directory model (Model/Paths.v; lib/pathmodel.py)
    import pathmodel
    import random
    pathmodel.stage(rep, dev, random.Random(rep.seed * 7919 + 8), "c08p", 1, 500 if tier == "thorough" else 140)
    for c, (code, npre), r in zip(pre_cases, pre_meta, stages.correspondence(rep, "pair_pre", dev, pre_cases, "pair(bare ShapeWriter finalized before Writer::new)", vm_sample=8)):
        res = parse_pair(r, npre + 3, [("count",), ("it", -1)]) if r not in ([-4], [-2], [2], [-5]) else {}
        ids = [it[2] for it in res["ops"][1]["items"] if it[0] == "ok"] if "ops" in res else None
        if res.get("counts") != (3, 3, 3) or ids != [npre, npre + 1, npre + 2]:
            nfail += 1
            rep.violation({"kind": "oracle", "what": "ShapeWriter finalized %d time(s) before any shape, then wrapped by Writer::new, three pairs written: entry counts %r, "
                           "pairs read back carry the rows %r" % (npre, res.get("counts"), ids), "case_kind": "pair", "case": c[:200]})
            break
    rep.cov["known_finding_F10_cases"] = f10
    rep.sample({"history": "".join(meta[17][0]), "alphabet": "a,b = acceptable pairs; x = shape of another type; m,t = rejected rows"})
    rep.cov["oracle"] = {"checked": len(cases), "failing": nfail}
    rep.assumptions += ["dbase (TableWriter, Reader, RecordIterator, seek) is modelled as an ordered row store, not verified",
                        "files created and opened by path (Writer::from_path / Reader::from_path): which three files are created, "
                        "truncated and opened is modelled (Model/Paths.v, C08_three_files, C08_files_of_two_shapefiles_disjoint, "
                        "C08_open_after_write) and tied by the kind-16 correspondence; the bytes of the .dbf are dbase's"]
